#!/bin/sh
# Build the framework from files on disk only (offline).
set -e
cd "$(dirname "$0")"
export CARGO_NET_OFFLINE=true
python3 tools/gen_registry.py
cp /repo/Cargo.lock harness/Cargo.lock 2>/dev/null || true
(cd lean && lake build DfModel dfdrv DfModel.Audit.Tool)
# one build per harness binary, exactly as `check` builds them (cargo resolves features per -p selection)
for b in hutil hplan hfull hrt; do (cd harness && cargo build -p $b); done
echo "setup done"
