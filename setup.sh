#!/bin/sh
# Build the framework from files on disk only (offline).
set -e
cd "$(dirname "$0")"
export CARGO_NET_OFFLINE=true
python3 tools/gen_registry.py
cp /repo/Cargo.lock harness/Cargo.lock 2>/dev/null || true
(cd lean && lake build DfModel dfdrv DfModel.Audit.Tool)
(cd harness && cargo build --workspace)
echo "setup done"
