#!/usr/bin/env python3
"""
T2 — translator for Rust *decision tables* (see DESIGN.md §2.2).

usage:  rust2lean_tables.py <abs source .rs> <Lean namespace> <item>... <output .lean>

items (order matters only for the order of emission):
  import=<Lean module>            import + open the namespace of another generated file
  enum=<Name>                     field-less `enum Name` defined in <source>: emit an `inductive`
  enum=<Name>@<repo-rel path>     … defined in another file of the repository (emitted here)
  useenum=<Name>@<repo-rel path>  variants read from that file for checking, but NOT emitted
                                  (the inductive comes from an `import=`-ed generated module)
  useenum=<Name>                  same, enum defined in <source>
  extenum=<Name>:<V1,V2,…>[;<Ctor(Nat,Int)>…]
                                  enum of a third-party crate: the property declares the finite
                                  universe it covers (field-less variants) and payload constructors
                                  that may appear in results only
  fn=<name>                       free function
  fn=<Type>::<name>               method in an inherent `impl Type` / `impl<T> Type<T>`
  from=<A>-><B>                   `impl From<A> for B` / `impl From<&A> for B`   (def `conv_A_B`)

The accepted subset (anything else → exit code 3 and `T2-UNSUPPORTED: …`, i.e. a broken tie):
  body   ::= [`use path::*;`]*  ( `match` scrut `{` arm* `}`  |  `matches!(` scrut `,` pat `)`
                                 | scrut `==` path (`||` scrut `==` path)* )
             | `match self.<field> {` stmt-arm* `}` `Ok(self)`                (Transformed dispatch)
  scrut  ::= ident | `self` | `*`scrut | `(` scrut, … `)` | `self.`field
  pat    ::= `_` | `true` | `false` | path | bare variant (needs a glob `use`) | `(`pat, …`)`
             | pat `|` pat | `&`pat                                  — no bindings, no guards
  result ::= `true` | `false` | path | `Self::V` | `(`result, …`)` | `Some(`result`)` | `None`
             | `Ok(`result`)` | a parameter / `self` | Ctor`(`int, …`)` | `f()` (closure call)
             | `{` result `}`
Semantics are first-match, exactly as in Rust; or-patterns are expanded to Lean alternatives;
alternatives that are unreachable in Rust are dropped (Lean rejects redundant alternatives).

The generated file also contains, for the line protocol, `Name.all`, `Name.name`, `Name.ofName?`,
`Show` instances and `eval : String → List String → Option String` evaluating any generated table on
argument names — used by the harness to validate every table exhaustively against the compiled code.
"""
import hashlib
import itertools
import os
import re
import sys


class Unsupported(Exception):
    pass


# ------------------------------------------------------------------ lexical layer
def blank(src):
    """same-length copy with comments and the contents of string/char literals blanked"""
    out = list(src)
    n = len(src)

    def wipe(a, b):
        for k in range(a, min(b, n)):
            if out[k] != "\n":
                out[k] = " "

    i = 0
    while i < n:
        c = src[i]
        if src.startswith("//", i):
            j = src.find("\n", i)
            j = n if j < 0 else j
            wipe(i, j)
            i = j
        elif src.startswith("/*", i):
            depth, j = 1, i + 2
            while j < n and depth:
                if src.startswith("/*", j):
                    depth += 1
                    j += 2
                elif src.startswith("*/", j):
                    depth -= 1
                    j += 2
                else:
                    j += 1
            wipe(i, j)
            i = j
        elif c == '"':
            j = i + 1
            while j < n and src[j] != '"':
                j += 2 if src[j] == "\\" else 1
            wipe(i + 1, j)
            i = j + 1
        elif c == "r" and (i == 0 or not (src[i - 1].isalnum() or src[i - 1] == "_")) and re.match(r'r#*"', src[i:i + 12]):
            m = re.match(r'r(#*)"', src[i:i + 12])
            close = '"' + m.group(1)
            j = src.find(close, i + len(m.group(0)))
            j = n if j < 0 else j
            wipe(i + len(m.group(0)), j)
            i = j + len(close)
        elif c == "'":
            m = re.compile(r"'(\\[^']+|[^\\'])'").match(src, i)
            if m:
                wipe(i + 1, m.end() - 1)
                i = m.end()
            else:
                i += 1  # lifetime
        else:
            i += 1
    return "".join(out)


def match_brace(b, i):
    """b[i] == '{' → index one past the matching '}'"""
    assert b[i] == "{"
    depth = 0
    for j in range(i, len(b)):
        if b[j] == "{":
            depth += 1
        elif b[j] == "}":
            depth -= 1
            if depth == 0:
                return j + 1
    raise Unsupported("unbalanced braces")


TOK = re.compile(r"\s*(?:(\d[\d_]*[A-Za-z0-9_]*)|(matches!|[A-Za-z_][A-Za-z0-9_]*)|(::|=>|->|\|\||&&|==|!=|\|=|\.\.|[-+*/%&|^<>=!(){}\[\],;:.#@?'\"]))")


def tokenize(s):
    pos, out = 0, []
    while pos < len(s):
        if s[pos:].strip() == "":
            break
        m = TOK.match(s, pos)
        if not m:
            raise Unsupported(f"cannot tokenize at {s[pos:pos + 40]!r}")
        if m.group(1):
            out.append(("num", m.group(1)))
        elif m.group(2):
            out.append(("id", m.group(2)))
        else:
            if m.group(3) == '"':
                raise Unsupported("string literal inside a table")
            out.append(("p", m.group(3)))
        pos = m.end()
    return out


class Toks:
    def __init__(self, toks):
        self.t, self.i = toks, 0

    def peek(self, k=0):
        return self.t[self.i + k] if self.i + k < len(self.t) else ("eof", "")

    def at(self, v, k=0):
        return self.peek(k)[1] == v and self.peek(k)[0] != "eof"

    def eat(self, v=None, kind=None):
        tk = self.peek()
        if (v is not None and tk[1] != v) or (kind and tk[0] != kind) or tk[0] == "eof":
            ctx = " ".join(x[1] for x in self.t[max(0, self.i - 4):self.i + 6])
            raise Unsupported(f"expected {v or kind!r}, got {tk[1]!r} near `{ctx}`")
        self.i += 1
        return tk[1]

    def done(self):
        return self.i >= len(self.t)

    def rest_text(self, n=12):
        return " ".join(x[1] for x in self.t[self.i:self.i + n])


LEAN_KW = {"Type", "Prop", "Sort", "end", "at", "from", "in", "fun", "let", "do", "if", "then", "else", "match", "with",
           "where", "def", "theorem", "namespace", "open", "import", "instance", "class", "structure", "inductive",
           "have", "show", "by", "for", "return", "mut", "private", "protected", "deriving", "section", "variable"}


def lid(name):
    return f"«{name}»" if name in LEAN_KW else name


# ------------------------------------------------------------------ source model
class Source:
    def __init__(self, path):
        self.path = path
        self.raw = open(path, encoding="utf-8").read()
        self.b = blank(self.raw)

    def block_after(self, header_re, start=0, end=None):
        m = re.compile(header_re, re.M | re.S).search(self.b, start, end if end is not None else len(self.b))
        if not m:
            return None
        i = self.b.index("{", m.end() - 1)
        return m.start(), i, match_brace(self.b, i)

    def all_blocks(self, header_re):
        out, pos = [], 0
        while True:
            r = self.block_after(header_re, pos)
            if not r:
                return out
            out.append(r)
            pos = r[2]


def repo_root(path):
    d = os.path.dirname(os.path.abspath(path))
    env = os.environ.get("VERIF_REPO")
    if env and os.path.abspath(path).startswith(os.path.abspath(env) + os.sep):
        return os.path.abspath(env)
    while d != "/":
        if os.path.exists(os.path.join(d, "Cargo.lock")):
            return d
        d = os.path.dirname(d)
    raise Unsupported("repository root (Cargo.lock) not found above " + path)


class EnumDef:
    def __init__(self, name, variants, payload=None, emitted=True, origin=""):
        self.name, self.variants, self.payload = name, variants, payload or []  # payload: [(ctor, [lean types])]
        self.emitted, self.origin = emitted, origin


def parse_enum(src, name):
    r = src.block_after(r"\benum\s+" + re.escape(name) + r"\b[^{;]*\{")
    if not r:
        raise Unsupported(f"enum {name} not found in {src.path}")
    s, i, e = r
    t = Toks(tokenize(src.b[i + 1:e - 1]))
    variants = []
    while not t.done():
        while t.at("#"):
            t.eat("#")
            t.eat("[")
            depth = 1
            while depth:
                v = t.eat()
                depth += (v == "[") - (v == "]")
        if t.done():
            break
        v = t.eat(kind="id")
        if t.at("(") or t.at("{"):
            raise Unsupported(f"variant {name}::{v} carries data (only field-less enums are tables)")
        if t.at("="):
            t.eat("=")
            if t.at("-"):
                t.eat()
            t.eat(kind="num")
        variants.append(v)
        if not t.done():
            t.eat(",")
    if not variants:
        raise Unsupported(f"enum {name} has no variants")
    return variants, (s, e)


# ------------------------------------------------------------------ types
BOOL = ("bool",)


def ty_str(t):
    if t is None:
        return "?"
    if t == BOOL:
        return "Bool"
    if t[0] == "enum":
        return lid(t[1])
    if t[0] == "prod":
        return " × ".join(("(" + ty_str(x) + ")") if x[0] in ("prod",) else ty_str(x) for x in t[1])
    if t[0] == "opt":
        return "Option " + paren_ty(t[1])
    if t[0] == "act":
        return "Act " + paren_ty(t[1])
    raise Unsupported(f"type {t}")


def paren_ty(t):
    s = ty_str(t)
    return f"({s})" if " " in s else s


def unify(a, b, what):
    if a is None:
        return b
    if b is None:
        return a
    if a[0] != b[0]:
        raise Unsupported(f"arms of {what} have different types: {ty_str(a)} vs {ty_str(b)}")
    if a[0] in ("opt", "act"):
        return (a[0], unify(a[1], b[1], what))
    if a[0] == "prod":
        if len(a[1]) != len(b[1]):
            raise Unsupported(f"tuple arity differs in {what}")
        return ("prod", [unify(x, y, what) for x, y in zip(a[1], b[1])])
    if a != b:
        raise Unsupported(f"arms of {what} have different types: {ty_str(a)} vs {ty_str(b)}")
    return a


# ------------------------------------------------------------------ the translator proper
MERGE_CALL = "f ( self . data ) . map ( | mut t | { t . transformed |= self . transformed ; t } )".split()


class T2:
    def __init__(self, path, ns):
        self.src = Source(path)
        self.ns = ns
        self.enums = {}  # name -> EnumDef
        self.imports = []
        self.hash_parts = []
        self.items_doc = []
        self.defs = []  # (lean name, rust name, [(param lean name, type)], ret type, text)
        self.out = []

    # ---- items
    def add_enum(self, spec, emitted):
        name, _, rel = spec.partition("@")
        if rel:
            p = os.path.join(repo_root(self.src.path), rel)
            if not os.path.exists(p):
                raise Unsupported(f"file {rel} for enum {name} does not exist")
            src = Source(p)
        else:
            src = self.src
        variants, (s, e) = parse_enum(src, name)
        self.enums[name] = EnumDef(name, variants, emitted=emitted, origin=f"{src.path} bytes {s}..{e}")
        self.hash_parts.append(src.raw[s:e])
        self.items_doc.append(f"enum {name} [{src.path if rel else 'source'} bytes {s}..{e}]{'' if emitted else ' (imported)'}")

    def add_extenum(self, spec):
        name, _, rest = spec.partition(":")
        fl, _, pay = rest.partition(";")
        variants = [v for v in fl.split(",") if v]
        payload = []
        for p in [x for x in pay.split(";") if x]:
            m = re.fullmatch(r"(\w+)\(([\w,]*)\)", p)
            if not m or any(t not in ("Nat", "Int") for t in m.group(2).split(",")):
                raise Unsupported(f"bad payload constructor spec {p}")
            payload.append((m.group(1), m.group(2).split(",")))
        if not name or not variants:
            raise Unsupported(f"bad extenum spec {spec}")
        self.enums[name] = EnumDef(name, variants, payload, True, "declared universe (third-party enum)")
        self.hash_parts.append("extenum " + spec)
        self.items_doc.append(f"extenum {name} (universe declared by the property: {len(variants)} field-less variants, {len(payload)} payload ctor)")

    # ---- locating functions
    def find_fn(self, spec):
        b = self.src.b
        if "::" in spec:
            ty, name = spec.split("::")
            blocks = self.src.all_blocks(r"^\s*impl\s*(<[^{;]*?>)?\s+" + re.escape(ty) + r"\b\s*(<[^{;]*?>)?\s*(where[^{]*)?\{")
            blocks = [x for x in blocks if " for " not in b[x[0]:x[1]]]
            hits = []
            for (s, i, e) in blocks:
                for m in re.finditer(r"\bfn\s+" + re.escape(name) + r"\b", b[i:e]):
                    hits.append(i + m.start())
            self_ty = ty
        else:
            name = spec
            hits = [m.start() for m in re.finditer(r"\bfn\s+" + re.escape(name) + r"\b", b)]
            self_ty = None
        if len(hits) != 1:
            raise Unsupported(f"fn {spec}: {len(hits)} definitions found (need exactly 1)")
        return self.fn_at(hits[0], self_ty)

    def find_from(self, a, bty):
        blocks = self.src.all_blocks(r"^\s*impl\s+From\s*<\s*&?\s*" + re.escape(a) + r"\s*>\s+for\s+" + re.escape(bty) + r"\s*\{")
        if len(blocks) != 1:
            raise Unsupported(f"impl From<{a}> for {bty}: {len(blocks)} found (need exactly 1)")
        s, i, e = blocks[0]
        hits = [i + m.start() for m in re.finditer(r"\bfn\s+from\b", self.src.b[i:e])]
        if len(hits) != 1:
            raise Unsupported(f"impl From<{a}> for {bty}: fn from not found")
        return self.fn_at(hits[0], bty)

    def fn_at(self, pos, self_ty):
        b = self.src.b
        i = b.index("{", pos)
        # the first '{' after the header could belong to a where clause / generic bound: none in the subset
        e = match_brace(b, i)
        header = Toks(tokenize(b[pos:i]))
        header.eat("fn")
        name = header.eat(kind="id")
        closures = set()
        if header.at("<"):
            depth = 0
            gen = []
            while True:
                v = header.eat()
                depth += (v == "<") - (v == ">")
                gen.append(v)
                if depth == 0:
                    break
            # generic params bound by Fn*/FnOnce/FnMut are closures
            txt = " ".join(gen)
            for m in re.finditer(r"(\w+) : Fn(?:Once|Mut)? \(", txt):
                closures.add(m.group(1))
        header.eat("(")
        params, cur, depth = [], [], 0
        while True:
            v = header.eat()
            if v == ")" and depth == 0:
                if cur:
                    params.append(cur)
                break
            if v == "," and depth == 0:
                params.append(cur)
                cur = []
                continue
            depth += (v in "(<[") - (v in ")>]") if len(v) == 1 else 0
            cur.append(v)
        ret = []
        if header.at("->"):
            header.eat("->")
            while not header.done() and not header.at("where"):
                ret.append(header.eat())
        return {"name": name, "params": params, "ret": ret, "closures": closures, "self_ty": self_ty,
                "body": (i + 1, e - 1), "span": (pos, e)}

    def struct_field_type(self, struct, field):
        r = self.src.block_after(r"\bstruct\s+" + re.escape(struct) + r"\b[^{;]*\{")
        if not r:
            raise Unsupported(f"struct {struct} not found (needed for self.{field})")
        s, i, e = r
        self.hash_parts.append(self.src.raw[s:e])
        m = re.search(r"\b" + re.escape(field) + r"\s*:\s*(\w+)\s*,", self.src.b[i:e])
        if not m:
            raise Unsupported(f"field {struct}.{field} not found")
        return m.group(1)

    # ---- types of parameters
    def rust_ty(self, toks, self_ty):
        toks = [t for t in toks if t not in ("&", "mut")]
        if toks and toks[0] == "'":  # lifetime
            toks = toks[2:]
        if toks == ["bool"]:
            return BOOL
        if toks == ["Self"] and self_ty in self.enums:
            return ("enum", self_ty)
        if len(toks) == 1 and toks[0] in self.enums:
            return ("enum", toks[0])
        return None

    # ---- patterns
    def parse_pat(self, t, comp_tys, globs, self_ty, top=True):
        """returns list of alternatives; an alternative is a list (len = len(comp_tys)) of atoms
        ('wild',) | ('bool', b) | ('ctor', enum, variant)"""
        alts = []
        if t.at("|"):
            t.eat("|")
        while True:
            alts += self.parse_pat1(t, comp_tys, globs, self_ty)
            if t.at("|"):
                t.eat("|")
                continue
            return alts

    def parse_pat1(self, t, comp_tys, globs, self_ty):
        k = len(comp_tys)
        if t.at("&"):
            t.eat("&")
            return self.parse_pat1(t, comp_tys, globs, self_ty)
        if t.at("_"):
            t.eat("_")
            return [[("wild",)] * k]
        if t.at("("):
            t.eat("(")
            comps = []
            while True:
                if len(comps) >= k:
                    raise Unsupported("tuple pattern wider than the scrutinee")
                comps.append(self.parse_pat(t, [comp_tys[len(comps)]], globs, self_ty))
                if t.at(","):
                    t.eat(",")
                    if t.at(")"):
                        break
                    continue
                break
            t.eat(")")
            if len(comps) == 1 and k == 1:
                return comps[0]
            if len(comps) != k:
                raise Unsupported(f"tuple pattern of arity {len(comps)} against scrutinee of arity {k}")
            return [[a[0] for a in combo] for combo in itertools.product(*comps)]
        if k != 1:
            raise Unsupported(f"non-tuple pattern `{t.rest_text(4)}` against a tuple scrutinee")
        ty = comp_tys[0]
        if t.at("true") or t.at("false"):
            v = t.eat()
            if ty != BOOL:
                raise Unsupported("bool pattern against non-bool scrutinee")
            return [[("bool", v == "true")]]
        # path
        segs = [t.eat(kind="id")]
        while t.at("::"):
            t.eat("::")
            segs.append(t.eat(kind="id"))
        if t.at("(") or t.at("{") or t.at("@") or t.at(".."):
            raise Unsupported(f"pattern `{'::'.join(segs)}` with sub-patterns / bindings / ranges")
        if ty == BOOL or ty[0] != "enum":
            raise Unsupported(f"pattern `{'::'.join(segs)}` against {ty_str(ty)}")
        en = self.enums[ty[1]]
        if len(segs) == 1:
            if segs[0] in en.variants and en.name in globs:
                return [[("ctor", en.name, segs[0])]]
            raise Unsupported(f"bare identifier `{segs[0]}` in a pattern is a binding (or the glob `use {en.name}::*` is missing)")
        q = segs[-2]
        if q == "Self":
            q = self_ty
        if q != en.name:
            raise Unsupported(f"pattern `{'::'.join(segs)}` is not a variant of {en.name}")
        if segs[-1] not in en.variants:
            raise Unsupported(f"`{'::'.join(segs)}`: {en.name} has no field-less variant {segs[-1]} in the covered universe")
        return [[("ctor", en.name, segs[-1])]]

    # ---- result expressions
    def parse_expr(self, t, env, globs, self_ty, closures, expect=None):
        """returns (lean text, type, is_call)"""
        if t.at("{"):
            t.eat("{")
            r = self.parse_expr(t, env, globs, self_ty, closures, expect)
            t.eat("}")
            return r
        if t.at("*"):
            t.eat("*")
            return self.parse_expr(t, env, globs, self_ty, closures, expect)
        if t.at("("):
            t.eat("(")
            items = [self.parse_expr(t, env, globs, self_ty, closures)]
            while t.at(","):
                t.eat(",")
                if t.at(")"):
                    break
                items.append(self.parse_expr(t, env, globs, self_ty, closures))
            t.eat(")")
            if any(x[2] for x in items):
                raise Unsupported("closure call inside a tuple")
            if len(items) == 1:
                return items[0]
            return "(" + ", ".join(x[0] for x in items) + ")", ("prod", [x[1] for x in items]), False
        if t.at("true") or t.at("false"):
            return t.eat(), BOOL, False
        if t.at("None") and not t.at("::", 1):
            t.eat()
            return "none", ("opt", None), False
        if (t.at("Some") or t.at("Ok")) and t.at("(", 1):
            w = t.eat()
            t.eat("(")
            inner = self.parse_expr(t, env, globs, self_ty, closures)
            t.eat(")")
            if inner[2]:
                raise Unsupported("closure call inside Some/Ok")
            if w == "Ok":
                return inner[0], inner[1], False
            return f"(some {inner[0]})", ("opt", inner[1]), False
        segs = [t.eat(kind="id")]
        while t.at("::"):
            t.eat("::")
            segs.append(t.eat(kind="id"))
        if len(segs) == 1 and segs[0] in closures:
            t.eat("(")
            t.eat(")")
            return "Act.call", ("act", None), True
        if len(segs) == 1 and segs[0] in env and not t.at("("):
            if t.at("."):
                raise Unsupported(f"method call / field access on `{segs[0]}` in a result")
            return env[segs[0]][0], env[segs[0]][1], False
        # enum variant (path, Self::V, or bare via glob), possibly with literal payload
        if len(segs) == 1:
            cands = [e for e in self.enums.values() if e.name in globs and (segs[0] in e.variants or segs[0] in [p[0] for p in e.payload])]
            if len(cands) != 1:
                raise Unsupported(f"cannot resolve `{segs[0]}` in a result expression")
            en = cands[0]
        else:
            q = self_ty if segs[-2] == "Self" else segs[-2]
            if q not in self.enums:
                raise Unsupported(f"`{'::'.join(segs)}`: unknown enum {q}")
            en = self.enums[q]
        v = segs[-1]
        if t.at("("):
            pc = dict(en.payload).get(v)
            if pc is None:
                raise Unsupported(f"`{en.name}::{v}(…)`: not a declared payload constructor")
            t.eat("(")
            args = []
            while not t.at(")"):
                neg = False
                if t.at("-"):
                    t.eat()
                    neg = True
                n = t.eat(kind="num")
                if not re.fullmatch(r"\d[\d_]*", n):
                    raise Unsupported(f"payload argument {n} is not a plain integer literal")
                args.append(("-" if neg else "") + n.replace("_", ""))
                if t.at(","):
                    t.eat(",")
            t.eat(")")
            if len(args) != len(pc):
                raise Unsupported(f"{en.name}::{v} expects {len(pc)} arguments")
            largs = " ".join(f"({a})" if a.startswith("-") else a for a in args)
            return f"({lid(en.name)}.{lid(v)} {largs})", ("enum", en.name), False
        if v not in en.variants:
            raise Unsupported(f"`{'::'.join(segs)}`: {en.name} has no field-less variant {v} in the covered universe")
        return f"{lid(en.name)}.{lid(v)}", ("enum", en.name), False

    # ---- domain bookkeeping (first-match reachability)
    def domain(self, ty):
        if ty == BOOL:
            return [("bool", True), ("bool", False)]
        en = self.enums[ty[1]]
        return [("ctor", en.name, v) for v in en.variants] + [("payload", en.name, p[0]) for p in en.payload]

    @staticmethod
    def atom_matches(atom, val):
        return atom[0] == "wild" or atom == val

    def lean_atom(self, a):
        if a[0] == "wild":
            return "_"
        if a[0] == "bool":
            return "true" if a[1] else "false"
        return f"{lid(a[1])}.{lid(a[2])}"

    # ---- one function
    def translate_fn(self, f, lean_name, rust_name):
        b = self.src.b
        s, e = f["body"]
        self.hash_parts.append(self.src.raw[f["span"][0]:f["span"][1]])
        self.items_doc.append(f"fn {rust_name} [bytes {f['span'][0]}..{f['span'][1]}]")
        t = Toks(tokenize(b[s:e]))
        self_ty = f["self_ty"]
        closures = set()
        env = {}  # rust name -> (lean name, type)
        lparams = []
        for p in f["params"]:
            if p[-1] == "self":
                if self_ty in self.enums:
                    env["self"] = ("self", ("enum", self_ty))
                    lparams.append(("self", ("enum", self_ty)))
                else:
                    env["self"] = None  # only self.<field> is usable
                continue
            if len(p) < 3 or p[1] != ":":
                if p[0] == "mut" and len(p) >= 4 and p[2] == ":":
                    p = p[1:]
                else:
                    raise Unsupported(f"parameter `{' '.join(p)}`")
            pname, pty = p[0], p[2:]
            if len(pty) == 1 and pty[0] in f["closures"]:
                closures.add(pname)
                continue
            ty = self.rust_ty(pty, self_ty)
            if ty is None:
                raise Unsupported(f"parameter `{pname}: {' '.join(pty)}` is neither bool nor a known field-less enum")
            env[pname] = (lid(pname), ty)
            lparams.append((lid(pname), ty))
        # glob imports in the body
        globs = set(self.file_globs)
        while t.at("use"):
            t.eat("use")
            segs = [t.eat(kind="id")]
            star = False
            while t.at("::"):
                t.eat("::")
                if t.at("*"):
                    t.eat("*")
                    star = True
                    break
                segs.append(t.eat(kind="id"))
            t.eat(";")
            if not star:
                raise Unsupported("non-glob `use` inside a table function")
            globs.add(segs[-1])

        def scrutinee(tk):
            """parse a scrutinee; returns list of (lean text, type)"""
            if tk.at("("):
                tk.eat("(")
                comps = []
                while True:
                    c = scrutinee(tk)
                    if len(c) != 1:
                        raise Unsupported("nested tuple scrutinee")
                    comps += c
                    if tk.at(","):
                        tk.eat(",")
                        continue
                    break
                tk.eat(")")
                return comps
            while tk.at("*") or tk.at("&"):
                tk.eat()
            name = tk.eat(kind="id")
            if name == "self" and tk.at("."):
                tk.eat(".")
                field = tk.eat(kind="id")
                if tk.at("(") or tk.at("."):
                    raise Unsupported("method call in scrutinee")
                fty = self.struct_field_type(self_ty, field)
                if fty not in self.enums:
                    raise Unsupported(f"self.{field} : {fty} is not a known field-less enum")
                nm = lid(field)
                if (nm, ("enum", fty)) not in lparams:
                    lparams.append((nm, ("enum", fty)))
                env["self." + field] = (nm, ("enum", fty))
                return [(nm, ("enum", fty), "self." + field)]
            if name not in env or env[name] is None:
                raise Unsupported(f"scrutinee `{name}` is not a bool/enum parameter")
            if tk.at(".") or tk.at("("):
                raise Unsupported(f"scrutinee `{name}…` is not a plain parameter")
            return [(env[name][0], env[name][1], name)]

        arms = []  # (alternatives, lean result text, type, is_call)
        form = None
        stmt_form = False
        if t.at("match"):
            form = "match"
            t.eat("match")
            scr = scrutinee(t)
            t.eat("{")
            comp_tys = [c[1] for c in scr]
            while not t.at("}"):
                alts = self.parse_pat(t, comp_tys, globs, self_ty)
                if t.at("if"):
                    raise Unsupported("match guard (`if …`) — not a decision table")
                t.eat("=>")
                # statement-shaped arms of the Transformed dispatch
                res = self.try_dispatch_arm(t, scr, self_ty)
                if res is None:
                    res = self.parse_expr(t, env, globs, self_ty, closures)
                    if t.at(".") or t.at("?"):
                        raise Unsupported(f"arm result continues with `{t.rest_text(4)}`")
                else:
                    stmt_form = stmt_form or res[3]
                    res = res[:3]
                if t.at(","):
                    t.eat(",")
                arms.append((alts, res[0], res[1], res[2]))
            t.eat("}")
            if stmt_form:
                for w in ["Ok", "(", "self", ")"]:
                    t.eat(w)
            if not t.done():
                raise Unsupported(f"code after the match: `{t.rest_text()}`")
        elif t.at("matches!"):
            form = "matches!"
            t.eat("matches!")
            t.eat("(")
            scr = scrutinee(t)
            t.eat(",")
            comp_tys = [c[1] for c in scr]
            alts = self.parse_pat(t, comp_tys, globs, self_ty)
            if t.at("if"):
                raise Unsupported("guard in matches!")
            if t.at(","):
                t.eat(",")
            t.eat(")")
            if not t.done():
                raise Unsupported(f"code after matches!: `{t.rest_text()}`")
            arms = [(alts, "true", BOOL, False), ([[("wild",)] * len(scr)], "false", BOOL, False)]
        else:
            # scrut == Path || scrut == Path …
            form = "== || =="
            alts = []
            scr = None
            while True:
                s1 = scrutinee(t)
                if scr is not None and [c[2] for c in s1] != [c[2] for c in scr]:
                    raise Unsupported("disjunction compares different values")
                scr = s1
                t.eat("==")
                alts += self.parse_pat1(t, [scr[0][1]], set(), self_ty)
                if t.at("||"):
                    t.eat("||")
                    continue
                break
            if not t.done():
                raise Unsupported(f"unsupported body: `{t.rest_text()}`")
            arms = [(alts, "true", BOOL, False), ([[("wild",)]], "false", BOOL, False)]

        # result type
        any_call = any(a[3] for a in arms)
        rty = None
        for a in arms:
            rty = unify(rty, a[2] if (a[3] or not any_call or a[2][0] == "act") else ("act", a[2]), rust_name)
        if rty is None or "?" in ty_str(rty):
            raise Unsupported(f"cannot determine the result type of {rust_name}")
        # first-match reachability over the whole finite domain
        doms = [self.domain(c[1]) for c in scr]
        remaining = set(itertools.product(*doms))
        lines = []
        dropped = 0
        for alts, txt, aty, is_call in arms:
            if any_call and not is_call and aty[0] != "act":
                txt = f"Act.ret {txt}"
            keep = []
            for alt in alts:
                hit = {v for v in remaining if all(self.atom_matches(a, x) for a, x in zip(alt, v))}
                if hit:
                    keep.append(alt)
                    remaining -= hit
                else:
                    dropped += 1
            if keep:
                pats = " | ".join(", ".join(self.lean_atom(a) for a in alt) for alt in keep)
                lines.append(f"  | {pats} => {txt}")
        if remaining:
            raise Unsupported(f"{rust_name}: match is not exhaustive over the covered universe (e.g. {sorted(remaining)[0]})")
        sig = " ".join(f"({n} : {ty_str(ty)})" for n, ty in lparams)
        if stmt_form or any(a[1] == "Act.callMerge" for a in arms):
            form = "dispatch on " + scr[0][2]
        doc = f"/-- `{rust_name}` ({form}{'; ' + str(dropped) + ' unreachable alternative(s) dropped' if dropped else ''}) -/"
        text = [doc, f"def {lean_name} {sig} : {ty_str(rty)} :=", f"  match {', '.join(c[0] for c in scr)} with"] + lines
        self.defs.append((lean_name, rust_name, lparams, rty, "\n".join(text)))

    def try_dispatch_arm(self, t, scr, self_ty):
        """statement-shaped arms of `Transformed::transform_*`; returns (text, type, is_call, needs_trailing_ok_self)"""
        def seq_at(i, words):
            return [x[1] for x in t.t[i:i + len(words)]] == words

        fty = scr[0][1] if len(scr) == 1 else None
        i = t.i
        n = len(MERGE_CALL)
        if seq_at(i, MERGE_CALL):
            t.i += n
            return "Act.callMerge", ("act", None), True, False
        if seq_at(i, ["{"] + MERGE_CALL + ["}"]):
            t.i += n + 2
            return "Act.callMerge", ("act", None), True, False
        if seq_at(i, ["{", "return"] + MERGE_CALL + [";", "}"]):
            t.i += n + 4
            return "Act.callMerge", ("act", None), True, True
        if seq_at(i, ["{", "}"]) and fty is not None and scr[0][2].startswith("self."):
            t.i += 2
            return f"Act.ret {scr[0][0]}", ("act", fty), False, True
        if seq_at(i, ["{"] + scr[0][2].split(".")[0:1] + ["."] + scr[0][2].split(".")[1:2] + ["="]) and scr[0][2].startswith("self."):
            t.i += 5
            segs = [t.eat(kind="id")]
            while t.at("::"):
                t.eat("::")
                segs.append(t.eat(kind="id"))
            t.eat(";")
            t.eat("}")
            en = self.enums[fty[1]]
            if segs[-2:-1] != [en.name] or segs[-1] not in en.variants:
                raise Unsupported(f"assignment of `{'::'.join(segs)}` to {scr[0][2]}")
            return f"Act.ret {lid(en.name)}.{lid(segs[-1])}", ("act", fty), False, True
        if seq_at(i, ["Ok", "(", "self", ")"]) and scr[0][2].startswith("self."):
            t.i += 4
            return f"Act.ret {scr[0][0]}", ("act", fty), False, False
        return None

    # ---- emission
    def emit(self):
        o = []
        sha = hashlib.sha256("\n--\n".join(self.hash_parts).encode("utf-8")).hexdigest()
        o.append("/- GENERATED by translate/rust2lean_tables.py (T2) — do not edit.")
        o.append(f"   source: {self.src.path}")
        for d in self.items_doc:
            o.append(f"   item  : {d}")
        o.append(f"   sha256: {sha}   (of the translated enum/struct/fn texts, in item order) -/")
        o.append("import DfModel.Base.Table")
        for m in self.imports:
            o.append(f"import {m}")
        o.append("set_option linter.unusedVariables false")
        o.append(f"namespace {self.ns}")
        o.append("open DfModel.Tbl")
        for m in self.imports:
            o.append(f"open {m}")
        o.append("")
        for en in self.enums.values():
            if not en.emitted:
                continue
            n = lid(en.name)
            o.append(f"/-- `{en.name}` — {en.origin} -/")
            o.append(f"inductive {n} where")
            for v in en.variants:
                o.append(f"  | {lid(v)}")
            for c, tys in en.payload:
                o.append(f"  | {lid(c)} " + " ".join(f"(a{i} : {ty})" for i, ty in enumerate(tys)))
            o.append("  deriving DecidableEq, Repr")
            o.append("")
            o.append(f"/-- the field-less variants, in source order (the domain enumerated by `decide` and by the harness) -/")
            o.append(f"def {n}.all : List {n} := [" + ", ".join(f".{lid(v)}" for v in en.variants) + "]")
            o.append("")
            o.append(f"def {n}.name : {n} → String")
            for v in en.variants:
                o.append(f"  | .{lid(v)} => \"{v}\"")
            for c, tys in en.payload:
                vs = " ".join(f"a{i}" for i in range(len(tys)))
                o.append(f"  | .{lid(c)} {vs} => \"({c}\" ++ " + " ++ ".join(f"\" \" ++ toString a{i}" for i in range(len(tys))) + " ++ \")\"")
            o.append("")
            o.append(f"def {n}.ofName? (s : String) : Option {n} := {n}.all.find? (fun v => v.name == s)")
            o.append(f"instance : Show {n} := ⟨{n}.name⟩")
            o.append("")
        for lean_name, rust_name, lparams, rty, text in self.defs:
            o.append(text)
            o.append("")
        # evaluator for the line protocol
        o.append("/-- `eval fn args`: evaluate a generated table on argument *names* (`t`/`f` for bools); `none` when the")
        o.append("    function or an argument is unknown.  Used only by the correspondence driver. -/")
        o.append("def eval (fn : String) (args : List String) : Option String :=")
        o.append("  match fn, args with")
        for lean_name, rust_name, lparams, rty, text in self.defs:
            vs = [f"x{i}" for i in range(len(lparams))]
            binds = []
            for v, (pn, pty) in zip(vs, lparams):
                if pty == BOOL:
                    binds.append(f"boolOfName? {v} >>= fun {v} =>")
                else:
                    binds.append(f"{lid(pty[1])}.ofName? {v} >>= fun {v} =>")
            call = f"{lean_name} " + " ".join(vs)
            o.append(f"  | \"{rust_name}\", [{', '.join(vs)}] => {' '.join(binds)} some (show_ ({call.strip()}))")
        o.append("  | _, _ => none")
        o.append("")
        o.append("/-- names of the generated tables (Rust paths) -/")
        o.append("def tables : List String := [" + ", ".join(f"\"{d[1]}\"" for d in self.defs) + "]")
        o.append("")
        o.append(f"end {self.ns}")
        return "\n".join(o) + "\n", sha

    def run(self, items):
        # file-level glob imports (`use foo::Enum::*;` outside any fn) also make bare variants visible
        self.file_globs = set(m.group(1) for m in re.finditer(r"^use\s+[\w:]*?(\w+)::\*\s*;", self.src.b, re.M))
        todo = []
        for it in items:
            k, _, v = it.partition("=")
            if k == "import":
                self.imports.append(v)
            elif k == "enum":
                self.add_enum(v, True)
            elif k == "useenum":
                self.add_enum(v, False)
            elif k == "extenum":
                self.add_extenum(v)
            elif k in ("fn", "from"):
                todo.append((k, v))
            else:
                raise Unsupported(f"unknown item `{it}`")
        for k, v in todo:
            if k == "fn":
                f = self.find_fn(v)
                lean_name = ".".join(lid(x) for x in v.split("::"))
                self.translate_fn(f, lean_name, v)
            else:
                a, _, bty = v.partition("->")
                f = self.find_from(a, bty)
                self.translate_fn(f, f"conv_{a}_{bty}", f"{a}->{bty}")
        if not self.defs and not any(e.emitted for e in self.enums.values()):
            raise Unsupported("nothing to translate")
        return self.emit()


if __name__ == "__main__":
    if len(sys.argv) < 5:
        print(__doc__)
        sys.exit(2)
    path, ns, items, outp = sys.argv[1], sys.argv[2], sys.argv[3:-1], sys.argv[-1]
    try:
        tr = T2(path, ns)
        text, sha = tr.run(items)
    except Unsupported as ex:
        print(f"T2-UNSUPPORTED: {path}: {ex}")
        sys.exit(3)
    except (OSError, ValueError, IndexError, KeyError) as ex:
        print(f"T2-ERROR: {path}: {type(ex).__name__}: {ex}")
        sys.exit(4)
    open(outp, "w", encoding="utf-8").write(text)
    print(f"T2-OK sha256={sha} defs={','.join(d[1] for d in tr.defs)} enums={','.join(e.name for e in tr.enums.values())}")
