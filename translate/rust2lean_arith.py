#!/usr/bin/env python3
"""
T1 — translator for straight-line unsigned-integer Rust (see DESIGN.md §2.2).

Input : a Rust source file, the name of an `enum` with struct-like variants over unsigned
        integer fields and of its inherent `impl`.
Output: a Lean 4 file defining
          * the inductive for the enum,
          * one `def` per translated function, over `Nat`, every operation with its Rust width
            and release-mode (wrapping) semantics made explicit through `DfModel.U.*`,
          * one `def …_noovf : Prop` per function: the conjunction of the side conditions under
            which no intermediate `+ - *` overflows / no division by zero happens (debug-build
            panics),
          * for a `match self { V { .. } => { for (index, hash) in hash_buffer.iter().enumerate()
            { let*; indices[E].push(index as u32); } } }` function: `def <fn>_bucket self hash`
            = `E` per arm (the bucket a row with that hash is appended to).
        plus a header with path, byte range and sha256 of the translated text.

Anything outside the subset raises `Unsupported`; the caller reports a broken tie.
"""
import hashlib
import re
import sys


class Unsupported(Exception):
    pass


# ------------------------------------------------------------------ source slicing
def find_block(src, header_re, start=0):
    m = re.compile(header_re, re.M).search(src, start)
    if not m:
        raise Unsupported(f"header not found: {header_re}")
    i = src.index("{", m.end() - 1)
    depth = 0
    j = i
    while j < len(src):
        c = src[j]
        if c == "{":
            depth += 1
        elif c == "}":
            depth -= 1
            if depth == 0:
                return m.start(), j + 1
        j += 1
    raise Unsupported("unbalanced braces")


def strip_comments(s):
    s = re.sub(r"//[^\n]*", "", s)
    s = re.sub(r"/\*.*?\*/", "", s, flags=re.S)
    return s


# ------------------------------------------------------------------ tokenizer
TOK = re.compile(
    r"\s*(?:(\d[\d_]*(?:u8|u16|u32|u64|u128|usize)?)|([A-Za-z_][A-Za-z0-9_]*)|(::|=>|>>|<<|==|!=|<=|>=|&&|\|\||[-+*/%&|^<>=!(){}\[\],;:.#]))"
)


def tokenize(s):
    s = strip_comments(s)
    pos = 0
    out = []
    while pos < len(s):
        if s[pos:].strip() == "":
            break
        m = TOK.match(s, pos)
        if not m:
            raise Unsupported(f"cannot tokenize at: {s[pos:pos+40]!r}")
        if m.group(1):
            out.append(("num", m.group(1)))
        elif m.group(2):
            out.append(("id", m.group(2)))
        else:
            out.append(("p", m.group(3)))
        pos = m.end()
    return out


# ------------------------------------------------------------------ parser
BINPREC = {
    "*": 10, "/": 10, "%": 10,
    "+": 9, "-": 9,
    "<<": 8, ">>": 8,
    "&": 7, "^": 6, "|": 5,
    "==": 4, "!=": 4, "<": 4, ">": 4, "<=": 4, ">=": 4,
    "&&": 3, "||": 2,
}
UTYPES = {"u8": 8, "u16": 16, "u32": 32, "u64": 64, "u128": 128, "usize": 64}


class P:
    def __init__(self, toks):
        self.t = toks
        self.i = 0

    def peek(self, k=0):
        return self.t[self.i + k] if self.i + k < len(self.t) else ("eof", "")

    def eat(self, kind=None, val=None):
        tk = self.peek()
        if (kind and tk[0] != kind) or (val is not None and tk[1] != val):
            raise Unsupported(f"expected {kind} {val}, got {tk} at {self.t[self.i:self.i+8]}")
        self.i += 1
        return tk

    def at(self, val):
        return self.peek()[1] == val and self.peek()[0] in ("p", "id")

    # ---- expressions
    def expr(self, minp=0):
        lhs = self.unary()
        while True:
            tk = self.peek()
            if tk[0] == "id" and tk[1] == "as":
                # cast binds tighter than any binary operator
                self.eat()
                ty = self.eat("id")[1]
                if ty not in UTYPES:
                    raise Unsupported(f"cast to {ty}")
                lhs = ("cast", ty, lhs)
                continue
            if tk[0] == "p" and tk[1] in BINPREC and BINPREC[tk[1]] >= minp:
                # generic '<' ambiguity does not arise in the subset
                op = self.eat()[1]
                rhs = self.expr(BINPREC[op] + 1)
                lhs = ("bin", op, lhs, rhs)
                continue
            return lhs

    def unary(self):
        tk = self.peek()
        if tk == ("p", "*"):
            self.eat()
            return self.unary()  # deref of a &u64: value semantics
        if tk == ("p", "&"):
            raise Unsupported("borrow expression")
        if tk == ("p", "!") or tk == ("p", "-"):
            raise Unsupported(f"unary {tk[1]}")
        return self.postfix()

    def postfix(self):
        e = self.primary()
        while True:
            if self.at(".") and self.peek(1)[0] == "id":
                self.eat()
                name = self.eat("id")[1]
                self.eat("p", "(")
                args = self.args()
                e = ("mcall", name, e, args)
                continue
            return e

    def args(self):
        args = []
        while not self.at(")"):
            args.append(self.expr())
            if self.at(","):
                self.eat()
        self.eat("p", ")")
        return args

    def primary(self):
        tk = self.peek()
        if tk[0] == "num":
            self.eat()
            m = re.match(r"([\d_]+)(u\d+|usize)?", tk[1])
            return ("lit", int(m.group(1).replace("_", "")), m.group(2))
        if tk == ("p", "("):
            self.eat()
            e = self.expr()
            self.eat("p", ")")
            return e
        if tk[0] == "id" and tk[1] == "if":
            return self.ifexpr()
        if tk[0] == "id":
            path = [self.eat("id")[1]]
            while self.at("::"):
                self.eat()
                path.append(self.eat("id")[1])
            if self.at("("):
                self.eat()
                return ("call", path, self.args())
            if self.at("{") and path[0] == "Self" and len(path) == 2:
                # struct-variant constructor
                self.eat()
                fields = []
                while not self.at("}"):
                    fname = self.eat("id")[1]
                    if self.at(":"):
                        self.eat()
                        fval = self.expr()
                    else:
                        fval = ("var", fname)
                    fields.append((fname, fval))
                    if self.at(","):
                        self.eat()
                self.eat("p", "}")
                return ("ctor", path[1], fields)
            if len(path) == 1:
                return ("var", path[0])
            return ("path", path)
        raise Unsupported(f"primary: {tk}")

    def ifexpr(self):
        self.eat("id", "if")
        c = self.expr()
        a = self.block()
        self.eat("id", "else")
        b = self.block()
        return ("if", c, a, b)

    # ---- blocks:  { let x = e; ... ; tail }
    def block(self):
        self.eat("p", "{")
        lets = []
        tail = None
        while not self.at("}"):
            tk = self.peek()
            if tk == ("id", "let"):
                self.eat()
                name = self.eat("id")[1]
                ty = None
                if self.at(":"):
                    self.eat()
                    ty = self.eat("id")[1]
                self.eat("p", "=")
                e = self.expr()
                self.eat("p", ";")
                lets.append((name, ty, e))
            elif tk == ("id", "debug_assert") or tk == ("id", "assert"):
                # debug_assert!(cond);  → recorded as a precondition
                self.eat()
                self.eat("p", "!")
                self.eat("p", "(")
                c = self.expr()
                self.eat("p", ")")
                self.eat("p", ";")
                lets.append(("__assert", None, c))
            elif tk == ("id", "match"):
                tail = self.matchexpr()
            elif tk == ("id", "for"):
                tail = self.forloop()
            elif tk == ("id", "indices") and self.peek(1) == ("p", "["):
                # indices[E].push(index as u32);
                self.eat()
                self.eat("p", "[")
                e = self.expr()
                self.eat("p", "]")
                self.eat("p", ".")
                self.eat("id", "push")
                self.eat("p", "(")
                self.expr()
                self.eat("p", ")")
                self.eat("p", ";")
                tail = ("bucket", e)
            else:
                tail = self.expr()
                if self.at(";"):
                    raise Unsupported("expression statement")
        self.eat("p", "}")
        return ("block", lets, tail)

    def forloop(self):
        # for (index, hash) in hash_buffer.iter().enumerate() { BODY }
        self.eat("id", "for")
        self.eat("p", "(")
        self.eat("id")
        self.eat("p", ",")
        hv = self.eat("id")[1]
        self.eat("p", ")")
        self.eat("id", "in")
        it = self.expr()
        ok = it == ("mcall", "enumerate", ("mcall", "iter", ("var", "hash_buffer"), []), [])
        if not ok:
            raise Unsupported(f"for-iterator {it}")
        body = self.block()
        return ("foreach", hv, body)

    def matchexpr(self):
        self.eat("id", "match")
        scrut = self.expr_nostruct()
        self.eat("p", "{")
        arms = []
        while not self.at("}"):
            self.eat("id", "Self")
            self.eat("p", "::")
            v = self.eat("id")[1]
            self.eat("p", "{")
            binds = []
            while not self.at("}"):
                binds.append(self.eat("id")[1])
                if self.at(","):
                    self.eat()
            self.eat("p", "}")
            self.eat("p", "=>")
            if self.at("{"):
                body = self.block()
            else:
                body = self.expr()
            if self.at(","):
                self.eat()
            arms.append((v, binds, body))
        self.eat("p", "}")
        return ("match", scrut, arms)

    def expr_nostruct(self):
        tk = self.eat("id")
        return ("var", tk[1])


# ------------------------------------------------------------------ typing + emission
class Emit:
    def __init__(self, enum_name, variants, fnsigs):
        self.enum = enum_name
        self.variants = variants  # name -> [(field, ty)]
        self.fnsigs = fnsigs  # name -> ([(param, ty)], retty)
        self.conds = []

    def ty_of_lit(self, other):
        return other

    def ex(self, e, env, want=None):
        """returns (lean_term, type) ; type in UTYPES or 'bool' or 'enum'"""
        k = e[0]
        if k == "lit":
            ty = e[2] or want
            if ty is None:
                raise Unsupported("untyped literal")
            return (str(e[1]), ty)
        if k == "var":
            if e[1] not in env:
                raise Unsupported(f"unbound {e[1]}")
            return (lean_id(e[1]), env[e[1]])
        if k == "path":
            p = e[1]
            if len(p) == 2 and p[0] in UTYPES and p[1] == "MAX":
                return (f"(2 ^ {UTYPES[p[0]]} - 1)", p[0])
            raise Unsupported(f"path {p}")
        if k == "cast":
            t, ty = self.ex(e[2], env, None)
            if ty not in UTYPES:
                raise Unsupported("cast of non-integer")
            w = UTYPES[e[1]]
            if UTYPES[ty] <= w:
                return (t, e[1])  # widening: identity on Nat
            return (f"(U.cast {w} {t})", e[1])
        if k == "call":
            p = e[1]
            if len(p) == 2 and p[0] in UTYPES and p[1] == "from":
                t, ty = self.ex(e[2][0], env, None)
                if UTYPES[ty] > UTYPES[p[0]]:
                    raise Unsupported("narrowing from()")
                return (t, p[0])
            if len(p) == 2 and p[0] == "Self" and p[1] in self.fnsigs:
                params, ret = self.fnsigs[p[1]]
                ts = []
                for (pn, pt), a in zip(params, e[2]):
                    t, ty = self.ex(a, env, pt)
                    if ty != pt:
                        raise Unsupported(f"arg type {ty} vs {pt}")
                    ts.append(t)
                self.conds.append(f"{p[1]}_noovf " + " ".join(ts))
                return (f"({p[1]} " + " ".join(ts) + ")", ret)
            raise Unsupported(f"call {p}")
        if k == "mcall":
            if e[1] == "is_power_of_two" and not e[3]:
                t, ty = self.ex(e[2], env, None)
                return (f"(U.isPow2 {UTYPES[ty]} {t} = true)", "bool")
            if e[1].startswith("wrapping_") and len(e[3]) == 1:
                op = {"wrapping_add": "add", "wrapping_sub": "sub", "wrapping_mul": "mul"}.get(e[1])
                if op is None:
                    raise Unsupported(e[1])
                a, ta = self.ex(e[2], env, None)
                b, tb = self.ex(e[3][0], env, ta)
                return (f"(U.{op} {UTYPES[ta]} {a} {b})", ta)
            raise Unsupported(f"method {e[1]}")
        if k == "bin":
            op = e[1]
            # infer operand type: try left, then right
            try:
                a, ta = self.ex(e[2], env, want if op not in ("==", "!=", "<", ">", "<=", ">=") else None)
            except Unsupported:
                b, tb = self.ex(e[3], env, None)
                a, ta = self.ex(e[2], env, tb)
            if op in ("<<", ">>"):
                b, tb = self.ex(e[3], env, "u32")
                w = UTYPES[ta]
                if op == ">>":
                    self.conds.append(f"{b} < {w}")
                    return (f"(U.shr {w} {a} {b})", ta)
                self.conds.append(f"{b} < {w}")
                return (f"(U.shl {w} {a} {b})", ta)
            b, tb = self.ex(e[3], env, ta)
            if ta != tb:
                raise Unsupported(f"operand types {ta} {tb} in {op}")
            if op in ("==", "!=", "<", ">", "<=", ">="):
                lop = {"==": "=", "!=": "≠", "<": "<", ">": ">", "<=": "≤", ">=": "≥"}[op]
                return (f"({a} {lop} {b})", "bool")
            if ta == "bool":
                lop = {"&&": "∧", "||": "∨"}[op]
                return (f"({a} {lop} {b})", "bool")
            w = UTYPES[ta]
            if op == "+":
                self.conds.append(f"{a} + {b} < 2 ^ {w}")
                return (f"(U.add {w} {a} {b})", ta)
            if op == "-":
                self.conds.append(f"{b} ≤ {a}")
                return (f"(U.sub {w} {a} {b})", ta)
            if op == "*":
                self.conds.append(f"{a} * {b} < 2 ^ {w}")
                return (f"(U.mul {w} {a} {b})", ta)
            if op == "/":
                self.conds.append(f"{b} ≠ 0")
                return (f"(U.div {w} {a} {b})", ta)
            if op == "%":
                self.conds.append(f"{b} ≠ 0")
                return (f"(U.rem {w} {a} {b})", ta)
            if op == "&":
                return (f"(U.band {w} {a} {b})", ta)
            if op == "|":
                return (f"(U.bor {w} {a} {b})", ta)
            if op == "^":
                return (f"(U.bxor {w} {a} {b})", ta)
            raise Unsupported(f"binop {op}")
        if k == "ctor":
            fields = self.variants[e[1]]
            ts = []
            for (fn, fty) in fields:
                val = dict(e[2])[fn]
                t, ty = self.ex(val, env, fty)
                if ty != fty:
                    raise Unsupported(f"field type {ty} vs {fty}")
                ts.append(t)
            return (f"({self.enum}.{lean_id(lower1(e[1]))} " + " ".join(ts) + ")", "enum")
        raise Unsupported(f"expr kind {k}")

    # a 'body' is block / if / match / expr / foreach / bucket ; returns lean term and collects
    # conditions *in scope* by emitting a parallel Prop term.
    def body(self, b, env, want, indent="  "):
        """returns (value_term, cond_term, type)"""
        k = b[0]
        if k == "block":
            lets, tail = b[1], b[2]
            env = dict(env)
            vlines, clines = [], []
            pre = []
            for name, ty, e in lets:
                saved = self.conds
                self.conds = []
                t, tty = self.ex(e, env, ty)
                cs = self.conds
                self.conds = saved
                if name == "__assert":
                    pre.append(t)
                    continue
                if ty and ty != tty:
                    raise Unsupported("let type mismatch")
                env[name] = tty
                vlines.append(f"let {lean_id(name)} := {t}")
                clines.append((f"let {lean_id(name)} := {t}", cs))
            if tail is None:
                raise Unsupported("block without tail")
            tv, tc, tty, _ = self.body(tail, env, want, indent)
            val = "\n".join(f"{indent}{l}" for l in vlines) + ("\n" if vlines else "") + f"{indent}{tv.lstrip()}"
            # cond: nest lets, and-ing conditions
            cparts = []
            for l, cs in clines:
                for c in cs:
                    cparts.append(f"{indent}({c}) ∧")
                cparts.append(f"{indent}{l}")
            cond = "\n".join(cparts) + ("\n" if cparts else "") + f"{indent}{tc.lstrip()}"
            return val, cond, tty, pre
        if k == "if":
            saved = self.conds
            self.conds = []
            c, cty = self.ex(b[1], env, None)
            ccs = self.conds
            self.conds = saved
            av, ac, aty, _ = self.body(b[2], env, want, indent + "  ")
            bv, bc, bty, _ = self.body(b[3], env, want, indent + "  ")
            if aty != bty:
                raise Unsupported("if branch types")
            val = f"if {c} then\n{indent}  {av.lstrip()}\n{indent}else\n{indent}  {bv.lstrip()}"
            cond = " ∧ ".join(f"({x})" for x in ccs) + (" ∧ " if ccs else "") + f"(if {c} then\n{indent}  {ac.lstrip()}\n{indent}else\n{indent}  {bc.lstrip()})"
            return val, cond, aty, []
        if k == "match":
            scr = b[1]
            arms_v, arms_c = [], []
            rty = None
            for v, binds, body in b[2]:
                fields = self.variants[v]
                if [f for f, _ in fields] != binds:
                    raise Unsupported(f"match binds {binds} vs fields {fields}")
                env2 = dict(env)
                for f, t in fields:
                    env2[f] = t
                bv, bc, bty, _ = self.body(body, env2, want, indent + "    ")
                if rty and rty != bty:
                    raise Unsupported("match arm types")
                rty = bty
                pat = f"{indent}| .{lean_id(lower1(v))} " + " ".join(lean_id(x) for x in binds) + " =>"
                arms_v.append(pat + "\n" + indent + "    " + bv.lstrip())
                arms_c.append(pat + "\n" + indent + "    " + bc.lstrip())
            head = f"match {lean_id(scr[1])} with\n"
            return head + "\n".join(arms_v), head + "\n".join(arms_c), rty, []
        if k == "foreach":
            env2 = dict(env)
            env2[b[1]] = "u64"
            return self.body(b[2], env2, want, indent)
        if k == "bucket":
            saved = self.conds
            self.conds = []
            t, ty = self.ex(b[1], env, None)
            cs = self.conds
            self.conds = saved
            cond = " ∧ ".join(f"({x})" for x in cs) if cs else "True"
            return t, cond, ty, []
        # plain expression
        saved = self.conds
        self.conds = []
        t, ty = self.ex(b, env, want)
        cs = self.conds
        self.conds = saved
        cond = " ∧ ".join(f"({x})" for x in cs) if cs else "True"
        return t, cond, ty, []


LEAN_KW = {"end", "at", "from", "have", "show", "fun", "do", "then", "else", "if", "let", "in", "with", "match", "open", "new"}


def lean_id(n):
    return n + "'" if n in LEAN_KW else n


def lower1(s):
    return s  # keep Rust's capitalised variant names (avoids clashes with field binders)


def parse_enum(src, name):
    s, e = find_block(src, rf"^enum {name}\s*\{{")
    toks = tokenize(src[src.index("{", s) + 1 : e - 1])
    p = P(toks)
    variants = {}
    order = []
    while p.peek()[0] != "eof":
        v = p.eat("id")[1]
        p.eat("p", "{")
        fields = []
        while not p.at("}"):
            f = p.eat("id")[1]
            p.eat("p", ":")
            t = p.eat("id")[1]
            if t not in UTYPES:
                raise Unsupported(f"field type {t}")
            fields.append((f, t))
            if p.at(","):
                p.eat()
        p.eat("p", "}")
        if p.at(","):
            p.eat()
        variants[v] = fields
        order.append(v)
    return variants, order, (s, e)


FN_RE = re.compile(r"((?:#\[[^\]]*\]\s*)*)fn\s+([a-z_0-9]+)\s*\(([^)]*)\)\s*(?:->\s*([A-Za-z0-9_]+))?\s*\{", re.S)


def parse_impl(src, name):
    s, e = find_block(src, rf"^impl {name}\s*\{{")
    body = src[s:e]
    fns = []
    for m in FN_RE.finditer(body):
        attrs, fname, params, ret = m.group(1), m.group(2), m.group(3), m.group(4)
        bs = m.end() - 1
        depth = 0
        j = bs
        while True:
            if body[j] == "{":
                depth += 1
            elif body[j] == "}":
                depth -= 1
                if depth == 0:
                    break
            j += 1
        ps = []
        for prm in [x.strip() for x in strip_comments(params).split(",") if x.strip()]:
            if prm == "self":
                ps.append(("self", "enum"))
                continue
            pn, pt = [x.strip() for x in prm.split(":")]
            ps.append((pn, pt))
        fns.append(dict(name=fname, attrs=attrs, params=ps, ret=ret, text=body[bs : j + 1]))
    return fns, (s, e)


def translate(path, enum_name, lean_ns):
    src = open(path, encoding="utf-8").read()
    variants, order, (es, ee) = parse_enum(src, enum_name)
    fns, (is_, ie) = parse_impl(src, enum_name)
    text = src[es:ee] + "\n" + src[is_:ie]
    sha = hashlib.sha256(text.encode()).hexdigest()
    out = []
    out.append(f"/- GENERATED by translate/rust2lean_arith.py — do not edit.")
    out.append(f"   source: {path}")
    out.append(f"   bytes : enum {es}..{ee}, impl {is_}..{ie}")
    out.append(f"   sha256: {sha} -/")
    out.append("import DfModel.Base.UInt")
    out.append("set_option linter.unusedVariables false")
    out.append(f"namespace {lean_ns}")
    out.append("open DfModel")
    out.append("")
    out.append(f"inductive {enum_name} where")
    for v in order:
        fs = " ".join(f"({lean_id(f)} : Nat)" for f, _ in variants[v])
        out.append(f"  | {lean_id(lower1(v))} {fs}")
    out.append("  deriving Repr, DecidableEq")
    out.append("")
    # well-typedness of an enum value (fields within width)
    out.append(f"def {enum_name}.wf : {enum_name} → Prop")
    for v in order:
        fs = " ".join(lean_id(f) for f, _ in variants[v])
        cs = " ∧ ".join(f"{lean_id(f)} < 2 ^ {UTYPES[t]}" for f, t in variants[v])
        out.append(f"  | .{lean_id(lower1(v))} {fs} => {cs}")
    out.append("")
    fnsigs = {}
    # order functions so callees come first: simple — those without Self:: calls first
    def calls(fn):
        return set(re.findall(r"Self::([a-z_0-9]+)\(", fn["text"]))
    done = []
    pending = list(fns)
    names = {f["name"] for f in fns}
    while pending:
        progressed = False
        for f in list(pending):
            if (calls(f) & names) <= set(d["name"] for d in done):
                done.append(f)
                pending.remove(f)
                progressed = True
        if not progressed:
            raise Unsupported("recursive functions")
    translated = []
    for f in done:
        em = Emit(enum_name, variants, fnsigs)
        toks = tokenize(f["text"])
        p = P(toks)
        blk = p.block()
        env = {}
        lparams = []
        for pn, pt in f["params"]:
            if pn == "self":
                env["self"] = "enum"
                lparams.append(f"(self : {enum_name})")
            elif pt in UTYPES:
                env[pn] = pt
                lparams.append(f"({lean_id(pn)} : Nat)")
            elif pn == "hash_buffer" or pn == "indices":
                pass
            else:
                raise Unsupported(f"param type {pt}")
        has_loop = "for " in strip_comments(f["text"])
        want = f["ret"] if f["ret"] in UTYPES else None
        val, cond, ty, pre = em.body(blk, env, want)
        lname = lean_id(f["name"])
        if has_loop:
            lname = f["name"] + "_bucket"
            lparams.append("(hash : Nat)")
            # `hash` is bound by the for loop; rename nothing (loop var is `hash`)
        rty = "Nat" if ty in UTYPES else (enum_name if ty == "enum" else "Prop")
        out.append(f"/-- `{enum_name}::{f['name']}`{' (cfg(test) in source)' if 'cfg(test)' in f['attrs'] else ''} -/")
        out.append(f"def {lname} {' '.join(lparams)} : {rty} :=")
        out.append(val)
        out.append("")
        out.append(f"/-- no intermediate overflow / zero division in `{f['name']}` (debug-build panics) -/")
        out.append(f"def {lname}_noovf {' '.join(lparams)} : Prop :=")
        out.append(cond)
        out.append("")
        if pre:
            out.append(f"/-- `debug_assert!` preconditions of `{f['name']}` -/")
            out.append(f"def {lname}_pre {' '.join(lparams)} : Prop :=")
            out.append("  " + " ∧ ".join(pre))
            out.append("")
        if f["ret"] in UTYPES or ty == "enum" or has_loop:
            fnsigs[f["name"]] = ([(pn, pt) for pn, pt in f["params"] if pn != "self"], f["ret"] if f["ret"] in UTYPES else ty)
        translated.append(lname)
    out.append(f"end {lean_ns}")
    return "\n".join(out) + "\n", sha, translated


if __name__ == "__main__":
    path, enum_name, ns, outp = sys.argv[1:5]
    try:
        text, sha, names = translate(path, enum_name, ns)
    except Unsupported as ex:
        print(f"T1-UNSUPPORTED: {ex}")
        sys.exit(3)
    open(outp, "w").write(text)
    print(f"T1-OK sha256={sha} defs={','.join(names)}")
