#!/usr/bin/env python3
"""tools/import_seeds.py Cxx [agent-name] — copy /tmp/mut/cxx/_seeded/<n>/ into /verif/seeded/Cxx-<n>/"""
import json, os, shutil, sys
pid = sys.argv[1]
agent = sys.argv[2] if len(sys.argv) > 2 else "m" + pid[1:]
src = f"/tmp/mut/{pid.lower()}/_seeded"
for n in sorted(os.listdir(src)):
    d = os.path.join(src, n)
    if not (os.path.isdir(d) and os.path.exists(os.path.join(d, "patch.diff")) and os.path.exists(os.path.join(d, "meta.json"))):
        continue
    out = f"/verif/seeded/{pid}-{n}"
    os.makedirs(out, exist_ok=True)
    for f in os.listdir(d):
        p = os.path.join(d, f)
        if os.path.isfile(p) and os.path.getsize(p) < 400_000:
            shutil.copy(p, out)
    try:
        m = json.load(open(os.path.join(d, "meta.json")))
    except Exception as e:
        m = {"summary": "meta.json unreadable: %s" % e}
    m["property_text"] = m.get("property", "")
    m["property"] = pid
    m["origin"] = f"independent sub-agent {agent} (given only the property text and a scratch worktree of /repo)"
    json.dump(m, open(os.path.join(out, "meta.json"), "w"), indent=1)
    print("imported", out)
