#!/usr/bin/env python3
"""
Runs the registered checks against the seeded defects in /verif/seeded/<name>/ inside the isolated
mutation sandbox (/mut/repo = worktree of /repo, /mut/verif = worktree of /verif whose harness path
dependencies point at /mut/repo), so that /repo itself is never touched.
usage: tools/run_seeded.py [name ...]        results → /verif/seeded/RESULTS.json (and stdout)
The sandbox is created on demand and can be deleted afterwards:
  git -C /verif worktree remove --force /mut/verif; git -C /repo worktree remove --force /mut/repo
"""
import json, os, subprocess, sys, time

SEEDED = "/verif/seeded"
MREPO, MVERIF = "/mut/repo", "/mut/verif"


def sh(cmd, cwd=None, timeout=None):
    p = subprocess.run(cmd, cwd=cwd, shell=True, stdout=subprocess.PIPE, stderr=subprocess.STDOUT, timeout=timeout)
    return p.returncode, p.stdout.decode("utf-8", "replace")


def ensure_sandbox():
    """(re)create the isolated sandbox: /mut/repo = worktree of /repo, /mut/verif = worktree of /verif"""
    os.makedirs("/mut", exist_ok=True)
    if not os.path.exists(MREPO):
        sh(f"git -C /repo worktree prune; git -C /repo worktree add -f --detach {MREPO} HEAD")
    if not os.path.exists(MVERIF):
        sh(f"git -C /verif worktree prune; git -C /verif branch -D mutbox; git -C /verif worktree add -f {MVERIF} -b mutbox")
        # warm build outputs (keeps mtimes), if present
        sh(f"cp -a /verif/lean/.lake {MVERIF}/lean/.lake; cp -a /verif/harness/target {MVERIF}/harness/target")


def sync():
    ensure_sandbox()
    # bring the sandbox up to date with /repo HEAD and /verif main (hard reset; then re-apply the
    # only local modification: harness path dependencies point at /mut/repo instead of /repo)
    head = sh("git -C /repo rev-parse HEAD")[1].strip()
    sh(f"git -C {MREPO} checkout -q -f --detach {head}")
    sh(f"git -C {MVERIF} merge --abort; git -C {MVERIF} reset -q --hard; git -C {MVERIF} stash clear; git -C {MVERIF} reset -q --hard main")
    sh(f"sed -i 's|\"/repo/|\"{MREPO}/|g' {MVERIF}/harness/*/Cargo.toml")
    sh(f"cp {MREPO}/Cargo.lock {MVERIF}/harness/Cargo.lock")
    sh("python3 tools/gen_registry.py", cwd=MVERIF)


def main():
    names = sys.argv[1:] or sorted(d for d in os.listdir(SEEDED) if os.path.isdir(os.path.join(SEEDED, d)))
    sync()
    res_path = os.path.join(SEEDED, "RESULTS.json")
    results = json.load(open(res_path)) if os.path.exists(res_path) else {}
    for n in names:
        d = os.path.join(SEEDED, n)
        meta = json.load(open(os.path.join(d, "meta.json")))
        props = meta.get("checks") or [meta["property"]]
        rc, o = sh(f"git -C {MREPO} apply {d}/patch.diff")
        if rc != 0:
            print(f"{n}: patch does not apply: {o}")
            results[n] = {"error": "patch does not apply"}
            continue
        try:
            out = {}
            for pid in props:
                t = time.time()
                rc, o = sh(f"VERIF_REPO={MREPO} ./check {pid} --tier quick", cwd=MVERIF, timeout=7200)
                vio = [l for l in o.splitlines() if l.startswith("VIOLATION")]
                out[pid] = {"exit": rc, "violation": vio[0] if vio else None, "wall_s": round(time.time() - t)}
                print(f"{n}: check {pid}: exit={rc} {vio[0] if vio else o.strip().splitlines()[-1] if o.strip() else ''}")
            results[n] = {"property": meta["property"], "checks": out, "detected": any(v["exit"] == 1 for v in out.values())}
        finally:
            sh(f"git -C {MREPO} checkout -- .")
        json.dump(results, open(res_path, "w"), indent=1)
    # sanity: unchanged tree passes again for the touched properties is left to the caller


if __name__ == "__main__":
    main()
