#!/usr/bin/env python3
"""prints the prompt for an independent mutation sub-agent: tools/mutation_prompt.py Cxx /tmp/mut/cxx"""
import json, sys
pid, wt = sys.argv[1], sys.argv[2]
p = [json.loads(l) for l in open('/verif/properties.jsonl') if json.loads(l)['id'] == pid][0]
text = json.dumps({k: p[k] for k in ('title', 'statement', 'quantifier', 'why_tests_cant', 'anchors')}, indent=1)
print(f"""You are testing how good a project's verification is. You are given ONE semantic property that the Rust project apache/datafusion is supposed to satisfy, and your own scratch git worktree of its source at **{wt}** (a checkout of the current HEAD; work ONLY inside that directory; do not look at or touch /verif, /repo or /work — what you write must be independent of any existing checker).

The property ({pid}):
{text}

Your job: craft up to THREE independent, realistic code changes ("seeded defects") to apache/datafusion, each of which
  (1) BREAKS the property above (on some input / history / schedule / fault sequence that the property quantifies over),
  (2) still COMPILES, and still PASSES the project's existing tests (at minimum: `cargo test -p <every crate you touched> --lib` and any integration tests of those crates that exercise the touched code; say exactly what you ran),
  (3) needs something SPECIFIC to manifest — a particular boundary value, a multi-step sequence of operations, a fault at a particular point, an unusual input shape, a particular interleaving, or two cooperating sites that each look fine alone — NOT something ordinary use or the first smoke test would expose at once,
  (4) looks like a plausible slip or "optimisation" a maintainer could make (off-by-one, dropped branch, wrong tie-break, missing rollback, reordered statements, wrong variant in a table, `>` vs `>=`, stale cache…), not sabotage that rewrites the feature.
For each change also write a DEMONSTRATION: a new Rust test (preferably a `#[test]` added in a NEW file or a clearly separated new test function, kept out of the patch itself) or a small program that FAILS with the change applied and PASSES without it; it must go through the project's real public behaviour, not through private details that a refactor would rename.

Practical rules (the machine is shared and has no network):
* always build offline and small: `export CARGO_NET_OFFLINE=true CARGO_TARGET_DIR=/tmp/mut/target_{pid.lower()} CARGO_PROFILE_DEV_DEBUG=0 CARGO_PROFILE_TEST_DEBUG=0 CARGO_BUILD_JOBS=6`; use `cargo test --offline -p <crate> --lib <filter>`; never run the whole workspace test suite; first builds take 10–20 minutes — be patient, run them in the background and keep reading code meanwhile.
* keep each change minimal (a few lines, one or two sites). Do not touch tests, snapshots, docs or Cargo files in the patch. Code guarded by `#[cfg(datafusion_verif)]` is instrumentation: leave it alone.
* produce, inside {wt}/_seeded/<n>/ for n = 1,2,3:  `patch.diff` (output of `git diff` for the source change ONLY, applying cleanly with `git apply` to a clean checkout), the demonstration (`demo_test.rs` or `demo/` with instructions, plus `demo.patch` if it has to be added to the tree to run), and `meta.json` with fields: property, summary (what was changed and why it breaks the property), needs (what specific input/sequence/fault/interleaving is required to manifest), tests_run (exact commands and results with the change applied), demo_cmd (exact command that fails with the patch and passes without), files_touched.
* leave the worktree itself CLEAN at the end (`git checkout -- . && git status` shows only the untracked _seeded/ directory), and leave the cargo target dir in place.
Finish with a short report listing the changes you produced and how each was validated (demo fails with / passes without; which existing tests pass).""")
