#!/bin/sh
# usage: tools/mk_agent_wt.sh <name>   — creates /work/<name>/verif (git worktree, branch <name>)
# with warm copies of the cargo target dir and the lake build dir.
set -e
N="$1"
mkdir -p /work/$N
git -C /verif worktree add -q /work/$N/verif -b $N
cp -a /verif/harness/target /work/$N/verif/harness/target
mkdir -p /work/$N/verif/lean
cp -a /verif/lean/.lake /work/$N/verif/lean/.lake
echo "/work/$N/verif ready"
