#!/bin/sh
cd "$(dirname "$0")/.."
: > work/run_all_thorough.log
for p in $(python3 -c "import json;print(' '.join(c['property_id'] for c in json.load(open('MANIFEST.json'))['checks']))"); do
  out=$(nice -n 5 ./check $p --tier thorough 2>&1 | grep -v "^KNOWN-FINDING" | tail -1 | cut -c1-200)
  echo "$p: $out" >> work/run_all_thorough.log
done
echo "DONE" >> work/run_all_thorough.log
