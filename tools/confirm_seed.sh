#!/bin/bash
# usage: tools/confirm_seed.sh <worktree> <seed-dir> <crate> <demo-test-name> <target-dir> [lib-filter]
# Confirms a seeded defect in the sub-agent's scratch worktree: demo passes on the clean tree,
# fails with patch.diff applied, and the crate's lib tests still pass with the patch.
WT="$1"; SD="$2"; CRATE="$3"; DEMO="$4"; TGT="$5"; FILTER="${6:-}"
export CARGO_NET_OFFLINE=true CARGO_TARGET_DIR="$TGT" CARGO_PROFILE_DEV_DEBUG=0 CARGO_PROFILE_TEST_DEBUG=0 CARGO_BUILD_JOBS=8
cd "$WT" || exit 2
git checkout -q -- . ; git clean -fdq -e _seeded
[ -f "$SD/demo.patch" ] && git apply "$SD/demo.patch"
echo "== clean tree: demo"; cargo test --offline -p "$CRATE" --test "$DEMO" 2>&1 | grep -E "^test result|FAILED|panicked|error(\[|:)" | head -5
git apply "$SD/patch.diff" || { echo "PATCH DOES NOT APPLY"; exit 3; }
echo "== patched: demo (must fail)"; cargo test --offline -p "$CRATE" --test "$DEMO" 2>&1 | grep -E "^test result|FAILED|panicked|error(\[|:)" | head -5
echo "== patched: existing lib tests (must pass)"; cargo test --offline -p "$CRATE" --lib $FILTER 2>&1 | grep -E "^test result|FAILED|error(\[|:)" | head -5
git checkout -q -- . ; git clean -fdq -e _seeded
echo "== done"
