#!/bin/sh
# runs every registered quick check once on the current tree; summary → work/run_all.log
cd "$(dirname "$0")/.."
: > work/run_all.log
for p in $(python3 -c "import json;print(' '.join(c['property_id'] for c in json.load(open('MANIFEST.json'))['checks']))"); do
  out=$(./check $p --tier quick 2>&1 | grep -v "^KNOWN-FINDING" | tail -1 | cut -c1-180)
  echo "$p: $out" >> work/run_all.log
done
echo "DONE" >> work/run_all.log
