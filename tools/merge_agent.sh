#!/bin/bash
# usage: tools/merge_agent.sh <branch>   — merge a builder branch into main, keeping main's
# infrastructure files, regenerating registries and taking the union of known_findings.json.
set -u
B="$1"
cd /verif
if [ -n "$(git status --porcelain)" ]; then echo "working tree not clean"; exit 1; fi
git merge --no-commit --no-ff "$B" >/tmp/merge_$B.log 2>&1
# infrastructure / generated files: keep main's version
for f in MANIFEST.json lean/DfModel/Drv/All.lean lean/DfModel.lean harness/hplan/src/main.rs harness/hfull/src/main.rs harness/.cargo/config.toml harness/Cargo.toml harness/Cargo.lock tools/gen_registry.py tools/mk_agent_wt.sh check setup.sh AGENT_GUIDE.md DESIGN.md props/hooks.json .gitignore harness/hutil/src/lib.rs; do
  if git diff --name-only --diff-filter=U | grep -qx "$f"; then git checkout --ours -- "$f"; git add "$f"; fi
done
for f in $(git diff --name-only --diff-filter=U | grep "^evidence/"); do git checkout --theirs -- "$f"; git add "$f"; done
# known_findings.json: union of findings + fixed
python3 - "$B" <<'PY'
import json, subprocess, sys
b = sys.argv[1]
def load(ref):
    try:
        return json.loads(subprocess.check_output(["git", "show", f"{ref}:known_findings.json"]))
    except Exception:
        return {"findings": [], "fixed": []}
ours, theirs = load("HEAD"), load(b)
base_ref = subprocess.check_output(["git", "merge-base", "HEAD", b]).decode().strip()
base = load(base_ref)
# findings the branch deliberately removed (e.g. moved to `fixed`) are removed here too
removed = {(f["property"], f["signature"]) for f in base.get("findings", [])} - {(f["property"], f["signature"]) for f in theirs.get("findings", [])}
ours["findings"] = [f for f in ours.get("findings", []) if (f["property"], f["signature"]) not in removed]
out = dict(ours)
seen = {(f["property"], f["signature"]) for f in ours.get("findings", [])}
for f in theirs.get("findings", []):
    if (f["property"], f["signature"]) not in seen:
        out.setdefault("findings", []).append(f); seen.add((f["property"], f["signature"]))
for f in theirs.get("fixed", []):
    if f not in out.get("fixed", []):
        out.setdefault("fixed", []).append(f)
json.dump(out, open("/verif/known_findings.json", "w"), indent=2, ensure_ascii=False)
PY
git add known_findings.json
# base library files owned by a6: take theirs only when merging a6, otherwise ours on conflict
LEFT=$(git diff --name-only --diff-filter=U)
if [ -n "$LEFT" ]; then echo "UNRESOLVED:"; echo "$LEFT"; exit 1; fi
python3 tools/gen_registry.py
git add -A
git commit -q -m "merge $B" && echo "merged $B"
