/-
  dfdrv — line-protocol driver.   request:  `<PROP> <op> <sexp>`   answer: one line.
  Imports model files only (no Mathlib), so it links as a `lean_exe`.
-/
import DfModel.Drv.All
open DfModel

def answer (line : String) : String :=
  let line := line.trimAscii.toString
  match line.splitOn " " with
  | prop :: op :: rest =>
    match Sexp.parse (" ".intercalate rest) with
    | some s => Drv.dispatch prop op s
    | none => "bad-sexp"
  | _ => "bad-line"

partial def loop (h : IO.FS.Stream) (out : IO.FS.Stream) : IO Unit := do
  let line ← h.getLine
  if line.isEmpty then return ()
  out.putStrLn (answer line)
  loop h out

def main : IO Unit := do
  let out ← IO.getStdout
  loop (← IO.getStdin) out
  out.flush
