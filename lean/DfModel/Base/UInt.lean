/-
  Fixed-width unsigned arithmetic over `Nat`, as emitted by translator T1
  (`translate/rust2lean_arith.py`).  Every Rust operation is given its *release* (wrapping)
  semantics by an explicit `% 2^w`; the translator emits, beside every function, a `…_noovf`
  proposition collecting the side conditions under which no intermediate overflows (= the
  debug-build panics).  Core Lean only.
-/
namespace DfModel.U

def W64 : Nat := 2 ^ 64
def W128 : Nat := 2 ^ 128
def max64 : Nat := 2 ^ 64 - 1
def max128 : Nat := 2 ^ 128 - 1

/-- `u64::is_power_of_two` / `u128::is_power_of_two` (std contract: exactly one bit set). -/
def isPow2 (w : Nat) (x : Nat) : Bool := (List.range w).any (fun k => x == 2 ^ k)

def add (w a b : Nat) : Nat := (a + b) % 2 ^ w
def sub (w a b : Nat) : Nat := (a + 2 ^ w - b) % 2 ^ w
def mul (w a b : Nat) : Nat := (a * b) % 2 ^ w
/-- Rust `/` on unsigned: panics on zero divisor in every build; side condition emitted. -/
def div (_w a b : Nat) : Nat := a / b
def rem (_w a b : Nat) : Nat := a % b
def band (_w a b : Nat) : Nat := a &&& b
def bor (_w a b : Nat) : Nat := a ||| b
def bxor (_w a b : Nat) : Nat := a ^^^ b
def shr (_w a k : Nat) : Nat := a >>> k
def shl (w a k : Nat) : Nat := (a <<< k) % 2 ^ w
/-- `x as uN` -/
def cast (w a : Nat) : Nat := a % 2 ^ w

end DfModel.U
