/-
  L0 — option codecs of the physical-plan protobuf encoding, as written in the operators'
  `try_to_proto` / `try_from_proto` (64-bit `usize`).  Core Lean only.

    SortExec.fetch, SortPreservingMergeExec.fetch, GlobalLimitExec.fetch      (proto `int64`)
        encode  `fetch.map(|f| f as i64).unwrap_or(-1)`          decode `(v >= 0).then_some(v as usize)`
    GlobalLimitExec.skip, LocalLimitExec.fetch                                 (proto `uint32`)
        encode  `n as u32`                                        decode `v as usize`
    CoalescePartitionsExec.fetch, CoalesceBatchesExec.fetch, FilterExec.fetch,
    FileScanConfig.limit                                                       (proto optional `uint32`)
        encode  `fetch.map(|f| f as u32)`                         decode `fetch.map(|f| f as usize)`
    HashJoinExec.fetch                                                         (proto optional `uint64`)
        encode  `f as u64`                                        decode checked `usize::try_from`

  and the enum tables JoinType / NullEquality / JoinConstraint ↔ protobuf numbers
  (datafusion_common.proto; `impl From<JoinType> for protobuf::JoinType` and back,
  physical-plan/src/joins/proto.rs `join_type_{to,from}_proto`).
-/
import DfModel.Base.Wire
import DfModel.Sql.Rel
namespace DfModel.PhysCodec
open DfModel DfModel.Wire

/-- `n as i64` for a `usize` -/
def asI64 (n : Nat) : Int := toSigned 64 n
/-- `n as u32` -/
def asU32 (n : Nat) : Nat := n % 4294967296

def encFetchI64 : Option Nat → Int
  | some n => asI64 n
  | none => -1

def decFetchI64 (v : Int) : Option Nat := if 0 ≤ v then some v.toNat else none

def rtFetchI64 (f : Option Nat) : Option Nat := decFetchI64 (encFetchI64 f)
def rtFetchU32 (f : Option Nat) : Option Nat := f.map asU32

/-- GlobalLimitExec: (skip, fetch) after a round trip -/
def rtGlobalLimit (skip : Nat) (fetch : Option Nat) : Nat × Option Nat := (asU32 skip, rtFetchI64 fetch)

def joinTypeNum : JoinType → Nat
  | .inner => 0 | .left => 1 | .right => 2 | .full => 3
  | .leftSemi => 4 | .leftAnti => 5 | .rightSemi => 6 | .rightAnti => 7
  | .leftMark => 8 | .rightMark => 9

def joinTypeOf : Nat → Option JoinType
  | 0 => some .inner | 1 => some .left | 2 => some .right | 3 => some .full
  | 4 => some .leftSemi | 5 => some .leftAnti | 6 => some .rightSemi | 7 => some .rightAnti
  | 8 => some .leftMark | 9 => some .rightMark
  | _ => none

/-- `NullEqualsNothing = 0`, `NullEqualsNull = 1` (argument: NULL = NULL counts as equal) -/
def nullEqualityNum (nullEqualsNull : Bool) : Nat := if nullEqualsNull then 1 else 0
/-- `ON = 0`, `USING = 1` -/
def joinConstraintNum (using_ : Bool) : Nat := if using_ then 1 else 0

end DfModel.PhysCodec
