/-
  C32 — reference semantics of scalar functions over logical values, and the lifting of a row
  function to columns in any physical representation.  Core Lean only.

  Strings are lists of Unicode scalar values (code points), exactly what the Rust code iterates
  over with `str::chars()`; integers are mathematical integers with the `i64` range made explicit
  where the code checks it.  Written from `datafusion/functions/src/{math,string,unicode,core}`.
-/
namespace DfModel.ScalarFns

inductive Val
  | null
  | int (n : Int)
  | str (cs : List Nat)
  | bool (b : Bool)
  deriving DecidableEq, Repr, Inhabited

inductive FErr
  | exec      -- the function returns an error for this row
  | unsup     -- outside the model (argument kinds the reference does not cover)
  deriving DecidableEq, Repr, Inhabited

abbrev R := Except FErr Val

def i64Min : Int := -9223372036854775808
def i64Max : Int := 9223372036854775807
def inI64 (x : Int) : Bool := i64Min ≤ x && x ≤ i64Max
def i32Max : Int := 2147483647

/-! ### helpers on code-point lists -/

/-- UTF-8 length of one scalar value -/
def utf8Len (c : Nat) : Nat := if c < 0x80 then 1 else if c < 0x800 then 2 else if c < 0x10000 then 3 else 4

def byteLen (s : List Nat) : Nat := (s.map utf8Len).sum

def isPrefix : List Nat → List Nat → Bool
  | [], _ => true
  | _ :: _, [] => false
  | a :: as, b :: bs => a == b && isPrefix as bs

/-- 0-based index of the first occurrence of `needle` in `hay` -/
def findAt (needle : List Nat) : List Nat → Nat → Option Nat
  | [], i => if needle.isEmpty then some i else none
  | h :: t, i => if isPrefix needle (h :: t) then some i else findAt needle t (i + 1)

/-- `str::split(delim)` for a NON-EMPTY delimiter (fuel = remaining length) -/
def splitOn (delim : List Nat) : Nat → List Nat → List Nat → List (List Nat)
  | 0, _, acc => [acc.reverse]
  | fuel + 1, s, acc =>
    match s with
    | [] => [acc.reverse]
    | h :: t =>
      if isPrefix delim (h :: t) then acc.reverse :: splitOn delim fuel ((h :: t).drop delim.length) []
      else splitOn delim fuel t (h :: acc)

def split (s delim : List Nat) : List (List Nat) :=
  if delim.isEmpty then [s] else splitOn delim (s.length + 1) s []

/-- `str::replace(from, to)` for non-empty `from` -/
def replaceAll (frm to : List Nat) : Nat → List Nat → List Nat
  | 0, s => s
  | fuel + 1, s =>
    match s with
    | [] => []
    | h :: t =>
      if isPrefix frm (h :: t) then to ++ replaceAll frm to fuel ((h :: t).drop frm.length)
      else h :: replaceAll frm to fuel t

def cycleTake (fill : List Nat) (n : Nat) : List Nat :=
  if fill.isEmpty then [] else (List.range n).map (fun i => fill.getD (i % fill.length) 0)

def hexDigit (d : Nat) : Nat := if d < 10 then 48 + d else 87 + d

def toHexNat : Nat → Nat → List Nat
  | 0, _ => []
  | fuel + 1, n => if n < 16 then [hexDigit n] else toHexNat fuel (n / 16) ++ [hexDigit (n % 16)]

def trimLeft (set : List Nat) (s : List Nat) : List Nat := s.dropWhile (fun c => set.contains c)
def trimRight (set : List Nat) (s : List Nat) : List Nat := (trimLeft set s.reverse).reverse

/-- `translate`: the i-th char of `from` maps to the i-th of `to` (first occurrence wins); chars of
    `from` beyond `to` are deleted -/
def translateChar (frm to : List Nat) (c : Nat) : Option (Option Nat) :=
  match frm.findIdx? (· == c) with
  | none => none
  | some i => some to[i]?

def translateStr (frm to : List Nat) (s : List Nat) : List Nat :=
  s.filterMap fun c =>
    match translateChar frm to c with
    | none => some c
    | some r => r

/-! ### the reference functions (one row) -/

/-- `left(s, n)` on chars -/
def leftFn (s : List Nat) (n : Int) : List Nat :=
  if n ≥ 0 then s.take n.toNat else s.take (s.length - n.natAbs)

/-- `right(s, n)` on chars -/
def rightFn (s : List Nat) (n : Int) : List Nat :=
  if n ≥ 0 then s.drop (s.length - n.toNat) else s.drop n.natAbs

def lpadFn (s : List Nat) (n : Int) (fill : List Nat) : Except FErr (List Nat) :=
  if n > i32Max then .error .exec
  else if n ≤ 0 then .ok []
  else
    let k := n.toNat
    if s.length ≥ k then .ok (s.take k)
    else if fill.isEmpty then .ok s
    else .ok (cycleTake fill (k - s.length) ++ s)

def rpadFn (s : List Nat) (n : Int) (fill : List Nat) : Except FErr (List Nat) :=
  if n > i32Max then .error .exec
  else if n ≤ 0 then .ok []
  else
    let k := n.toNat
    if s.length ≥ k then .ok (s.take k)
    else if fill.isEmpty then .ok s
    else .ok (s ++ cycleTake fill (k - s.length))

/-- PostgreSQL `substr(s, start [, count])` on chars -/
def substrFn (s : List Nat) (start : Int) (count : Option Int) : Except FErr (List Nat) :=
  match count with
  | some c =>
    if c < 0 then .error .exec
    else if start == i64Min then .error .exec
    else
      let s0 := start - 1
      let e := min (s0 + c) i64Max
      let lo := (max s0 0).toNat
      let hi := (max e 0).toNat
      .ok ((s.take hi).drop lo)
  | none =>
    if start == i64Min then .error .exec
    else .ok (s.drop (max (start - 1) 0).toNat)

def gcdFn (x y : Int) : R :=
  let g : Int := Nat.gcd x.natAbs y.natAbs
  if g > i64Max then .error .exec else .ok (.int g)

def lcmFn (x y : Int) : R :=
  if x == 0 || y == 0 then .ok (.int 0)
  else
    let l : Int := Nat.lcm x.natAbs y.natAbs
    if l > i64Max then .error .exec else .ok (.int l)

def factTable : List Int :=
  [1, 1, 2, 6, 24, 120, 720, 5040, 40320, 362880, 3628800, 39916800, 479001600, 6227020800,
   87178291200, 1307674368000, 20922789888000, 355687428096000, 6402373705728000,
   121645100408832000, 2432902008176640000]

def splitPartFn (s delim : List Nat) (n : Int) : R :=
  if n == 0 then .error .exec
  else
    let parts := split s delim
    if n > 0 then .ok (.str (parts.getD (n.toNat - 1) []))
    else
      let k := n.natAbs
      if k > parts.length then .ok (.str []) else .ok (.str (parts.getD (parts.length - k) []))

/-- the modelled functions -/
inductive Fn
  | abs | gcd | lcm | factorial | chr | ascii | characterLength | octetLength | bitLength | reverse
  | left | right | lpad | rpad | repeat_ | startsWith | endsWith | contains | strpos | substr
  | replace | splitPart | translate | btrim | ltrim | rtrim | toHex | findInSet | concat | nullif
  deriving DecidableEq, Repr, Inhabited

def Fn.ofName : String → Option Fn
  | "abs" => some .abs | "gcd" => some .gcd | "lcm" => some .lcm | "factorial" => some .factorial
  | "chr" => some .chr | "ascii" => some .ascii | "character_length" => some .characterLength
  | "octet_length" => some .octetLength | "bit_length" => some .bitLength | "reverse" => some .reverse
  | "left" => some .left | "right" => some .right | "lpad" => some .lpad | "rpad" => some .rpad
  | "repeat" => some .repeat_ | "starts_with" => some .startsWith | "ends_with" => some .endsWith
  | "contains" => some .contains | "strpos" => some .strpos | "substr" => some .substr
  | "replace" => some .replace | "split_part" => some .splitPart | "translate" => some .translate
  | "btrim" => some .btrim | "ltrim" => some .ltrim | "rtrim" => some .rtrim | "to_hex" => some .toHex
  | "find_in_set" => some .findInSet | "concat" => some .concat | "nullif" => some .nullif
  | _ => none

/-- `concat`: NULL arguments are skipped, the result is never NULL -/
def concatFn (args : List Val) : R :=
  if args.isEmpty then .error .unsup else
  if args.all (fun a => match a with | .str _ | .null => true | _ => false) then
    .ok (.str (args.flatMap fun a => match a with | .str s => s | _ => []))
  else .error .unsup

def nullifFn : List Val → R
  | [.null, _] => .ok .null
  | [a, .null] => .ok a
  | [a, b] => .ok (if a == b then .null else a)
  | _ => .error .unsup

/-- the strict functions on NON-NULL arguments -/
def strictFn : Fn → List Val → R
  | .abs, [.int x] => if x == i64Min then .error .exec else .ok (.int (if x < 0 then -x else x))
  | .gcd, [.int x, .int y] => gcdFn x y
  | .lcm, [.int x, .int y] => lcmFn x y
  | .factorial, [.int n] =>
    if n < 0 then .error .exec else
    match factTable[n.toNat]? with
    | some v => .ok (.int v)
    | none => .error .exec
  | .chr, [.int v] =>
    if v < 0 || v > 0x10FFFF || (0xD800 ≤ v && v ≤ 0xDFFF) then .error .exec else .ok (.str [v.toNat])
  | .ascii, [.str s] => .ok (.int (match s with | [] => 0 | c :: _ => c))
  | .characterLength, [.str s] => .ok (.int s.length)
  | .octetLength, [.str s] => .ok (.int (byteLen s))
  | .bitLength, [.str s] => .ok (.int (8 * byteLen s))
  | .reverse, [.str s] => .ok (.str s.reverse)
  | .left, [.str s, .int n] => .ok (.str (leftFn s n))
  | .right, [.str s, .int n] => .ok (.str (rightFn s n))
  | .lpad, [.str s, .int n] => (lpadFn s n [32]).map .str
  | .lpad, [.str s, .int n, .str f] => (lpadFn s n f).map .str
  | .rpad, [.str s, .int n] => (rpadFn s n [32]).map .str
  | .rpad, [.str s, .int n, .str f] => (rpadFn s n f).map .str
  | .repeat_, [.str s, .int n] =>
    if n ≤ 0 then .ok (.str [])
    else if (byteLen s : Int) * n > i32Max then .error .exec
    else .ok (.str ((List.replicate n.toNat s).flatten))
  | .startsWith, [.str s, .str p] => .ok (.bool (isPrefix p s))
  | .endsWith, [.str s, .str p] => .ok (.bool (isPrefix p.reverse s.reverse))
  | .contains, [.str s, .str p] => .ok (.bool (findAt p s 0).isSome)
  | .strpos, [.str s, .str p] => .ok (.int (match findAt p s 0 with | some i => i + 1 | none => 0))
  | .substr, [.str s, .int st] => (substrFn s st none).map .str
  | .substr, [.str s, .int st, .int c] => (substrFn s st (some c)).map .str
  | .replace, [.str s, .str f, .str t] =>
    .ok (.str (if f.isEmpty then s else replaceAll f t (s.length + 1) s))
  | .splitPart, [.str s, .str d, .int n] => splitPartFn s d n
  | .translate, [.str s, .str f, .str t] => .ok (.str (translateStr f t s))
  | .btrim, [.str s] => .ok (.str (trimRight [32] (trimLeft [32] s)))
  | .btrim, [.str s, .str set] => .ok (.str (trimRight set (trimLeft set s)))
  | .ltrim, [.str s] => .ok (.str (trimLeft [32] s))
  | .ltrim, [.str s, .str set] => .ok (.str (trimLeft set s))
  | .rtrim, [.str s] => .ok (.str (trimRight [32] s))
  | .rtrim, [.str s, .str set] => .ok (.str (trimRight set s))
  | .toHex, [.int x] =>
    if !(inI64 x) then .error .unsup else
    let u : Nat := if x < 0 then (x + 18446744073709551616).toNat else x.toNat
    .ok (.str (toHexNat 17 u))
  | .findInSet, [.str s, .str l] =>
    .ok (.int (match (split l [44]).findIdx? (· == s) with | some i => i + 1 | none => 0))
  | _, _ => .error .unsup

/-- accepted arities of the strict functions -/
def arityOk : Fn → Nat → Bool
  | .abs, 1 | .factorial, 1 | .chr, 1 | .ascii, 1 | .characterLength, 1 | .octetLength, 1
  | .bitLength, 1 | .reverse, 1 | .toHex, 1 | .btrim, 1 | .ltrim, 1 | .rtrim, 1 => true
  | .gcd, 2 | .lcm, 2 | .left, 2 | .right, 2 | .lpad, 2 | .rpad, 2 | .repeat_, 2 | .startsWith, 2
  | .endsWith, 2 | .contains, 2 | .strpos, 2 | .substr, 2 | .btrim, 2 | .ltrim, 2 | .rtrim, 2
  | .findInSet, 2 => true
  | .lpad, 3 | .rpad, 3 | .substr, 3 | .replace, 3 | .splitPart, 3 | .translate, 3 => true
  | _, _ => false

/-- apply a modelled function to one row of logical arguments.  Strict functions return NULL on a
    NULL argument BEFORE any error check (errors fire on live rows only). -/
def applyFn (f : Fn) (args : List Val) : R :=
  match f with
  | .concat => concatFn args
  | .nullif => nullifFn args
  | f =>
    if !(arityOk f args.length) then .error .unsup
    else if args.any (· == .null) then .ok .null
    else strictFn f args

def apply (name : String) (args : List Val) : R :=
  match Fn.ofName name with
  | some f => applyFn f args
  | none => .error .unsup

/-! ### lifting a row function to columns -/

/-- row-by-row evaluation of a batch (a list of argument rows); the first failing row fails the batch -/
def liftRows (f : List Val → R) : List (List Val) → Except FErr (List Val)
  | [] => .ok []
  | r :: rs =>
    match f r, liftRows f rs with
    | .ok v, .ok vs => .ok (v :: vs)
    | .error e, _ => .error e
    | _, .error e => .error e

/-- physical representations of one argument column of `n` rows -/
inductive Rep
  | arr (vals : List Val)
  | scalar (v : Val)                                  -- `ColumnarValue::Scalar`
  | dict (keys : List (Option Nat)) (values : List Val) -- `DictionaryArray`
  | sliced (buf : List Val) (off : Nat)               -- an array that is a window of a larger buffer
  deriving Repr

/-- the logical column a representation stands for -/
def Rep.logical (n : Nat) : Rep → List Val
  | .arr vals => vals.take n
  | .scalar v => List.replicate n v
  | .dict keys values => (keys.take n).map fun k =>
      match k with
      | none => .null
      | some j => values.getD j .null
  | .sliced buf off => (buf.drop off).take n

/-- row `i` of a batch given by columns -/
def rowAt (cols : List (List Val)) (i : Nat) : List Val := cols.map (fun c => c.getD i .null)

def rowsOf (n : Nat) (cols : List (List Val)) : List (List Val) := (List.range n).map (rowAt cols)

/-- THE specification of `invoke_with_args` for a function without side effects: apply the row
    function to the logical rows -/
def liftReps (f : List Val → R) (n : Nat) (args : List Rep) : Except FErr (List Val) :=
  liftRows f (rowsOf n (args.map (Rep.logical n)))

/-- the dictionary fast path used by `ascii`, `lower`, `upper`, … : evaluate on the dictionary's
    VALUES once, then gather through the keys -/
def dictValuesOnly (f : Val → R) (keys : List (Option Nat)) (values : List Val) : Except FErr (List Val) :=
  match liftRows (fun r => f (r.headD .null)) (values.map fun v => [v]) with
  | .error e => .error e
  | .ok outs =>
    match f .null with
    | .error e => if keys.any Option.isNone then .error e else
        .ok (keys.map fun k => match k with | none => .null | some j => outs.getD j .null)
    | .ok nullOut =>
      .ok (keys.map fun k => match k with | none => nullOut | some j => outs.getD j .null)

end DfModel.ScalarFns
