/-
  L0 — protobuf wire primitives and the `ScalarValue` message for the primitive variants.
  Core Lean only (linked into `dfdrv`).

  Bytes are `Nat`s (every encoder below only ever produces numbers < 256; `bytes_lt_256` in
  Proofs/C35).  Mirrors prost 0.14 (`prost::encoding`):
    * `encodeVarint`     — base-128 little-endian groups, continuation bit 0x80 (`encode_varint`);
    * `decodeVarint64`   — at most 10 bytes, value must fit 64 bits (`decode_varint`);
    * `zigzag/unzigzag`  — `sint32/sint64` mapping `0,-1,1,-2,… ↦ 0,1,2,3,…`;
    * `encodeFixed k`    — `k`-byte little endian (`fixed32/64`, `sfixed32/64`, `float/double` bits);
    * `encodeKey`        — `(field << 3) | wire_type` as a varint; `decodeKey` with prost's checks
                           (key ≤ u32::MAX, wire type ≤ 5, field ≥ 1);
    * `encodeLenDelim`   — varint length + payload (`bytes`, `string`, embedded messages);
    * `encodeInt`        — `int32/int64` fields: two's complement sign-extended to 64 bits, so a
                           negative value always takes 10 bytes.
  and `datafusion_common.proto` `message ScalarValue` (oneof `value`) as written by
  `impl TryFrom<&ScalarValue> for protobuf::ScalarValue` (proto-common/src/to_proto/mod.rs) and
  read back by `impl TryFrom<&protobuf::ScalarValue> for ScalarValue` (from_proto/mod.rs):
  a `Some(v)` goes to the variant's own field (Int8/Int16 widened to int32, UInt8/UInt16 to uint32,
  narrowed again with `as` on the way back), a `None` of any type goes to `null_value = 33`, an
  `ArrowType` message whose oneof member for the primitive types is an `EmptyMessage`.
-/
namespace DfModel.Wire

/-! ## varint -/

def encodeVarint (n : Nat) : List Nat :=
  if n < 128 then [n] else (n % 128 + 128) :: encodeVarint (n / 128)
termination_by n
decreasing_by omega

/-- `fuel` = maximal number of bytes read -/
def decodeVarint : Nat → List Nat → Option (Nat × List Nat)
  | 0, _ => none
  | _ + 1, [] => none
  | fuel + 1, b :: rest =>
    if b < 128 then some (b, rest)
    else match decodeVarint fuel rest with
      | some (v, rest') => some ((b - 128) + 128 * v, rest')
      | none => none

def two64 : Nat := 18446744073709551616
def two32 : Nat := 4294967296

/-- prost `decode_varint`: at most ten bytes, and the value must fit in a `u64` -/
def decodeVarint64 (bs : List Nat) : Option (Nat × List Nat) :=
  match decodeVarint 10 bs with
  | some (v, rest) => if v < two64 then some (v, rest) else none
  | none => none

/-! ## zigzag -/

def zigzag (i : Int) : Nat := if 0 ≤ i then (2 * i).toNat else (-2 * i - 1).toNat
def unzigzag (n : Nat) : Int := if n % 2 = 0 then (n / 2 : Nat) else -(((n + 1) / 2 : Nat) : Int)

/-! ## fixed width, little endian -/

def encodeFixed : Nat → Nat → List Nat
  | 0, _ => []
  | k + 1, n => n % 256 :: encodeFixed k (n / 256)

def decodeFixed : Nat → List Nat → Option (Nat × List Nat)
  | 0, bs => some (0, bs)
  | _ + 1, [] => none
  | k + 1, b :: bs =>
    match decodeFixed k bs with
    | some (v, rest) => some (b + 256 * v, rest)
    | none => none

/-! ## field keys -/

def encodeKey (field wt : Nat) : List Nat := encodeVarint (field * 8 + wt)

def decodeKey (bs : List Nat) : Option ((Nat × Nat) × List Nat) :=
  match decodeVarint64 bs with
  | some (v, rest) =>
    if v < two32 ∧ v % 8 ≤ 5 ∧ 1 ≤ v / 8 then some ((v / 8, v % 8), rest) else none
  | none => none

/-! ## length-delimited -/

def encodeLenDelim (payload : List Nat) : List Nat := encodeVarint payload.length ++ payload

def decodeLenDelim (bs : List Nat) : Option (List Nat × List Nat) :=
  match decodeVarint64 bs with
  | some (n, rest) => if n ≤ rest.length then some (rest.take n, rest.drop n) else none
  | none => none

/-! ## int32 / int64 fields -/

/-- two's complement of a (64-bit representable) integer as a `u64` -/
def toU64 (i : Int) : Nat := (i % (two64 : Int)).toNat

/-- reinterpret the low `w` bits as a signed integer (`as i32`, `as i8`, …) -/
def toSigned (w : Nat) (n : Nat) : Int :=
  let m := n % 2 ^ w
  if m < 2 ^ (w - 1) then (m : Int) else (m : Int) - (2 ^ w : Nat)

def encodeInt (i : Int) : List Nat := encodeVarint (toU64 i)

/-! ## the ScalarValue message -/

/-- the primitive arrow types of the fragment -/
inductive PType where
  | none | bool | i8 | i16 | i32 | i64 | u8 | u16 | u32 | u64 | utf8 | largeUtf8 | utf8View
  deriving DecidableEq, Repr, Inhabited

/-- `ScalarValue` restricted to the primitive variants; strings are their UTF-8 bytes -/
inductive Scalar where
  | null (t : PType)
  | bool (b : Bool)
  | sint (t : PType) (v : Int)      -- t ∈ {i8,i16,i32,i64}
  | uint (t : PType) (v : Nat)      -- t ∈ {u8,u16,u32,u64}
  | str (t : PType) (bytes : List Nat) -- t ∈ {utf8,largeUtf8,utf8View}
  deriving DecidableEq, Repr, Inhabited

def sintBits : PType → Option Nat
  | .i8 => some 8 | .i16 => some 16 | .i32 => some 32 | .i64 => some 64 | _ => none
def uintBits : PType → Option Nat
  | .u8 => some 8 | .u16 => some 16 | .u32 => some 32 | .u64 => some 64 | _ => none

/-- the values a real `ScalarValue` of that variant can hold -/
def Scalar.valid : Scalar → Prop
  | .null _ => True
  | .bool _ => True
  | .sint t v => ∃ w, sintBits t = some w ∧ -(2 ^ (w - 1) : Int) ≤ v ∧ v < (2 ^ (w - 1) : Int)
  | .uint t v => ∃ w, uintBits t = some w ∧ v < 2 ^ w
  | .str t bs => (t = .utf8 ∨ t = .largeUtf8 ∨ t = .utf8View) ∧ bs.length < two64

/-- field number in `message ScalarValue` -/
def valueField : PType → Nat
  | .none => 33
  | .bool => 1
  | .utf8 => 2 | .largeUtf8 => 3 | .utf8View => 23
  | .i8 => 4 | .i16 => 5 | .i32 => 6 | .i64 => 7
  | .u8 => 8 | .u16 => 9 | .u32 => 10 | .u64 => 11

/-- member of `ArrowType.arrow_type_enum` -/
def arrowTypeField : PType → Nat
  | .none => 1 | .bool => 2
  | .u8 => 3 | .i8 => 4 | .u16 => 5 | .i16 => 6 | .u32 => 7 | .i32 => 8 | .u64 => 9 | .i64 => 10
  | .utf8 => 14 | .utf8View => 35 | .largeUtf8 => 32

def ptypeOfArrowField : Nat → Option PType
  | 1 => some .none | 2 => some .bool
  | 3 => some .u8 | 4 => some .i8 | 5 => some .u16 | 6 => some .i16 | 7 => some .u32 | 8 => some .i32
  | 9 => some .u64 | 10 => some .i64 | 14 => some .utf8 | 35 => some .utf8View | 32 => some .largeUtf8
  | _ => none

/-- `ArrowType { arrow_type_enum: Some(T(EmptyMessage{})) }` -/
def encodeArrowType (t : PType) : List Nat := encodeKey (arrowTypeField t) 2 ++ encodeLenDelim []

def decodeArrowType (bs : List Nat) : Option PType :=
  match decodeKey bs with
  | some ((f, 2), rest) =>
    match decodeLenDelim rest with
    | some ([], []) => ptypeOfArrowField f
    | _ => none
  | _ => none

def encodeScalar : Scalar → List Nat
  | .null t => encodeKey 33 2 ++ encodeLenDelim (encodeArrowType t)
  | .bool b => encodeKey 1 0 ++ encodeVarint (if b then 1 else 0)
  | .sint t v => encodeKey (valueField t) 0 ++ encodeInt v
  | .uint t v => encodeKey (valueField t) 0 ++ encodeVarint v
  | .str t bs => encodeKey (valueField t) 2 ++ encodeLenDelim bs

/-- one `value` field, nothing after it (what `encodeScalar` produces); the narrowing `as` casts of
    `from_proto` are modelled (`Int8Value(v) → Int8(v as i8)` after prost's `as i32`) -/
def decodeScalar (bs : List Nat) : Option Scalar :=
  match decodeKey bs with
  | some ((f, wt), rest) =>
    if wt = 0 then
      match decodeVarint64 rest with
      | some (v, []) =>
        match f with
        | 1 => some (.bool (v != 0))
        | 4 => some (.sint .i8 (toSigned 8 (toSigned 32 v % 256).toNat))
        | 5 => some (.sint .i16 (toSigned 16 (toSigned 32 v % 65536).toNat))
        | 6 => some (.sint .i32 (toSigned 32 v))
        | 7 => some (.sint .i64 (toSigned 64 v))
        | 8 => some (.uint .u8 (v % two32 % 256))
        | 9 => some (.uint .u16 (v % two32 % 65536))
        | 10 => some (.uint .u32 (v % two32))
        | 11 => some (.uint .u64 v)
        | _ => none
      | _ => none
    else if wt = 2 then
      match decodeLenDelim rest with
      | some (payload, []) =>
        match f with
        | 2 => some (.str .utf8 payload)
        | 3 => some (.str .largeUtf8 payload)
        | 23 => some (.str .utf8View payload)
        | 33 => (decodeArrowType payload).map .null
        | _ => none
      | _ => none
    else none
  | none => none

end DfModel.Wire
