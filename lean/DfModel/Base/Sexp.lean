/-
  S-expressions for the line protocol between the Rust harness and the model driver.
  Core Lean only (this file is linked into the compiled driver `dfdrv`).

  Grammar:  sexp := atom | '(' sexp* ')'      atoms contain no blanks / parens.
  Strings travel as atoms `x<hex>` (see `hexBytes?`), so no escaping exists anywhere.
-/
namespace DfModel

inductive Sexp where
  | atom : String → Sexp
  | list : List Sexp → Sexp
  deriving Repr, Inhabited, BEq

namespace Sexp

/-- tokens: "(" , ")" , atom -/
def tokenize (s : String) : List String := Id.run do
  let mut toks : Array String := #[]
  let mut cur : String := ""
  for c in s.toList do
    if c == '(' || c == ')' then
      if cur != "" then toks := toks.push cur; cur := ""
      toks := toks.push (String.singleton c)
    else if c == ' ' || c == '\t' || c == '\n' || c == '\r' then
      if cur != "" then toks := toks.push cur; cur := ""
    else
      cur := cur.push c
  if cur != "" then toks := toks.push cur
  return toks.toList

/-- Stack-based parser: total, no recursion on the tree. -/
def parseToks (toks : List String) : Option Sexp := Id.run do
  -- stack of partially built lists (innermost first)
  let mut stack : List (Array Sexp) := []
  let mut top : Array Sexp := #[]
  let mut bad := false
  for t in toks do
    if t == "(" then
      stack := top :: stack
      top := #[]
    else if t == ")" then
      match stack with
      | [] => bad := true
      | p :: rest =>
        top := p.push (Sexp.list top.toList)
        stack := rest
    else
      top := top.push (Sexp.atom t)
  if bad || !stack.isEmpty then return none
  match top.toList with
  | [x] => return some x
  | xs => return some (Sexp.list xs)

def parse (s : String) : Option Sexp := parseToks (tokenize s)

partial def toStr : Sexp → String
  | atom a => a
  | list xs => "(" ++ " ".intercalate (xs.map toStr) ++ ")"

def asAtom? : Sexp → Option String
  | atom a => some a
  | _ => none

def asList? : Sexp → Option (List Sexp)
  | list xs => some xs
  | _ => none

def asInt? : Sexp → Option Int
  | atom a => a.toInt?
  | _ => none

def asNat? : Sexp → Option Nat
  | atom a => a.toNat?
  | _ => none

def asBool? : Sexp → Option Bool
  | atom "t" => some true
  | atom "f" => some false
  | _ => none

def natList? (s : Sexp) : Option (List Nat) :=
  match s with
  | list xs => xs.mapM asNat?
  | _ => none

def intList? (s : Sexp) : Option (List Int) :=
  match s with
  | list xs => xs.mapM asInt?
  | _ => none

end Sexp

/-! ### hex helpers (strings / byte strings travel as `x<hex>`; the empty string is `x`) -/

def hexDigit? (c : Char) : Option Nat :=
  if '0' ≤ c ∧ c ≤ '9' then some (c.toNat - '0'.toNat)
  else if 'a' ≤ c ∧ c ≤ 'f' then some (c.toNat - 'a'.toNat + 10)
  else none

def hexPairs? : List Char → Option (List Nat)
  | [] => some []
  | [_] => none
  | a :: b :: rest => do
    let x ← hexDigit? a
    let y ← hexDigit? b
    let r ← hexPairs? rest
    pure ((x * 16 + y) :: r)

/-- `x48656c` ↦ `[0x48,0x65,0x6c]` -/
def hexBytes? (s : String) : Option (List Nat) :=
  match s.toList with
  | 'x' :: rest => hexPairs? rest
  | _ => none

def hexNibble (n : Nat) : Char :=
  if n < 10 then Char.ofNat ('0'.toNat + n) else Char.ofNat ('a'.toNat + (n - 10))

def bytesHex (bs : List Nat) : String :=
  String.ofList ('x' :: bs.flatMap (fun b => [hexNibble (b / 16 % 16), hexNibble (b % 16)]))

/-- chars as code points: `u<cp>,<cp>,…` is clumsy; we ship code points as a list sexp instead. -/
def Sexp.asChars? (s : Sexp) : Option (List Char) :=
  match s with
  | .list xs => xs.mapM (fun x => (x.asNat?).map Char.ofNat)
  | _ => none

def charsSexp (cs : List Char) : String :=
  "(" ++ " ".intercalate (cs.map (fun c => toString c.toNat)) ++ ")"

def natsSexp (xs : List Nat) : String :=
  "(" ++ " ".intercalate (xs.map toString) ++ ")"

def intsSexp (xs : List Int) : String :=
  "(" ++ " ".intercalate (xs.map toString) ++ ")"

end DfModel
