/-
  L0 — values, three-valued logic, orders.   Core Lean only (linked into `dfdrv`).

  `Val`      one SQL cell: NULL, a fixed-width integer (width in bits, signedness, mathematical
             value), a boolean, a string (list of code points; UTF-8 byte order = code point order,
             so "bytewise" string comparison is comparison of these lists).
  `Tri`      Kleene three-valued logic with the AND/OR/NOT tables.
  `cmpVal`   total order on values (numeric for integers of any width, false<true, lexicographic
             strings; different kinds are ordered by kind so that the order is total).
  `SortOpt`, `cmpCol`, `cmpRows`   mirror `datafusion_common::utils::compare_rows`.
  Laws: `cmpRows` is a total preorder for every option vector (`cmpRows_refl`, `cmpRows_swap`,
  `cmpRows_total`, `cmpRows_trans`).
-/
namespace DfModel

/-! ## values -/

inductive Val where
  | null
  | int (w : Nat) (s : Bool) (n : Int)
  | bool (b : Bool)
  | str (cs : List Char)
  deriving DecidableEq, Repr, Inhabited

abbrev Row := List Val

namespace Val

def isNull : Val → Bool
  | .null => true
  | _ => false

/-- kind rank, used only to make `cmpVal` total across kinds -/
def rank : Val → Nat
  | .null => 0
  | .bool _ => 1
  | .int _ _ _ => 2
  | .str _ => 3

end Val

instance {ε α : Type} [DecidableEq ε] [DecidableEq α] : DecidableEq (Except ε α) := fun a b =>
  match a, b with
  | .ok x, .ok y => if h : x = y then isTrue (by rw [h]) else isFalse (by intro e; cases e; exact h rfl)
  | .error x, .error y => if h : x = y then isTrue (by rw [h]) else isFalse (by intro e; cases e; exact h rfl)
  | .ok _, .error _ => isFalse (by intro e; cases e)
  | .error _, .ok _ => isFalse (by intro e; cases e)

/-! ## fixed-width integers -/

/-- smallest value of a `w`-bit integer -/
def intMin (w : Nat) (s : Bool) : Int := if s then -(2 ^ (w - 1) : Int) else 0
/-- largest value of a `w`-bit integer -/
def intMax (w : Nat) (s : Bool) : Int := if s then (2 ^ (w - 1) : Int) - 1 else (2 ^ w : Int) - 1

def inRange (w : Nat) (s : Bool) (n : Int) : Bool := intMin w s ≤ n && n ≤ intMax w s

/-- two's-complement wrap of a mathematical integer into `w` bits -/
def wrapInt (w : Nat) (s : Bool) (n : Int) : Int :=
  if s then (n + 2 ^ (w - 1)) % (2 ^ w : Int) - 2 ^ (w - 1) else n % (2 ^ w : Int)

theorem wrapInt_inRange (w : Nat) (s : Bool) (n : Int) (hw : 0 < w) : inRange w s (wrapInt w s n) = true := by
  have hp : (0 : Int) < 2 ^ w := Int.pow_pos (by decide)
  have h2 : (2 : Int) ^ w = 2 * 2 ^ (w - 1) := by
    obtain ⟨k, rfl⟩ : ∃ k, w = k + 1 := ⟨w - 1, by omega⟩
    simp [Int.pow_succ, Int.mul_comm]
  cases s
  · have h1 := Int.emod_nonneg n (Int.ne_of_gt hp)
    have h3 := Int.emod_lt_of_pos n hp
    simp only [inRange, intMin, intMax, wrapInt, Bool.false_eq_true, if_false, Bool.and_eq_true, decide_eq_true_eq]
    omega
  · have h1 := Int.emod_nonneg (n + 2 ^ (w - 1)) (Int.ne_of_gt hp)
    have h3 := Int.emod_lt_of_pos (n + 2 ^ (w - 1)) hp
    simp only [inRange, intMin, intMax, wrapInt, if_true, Bool.and_eq_true, decide_eq_true_eq]
    omega

theorem wrapInt_of_inRange (w : Nat) (s : Bool) (n : Int) (hw : 0 < w) (h : inRange w s n = true) : wrapInt w s n = n := by
  have hp : (0 : Int) < 2 ^ w := Int.pow_pos (by decide)
  have h2 : (2 : Int) ^ w = 2 * 2 ^ (w - 1) := by
    obtain ⟨k, rfl⟩ : ∃ k, w = k + 1 := ⟨w - 1, by omega⟩
    simp [Int.pow_succ, Int.mul_comm]
  cases s
  · simp only [inRange, intMin, intMax, Bool.false_eq_true, if_false, Bool.and_eq_true, decide_eq_true_eq] at h
    simp only [wrapInt, Bool.false_eq_true, if_false]
    exact Int.emod_eq_of_lt h.1 (by omega)
  · simp only [inRange, intMin, intMax, if_true, Bool.and_eq_true, decide_eq_true_eq] at h
    simp only [wrapInt, if_true]
    rw [Int.emod_eq_of_lt (by omega) (by omega)]
    omega

/-! ## three-valued logic -/

inductive Tri where
  | t | f | u
  deriving DecidableEq, Repr, Inhabited

namespace Tri

def and : Tri → Tri → Tri
  | f, _ => f
  | _, f => f
  | t, t => t
  | _, _ => u

def or : Tri → Tri → Tri
  | t, _ => t
  | _, t => t
  | f, f => f
  | _, _ => u

def not : Tri → Tri
  | t => f
  | f => t
  | u => u

def ofBool (b : Bool) : Tri := if b then t else f

def toVal : Tri → Val
  | t => .bool true
  | f => .bool false
  | u => .null

/-- a boolean-typed cell as a truth value (`none`: not a boolean cell) -/
def ofVal? : Val → Option Tri
  | .bool true => some t
  | .bool false => some f
  | .null => some u
  | _ => none

def isTrue : Tri → Bool
  | t => true
  | _ => false

end Tri

/-! ## orders -/

def cmpInt (a b : Int) : Ordering := if a < b then .lt else if a = b then .eq else .gt
def cmpNat (a b : Nat) : Ordering := if a < b then .lt else if a = b then .eq else .gt
def cmpBool : Bool → Bool → Ordering
  | false, true => .lt
  | true, false => .gt
  | _, _ => .eq

/-- lexicographic comparison of code point lists (= bytewise comparison of the UTF-8 encodings) -/
def cmpChars : List Char → List Char → Ordering
  | [], [] => .eq
  | [], _ :: _ => .lt
  | _ :: _, [] => .gt
  | a :: as, b :: bs =>
    match cmpNat a.toNat b.toNat with
    | .eq => cmpChars as bs
    | r => r

/-- Total order on values. Integers compare by mathematical value whatever their widths (the engine
    only ever compares equal types; a coercion to the common type preserves the mathematical value);
    values of different kinds are ordered by kind. -/
def cmpVal (a b : Val) : Ordering :=
  match a, b with
  | .int _ _ x, .int _ _ y => cmpInt x y
  | .bool x, .bool y => cmpBool x y
  | .str x, .str y => cmpChars x y
  | a, b => cmpNat a.rank b.rank

/-- `arrow::compute::SortOptions` -/
structure SortOpt where
  desc : Bool := false
  nullsFirst : Bool := false
  deriving DecidableEq, Repr, Inhabited

/-- one column of `compare_rows`: the `(lhs.is_null(), rhs.is_null(), nulls_first)` table, then
    `try_cmp` (reversed when descending) -/
def cmpCol (o : SortOpt) (a b : Val) : Ordering :=
  match a.isNull, b.isNull with
  | true, true => .eq
  | true, false => if o.nullsFirst then .lt else .gt
  | false, true => if o.nullsFirst then .gt else .lt
  | false, false => if o.desc then cmpVal b a else cmpVal a b

/-- `datafusion_common::utils::compare_rows`: lexicographic over the zipped columns and options;
    the first non-equal column decides. -/
def cmpRows : List SortOpt → Row → Row → Ordering
  | o :: os, a :: as, b :: bs =>
    match cmpCol o a b with
    | .eq => cmpRows os as bs
    | r => r
  | _, _, _ => .eq

def leRows (os : List SortOpt) (a b : Row) : Bool := cmpRows os a b != .gt

/-! ## comparator laws -/

/-- the laws of a total preorder presented as an `Ordering`-valued comparator -/
structure CmpLaws {α : Type} (c : α → α → Ordering) : Prop where
  refl : ∀ a, c a a = .eq
  swap : ∀ a b, c b a = (c a b).swap
  lt_trans : ∀ x y z, c x y = .lt → c y z = .lt → c x z = .lt
  eq_left : ∀ x y z, c x y = .eq → c x z = c y z

namespace CmpLaws
variable {α : Type} {c : α → α → Ordering}

theorem eq_right (h : CmpLaws c) (x y z : α) (e : c y z = .eq) : c x y = c x z := by
  have e' : c z y = .eq := by rw [h.swap y z, e]; rfl
  have h1 := h.eq_left z y x e'
  rw [h.swap x z, h.swap x y] at h1
  cases hxy : c x y <;> cases hxz : c x z <;> simp_all [Ordering.swap]

theorem gt_trans (h : CmpLaws c) (x y z : α) (h1 : c x y = .gt) (h2 : c y z = .gt) : c x z = .gt := by
  have a : c y x = .lt := by rw [h.swap x y, h1]; rfl
  have b : c z y = .lt := by rw [h.swap y z, h2]; rfl
  have := h.lt_trans z y x b a
  rw [h.swap z x, this]; rfl

/-- `≤` is transitive -/
theorem le_trans (h : CmpLaws c) (x y z : α) (h1 : c x y ≠ .gt) (h2 : c y z ≠ .gt) : c x z ≠ .gt := by
  cases hxy : c x y with
  | gt => exact absurd hxy h1
  | eq => rw [h.eq_left x y z hxy]; exact h2
  | lt =>
    cases hyz : c y z with
    | gt => exact absurd hyz h2
    | eq => rw [← h.eq_right x y z hyz, hxy]; decide
    | lt => rw [h.lt_trans x y z hxy hyz]; decide

/-- `≤` is total -/
theorem total (h : CmpLaws c) (x y : α) : c x y ≠ .gt ∨ c y x ≠ .gt := by
  rw [h.swap x y]
  cases c x y <;> simp [Ordering.swap]

/-- the reversed comparator satisfies the laws -/
theorem flip (h : CmpLaws c) : CmpLaws (fun a b => c b a) where
  refl := h.refl
  swap := fun a b => h.swap b a
  lt_trans := fun x y z h1 h2 => h.lt_trans z y x h2 h1
  eq_left := fun x y z e => by
    have e' : c x y = .eq := by rw [h.swap y x, e]; rfl
    exact h.eq_right z x y e'

end CmpLaws

theorem cmpInt_laws : CmpLaws cmpInt where
  refl := by intro a; simp [cmpInt]
  swap := by
    intro a b; simp only [cmpInt]
    split <;> split <;> (try split) <;> simp_all [Ordering.swap] <;> omega
  lt_trans := by
    intro x y z; simp only [cmpInt]
    repeat' split
    all_goals simp_all
    all_goals omega
  eq_left := by
    intro x y z; simp only [cmpInt]
    repeat' split
    all_goals simp_all
    all_goals omega

theorem cmpNat_laws : CmpLaws cmpNat where
  refl := by intro a; simp [cmpNat]
  swap := by
    intro a b; simp only [cmpNat]
    split <;> split <;> (try split) <;> simp_all [Ordering.swap] <;> omega
  lt_trans := by
    intro x y z; simp only [cmpNat]
    repeat' split
    all_goals simp_all
    all_goals omega
  eq_left := by
    intro x y z; simp only [cmpNat]
    repeat' split
    all_goals simp_all
    all_goals omega

theorem cmpNat_eq_iff (a b : Nat) : cmpNat a b = .eq ↔ a = b := by
  simp only [cmpNat]; repeat' split
  all_goals simp_all
  all_goals omega

theorem cmpInt_eq_iff (a b : Int) : cmpInt a b = .eq ↔ a = b := by
  simp only [cmpInt]; repeat' split
  all_goals simp_all
  all_goals omega

theorem cmpBool_laws : CmpLaws cmpBool where
  refl := by decide
  swap := by decide
  lt_trans := by decide
  eq_left := by decide

theorem cmpBool_eq_iff (a b : Bool) : cmpBool a b = .eq ↔ a = b := by
  revert a b; decide

theorem cmpChars_refl (a : List Char) : cmpChars a a = .eq := by
  induction a with
  | nil => rfl
  | cons x xs ih => simp [cmpChars, cmpNat_laws.refl, ih]

theorem cmpChars_swap (a b : List Char) : cmpChars b a = (cmpChars a b).swap := by
  induction a generalizing b with
  | nil => cases b <;> rfl
  | cons x xs ih =>
    cases b with
    | nil => rfl
    | cons y ys =>
      simp only [cmpChars]
      rw [cmpNat_laws.swap x.toNat y.toNat]
      cases h : cmpNat x.toNat y.toNat <;> simp [Ordering.swap, ih]

theorem cmpChars_eq_iff (a b : List Char) : cmpChars a b = .eq ↔ a = b := by
  induction a generalizing b with
  | nil => cases b <;> simp [cmpChars]
  | cons x xs ih =>
    cases b with
    | nil => simp [cmpChars]
    | cons y ys =>
      simp only [cmpChars]
      cases h : cmpNat x.toNat y.toNat
      · simp only [reduceCtorEq, List.cons.injEq, false_iff, not_and]
        intro e; subst e; simp [cmpNat_laws.refl] at h
      · have := (cmpNat_eq_iff _ _).1 h
        have hxy : x = y := Char.ext (by
          have := congrArg (fun n => n) this
          exact UInt32.toNat_inj.mp this)
        simp [ih, hxy]
      · simp only [reduceCtorEq, List.cons.injEq, false_iff, not_and]
        intro e; subst e; simp [cmpNat_laws.refl] at h

theorem cmpChars_lt_trans (x y z : List Char) : cmpChars x y = .lt → cmpChars y z = .lt → cmpChars x z = .lt := by
  induction x generalizing y z with
  | nil =>
    cases y with
    | nil => simp [cmpChars]
    | cons b bs => cases z <;> simp [cmpChars]
  | cons a as ih =>
    cases y with
    | nil => simp [cmpChars]
    | cons b bs =>
      cases z with
      | nil => simp [cmpChars]
      | cons d ds =>
        simp only [cmpChars]
        cases h1 : cmpNat a.toNat b.toNat <;> cases h2 : cmpNat b.toNat d.toNat <;> simp
        · rw [cmpNat_laws.lt_trans _ _ _ h1 h2]
        · intro _; rw [cmpNat_laws.eq_right _ _ _ h2] at h1; rw [h1]
        · intro _; rw [cmpNat_laws.eq_left _ _ _ h1, h2]
        · rw [cmpNat_laws.eq_left _ _ _ h1, h2]; exact ih bs ds

theorem cmpChars_laws : CmpLaws cmpChars where
  refl := cmpChars_refl
  swap := cmpChars_swap
  lt_trans := cmpChars_lt_trans
  eq_left := by
    intro x y z e
    rw [(cmpChars_eq_iff x y).1 e]

/-- `cmpVal` is a total order on values … -/
theorem cmpVal_laws : CmpLaws cmpVal where
  refl := by
    intro a; cases a <;> simp [cmpVal, cmpInt_laws.refl, cmpBool_laws.refl, cmpChars_laws.refl, cmpNat_laws.refl]
  swap := by
    intro a b
    cases a <;> cases b <;>
      first
      | exact cmpInt_laws.swap _ _
      | exact cmpBool_laws.swap _ _
      | exact cmpChars_laws.swap _ _
      | rfl
  lt_trans := by
    intro x y z
    cases x <;> cases y <;> cases z <;>
      first
      | exact cmpInt_laws.lt_trans _ _ _
      | exact cmpBool_laws.lt_trans _ _ _
      | exact cmpChars_laws.lt_trans _ _ _
      | (simp [cmpVal, Val.rank, cmpNat])
  eq_left := by
    intro x y z
    cases x <;> cases y <;> cases z <;>
      first
      | exact cmpInt_laws.eq_left _ _ _
      | exact cmpBool_laws.eq_left _ _ _
      | exact cmpChars_laws.eq_left _ _ _
      | (simp [cmpVal, Val.rank, cmpNat])

/-- … whose equivalence is equality up to the integer's declared width/signedness -/
theorem cmpVal_eq_iff_of_str (a b : List Char) : cmpVal (.str a) (.str b) = .eq ↔ a = b :=
  cmpChars_eq_iff a b

theorem cmpCol_laws (o : SortOpt) : CmpLaws (cmpCol o) := by
  have hv := cmpVal_laws
  have hf := cmpVal_laws.flip
  constructor
  · intro a
    cases a <;> simp [cmpCol, Val.isNull, hv.refl]
  · intro a b
    cases ha : a.isNull <;> cases hb : b.isNull <;> simp only [cmpCol, ha, hb]
    · cases o.desc
      · simpa using hv.swap a b
      · simpa using hv.swap b a
    · cases o.nullsFirst <;> rfl
    · cases o.nullsFirst <;> rfl
    · rfl
  · intro x y z
    cases hx : x.isNull <;> cases hy : y.isNull <;> cases hz : z.isNull <;>
      simp only [cmpCol, hx, hy, hz] <;> cases o.nullsFirst <;> (try simp)
    all_goals
      cases o.desc
      · simpa using hv.lt_trans x y z
      · simpa using hf.lt_trans x y z
  · intro x y z
    cases hx : x.isNull <;> cases hy : y.isNull <;> cases hz : z.isNull <;>
      simp only [cmpCol, hx, hy, hz] <;> cases o.nullsFirst <;> (try simp)
    all_goals
      cases o.desc
      · simpa using hv.eq_left x y z
      · simpa using hf.eq_left x y z

/-! ## `cmpRows` is a total preorder for every option vector -/

theorem cmpRows_refl (os : List SortOpt) (a : Row) : cmpRows os a a = .eq := by
  induction os generalizing a with
  | nil => cases a <;> rfl
  | cons o os ih =>
    cases a with
    | nil => rfl
    | cons x xs => simp [cmpRows, (cmpCol_laws o).refl, ih]

theorem cmpRows_swap (os : List SortOpt) (a b : Row) : cmpRows os b a = (cmpRows os a b).swap := by
  induction os generalizing a b with
  | nil => cases a <;> cases b <;> rfl
  | cons o os ih =>
    cases a with
    | nil => cases b <;> rfl
    | cons x xs =>
      cases b with
      | nil => rfl
      | cons y ys =>
        simp only [cmpRows]
        rw [(cmpCol_laws o).swap x y]
        cases cmpCol o x y
        · rfl
        · exact ih xs ys
        · rfl

/-- totality: of any two rows one is `≤` the other -/
theorem cmpRows_total (os : List SortOpt) (a b : Row) : cmpRows os a b ≠ .gt ∨ cmpRows os b a ≠ .gt := by
  rw [cmpRows_swap os a b]
  cases cmpRows os a b <;> simp [Ordering.swap]

theorem cmpRows_lt_trans (os : List SortOpt) (a b c : Row) (hab : a.length = b.length) (hbc : b.length = c.length) :
    cmpRows os a b = .lt → cmpRows os b c = .lt → cmpRows os a c = .lt := by
  induction os generalizing a b c with
  | nil => cases a <;> cases b <;> simp [cmpRows]
  | cons o os ih =>
    cases a with
    | nil => cases b <;> simp [cmpRows]
    | cons x xs =>
      cases b with
      | nil => simp at hab
      | cons y ys =>
        cases c with
        | nil => simp at hbc
        | cons z zs =>
          have L := cmpCol_laws o
          simp only [cmpRows]
          simp only [List.length_cons, Nat.add_right_cancel_iff] at hab hbc
          cases h1 : cmpCol o x y <;> cases h2 : cmpCol o y z <;> simp
          · rw [L.lt_trans _ _ _ h1 h2]
          · intro _; rw [L.eq_right _ _ _ h2] at h1; rw [h1]
          · intro _; rw [L.eq_left _ _ _ h1, h2]
          · rw [L.eq_left _ _ _ h1, h2]; exact ih xs ys zs hab hbc

theorem cmpRows_eq_left (os : List SortOpt) (a b c : Row) (hab : a.length = b.length) (hbc : b.length = c.length) :
    cmpRows os a b = .eq → cmpRows os a c = cmpRows os b c := by
  induction os generalizing a b c with
  | nil => cases a <;> cases b <;> cases c <;> simp [cmpRows]
  | cons o os ih =>
    cases a with
    | nil =>
      cases b with
      | nil => simp
      | cons y ys => simp at hab
    | cons x xs =>
      cases b with
      | nil => simp at hab
      | cons y ys =>
        cases c with
        | nil => simp at hbc
        | cons z zs =>
          have L := cmpCol_laws o
          simp only [cmpRows]
          simp only [List.length_cons, Nat.add_right_cancel_iff] at hab hbc
          cases h1 : cmpCol o x y <;> simp
          rw [L.eq_left _ _ _ h1]
          intro e
          cases cmpCol o y z <;> simp
          exact ih xs ys zs hab hbc e

/-- On rows of one relation (equal lengths) `cmpRows os` satisfies all comparator laws … -/
theorem cmpRows_laws_on (os : List SortOpt) (n : Nat) :
    CmpLaws (fun (a b : {r : Row // r.length = n}) => cmpRows os a.1 b.1) where
  refl := fun a => cmpRows_refl os a.1
  swap := fun a b => cmpRows_swap os a.1 b.1
  lt_trans := fun x y z => cmpRows_lt_trans os x.1 y.1 z.1 (by rw [x.2, y.2]) (by rw [y.2, z.2])
  eq_left := fun x y z => cmpRows_eq_left os x.1 y.1 z.1 (by rw [x.2, y.2]) (by rw [y.2, z.2])

/-- … in particular `≤` is transitive. (Rows of different lengths are compared on the common prefix
    only — `zip` in the Rust code — so transitivity needs the equal-length hypothesis:
    `[1] ≤ [] ≤ [0]` but `[1] > [0]`.) -/
theorem cmpRows_trans (os : List SortOpt) (a b c : Row) (hab : a.length = b.length) (hbc : b.length = c.length) :
    cmpRows os a b ≠ .gt → cmpRows os b c ≠ .gt → cmpRows os a c ≠ .gt := by
  intro h1 h2
  exact (cmpRows_laws_on os a.length).le_trans ⟨a, rfl⟩ ⟨b, hab.symm⟩ ⟨c, by omega⟩ h1 h2

/-! ## insertion sort by a comparator (stable), used by `sortBy`, canonical bag printing -/

def insertBy {α : Type} (le : α → α → Bool) (x : α) : List α → List α
  | [] => [x]
  | y :: ys => if le x y then x :: y :: ys else y :: insertBy le x ys

/-- stable insertion sort: equal elements keep their input order -/
def sortBy' {α : Type} (le : α → α → Bool) : List α → List α
  | [] => []
  | x :: xs => insertBy le x (sortBy' le xs)

theorem insertBy_perm {α : Type} (le : α → α → Bool) (x : α) (l : List α) : (insertBy le x l).Perm (x :: l) := by
  induction l with
  | nil => exact List.Perm.refl _
  | cons y ys ih =>
    simp only [insertBy]
    split
    · exact List.Perm.refl _
    · exact ((List.Perm.cons y ih).trans (List.Perm.swap x y ys))

theorem sortBy'_perm {α : Type} (le : α → α → Bool) (l : List α) : (sortBy' le l).Perm l := by
  induction l with
  | nil => exact List.Perm.refl _
  | cons x xs ih => exact (insertBy_perm le x _).trans (List.Perm.cons x ih)

end DfModel

namespace DfModel

/-- inserting into a sorted list keeps it sorted (for an order that is total and transitive on the
    elements satisfying `S`) -/
theorem insertBy_sorted {α : Type} (le : α → α → Bool) (S : α → Prop)
    (htot : ∀ a b, S a → S b → le a b = true ∨ le b a = true)
    (htr : ∀ a b c, S a → S b → S c → le a b = true → le b c = true → le a c = true)
    (x : α) (l : List α) (hx : S x) (hl : ∀ y ∈ l, S y) (hs : l.Pairwise (fun a b => le a b = true)) :
    (insertBy le x l).Pairwise (fun a b => le a b = true) := by
  induction l with
  | nil => simp [insertBy]
  | cons y ys ih =>
    have hy : S y := hl y (by simp)
    have hys : ∀ z ∈ ys, S z := fun z hz => hl z (by simp [hz])
    rw [List.pairwise_cons] at hs
    simp only [insertBy]
    split
    · rename_i hxy
      rw [List.pairwise_cons]
      refine ⟨?_, List.pairwise_cons.mpr hs⟩
      intro z hz
      rcases List.mem_cons.mp hz with rfl | hz
      · exact hxy
      · exact htr x y z hx hy (hys z hz) hxy (hs.1 z hz)
    · rename_i hxy
      rw [List.pairwise_cons]
      refine ⟨?_, ih hys hs.2⟩
      intro z hz
      have hz' : z ∈ x :: ys := (insertBy_perm le x ys).mem_iff.mp hz
      rcases List.mem_cons.mp hz' with rfl | hz'
      · rcases htot z y hx hy with h | h
        · exact absurd h hxy
        · exact h
      · exact hs.1 z hz'

/-- insertion sort produces a sorted list -/
theorem sortBy'_sorted {α : Type} (le : α → α → Bool) (S : α → Prop)
    (htot : ∀ a b, S a → S b → le a b = true ∨ le b a = true)
    (htr : ∀ a b c, S a → S b → S c → le a b = true → le b c = true → le a c = true)
    (l : List α) (hl : ∀ y ∈ l, S y) : (sortBy' le l).Pairwise (fun a b => le a b = true) := by
  induction l with
  | nil => simp [sortBy']
  | cons x xs ih =>
    simp only [sortBy']
    apply insertBy_sorted le S htot htr x _ (hl x (by simp))
    · intro y hy
      exact hl y (by simp [(sortBy'_perm le xs).mem_iff.mp hy])
    · exact ih (fun y hy => hl y (by simp [hy]))

end DfModel
