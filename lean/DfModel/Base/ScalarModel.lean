/-
  C34 — model of `datafusion_common::ScalarValue` ↔ arrow arrays ↔ casts.
  Core Lean only (linked into `dfdrv`).  Hand-written from
  `datafusion/common/src/scalar/mod.rs` (`to_array_of_size`, `iter_to_array`, `try_from_array`,
  `PartialEq`, `PartialOrd`, `Hash`, `cast_to_with_options`) and
  `datafusion/expr-common/src/columnar_value.rs` (`cast_array_by_name`); the arrow cast kernel
  (`arrow-cast 59.2`) is a trusted crate and is modelled element-wise in `convert` (tied by the
  correspondence run, not verified).

  Scope: typed NULL, Boolean, (U)Int8..64, Utf8/LargeUtf8/Utf8View, Binary/LargeBinary/BinaryView,
  FixedSizeBinary(n), Date32/64, Time32/64, Timestamp(unit, tz), Duration(unit),
  Decimal32/64/128/256(p, s) as `Int` + scale, Dictionary(key, primitive), List(primitive),
  Struct(primitive fields).
-/
namespace DfModel.ScalarModel

inductive TU | s | ms | us | ns
  deriving DecidableEq, Repr, Inhabited

inductive Enc | norm | large | view
  deriving DecidableEq, Repr, Inhabited

/-- primitive (non-nested) arrow data types of the model -/
inductive PTy
  | null | bool
  | int (signed : Bool) (bits : Nat)
  | str (e : Enc) | bin (e : Enc) | fsb (n : Int)
  | date32 | date64
  | time32 (u : TU) | time64 (u : TU)
  | ts (u : TU) (tz : Option String)
  | dur (u : TU)
  | dec (w p : Nat) (s : Int)
  deriving DecidableEq, Repr, Inhabited

/-- payload of a non-NULL primitive value -/
inductive PVal
  | b (v : Bool) | i (v : Int) | bytes (v : List Nat)
  deriving DecidableEq, Repr, Inhabited

/-- a primitive `ScalarValue`: its arrow type (carrying precision/scale/unit/tz/width) and
    `Option` payload.  `ScalarValue::Null` is `⟨.null, none⟩`. -/
structure PScalar where
  ty : PTy
  v : Option PVal
  deriving DecidableEq, Repr, Inhabited

inductive Ty
  | prim (t : PTy) | dict (k v : PTy) | list (e : PTy) | struct (fs : List (String × PTy))
  deriving DecidableEq, Repr, Inhabited

inductive Scalar
  | prim (p : PScalar)
  | dict (k : PTy) (p : PScalar)
  | list (e : PTy) (v : Option (List PScalar))
  | struct (fs : List (String × PTy)) (v : Option (List PScalar))
  deriving DecidableEq, Repr, Inhabited

def Scalar.ty : Scalar → Ty
  | .prim p => .prim p.ty
  | .dict k p => .dict k p.ty
  | .list e _ => .list e
  | .struct fs _ => .struct fs

def Scalar.isNull : Scalar → Bool
  | .prim p => p.v.isNone
  | .dict _ p => p.v.isNone
  | .list _ v => v.isNone
  | .struct _ v => v.isNone

/-- `ScalarValue::try_new_null` -/
def nullOf : Ty → Scalar
  | .prim t => .prim ⟨t, none⟩
  | .dict k v => .dict k ⟨v, none⟩
  | .list e => .list e none
  | .struct fs => .struct fs none

inductive Err
  | plain   -- a `DataFusionError` / `ArrowError`
  | panic   -- a Rust panic (index out of bounds, unchecked arithmetic overflow in a checked build)
  | unsup   -- outside the model
  deriving DecidableEq, Repr, Inhabited

/-! ### decimals -/

def maxPrec : Nat → Nat
  | 32 => 9 | 64 => 18 | 128 => 38 | 256 => 76 | _ => 0

/-- arrow `validate_decimal_precision_and_scale::<T>` -/
def decOk (w p : Nat) (s : Int) : Bool :=
  p != 0 && p ≤ maxPrec w && s ≤ (maxPrec w : Int) && (s ≤ 0 || s ≤ (p : Int))

def PTy.decParamsOk : PTy → Bool
  | .dec w p s => decOk w p s
  | _ => true

/-- the value stored under a NULL slot by `new_null_array` / builders (never observable) -/
def defaultVal : PTy → PVal
  | .bool => .b false
  | .str _ | .bin _ => .bytes []
  | .fsb n => .bytes (List.replicate n.toNat 0)
  | _ => .i 0

/-! ### arrays -/

/-- a primitive arrow array: data type, validity bitmap, values buffer -/
structure PArr where
  ty : PTy
  valid : List Bool
  data : List PVal
  deriving DecidableEq, Repr, Inhabited

inductive Arr
  | prim (a : PArr)
  /-- `DictionaryArray`: key type, keys (NULL key = none), values -/
  | dict (k : PTy) (keys : List (Option Nat)) (values : PArr)
  /-- `ListArray` / `StructArray`, one logical row per entry (arrow `take`/`concat`/`slice` are trusted) -/
  | list (e : PTy) (rows : List (Option (List PScalar)))
  | struct (fs : List (String × PTy)) (rows : List (Option (List PScalar)))
  deriving DecidableEq, Repr, Inhabited

def Arr.len : Arr → Nat
  | .prim a => a.valid.length
  | .dict _ keys _ => keys.length
  | .list _ rows => rows.length
  | .struct _ rows => rows.length

def Arr.ty : Arr → Ty
  | .prim a => .prim a.ty
  | .dict k _ vs => .dict k vs.ty
  | .list e _ => .list e
  | .struct fs _ => .struct fs

/-- `to_array_of_size` for a primitive variant.  `Some` decimals go through
    `with_precision_and_scale` (validated); `None` uses `new_null_array` (not validated). -/
def pToArray (p : PScalar) (n : Nat) : Except Err PArr :=
  match p.v with
  | none => .ok ⟨p.ty, List.replicate n false, List.replicate n (defaultVal p.ty)⟩
  | some v =>
    if p.ty.decParamsOk then .ok ⟨p.ty, List.replicate n true, List.replicate n v⟩
    else .error .plain

/-- `try_from_array` for a primitive array: NULL slot → typed NULL of the ARRAY's type, else the
    value re-tagged with the array type's parameters (precision/scale/tz/width). -/
def pFromArray (a : PArr) (i : Nat) : Except Err PScalar :=
  match a.valid[i]?, a.data[i]? with
  | some true, some v => .ok ⟨a.ty, some v⟩
  | some false, some _ => .ok ⟨a.ty, none⟩
  | _, _ => .error .panic

def toArrayOfSize (s : Scalar) (n : Nat) : Except Err Arr :=
  match s with
  | .prim p => (pToArray p n).map .prim
  | .dict k p =>
    -- `dict_from_scalar`: values = one-element array, keys = n × 0 (n × NULL if the value is NULL)
    (pToArray p 1).map fun vals => .dict k (List.replicate n (if p.v.isNone then none else some 0)) vals
  | .list e v => .ok (.list e (List.replicate n v))
  | .struct fs v => .ok (.struct fs (List.replicate n v))

def tryFromArray (a : Arr) (i : Nat) : Except Err Scalar :=
  match a with
  | .prim a => (pFromArray a i).map .prim
  | .dict k keys values =>
    match keys[i]? with
    | none => .error .panic
    | some none => .ok (.dict k ⟨values.ty, none⟩)
    | some (some j) => (pFromArray values j).map (.dict k)
  | .list e rows =>
    match rows[i]? with
    | none => .error .panic
    | some r => .ok (.list e r)
  | .struct fs rows =>
    match rows[i]? with
    | none => .error .panic
    | some r => .ok (.struct fs r)

/-! ### iter_to_array -/

/-- "same `ScalarValue` variant" as tested by the `if let ScalarValue::$SCALAR_TY(v) = sv` arms:
    time zone, decimal precision/scale and FixedSizeBinary width are NOT part of the variant. -/
def sameVariant : PTy → PTy → Bool
  | .null, .null => true
  | .bool, .bool => true
  | .int s1 b1, .int s2 b2 => s1 == s2 && b1 == b2
  | .str e1, .str e2 => e1 == e2
  | .bin e1, .bin e2 => e1 == e2
  | .fsb _, .fsb _ => true
  | .date32, .date32 => true
  | .date64, .date64 => true
  | .time32 u1, .time32 u2 => u1 == u2
  | .time64 u1, .time64 u2 => u1 == u2
  | .ts u1 _, .ts u2 _ => u1 == u2
  | .dur u1, .dur u2 => u1 == u2
  | .dec w1 _ _, .dec w2 _ _ => w1 == w2
  | _, _ => false

/-- `FixedSizeBinaryArray::try_from_sparse_iter_with_size` rejects a value of another width -/
def fsbFits (t0 : PTy) (p : PScalar) : Bool :=
  match t0, p.v with
  | .fsb n, some (.bytes bs) => (bs.length : Int) == n
  | _, _ => true

/-- validity and data of the primitive array built from scalars whose first element has type `t0` -/
def collectP (t0 : PTy) : List Scalar → Except Err (List Bool × List PVal)
  | [] => .ok ([], [])
  | .prim p :: rest =>
    if sameVariant t0 p.ty && fsbFits t0 p then
      match collectP t0 rest with
      | .ok (vs, ds) => .ok (p.v.isSome :: vs, (p.v.getD (defaultVal t0)) :: ds)
      | .error e => .error e
    else .error .plain
  | _ :: _ => .error .plain

/-- inner scalars of dictionary scalars with key type `k` -/
def collectDict (k : PTy) : List Scalar → Except Err (List Scalar)
  | [] => .ok []
  | .dict k' p :: rest =>
    if k' = k then (collectDict k rest).map (fun r => .prim p :: r) else .error .plain
  | _ :: _ => .error .plain

/-- nested variants go through `to_array` + arrow `concat`, which insists on one data type -/
def collectRows (t : Ty) : List Scalar → Except Err (List (Option (List PScalar)))
  | [] => .ok []
  | x :: rest =>
    if x.ty = t then
      match x, collectRows t rest with
      | .list _ v, .ok r => .ok (v :: r)
      | .struct _ v, .ok r => .ok (v :: r)
      | _, .ok _ => .error .plain
      | _, .error e => .error e
    else .error .plain

def iterToArray (xs : List Scalar) : Except Err Arr :=
  match xs with
  | [] => .error .plain
  | .prim p0 :: _ =>
    -- decimal arrays always go through `with_precision_and_scale(first.p, first.s)`
    if p0.ty.decParamsOk then
      (collectP p0.ty xs).map fun (vs, ds) => .prim ⟨p0.ty, vs, ds⟩
    else .error .plain
  | .dict k p0 :: _ =>
    match collectDict k xs with
    | .error e => .error e
    | .ok inner =>
      if p0.ty.decParamsOk then
        -- `dict_from_values`: key i for a valid value i, NULL key otherwise
        (collectP p0.ty inner).map fun (vs, ds) =>
          .dict k ((List.range vs.length).zipWith (fun i ok => if ok then some i else none) vs) ⟨p0.ty, vs, ds⟩
      else .error .plain
  | .list e _ :: _ => (collectRows (.list e) xs).map (.list e)
  | .struct fs _ :: _ => (collectRows (.struct fs) xs).map (.struct fs)

/-! ### PartialEq, Hash, PartialOrd -/

/-- what `PartialEq` compares besides the payload -/
def eqParams : PTy → PTy → Bool
  | .ts u1 _, .ts u2 _ => u1 == u2          -- time zone ignored
  | .fsb _, .fsb _ => true                  -- width ignored
  | t1, t2 => t1 == t2                      -- decimals: width, precision AND scale

def eqP (a b : PScalar) : Bool := eqParams a.ty b.ty && a.v == b.v

def beqScalar : Scalar → Scalar → Bool
  | .prim a, .prim b => eqP a b
  | .dict k1 a, .dict k2 b => k1 == k2 && eqP a b
  | .list e1 v1, .list e2 v2 => e1 == e2 && v1 == v2        -- arrow logical array equality
  | .struct f1 v1, .struct f2 v2 => f1 == f2 && v1 == v2
  | _, _ => false

/-- what is fed to the `Hasher`, in order -/
inductive Tok
  | val (v : Option PVal) | nat (n : Nat) | int (n : Int) | ty (t : PTy)
  | nested (t : Ty) (v : Option (List PScalar))   -- `hash_nested_array`: row hash of the logical content
  deriving DecidableEq, Repr

def hashP (p : PScalar) : List Tok :=
  match p.ty with
  | .null => [.nat 1]
  | .dec _ pr sc => [.val p.v, .nat pr, .int sc]
  | _ => [.val p.v]

def hashToks : Scalar → List Tok
  | .prim p => hashP p
  | .dict k p => .ty k :: hashP p
  | .list e v => [.nested (.list e) v]
  | .struct fs v => [.nested (.struct fs) v]

def cmpBytes : List Nat → List Nat → Ordering
  | [], [] => .eq
  | [], _ :: _ => .lt
  | _ :: _, [] => .gt
  | a :: as, b :: bs => if a < b then .lt else if b < a then .gt else cmpBytes as bs

def cmpInt (a b : Int) : Ordering := if a < b then .lt else if b < a then .gt else .eq

/-- total order on payloads (payloads of one type always share the constructor) -/
def cmpPVal : PVal → PVal → Ordering
  | .b x, .b y => if x == y then .eq else if x then .gt else .lt
  | .b _, _ => .lt
  | .i _, .b _ => .gt
  | .i x, .i y => cmpInt x y
  | .i _, .bytes _ => .lt
  | .bytes x, .bytes y => cmpBytes x y
  | .bytes _, _ => .gt

/-- `Option::partial_cmp`: `None < Some` — NULLs first -/
def cmpOpt : Option PVal → Option PVal → Ordering
  | none, none => .eq
  | none, some _ => .lt
  | some _, none => .gt
  | some x, some y => cmpPVal x y

/-- when `partial_cmp` returns `Some`: same variant; decimals additionally need equal SCALE
    (precision ignored); time zone and FixedSizeBinary width ignored. -/
def comparable : PTy → PTy → Bool
  | .dec w1 _ s1, .dec w2 _ s2 => w1 == w2 && s1 == s2
  | t1, t2 => sameVariant t1 t2

def cmpP (a b : PScalar) : Option Ordering :=
  if comparable a.ty b.ty then some (cmpOpt a.v b.v) else none

/-- `partial_cmp_list` on two single-row lists of primitives (arrow `lt`/`eq` kernels give NULL
    when either side is NULL; a NULL element is greater than a non-NULL one). -/
def cmpElems : List PScalar → List PScalar → Ordering
  | [], [] => .eq
  | [], _ :: _ => .lt
  | _ :: _, [] => .gt
  | x :: xs, y :: ys =>
    match x.v, y.v with
    | none, some _ => .gt
    | some _, none => .lt
    | none, none => cmpElems xs ys
    | some a, some b =>
      match cmpPVal a b with
      | .lt => .lt
      | .gt => .gt
      | .eq => cmpElems xs ys

def cmpScalar : Scalar → Scalar → Option Ordering
  | .prim a, .prim b => cmpP a b
  | .dict k1 a, .dict k2 b => if k1 = k2 then cmpP a b else none
  | .list e1 v1, .list e2 v2 =>
    -- a NULL list row reads as an empty list (`first_array_for_list`)
    if e1 = e2 then some (cmpElems (v1.getD []) (v2.getD [])) else none
  | _, _ => none

/-- the engine's ascending NULLS FIRST comparison (`compare_rows` with default options on one
    column): NULL before value, values by `try_cmp`. -/
def sortCmp (a b : PScalar) : Ordering :=
  match a.v, b.v with
  | none, none => .eq
  | none, some _ => .lt
  | some _, none => .gt
  | some x, some y => cmpPVal x y

def insertSorted (x : PScalar) : List PScalar → List PScalar
  | [] => [x]
  | y :: ys => if sortCmp x y == .gt then y :: insertSorted x ys else x :: y :: ys

def sortAsc (xs : List PScalar) : List PScalar := xs.foldr insertSorted []

/-! ### casts -/

def pow10 (n : Nat) : Int := (10 : Int) ^ n

def inRange (signed : Bool) (bits : Nat) (x : Int) : Bool :=
  if signed then -(2 : Int) ^ (bits - 1) ≤ x && x < (2 : Int) ^ (bits - 1)
  else 0 ≤ x && x < (2 : Int) ^ bits

/-- fits the native integer of a decimal of width `w` -/
def fitsNative (w : Nat) (x : Int) : Bool := inRange true w x

/-- `is_valid_decimal_precision` -/
def validPrec (x : Int) (p : Nat) : Bool := -(pow10 p) < x && x < pow10 p

def tuMult : TU → Int
  | .s => 1 | .ms => 1000 | .us => 1000000 | .ns => 1000000000

def inI64 (x : Int) : Bool := inRange true 64 x

/-- outcome of converting ONE non-NULL element in the arrow kernel -/
inductive Conv
  | ok (v : PVal)
  | bad          -- value not representable: NULL when `safe`, error otherwise
  | unchecked    -- plain `*` overflowed: panic in a checked build, wraps in release
  | unsup
  deriving DecidableEq, Repr

def digitsOf (n : Nat) : List Nat := (toString n).toList.map (fun c => c.toNat)

def intText (x : Int) : List Nat :=
  if x < 0 then 45 :: digitsOf x.natAbs else digitsOf x.natAbs

def isDigit (b : Nat) : Bool := 48 ≤ b && b ≤ 57
def isWs (b : Nat) : Bool := b == 32 || b == 9 || b == 10 || b == 12 || b == 13   -- u8::is_ascii_whitespace

def dropWhileEnd (p : Nat → Bool) (bs : List Nat) : List Nat := (bs.reverse.dropWhile p).reverse

/-- `atoi::FromRadix10SignedChecked` on the whole slice: optional sign, then ONLY digits, at least
    the result must consume everything; returns the mathematical value (range-checked by caller). -/
def atoiAll (bs : List Nat) : Option Int :=
  let (neg, ds) := match bs with
    | 45 :: r => (true, r)
    | 43 :: r => (false, r)
    | r => (false, r)
  if ds.all isDigit then
    let n : Int := ds.foldl (fun acc d => acc * 10 + ((d - 48 : Nat) : Int)) 0
    some (if neg then -n else n)
  else none

/-- arrow `parser_primitive!`: last byte must be a digit (after trimming trailing ASCII blanks);
    parse; on failure retry with leading blanks trimmed. -/
def parseInt (signed : Bool) (bits : Nat) (bs : List Nat) : Option Int :=
  let raw := if bs.getLast?.any isDigit then bs else dropWhileEnd isWs bs
  if !(raw.getLast?.any isDigit) then none else
  let fits := fun (o : Option Int) => o.filter (fun n => inRange signed bits n)
  match fits (atoiAll raw) with
  | some n => some n
  | none => fits (atoiAll (raw.dropWhile isWs))

/-- Rust `/` and `%` on integers: truncation toward zero -/
def tdiv (a b : Int) : Int := Int.tdiv a b
def tmod (a b : Int) : Int := Int.tmod a b

/-- decimal → decimal, arrow `cast_decimal_to_decimal{,_same_type}` on a value that respects its
    declared precision (`|x| < 10^p1`; others are outside the model). -/
def rescale (w1 p1 : Nat) (s1 : Int) (x : Int) (w2 p2 : Nat) (s2 : Int) : Conv :=
  if !(validPrec x p1) then .unsup else
  if w1 == w2 && s1 == s2 && p1 ≤ p2 then .ok (.i x) else
  if s1 ≤ s2 then
    let delta := (s2 - s1).toNat
    let y := x * pow10 delta
    if p1 + delta ≤ p2 then .ok (.i y)                      -- infallible path
    else if fitsNative w2 x && fitsNative w2 y && validPrec y p2 then .ok (.i y) else .bad
  else
    let delta := (s1 - s2).toNat
    if delta > maxPrec w1 then .ok (.i 0) else
    let div := pow10 delta
    let half := tdiv div 2
    let d := tdiv x div
    let r := tmod x div
    let adj := if x ≥ 0 && r ≥ half then d + 1 else if x < 0 && r ≤ -half then d - 1 else d
    if (p1 : Int) - delta < p2 then .ok (.i adj)           -- infallible path
    else if fitsNative w2 adj && validPrec adj p2 then .ok (.i adj) else .bad

/-- type-level rejection by the kernel (independent of the data, also for NULL input) -/
def kernelTypeErr (src tgt : PTy) : Bool :=
  match src, tgt with
  | .dec _ _ s1, .dec w2 _ s2 => s1 ≤ s2 && (s2 - s1).toNat > maxPrec w2
  | .str _, .dec _ _ s => s < 0      -- "Cannot cast string to decimal with negative scale"
  | _, _ => false

/-- which (source, target) pairs the modelled kernel covers -/
def tzPlain : Option String → Option String → Bool
  | none, some _ => false     -- local → zoned conversion goes through chrono: not modelled
  | _, _ => true

/-- arrow `cast_with_options` on one valid element -/
def convert (src : PTy) (v : PVal) (tgt : PTy) : Conv :=
  match src, v, tgt with
  | .int _ _, .i x, .int s2 b2 => if inRange s2 b2 x then .ok (.i x) else .bad
  | .int _ _, .i x, .dec w p s =>
    -- `v.as_()` wraps a source value that does not fit the decimal's native integer: not modelled
    if !(decOk w p s) || !(fitsNative w x) then .unsup else
    if s < 0 then
      let q := tdiv x (pow10 (-s).toNat)
      if validPrec q p then .ok (.i q) else .bad
    else
      let m := x * pow10 s.toNat
      if fitsNative w m && validPrec m p then .ok (.i m) else .bad
  | .dec w _ s, .i x, .int s2 b2 =>
    if s < 0 then
      let m := x * pow10 (-s).toNat
      if w == 256 && !(inI64 m) then .unsup else
      if fitsNative w m && inRange s2 b2 m then .ok (.i m) else .bad
    else
      let q := tdiv x (pow10 s.toNat)
      -- `NumCast` from `i256` truncates instead of failing (arrow-buffer): not modelled
      if w == 256 && !(inI64 q) then .unsup else
      if inRange s2 b2 q then .ok (.i q) else .bad
  | .dec w1 p1 s1, .i x, .dec w2 p2 s2 =>
    if !(decOk w1 p1 s1) || !(decOk w2 p2 s2) || p1 + (s2 - s1).natAbs > 120 then .unsup
    else rescale w1 p1 s1 x w2 p2 s2
  | .int _ _, .i x, .str _ => .ok (.bytes (intText x))
  | .str _, .bytes bs, .int s2 b2 =>
    match parseInt s2 b2 bs with
    | some n => .ok (.i n)
    | none => .bad
  | .str _, .bytes bs, .str _ => .ok (.bytes bs)
  | .str _, .bytes bs, .bin _ => .ok (.bytes bs)
  | .bin _, .bytes bs, .bin _ => .ok (.bytes bs)
  | .date32, .i x, .date64 => .ok (.i (x * 86400000))
  | .date64, .i x, .date32 =>
    let q := tdiv x 86400000
    if inRange true 32 q then .ok (.i q) else .bad
  | .date32, .i x, .ts u tz =>
    let m := x * (86400 * tuMult u)
    if !(inI64 m) then .bad                       -- s/ms cannot overflow; us/ns are checked
    else if tzPlain none tz then .ok (.i m) else .unsup
  | .date64, .i x, .ts u tz =>
    -- `x * 1000` / `x * 1_000_000` are plain multiplications in arrow-cast 59.2
    let r : Conv := match u with
      | .s => .ok (.i (tdiv x 1000))
      | .ms => .ok (.i x)
      | .us => if inI64 (x * 1000) then .ok (.i (x * 1000)) else .unchecked
      | .ns => if inI64 (x * 1000000) then .ok (.i (x * 1000000)) else .unchecked
    match r with
    | .ok v => if tzPlain none tz then .ok v else .unsup
    | other => other
  | .ts u1 tz1, .i x, .ts u2 tz2 =>
    let a := tuMult u1
    let b := tuMult u2
    if a > b then
      if tzPlain tz1 tz2 then .ok (.i (tdiv x (tdiv a b))) else .unsup
    else if a == b then
      if tzPlain tz1 tz2 then .ok (.i x) else .unsup
    else
      let m := x * tdiv b a
      if !(inI64 m) then .bad
      else if tzPlain tz1 tz2 then .ok (.i m) else .unsup
  | _, _, _ => .unsup

def isStr : PTy → Bool
  | .str _ => true
  | _ => false

/-- cast of a primitive array by the arrow kernel with `CastOptions { safe }` -/
def castElems (safe : Bool) (src tgt : PTy) : List Bool → List PVal → Except Err (List Bool × List PVal)
  | v :: vs, d :: ds =>
    match castElems safe src tgt vs ds with
    | .error e => .error e
    | .ok (rv, rd) =>
      if !v then .ok (false :: rv, defaultVal tgt :: rd) else
      match convert src d tgt with
      | .ok y => .ok (true :: rv, y :: rd)
      | .bad => if safe then .ok (false :: rv, defaultVal tgt :: rd) else .error .plain
      | .unchecked => .error .panic
      | .unsup => .error .unsup
  | _, _ => .ok ([], [])

/-- type pairs on which arrow's own `i8` precision arithmetic overflows (panics in a checked build,
    also for NULL input): outside the model -/
def kernelUnsup (src tgt : PTy) : Bool :=
  match src, tgt with
  | .dec _ p1 s1, .dec _ _ s2 => p1 + (s2 - s1).natAbs > 120
  | _, _ => false

def kernelP (safe : Bool) (a : PArr) (tgt : PTy) : Except Err PArr :=
  if a.ty = tgt then .ok a
  else if kernelUnsup a.ty tgt then .error .unsup
  else if tgt = .null then .ok ⟨.null, a.valid.map (fun _ => false), a.valid.map (fun _ => defaultVal .null)⟩
  else if a.ty = .null then .ok ⟨tgt, a.valid.map (fun _ => false), a.valid.map (fun _ => defaultVal tgt)⟩
  else if kernelTypeErr a.ty tgt then .error .plain
  else (castElems safe a.ty tgt a.valid a.data).map fun (v, d) => ⟨tgt, v, d⟩

/-- arrow `cast_with_options(array, target, {safe})` -/
def kernel (safe : Bool) (a : Arr) (tgt : Ty) : Except Err Arr :=
  match a, tgt with
  | .prim a, .prim t => (kernelP safe a t).map .prim
  | .dict _ keys values, .prim t =>
    -- dictionary unpack: cast the values, then `take` by key
    match kernelP safe values t with
    | .error e => .error e
    | .ok vals =>
      let pick := fun (k : Option Nat) =>
        match k with
        | none => (false, defaultVal t)
        | some j => ((vals.valid[j]?).getD false, (vals.data[j]?).getD (defaultVal t))
      .ok (.prim ⟨t, keys.map (fun k => (pick k).1), keys.map (fun k => (pick k).2)⟩)
  | _, _ => .error .unsup

/-- `date_to_timestamp_multiplier(..).or_else(timestamp_to_timestamp_multiplier(..))` -/
def boundsMult (src tgt : Ty) : Option Int :=
  match src, tgt with
  | .prim .date32, .prim (.ts u _) => some (86400 * tuMult u)
  | .prim .date64, .prim (.ts .us _) => some 1000
  | .prim .date64, .prim (.ts .ns _) => some 1000000
  | .prim (.ts u1 _), .prim (.ts u2 _) =>
    if tuMult u1 < tuMult u2 then some (tdiv (tuMult u2) (tuMult u1)) else none
  | _, _ => none

/-- `ensure_timestamp_in_bounds` -/
def inBounds (v m : Int) : Bool := m ≤ 1 || inI64 (v * m)

/-- `temporal_scalar_value_as_i64` -/
def temporalI64 : Scalar → Option Int
  | .prim ⟨.date32, some (.i x)⟩ => some x
  | .prim ⟨.date64, some (.i x)⟩ => some x
  | .prim ⟨.ts _ _, some (.i x)⟩ => some x
  | _ => none

/-- the general path of `cast_to_with_options`: `to_array()`, arrow kernel, `try_from_array(.., 0)` -/
def viaKernel (safe : Bool) (s : Scalar) (t : Ty) : Except Err Scalar :=
  match toArrayOfSize s 1 with
  | .error e => .error e
  | .ok a =>
    match kernel safe a t with
    | .error e => .error e
    | .ok c => tryFromArray c 0

def rewrapStr (s : Scalar) (t : Ty) : Except Err Scalar :=
  match s, t with
  | .prim ⟨.str _, v⟩, .prim (.str e) => .ok (.prim ⟨.str e, v⟩)
  | _, _ => .error .unsup

def isStrTy : Ty → Bool
  | .prim (.str _) => true
  | _ => false

/-- `ScalarValue::cast_to_with_options` -/
def castScalar (safe : Bool) (s : Scalar) (t : Ty) : Except Err Scalar :=
  if s.ty = t then .ok s
  else if isStrTy s.ty && isStrTy t then rewrapStr s t
  else
    match boundsMult s.ty t, temporalI64 s with
    | some m, some v =>
      if inBounds v m then viaKernel safe s t
      else if safe then .ok (nullOf t) else .error .plain
    | _, _ => viaKernel safe s t

/-- min = max = the single non-NULL value of a one-row temporal array -/
def arrTemporalI64 : Arr → Option Int
  | .prim ⟨.date32, [true], [.i x]⟩ => some x
  | .prim ⟨.date64, [true], [.i x]⟩ => some x
  | .prim ⟨.ts _ _, [true], [.i x]⟩ => some x
  | _ => none

/-- `ColumnarValue::Array(a).cast_to` = `cast_array_by_name` on a ONE-ROW array -/
def castArrayEngine (safe : Bool) (a : Arr) (t : Ty) : Except Err Arr :=
  if a.ty = t then .ok a
  else
    match safe, boundsMult a.ty t, arrTemporalI64 a with
    | false, some m, some v => if inBounds v m then kernel safe a t else .error .plain
    | _, _, _ => kernel safe a t

/-- "casting an array containing it": the engine's array cast of `[s]`, read back at row 0 -/
def castViaArray (safe : Bool) (s : Scalar) (t : Ty) : Except Err Scalar :=
  match toArrayOfSize s 1 with
  | .error e => .error e
  | .ok a =>
    match castArrayEngine safe a t with
    | .error e => .error e
    | .ok c => tryFromArray c 0

end DfModel.ScalarModel
