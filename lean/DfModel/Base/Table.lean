/-
  Support definitions for the files emitted by translator T2 (`translate/rust2lean_tables.py`):
  decision tables read from Rust `match` / `matches!` bodies.  Core Lean only (linked into `dfdrv`).

  `Act α` is the result type of a *dispatch* table — a Rust function that takes a closure `f` and,
  depending on an enum value, either calls the closure or returns a value without calling it:

  * `call`       — the Rust arm is `f()`                      : the result is whatever `f` returns;
  * `callMerge`  — the Rust arm is
                   `f(self.data).map(|mut t| { t.transformed |= self.transformed; t })`
                   : the result is what `f` returns on `self.data`, with `transformed` OR-ed with
                   `self.transformed` (errors of `f` are passed through unchanged);
  * `ret v`      — the closure is NOT called; the Rust arm is `Ok(v)` / `Ok(self)` (for a
                   `Transformed` dispatch: `self` is returned with its `tnr` field set to `v`, data
                   and `transformed` untouched).
-/
namespace DfModel.Tbl

inductive Act (α : Type) where
  | call
  | callMerge
  | ret (v : α)
  deriving DecidableEq, Repr

/-- canonical one-line text used by the line protocol for table results -/
class Show (α : Type) where
  show_ : α → String

export Show (show_)

instance : Show Bool := ⟨fun b => if b then "t" else "f"⟩
instance : Show Nat := ⟨toString⟩
instance : Show Int := ⟨toString⟩
instance {α β} [Show α] [Show β] : Show (α × β) := ⟨fun p => "(" ++ show_ p.1 ++ " " ++ show_ p.2 ++ ")"⟩
instance {α} [Show α] : Show (Option α) :=
  ⟨fun o => match o with | none => "none" | some x => "(some " ++ show_ x ++ ")"⟩
instance {α} [Show α] : Show (Act α) :=
  ⟨fun a => match a with | .call => "call" | .callMerge => "callMerge" | .ret v => "(ret " ++ show_ v ++ ")"⟩

def boolOfName? : String → Option Bool
  | "t" => some true
  | "f" => some false
  | _ => none

end DfModel.Tbl
