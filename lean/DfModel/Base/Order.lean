/-
  Row comparison over rows of nullable integers with per-key sort options.
  Mirrors `datafusion_common::utils::compare_rows` (common/src/utils/mod.rs) and the per-column
  comparator `ArrayValues::compare` of the merge cursors (physical-plan/src/sorts/cursor.rs):

      for ((lhs, rhs), opt) in x.zip(y).zip(sort_options) {       -- stops at the SHORTEST
        match (lhs.is_null(), rhs.is_null(), opt.nulls_first) {
          (true,false,false) | (false,true,true)  => Greater
          (true,false,true)  | (false,true,false) => Less
          (false,false,_) => if opt.descending { rhs.cmp(lhs) } else { lhs.cmp(rhs) }
          (true,true,_)   => continue }
        if result != Equal { return result } }
      Equal

  Note that `descending` does NOT flip the NULL placement (that is `nulls_first` alone).
  Core Lean only (linked into the driver).
-/
namespace DfModel.RowOrd

structure SortOpt where
  desc : Bool
  nullsFirst : Bool
  deriving DecidableEq, Repr, Inhabited

/-- a nullable integer cell; `none` = SQL NULL -/
abbrev NVal := Option Int
abbrev NRow := List NVal

def cmpVal (o : SortOpt) : NVal → NVal → Ordering
  | none, none => .eq
  | none, some _ => if o.nullsFirst then .lt else .gt
  | some _, none => if o.nullsFirst then .gt else .lt
  | some a, some b => if o.desc then compare b a else compare a b

/-- lexicographic comparison on the first `min |os| |a| |b|` columns (the `zip` of the Rust code);
    columns beyond the sort options are payload and never looked at -/
def cmpRows : List SortOpt → NRow → NRow → Ordering
  | o :: os, a :: as, b :: bs =>
    match cmpVal o a b with
    | .eq => cmpRows os as bs
    | r => r
  | _, _, _ => .eq

/-- `a` may precede `b` -/
def leRows (os : List SortOpt) (a b : NRow) : Bool := cmpRows os a b != .gt

/-- the key part of a row: its first `|os|` columns -/
def keyOf (os : List SortOpt) (r : NRow) : NRow := r.take os.length

def showOrdering : Ordering → String
  | .lt => "lt"
  | .eq => "eq"
  | .gt => "gt"

end DfModel.RowOrd
