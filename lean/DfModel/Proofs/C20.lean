/-
  C20 — helper lemmas about error items in stream transcripts.  Core Lean only.
-/
import DfModel.Mech.ErrFlow
namespace DfModel.Proofs.C20
open DfModel.Mech.ErrFlow

theorem collect_err_iff (s : Stream) : (∃ e, collect s = .error e) ↔ hasErr s = true := by
  induction s with
  | nil => simp [collect, hasErr]
  | cons it rest ih =>
    cases it with
    | error e => simp [collect, hasErr, isErr]
    | ok b =>
      simp only [collect, hasErr, List.any_cons, isErr, Bool.false_or] at *
      rw [← ih]
      cases h : collect rest with
      | ok bs => simp
      | error e => simp

theorem collect_ok_iff (s : Stream) : (∃ bs, collect s = .ok bs) ↔ hasErr s = false := by
  have := collect_err_iff s
  cases h : collect s with
  | ok bs =>
    rw [h] at this
    simp only [reduceCtorEq, exists_false, false_iff, Bool.not_eq_true] at this
    simp [this]
  | error e =>
    rw [h] at this
    have : hasErr s = true := this.mp ⟨e, rfl⟩
    simp [this]

theorem hasErr_append (a b : Stream) : hasErr (a ++ b) = (hasErr a || hasErr b) := by
  simp [hasErr]

theorem hasErr_cut (s : Stream) : hasErr (cut s) = hasErr s := by
  induction s with
  | nil => rfl
  | cons it rest ih =>
    cases it with
    | error e => simp [cut, hasErr, isErr]
    | ok b => simp only [cut, hasErr, List.any_cons, isErr, Bool.false_or] at *; exact ih

theorem hasErr_mapOp (f : Batch → Except Err Batch) (s : Stream) (h : hasErr s = true) :
    hasErr (mapOp f s) = true := by
  simp only [hasErr, List.any_eq_true, mapOp, List.mem_map] at *
  obtain ⟨it, hit, he⟩ := h
  refine ⟨it.bind f, ⟨it, hit, rfl⟩, ?_⟩
  cases it with
  | error e => rfl
  | ok b => simp [isErr] at he

theorem hasErr_blocking (g : List Batch → Except Err (List Batch)) (s : Stream) (h : hasErr s = true) :
    hasErr (blockOp g s) = true := by
  obtain ⟨e, he⟩ := (collect_err_iff s).mpr h
  simp [blockOp, he, hasErr, isErr]

theorem hasErr_join (j : List Batch → Batch → Except Err Batch) (b p : Stream)
    (h : hasErr b = true ∨ hasErr p = true) : hasErr (joinOp j b p) = true := by
  unfold joinOp
  cases hb : collect b with
  | error e => simp [hasErr, isErr]
  | ok bs =>
    have hb' : hasErr b = false := (collect_ok_iff b).mp ⟨bs, hb⟩
    rcases h with h | h
    · rw [hb'] at h; cases h
    · exact hasErr_mapOp (j bs) p h

theorem mem_interleave (sch : List Bool) (l r : Stream) (x : Item) :
    x ∈ interleave sch l r ↔ x ∈ l ∨ x ∈ r := by
  fun_induction interleave sch l r <;> simp_all [or_assoc, or_left_comm]

theorem hasErr_interleave (sch : List Bool) (l r : Stream) :
    hasErr (interleave sch l r) = (hasErr l || hasErr r) := by
  rw [Bool.eq_iff_iff]
  simp only [hasErr, List.any_eq_true, Bool.or_eq_true, mem_interleave]
  constructor
  · rintro ⟨x, hx | hx, he⟩
    · exact Or.inl ⟨x, hx, he⟩
    · exact Or.inr ⟨x, hx, he⟩
  · rintro (⟨x, hx, he⟩ | ⟨x, hx, he⟩)
    · exact ⟨x, Or.inl hx, he⟩
    · exact ⟨x, Or.inr hx, he⟩

theorem hasErr_coalesce2 (sch : List Bool) (l r : Stream) :
    hasErr (coalesce2 sch l r) = (hasErr l || hasErr r) := by
  simp [coalesce2, hasErr_interleave, hasErr_cut]

theorem hasErr_repartition1 (route : Batch → Nat → Batch) (j : Nat) (s : Stream) (h : hasErr s = true) :
    hasErr (repartition1 route j s) = true := by
  induction s with
  | nil => simp [hasErr] at h
  | cons it rest ih =>
    cases it with
    | error e => simp [repartition1, repartChan, repartOut1, hasErr, isErr]
    | ok b =>
      simp only [hasErr, List.any_cons, isErr, Bool.false_or] at h
      simp only [repartition1, repartChan] at *
      split
      · exact ih h
      · simp only [repartOut1, hasErr, List.any_cons, isErr, Bool.false_or]; exact ih h

theorem hasErr_chanItems (route : Batch → Nat → Batch) (j : Nat) (s : Stream) (h : hasErr s = true) :
    hasErr (chanItems (repartChan route j s)) = true := by
  induction s with
  | nil => simp [hasErr] at h
  | cons it rest ih =>
    cases it with
    | error e => simp [repartChan, chanItems, hasErr, isErr]
    | ok b =>
      simp only [hasErr, List.any_cons, isErr, Bool.false_or] at h
      simp only [repartChan]
      split
      · exact ih h
      · simp only [chanItems, hasErr, List.any_cons, isErr, Bool.false_or]; exact ih h

theorem hasErr_repartition2 (route : Batch → Nat → Batch) (j : Nat) (sch : List Bool) (s1 s2 : Stream)
    (h : hasErr s1 = true ∨ hasErr s2 = true) : hasErr (repartition2 route j sch s1 s2) = true := by
  simp only [repartition2, hasErr_interleave, Bool.or_eq_true]
  rcases h with h | h
  · exact Or.inl (hasErr_chanItems route j s1 h)
  · exact Or.inr (hasErr_chanItems route j s2 h)

/-- no item follows an error item -/
def EndsAtErr (s : Stream) : Prop := ∀ pre e post, s = pre ++ .error e :: post → post = []

theorem endsAtErr_cut (s : Stream) : EndsAtErr (cut s) := by
  induction s with
  | nil => intro pre e post h; simp [cut] at h
  | cons it rest ih =>
    cases it with
    | error e0 =>
      intro pre e post h
      simp only [cut] at h
      cases pre with
      | nil => simp at h; exact h.2
      | cons x xs =>
        simp at h
    | ok b =>
      intro pre e post h
      simp only [cut] at h
      cases pre with
      | nil => simp at h
      | cons x xs =>
        simp only [List.cons_append, List.cons.injEq] at h
        exact ih xs e post h.2

theorem endsAtErr_map_ok (out : List Batch) : EndsAtErr (out.map Except.ok) := by
  intro pre e post h
  have : (Except.error e : Item) ∈ out.map Except.ok := by rw [h]; simp
  simp at this

theorem endsAtErr_single (e0 : Err) : EndsAtErr [.error e0] := by
  intro pre e post h
  cases pre with
  | nil => simp at h; exact h.2
  | cons x xs =>
    simp at h

theorem endsAtErr_blocking (g : List Batch → Except Err (List Batch)) (s : Stream) : EndsAtErr (blockOp g s) := by
  unfold blockOp
  cases hc : collect s with
  | error e => simp only; exact endsAtErr_single e
  | ok bs =>
    simp only
    cases hg : g bs with
    | error e => simp only; exact endsAtErr_single e
    | ok out => simp only; exact endsAtErr_map_ok out

/-! ### Ok-prefix: two runs that differ only by a fault -/

/-- `a` is `b` with a fault injected at some point (everything before the fault is identical) -/
def Faulted (a b : Stream) : Prop := a = b ∨ ∃ pre e rest rest', a = pre ++ .error e :: rest ∧ b = pre ++ rest'

theorem okPrefix_append_of_err (pre : Stream) (x : Stream) (h : hasErr pre = true) :
    okPrefix (pre ++ x) = okPrefix pre := by
  induction pre with
  | nil => simp [hasErr] at h
  | cons it rest ih =>
    cases it with
    | error e => rfl
    | ok b =>
      simp only [hasErr, List.any_cons, isErr, Bool.false_or] at h
      simp only [List.cons_append, okPrefix]
      rw [ih h]

theorem okPrefix_append_of_clean (pre : Stream) (x : Stream) (h : hasErr pre = false) :
    okPrefix (pre ++ x) = okPrefix pre ++ okPrefix x := by
  induction pre with
  | nil => rfl
  | cons it rest ih =>
    cases it with
    | error e => simp [hasErr, isErr] at h
    | ok b =>
      simp only [hasErr, List.any_cons, isErr, Bool.false_or] at h
      simp only [List.cons_append, okPrefix]
      rw [ih h]

theorem faulted_okPrefix {a b : Stream} (h : Faulted a b) : okPrefix a <+: okPrefix b := by
  rcases h with rfl | ⟨pre, e, rest, rest', rfl, rfl⟩
  · exact List.prefix_refl _
  · cases hp : hasErr pre with
    | true => rw [okPrefix_append_of_err _ _ hp, okPrefix_append_of_err _ _ hp]; exact List.prefix_refl _
    | false =>
      rw [okPrefix_append_of_clean _ _ hp, okPrefix_append_of_clean _ _ hp]
      simp [okPrefix]

theorem collect_append_of_err (pre x y : Stream) (h : hasErr pre = true) : collect (pre ++ x) = collect (pre ++ y) := by
  induction pre with
  | nil => simp [hasErr] at h
  | cons it rest ih =>
    cases it with
    | error e => rfl
    | ok b =>
      simp only [hasErr, List.any_cons, isErr, Bool.false_or] at h
      simp only [List.cons_append, collect]
      rw [ih h]

theorem collect_append_err_clean (pre : Stream) (e : Err) (rest : Stream) (h : hasErr pre = false) :
    collect (pre ++ .error e :: rest) = .error e := by
  induction pre with
  | nil => rfl
  | cons it rs ih =>
    cases it with
    | error e => simp [hasErr, isErr] at h
    | ok b =>
      simp only [hasErr, List.any_cons, isErr, Bool.false_or] at h
      simp only [List.cons_append, collect]
      rw [ih h]

theorem cut_append_of_err (pre x : Stream) (h : hasErr pre = true) : cut (pre ++ x) = cut pre := by
  induction pre with
  | nil => simp [hasErr] at h
  | cons it rest ih =>
    cases it with
    | error e => rfl
    | ok b =>
      simp only [hasErr, List.any_cons, isErr, Bool.false_or] at h
      simp only [List.cons_append, cut]
      rw [ih h]

theorem cut_append_of_clean (pre x : Stream) (h : hasErr pre = false) : cut (pre ++ x) = pre ++ cut x := by
  induction pre with
  | nil => rfl
  | cons it rest ih =>
    cases it with
    | error e => simp [hasErr, isErr] at h
    | ok b =>
      simp only [hasErr, List.any_cons, isErr, Bool.false_or] at h
      simp only [List.cons_append, cut]
      rw [ih h]

theorem faulted_apply (op : Op) {a b : Stream} (h : Faulted a b) : Faulted (op.apply a) (op.apply b) := by
  rcases h with rfl | ⟨pre, e, rest, rest', rfl, rfl⟩
  · exact Or.inl rfl
  · cases op with
    | map f =>
      right
      refine ⟨mapOp f pre, e, mapOp f rest, mapOp f rest', ?_, ?_⟩ <;> simp [Op.apply, mapOp, Except.bind]
    | forward =>
      simp only [Op.apply]
      cases hp : hasErr pre with
      | true => left; rw [cut_append_of_err _ _ hp, cut_append_of_err _ _ hp]
      | false =>
        right
        exact ⟨pre, e, [], cut rest', by rw [cut_append_of_clean _ _ hp]; rfl, by rw [cut_append_of_clean _ _ hp]⟩
    | blocking g =>
      simp only [Op.apply, blockOp]
      cases hp : hasErr pre with
      | true => left; rw [collect_append_of_err pre _ rest' hp]
      | false =>
        right
        rw [collect_append_err_clean pre e rest hp]
        exact ⟨[], e, [], _, rfl, (List.nil_append _).symm⟩
    | probe j bs =>
      simp only [Op.apply, joinOp]
      have hc : collect (bs.map Except.ok) = .ok bs := by
        induction bs with
        | nil => rfl
        | cons x xs ih => simp [collect, ih]
      rw [hc]
      right
      refine ⟨mapOp (j bs) pre, e, mapOp (j bs) rest, mapOp (j bs) rest', ?_, ?_⟩ <;> simp [mapOp, Except.bind]

theorem faulted_runPipe (ops : List Op) {a b : Stream} (h : Faulted a b) : Faulted (runPipe ops a) (runPipe ops b) := by
  induction ops generalizing a b with
  | nil => exact h
  | cons op ops ih => exact ih (faulted_apply op h)

end DfModel.Proofs.C20
