/-
  C16 helper lemmas, part E: no lost wake-up (`Wk`): whenever the reader has returned Pending and
  its waker has not been woken, it is registered exactly where the next relevant event will call
  `wake`.  Preserved by every micro-step (both code versions).  Core Lean only.
-/
import DfModel.Proofs.C16d
namespace DfModel.Proofs.C16
open DfModel.Sm.SpillPool

/-- the reader waits on its current file: nothing unread, not finished, file waker registered -/
def WaitFile (s : St) : Prop :=
  ∃ f, s.cur = some f ∧ s.rread = (s.written f).length ∧ s.finished f = false ∧ s.fwaker f = true
/-- the reader waits on the pool: no queued file, a live sink exists, pool waker registered -/
def WaitPool (s : St) : Prop :=
  s.cur = none ∧ s.popped = s.nfiles ∧ 0 < s.count ∧ s.poolWaker = true

/-- no lost wake-up (inductive form) -/
structure Wk (s : St) : Prop where
  pend : s.rpc = .pendPool → s.woken = false → WaitFile s
  idle : s.rpc = .idle → s.parked = true → s.woken = false → WaitFile s ∨ WaitPool s
  parked_idle : s.parked = true → s.rpc = .idle

theorem wk_init (m : Nat) : Wk (init m) := by
  constructor <;> simp [init]

theorem wk_stepReader (s : St) (hr : Rd s) (h : Wk s) : Wk (stepReader s) := by
  obtain ⟨r1, r2, r3, r4, r5, r6, r7, r8, r9, r10, r11⟩ := hr
  obtain ⟨h1, h2, h3⟩ := h
  unfold stepReader
  split
  · constructor <;> dsimp only [WaitFile, WaitPool] <;> grind
  · split
    · constructor <;> dsimp only [WaitFile, WaitPool] <;> grind
    · rename_i f hc
      have hf := r3 f hc
      have hle := r4 f hc
      split
      · split
        · constructor <;> dsimp only [WaitFile, WaitPool] <;> grind
        · constructor <;> dsimp only [WaitFile, WaitPool] <;> grind
      · split
        · constructor <;> dsimp only [WaitFile, WaitPool] <;> grind
        · constructor <;> dsimp only [WaitFile, WaitPool] <;> grind [upd]
  · split
    · constructor <;> dsimp only [WaitFile, WaitPool] <;> grind
    · split
      · constructor <;> dsimp only [WaitFile, WaitPool] <;> grind
      · constructor <;> dsimp only [WaitFile, WaitPool] <;> grind
  · constructor <;> dsimp only [WaitFile, WaitPool] <;> grind
  · constructor <;> dsimp only [WaitFile, WaitPool] at * <;> grind
  · split
    · constructor <;> dsimp only [WaitFile, WaitPool] <;> grind
    · split
      · constructor <;> dsimp only [WaitFile, WaitPool] <;> grind
      · constructor <;> dsimp only [WaitFile, WaitPool] <;> grind


theorem wk_stepPush (s : St) (w b sz : Nat) (h : Wk s) : Wk (stepPush s w b sz) := by
  obtain ⟨h1, h2, h3⟩ := h
  unfold stepPush
  split <;> constructor <;> dsimp only [WaitFile, WaitPool] at * <;> grind

theorem wk_stepGiveBack (s : St) (w f : Nat) (h : Wk s) : Wk (stepGiveBack s w f) := by
  obtain ⟨h1, h2, h3⟩ := h
  unfold stepGiveBack
  constructor <;> dsimp only [WaitFile, WaitPool] at * <;> grind

theorem wk_stepClone (s : St) (h : Wk s) : Wk (stepClone s) := by
  obtain ⟨h1, h2, h3⟩ := h
  unfold stepClone
  constructor <;> dsimp only [WaitFile, WaitPool] at * <;> grind

theorem wk_stepCreate (s : St) (w b sz : Nat) (ok : Bool) (hr : Rd s) (h : Wk s) :
    Wk (stepCreate s w b sz ok) := by
  obtain ⟨h1, h2, h3⟩ := h
  have hcur := hr.cur_eq
  unfold stepCreate wakePool
  (repeat' split) <;> constructor <;> dsimp only [WaitFile, WaitPool] at * <;> grind [upd]

theorem wk_stepDrop (s : St) (w : Nat) (ho : Own s) (hr : Rd s) (h : Wk s) : Wk (stepDrop s w) := by
  obtain ⟨h1, h2, h3⟩ := h
  have hne : s.popped = s.nfiles → s.open_ = [] := by
    intro hp
    cases hop : s.open_ with
    | nil => rfl
    | cons f fs =>
      have hl := ho.open_live f (by rw [hop]; simp)
      have := hr.popped_fin f (by rw [hp]; exact hl.1)
      rw [hl.2.1] at this; cases this
  unfold stepDrop wakePool
  (repeat' split) <;> constructor <;> dsimp only [WaitFile, WaitPool, Live] at * <;> grind

theorem wk_stepFinalize (s : St) (w : Nat) (fs : List Nat) (h : Wk s) : Wk (stepFinalize s w fs) := by
  obtain ⟨h1, h2, h3⟩ := h
  unfold stepFinalize
  split
  · unfold wakePool
    (repeat' split) <;> constructor <;> dsimp only [WaitFile, WaitPool] at * <;> grind [upd]
  · rename_i f r
    by_cases hfw : s.fwaker f = true <;> simp only [finishFile, wakeFile, hfw, ↓reduceIte, Bool.false_eq_true] <;>
      constructor <;> dsimp only [WaitFile, WaitPool] at * <;> grind [upd]

theorem wk_stepAppend (fx : Bool) (s : St) (w f b sz : Nat) (aok fok : Bool) (h : Wk s) :
    Wk (stepAppend fx s w f b sz aok fok) := by
  obtain ⟨h1, h2, h3⟩ := h
  by_cases hfw : s.fwaker f = true <;>
    simp only [stepAppend, finishFile, wakeFile, hfw, upd_same, ↓reduceIte, Bool.false_eq_true] <;>
    (repeat' split) <;> constructor <;> dsimp only [WaitFile, WaitPool] at * <;> grind [upd]


theorem wk_step (fx : Bool) (s : St) (a : Act) (ho : Own s) (hr : Rd s) (h : Wk s) : Wk (step fx s a) := by
  cases a with
  | push w b sz =>
    simp only [step]; split
    · split <;> first | exact wk_stepPush s w b sz h | exact h
    · exact h
  | create w ok =>
    simp only [step]; split
    · split <;> first | exact wk_stepCreate s w _ _ ok hr h | exact h
    · exact h
  | append w aok fok =>
    simp only [step]; split
    · split <;> first | exact wk_stepAppend fx s w _ _ _ aok fok h | exact h
    · exact h
  | giveBack w =>
    simp only [step]; split
    · split <;> first | exact wk_stepGiveBack s w _ h | exact h
    · exact h
  | clone w =>
    simp only [step]; split
    · exact wk_stepClone s h
    · exact h
  | drop w =>
    simp only [step]; split
    · split <;> first | exact wk_stepDrop s w ho hr h | exact h
    · exact h
  | finalize w =>
    simp only [step]; split
    · split <;> first | exact wk_stepFinalize s w _ h | exact h
    · exact h
  | reader => exact wk_stepReader s hr h

end DfModel.Proofs.C16
