/-
  C16 helper lemmas, part A: function update, the wake helpers (projection lemmas), `catW`,
  `cntAlive`.  Core Lean only.
-/
import DfModel.Sm.SpillPool
namespace DfModel.Proofs.C16
open DfModel.Sm.SpillPool

@[simp] theorem upd_same {α : Type} (g : Nat → α) (i : Nat) (v : α) : upd g i v i = v := by simp [upd]
theorem upd_ne {α : Type} (g : Nat → α) (i j : Nat) (v : α) (h : j ≠ i) : upd g i v j = g j := by simp [upd, h]
theorem upd_apply {α : Type} (g : Nat → α) (i j : Nat) (v : α) : upd g i v j = if j = i then v else g j := rfl

/-! ### projections of `wakeFile`, `wakePool`, `finishFile` (generated text) -/

@[simp] theorem wakeFile_max (s : St) (f : Nat) : (wakeFile s f).max = s.max := by unfold wakeFile; split <;> rfl
@[simp] theorem wakeFile_nfiles (s : St) (f : Nat) : (wakeFile s f).nfiles = s.nfiles := by unfold wakeFile; split <;> rfl
@[simp] theorem wakeFile_popped (s : St) (f : Nat) : (wakeFile s f).popped = s.popped := by unfold wakeFile; split <;> rfl
@[simp] theorem wakeFile_open_ (s : St) (f : Nat) : (wakeFile s f).open_ = s.open_ := by unfold wakeFile; split <;> rfl
@[simp] theorem wakeFile_count (s : St) (f : Nat) : (wakeFile s f).count = s.count := by unfold wakeFile; split <;> rfl
@[simp] theorem wakeFile_poolWaker (s : St) (f : Nat) : (wakeFile s f).poolWaker = s.poolWaker := by unfold wakeFile; split <;> rfl
@[simp] theorem wakeFile_written (s : St) (f : Nat) : (wakeFile s f).written = s.written := by unfold wakeFile; split <;> rfl
@[simp] theorem wakeFile_size (s : St) (f : Nat) : (wakeFile s f).size = s.size := by unfold wakeFile; split <;> rfl
@[simp] theorem wakeFile_finished (s : St) (f : Nat) : (wakeFile s f).finished = s.finished := by unfold wakeFile; split <;> rfl
@[simp] theorem wakeFile_hasWriter (s : St) (f : Nat) : (wakeFile s f).hasWriter = s.hasWriter := by unfold wakeFile; split <;> rfl
@[simp] theorem wakeFile_handle (s : St) (f : Nat) : (wakeFile s f).handle = s.handle := by unfold wakeFile; split <;> rfl
@[simp] theorem wakeFile_nw (s : St) (f : Nat) : (wakeFile s f).nw = s.nw := by unfold wakeFile; split <;> rfl
@[simp] theorem wakeFile_wpc (s : St) (f : Nat) : (wakeFile s f).wpc = s.wpc := by unfold wakeFile; split <;> rfl
@[simp] theorem wakeFile_wres (s : St) (f : Nat) : (wakeFile s f).wres = s.wres := by unfold wakeFile; split <;> rfl
@[simp] theorem wakeFile_cur (s : St) (f : Nat) : (wakeFile s f).cur = s.cur := by unfold wakeFile; split <;> rfl
@[simp] theorem wakeFile_stream (s : St) (f : Nat) : (wakeFile s f).stream = s.stream := by unfold wakeFile; split <;> rfl
@[simp] theorem wakeFile_rread (s : St) (f : Nat) : (wakeFile s f).rread = s.rread := by unfold wakeFile; split <;> rfl
@[simp] theorem wakeFile_rpc (s : St) (f : Nat) : (wakeFile s f).rpc = s.rpc := by unfold wakeFile; split <;> rfl
@[simp] theorem wakeFile_delivered (s : St) (f : Nat) : (wakeFile s f).delivered = s.delivered := by unfold wakeFile; split <;> rfl
@[simp] theorem wakeFile_last (s : St) (f : Nat) : (wakeFile s f).last = s.last := by unfold wakeFile; split <;> rfl
@[simp] theorem wakeFile_parked (s : St) (f : Nat) : (wakeFile s f).parked = s.parked := by unfold wakeFile; split <;> rfl
@[simp] theorem wakeFile_done (s : St) (f : Nat) : (wakeFile s f).done = s.done := by unfold wakeFile; split <;> rfl
@[simp] theorem wakeFile_log (s : St) (f : Nat) : (wakeFile s f).log = s.log := by unfold wakeFile; split <;> rfl
@[simp] theorem wakeFile_bad (s : St) (f : Nat) : (wakeFile s f).bad = s.bad := by unfold wakeFile; split <;> rfl
@[simp] theorem wakePool_max (s : St) : (wakePool s).max = s.max := by unfold wakePool; split <;> rfl
@[simp] theorem wakePool_nfiles (s : St) : (wakePool s).nfiles = s.nfiles := by unfold wakePool; split <;> rfl
@[simp] theorem wakePool_popped (s : St) : (wakePool s).popped = s.popped := by unfold wakePool; split <;> rfl
@[simp] theorem wakePool_open_ (s : St) : (wakePool s).open_ = s.open_ := by unfold wakePool; split <;> rfl
@[simp] theorem wakePool_count (s : St) : (wakePool s).count = s.count := by unfold wakePool; split <;> rfl
@[simp] theorem wakePool_written (s : St) : (wakePool s).written = s.written := by unfold wakePool; split <;> rfl
@[simp] theorem wakePool_size (s : St) : (wakePool s).size = s.size := by unfold wakePool; split <;> rfl
@[simp] theorem wakePool_finished (s : St) : (wakePool s).finished = s.finished := by unfold wakePool; split <;> rfl
@[simp] theorem wakePool_hasWriter (s : St) : (wakePool s).hasWriter = s.hasWriter := by unfold wakePool; split <;> rfl
@[simp] theorem wakePool_handle (s : St) : (wakePool s).handle = s.handle := by unfold wakePool; split <;> rfl
@[simp] theorem wakePool_fwaker (s : St) : (wakePool s).fwaker = s.fwaker := by unfold wakePool; split <;> rfl
@[simp] theorem wakePool_nw (s : St) : (wakePool s).nw = s.nw := by unfold wakePool; split <;> rfl
@[simp] theorem wakePool_wpc (s : St) : (wakePool s).wpc = s.wpc := by unfold wakePool; split <;> rfl
@[simp] theorem wakePool_wres (s : St) : (wakePool s).wres = s.wres := by unfold wakePool; split <;> rfl
@[simp] theorem wakePool_cur (s : St) : (wakePool s).cur = s.cur := by unfold wakePool; split <;> rfl
@[simp] theorem wakePool_stream (s : St) : (wakePool s).stream = s.stream := by unfold wakePool; split <;> rfl
@[simp] theorem wakePool_rread (s : St) : (wakePool s).rread = s.rread := by unfold wakePool; split <;> rfl
@[simp] theorem wakePool_rpc (s : St) : (wakePool s).rpc = s.rpc := by unfold wakePool; split <;> rfl
@[simp] theorem wakePool_delivered (s : St) : (wakePool s).delivered = s.delivered := by unfold wakePool; split <;> rfl
@[simp] theorem wakePool_last (s : St) : (wakePool s).last = s.last := by unfold wakePool; split <;> rfl
@[simp] theorem wakePool_parked (s : St) : (wakePool s).parked = s.parked := by unfold wakePool; split <;> rfl
@[simp] theorem wakePool_done (s : St) : (wakePool s).done = s.done := by unfold wakePool; split <;> rfl
@[simp] theorem wakePool_log (s : St) : (wakePool s).log = s.log := by unfold wakePool; split <;> rfl
@[simp] theorem wakePool_bad (s : St) : (wakePool s).bad = s.bad := by unfold wakePool; split <;> rfl
@[simp] theorem finishFile_max (s : St) (f : Nat) : (finishFile s f).max = s.max := by unfold finishFile wakeFile; split <;> rfl
@[simp] theorem finishFile_nfiles (s : St) (f : Nat) : (finishFile s f).nfiles = s.nfiles := by unfold finishFile wakeFile; split <;> rfl
@[simp] theorem finishFile_popped (s : St) (f : Nat) : (finishFile s f).popped = s.popped := by unfold finishFile wakeFile; split <;> rfl
@[simp] theorem finishFile_open_ (s : St) (f : Nat) : (finishFile s f).open_ = s.open_ := by unfold finishFile wakeFile; split <;> rfl
@[simp] theorem finishFile_count (s : St) (f : Nat) : (finishFile s f).count = s.count := by unfold finishFile wakeFile; split <;> rfl
@[simp] theorem finishFile_poolWaker (s : St) (f : Nat) : (finishFile s f).poolWaker = s.poolWaker := by unfold finishFile wakeFile; split <;> rfl
@[simp] theorem finishFile_written (s : St) (f : Nat) : (finishFile s f).written = s.written := by unfold finishFile wakeFile; split <;> rfl
@[simp] theorem finishFile_size (s : St) (f : Nat) : (finishFile s f).size = s.size := by unfold finishFile wakeFile; split <;> rfl
@[simp] theorem finishFile_handle (s : St) (f : Nat) : (finishFile s f).handle = s.handle := by unfold finishFile wakeFile; split <;> rfl
@[simp] theorem finishFile_nw (s : St) (f : Nat) : (finishFile s f).nw = s.nw := by unfold finishFile wakeFile; split <;> rfl
@[simp] theorem finishFile_wpc (s : St) (f : Nat) : (finishFile s f).wpc = s.wpc := by unfold finishFile wakeFile; split <;> rfl
@[simp] theorem finishFile_wres (s : St) (f : Nat) : (finishFile s f).wres = s.wres := by unfold finishFile wakeFile; split <;> rfl
@[simp] theorem finishFile_cur (s : St) (f : Nat) : (finishFile s f).cur = s.cur := by unfold finishFile wakeFile; split <;> rfl
@[simp] theorem finishFile_stream (s : St) (f : Nat) : (finishFile s f).stream = s.stream := by unfold finishFile wakeFile; split <;> rfl
@[simp] theorem finishFile_rread (s : St) (f : Nat) : (finishFile s f).rread = s.rread := by unfold finishFile wakeFile; split <;> rfl
@[simp] theorem finishFile_rpc (s : St) (f : Nat) : (finishFile s f).rpc = s.rpc := by unfold finishFile wakeFile; split <;> rfl
@[simp] theorem finishFile_delivered (s : St) (f : Nat) : (finishFile s f).delivered = s.delivered := by unfold finishFile wakeFile; split <;> rfl
@[simp] theorem finishFile_last (s : St) (f : Nat) : (finishFile s f).last = s.last := by unfold finishFile wakeFile; split <;> rfl
@[simp] theorem finishFile_parked (s : St) (f : Nat) : (finishFile s f).parked = s.parked := by unfold finishFile wakeFile; split <;> rfl
@[simp] theorem finishFile_done (s : St) (f : Nat) : (finishFile s f).done = s.done := by unfold finishFile wakeFile; split <;> rfl
@[simp] theorem finishFile_log (s : St) (f : Nat) : (finishFile s f).log = s.log := by unfold finishFile wakeFile; split <;> rfl
@[simp] theorem finishFile_bad (s : St) (f : Nat) : (finishFile s f).bad = s.bad := by unfold finishFile wakeFile; split <;> rfl

@[simp] theorem finishFile_finished (s : St) (f : Nat) : (finishFile s f).finished = upd s.finished f true := by
  unfold finishFile wakeFile; split <;> rfl
@[simp] theorem finishFile_hasWriter (s : St) (f : Nat) : (finishFile s f).hasWriter = upd s.hasWriter f false := by
  unfold finishFile wakeFile; split <;> rfl

/-- a wake never clears the task's wake flag -/
theorem wakeFile_woken_mono (s : St) (f : Nat) (h : s.woken = true) : (wakeFile s f).woken = true := by
  unfold wakeFile; split <;> simp [h]
theorem wakePool_woken_mono (s : St) (h : s.woken = true) : (wakePool s).woken = true := by
  unfold wakePool; split <;> simp [h]
/-- a wake with the waker registered sets the flag -/
theorem wakeFile_woken_of_waker (s : St) (f : Nat) (h : s.fwaker f = true) : (wakeFile s f).woken = true := by
  unfold wakeFile; simp [h]
theorem wakePool_woken_of_waker (s : St) (h : s.poolWaker = true) : (wakePool s).woken = true := by
  unfold wakePool; simp [h]
/-- if the flag is still clear after a wake, nothing was registered and nothing changed -/
theorem wakeFile_not_woken (s : St) (f : Nat) (h : (wakeFile s f).woken = false) :
    s.woken = false ∧ s.fwaker f = false ∧ wakeFile s f = s := by
  unfold wakeFile at h ⊢
  split at h
  · simp at h
  · rename_i hf; simp_all
theorem wakePool_not_woken (s : St) (h : (wakePool s).woken = false) :
    s.woken = false ∧ s.poolWaker = false ∧ wakePool s = s := by
  unfold wakePool at h ⊢
  split at h
  · simp at h
  · rename_i hf; simp_all
theorem wakeFile_fwaker_other (s : St) (f g : Nat) (h : g ≠ f) : (wakeFile s f).fwaker g = s.fwaker g := by
  unfold wakeFile; split <;> simp [upd, h]
theorem wakeFile_fwaker_le (s : St) (f g : Nat) (h : (wakeFile s f).fwaker g = true) : s.fwaker g = true := by
  unfold wakeFile at h; split at h
  · simp only [upd] at h; split at h <;> simp_all
  · exact h
theorem wakePool_poolWaker_le (s : St) (h : (wakePool s).poolWaker = true) : s.poolWaker = true := by
  unfold wakePool at h; split at h <;> simp_all

/-! ### `catW` -/

theorem catW_congr (wr wr' : Nat → List Nat) (n : Nat) (h : ∀ i, i < n → wr i = wr' i) :
    catW wr n = catW wr' n := by
  induction n with
  | zero => rfl
  | succ n ih =>
    simp only [catW]
    rw [ih (fun i hi => h i (by omega)), h n (by omega)]

theorem catW_upd_ge (wr : Nat → List Nat) (n f : Nat) (v : List Nat) (h : n ≤ f) :
    catW (upd wr f v) n = catW wr n :=
  catW_congr _ _ _ (fun i hi => by
    have : i ≠ f := by omega
    simp [upd, this])

theorem catW_upd_last (wr : Nat → List Nat) (n : Nat) (v : List Nat) :
    catW (upd wr n v) (n + 1) = catW wr n ++ v := by
  simp only [catW, upd_same]
  rw [catW_upd_ge _ _ _ _ (Nat.le_refl n)]

theorem catW_append_perm (wr : Nat → List Nat) (n f b : Nat) (h : f < n) :
    (catW (upd wr f (wr f ++ [b])) n).Perm (b :: catW wr n) := by
  induction n with
  | zero => omega
  | succ n ih =>
    by_cases hf : f = n
    · subst hf
      rw [catW_upd_last]
      simp only [catW]
      rw [← List.append_assoc]
      exact List.perm_append_singleton _ _
    · have hlt : f < n := by omega
      simp only [catW]
      rw [upd_ne _ _ _ _ (Ne.symm hf)]
      exact (ih hlt).append_right _

theorem catW_prefix (wr : Nat → List Nat) (m n : Nat) (h : m ≤ n) : catW wr m <+: catW wr n := by
  induction n with
  | zero => have : m = 0 := by omega
            subst this; exact List.prefix_refl _
  | succ n ih =>
    by_cases hm : m = n + 1
    · subst hm; exact List.prefix_refl _
    · exact (ih (by omega)).trans (by simp only [catW]; exact List.prefix_append _ _)

/-! ### `cntAlive` -/

theorem cntAlive_congr (pc pc' : Nat → WPc) (n : Nat) (h : ∀ i, i < n → alive (pc i) = alive (pc' i)) :
    cntAlive pc n = cntAlive pc' n := by
  induction n with
  | zero => rfl
  | succ n ih =>
    simp only [cntAlive]
    rw [ih (fun i hi => h i (by omega)), h n (by omega)]

theorem cntAlive_upd_ge (pc : Nat → WPc) (n w : Nat) (p : WPc) (h : n ≤ w) :
    cntAlive (upd pc w p) n = cntAlive pc n :=
  cntAlive_congr _ _ _ (fun i hi => by
    have : i ≠ w := by omega
    simp [upd, this])

/-- replacing a writer's pc by one with the same liveness keeps the count -/
theorem cntAlive_upd_same (pc : Nat → WPc) (n w : Nat) (p : WPc) (h : alive p = alive (pc w)) :
    cntAlive (upd pc w p) n = cntAlive pc n :=
  cntAlive_congr _ _ _ (fun i _ => by simp only [upd]; split <;> simp_all)

/-- a live writer dying decrements the count -/
theorem cntAlive_upd_die (pc : Nat → WPc) (n w : Nat) (p : WPc) (hw : w < n)
    (h1 : alive (pc w) = true) (h2 : alive p = false) :
    cntAlive (upd pc w p) n + 1 = cntAlive pc n := by
  induction n with
  | zero => omega
  | succ n ih =>
    by_cases hwn : w = n
    · subst hwn
      simp only [cntAlive, upd_same, h1, h2]
      rw [cntAlive_upd_ge _ _ _ _ (Nat.le_refl w)]
      simp
    · have := ih (by omega)
      simp only [cntAlive]
      rw [upd_ne _ _ _ _ (Ne.symm hwn)]
      omega

theorem cntAlive_pos (pc : Nat → WPc) (n w : Nat) (hw : w < n) (h : alive (pc w) = true) :
    0 < cntAlive pc n := by
  induction n with
  | zero => omega
  | succ n ih =>
    simp only [cntAlive]
    by_cases hwn : w = n
    · subst hwn; simp [h]
    · have := ih (by omega); omega

theorem cntAlive_zero (pc : Nat → WPc) (n : Nat) (h : cntAlive pc n = 0) :
    ∀ w, w < n → alive (pc w) = false := by
  intro w hw
  cases hal : alive (pc w) with
  | false => rfl
  | true => have := cntAlive_pos pc n w hw hal; omega

theorem cntAlive_all_dead (pc : Nat → WPc) (n : Nat) (h : ∀ w, w < n → alive (pc w) = false) :
    cntAlive pc n = 0 := by
  induction n with
  | zero => rfl
  | succ n ih =>
    simp only [cntAlive]
    rw [ih (fun w hw => h w (by omega)), h n (by omega)]
    simp

end DfModel.Proofs.C16
