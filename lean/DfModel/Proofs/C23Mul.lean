/-
  C23 helper lemmas, part 3: multiplication. Uses `nlinarith` (single Mathlib module).
-/
import DfModel.Proofs.C23
import Mathlib.Tactic.Linarith
namespace DfModel.Proofs.C23
open DfModel.Mech.Interval

theorem mulBounds_lb {t : Ty} (hw : t.WF) {l r : Option Int} {q : Int} (hq : t.inRange q)
    (h : ∀ x y, l = some x → r = some y → x * y ≤ q) : lbOK (mulBounds t false l r) q := by
  cases l with
  | none => exact lbOK_none q
  | some x =>
    cases r with
    | none => exact lbOK_none q
    | some y =>
      apply cand_lb hq (h x y rfl rfl)
      intro hp
      simp only [positiveSign, Bool.or_eq_true, Bool.and_eq_true, decide_eq_true_eq] at hp
      have := hw.mn_le
      rcases hp with ⟨h1, h2⟩ | ⟨h1, h2⟩ <;> nlinarith

theorem mulBounds_ub {t : Ty} (hw : t.WF) {l r : Option Int} {q : Int} (hq : t.inRange q)
    (h : ∀ x y, l = some x → r = some y → q ≤ x * y) : ubOK (mulBounds t true l r) q := by
  cases l with
  | none => exact ubOK_none q
  | some x =>
    cases r with
    | none => exact ubOK_none q
    | some y =>
      apply cand_ub hq (h x y rfl rfl)
      intro hp
      simp only [positiveSign, Bool.or_eq_false_iff, Bool.and_eq_false_iff, decide_eq_false_iff_not] at hp
      have := hw.mx_ge
      obtain ⟨h1, h2⟩ := hp
      rcases lt_trichotomy x 0 with hx | hx | hx
      · rcases h1 with h1 | h1
        · omega
        · nlinarith
      · subst hx; simp; omega
      · rcases h2 with h2 | h2
        · omega
        · nlinarith

/-- the operand is non-positive (its upper endpoint is ≤ 0) -/
def NP (I : Iv) (a : Int) : Prop := a ≤ 0 ∧ ∀ h, I.hi = some h → h ≤ 0
/-- the operand is non-negative (its lower endpoint, if any, is ≥ 0) -/
def NN (I : Iv) (a : Int) : Prop := 0 ≤ a ∧ ∀ l, I.lo = some l → 0 ≤ l

theorem class_of {t : Ty} (hw : t.WF) {I : Iv} {a : Int} (hI : inTy t I) (ha : mem a I)
    (hra : t.inRange a)
    (h : t.uns = true ∨ containsValue I 0 = false) :
    (leNonNull I.hi (some 0) = true → NP I a) ∧ (leNonNull I.hi (some 0) = false → NN I a) := by
  obtain ⟨il, ih⟩ := I
  simp only [mem] at ha
  constructor
  · intro hle
    cases ih with
    | none => simp [leNonNull] at hle
    | some u =>
      simp only [leNonNull, ole, Option.isNone_some, Bool.not_false, Bool.and_true,
        decide_eq_true_eq] at hle
      have := ha.2 u rfl
      refine ⟨by omega, ?_⟩
      intro h' hh
      simp only [Option.some.injEq] at hh
      omega
  · intro hle
    rcases h with hu | hc
    · have hmn := hw.uns_mn hu
      unfold Ty.inRange at hra
      refine ⟨by omega, ?_⟩
      intro l hl
      have := hI.1 l hl
      unfold Ty.inRange at this
      omega
    · cases il with
      | none =>
        exfalso
        cases ih with
        | none => simp [containsValue, ole] at hc
        | some u =>
          simp only [leNonNull, ole, Option.isNone_some, Bool.not_false, Bool.and_true,
            decide_eq_false_iff_not] at hle
          simp only [containsValue, ole, Option.isNone_some, Bool.false_or, Bool.true_and,
            decide_eq_false_iff_not] at hc
          omega
      | some l =>
        have hl := ha.1 l rfl
        cases ih with
        | none =>
          simp only [containsValue, ole, Option.isNone_none, Bool.true_or, Bool.and_true,
            decide_eq_false_iff_not] at hc
          refine ⟨by omega, ?_⟩
          intro l' hl'
          simp only [Option.some.injEq] at hl'
          omega
        | some u =>
          simp only [leNonNull, ole, Option.isNone_some, Bool.not_false, Bool.and_true,
            decide_eq_false_iff_not] at hle
          simp only [containsValue, ole, Option.isNone_some, Bool.false_or, Bool.and_eq_false_iff,
            decide_eq_false_iff_not] at hc
          have : 0 < l := by
            rcases hc with hc | hc <;> omega
          refine ⟨by omega, ?_⟩
          intro l' hl'
          simp only [Option.some.injEq] at hl'
          omega

theorem mulZeroExclusive_sound {t : Ty} (hw : t.WF) {I J : Iv} {a b : Int}
    (hI : inTy t I) (hJ : inTy t J) (ha : mem a I) (hb : mem b J)
    (hra : t.inRange a) (hrb : t.inRange b) (hq : t.inRange (a * b))
    (hcI : t.uns = true ∨ containsValue I 0 = false)
    (hcJ : t.uns = true ∨ containsValue J 0 = false) :
    mem (a * b) (mulZeroExclusive t I J) := by
  have cI := class_of hw hI ha hra hcI
  have cJ := class_of hw hJ hb hrb hcJ
  unfold mulZeroExclusive
  cases h1 : leNonNull I.hi (some 0) <;> cases h2 : leNonNull J.hi (some 0) <;> simp only
  · obtain ⟨a0, al⟩ := cI.2 h1
    obtain ⟨b0, bl⟩ := cJ.2 h2
    apply mem_mk hw hq
    · apply mulBounds_lb hw hq
      intro x y hx hy
      have := ha.1 x hx; have := hb.1 y hy; have := al x hx; have := bl y hy
      nlinarith
    · apply mulBounds_ub hw hq
      intro x y hx hy
      have := ha.2 x hx; have := hb.2 y hy
      nlinarith
  · obtain ⟨a0, al⟩ := cI.2 h1
    obtain ⟨b0, bh⟩ := cJ.1 h2
    apply mem_mk hw hq
    · apply mulBounds_lb hw hq
      intro x y hx hy
      have := hb.1 x hx; have := ha.2 y hy
      nlinarith
    · apply mulBounds_ub hw hq
      intro x y hx hy
      have := hb.2 x hx; have := ha.1 y hy; have := bh x hx; have := al y hy
      nlinarith
  · obtain ⟨a0, ah⟩ := cI.1 h1
    obtain ⟨b0, bl⟩ := cJ.2 h2
    apply mem_mk hw hq
    · apply mulBounds_lb hw hq
      intro x y hx hy
      have := ha.1 x hx; have := hb.2 y hy
      nlinarith
    · apply mulBounds_ub hw hq
      intro x y hx hy
      have := ha.2 x hx; have := hb.1 y hy; have := ah x hx; have := bl y hy
      nlinarith
  · obtain ⟨a0, ah⟩ := cI.1 h1
    obtain ⟨b0, bh⟩ := cJ.1 h2
    apply mem_mk hw hq
    · apply mulBounds_lb hw hq
      intro x y hx hy
      have := ha.2 x hx; have := hb.2 y hy; have := ah x hx; have := bh y hy
      nlinarith
    · apply mulBounds_ub hw hq
      intro x y hx hy
      have := ha.1 x hx; have := hb.1 y hy
      nlinarith

/-- what `contains_value(zero)` says about the endpoints -/
theorem contains0_facts {I : Iv} (h : containsValue I 0 = true) :
    (∀ l, I.lo = some l → l ≤ 0) ∧ (∀ u, I.hi = some u → 0 ≤ u) := by
  obtain ⟨il, ih⟩ := I
  simp only [containsValue, Bool.and_eq_true, Bool.or_eq_true] at h
  constructor
  · intro l hl
    simp only at hl
    subst hl
    simpa [ole] using h.1
  · intro u hu
    simp only at hu
    subst hu
    simpa [ole] using h.2

theorem mulSingleZero_sound {t : Ty} (hw : t.WF) {A B : Iv} {x y : Int}
    (hB : inTy t B) (hx : mem x A) (hy : mem y B)
    (hry : t.inRange y) (hq : t.inRange (x * y))
    (hA0 : containsValue A 0 = true) (hB0 : containsValue B 0 = false) :
    mem (x * y) (mulSingleZero t A B) := by
  have cB := class_of hw hB hy hry (Or.inr hB0)
  obtain ⟨al0, ah0⟩ := contains0_facts hA0
  unfold mulSingleZero
  cases h2 : leNonNull B.hi (some 0) <;> simp only [Bool.false_eq_true, if_false, if_true]
  · obtain ⟨y0, bl⟩ := cB.2 h2
    apply mem_mk hw hq
    · apply mulBounds_lb hw hq
      intro p q hp hq'
      have := hx.1 p hp; have := hy.2 q hq'; have := al0 p hp
      nlinarith
    · apply mulBounds_ub hw hq
      intro p q hp hq'
      have := hx.2 p hp; have := hy.2 q hq'; have := ah0 p hp
      nlinarith
  · obtain ⟨y0, bh⟩ := cB.1 h2
    apply mem_mk hw hq
    · apply mulBounds_lb hw hq
      intro p q hp hq'
      have := hx.2 p hp; have := hy.1 q hq'; have := ah0 p hp
      nlinarith
    · apply mulBounds_ub hw hq
      intro p q hp hq'
      have := hx.1 p hp; have := hy.1 q hq'; have := al0 p hp
      nlinarith

/-- a lower candidate of a non-positive product is the exact product or NULL (= −∞) -/
theorem mulBounds_lo_some {t : Ty} {x y v : Int} (hxy : x * y ≤ 0)
    (h : mulBounds t false (some x) (some y) = some v) : v = x * y := by
  simp only [mulBounds, chk] at h
  by_cases hr : t.inRange (x * y)
  · simp only [hr, if_true, Option.some.injEq] at h; omega
  · simp only [hr, if_false, handleOverflow, positiveSign] at h
    have hp : ((decide (x < 0) && decide (y < 0)) || (decide (x > 0) && decide (y > 0))) = false := by
      simp only [Bool.or_eq_false_iff, Bool.and_eq_false_iff, decide_eq_false_iff_not]
      constructor
      · by_contra hc
        have hc' : x < 0 ∧ y < 0 := by omega
        nlinarith
      · by_contra hc
        have hc' : x > 0 ∧ y > 0 := by omega
        nlinarith
    simp [hp] at h

theorem mulBounds_hi_some {t : Ty} (hw : t.WF) {x y v : Int} (hxy : 0 ≤ x * y)
    (h : mulBounds t true (some x) (some y) = some v) : v = x * y := by
  simp only [mulBounds, chk] at h
  by_cases hr : t.inRange (x * y)
  · simp only [hr, if_true, Option.some.injEq] at h; omega
  · simp only [hr, if_false, handleOverflow, positiveSign] at h
    by_cases h0 : x * y = 0
    · exfalso
      apply hr
      rw [h0]
      have := hw.mn_le
      have := hw.mx_ge
      unfold Ty.inRange
      omega
    · have hp : ((decide (x < 0) && decide (y < 0)) || (decide (x > 0) && decide (y > 0))) = true := by
        simp only [Bool.or_eq_true, Bool.and_eq_true, decide_eq_true_eq]
        have hpos : 0 < x * y := by omega
        rcases lt_trichotomy x 0 with hx | hx | hx
        · left; refine ⟨hx, ?_⟩; by_contra hc; have : 0 ≤ y := by omega
          nlinarith
        · subst hx; simp at hpos
        · right; refine ⟨hx, ?_⟩; by_contra hc; have : y ≤ 0 := by omega
          nlinarith
      simp [hp] at h

end DfModel.Proofs.C23
