/-
  Helper lemmas for C05 (join spec and hash-join refinement).  Core Lean only.
-/
import DfModel.Mech.HashJoin
namespace DfModel.Proofs.C05
open DfModel.Mech.Join DfModel.Mech.HashJoin
open List

/-! ### generic bag lemmas -/

theorem flatMap_append_perm' {α β : Type} (xs : List α) (f g : α → List β) :
    xs.flatMap (fun x => f x ++ g x) ~ xs.flatMap f ++ xs.flatMap g := by
  induction xs with
  | nil => simp
  | cons x xs ih =>
    simp only [flatMap_cons]
    have h1 : f x ++ g x ++ flatMap (fun x => f x ++ g x) xs ~ f x ++ g x ++ (flatMap f xs ++ flatMap g xs) :=
      Perm.append_left _ ih
    refine h1.trans ?_
    -- f x ++ g x ++ (F ++ G) ~ (f x ++ F) ++ (g x ++ G)
    rw [append_assoc, append_assoc]
    refine Perm.append_left _ ?_
    rw [← append_assoc, ← append_assoc]
    exact Perm.append_right _ perm_append_comm

/-- splitting a filter by two disjoint predicates -/
theorem filter_or_perm {α : Type} (xs : List α) (p q : α → Bool)
    (hd : ∀ x ∈ xs, ¬ (p x = true ∧ q x = true)) :
    xs.filter p ++ xs.filter q ~ xs.filter (fun x => p x || q x) := by
  induction xs with
  | nil => simp
  | cons x xs ih =>
    have ih' := ih (fun y hy => hd y (mem_cons_of_mem _ hy))
    have hx := hd x mem_cons_self
    cases hp : p x <;> cases hq : q x
    · simpa [filter_cons, hp, hq] using ih'
    · simp only [filter_cons, hp, hq, Bool.false_or, ite_true, Bool.false_eq_true, ite_false]
      exact perm_middle.trans (Perm.cons _ ih')
    · simp only [filter_cons, hp, hq, Bool.or_false, ite_true, Bool.false_eq_true, ite_false, cons_append]
      exact Perm.cons _ ih'
    · exact absurd ⟨hp, hq⟩ hx

theorem filter_congr_mem {α : Type} (xs : List α) (p q : α → Bool) (h : ∀ x ∈ xs, p x = q x) :
    xs.filter p = xs.filter q := by
  exact filter_congr h

theorem filter_map_eq_flatMap {β γ : Type} (R : List β) (q : β → Bool) (g : β → γ) :
    (R.filter q).map g = R.flatMap fun r => (if q r then [g r] else []) := by
  induction R with
  | nil => rfl
  | cons r R ihR =>
    by_cases h : q r <;> simp [filter_cons, h, ihR]

/-- nested loops may be swapped (inner join computed build-major or probe-major) -/
theorem flatMap_swap_perm {α β γ : Type} (L : List α) (R : List β) (p : α → β → Bool) (f : α → β → γ) :
    (L.flatMap fun l => (R.filter (p l)).map (f l)) ~
    (R.flatMap fun r => (L.filter (fun l => p l r)).map (fun l => f l r)) := by
  induction L with
  | nil => simp
  | cons l L ih =>
    simp only [flatMap_cons]
    have h2 : (R.flatMap fun r => ((l :: L).filter (fun l => p l r)).map (fun l => f l r)) ~
        (R.flatMap fun r => (if p l r then [f l r] else [])) ++
        (R.flatMap fun r => (L.filter (fun l => p l r)).map (fun l => f l r)) := by
      have : (fun r => ((l :: L).filter (fun l => p l r)).map (fun l => f l r)) =
          (fun r => (if p l r then [f l r] else []) ++ (L.filter (fun l => p l r)).map (fun l => f l r)) := by
        funext r
        by_cases h : p l r <;> simp [filter_cons, h]
      rw [this]
      exact flatMap_append_perm' _ _ _
    refine Perm.trans ?_ h2.symm
    rw [filter_map_eq_flatMap]
    exact Perm.append_left _ ih

/-! ### the spec, decomposed probe-row by probe-row plus a final build-side part -/

/-- what one probe row contributes while the probe side is scanned -/
def rowSpec (c : Cfg) (L : List Row) : Row → List Row :=
  match c.jt with
  | .inner | .left => fun r => (L.filter fun l => c.matches l r).map (· ++ r)
  | .right | .full => fun r =>
    (L.filter fun l => c.matches l r).map (· ++ r) ++
      (if L.any (c.matches · r) then [] else [nulls c.wl ++ r])
  | .rightSemi => fun r => if L.any (c.matches · r) then [r] else []
  | .rightAnti => fun r => if L.any (c.matches · r) then [] else [r]
  | .rightMark => fun r => [r ++ [markVal (L.any (c.matches · r))]]
  | .leftSemi | .leftAnti | .leftMark => fun _ => []

/-- what the build side contributes after the probe side is exhausted -/
def leftFinal (c : Cfg) (L R : List Row) : List Row :=
  match c.jt with
  | .left | .full => (L.filter fun l => !R.any (c.matches l)).map (· ++ nulls c.wr)
  | .leftSemi => L.filter fun l => R.any (c.matches l)
  | .leftAnti => L.filter fun l => !R.any (c.matches l)
  | .leftMark => L.map fun l => l ++ [markVal (R.any (c.matches l))]
  | _ => []

theorem flatMap_nil' {α β : Type} (xs : List α) : xs.flatMap (fun _ => ([] : List β)) = [] := by
  induction xs <;> simp_all

theorem innerPart_swap (m : Row → Row → Bool) (L R : List Row) :
    innerPart m L R ~ R.flatMap fun r => (L.filter fun l => m l r).map (· ++ r) :=
  flatMap_swap_perm L R m (fun l r => l ++ r)

theorem leftPart_decomp (m : Row → Row → Bool) (wr : Nat) (L R : List Row) :
    leftPart m wr L R ~ innerPart m L R ++ (L.filter fun l => !R.any (m l)).map (· ++ nulls wr) := by
  unfold leftPart innerPart
  rw [filter_map_eq_flatMap]
  refine Perm.trans (Perm.of_eq ?_) (flatMap_append_perm' L _ _)
  congr 1
  funext l
  cases h : R.filter (m l) with
  | nil =>
    have : R.any (m l) = false := by
      rw [Bool.eq_false_iff]; intro ha
      rw [any_eq_true] at ha
      obtain ⟨x, hx, hm⟩ := ha
      have : x ∈ R.filter (m l) := mem_filter.mpr ⟨hx, hm⟩
      rw [h] at this; cases this
    simp [this]
  | cons a as =>
    have : R.any (m l) = true := by
      rw [any_eq_true]
      have : a ∈ R.filter (m l) := by rw [h]; exact mem_cons_self
      exact ⟨a, (mem_filter.mp this).1, (mem_filter.mp this).2⟩
    simp [this]

theorem unmatchedRight_eq (m : Row → Row → Bool) (wl : Nat) (L R : List Row) :
    unmatchedRight m wl L R = R.flatMap fun r => if L.any (m · r) then [] else [nulls wl ++ r] := by
  unfold unmatchedRight
  rw [filter_map_eq_flatMap]
  congr 1; funext r
  cases L.any (m · r) <;> simp

theorem spec_decomp (c : Cfg) (L R : List Row) :
    c.spec L R ~ R.flatMap (rowSpec c L) ++ leftFinal c L R := by
  unfold Cfg.spec join
  cases hjt : c.jt
  case inner =>
    simp only [rowSpec, leftFinal, hjt, append_nil]
    exact innerPart_swap _ L R
  case left =>
    simp only [rowSpec, leftFinal, hjt]
    exact (leftPart_decomp _ _ L R).trans (Perm.append_right _ (innerPart_swap _ L R))
  case right =>
    simp only [rowSpec, leftFinal, hjt, append_nil]
    rw [unmatchedRight_eq]
    exact (Perm.append_right _ (innerPart_swap _ L R)).trans (flatMap_append_perm' R _ _).symm
  case full =>
    simp only [rowSpec, leftFinal, hjt]
    rw [unmatchedRight_eq]
    refine ((leftPart_decomp _ _ L R).append_right _).trans ?_
    -- (I ++ F) ++ U ~ (RI+U) ++ F
    refine Perm.trans ?_ (Perm.append_right _ (flatMap_append_perm' R _ _).symm)
    refine Perm.trans ?_ (Perm.append_right _ (Perm.append_right _ (innerPart_swap _ L R)))
    rw [append_assoc, append_assoc]
    exact Perm.append_left _ perm_append_comm
  case leftSemi => simp [rowSpec, leftFinal, hjt, flatMap_nil']
  case leftAnti => simp [rowSpec, leftFinal, hjt, flatMap_nil']
  case leftMark => simp [rowSpec, leftFinal, hjt, flatMap_nil']
  case rightSemi =>
    simp only [rowSpec, leftFinal, hjt, append_nil]
    have := filter_map_eq_flatMap R (fun r => L.any (c.matches · r)) id
    simp only [map_id, id] at this
    rw [this]
  case rightAnti =>
    simp only [rowSpec, leftFinal, hjt, append_nil]
    have := filter_map_eq_flatMap R (fun r => !L.any (c.matches · r)) id
    simp only [map_id, id] at this
    rw [this]
    apply Perm.of_eq; congr 1; funext r
    cases L.any (c.matches · r) <;> simp
  case rightMark =>
    simp only [rowSpec, leftFinal, hjt, append_nil]
    rw [map_eq_flatMap]

/-! ### key equality, matchability, and the map lookup -/

theorem valEq_eq {ne : Bool} {a b : Val} (h : valEq ne a b = true) : a = b := by
  cases a <;> cases b <;> simp_all [valEq]

theorem keysEq_eq {ne : Bool} : ∀ {a b : List Val}, keysEq ne a b = true → a = b
  | [], [], _ => rfl
  | [], _ :: _, h => by simp [keysEq] at h
  | _ :: _, [], h => by simp [keysEq] at h
  | a :: as, b :: bs, h => by
    simp only [keysEq, Bool.and_eq_true] at h
    rw [valEq_eq h.1, keysEq_eq h.2]

theorem keysEq_matchable {ne : Bool} : ∀ {a b : List Val}, keysEq ne a b = true → matchable ne a = true
  | [], [], _ => by simp [matchable]
  | [], _ :: _, h => by simp [keysEq] at h
  | _ :: _, [], h => by simp [keysEq] at h
  | a :: as, b :: bs, h => by
    simp only [keysEq, Bool.and_eq_true] at h
    have ih := keysEq_matchable h.2
    cases ne
    · cases a <;> cases b <;> simp_all [valEq, matchable]
    · simp [matchable]

theorem cand_check_eq (mk : MapKind) (c : Cfg) (L : List Row) (he : Eligible mk c L)
    (l : Row) (hl : l ∈ L) (r : Row) :
    (cand mk c l r && keyCheck mk c l r) = keysEq c.nullEq (c.kl l) (c.kr r) := by
  cases mk with
  | hash h =>
    have hne : c.kl l ≠ [] := he l hl
    have hkc : keyCheck (.hash h) c l r = keysEq c.nullEq (c.kl l) (c.kr r) := by
      unfold keyCheck
      cases hk : c.kl l with
      | nil => exact absurd hk hne
      | cons a as => rfl
    rw [hkc]
    cases hke : keysEq c.nullEq (c.kl l) (c.kr r)
    · simp
    · have heq := keysEq_eq hke
      have hm := keysEq_matchable hke
      have hm2 : matchable c.nullEq (c.kr r) = true := heq ▸ hm
      simp [cand, inMap, hm, hm2, heq]
  | array =>
    obtain ⟨h1, h2, h3⟩ := he
    obtain ⟨a, ha⟩ := h1 l hl
    obtain ⟨b, hb⟩ := h2 r
    have h3' := fun hne => h3 hne l hl
    simp only [cand, keyCheck, ha, hb, Bool.and_true]
    cases a <;> cases b <;> simp_all [keysEq, valEq]

theorem inMap_of_keysEq (mk : MapKind) (c : Cfg) (L : List Row) (he : Eligible mk c L)
    (l : Row) (hl : l ∈ L) (r : Row) (h : keysEq c.nullEq (c.kl l) (c.kr r) = true) :
    inMap mk c l = true := by
  have := cand_check_eq mk c L he l hl r
  rw [h, Bool.and_eq_true] at this
  cases mk with
  | hash hh => simp only [cand, Bool.and_eq_true] at this; exact this.1.1.1
  | array =>
    have hc := this.1
    simp only [cand] at hc
    unfold inMap
    split at hc <;> simp_all

theorem matchedOf_allCands (mk : MapKind) (c : Cfg) (L : List Row) (he : Eligible mk c L)
    (Li Bi : List IRow) (hLi : ∀ l ∈ Li, l.1 ∈ L) :
    matchedOf mk c (allCands mk c Li Bi) =
      Bi.flatMap fun r => (Li.filter fun l => c.matches l.1 r.1).map fun l => (l, r) := by
  unfold matchedOf allCands
  rw [filter_flatMap]
  congr 1; funext r
  rw [filter_map, filter_filter]
  congr 1
  apply filter_congr
  intro l hl
  simp only [Function.comp, Cfg.matches]
  rw [← cand_check_eq mk c L he l.1 (hLi l hl) r.1]
  cases cand mk c l.1 r.1 <;> cases keyCheck mk c l.1 r.1 <;> cases c.flt l.1 r.1 <;> rfl

/-! ### alignment ranges of consecutive chunks tile the probe batch -/

theorem lastJoined_eq (M : List Pair) : lastJoined M = (probeIdxs M).getLast? := by
  simp [lastJoined, probeIdxs, getLast?_map]

theorem le_last_of_pairwise {P : List Nat} {v : Nat} (hs : P.Pairwise (· ≤ ·))
    (h : P.getLast? = some v) : ∀ x ∈ P, x ≤ v := by
  obtain ⟨ys, rfl⟩ := getLast?_eq_some_iff.mp h
  intro x hx
  rw [pairwise_append] at hs
  rcases mem_append.mp hx with hx | hx
  · exact hs.2.2 x hx v (by simp)
  · simp at hx; omega

theorem rangeStart_some (v : Nat) : rangeStart (some v) = v + 1 := rfl

theorem range_facts (j : Option Nat) (P1 P2 : List Nat) (n i : Nat)
    (hs : (P1 ++ P2).Pairwise (· ≤ ·)) (hj : ∀ v, j = some v → ∀ x ∈ P1 ++ P2, v ≤ x) (hi : i < n) :
    (inRange (rangeStart j) (rangeEnd false n P1.getLast?) i = true → P2.contains i = true →
        P1.contains i = true) ∧
    (inRange (rangeStart (P1.getLast?.or j)) n i = true →
        P1.contains i = false) ∧
    ¬ (inRange (rangeStart j) (rangeEnd false n P1.getLast?) i = true ∧
        inRange (rangeStart (P1.getLast?.or j)) n i = true) ∧
    inRange (rangeStart j) n i =
      (inRange (rangeStart j) (rangeEnd false n P1.getLast?) i ||
        inRange (rangeStart (P1.getLast?.or j)) n i) := by
  cases hP : P1.getLast? with
  | none =>
    have : P1 = [] := getLast?_eq_none_iff.mp hP
    subst this
    cases j <;> simp [inRange, rangeEnd, Option.or] <;> rfl
  | some v1 =>
    have hle1 : ∀ x ∈ P1, x ≤ v1 := le_last_of_pairwise (pairwise_append.mp hs).1 hP
    have hv1 : v1 ∈ P1 := mem_of_getLast? hP
    have hle2 : ∀ y ∈ P2, v1 ≤ y := fun y hy => (pairwise_append.mp hs).2.2 v1 hv1 y hy
    have hs0 : rangeStart j ≤ v1 + 1 := by
      cases j with
      | none => simp [rangeStart]
      | some v =>
        have := hj v rfl v1 (mem_append_left _ hv1)
        simp [rangeStart]; omega
    simp only [rangeEnd, Option.or, rangeStart_some, Bool.false_eq_true, ite_false]
    refine ⟨?_, ?_, ?_, ?_⟩
    · intro h1 h2
      simp only [inRange, Bool.and_eq_true, decide_eq_true_eq] at h1
      have := hle2 i (by simpa using h2)
      have : i = v1 := by omega
      subst this; simpa using hv1
    · intro h1
      simp only [inRange, Bool.and_eq_true, decide_eq_true_eq] at h1
      rw [Bool.eq_false_iff]; intro hc
      have := hle1 i (by simpa using hc)
      omega
    · simp only [inRange, Bool.and_eq_true, decide_eq_true_eq]; omega
    · rw [Bool.eq_iff_iff]
      simp only [inRange, Bool.and_eq_true, Bool.or_eq_true, decide_eq_true_eq]; omega

end DfModel.Proofs.C05
