/-
  C07 — generic accumulator laws and their instances. Core Lean only.
-/
import DfModel.Mech.AggAcc
namespace DfModel.Proofs.C07
open DfModel.Mech.AggAcc

variable {σ ρ : Type}

/-- what has to be checked per function: an invariant `I` of the states produced by the
    accumulator, merging with the empty state is the identity, and merging commutes with feeding one
    more row to the right-hand partial -/
structure MergeLaws (a : Acc σ ρ) (I : σ → Prop) : Prop where
  inv_init : I a.init
  inv_step : ∀ t v, I t → I (a.step t v)
  merge_init : ∀ s, I s → a.merge s a.init = s
  merge_step : ∀ s t v, I t → a.merge s (a.step t v) = a.step (a.merge s t) v

/-- rows may be fed in any order -/
def StepComm (a : Acc σ ρ) : Prop := ∀ s v w, a.step (a.step s v) w = a.step (a.step s w) v

theorem update_append (a : Acc σ ρ) (s : σ) (xs ys : List NV) :
    a.update (a.update s xs) ys = a.update s (xs ++ ys) := by
  simp [Acc.update, List.foldl_append]

theorem inv_update {a : Acc σ ρ} {I : σ → Prop} (h : MergeLaws a I) (s : σ) (hs : I s) (xs : List NV) :
    I (a.update s xs) := by
  induction xs generalizing s with
  | nil => exact hs
  | cons x xs ih => exact ih _ (h.inv_step s x hs)

theorem merge_update {a : Acc σ ρ} {I : σ → Prop} (h : MergeLaws a I) (s : σ) (hs : I s) (ys : List NV) :
    a.merge s (a.update a.init ys) = a.update s ys := by
  suffices ∀ t, I t → a.merge s (a.update t ys) = a.update (a.merge s t) ys by
    simpa [h.merge_init s hs] using this a.init h.inv_init
  induction ys with
  | nil => intro t _; rfl
  | cons y ys ih =>
    intro t ht
    simp only [Acc.update, List.foldl_cons] at ih ⊢
    rw [ih _ (h.inv_step t y ht), h.merge_step s t y ht]

/-- merging two partial states = accumulating the concatenated input (as STATES, hence also after `eval`) -/
theorem merge_hom {a : Acc σ ρ} {I : σ → Prop} (h : MergeLaws a I) (xs ys : List NV) :
    a.merge (a.update a.init xs) (a.update a.init ys) = a.update a.init (xs ++ ys) := by
  rw [merge_update h _ (inv_update h _ h.inv_init xs), update_append]

theorem update_perm {a : Acc σ ρ} (hc : StepComm a) (s : σ) {xs ys : List NV} (p : xs.Perm ys) :
    a.update s xs = a.update s ys :=
  List.Perm.foldl_eq' p (fun x _ y _ z => hc z x y) s

theorem merge_comm {a : Acc σ ρ} {I : σ → Prop} (h : MergeLaws a I) (hc : StepComm a) (xs ys : List NV) :
    a.merge (a.update a.init xs) (a.update a.init ys) = a.merge (a.update a.init ys) (a.update a.init xs) := by
  rw [merge_hom h, merge_hom h]
  exact update_perm hc _ List.perm_append_comm

theorem merge_assoc {a : Acc σ ρ} {I : σ → Prop} (h : MergeLaws a I) (xs ys zs : List NV) :
    a.merge (a.merge (a.update a.init xs) (a.update a.init ys)) (a.update a.init zs)
      = a.merge (a.update a.init xs) (a.merge (a.update a.init ys) (a.update a.init zs)) := by
  rw [merge_hom h, merge_hom h, merge_hom h, merge_hom h, List.append_assoc]

theorem mergeAll_eq {a : Acc σ ρ} {I : σ → Prop} (h : MergeLaws a I) (parts : List (List NV)) :
    mergeAll a parts = a.update a.init parts.flatten := by
  suffices ∀ s, I s → parts.foldl (fun s p => a.merge s (a.update a.init p)) s = a.update s parts.flatten from
    this _ h.inv_init
  induction parts with
  | nil => intro s _; rfl
  | cons p ps ih =>
    intro s hs
    simp only [List.foldl_cons, List.flatten_cons]
    rw [merge_update h s hs, ih _ (inv_update h s hs p), update_append]

/-! ### liftOpt / mergeOpt -/

theorem liftOpt_mergeLaws (f : V → V → V) (hassoc : ∀ a b c, f (f a b) c = f a (f b c)) :
    ∀ s t v, mergeOpt f s (liftOpt f t v) = liftOpt f (mergeOpt f s t) v := by
  intro s t v
  cases s <;> cases t <;> cases v <;> simp [mergeOpt, liftOpt, hassoc]

theorem liftOpt_comm (f : V → V → V) (hassoc : ∀ a b c, f (f a b) c = f a (f b c))
    (hcomm : ∀ a b, f a b = f b a) : ∀ s v w, liftOpt f (liftOpt f s v) w = liftOpt f (liftOpt f s w) v := by
  intro s v w
  cases s <;> cases v <;> cases w <;> simp only [liftOpt]
  · rename_i b c; rw [hcomm]
  · rename_i a b c
    rw [hassoc, hassoc, hcomm b c]

theorem optLaws (f : V → V → V) (hassoc : ∀ a b c, f (f a b) c = f a (f b c)) :
    MergeLaws ({ init := none, step := liftOpt f, merge := mergeOpt f, eval := id } : Acc (Option V) (Option V))
      (fun _ => True) :=
  ⟨trivial, fun _ _ _ => trivial, fun s _ => by cases s <;> rfl, fun s t v _ => liftOpt_mergeLaws f hassoc s t v⟩

/-! ### signed min / max on BitVec 64 -/

theorem sle_total (a b : V) : sle a b = true ∨ sle b a = true := by
  simp only [sle, decide_eq_true_eq]; omega
theorem sle_trans {a b c : V} (h1 : sle a b = true) (h2 : sle b c = true) : sle a c = true := by
  simp only [sle, decide_eq_true_eq] at *; omega
theorem sle_antisymm {a b : V} (h1 : sle a b = true) (h2 : sle b a = true) : a = b := by
  simp only [sle, decide_eq_true_eq] at *
  exact BitVec.eq_of_toInt_eq (by omega)

theorem vmin_comm (a b : V) : vmin a b = vmin b a := by
  simp only [vmin]
  split <;> split <;> first | rfl | (rename_i h1 h2; first | exact sle_antisymm h1 h2 | (cases sle_total a b <;> simp_all))
theorem vmax_comm (a b : V) : vmax a b = vmax b a := by
  simp only [vmax]
  split <;> split <;> first | rfl | (rename_i h1 h2; first | exact (sle_antisymm h1 h2).symm | (cases sle_total a b <;> simp_all))

theorem vmin_assoc (a b c : V) : vmin (vmin a b) c = vmin a (vmin b c) := by
  simp only [vmin]
  by_cases h1 : sle a b = true <;> by_cases h2 : sle b c = true <;> by_cases h3 : sle a c = true <;>
    simp [h1, h2, h3]
  · exact absurd (sle_trans h1 h2) h3
  · have hba : sle b a = true := by cases sle_total a b <;> simp_all
    have hcb : sle c b = true := by cases sle_total b c <;> simp_all
    have hca := sle_trans hcb hba
    exact (sle_antisymm h3 hca).symm ▸ rfl

theorem vmax_assoc (a b c : V) : vmax (vmax a b) c = vmax a (vmax b c) := by
  simp only [vmax]
  by_cases h1 : sle a b = true <;> by_cases h2 : sle b c = true <;> by_cases h3 : sle a c = true <;>
    simp [h1, h2, h3]
  · exact absurd (sle_trans h1 h2) h3
  · have hba : sle b a = true := by cases sle_total a b <;> simp_all
    have hcb : sle c b = true := by cases sle_total b c <;> simp_all
    have hca := sle_trans hcb hba
    exact sle_antisymm hca h3

end DfModel.Proofs.C07
