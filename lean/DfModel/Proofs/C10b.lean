/-
  C10 helper lemmas, part 2: the index-vector fill and the grouped take. Core Lean only.
-/
import DfModel.Proofs.C10
namespace DfModel.Proofs.C10
open DfModel.Mech.Repart

/-- rows `row + j` (in order) whose route `rs[j]` is `p` -/
def idxs : List Nat → Nat → Nat → List Nat
  | [], _, _ => []
  | r :: rs, row, p => (if r = p then [row] else []) ++ idxs rs (row + 1) p

theorem pushAt_spec (bs : List (List Nat)) (r row : Nat) (hr : r < bs.length) :
    ∃ bs', pushAt bs r row = some bs' ∧ bs'.length = bs.length ∧
      ∀ p, bs'[p]? = (bs[p]?).map (fun b => if p = r then b ++ [row] else b) := by
  induction bs generalizing r with
  | nil => simp at hr
  | cons b bs ih =>
    cases r with
    | zero =>
      refine ⟨(b ++ [row]) :: bs, rfl, by simp, ?_⟩
      intro p
      cases p with
      | zero => simp
      | succ p => simp
    | succ r =>
      obtain ⟨bs', h1, h2, h3⟩ := ih r (by simpa using hr)
      refine ⟨b :: bs', by simp [pushAt, h1], by simp [h2], ?_⟩
      intro p
      cases p with
      | zero => simp
      | succ p => simp [h3 p]

theorem routeLoop_spec (rs : List Nat) (row : Nat) (bs : List (List Nat))
    (hr : ∀ r, r ∈ rs → r < bs.length) :
    ∃ out, routeLoop rs row bs = some out ∧ out.length = bs.length ∧
      ∀ p, out[p]? = (bs[p]?).map (fun b => b ++ idxs rs row p) := by
  induction rs generalizing row bs with
  | nil => exact ⟨bs, rfl, rfl, fun p => by simp [idxs]⟩
  | cons r rs ih =>
    obtain ⟨bs', h1, h2, h3⟩ := pushAt_spec bs r row (hr r (by simp))
    obtain ⟨out, g1, g2, g3⟩ := ih (row + 1) bs' (fun x hx => by rw [h2]; exact hr x (by simp [hx]))
    refine ⟨out, by simp [routeLoop, h1, g1], by rw [g2, h2], ?_⟩
    intro p
    rw [g3 p, h3 p]
    cases bs[p]? with
    | none => rfl
    | some b =>
      simp only [Option.map_some, idxs]
      by_cases hp : p = r
      · subst hp; simp
      · have : ¬ r = p := fun e => hp e.symm
        simp [hp, this]

/-- the index vectors after routing a whole batch into `n` fresh vectors -/
theorem routeLoop_fresh (routes : List Nat) (n : Nat) (hr : ∀ r, r ∈ routes → r < n) :
    routeLoop routes 0 (List.replicate n []) = some ((List.range n).map (idxs routes 0)) := by
  obtain ⟨out, h1, h2, h3⟩ := routeLoop_spec routes 0 (List.replicate n []) (by simpa using hr)
  rw [h1]
  congr 1
  apply List.ext_getElem?
  intro p
  rw [h3 p]
  by_cases hp : p < n
  · simp [hp]
  · simp [hp]

theorem mem_idxs (rs : List Nat) (row p i : Nat) :
    i ∈ idxs rs row p ↔ ∃ j, i = row + j ∧ rs[j]? = some p := by
  induction rs generalizing row with
  | nil => simp [idxs]
  | cons r rs ih =>
    simp only [idxs, List.mem_append, ih]
    constructor
    · rintro (h | ⟨j, rfl, hj⟩)
      · split at h
        · rename_i e; subst e
          simp only [List.mem_singleton] at h
          exact ⟨0, by omega, by simp⟩
        · cases h
      · exact ⟨j + 1, by omega, by simpa using hj⟩
    · rintro ⟨j, rfl, hj⟩
      cases j with
      | zero =>
        left
        simp only [List.getElem?_cons_zero, Option.some.injEq] at hj
        subst hj; simp
      | succ j =>
        right
        exact ⟨j, by omega, by simpa using hj⟩

theorem idxs_ge (rs : List Nat) (row p i : Nat) (h : i ∈ idxs rs row p) : row ≤ i := by
  obtain ⟨j, rfl, _⟩ := (mem_idxs rs row p i).mp h; omega

/-- within a partition the rows keep their input order (strictly increasing row indices) -/
theorem idxs_sorted (rs : List Nat) (row p : Nat) : List.Pairwise (· < ·) (idxs rs row p) := by
  induction rs generalizing row with
  | nil => exact List.Pairwise.nil
  | cons r rs ih =>
    simp only [idxs]
    rw [List.pairwise_append]
    refine ⟨by split <;> simp, ih (row + 1), ?_⟩
    intro a ha b hb
    have := idxs_ge rs (row + 1) p b hb
    split at ha
    · simp only [List.mem_singleton] at ha; omega
    · cases ha

theorem idxs_nodup (rs : List Nat) (row p : Nat) : (idxs rs row p).Nodup :=
  (idxs_sorted rs row p).imp (fun h => Nat.ne_of_lt h)

/-! ### grouped take -/

/-- the non-empty index vectors with their partition numbers -/
def lab : List (List Nat) → Nat → List (Nat × List Nat)
  | [], _ => []
  | b :: bs, p => if b.isEmpty then lab bs (p + 1) else (p, b) :: lab bs (p + 1)

theorem takePlan_spec (bs : List (List Nat)) (p : Nat) (acc : List Nat) :
    (takePlan bs p acc).2 = acc ++ bs.flatten ∧
    (takePlan bs p acc).1.map
        (fun x => (x.1, ((takePlan bs p acc).2.drop x.2.1).take x.2.2)) = lab bs p := by
  induction bs generalizing p acc with
  | nil => simp [takePlan, lab]
  | cons b bs ih =>
    simp only [takePlan, lab]
    by_cases hb : b.isEmpty = true
    · have hb' : b = [] := by simpa using hb
      simp only [hb, if_true]
      have := ih (p + 1) acc
      refine ⟨by rw [this.1, hb']; simp, this.2⟩
    · simp only [hb]
      have := ih (p + 1) (acc ++ b)
      refine ⟨by simp only [Bool.false_eq_true, if_false]; rw [this.1]; simp, ?_⟩
      simp only [Bool.false_eq_true, if_false, List.map_cons]
      rw [this.2, this.1]
      congr 1
      simp [List.append_assoc]

theorem groupedTake_eq_lab (bs : List (List Nat)) : groupedTake bs = lab bs 0 := by
  unfold groupedTake
  exact (takePlan_spec bs 0 []).2

theorem mem_lab (bs : List (List Nat)) (p0 q : Nat) (rows : List Nat) :
    (q, rows) ∈ lab bs p0 ↔ ∃ k, q = p0 + k ∧ bs[k]? = some rows ∧ rows ≠ [] := by
  induction bs generalizing p0 with
  | nil => simp [lab]
  | cons b bs ih =>
    simp only [lab]
    by_cases hb : b.isEmpty = true
    · have hb' : b = [] := by simpa using hb
      simp only [hb, if_true, ih]
      constructor
      · rintro ⟨k, rfl, h1, h2⟩
        exact ⟨k + 1, by omega, by simpa using h1, h2⟩
      · rintro ⟨k, rfl, h1, h2⟩
        cases k with
        | zero => simp at h1; subst h1; exact absurd hb' h2
        | succ k => exact ⟨k, by omega, by simpa using h1, h2⟩
    · have hb' : b ≠ [] := by simpa using hb
      simp only [hb, Bool.false_eq_true, if_false, List.mem_cons, ih, Prod.mk.injEq]
      constructor
      · rintro (⟨rfl, rfl⟩ | ⟨k, rfl, h1, h2⟩)
        · exact ⟨0, rfl, by simp, hb'⟩
        · exact ⟨k + 1, by omega, by simpa using h1, h2⟩
      · rintro ⟨k, rfl, h1, h2⟩
        cases k with
        | zero => left; simp at h1; exact ⟨rfl, h1.symm⟩
        | succ k => right; exact ⟨k, by omega, by simpa using h1, h2⟩

/-- output partition numbers are strictly increasing (each partition appears at most once) -/
theorem lab_fst_sorted (bs : List (List Nat)) (p0 : Nat) :
    List.Pairwise (· < ·) ((lab bs p0).map (·.1)) := by
  induction bs generalizing p0 with
  | nil => exact List.Pairwise.nil
  | cons b bs ih =>
    simp only [lab]
    split
    · exact (ih (p0 + 1))
    · simp only [List.map_cons, List.pairwise_cons]
      refine ⟨?_, ih (p0 + 1)⟩
      intro q hq
      obtain ⟨⟨q', rows⟩, hm, rfl⟩ := List.mem_map.mp hq
      obtain ⟨k, rfl, _⟩ := (mem_lab bs (p0 + 1) q' rows).mp hm
      simp only; omega

end DfModel.Proofs.C10
