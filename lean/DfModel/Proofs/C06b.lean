/-
  C06 — spec tie, two-stage with routing, spill segments, ordered early emission. Core Lean only.
-/
import DfModel.Proofs.C06
namespace DfModel.Proofs.C06
open DfModel.Mech.AggAcc DfModel.Mech.GroupAgg DfModel.Proofs.C07

variable {K σ ρ : Type} [DecidableEq K]

theorem lookupOut_cons (e : K × ρ) (o : List (K × ρ)) (k : K) :
    lookupOut (e :: o) k = if e.1 = k then some e.2 else lookupOut o k := by
  simp only [lookupOut, List.find?_cons]
  by_cases h : e.1 = k <;> simp [h]

theorem lookupOut_finalize (a : Acc σ ρ) (t : Table K σ) (k : K) :
    lookupOut (finalize a t) k = (lookup t k).map a.eval := by
  induction t with
  | nil => rfl
  | cons e t ih =>
    show lookupOut ((e.1, a.eval e.2) :: finalize a t) k = (lookup (e :: t) k).map a.eval
    rw [lookup_cons, lookupOut_cons]
    by_cases h : e.1 = k
    · simp [h]
    · simp only [h, if_false]; exact ih

/-- hash aggregation in one stage computes the specification -/
theorem singleAgg_spec (a : Acc σ ρ) (rows : List (Row K)) (k : K) :
    lookupOut (singleAgg a rows) k = specAgg a rows k := by
  rw [singleAgg, lookupOut_finalize, lookup_partialAgg, specAgg]
  split <;> rfl

theorem keys_finalize (a : Acc σ ρ) (t : Table K σ) : (finalize a t).map (·.1) = keys t := by
  simp [finalize]

theorem singleAgg_nodup (a : Acc σ ρ) (rows : List (Row K)) : ((singleAgg a rows).map (·.1)).Nodup := by
  rw [singleAgg, keys_finalize]; exact nodup_aggRows a [] rows List.nodup_nil

/-! ### congruence of the final merge in the per-key lookups -/

theorem nodup_finalAgg_fold (a : Acc σ ρ) (t : Table K σ) (ps : List (Table K σ)) (h : (keys t).Nodup) :
    (keys (ps.foldl (mergeTable a) t)).Nodup := by
  induction ps generalizing t with
  | nil => exact h
  | cons p ps ih => exact ih _ (nodup_mergeTable a t p h)

theorem lookup_fold_congr (a : Acc σ ρ) (ps qs : List (Table K σ)) (t u : Table K σ) (k : K)
    (hlen : ps.length = qs.length)
    (hp : ∀ p ∈ ps, (keys p).Nodup) (hq : ∀ q ∈ qs, (keys q).Nodup)
    (heq : ∀ i : Nat, (ps[i]?).map (fun p => lookup p k) = (qs[i]?).map (fun p => lookup p k))
    (htu : lookup t k = lookup u k) :
    lookup (ps.foldl (mergeTable a) t) k = lookup (qs.foldl (mergeTable a) u) k := by
  induction ps generalizing qs t u with
  | nil =>
    cases qs with
    | nil => exact htu
    | cons q qs => simp at hlen
  | cons p ps ih =>
    cases qs with
    | nil => simp at hlen
    | cons q qs =>
      simp only [List.foldl_cons]
      apply ih qs
      · simpa using hlen
      · exact fun x hx => hp x (by simp [hx])
      · exact fun x hx => hq x (by simp [hx])
      · intro i; simpa using heq (i + 1)
      · have h0 : lookup p k = lookup q k := by simpa using heq 0
        rw [lookup_mergeTable a t p (hp p (by simp)), lookup_mergeTable a u q (hq q (by simp)), h0, htu]

theorem lookup_fold_none (a : Acc σ ρ) (ps : List (Table K σ)) (t : Table K σ) (k : K)
    (hp : ∀ p ∈ ps, (keys p).Nodup) (hnone : ∀ p ∈ ps, lookup p k = none) (ht : lookup t k = none) :
    lookup (ps.foldl (mergeTable a) t) k = none := by
  induction ps generalizing t with
  | nil => exact ht
  | cons p ps ih =>
    simp only [List.foldl_cons]
    apply ih _ (fun x hx => hp x (by simp [hx])) (fun x hx => hnone x (by simp [hx]))
    rw [lookup_mergeTable a t p (hp p (by simp)), hnone p (by simp)]
    exact ht

theorem lookup_filter (t : Table K σ) (q : K → Bool) (k : K) :
    lookup (t.filter (fun e => q e.1)) k = if q k then lookup t k else none := by
  induction t with
  | nil => simp [lookup]
  | cons e t ih =>
    simp only [List.filter_cons]
    by_cases hq : q e.1 = true
    · simp only [hq, if_true, lookup_cons, ih]
      by_cases h : e.1 = k
      · subst h; simp [hq]
      · simp [h]
    · simp only [hq, Bool.false_eq_true, if_false, ih, lookup_cons]
      by_cases h : e.1 = k
      · subst h; simp [hq]
      · simp [h]

theorem nodup_filter (t : Table K σ) (q : K × σ → Bool) (h : (keys t).Nodup) : (keys (t.filter q)).Nodup := by
  exact List.Nodup.sublist (List.Sublist.map _ (List.filter_sublist)) h

/-! ### lookups in a union of outputs -/

theorem lookupOut_append (o₁ o₂ : List (K × ρ)) (k : K) :
    lookupOut (o₁ ++ o₂) k = (lookupOut o₁ k).or (lookupOut o₂ k) := by
  simp only [lookupOut, List.find?_append]
  cases List.find? (fun e => decide (e.1 = k)) o₁ <;> simp

theorem lookupOut_flatten (outs : List (List (K × ρ))) (k : K) :
    lookupOut outs.flatten k = outs.findSome? (fun o => lookupOut o k) := by
  induction outs with
  | nil => rfl
  | cons o os ih =>
    simp only [List.flatten_cons, lookupOut_append, ih, List.findSome?_cons]
    cases lookupOut o k <;> simp

theorem findSome_range_single {β : Type} (n j0 : Nat) (x : Option β) :
    (List.range n).findSome? (fun j => if j = j0 then x else none) = if j0 < n then x else none := by
  induction n with
  | zero => simp
  | succ n ih =>
    rw [List.range_succ, List.findSome?_append, ih]
    by_cases h1 : j0 < n
    · have : j0 < n + 1 := by omega
      cases x <;> simp [h1, this]
    · by_cases h2 : j0 = n
      · subst h2; simp
      · have : ¬ j0 < n + 1 := by omega
        have h3 : ¬ n = j0 := fun e => h2 e.symm
        simp [h1, this, h3]

/-- two stages with hash repartition (in-order version): state by state what one stage computes -/
theorem twoStage_lookup {I : σ → Prop} (a : Acc σ ρ) (hl : MergeLaws a I) (route : K → Nat) (nOut : Nat)
    (hn : 0 < nOut) (parts : List (List (Row K))) (k : K) :
    lookupOut (twoStage a route nOut parts) k = specAgg a parts.flatten k := by
  simp only [twoStage, lookupOut_flatten, List.findSome?_map, Function.comp_def]
  have hj : ∀ j, lookupOut (finalize a (finalAgg a ((parts.map (partialAgg a)).map
        (fun p => p.filter (fun e => decide (route e.1 % nOut = j)))))) k
      = if j = route k % nOut then specAgg a parts.flatten k else none := by
    intro j
    rw [lookupOut_finalize]
    by_cases h : j = route k % nOut
    · subst h
      simp only [if_true]
      rw [← singleAgg_spec, singleAgg, lookupOut_finalize, ← lookup_finalAgg a hl parts k]
      congr 1
      simp only [finalAgg]
      apply lookup_fold_congr a _ _ [] [] k (by simp)
      · intro p hp
        simp only [List.mem_map] at hp
        obtain ⟨p', ⟨r, _, rfl⟩, rfl⟩ := hp
        exact nodup_filter _ _ (nodup_aggRows a [] r List.nodup_nil)
      · intro p hp
        simp only [List.mem_map] at hp
        obtain ⟨r, _, rfl⟩ := hp
        exact nodup_aggRows a [] r List.nodup_nil
      · intro i
        simp only [List.getElem?_map, Option.map_map, Function.comp_def]
        cases parts[i]? with
        | none => rfl
        | some r => simp [lookup_filter (partialAgg a r) (fun x => decide (route x % nOut = route k % nOut)) k]
      · rfl
    · simp only [h, if_false, Option.map_eq_none_iff, finalAgg]
      apply lookup_fold_none
      · intro p hp
        simp only [List.mem_map] at hp
        obtain ⟨p', ⟨r, _, rfl⟩, rfl⟩ := hp
        exact nodup_filter _ _ (nodup_aggRows a [] r List.nodup_nil)
      · intro p hp
        simp only [List.mem_map] at hp
        obtain ⟨p', ⟨r, _, rfl⟩, rfl⟩ := hp
        rw [lookup_filter (partialAgg a r) (fun x => decide (route x % nOut = j)) k]
        have : ¬ route k % nOut = j := fun e => h e.symm
        simp [this]
      · rfl
  simp only [hj]
  rw [findSome_range_single, if_pos (Nat.mod_lt _ hn)]

/-! ### the spec depends on the rows of a group only up to their order (order-insensitive functions) -/

theorem specAgg_perm (a : Acc σ ρ) (hc : StepComm a) {rows rows' : List (Row K)} (p : rows.Perm rows') (k : K) :
    specAgg a rows k = specAgg a rows' k := by
  simp only [specAgg]
  have hany : rows.any (fun r => decide (r.1 = k)) = rows'.any (fun r => decide (r.1 = k)) := by
    rw [Bool.eq_iff_iff]; simp only [List.any_eq_true]
    exact ⟨fun ⟨x, hx, h⟩ => ⟨x, p.subset hx, h⟩, fun ⟨x, hx, h⟩ => ⟨x, p.symm.subset hx, h⟩⟩
  rw [hany]
  split
  · have : (valsOf k rows).Perm (valsOf k rows') := (p.filter _).map _
    rw [update_perm hc _ this]
  · rfl

/-! ### spill segments -/

theorem segments_flatten {β : Type} (sched : List Bool) (xs : List β) : (segments sched xs).flatten = xs := by
  induction xs generalizing sched with
  | nil => cases sched <;> rfl
  | cons x xs ih =>
    cases sched with
    | nil => simp [segments]
    | cons b bs =>
      simp only [segments]
      have := ih bs
      cases h : segments bs xs with
      | nil => rw [h] at this; simp at this; simp [this]
      | cons seg rest =>
        rw [h] at this
        cases b <;> simp at this ⊢ <;> exact this

end DfModel.Proofs.C06
