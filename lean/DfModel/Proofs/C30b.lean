/-
  C30 helper lemmas, part 2: type soundness of `eval` w.r.t. `typeOf`, by mutual structural
  recursion over the expression AST.
-/
import DfModel.Proofs.C30
namespace DfModel.Proofs.C30
open DfModel

theorem bind_ok {ε α β : Type} {x : Except ε α} {f : α → Except ε β} {v : β}
    (h : (x >>= f) = .ok v) : ∃ a, x = .ok a ∧ f a = .ok v := by
  cases x with
  | error e => simp [bind, Except.bind] at h
  | ok a => exact ⟨a, rfl, h⟩

theorem pure_ok {ε α : Type} {a v : α} (h : (pure a : Except ε α) = .ok v) : a = v := by
  simpa [pure, Except.pure] using h

/-- the typing context describes the evaluation context -/
structure EnvOk (Γ : TEnv) (ρ : Row) (env : Env) : Prop where
  cols : rowConforms ρ Γ.cols = true
  outer : rowConforms env.outer Γ.outer = true
  params : rowConforms env.params Γ.params = true

theorem lookup_sound (Γ : Schema) (ρ : Row) (h : rowConforms ρ Γ = true) (i : Nat) (t : Ty × Bool) (v : Val)
    (ht : lookupTy Γ i = .ok t) (hv : ρ[i]? = some v) : Okv v t := by
  simp only [lookupTy] at ht
  cases hg : Γ[i]? with
  | none => simp [hg] at ht
  | some t' =>
    simp only [hg, Except.ok.injEq] at ht
    subst ht
    exact rowConforms_get ρ Γ h i v t' hv hg

theorem okv_bool_nonnull_of (x : Tri) (n : Bool) (h : n = false → x ≠ .u) : Okv x.toVal (.bool, n) :=
  ⟨toVal_bool x, fun hn => toVal_nonnull x (h hn)⟩

theorem unify_left_nonnull (a b t : Ty) (ha : a ≠ .null) (h : unifyTy a b = some t) : t = a := by
  cases a with
  | null => exact absurd rfl ha
  | int w s => cases b <;> simp_all [unifyTy]
  | bool => cases b <;> simp_all [unifyTy]
  | str => cases b <;> simp_all [unifyTy]

theorem unify_between (a lo hi u1 u2 : Ty) (h1 : unifyTy a lo = some u1) (h2 : unifyTy u1 hi = some u2) :
    ∃ u3, unifyTy a hi = some u3 := by
  by_cases ha : a = .null
  · subst ha; exact ⟨hi, by cases hi <;> rfl⟩
  · have := unify_left_nonnull a lo u1 ha h1
    subst this
    exact ⟨u2, h2⟩

mutual
/-- **type soundness**: a successfully evaluated expression yields a value of its declared type,
    and a non-NULL value when it is declared NOT NULL -/
theorem type_sound_expr (Γ : TEnv) (ρ : Row) (env : Env) (hE : EnvOk Γ ρ env) :
    (e : Expr) → (t : Ty × Bool) → (v : Val) → typeOf e Γ = .ok t → eval e ρ env = .ok v → Okv v t
  | .col i, t, v, ht, hv => by
    simp only [typeOf] at ht
    simp only [eval] at hv
    cases hg : ρ[i]? with
    | none => simp [hg] at hv
    | some x =>
      simp only [hg, Except.ok.injEq] at hv
      subst hv
      exact lookup_sound Γ.cols ρ hE.cols i t x ht hg
  | .outer i, t, v, ht, hv => by
    simp only [typeOf] at ht
    simp only [eval] at hv
    cases hg : env.outer[i]? with
    | none => simp [hg] at hv
    | some x =>
      simp only [hg, Except.ok.injEq] at hv
      subst hv
      exact lookup_sound Γ.outer env.outer hE.outer i t x ht hg
  | .lit x, t, v, ht, hv => by
    simp only [typeOf, Except.ok.injEq] at ht
    simp only [eval, Except.ok.injEq] at hv
    subst ht hv
    exact ⟨hasTy_ty _, fun h => h⟩
  | .ph i, t, v, ht, hv => by
    simp only [typeOf] at ht
    simp only [eval] at hv
    cases hg : env.params[i]? with
    | none => simp [hg] at hv
    | some x =>
      simp only [hg, Except.ok.injEq] at hv
      subst hv
      exact lookup_sound Γ.params env.params hE.params i t x ht hg
  | .bin op a b, t, v, ht, hv => by
    simp only [typeOf] at ht
    simp only [eval] at hv
    obtain ⟨ta, hta, ht⟩ := bind_ok ht
    obtain ⟨tb, htb, ht⟩ := bind_ok ht
    obtain ⟨x, hx, hv⟩ := bind_ok hv
    obtain ⟨y, hy, hv⟩ := bind_ok hv
    exact typeBin_sound op ta tb t x y v ht (type_sound_expr Γ ρ env hE a ta x hta hx)
      (type_sound_expr Γ ρ env hE b tb y htb hy) hv
  | .not a, t, v, ht, hv => by
    simp only [typeOf] at ht
    simp only [eval] at hv
    obtain ⟨ta, hta, ht⟩ := bind_ok ht
    obtain ⟨x, hx, hv⟩ := bind_ok hv
    have ih := type_sound_expr Γ ρ env hE a ta x hta hx
    split at ht
    · have := pure_ok ht
      subst this
      simp only [evalNot] at hv
      cases ho : Tri.ofVal? x with
      | none => simp [ho] at hv
      | some tx =>
        simp only [ho, Except.ok.injEq] at hv
        subst hv
        exact okv_bool_nonnull_of _ _ (fun hn => not_nonu _ (ofVal_nonnull x tx ho (ih.2 hn)))
    · cases ht
  | .neg a, t, v, ht, hv => by
    simp only [typeOf] at ht
    simp only [eval] at hv
    obtain ⟨ta, hta, ht⟩ := bind_ok ht
    obtain ⟨x, hx, hv⟩ := bind_ok hv
    have ih := type_sound_expr Γ ρ env hE a ta x hta hx
    split at ht
    · have := pure_ok ht
      subst this
      cases x <;> simp [evalNeg] at hv
      · subst hv; exact ⟨hasTy_null _, fun hn => by simpa [Val.isNull] using ih.2 hn⟩
      · subst hv
        refine ⟨?_, fun _ => rfl⟩
        have := ih.1
        cases hta1 : ta.1 <;> simp_all [Val.hasTy]
    · cases ht
  | .is k n a, t, v, ht, hv => by
    simp only [typeOf] at ht
    simp only [eval] at hv
    obtain ⟨ta, hta, ht⟩ := bind_ok ht
    obtain ⟨x, hx, hv⟩ := bind_ok hv
    have hb : ∃ b, v = .bool b := by
      cases k <;> simp only [evalIs] at hv
      · simp only [Except.ok.injEq] at hv; exact ⟨_, hv.symm⟩
      all_goals
        cases ho : Tri.ofVal? x with
        | none => simp [ho] at hv
        | some tx => simp only [ho, Except.ok.injEq] at hv; exact ⟨_, hv.symm⟩
    obtain ⟨b, rfl⟩ := hb
    have htt : t = (.bool, false) := by
      cases k <;> simp only at ht
      · exact (pure_ok ht).symm
      all_goals
        split at ht
        · exact (pure_ok ht).symm
        · cases ht
    subst htt
    exact ⟨rfl, fun _ => rfl⟩
  | .inList n a l, t, v, ht, hv => by
    simp only [typeOf] at ht
    simp only [eval] at hv
    obtain ⟨ta, hta, ht⟩ := bind_ok ht
    obtain ⟨tl, htl, ht⟩ := bind_ok ht
    obtain ⟨x, hx, hv⟩ := bind_ok hv
    obtain ⟨vs, hvs, hv⟩ := bind_ok hv
    obtain ⟨r, hr, hv⟩ := bind_ok hv
    have := pure_ok ht
    subst this
    have ih := type_sound_expr Γ ρ env hE a ta x hta hx
    have ihl := type_sound_list Γ ρ env hE l ta.1 tl vs htl hvs
    have hnn : (ta.2 || tl.2) = false → r ≠ .u := by
      intro hn
      simp only [Bool.or_eq_false_iff] at hn
      exact inListTri_nonu x vs r hr (ih.2 hn.1) (ihl hn.2)
    have hv' := pure_ok hv
    subst hv'
    cases n
    · exact okv_bool_nonnull_of _ _ hnn
    · exact okv_bool_nonnull_of _ _ (fun hn => not_nonu _ (hnn hn))
  | .between n a lo hi, t, v, ht, hv => by
    simp only [typeOf] at ht
    simp only [eval] at hv
    obtain ⟨ta, hta, ht⟩ := bind_ok ht
    obtain ⟨tlo, htlo, ht⟩ := bind_ok ht
    obtain ⟨thi, hthi, ht⟩ := bind_ok ht
    obtain ⟨u1, hu1, ht⟩ := bind_ok ht
    obtain ⟨u2, hu2, ht⟩ := bind_ok ht
    have := pure_ok ht
    subst this
    obtain ⟨x, hx, hv⟩ := bind_ok hv
    obtain ⟨l, hl, hv⟩ := bind_ok hv
    obtain ⟨h, hh, hv⟩ := bind_ok hv
    obtain ⟨c1, hc1, hv⟩ := bind_ok hv
    obtain ⟨c2, hc2, hv⟩ := bind_ok hv
    obtain ⟨r, hr, hv⟩ := bind_ok hv
    have iha := type_sound_expr Γ ρ env hE a ta x hta hx
    have ihl := type_sound_expr Γ ρ env hE lo tlo l htlo hl
    have ihh := type_sound_expr Γ ρ env hE hi thi h hthi hh
    -- the two comparisons and their conjunction, typed with the same rules as `bin`
    have k1 : Okv c1 (.bool, ta.2 || tlo.2) :=
      typeBin_sound .ge ta tlo _ x l c1 (by simp [typeBin, hu1, bind, Except.bind, pure, Except.pure]) iha ihl hc1
    have hu3 : ∃ u3, unifyE ta.1 thi.1 = .ok u3 := by
      obtain ⟨u3, h3⟩ := unify_between ta.1 tlo.1 thi.1 u1 u2 ((unifyE_ok _ _ _).mp hu1) ((unifyE_ok _ _ _).mp hu2)
      exact ⟨u3, (unifyE_ok _ _ _).mpr h3⟩
    obtain ⟨u3, hu3⟩ := hu3
    have k2 : Okv c2 (.bool, ta.2 || thi.2) :=
      typeBin_sound .le ta thi _ x h c2 (by simp [typeBin, hu3, bind, Except.bind, pure, Except.pure]) iha ihh hc2
    have k3 : Okv r (.bool, (ta.2 || tlo.2) || (ta.2 || thi.2)) :=
      typeBin_sound .and (.bool, ta.2 || tlo.2) (.bool, ta.2 || thi.2) _ c1 c2 r (by simp [typeBin, isBoolTy, pure, Except.pure]) k1 k2 hr
    have hnn : (ta.2 || tlo.2 || thi.2) = false → ((ta.2 || tlo.2) || (ta.2 || thi.2)) = false := by
      cases ta.2 <;> cases tlo.2 <;> cases thi.2 <;> simp
    cases n
    · simp only [Bool.false_eq_true, if_false] at hv
      have := pure_ok hv
      subst this
      exact ⟨k3.1, fun hn => k3.2 (hnn hn)⟩
    · simp only [if_true] at hv
      simp only [evalNot] at hv
      cases ho : Tri.ofVal? r with
      | none => simp [ho] at hv
      | some tr =>
        simp only [ho, Except.ok.injEq] at hv
        subst hv
        exact okv_bool_nonnull_of _ _ (fun hn => not_nonu _ (ofVal_nonnull r tr ho (k3.2 (hnn hn))))
  | .case none ws none, t, v, ht, hv => by
    simp only [typeOf, pure_bind] at ht
    simp only [eval, pure_bind] at hv
    obtain ⟨tw, htw, ht⟩ := bind_ok ht
    obtain ⟨r, hr, hv⟩ := bind_ok hv
    have := pure_ok ht
    subst this
    have ihw := type_sound_whens Γ ρ env hE none none ws .null tw r htw hr
    cases r with
    | none => have := pure_ok hv; subst this; exact ⟨hasTy_null _, fun h => by cases h⟩
    | some x => have := pure_ok hv; subst this; exact ⟨(ihw.2 x rfl).1, fun h => by cases h⟩
  | .case none ws (some e), t, v, ht, hv => by
    simp only [typeOf, pure_bind] at ht
    simp only [eval, pure_bind] at hv
    obtain ⟨tw, htw, ht⟩ := bind_ok ht
    obtain ⟨te, hte, ht⟩ := bind_ok ht
    obtain ⟨u, hu, ht⟩ := bind_ok ht
    obtain ⟨r, hr, hv⟩ := bind_ok hv
    have := pure_ok ht
    subst this
    have hu' := (unifyE_ok _ _ _).mp hu
    have ihw := type_sound_whens Γ ρ env hE none none ws .null tw r htw hr
    cases r with
    | none =>
      have ihe := type_sound_expr Γ ρ env hE e te v hte hv
      refine ⟨hasTy_unify_right _ _ _ _ hu' ihe.1, fun hn => ?_⟩
      simp only [Bool.or_eq_false_iff] at hn
      exact ihe.2 hn.2
    | some x =>
      have := pure_ok hv
      subst this
      refine ⟨hasTy_unify_left _ _ _ _ hu' (ihw.2 x rfl).1, fun hn => ?_⟩
      simp only [Bool.or_eq_false_iff] at hn
      exact (ihw.2 x rfl).2 hn.1
  | .case (some o) ws none, t, v, ht, hv => by
    simp only [typeOf, bind_assoc, pure_bind] at ht
    simp only [eval, bind_assoc, pure_bind] at hv
    obtain ⟨to, hto, ht⟩ := bind_ok ht
    obtain ⟨tw, htw, ht⟩ := bind_ok ht
    obtain ⟨xo, hxo, hv⟩ := bind_ok hv
    obtain ⟨r, hr, hv⟩ := bind_ok hv
    have := pure_ok ht
    subst this
    have ihw := type_sound_whens Γ ρ env hE (some to.1) (some xo) ws .null tw r htw hr
    cases r with
    | none => have := pure_ok hv; subst this; exact ⟨hasTy_null _, fun h => by cases h⟩
    | some x => have := pure_ok hv; subst this; exact ⟨(ihw.2 x rfl).1, fun h => by cases h⟩
  | .case (some o) ws (some e), t, v, ht, hv => by
    simp only [typeOf, bind_assoc, pure_bind] at ht
    simp only [eval, bind_assoc, pure_bind] at hv
    obtain ⟨to, hto, ht⟩ := bind_ok ht
    obtain ⟨tw, htw, ht⟩ := bind_ok ht
    obtain ⟨te, hte, ht⟩ := bind_ok ht
    obtain ⟨u, hu, ht⟩ := bind_ok ht
    obtain ⟨xo, hxo, hv⟩ := bind_ok hv
    obtain ⟨r, hr, hv⟩ := bind_ok hv
    have := pure_ok ht
    subst this
    have hu' := (unifyE_ok _ _ _).mp hu
    have ihw := type_sound_whens Γ ρ env hE (some to.1) (some xo) ws .null tw r htw hr
    cases r with
    | none =>
      have ihe := type_sound_expr Γ ρ env hE e te v hte hv
      refine ⟨hasTy_unify_right _ _ _ _ hu' ihe.1, fun hn => ?_⟩
      simp only [Bool.or_eq_false_iff] at hn
      exact ihe.2 hn.2
    | some x =>
      have := pure_ok hv
      subst this
      refine ⟨hasTy_unify_left _ _ _ _ hu' (ihw.2 x rfl).1, fun hn => ?_⟩
      simp only [Bool.or_eq_false_iff] at hn
      exact (ihw.2 x rfl).2 hn.1
  | .coalesce l, t, v, ht, hv => by
    simp only [typeOf] at ht
    simp only [eval] at hv
    exact type_sound_coalesce Γ ρ env hE l t v ht hv
  | .nullif a b, t, v, ht, hv => by
    simp only [typeOf] at ht
    simp only [eval] at hv
    obtain ⟨ta, hta, ht⟩ := bind_ok ht
    obtain ⟨tb, htb, ht⟩ := bind_ok ht
    obtain ⟨u, hu, ht⟩ := bind_ok ht
    obtain ⟨x, hx, hv⟩ := bind_ok hv
    obtain ⟨y, hy, hv⟩ := bind_ok hv
    obtain ⟨q, hq, hv⟩ := bind_ok hv
    have := pure_ok ht
    subst this
    have ih := type_sound_expr Γ ρ env hE a ta x hta hx
    have := pure_ok hv
    subst this
    split
    · exact ⟨hasTy_null _, fun h => by cases h⟩
    · exact ⟨ih.1, fun h => by cases h⟩
  | .cast ty tr a, t, v, ht, hv => by
    simp only [typeOf] at ht
    simp only [eval] at hv
    obtain ⟨ta, hta, ht⟩ := bind_ok ht
    obtain ⟨x, hx, hv⟩ := bind_ok hv
    have := pure_ok ht
    subst this
    have ih := type_sound_expr Γ ρ env hE a ta x hta hx
    simp only [evalCast] at hv
    cases hc : castVal ty x with
    | error _ => simp [hc] at hv
    | ok r =>
      cases r with
      | none =>
        simp only [hc] at hv
        cases tr
        · simp at hv
        · simp only [if_true, Except.ok.injEq] at hv
          subst hv
          exact ⟨hasTy_null _, fun h => by simp at h⟩
      | some r =>
        simp only [hc, Except.ok.injEq] at hv
        subst hv
        obtain ⟨c1, c2⟩ := castVal_sound ty x r hc
        refine ⟨c1, fun hn => ?_⟩
        simp only [Bool.or_eq_false_iff] at hn
        exact c2 (ih.2 hn.2)
  | .like n ci a p esc, t, v, ht, hv => by
    simp only [typeOf] at ht
    simp only [eval] at hv
    obtain ⟨ta, hta, ht⟩ := bind_ok ht
    obtain ⟨tp, htp, ht⟩ := bind_ok ht
    obtain ⟨x, hx, hv⟩ := bind_ok hv
    obtain ⟨y, hy, hv⟩ := bind_ok hv
    have iha := type_sound_expr Γ ρ env hE a ta x hta hx
    have ihp := type_sound_expr Γ ρ env hE p tp y htp hy
    split at ht
    · have := pure_ok ht
      subst this
      refine ⟨?_, ?_⟩
      · cases x <;> cases y <;> simp [evalLike] at hv
        all_goals (subst hv; rfl)
      · intro hn
        simp only [Bool.or_eq_false_iff] at hn
        have hxn := iha.2 hn.1
        have hyn := ihp.2 hn.2
        cases x <;> cases y <;> simp [evalLike, Val.isNull] at hv hxn hyn ⊢
        subst hv; rfl
    · cases ht

/-- IN list items: when the list is declared free of NULLs, every item value is non-NULL -/
theorem type_sound_list (Γ : TEnv) (ρ : Row) (env : Env) (hE : EnvOk Γ ρ env) :
    (es : List Expr) → (t0 : Ty) → (t : Ty × Bool) → (vs : List Val) →
    typeList es Γ t0 = .ok t → evalList es ρ env = .ok vs → (t.2 = false → ∀ v ∈ vs, v.isNull = false)
  | [], t0, t, vs, ht, hv => by
    simp only [evalList, Except.ok.injEq] at hv
    subst hv
    intro _ v hvm
    cases hvm
  | e :: es, t0, t, vs, ht, hv => by
    simp only [typeList] at ht
    simp only [evalList] at hv
    obtain ⟨te, hte, ht⟩ := bind_ok ht
    obtain ⟨u, hu, ht⟩ := bind_ok ht
    obtain ⟨rest, hrest, ht⟩ := bind_ok ht
    obtain ⟨x, hx, hv⟩ := bind_ok hv
    obtain ⟨xs, hxs, hv⟩ := bind_ok hv
    have := pure_ok ht
    subst this
    have := pure_ok hv
    subst this
    intro hn v hvm
    simp only [Bool.or_eq_false_iff] at hn
    simp only [List.mem_cons] at hvm
    rcases hvm with rfl | hvm
    · exact (type_sound_expr Γ ρ env hE e te v hte hx).2 hn.1
    · exact type_sound_list Γ ρ env hE es u rest xs hrest hxs hn.2 v hvm

/-- CASE arms: the accumulated type only grows (`acc ≤ t`), and the value of the selected arm has the
    final type and is non-NULL when every THEN is declared NOT NULL -/
theorem type_sound_whens (Γ : TEnv) (ρ : Row) (env : Env) (hE : EnvOk Γ ρ env) (to : Option Ty) (xo : Option Val) :
    (ws : List (Expr × Expr)) → (acc : Ty) → (t : Ty × Bool) → (r : Option Val) →
    typeWhens to ws Γ acc = .ok t → evalWhens xo ws ρ env = .ok r →
    (∀ u : Val, u.hasTy acc = true → u.hasTy t.1 = true) ∧ (∀ x, r = some x → Okv x t)
  | [], acc, t, r, ht, hv => by
    simp only [typeWhens, Except.ok.injEq] at ht
    simp only [evalWhens, Except.ok.injEq] at hv
    subst ht hv
    exact ⟨fun _ h => h, fun x h => by cases h⟩
  | (w, thn) :: rest, acc, t, r, ht, hv => by
    simp only [typeWhens] at ht
    simp only [evalWhens] at hv
    obtain ⟨tw, htw, ht⟩ := bind_ok ht
    obtain ⟨_, _, ht⟩ := bind_ok ht
    obtain ⟨tt, htt, ht⟩ := bind_ok ht
    obtain ⟨acc', hacc, ht⟩ := bind_ok ht
    obtain ⟨rr, hrr, ht⟩ := bind_ok ht
    have := pure_ok ht
    subst this
    have hacc' := (unifyE_ok _ _ _).mp hacc
    obtain ⟨c, hc, hv⟩ := bind_ok hv
    have key : (∃ x, eval thn ρ env = .ok x ∧ r = some x) ∨ evalWhens xo rest ρ env = .ok r := by
      cases xo with
      | none =>
        simp only at hv
        cases ho : Tri.ofVal? c with
        | none => simp [ho, bind, Except.bind] at hv
        | some tx =>
          simp only [ho, pure_bind] at hv
          cases hh : (tx == Tri.t) with
          | true =>
            simp only [hh, if_true] at hv
            obtain ⟨x, hx, hv⟩ := bind_ok hv
            exact Or.inl ⟨x, hx, (pure_ok hv).symm⟩
          | false =>
            simp only [hh, Bool.false_eq_true, if_false] at hv
            exact Or.inr hv
      | some xv =>
        simp only at hv
        obtain ⟨q, hq, hv⟩ := bind_ok hv
        simp only [pure_bind] at hv
        cases hh : (q == Tri.t) with
        | true =>
          simp only [hh, if_true] at hv
          obtain ⟨x, hx, hv⟩ := bind_ok hv
          exact Or.inl ⟨x, hx, (pure_ok hv).symm⟩
        | false =>
          simp only [hh, Bool.false_eq_true, if_false] at hv
          exact Or.inr hv
    rcases key with ⟨x, hx, rfl⟩ | hrest
    · have ihx := type_sound_expr Γ ρ env hE thn tt x htt hx
      have grow : ∀ u : Val, u.hasTy acc' = true → u.hasTy rr.1 = true :=
        typeWhens_grows Γ to rest acc' rr hrr
      refine ⟨fun u h => grow u (hasTy_unify_left _ _ _ _ hacc' h), fun y hy => ?_⟩
      cases hy
      refine ⟨grow x (hasTy_unify_right _ _ _ _ hacc' ihx.1), fun hn => ?_⟩
      simp only [Bool.or_eq_false_iff] at hn
      exact ihx.2 hn.1
    · have ih := type_sound_whens Γ ρ env hE to xo rest acc' rr r hrr hrest
      refine ⟨fun u h => ih.1 u (hasTy_unify_left _ _ _ _ hacc' h), fun y hy => ?_⟩
      have := ih.2 y hy
      refine ⟨this.1, fun hn => ?_⟩
      simp only [Bool.or_eq_false_iff] at hn
      exact this.2 hn.2

/-- the accumulated CASE type only grows along the arms (a fact about typing alone) -/
theorem typeWhens_grows (Γ : TEnv) (to : Option Ty) :
    (ws : List (Expr × Expr)) → (acc : Ty) → (t : Ty × Bool) → typeWhens to ws Γ acc = .ok t →
    ∀ u : Val, u.hasTy acc = true → u.hasTy t.1 = true
  | [], acc, t, ht => by
    simp only [typeWhens, Except.ok.injEq] at ht
    subst ht
    exact fun _ h => h
  | (w, thn) :: rest, acc, t, ht => by
    simp only [typeWhens] at ht
    obtain ⟨tw, htw, ht⟩ := bind_ok ht
    obtain ⟨_, _, ht⟩ := bind_ok ht
    obtain ⟨tt, htt, ht⟩ := bind_ok ht
    obtain ⟨acc', hacc, ht⟩ := bind_ok ht
    obtain ⟨rr, hrr, ht⟩ := bind_ok ht
    have := pure_ok ht
    subst this
    have hacc' := (unifyE_ok _ _ _).mp hacc
    exact fun u h => typeWhens_grows Γ to rest acc' rr hrr u (hasTy_unify_left _ _ _ _ hacc' h)

/-- COALESCE -/
theorem type_sound_coalesce (Γ : TEnv) (ρ : Row) (env : Env) (hE : EnvOk Γ ρ env) :
    (es : List Expr) → (t : Ty × Bool) → (v : Val) →
    typeCoalesce es Γ = .ok t → evalCoalesce es ρ env = .ok v → Okv v t
  | [], t, v, ht, hv => by
    simp only [typeCoalesce, Except.ok.injEq] at ht
    simp only [evalCoalesce, Except.ok.injEq] at hv
    subst ht hv
    exact ⟨rfl, fun h => by cases h⟩
  | e :: es, t, v, ht, hv => by
    simp only [typeCoalesce] at ht
    simp only [evalCoalesce] at hv
    obtain ⟨te, hte, ht⟩ := bind_ok ht
    obtain ⟨r, hr, ht⟩ := bind_ok ht
    obtain ⟨u, hu, ht⟩ := bind_ok ht
    obtain ⟨x, hx, hv⟩ := bind_ok hv
    have := pure_ok ht
    subst this
    have hu' := (unifyE_ok _ _ _).mp hu
    have ihx := type_sound_expr Γ ρ env hE e te x hte hx
    cases hxn : x.isNull with
    | true =>
      simp only [hxn, if_true] at hv
      have ih := type_sound_coalesce Γ ρ env hE es r v hr hv
      refine ⟨hasTy_unify_right _ _ _ _ hu' ih.1, fun hn => ?_⟩
      simp only [Bool.and_eq_false_iff] at hn
      rcases hn with hn | hn
      · have := ihx.2 hn
        rw [hxn] at this
        cases this
      · exact ih.2 hn
    | false =>
      simp only [hxn, Bool.false_eq_true, if_false] at hv
      have := pure_ok hv
      subst this
      exact ⟨hasTy_unify_left _ _ _ _ hu' ihx.1, fun _ => hxn⟩
end

end DfModel.Proofs.C30
