/-
  Helper lemmas for C27 (partition prefix pruning). Core Lean only.
-/
import DfModel.Mech.PartPrune
import DfModel.Proofs.C25
namespace DfModel.Proofs.C27
open DfModel.Text.Percent DfModel.Text.Hive DfModel.Mech.PartPrune
open DfModel.Mech.Demux (Cell Ty)

/-- what the map built from the filters says about a row: every `Single` entry is the text of the row's value -/
def Forces (m : PMap) (row : Row) : Prop :=
  ∀ col s, pget m col = some (.single s) → render (row col) = s

theorem pget_pset (m : PMap) (k : Bytes) (v : PV) (k' : Bytes) :
    pget (pset m k v) k' = if k = k' then some v else pget m k' := by
  induction m with
  | nil => simp [pset, pget]
  | cons e rest ih =>
    obtain ⟨k0, v0⟩ := e
    simp only [pset]
    by_cases h0 : k0 = k
    · subst h0
      simp only [if_true, pget]
      by_cases h1 : k0 = k' <;> simp [h1]
    · simp only [h0, if_false, pget, ih]
      by_cases h1 : k0 = k'
      · subst h1
        have : ¬ k = k0 := fun h => h0 h.symm
        simp [this]
      · simp [h1]

theorem cmpCells_eq_true {a b : Cell} (h : cmpCells .eq a b = some true) : a = b := by
  cases a <;> cases b <;> simp [cmpCells] at h
  · rename_i x y; subst h; rfl
  · rename_i x y; subst h; rfl
  · rename_i x y; subst h; rfl

theorem pinsertEq_forces {m : PMap} {row : Row} {col : Bytes} {lit : Option Cell}
    (hrow : row col = lit) (hf : Forces m row) : Forces (pinsertEq m col lit) row := by
  intro c s hget
  unfold pinsertEq at hget
  cases hm : pget m col with
  | some pv =>
    rw [hm] at hget
    simp only [pget_pset] at hget
    by_cases hc : col = c
    · simp [hc] at hget
    · simp only [hc, if_false] at hget; exact hf c s hget
  | none =>
    rw [hm] at hget
    simp only [pget_pset] at hget
    by_cases hc : col = c
    · subst hc
      simp only [if_true, Option.some.injEq, PV.single.injEq] at hget
      rw [hrow]; exact hget
    · simp only [hc, if_false] at hget; exact hf c s hget

theorem and3_true {a b : Option Bool} (h : and3 a b = some true) : a = some true ∧ b = some true := by
  cases a with
  | none => cases b with
    | none => simp [and3] at h
    | some y => cases y <;> simp [and3] at h
  | some x => cases x <;> cases b with
    | none => simp [and3] at h
    | some y => cases y <;> simp [and3] at h ⊢

theorem populate_forces (row : Row) : ∀ (f : Filter) (m : PMap), evalF row f = some true →
    Forces m row → Forces (populate f m) row := by
  intro f
  induction f with
  | cmp op col lit =>
    intro m he hf
    cases op <;> try exact hf
    simp only [populate]
    simp only [evalF] at he
    cases hr : row col with
    | none => rw [hr] at he; simp at he
    | some a =>
      cases lit with
      | none => rw [hr] at he; simp at he
      | some b =>
        rw [hr] at he
        have := cmpCells_eq_true he
        subst this
        exact pinsertEq_forces hr hf
  | cmpR op lit col =>
    intro m he hf
    cases op <;> try exact hf
    simp only [populate]
    simp only [evalF] at he
    cases lit with
    | none => simp at he
    | some a =>
      cases hr : row col with
      | none => rw [hr] at he; simp at he
      | some b =>
        rw [hr] at he
        have := cmpCells_eq_true he
        subst this
        exact pinsertEq_forces hr hf
  | and l r ihl ihr =>
    intro m he hf
    simp only [evalF] at he
    obtain ⟨h1, h2⟩ := and3_true he
    exact ihr _ h2 (ihl _ h1 hf)
  | or l r _ _ => intro m _ hf; exact hf
  | not f _ => intro m _ hf; exact hf
  | isNull c => intro m _ hf; exact hf
  | isNotNull c => intro m _ hf; exact hf

theorem foldl_forces (row : Row) : ∀ (filters : List Filter) (m : PMap),
    (∀ f ∈ filters, evalF row f = some true) → Forces m row →
    Forces (filters.foldl (fun m f => populate f m) m) row := by
  intro filters
  induction filters with
  | nil => intro m _ hf; exact hf
  | cons f fs ih =>
    intro m h hf
    exact ih _ (fun g hg => h g (by simp [hg])) (populate_forces row f m (h f (by simp)) hf)

/-- path segments (below the table prefix) of a file written canonically for `row` -/
def canonSegs (names : List Bytes) (row : Row) (file : Bytes) : List Bytes :=
  names.map (fun c => buildSeg c (render (row c))) ++ [pathPart file]

theorem prefixParts_isPrefix {m : PMap} {row : Row} (hf : Forces m row) (rest : List Bytes) :
    ∀ (names : List Bytes),
      ((prefixParts m names).map pathPart).isPrefixOf
        (names.map (fun c => buildSeg c (render (row c))) ++ rest) = true := by
  intro names
  induction names with
  | nil => simp [prefixParts]
  | cons p ps ih =>
    simp only [prefixParts]
    cases hg : pget m p with
    | none => simp
    | some pv =>
      cases pv with
      | multi => simp
      | single v =>
        simp only
        split
        · rename_i henc
          have hv := hf p v hg
          simp only [List.map_cons, List.cons_append, List.isPrefixOf, henc, Bool.and_eq_true, beq_iff_eq]
          refine ⟨?_, ih⟩
          rw [hv]; rfl
        · simp

end DfModel.Proofs.C27
