/-
  C05 — chunk merging: processing a probe batch in any number of chunks emits the same bag as
  processing all of its candidates in one final chunk.  Core Lean only.
-/
import DfModel.Proofs.C05
namespace DfModel.Proofs.C05
open DfModel.Mech.Join DfModel.Mech.HashJoin
open List

theorem matchedOf_append (mk : MapKind) (c : Cfg) (C1 C2 : List Pair) :
    matchedOf mk c (C1 ++ C2) = matchedOf mk c C1 ++ matchedOf mk c C2 := by
  simp [matchedOf]

theorem probeIdxs_append (M1 M2 : List Pair) : probeIdxs (M1 ++ M2) = probeIdxs M1 ++ probeIdxs M2 := by
  simp [probeIdxs]

theorem probeIdxs_matched_sub (mk : MapKind) (c : Cfg) (C : List Pair) :
    ∀ x ∈ probeIdxs (matchedOf mk c C), ∃ p ∈ C, p.2.2 = x := by
  intro x hx
  simp only [probeIdxs, matchedOf, mem_map, mem_filter] at hx
  obtain ⟨p, ⟨hp, _⟩, rfl⟩ := hx
  exact ⟨p, hp, rfl⟩

theorem probeIdxs_sorted (mk : MapKind) (c : Cfg) (C : List Pair)
    (hs : C.Pairwise (fun a b => a.2.2 ≤ b.2.2)) :
    (probeIdxs (matchedOf mk c C)).Pairwise (· ≤ ·) := by
  unfold probeIdxs matchedOf
  rw [pairwise_map]
  exact hs.filter _

/-- the pointwise facts every join type needs -/
theorem merge_facts (mk : MapKind) (c : Cfg) (n : Nat) (j : Option Nat) (C1 C2 : List Pair)
    (hs : (C1 ++ C2).Pairwise (fun a b => a.2.2 ≤ b.2.2))
    (hj : ∀ v, j = some v → ∀ p ∈ C1 ++ C2, v ≤ p.2.2) (i : Nat) (hi : i < n) :
    (inRange (rangeStart j) (rangeEnd false n (lastJoined (matchedOf mk c C1))) i = true →
      (probeIdxs (matchedOf mk c C1) ++ probeIdxs (matchedOf mk c C2)).contains i =
        (probeIdxs (matchedOf mk c C1)).contains i) ∧
    (inRange (rangeStart (chunkJoined mk c j C1)) n i = true →
      (probeIdxs (matchedOf mk c C1) ++ probeIdxs (matchedOf mk c C2)).contains i =
        (probeIdxs (matchedOf mk c C2)).contains i) ∧
    ¬ (inRange (rangeStart j) (rangeEnd false n (lastJoined (matchedOf mk c C1))) i = true ∧
        inRange (rangeStart (chunkJoined mk c j C1)) n i = true) ∧
    inRange (rangeStart j) n i =
      (inRange (rangeStart j) (rangeEnd false n (lastJoined (matchedOf mk c C1))) i ||
        inRange (rangeStart (chunkJoined mk c j C1)) n i) := by
  have hsP : (probeIdxs (matchedOf mk c C1) ++ probeIdxs (matchedOf mk c C2)).Pairwise (· ≤ ·) := by
    have := probeIdxs_sorted mk c (C1 ++ C2) hs
    rwa [matchedOf_append, probeIdxs_append] at this
  have hjP : ∀ v, j = some v →
      ∀ x ∈ probeIdxs (matchedOf mk c C1) ++ probeIdxs (matchedOf mk c C2), v ≤ x := by
    intro v hv x hx
    have hx' : x ∈ probeIdxs (matchedOf mk c (C1 ++ C2)) := by
      rwa [matchedOf_append, probeIdxs_append]
    obtain ⟨p, hp, rfl⟩ := probeIdxs_matched_sub mk c _ x hx'
    exact hj v hv p hp
  have hf := range_facts j _ _ n i hsP hjP hi
  unfold chunkJoined
  rw [lastJoined_eq]
  obtain ⟨f1, f2, f3, f4⟩ := hf
  refine ⟨?_, ?_, f3, f4⟩
  · intro h
    have := f1 h
    rw [Bool.eq_iff_iff]
    simp only [contains_eq_mem, mem_append, decide_eq_true_eq] at this ⊢
    constructor
    · rintro (h | h)
      · exact h
      · exact this h
    · exact Or.inl
  · intro h
    have := f2 h
    rw [Bool.eq_iff_iff]
    simp only [contains_eq_mem, mem_append, decide_eq_true_eq, decide_eq_false_iff_not] at this ⊢
    constructor
    · rintro (h | h)
      · exact absurd h this
      · exact h
    · exact Or.inr

/-- two filters over adjacent alignment ranges combine into one -/
theorem filter_ranges_perm (Bi : List IRow) (n : Nat) (hn : ∀ r ∈ Bi, r.2 < n)
    (s0 e1 s1 : Nat) (g1 g2 g : IRow → Bool)
    (hdis : ∀ i, i < n → ¬ (inRange s0 e1 i = true ∧ inRange s1 n i = true))
    (hcov : ∀ i, i < n → inRange s0 n i = (inRange s0 e1 i || inRange s1 n i))
    (h1 : ∀ r ∈ Bi, inRange s0 e1 r.2 = true → g1 r = g r)
    (h2 : ∀ r ∈ Bi, inRange s1 n r.2 = true → g2 r = g r) :
    (Bi.filter fun r => inRange s0 e1 r.2 && g1 r) ++ (Bi.filter fun r => inRange s1 n r.2 && g2 r) ~
      Bi.filter fun r => inRange s0 n r.2 && g r := by
  refine (filter_or_perm Bi _ _ ?_).trans (Perm.of_eq (filter_congr ?_))
  · intro r hr ⟨ha, hb⟩
    simp only [Bool.and_eq_true] at ha hb
    exact hdis r.2 (hn r hr) ⟨ha.1, hb.1⟩
  · intro r hr
    rw [hcov r.2 (hn r hr)]
    have d := hdis r.2 (hn r hr)
    cases ha : inRange s0 e1 r.2 <;> cases hb : inRange s1 n r.2
    · simp
    · simp [h2 r hr hb]
    · simp [h1 r hr ha]
    · exact absurd ⟨ha, hb⟩ d

theorem merge_last (mk : MapKind) (c : Cfg) (Bi : List IRow) (n : Nat) (j : Option Nat)
    (C1 C2 : List Pair)
    (hs : (C1 ++ C2).Pairwise (fun a b => a.2.2 ≤ b.2.2))
    (hj : ∀ v, j = some v → ∀ p ∈ C1 ++ C2, v ≤ p.2.2)
    (hn : ∀ r ∈ Bi, r.2 < n) :
    chunkOut mk c Bi n false j C1 ++ chunkOut mk c Bi n true (chunkJoined mk c j C1) C2 ~
      chunkOut mk c Bi n true j (C1 ++ C2) := by
  have F := fun i hi => merge_facts mk c n j C1 C2 hs hj i hi
  simp only [chunkOut, matchedOf_append, adjust, probeIdxs_append]
  have hend : ∀ lj, rangeEnd true n lj = n := fun lj => by simp [rangeEnd]
  simp only [hend]
  generalize hM1 : matchedOf mk c C1 = M1 at F ⊢
  generalize hM2 : matchedOf mk c C2 = M2 at F ⊢
  generalize hs1 : rangeStart (chunkJoined mk c j C1) = s1 at F ⊢
  generalize he1 : rangeEnd false n (lastJoined M1) = e1 at F ⊢
  generalize hs0 : rangeStart j = s0 at F ⊢
  have hdis : ∀ i, i < n → ¬ (inRange s0 e1 i = true ∧ inRange s1 n i = true) := fun i hi => (F i hi).2.2.1
  have hcov : ∀ i, i < n → inRange s0 n i = (inRange s0 e1 i || inRange s1 n i) := fun i hi => (F i hi).2.2.2
  have hh1 : ∀ r ∈ Bi, inRange s0 e1 r.2 = true →
      (probeIdxs M1 ++ probeIdxs M2).contains r.2 = (probeIdxs M1).contains r.2 :=
    fun r hr h => (F r.2 (hn r hr)).1 h
  have hh2 : ∀ r ∈ Bi, inRange s1 n r.2 = true →
      (probeIdxs M1 ++ probeIdxs M2).contains r.2 = (probeIdxs M2).contains r.2 :=
    fun r hr h => (F r.2 (hn r hr)).2.1 h
  cases hjt : c.jt <;> simp only []
  case inner => simp
  case left => simp
  case leftSemi => simp
  case leftAnti => simp
  case leftMark => simp
  case right =>
    rw [map_append]
    have := (filter_ranges_perm Bi n hn s0 e1 s1 _ _
      (fun r => !(probeIdxs M1 ++ probeIdxs M2).contains r.2) hdis hcov
      (fun r hr h => by rw [hh1 r hr h]) (fun r hr h => by rw [hh2 r hr h])).map
      (fun r => nulls c.wl ++ r.1)
    rw [map_append] at this
    refine Perm.trans ?_ (Perm.append_left _ this)
    simp only [append_assoc]
    refine Perm.append_left _ ?_
    rw [← append_assoc, ← append_assoc]
    exact Perm.append_right _ perm_append_comm
  case full =>
    rw [map_append]
    have := (filter_ranges_perm Bi n hn s0 e1 s1 _ _
      (fun r => !(probeIdxs M1 ++ probeIdxs M2).contains r.2) hdis hcov
      (fun r hr h => by rw [hh1 r hr h]) (fun r hr h => by rw [hh2 r hr h])).map
      (fun r => nulls c.wl ++ r.1)
    rw [map_append] at this
    refine Perm.trans ?_ (Perm.append_left _ this)
    simp only [append_assoc]
    refine Perm.append_left _ ?_
    rw [← append_assoc, ← append_assoc]
    exact Perm.append_right _ perm_append_comm
  case rightSemi =>
    have := (filter_ranges_perm Bi n hn s0 e1 s1 _ _
      (fun r => (probeIdxs M1 ++ probeIdxs M2).contains r.2) hdis hcov
      (fun r hr h => by rw [hh1 r hr h]) (fun r hr h => by rw [hh2 r hr h])).map (·.1)
    rw [map_append] at this
    exact this
  case rightAnti =>
    have := (filter_ranges_perm Bi n hn s0 e1 s1 _ _
      (fun r => !(probeIdxs M1 ++ probeIdxs M2).contains r.2) hdis hcov
      (fun r hr h => by rw [hh1 r hr h]) (fun r hr h => by rw [hh2 r hr h])).map (·.1)
    rw [map_append] at this
    exact this
  case rightMark =>
    have hp := (filter_ranges_perm Bi n hn s0 e1 s1 (fun _ => true) (fun _ => true) (fun _ => true)
      hdis hcov (fun _ _ _ => rfl) (fun _ _ _ => rfl)).map
      (fun r => r.1 ++ [markVal ((probeIdxs M1 ++ probeIdxs M2).contains r.2)])
    simp only [Bool.and_true, map_append] at hp
    refine Perm.trans (Perm.of_eq ?_) hp
    congr 1
    · apply map_congr_left
      intro r hr
      rw [mem_filter] at hr
      rw [hh1 r hr.1 hr.2]
    · apply map_congr_left
      intro r hr
      rw [mem_filter] at hr
      rw [hh2 r hr.1 hr.2]

end DfModel.Proofs.C05
