/-
  C19 — helper lemmas: the one-pass release computation against its inductive specification, and the
  budget arithmetic.  Core Lean only.
-/
import DfModel.Sm.Own
namespace DfModel.Proofs.C19
open DfModel.Sm.Own

/-- specification of release: the dropped root, and every node that has owners all of which are released -/
inductive Released (f : Forest) (r : Nat) : Nat → Prop where
  | root : r < f.length → Released f r r
  | owned (i : Nat) (os : List Nat) : f[i]? = some os → os ≠ [] → (∀ p ∈ os, Released f r p) → Released f r i

theorem releasedGo_length (r : Nat) (rest : List (List Nat)) (i : Nat) (acc : List Bool) :
    (releasedGo r rest i acc).length = acc.length + rest.length := by
  induction rest generalizing i acc with
  | nil => simp [releasedGo]
  | cons os rest ih => simp only [releasedGo, ih, List.length_append, List.length_cons, List.length_nil]; omega

theorem releasedGo_prefix (r : Nat) (rest : List (List Nat)) (i : Nat) (acc : List Bool) (k : Nat)
    (hk : k < acc.length) : (releasedGo r rest i acc).getD k false = acc.getD k false := by
  induction rest generalizing i acc with
  | nil => simp [releasedGo]
  | cons os rest ih =>
    simp only [releasedGo]
    rw [ih _ _ (by simp only [List.length_append, List.length_cons, List.length_nil]; omega)]
    simp only [List.getD_eq_getElem?_getD]
    rw [List.getElem?_append_left hk]

/-- the value the pass computes for node `pre.length` -/
theorem releasedGo_at (r : Nat) (pre : List (List Nat)) (os : List Nat) (rest : List (List Nat)) (acc : List Bool)
    (hacc : acc.length = pre.length) :
    (releasedGo r (os :: rest) pre.length acc).getD pre.length false
      = ((pre.length == r) || (!os.isEmpty && os.all (fun p => acc.getD p false))) := by
  simp only [releasedGo]
  rw [releasedGo_prefix _ _ _ _ _ (by simp only [List.length_append, List.length_cons, List.length_nil]; omega)]
  simp only [List.getD_eq_getElem?_getD]
  rw [List.getElem?_append_right (by omega)]
  simp [hacc]

/-- generalised pass invariant: after processing a prefix, the computed bits are correct for it -/
theorem releasedGo_spec (r : Nat) (f : Forest) (hwf : wellFormed f = true) :
    ∀ (pre rest : List (List Nat)) (acc : List Bool), f = pre ++ rest → acc.length = pre.length →
      (∀ k, k < pre.length → (acc.getD k false = true ↔ Released f r k)) →
      ∀ k, k < f.length → ((releasedGo r rest pre.length acc).getD k false = true ↔ Released f r k) := by
  intro pre rest
  induction rest generalizing pre with
  | nil =>
    intro acc hf hlen hacc k hk
    simp only [releasedGo]
    exact hacc k (by simpa [hf] using hk)
  | cons os rest ih =>
    intro acc hf hlen hacc k hk
    simp only [releasedGo]
    have hstep := ih (pre ++ [os]) (acc ++ [((pre.length == r) || (!os.isEmpty && os.all (fun p => acc.getD p false)))])
      (by simp [hf]) (by simp [hlen]) ?_ k hk
    · simpa using hstep
    · intro j hj
      simp only [List.length_append, List.length_cons, List.length_nil] at hj
      by_cases hjl : j < pre.length
      · have : (acc ++ [((pre.length == r) || (!os.isEmpty && os.all (fun p => acc.getD p false)))]).getD j false
            = acc.getD j false := by
          simp only [List.getD_eq_getElem?_getD]; rw [List.getElem?_append_left (by omega)]
        rw [this]; exact hacc j hjl
      · have hje : j = pre.length := by omega
        subst hje
        have hfi : f[pre.length]? = some os := by simp [hf]
        have hown : ∀ p ∈ os, p < pre.length := by
          have := hwf
          simp only [wellFormed, List.all_eq_true, List.mem_range, decide_eq_true_eq] at this
          have h2 := this pre.length (by simp [hf])
          intro p hp
          have : f.getD pre.length [] = os := by simp [List.getD_eq_getElem?_getD, hfi]
          rw [this] at h2
          exact h2 p hp
        have hval : (acc ++ [((pre.length == r) || (!os.isEmpty && os.all (fun p => acc.getD p false)))]).getD pre.length false
            = ((pre.length == r) || (!os.isEmpty && os.all (fun p => acc.getD p false))) := by
          simp only [List.getD_eq_getElem?_getD]; rw [List.getElem?_append_right (by omega)]; simp [hlen]
        rw [hval]
        constructor
        · intro h
          simp only [Bool.or_eq_true, beq_iff_eq, Bool.and_eq_true, Bool.not_eq_true', List.isEmpty_eq_false_iff,
            List.all_eq_true] at h
          rcases h with h | ⟨hne, hall⟩
          · subst h; exact Released.root (by simp [hf])
          · exact Released.owned _ os hfi hne (fun p hp => (hacc p (hown p hp)).mp (hall p hp))
        · intro h
          cases h with
          | root _ => simp
          | owned _ os' hfi' hne' hall' =>
            rw [hfi] at hfi'; cases hfi'
            simp only [Bool.or_eq_true, beq_iff_eq, Bool.and_eq_true, Bool.not_eq_true', List.isEmpty_eq_false_iff,
              List.all_eq_true]
            exact Or.inr ⟨hne', fun p hp => (hacc p (hown p hp)).mpr (hall' p hp)⟩

theorem poll_budget_le (v : Variant) (y b : Nat) (i : Bool) (h : b ≤ y) : (poll v y b i).1 ≤ y := by
  unfold poll
  cases v <;> split <;> (try split) <;> simp <;> omega

/-- from budget `b`, among the next `b + 1` polls one returns `Pending` -/
theorem pending_within (v : Variant) (y : Nat) (b : Nat) (ins : List Bool) (h : b + 1 ≤ ins.length) :
    ∃ j, j ≤ b ∧ (polls v y b ins)[j]? = some .pending := by
  induction b generalizing ins with
  | zero =>
    cases ins with
    | nil => simp at h
    | cons i is => exact ⟨0, Nat.le_refl _, by simp [polls, poll]⟩
  | succ b ih =>
    cases ins with
    | nil => simp at h
    | cons i is =>
      cases i with
      | false => exact ⟨0, by omega, by cases v <;> simp [polls, poll]⟩
      | true =>
        have hp : poll v y (b + 1) true = (b, .ready) := by simp [poll]
        obtain ⟨j, hj, hjp⟩ := ih is (by simp only [List.length_cons] at h; omega)
        exact ⟨j + 1, by omega, by simp [polls, hp, hjp]⟩

theorem polls_drop (v : Variant) (y : Nat) (b : Nat) (ins : List Bool) (k : Nat) :
    ∃ b', (b ≤ y → b' ≤ y) ∧ (polls v y b ins).drop k = polls v y b' (ins.drop k) := by
  induction k generalizing b ins with
  | zero => exact ⟨b, id, rfl⟩
  | succ k ih =>
    cases ins with
    | nil => exact ⟨b, id, by simp [polls]⟩
    | cons i is =>
      obtain ⟨b', hb', hd⟩ := ih (poll v y b i).1 is
      exact ⟨b', fun h => hb' (poll_budget_le v y b i h), by simpa [polls] using hd⟩

theorem covered_wrap (under : Bool) (n : Node) (h : covered true n = true) : covered under (wrap n) = true := by
  simp [wrap, covered, ctx, h]

end DfModel.Proofs.C19
