/-
  Helper lemmas for C15 (distribution channels, coarse model). Core Lean only.
-/
import DfModel.Sm.Chan
namespace DfModel.Proofs.C15
open DfModel.Sm.Chan
set_option linter.unusedSectionVars false

@[simp] theorem ite_ite_same' {α : Type} (p : Prop) [Decidable p] (a b d : α) :
    (if p then a else if p then b else d) = if p then a else d := by
  split <;> simp [*]

/-! ### counting open-and-empty channels -/

theorem countOE_le (f : Nat → Chan) (n : Nat) : countOE f n ≤ n := by
  induction n with
  | zero => simp [countOE]
  | succ k ih => simp only [countOE]; split <;> omega

theorem countOE_congr (f g : Nat → Chan) (n : Nat)
    (h : ∀ i, i < n → openEmpty (f i) = openEmpty (g i)) : countOE f n = countOE g n := by
  induction n with
  | zero => rfl
  | succ k ih =>
    simp only [countOE]
    rw [ih (fun i hi => h i (by omega)), h k (by omega)]

theorem countOE_upd_ge (f : Nat → Chan) (c : Nat) (x : Chan) (n : Nat) (hc : n ≤ c) :
    countOE (fun i => if i = c then x else f i) n = countOE f n := by
  apply countOE_congr
  intro i hi
  have : ¬ i = c := by omega
  simp [this]

/-- point update: the count moves by the difference of the indicator at `c` -/
theorem countOE_upd (f : Nat → Chan) (c : Nat) (x : Chan) (n : Nat) (hc : c < n) :
    countOE (fun i => if i = c then x else f i) n + (if openEmpty (f c) then 1 else 0)
      = countOE f n + (if openEmpty x then 1 else 0) := by
  induction n with
  | zero => omega
  | succ k ih =>
    simp only [countOE]
    by_cases hk : c = k
    · subst hk
      rw [countOE_upd_ge f c x c (Nat.le_refl _)]
      simp only [if_true]
      omega
    · have hc' : c < k := by omega
      have := ih hc'
      have hk' : ¬ k = c := fun e => hk e.symm
      simp only [hk', if_false]
      omega

theorem countOE_pos_of (f : Nat → Chan) (n c : Nat) (hc : c < n) (h : openEmpty (f c) = true) :
    0 < countOE f n := by
  induction n with
  | zero => omega
  | succ k ih =>
    simp only [countOE]
    by_cases hk : c = k
    · subst hk; simp [h]
    · have := ih (by omega); omega

theorem countOE_zero (f : Nat → Chan) (n : Nat) (h : countOE f n = 0) (c : Nat) (hc : c < n) :
    openEmpty (f c) = false := by
  cases ho : openEmpty (f c) with
  | false => rfl
  | true => have := countOE_pos_of f n c hc ho; omega

theorem countOE_zero_of (f : Nat → Chan) (n : Nat) (h : ∀ c, c < n → openEmpty (f c) = false) :
    countOE f n = 0 := by
  induction n with
  | zero => rfl
  | succ k ih =>
    simp only [countOE, h k (by omega)]
    have := ih (fun c hc => h c (by omega))
    simp [this]

/-! ### the core invariant (channels + gate) -/

structure InvC (s : St) : Prop where
  nle : s.n ≤ usizeMax
  /-- `empty_channels` = number of channels that are open at both ends and empty -/
  cnt : s.empty = countOE s.chan s.n
  /-- gate closed (`send_wakers = Some`) only when the counter is 0 … -/
  gateClosed : s.sendWakers ≠ none → s.empty = 0
  /-- … and whenever it is 0 (if there is any channel at all) -/
  gateOpen : s.sendWakers = none → 0 < s.empty ∨ s.n = 0
  /-- without channels the gate is never closed -/
  gateN : s.sendWakers ≠ none → 0 < s.n
  /-- `recv_wakers` is `None` exactly when no sender handle is left -/
  tx : ∀ c, c < s.n → ((s.chan c).nSenders = 0 ↔ (s.chan c).recvWakers = none)

theorem invC_init (n : Nat) (hn : n ≤ usizeMax) : InvC (init n) := by
  refine ⟨hn, ?_, ?_, ?_, ?_, ?_⟩
  · simp only [init]
    induction n with
    | zero => rfl
    | succ k ih =>
      have := ih (by omega)
      simp [countOE, openEmpty] at *
      omega
  · simp [init]
  · intro _; simp only [init]; omega
  · simp [init]
  · intro c _; simp [init]

@[simp] theorem setChan_n (s : St) (c : Nat) (x : Chan) : (setChan s c x).n = s.n := rfl
@[simp] theorem setChan_empty (s : St) (c : Nat) (x : Chan) : (setChan s c x).empty = s.empty := rfl
@[simp] theorem setChan_sw (s : St) (c : Nat) (x : Chan) : (setChan s c x).sendWakers = s.sendWakers := rfl
@[simp] theorem setChan_blk (s : St) (c : Nat) (x : Chan) : (setChan s c x).blk = s.blk := rfl
@[simp] theorem setChan_woken (s : St) (c : Nat) (x : Chan) : (setChan s c x).woken = s.woken := rfl
@[simp] theorem setChan_chan_same (s : St) (c : Nat) (x : Chan) : (setChan s c x).chan c = x := by
  simp [setChan]
theorem setChan_chan_ne (s : St) (c i : Nat) (x : Chan) (h : i ≠ c) : (setChan s c x).chan i = s.chan i := by
  simp [setChan, h]
theorem setChan_chan (s : St) (c i : Nat) (x : Chan) :
    (setChan s c x).chan i = if i = c then x else s.chan i := rfl

@[simp] theorem wakeAll_n (s : St) (ts : List Nat) : (wakeAll s ts).n = s.n := rfl
@[simp] theorem wakeAll_chan (s : St) (ts : List Nat) : (wakeAll s ts).chan = s.chan := rfl
@[simp] theorem wakeAll_empty (s : St) (ts : List Nat) : (wakeAll s ts).empty = s.empty := rfl
@[simp] theorem wakeAll_sw (s : St) (ts : List Nat) : (wakeAll s ts).sendWakers = s.sendWakers := rfl
@[simp] theorem wakeAll_blk (s : St) (ts : List Nat) : (wakeAll s ts).blk = s.blk := rfl
theorem wakeAll_woken (s : St) (ts : List Nat) (x : Nat) :
    (wakeAll s ts).woken x = (ts.contains x || s.woken x) := rfl

@[simp] theorem pollBegin_n (s : St) (t : Nat) : (pollBegin s t).n = s.n := rfl
@[simp] theorem pollBegin_chan (s : St) (t : Nat) : (pollBegin s t).chan = s.chan := rfl
@[simp] theorem pollBegin_empty (s : St) (t : Nat) : (pollBegin s t).empty = s.empty := rfl
@[simp] theorem pollBegin_sw (s : St) (t : Nat) : (pollBegin s t).sendWakers = s.sendWakers := rfl
@[simp] theorem pollBegin_blk (s : St) (t : Nat) : (pollBegin s t).blk = s.blk := rfl
theorem pollBegin_woken (s : St) (t x : Nat) :
    (pollBegin s t).woken x = if x = t then false else s.woken x := rfl

@[simp] theorem setBlk_n (s : St) (t : Nat) (b : Option Blk) : (setBlk s t b).n = s.n := rfl
@[simp] theorem setBlk_chan (s : St) (t : Nat) (b : Option Blk) : (setBlk s t b).chan = s.chan := rfl
@[simp] theorem setBlk_empty (s : St) (t : Nat) (b : Option Blk) : (setBlk s t b).empty = s.empty := rfl
@[simp] theorem setBlk_sw (s : St) (t : Nat) (b : Option Blk) : (setBlk s t b).sendWakers = s.sendWakers := rfl
@[simp] theorem setBlk_woken (s : St) (t : Nat) (b : Option Blk) : (setBlk s t b).woken = s.woken := rfl
theorem setBlk_blk (s : St) (t x : Nat) (b : Option Blk) :
    (setBlk s t b).blk x = if x = t then b else s.blk x := rfl

@[simp] theorem clearBlk_n (s : St) (b : Blk) : (clearBlk s b).n = s.n := rfl
@[simp] theorem clearBlk_chan (s : St) (b : Blk) : (clearBlk s b).chan = s.chan := rfl
@[simp] theorem clearBlk_empty (s : St) (b : Blk) : (clearBlk s b).empty = s.empty := rfl
@[simp] theorem clearBlk_sw (s : St) (b : Blk) : (clearBlk s b).sendWakers = s.sendWakers := rfl
@[simp] theorem clearBlk_woken (s : St) (b : Blk) : (clearBlk s b).woken = s.woken := rfl
theorem clearBlk_blk (s : St) (b : Blk) (x : Nat) :
    (clearBlk s b).blk x = if s.blk x = some b then none else s.blk x := rfl

/-- `InvC` only reads the core fields -/
theorem InvC.of_core {s s' : St} (h : InvC s) (hn : s'.n = s.n) (hc : s'.chan = s.chan)
    (he : s'.empty = s.empty) (hs : s'.sendWakers = s.sendWakers) : InvC s' := by
  refine ⟨?_, ?_, ?_, ?_, ?_, ?_⟩
  · rw [hn]; exact h.nle
  · rw [he, hc, hn]; exact h.cnt
  · rw [hs, he]; exact h.gateClosed
  · rw [hs, he, hn]; exact h.gateOpen
  · rw [hs, hn]; exact h.gateN
  · rw [hn, hc]; exact h.tx

/-- under the invariant, decrementing a positive counter never wraps and closes the gate exactly
    when it reaches zero -/
theorem decrEmpty_eq (s : St) (h1 : 1 ≤ s.empty) (h2 : s.sendWakers = none) :
    decrEmpty s = { s with empty := s.empty - 1,
                           sendWakers := if s.empty = 1 then some [] else none } := by
  unfold decrEmpty wrapDec
  have h0 : ¬ s.empty = 0 := by omega
  by_cases h : s.empty = 1
  · simp [h, h2]
  · simp [h, h0, h2]

@[simp] theorem decrEmpty_n (s : St) : (decrEmpty s).n = s.n := by
  unfold decrEmpty; simp only; split
  · split <;> rfl
  · rfl
@[simp] theorem decrEmpty_chan (s : St) : (decrEmpty s).chan = s.chan := by
  unfold decrEmpty; simp only; split
  · split <;> rfl
  · rfl
@[simp] theorem decrEmpty_blk (s : St) : (decrEmpty s).blk = s.blk := by
  unfold decrEmpty; simp only; split
  · split <;> rfl
  · rfl
@[simp] theorem decrEmpty_woken (s : St) : (decrEmpty s).woken = s.woken := by
  unfold decrEmpty; simp only; split
  · split <;> rfl
  · rfl

theorem openEmpty_iff (ch : Chan) :
    openEmpty ch = true ↔ ch.data = some [] ∧ ch.recvWakers ≠ none := by
  unfold openEmpty
  split
  · rename_i h1 h2; simp [h1, h2]
  · rename_i h
    constructor
    · intro h'; cases h'
    · intro ⟨h1, h2⟩
      cases hw : ch.recvWakers with
      | none => exact absurd hw h2
      | some ws => exact absurd hw (h ws h1)

theorem openEmpty_false_iff (ch : Chan) :
    openEmpty ch = false ↔ ¬ (ch.data = some [] ∧ ch.recvWakers ≠ none) := by
  rw [← openEmpty_iff]; cases openEmpty ch <;> simp

theorem usizeMax_pos : 0 < usizeMax := by unfold usizeMax; omega

/-- a non-open-empty channel leaves room in the counter, so `fetch_add` never wraps -/
theorem countOE_lt (f : Nat → Chan) (n c : Nat) (hc : c < n) (h : openEmpty (f c) = false) :
    countOE f n < n := by
  have h1 := countOE_upd f c ⟨1, some [], some []⟩ n hc
  have h2 := countOE_le (fun i => if i = c then ⟨1, some [], some []⟩ else f i) n
  have h3 : openEmpty (⟨1, some [], some []⟩ : Chan) = true := rfl
  simp only [h, h3] at h1
  simp at h1
  omega

/-! ### clean semantics of every branch, under the core invariant -/

section spec
variable {s : St} (hI : InvC s) {c : Nat} (hc : c < s.n)
include hI hc

theorem sw_none_of_pos (h : 0 < s.empty) : s.sendWakers = none := by
  cases hs : s.sendWakers with
  | none => rfl
  | some l => have := hI.gateClosed (by simp [hs]); omega

theorem sw_some_of_zero (h : s.empty = 0) : ∃ l, s.sendWakers = some l := by
  cases hs : s.sendWakers with
  | none => rcases hI.gateOpen hs with h' | h' <;> omega
  | some l => exact ⟨l, rfl⟩

theorem rw_some_of_tx (h : 0 < (s.chan c).nSenders) : ∃ ws, (s.chan c).recvWakers = some ws := by
  cases hw : (s.chan c).recvWakers with
  | none => have := (hI.tx c hc).mpr hw; omega
  | some ws => exact ⟨ws, rfl⟩

theorem empty_pos_of_openEmpty (h : openEmpty (s.chan c) = true) : 0 < s.empty := by
  rw [hI.cnt]; exact countOE_pos_of _ _ c hc h

theorem pollSend_err (t v : Nat) (hd : (s.chan c).data = none) :
    pollSend s c t v = (s, ⟨.sendErr, []⟩) := by
  simp [pollSend, hd]

theorem pollSend_pending (t v : Nat) (q : List Nat) (hd : (s.chan c).data = some q)
    (l : List (Nat × Nat)) (he : s.empty = 0) (hs : s.sendWakers = some l) :
    pollSend s c t v = ({ s with sendWakers := some (l ++ [(t, c)]) }, ⟨.sendPending, []⟩) := by
  simp [pollSend, hd, he, hs]

theorem pollSend_ok_empty (t v : Nat) (hd : (s.chan c).data = some [])
    (ws : List Nat) (hw : (s.chan c).recvWakers = some ws) :
    pollSend s c t v =
      (wakeAll { setChan s c { s.chan c with data := some [v], recvWakers := some [] } with
                 empty := s.empty - 1,
                 sendWakers := if s.empty = 1 then some [] else none } ws, ⟨.sendOk, ws⟩) := by
  have hoe : openEmpty (s.chan c) = true := by rw [openEmpty_iff]; simp [hd, hw]
  have hpos := empty_pos_of_openEmpty hI hc hoe
  have hsw := sw_none_of_pos hI hc hpos
  have hne : ¬ s.empty = 0 := by omega
  simp only [pollSend, hd, hne, if_false, pushSend, List.isEmpty_nil, if_true, hw, List.nil_append]
  rw [decrEmpty_eq _ (by show 1 ≤ s.empty; omega) (by show s.sendWakers = none; exact hsw)]
  simp [setChan]
  rfl

theorem pollSend_ok_nonempty (t v a : Nat) (q : List Nat) (hd : (s.chan c).data = some (a :: q))
    (he : 0 < s.empty) :
    pollSend s c t v =
      (setChan s c { s.chan c with data := some (a :: q ++ [v]) }, ⟨.sendOk, []⟩) := by
  have hne : ¬ s.empty = 0 := by omega
  simp [pollSend, hd, hne, pushSend]

theorem pollRecv_pending (t : Nat) (hd : (s.chan c).data = some [])
    (ws : List Nat) (hw : (s.chan c).recvWakers = some ws) :
    pollRecv s c t =
      (setChan s c { s.chan c with recvWakers := some (ws ++ [t]) }, ⟨.recvPending, []⟩) := by
  simp [pollRecv, hd, hw]

theorem pollRecv_eos (t : Nat) (hd : (s.chan c).data = some [])
    (hw : (s.chan c).recvWakers = none) :
    pollRecv s c t = (s, ⟨.recvNone, []⟩) := by
  simp [pollRecv, hd, hw]

theorem pollRecv_plain (t v : Nat) (q : List Nat) (hd : (s.chan c).data = some (v :: q))
    (h : q ≠ [] ∨ (s.chan c).recvWakers = none) :
    pollRecv s c t = (setChan s c { s.chan c with data := some q }, ⟨.recvSome v, []⟩) := by
  have : ¬ (q.isEmpty = true ∧ (s.chan c).recvWakers.isSome = true) := by
    rcases h with h | h
    · simp [h]
    · simp [h]
  simp only [pollRecv, hd, this, if_false]

theorem pollRecv_last_open (t v : Nat) (hd : (s.chan c).data = some [v])
    (ws : List Nat) (hw : (s.chan c).recvWakers = some ws) (he : 0 < s.empty) :
    pollRecv s c t =
      ({ setChan s c { s.chan c with data := some [] } with empty := s.empty + 1 },
       ⟨.recvSome v, []⟩) := by
  have hoe : openEmpty (s.chan c) = false := by rw [openEmpty_false_iff]; simp [hd]
  have hlt := countOE_lt s.chan s.n c hc hoe
  have hle := hI.nle
  have hcnt := hI.cnt
  have h1 : ¬ s.empty = usizeMax := by omega
  have h0 : ¬ s.empty = 0 := by omega
  simp [pollRecv, hd, hw, wrapInc, h1, h0]

theorem pollRecv_last_closed (t v : Nat) (hd : (s.chan c).data = some [v])
    (ws : List Nat) (hw : (s.chan c).recvWakers = some ws)
    (l : List (Nat × Nat)) (he : s.empty = 0) (hs : s.sendWakers = some l) :
    pollRecv s c t =
      (wakeAll { setChan s c { s.chan c with data := some [] } with empty := 1, sendWakers := none }
         (l.map (·.1)), ⟨.recvSome v, l.map (·.1)⟩) := by
  have h1 : ¬ (0 = usizeMax) := by have := usizeMax_pos; omega
  simp [pollRecv, hd, hw, wrapInc, he, h1, hs]

theorem dropSender_notlast (h : 1 < (s.chan c).nSenders) :
    dropSender s c =
      (setChan s c { s.chan c with nSenders := (s.chan c).nSenders - 1 }, ⟨.done, []⟩) := by
  simp [dropSender, h]

theorem dropSender_last_empty (h : (s.chan c).nSenders = 1) (hd : (s.chan c).data = some [])
    (ws : List Nat) (hw : (s.chan c).recvWakers = some ws) :
    dropSender s c =
      (wakeAll (clearBlk { setChan s c { s.chan c with nSenders := 0, recvWakers := none } with
                 empty := s.empty - 1,
                 sendWakers := if s.empty = 1 then some [] else none } (.send c)) ws,
       ⟨.done, ws⟩) := by
  have hoe : openEmpty (s.chan c) = true := by rw [openEmpty_iff]; simp [hd, hw]
  have hpos := empty_pos_of_openEmpty hI hc hoe
  have hsw := sw_none_of_pos hI hc hpos
  simp only [dropSender, h, Nat.lt_irrefl, if_false, hd, if_true, hw]
  rw [decrEmpty_eq _ (by show 1 ≤ s.empty; omega) (by show s.sendWakers = none; exact hsw)]
  simp [setChan]

theorem dropSender_last_nonempty (h : (s.chan c).nSenders = 1) (hd : (s.chan c).data ≠ some [])
    (ws : List Nat) (hw : (s.chan c).recvWakers = some ws) :
    dropSender s c =
      (wakeAll (clearBlk (setChan s c { s.chan c with nSenders := 0, recvWakers := none })
         (.send c)) ws, ⟨.done, ws⟩) := by
  simp [dropSender, h, hd, hw, setChan]

theorem dropReceiver_open_empty (h : 0 < (s.chan c).nSenders) (hd : (s.chan c).data = some []) :
    dropReceiver s c [] =
      (clearBlk { setChan s c { s.chan c with data := none } with
                  empty := s.empty - 1,
                  sendWakers := if s.empty = 1 then some [] else none } (.recv c),
       ⟨.done, []⟩) := by
  obtain ⟨ws, hw⟩ := rw_some_of_tx hI hc h
  have hoe : openEmpty (s.chan c) = true := by rw [openEmpty_iff]; simp [hd, hw]
  have hpos := empty_pos_of_openEmpty hI hc hoe
  have hsw := sw_none_of_pos hI hc hpos
  simp only [dropReceiver, List.isEmpty_nil, h, and_self, if_true]
  rw [decrEmpty_eq _ (by show 1 ≤ s.empty; omega) (by show s.sendWakers = none; exact hsw)]
  by_cases h1 : s.empty = 1
  · simp [h1, clearBlk, wakeAll]
  · simp [h1, clearBlk]

theorem dropReceiver_other_open (q : List Nat) (h : ¬ (q = [] ∧ 0 < (s.chan c).nSenders))
    (hs : s.sendWakers = none) :
    dropReceiver s c q =
      (clearBlk (setChan s c { s.chan c with data := none }) (.recv c), ⟨.done, []⟩) := by
  have : ¬ (q.isEmpty = true ∧ (s.chan c).nSenders > 0) := by simpa using h
  simp [dropReceiver, h, hs]

theorem dropReceiver_other_closed (q : List Nat) (h : ¬ (q = [] ∧ 0 < (s.chan c).nSenders))
    (l : List (Nat × Nat)) (hs : s.sendWakers = some l) :
    dropReceiver s c q =
      (wakeAll { clearBlk (setChan s c { s.chan c with data := none }) (.recv c) with
                 sendWakers := some (l.filter (fun p => ¬ p.2 = c)) }
         ((l.filter (fun p => p.2 = c)).map (·.1)),
       ⟨.done, (l.filter (fun p => p.2 = c)).map (·.1)⟩) := by
  have : ¬ (q.isEmpty = true ∧ (s.chan c).nSenders > 0) := by simpa using h
  simp [dropReceiver, h, hs]

end spec

/-! ### the core invariant is preserved by every operation -/

theorem InvC.update {s s' : St} (h : InvC s) {c : Nat} (hc : c < s.n) (x : Chan)
    (hn : s'.n = s.n) (hch : s'.chan = fun i => if i = c then x else s.chan i)
    (hx : x.nSenders = 0 ↔ x.recvWakers = none)
    (he : s'.empty + (if openEmpty (s.chan c) then 1 else 0)
            = s.empty + (if openEmpty x then 1 else 0))
    (hg1 : s'.sendWakers ≠ none → s'.empty = 0)
    (hg2 : s'.sendWakers = none → 0 < s'.empty) : InvC s' := by
  refine ⟨by rw [hn]; exact h.nle, ?_, hg1, fun h' => Or.inl (hg2 h'), fun _ => by rw [hn]; omega, ?_⟩
  · have h1 := countOE_upd s.chan c x s.n hc
    have h2 := h.cnt
    rw [hn, hch]
    omega
  · intro i hi
    rw [hch]
    simp only
    split
    · exact hx
    · exact h.tx i (by rw [← hn]; exact hi)

theorem oe_true {ch : Chan} {ws : List Nat} (hd : ch.data = some []) (hw : ch.recvWakers = some ws) :
    openEmpty ch = true := by rw [openEmpty_iff]; simp [hd, hw]

theorem oe_false_data {ch : Chan} (hd : ch.data ≠ some []) : openEmpty ch = false := by
  rw [openEmpty_false_iff]; intro h; exact hd h.1

theorem oe_false_rw {ch : Chan} (hw : ch.recvWakers = none) : openEmpty ch = false := by
  rw [openEmpty_false_iff]; intro h; exact h.2 hw

theorem invC_pollSend {s : St} (h : InvC s) {c : Nat} (hc : c < s.n)
    (hs : 0 < (s.chan c).nSenders) (t v : Nat) : InvC (pollSend s c t v).1 := by
  cases hd : (s.chan c).data with
  | none => rw [pollSend_err h hc t v hd]; exact h
  | some q =>
    obtain ⟨ws, hw⟩ := rw_some_of_tx h hc hs
    have htx := h.tx c hc
    by_cases he : s.empty = 0
    · obtain ⟨l, hl⟩ := sw_some_of_zero h hc he
      rw [pollSend_pending h hc t v q hd l he hl]
      exact ⟨h.nle, h.cnt, fun _ => he, fun h' => by simp at h', fun _ => by show 0 < s.n; omega, h.tx⟩
    · cases q with
      | nil =>
        rw [pollSend_ok_empty h hc t v hd ws hw]
        have hoe := oe_true hd hw
        have hpos := empty_pos_of_openEmpty h hc hoe
        refine InvC.update h hc { s.chan c with data := some [v], recvWakers := some [] } (by rfl) (by rfl) ?_ ?_ ?_ ?_
        · simp only; rw [hw] at htx; simpa using htx
        · have : openEmpty ({ s.chan c with data := some [v], recvWakers := some [] } : Chan) = false :=
            oe_false_data (by simp)
          simp only [hoe, this, wakeAll_empty]
          simp
          omega
        · simp only [wakeAll_sw, wakeAll_empty]
          intro h1
          by_cases h2 : s.empty = 1
          · omega
          · simp [h2] at h1
        · simp only [wakeAll_sw, wakeAll_empty]
          intro h1
          by_cases h2 : s.empty = 1
          · simp [h2] at h1
          · omega
      | cons a q =>
        rw [pollSend_ok_nonempty h hc t v a q hd (by omega)]
        refine InvC.update h hc { s.chan c with data := some (a :: q ++ [v]) } (by rfl) (by rfl) ?_ ?_ ?_ ?_
        · exact htx
        · have h1 : openEmpty (s.chan c) = false := oe_false_data (by simp [hd])
          have h2 : openEmpty ({ s.chan c with data := some (a :: q ++ [v]) } : Chan) = false :=
            oe_false_data (by simp)
          simp [h1]
          exact h2
        · exact h.gateClosed
        · intro h1; simp only [setChan_sw] at h1; simp only [setChan_empty]; omega

theorem invC_pollRecv {s : St} (h : InvC s) {c : Nat} (hc : c < s.n)
    (q : List Nat) (hd : (s.chan c).data = some q) (t : Nat) : InvC (pollRecv s c t).1 := by
  have htx := h.tx c hc
  cases q with
  | nil =>
    cases hw : (s.chan c).recvWakers with
    | none => rw [pollRecv_eos h hc t hd hw]; exact h
    | some ws =>
      rw [pollRecv_pending h hc t hd ws hw]
      refine InvC.update h hc { s.chan c with recvWakers := some (ws ++ [t]) } (by rfl) (by rfl) ?_ ?_ ?_ ?_
      · rw [hw] at htx; simpa using htx
      · have h1 := oe_true hd hw
        have h2 : openEmpty ({ s.chan c with recvWakers := some (ws ++ [t]) } : Chan) = true :=
          oe_true (ws := ws ++ [t]) hd rfl
        simp [h1, h2]
      · exact h.gateClosed
      · intro h1
        have := empty_pos_of_openEmpty h hc (oe_true hd hw)
        simpa using this
  | cons v q =>
    have hoe : openEmpty (s.chan c) = false := oe_false_data (by simp [hd])
    by_cases hq : q ≠ [] ∨ (s.chan c).recvWakers = none
    · rw [pollRecv_plain h hc t v q hd hq]
      refine InvC.update h hc { s.chan c with data := some q } (by rfl) (by rfl) ?_ ?_ ?_ ?_
      · exact htx
      · have h2 : openEmpty ({ s.chan c with data := some q } : Chan) = false := by
          rcases hq with hq | hq
          · exact oe_false_data (by simpa using hq)
          · exact oe_false_rw hq
        simp [hoe, h2]
      · exact h.gateClosed
      · intro h1
        rcases h.gateOpen h1 with h2 | h2
        · exact h2
        · omega
    · have hq1 : q = [] := by
        false_or_by_contra; rename_i hne; exact hq (Or.inl hne)
      subst hq1
      cases hw : (s.chan c).recvWakers with
      | none => exact absurd (Or.inr hw) hq
      | some ws =>
        have h2 : openEmpty ({ s.chan c with data := some [] } : Chan) = true := oe_true rfl hw
        by_cases he : s.empty = 0
        · obtain ⟨l, hl⟩ := sw_some_of_zero h hc he
          rw [pollRecv_last_closed h hc t v hd ws hw l he hl]
          refine InvC.update h hc { s.chan c with data := some [] } (by rfl) (by rfl) ?_ ?_ ?_ ?_
          · exact htx
          · simp [hoe, h2, he]
          · intro h1; simp at h1
          · intro _; simp
        · rw [pollRecv_last_open h hc t v hd ws hw (by omega)]
          refine InvC.update h hc { s.chan c with data := some [] } (by rfl) (by rfl) ?_ ?_ ?_ ?_
          · exact htx
          · simp [hoe, h2]
          · intro h1
            have := sw_none_of_pos h hc (by omega)
            simp [this] at h1
          · intro _; simp

theorem invC_dropSender {s : St} (h : InvC s) {c : Nat} (hc : c < s.n)
    (hs : 0 < (s.chan c).nSenders) : InvC (dropSender s c).1 := by
  obtain ⟨ws, hw⟩ := rw_some_of_tx h hc hs
  have htx := h.tx c hc
  by_cases h1 : 1 < (s.chan c).nSenders
  · rw [dropSender_notlast h hc h1]
    refine InvC.update h hc { s.chan c with nSenders := (s.chan c).nSenders - 1 } (by rfl) (by rfl) ?_ ?_ ?_ ?_
    · simp only; rw [hw]; simp; omega
    · have : openEmpty ({ s.chan c with nSenders := (s.chan c).nSenders - 1 } : Chan)
          = openEmpty (s.chan c) := rfl
      rw [this]; rfl
    · exact h.gateClosed
    · intro h2
      rcases h.gateOpen h2 with h3 | h3
      · exact h3
      · omega
  · have h1' : (s.chan c).nSenders = 1 := by omega
    have hx : openEmpty ({ s.chan c with nSenders := 0, recvWakers := none } : Chan) = false :=
      oe_false_rw rfl
    by_cases hd : (s.chan c).data = some []
    · rw [dropSender_last_empty h hc h1' hd ws hw]
      have hoe := oe_true hd hw
      have hpos := empty_pos_of_openEmpty h hc hoe
      refine InvC.update h hc { s.chan c with nSenders := 0, recvWakers := none } (by rfl) (by rfl) ?_ ?_ ?_ ?_
      · simp
      · simp only [hoe, hx, wakeAll_empty, clearBlk_empty]
        simp
        omega
      · simp only [wakeAll_sw, wakeAll_empty, clearBlk_sw, clearBlk_empty]
        intro h2
        by_cases h3 : s.empty = 1
        · omega
        · simp [h3] at h2
      · simp only [wakeAll_sw, wakeAll_empty, clearBlk_sw, clearBlk_empty]
        intro h2
        by_cases h3 : s.empty = 1
        · simp [h3] at h2
        · omega
    · rw [dropSender_last_nonempty h hc h1' hd ws hw]
      have hoe : openEmpty (s.chan c) = false := oe_false_data hd
      refine InvC.update h hc { s.chan c with nSenders := 0, recvWakers := none } (by rfl) (by rfl) ?_ ?_ ?_ ?_
      · simp
      · simp [hoe, hx]
      · exact h.gateClosed
      · intro h2
        rcases h.gateOpen h2 with h3 | h3
        · exact h3
        · omega

theorem invC_dropReceiver {s : St} (h : InvC s) {c : Nat} (hc : c < s.n)
    (q : List Nat) (hd : (s.chan c).data = some q) : InvC (dropReceiver s c q).1 := by
  have htx := h.tx c hc
  have hx : openEmpty ({ s.chan c with data := none } : Chan) = false := oe_false_data (by simp)
  by_cases h1 : q = [] ∧ 0 < (s.chan c).nSenders
  · obtain ⟨hq, hs⟩ := h1
    subst hq
    obtain ⟨ws, hw⟩ := rw_some_of_tx h hc hs
    rw [dropReceiver_open_empty h hc hs hd]
    have hoe := oe_true hd hw
    have hpos := empty_pos_of_openEmpty h hc hoe
    refine InvC.update h hc { s.chan c with data := none } (by rfl) (by rfl) ?_ ?_ ?_ ?_
    · exact htx
    · simp only [hoe, hx, clearBlk_empty]
      simp
      omega
    · simp only [clearBlk_sw, clearBlk_empty]
      intro h2
      by_cases h3 : s.empty = 1
      · omega
      · simp [h3] at h2
    · simp only [clearBlk_sw, clearBlk_empty]
      intro h2
      by_cases h3 : s.empty = 1
      · simp [h3] at h2
      · omega
  · have hoe : openEmpty (s.chan c) = false := by
      rw [openEmpty_false_iff]
      intro ⟨h2, h3⟩
      apply h1
      rw [hd] at h2
      refine ⟨by simpa using h2, ?_⟩
      have : ¬ (s.chan c).nSenders = 0 := fun e => h3 (htx.mp e)
      omega
    cases hsw : s.sendWakers with
    | none =>
      rw [dropReceiver_other_open h hc q h1 hsw]
      refine InvC.update h hc { s.chan c with data := none } (by rfl) (by rfl) ?_ ?_ ?_ ?_
      · exact htx
      · simp [hoe, hx]
      · exact h.gateClosed
      · intro h2
        rcases h.gateOpen h2 with h3 | h3
        · exact h3
        · omega
    | some l =>
      rw [dropReceiver_other_closed h hc q h1 l hsw]
      refine InvC.update h hc { s.chan c with data := none } (by rfl) (by rfl) ?_ ?_ ?_ ?_
      · exact htx
      · simp [hoe, hx]
      · intro _
        exact h.gateClosed (by simp [hsw])
      · intro h2; simp at h2

theorem invC_step (s : St) (op : Op) (h : InvC s) : InvC (step s op).1 := by
  cases op with
  | send c t v =>
    simp only [step]
    split
    · rename_i hv
      have h0 : InvC (pollBegin s t) := h.of_core rfl rfl rfl rfl
      exact (invC_pollSend h0 hv.1 hv.2 t v).of_core rfl rfl rfl rfl
    · exact h
  | recv c t =>
    simp only [step]
    split
    · rename_i hv
      have h0 : InvC (pollBegin s t) := h.of_core rfl rfl rfl rfl
      cases hd : (s.chan c).data with
      | none => rw [hd] at hv; simp at hv
      | some q => exact (invC_pollRecv h0 hv.1 q hd t).of_core rfl rfl rfl rfl
    · exact h
  | clone c =>
    simp only [step]
    split
    · rename_i hv
      refine InvC.update h hv.1 { s.chan c with nSenders := (s.chan c).nSenders + 1 } (by rfl) (by rfl) ?_ ?_ ?_ ?_
      · have := h.tx c hv.1
        simp only
        constructor
        · intro h1; omega
        · intro h1; have := this.mpr h1; omega
      · rfl
      · exact h.gateClosed
      · intro h2
        rcases h.gateOpen h2 with h3 | h3
        · exact h3
        · omega
    · exact h
  | dropTx c =>
    simp only [step]
    split
    · rename_i hv; exact invC_dropSender h hv.1 hv.2
    · exact h
  | dropRx c =>
    simp only [step]
    split
    · rename_i hv
      split
      · rename_i q hd; exact invC_dropReceiver h hv q hd
      · exact h
    · exact h
  | cancel t => exact h.of_core rfl rfl rfl rfl

/-! ### the waiter invariant: every blocked, not woken waiter is still registered -/

/-- waiter `x`'s registration for `send c` is live: it sits in `send_wakers` (so the gate is
    closed), the receiver of `c` is alive and `c` still has a sender handle -/
def JS (s : St) (x c : Nat) : Prop :=
  ∃ l, s.sendWakers = some l ∧ (x, c) ∈ l ∧ c < s.n ∧ (s.chan c).data ≠ none ∧
    0 < (s.chan c).nSenders

/-- waiter `x`'s registration for `recv c` is live: it sits in `recv_wakers` of `c` (so some sender
    handle is alive) and the queue of `c` is empty -/
def JR (s : St) (x c : Nat) : Prop :=
  ∃ ws, (s.chan c).recvWakers = some ws ∧ x ∈ ws ∧ c < s.n ∧ (s.chan c).data = some []

structure InvW (s : St) : Prop where
  bs : ∀ x c, s.blk x = some (.send c) → s.woken x = false → JS s x c
  br : ∀ x c, s.blk x = some (.recv c) → s.woken x = false → JR s x c

theorem invW_init (n : Nat) : InvW (init n) := by
  constructor <;> intro x c h <;> simp [init] at h

theorem contains_false {l : List Nat} {x : Nat} (h : l.contains x = false) : x ∉ l := by
  intro hm
  have : l.contains x = true := by simpa using hm
  rw [this] at h; cases h

theorem InvW.frame_poll {s s1 : St} (hw : InvW s) (t : Nat) (b : Option Blk) (wk : List Nat)
    (hblk : s1.blk = s.blk)
    (hwoken : ∀ x, s1.woken x = (wk.contains x || if x = t then false else s.woken x))
    (hs : ∀ x c, x ≠ t → x ∉ wk → JS s x c → JS s1 x c)
    (hr : ∀ x c, x ≠ t → x ∉ wk → JR s x c → JR s1 x c)
    (hts : ∀ c, b = some (.send c) → t ∉ wk → JS s1 t c)
    (htr : ∀ c, b = some (.recv c) → t ∉ wk → JR s1 t c) : InvW (setBlk s1 t b) := by
  constructor
  · intro x c h1 h2
    simp only [setBlk_blk, setBlk_woken] at h1 h2
    rw [hwoken] at h2
    simp only [Bool.or_eq_false_iff] at h2
    have hx := contains_false h2.1
    by_cases hxt : x = t
    · subst hxt
      simp only [if_true] at h1
      exact hts c h1 hx
    · simp only [hxt, if_false] at h1 h2
      rw [hblk] at h1
      exact hs x c hxt hx (hw.bs x c h1 h2.2)
  · intro x c h1 h2
    simp only [setBlk_blk, setBlk_woken] at h1 h2
    rw [hwoken] at h2
    simp only [Bool.or_eq_false_iff] at h2
    have hx := contains_false h2.1
    by_cases hxt : x = t
    · subst hxt
      simp only [if_true] at h1
      exact htr c h1 hx
    · simp only [hxt, if_false] at h1 h2
      rw [hblk] at h1
      exact hr x c hxt hx (hw.br x c h1 h2.2)

theorem InvW.frame {s s' : St} (hw : InvW s) (wk : List Nat)
    (hblk : ∀ x b, s'.blk x = some b → s.blk x = some b)
    (hwoken : ∀ x, s'.woken x = (wk.contains x || s.woken x))
    (hs : ∀ x c, s'.blk x = some (.send c) → x ∉ wk → JS s x c → JS s' x c)
    (hr : ∀ x c, s'.blk x = some (.recv c) → x ∉ wk → JR s x c → JR s' x c) : InvW s' := by
  constructor
  · intro x c h1 h2
    rw [hwoken] at h2
    simp only [Bool.or_eq_false_iff] at h2
    exact hs x c h1 (contains_false h2.1) (hw.bs x c (hblk x _ h1) h2.2)
  · intro x c h1 h2
    rw [hwoken] at h2
    simp only [Bool.or_eq_false_iff] at h2
    exact hr x c h1 (contains_false h2.1) (hw.br x c (hblk x _ h1) h2.2)

theorem mem_map_fst {l : List (Nat × Nat)} {x c : Nat} (h : (x, c) ∈ l) : x ∈ l.map (·.1) :=
  List.mem_map.mpr ⟨(x, c), h, rfl⟩

theorem invW_send {s : St} (hC : InvC s) (hW : InvW s) {c : Nat} (hc : c < s.n)
    (hs : 0 < (s.chan c).nSenders) (t v : Nat) :
    InvW (setBlk (pollSend (pollBegin s t) c t v).1 t
            (blkOfRes c (pollSend (pollBegin s t) c t v).2.res)) := by
  have h0 : InvC (pollBegin s t) := hC.of_core rfl rfl rfl rfl
  have hc0 : c < (pollBegin s t).n := hc
  cases hd : (s.chan c).data with
  | none =>
    rw [pollSend_err h0 hc0 t v hd]
    refine hW.frame_poll t _ [] rfl (fun x => by simp [pollBegin_woken])
      (fun x c' _ _ h => h) (fun x c' _ _ h => h) ?_ ?_
    · intro c' h; simp [blkOfRes] at h
    · intro c' h; simp [blkOfRes] at h
  | some q =>
    obtain ⟨ws, hw⟩ := rw_some_of_tx hC hc hs
    by_cases he : s.empty = 0
    · obtain ⟨l, hl⟩ := sw_some_of_zero hC hc he
      rw [pollSend_pending h0 hc0 t v q hd l he hl]
      refine hW.frame_poll t _ [] rfl (fun x => by simp [pollBegin_woken]) ?_
        (fun x c' _ _ h => h) ?_ ?_
      · intro x c' _ _ ⟨l', h1, h2, h3⟩
        have : l' = l := by rw [hl] at h1; exact (Option.some.inj h1).symm
        subst this
        exact ⟨l' ++ [(t, c)], rfl, List.mem_append_left _ h2, h3⟩
      · intro c' h _
        simp only [blkOfRes, Option.some.injEq, Blk.send.injEq] at h
        subst h
        exact ⟨l ++ [(t, c)], rfl, by simp, hc, by simp [hd], hs⟩
      · intro c' h; simp [blkOfRes] at h
    · have hpos : 0 < s.empty := by omega
      have hsw := sw_none_of_pos hC hc hpos
      cases q with
      | nil =>
        rw [pollSend_ok_empty h0 hc0 t v hd ws hw]
        refine hW.frame_poll t _ ws rfl (fun x => rfl) ?_ ?_ ?_ ?_
        · intro x c' _ _ ⟨l', h1, _⟩; rw [hsw] at h1; cases h1
        · intro x c' _ hx ⟨ws', h1, h2, h3, h4⟩
          by_cases hcc : c' = c
          · subst hcc
            rw [hw] at h1; cases h1
            exact absurd h2 hx
          · exact ⟨ws', by simpa [setChan_chan, hcc] using h1, h2, h3,
              by simpa [setChan_chan, hcc] using h4⟩
        · intro c' h; simp [blkOfRes] at h
        · intro c' h; simp [blkOfRes] at h
      | cons a q =>
        rw [pollSend_ok_nonempty h0 hc0 t v a q hd hpos]
        refine hW.frame_poll t _ [] rfl (fun x => by simp [pollBegin_woken]) ?_ ?_ ?_ ?_
        · intro x c' _ _ ⟨l', h1, _⟩; rw [hsw] at h1; cases h1
        · intro x c' _ _ ⟨ws', h1, h2, h3, h4⟩
          by_cases hcc : c' = c
          · subst hcc; rw [hd] at h4; simp at h4
          · exact ⟨ws', by simpa [setChan_chan, hcc] using h1, h2, h3,
              by simpa [setChan_chan, hcc] using h4⟩
        · intro c' h; simp [blkOfRes] at h
        · intro c' h; simp [blkOfRes] at h

/-- transfer of a `JS` witness across an update of channel `c` that keeps the receiver alive and
    the handle count positive, with `send_wakers` unchanged -/
theorem JS.setChan {s : St} {x c' c : Nat} {X : Chan} (h : JS s x c')
    (hd : (s.chan c).data ≠ none → X.data ≠ none)
    (hn : 0 < (s.chan c).nSenders → 0 < X.nSenders) : JS (setChan s c X) x c' := by
  obtain ⟨l, h1, h2, h3, h4, h5⟩ := h
  refine ⟨l, h1, h2, h3, ?_, ?_⟩
  · rw [setChan_chan]; split
    · rename_i e; subst e; exact hd h4
    · exact h4
  · rw [setChan_chan]; split
    · rename_i e; subst e; exact hn h5
    · exact h5

theorem JR.setChan_ne {s : St} {x c' c : Nat} {X : Chan} (h : JR s x c') (hne : c' ≠ c) :
    JR (setChan s c X) x c' := by
  obtain ⟨ws, h1, h2, h3, h4⟩ := h
  exact ⟨ws, by simpa [setChan_chan, hne] using h1, h2, h3, by simpa [setChan_chan, hne] using h4⟩

theorem invW_recv {s : St} (hC : InvC s) (hW : InvW s) {c : Nat} (hc : c < s.n)
    (q : List Nat) (hd : (s.chan c).data = some q) (t : Nat) :
    InvW (setBlk (pollRecv (pollBegin s t) c t).1 t
            (blkOfRes c (pollRecv (pollBegin s t) c t).2.res)) := by
  have h0 : InvC (pollBegin s t) := hC.of_core rfl rfl rfl rfl
  have hc0 : c < (pollBegin s t).n := hc
  cases q with
  | nil =>
    cases hw : (s.chan c).recvWakers with
    | none =>
      rw [pollRecv_eos h0 hc0 t hd hw]
      refine hW.frame_poll t _ [] rfl (fun x => by simp [pollBegin_woken])
        (fun x c' _ _ h => h) (fun x c' _ _ h => h) ?_ ?_
      · intro c' h; simp [blkOfRes] at h
      · intro c' h; simp [blkOfRes] at h
    | some ws =>
      rw [pollRecv_pending h0 hc0 t hd ws hw]
      refine hW.frame_poll t _ [] rfl (fun x => by simp [pollBegin_woken]) ?_ ?_ ?_ ?_
      · intro x c' _ _ h
        exact JS.setChan h (fun e => e) (fun e => e)
      · intro x c' _ _ h
        by_cases hcc : c' = c
        · subst hcc
          obtain ⟨ws', h1, h2, h3, h4⟩ := h
          rw [hw] at h1; cases h1
          exact ⟨ws ++ [t], by simp, List.mem_append_left _ h2, h3, by simpa using hd⟩
        · exact JR.setChan_ne h hcc
      · intro c' h; simp [blkOfRes] at h
      · intro c' h _
        simp only [blkOfRes, Option.some.injEq, Blk.recv.injEq] at h
        subst h
        exact ⟨ws ++ [t], by simp, by simp, hc, by simpa using hd⟩
  | cons v q =>
    have hnotJR : ∀ x, ¬ JR s x c := by
      intro x ⟨_, _, _, _, h4⟩; rw [hd] at h4; simp at h4
    by_cases hq : q ≠ [] ∨ (s.chan c).recvWakers = none
    · rw [pollRecv_plain h0 hc0 t v q hd hq]
      refine hW.frame_poll t _ [] rfl (fun x => by simp [pollBegin_woken]) ?_ ?_ ?_ ?_
      · intro x c' _ _ h
        exact JS.setChan h (fun _ => by simp) (fun e => e)
      · intro x c' _ _ h
        by_cases hcc : c' = c
        · subst hcc; exact absurd h (hnotJR x)
        · exact JR.setChan_ne h hcc
      · intro c' h; simp [blkOfRes] at h
      · intro c' h; simp [blkOfRes] at h
    · have hq1 : q = [] := by
        false_or_by_contra; rename_i hne; exact hq (Or.inl hne)
      subst hq1
      cases hw : (s.chan c).recvWakers with
      | none => exact absurd (Or.inr hw) hq
      | some ws =>
        by_cases he : s.empty = 0
        · obtain ⟨l, hl⟩ := sw_some_of_zero hC hc he
          rw [pollRecv_last_closed h0 hc0 t v hd ws hw l he hl]
          refine hW.frame_poll t _ (l.map (·.1)) rfl (fun x => rfl) ?_ ?_ ?_ ?_
          · intro x c' _ hx ⟨l', h1, h2, _⟩
            rw [hl] at h1; cases h1
            exact absurd (mem_map_fst h2) hx
          · intro x c' _ _ h
            by_cases hcc : c' = c
            · subst hcc; exact absurd h (hnotJR x)
            · exact JR.setChan_ne h hcc
          · intro c' h; simp [blkOfRes] at h
          · intro c' h; simp [blkOfRes] at h
        · have hsw := sw_none_of_pos hC hc (by omega)
          rw [pollRecv_last_open h0 hc0 t v hd ws hw (by show 0 < s.empty; omega)]
          refine hW.frame_poll t _ [] rfl (fun x => by simp [pollBegin_woken]) ?_ ?_ ?_ ?_
          · intro x c' _ _ ⟨l', h1, _⟩; rw [hsw] at h1; cases h1
          · intro x c' _ _ h
            by_cases hcc : c' = c
            · subst hcc; exact absurd h (hnotJR x)
            · exact JR.setChan_ne h hcc
          · intro c' h; simp [blkOfRes] at h
          · intro c' h; simp [blkOfRes] at h

theorem invW_dropSender {s : St} (hC : InvC s) (hW : InvW s) {c : Nat} (hc : c < s.n)
    (hs : 0 < (s.chan c).nSenders) : InvW (dropSender s c).1 := by
  obtain ⟨ws, hw⟩ := rw_some_of_tx hC hc hs
  by_cases h1 : 1 < (s.chan c).nSenders
  · rw [dropSender_notlast hC hc h1]
    refine hW.frame [] (fun x b h => h) (fun x => by simp) ?_ ?_
    · intro x c' _ _ h
      exact JS.setChan h (fun e => e) (fun _ => by simp; omega)
    · intro x c' _ _ h
      by_cases hcc : c' = c
      · subst hcc
        obtain ⟨ws', h1, h2, h3, h4⟩ := h
        exact ⟨ws', by simpa using h1, h2, h3, by simpa using h4⟩
      · exact JR.setChan_ne h hcc
  · have h1' : (s.chan c).nSenders = 1 := by omega
    have hclr : ∀ (s1 : St) (hb : s1.blk = s.blk) x b,
        (clearBlk s1 (.send c)).blk x = some b → s.blk x = some b := by
      intro s1 hb x b h
      rw [clearBlk_blk, hb] at h
      split at h
      · cases h
      · exact h
    have hclr2 : ∀ (s1 : St) (hb : s1.blk = s.blk) x c',
        (clearBlk s1 (.send c)).blk x = some (.send c') → c' ≠ c := by
      intro s1 hb x c' h e
      subst e
      rw [clearBlk_blk, hb] at h
      split at h
      · cases h
      · rename_i hne; exact hne h
    by_cases hd : (s.chan c).data = some []
    · rw [dropSender_last_empty hC hc h1' hd ws hw]
      have hpos := empty_pos_of_openEmpty hC hc (oe_true hd hw)
      have hsw := sw_none_of_pos hC hc hpos
      refine hW.frame ws (fun x b h => hclr _ rfl x b h) (fun x => rfl) ?_ ?_
      · intro x c' _ _ ⟨l', h1, _⟩; rw [hsw] at h1; cases h1
      · intro x c' _ hx h
        by_cases hcc : c' = c
        · subst hcc
          obtain ⟨ws', h1, h2, _⟩ := h
          rw [hw] at h1; cases h1
          exact absurd h2 hx
        · exact JR.setChan_ne h hcc
    · rw [dropSender_last_nonempty hC hc h1' hd ws hw]
      refine hW.frame ws (fun x b h => hclr _ rfl x b h) (fun x => rfl) ?_ ?_
      · intro x c' hb _ h
        have hcc := hclr2 _ rfl x c' hb
        obtain ⟨l, h1, h2, h3, h4, h5⟩ := h
        exact ⟨l, h1, h2, h3, by simpa [setChan_chan, hcc] using h4,
          by simpa [setChan_chan, hcc] using h5⟩
      · intro x c' _ _ h
        by_cases hcc : c' = c
        · subst hcc
          obtain ⟨_, _, _, _, h4⟩ := h
          exact absurd h4 hd
        · exact JR.setChan_ne h hcc

theorem invW_dropReceiver {s : St} (hC : InvC s) (hW : InvW s) {c : Nat} (hc : c < s.n)
    (q : List Nat) (hd : (s.chan c).data = some q) : InvW (dropReceiver s c q).1 := by
  have hclr : ∀ (s1 : St) (hb : s1.blk = s.blk) x b,
      (clearBlk s1 (.recv c)).blk x = some b → s.blk x = some b := by
    intro s1 hb x b h
    rw [clearBlk_blk, hb] at h
    split at h
    · cases h
    · exact h
  have hclr2 : ∀ (s1 : St) (hb : s1.blk = s.blk) x c',
      (clearBlk s1 (.recv c)).blk x = some (.recv c') → c' ≠ c := by
    intro s1 hb x c' h e
    subst e
    rw [clearBlk_blk, hb] at h
    split at h
    · cases h
    · rename_i hne; exact hne h
  by_cases h1 : q = [] ∧ 0 < (s.chan c).nSenders
  · obtain ⟨hq, hs⟩ := h1
    subst hq
    obtain ⟨ws, hw⟩ := rw_some_of_tx hC hc hs
    have hpos := empty_pos_of_openEmpty hC hc (oe_true hd hw)
    have hsw := sw_none_of_pos hC hc hpos
    rw [dropReceiver_open_empty hC hc hs hd]
    refine hW.frame [] (fun x b h => hclr _ rfl x b h) (fun x => by simp) ?_ ?_
    · intro x c' _ _ ⟨l', h1, _⟩; rw [hsw] at h1; cases h1
    · intro x c' hb _ h
      exact JR.setChan_ne h (hclr2 _ rfl x c' hb)
  · cases hsw : s.sendWakers with
    | none =>
      rw [dropReceiver_other_open hC hc q h1 hsw]
      refine hW.frame [] (fun x b h => hclr _ rfl x b h) (fun x => by simp) ?_ ?_
      · intro x c' _ _ ⟨l', h1, _⟩; rw [hsw] at h1; cases h1
      · intro x c' hb _ h
        exact JR.setChan_ne h (hclr2 _ rfl x c' hb)
    | some l =>
      rw [dropReceiver_other_closed hC hc q h1 l hsw]
      refine hW.frame ((l.filter (fun p => p.2 = c)).map (·.1))
        (fun x b h => hclr _ rfl x b h) (fun x => rfl) ?_ ?_
      · intro x c' _ hx ⟨l', h1, h2, h3, h4, h5⟩
        rw [hsw] at h1; cases h1
        have hcc : c' ≠ c := by
          intro e; subst e
          exact hx (mem_map_fst (List.mem_filter.mpr ⟨h2, by simp⟩))
        refine ⟨l.filter (fun p => ¬ p.2 = c), rfl, List.mem_filter.mpr ⟨h2, by simpa using hcc⟩, h3,
          by simpa [setChan_chan, hcc] using h4, by simpa [setChan_chan, hcc] using h5⟩
      · intro x c' hb _ h
        exact JR.setChan_ne h (hclr2 _ rfl x c' hb)

/-- the full invariant -/
structure Inv (s : St) : Prop where
  core : InvC s
  waiters : InvW s

theorem inv_init (n : Nat) (hn : n ≤ usizeMax) : Inv (init n) := ⟨invC_init n hn, invW_init n⟩

theorem inv_step (s : St) (op : Op) (h : Inv s) : Inv (step s op).1 := by
  refine ⟨invC_step s op h.core, ?_⟩
  obtain ⟨hC, hW⟩ := h
  cases op with
  | send c t v =>
    simp only [step]
    split
    · rename_i hv; exact invW_send hC hW hv.1 hv.2 t v
    · exact hW
  | recv c t =>
    simp only [step]
    split
    · rename_i hv
      cases hd : (s.chan c).data with
      | none => rw [hd] at hv; simp at hv
      | some q => exact invW_recv hC hW hv.1 q hd t
    · exact hW
  | clone c =>
    simp only [step]
    split
    · rename_i hv
      refine hW.frame [] (fun x b h => h) (fun x => by simp) ?_ ?_
      · intro x c' _ _ h
        exact JS.setChan h (fun e => e) (fun _ => by simp)
      · intro x c' _ _ h
        by_cases hcc : c' = c
        · subst hcc
          obtain ⟨ws', h1, h2, h3, h4⟩ := h
          exact ⟨ws', by simpa using h1, h2, h3, by simpa using h4⟩
        · exact JR.setChan_ne h hcc
    · exact hW
  | dropTx c =>
    simp only [step]
    split
    · rename_i hv; exact invW_dropSender hC hW hv.1 hv.2
    · exact hW
  | dropRx c =>
    simp only [step]
    split
    · rename_i hv
      split
      · rename_i q hd; exact invW_dropReceiver hC hW hv q hd
      · exact hW
    · exact hW
  | cancel t =>
    simp only [step]
    refine hW.frame [] ?_ (fun x => by simp) (fun x c' _ _ h => h) (fun x c' _ _ h => h)
    intro x b h
    rw [setBlk_blk] at h
    split at h
    · cases h
    · exact h

theorem run_fst_cons (s : St) (op : Op) (ops : List Op) :
    (run s (op :: ops)).1 = (run (step s op).1 ops).1 := rfl

theorem inv_run (s : St) (ops : List Op) (h : Inv s) : Inv (run s ops).1 := by
  induction ops generalizing s with
  | nil => exact h
  | cons op ops ih => rw [run_fst_cons]; exact ih _ (inv_step s op h)

end DfModel.Proofs.C15
