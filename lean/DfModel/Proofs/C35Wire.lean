/-
  Helper lemmas for C35: protobuf wire primitives (Base/Wire.lean).  Core Lean only.
-/
import DfModel.Base.Wire
namespace DfModel.Proofs.C35Wire
open DfModel.Wire

/-! ### varint -/

theorem decode_encode_varint (n : Nat) : ∀ (fuel : Nat) (rest : List Nat),
    (encodeVarint n).length ≤ fuel → decodeVarint fuel (encodeVarint n ++ rest) = some (n, rest) := by
  induction n using Nat.strongRecOn with
  | _ n ih =>
    intro fuel rest hf
    rw [encodeVarint] at hf ⊢
    by_cases h : n < 128
    · simp only [h, if_true, List.length_singleton] at hf ⊢
      obtain ⟨f, rfl⟩ : ∃ f, fuel = f + 1 := ⟨fuel - 1, by omega⟩
      simp [decodeVarint, h]
    · simp only [h, if_false, List.length_cons] at hf ⊢
      obtain ⟨f, rfl⟩ : ∃ f, fuel = f + 1 := ⟨fuel - 1, by omega⟩
      have hlt : n / 128 < n := by omega
      have := ih (n / 128) hlt f rest (by omega)
      simp only [List.cons_append, decodeVarint]
      have h128 : ¬ (n % 128 + 128 < 128) := by omega
      simp only [h128, if_false, this]
      congr 2
      omega

theorem encodeVarint_length_le (k : Nat) : ∀ n, n < 128 ^ (k + 1) → (encodeVarint n).length ≤ k + 1 := by
  induction k with
  | zero =>
    intro n h
    rw [encodeVarint]
    have : n < 128 := by simpa using h
    simp [this]
  | succ k ih =>
    intro n h
    rw [encodeVarint]
    by_cases h1 : n < 128
    · simp [h1]
    · simp only [h1, if_false, List.length_cons]
      have : n / 128 < 128 ^ (k + 1) := by
        rw [Nat.div_lt_iff_lt_mul (by decide)]
        rw [Nat.pow_succ] at h
        exact h
      have := ih _ this
      omega

theorem encodeVarint_length_le_ten (n : Nat) (h : n < two64) : (encodeVarint n).length ≤ 10 := by
  apply encodeVarint_length_le 9
  have : two64 ≤ 128 ^ 10 := by decide
  omega

theorem encodeVarint_pos_length (n : Nat) : 0 < (encodeVarint n).length := by
  rw [encodeVarint]; split <;> simp

theorem varint64_roundtrip (n : Nat) (h : n < two64) (rest : List Nat) :
    decodeVarint64 (encodeVarint n ++ rest) = some (n, rest) := by
  unfold decodeVarint64
  rw [decode_encode_varint n 10 rest (encodeVarint_length_le_ten n h)]
  simp [h]

theorem encodeVarint_bytes (n : Nat) : ∀ b ∈ encodeVarint n, b < 256 := by
  induction n using Nat.strongRecOn with
  | _ n ih =>
    intro b hb
    rw [encodeVarint] at hb
    by_cases h : n < 128
    · simp only [h, if_true, List.mem_singleton] at hb; omega
    · simp only [h, if_false, List.mem_cons] at hb
      rcases hb with rfl | hb
      · omega
      · exact ih (n / 128) (by omega) b hb

/-! ### zigzag -/

theorem unzigzag_zigzag (i : Int) : unzigzag (zigzag i) = i := by
  unfold zigzag unzigzag
  by_cases h : 0 ≤ i
  · simp only [h, if_true]
    have h2 : (2 * i).toNat % 2 = 0 := by omega
    simp only [h2, if_true]
    omega
  · simp only [h, if_false]
    have h2 : ¬ ((-2 * i - 1).toNat % 2 = 0) := by omega
    simp only [h2, if_false]
    omega

theorem zigzag_unzigzag (n : Nat) : zigzag (unzigzag n) = n := by
  unfold zigzag unzigzag
  by_cases h : n % 2 = 0
  · simp only [h, if_true]
    have : (0 : Int) ≤ ((n / 2 : Nat) : Int) := Int.natCast_nonneg _
    simp only [this, if_true]
    omega
  · simp only [h, if_false]
    have : ¬ (0 : Int) ≤ -(((n + 1) / 2 : Nat) : Int) := by omega
    simp only [this, if_false]
    omega

theorem zigzag_lt (w : Nat) (i : Int) (hw : 0 < w) (lo : -(2 ^ (w - 1) : Int) ≤ i) (hi : i < (2 ^ (w - 1) : Int)) :
    zigzag i < 2 ^ w := by
  have h2 : (2 : Int) ^ w = 2 * 2 ^ (w - 1) := by
    obtain ⟨k, rfl⟩ : ∃ k, w = k + 1 := ⟨w - 1, by omega⟩
    simp [Int.pow_succ, Int.mul_comm]
  have h3 : ((2 ^ w : Nat) : Int) = (2 : Int) ^ w := by simp
  unfold zigzag
  split <;> omega

/-! ### fixed -/

theorem fixed_roundtrip (k : Nat) : ∀ (n : Nat) (rest : List Nat), n < 256 ^ k →
    decodeFixed k (encodeFixed k n ++ rest) = some (n, rest) := by
  induction k with
  | zero => intro n rest h; simp at h; simp [encodeFixed, decodeFixed, h]
  | succ k ih =>
    intro n rest h
    have : n / 256 < 256 ^ k := by
      rw [Nat.div_lt_iff_lt_mul (by decide)]
      rw [Nat.pow_succ] at h
      exact h
    simp only [encodeFixed, List.cons_append, decodeFixed, ih _ rest this]
    congr 2
    omega

theorem encodeFixed_length (k n : Nat) : (encodeFixed k n).length = k := by
  induction k generalizing n with
  | zero => rfl
  | succ k ih => simp [encodeFixed, ih]

/-! ### keys -/

theorem key_roundtrip (field wt : Nat) (hf1 : 1 ≤ field) (hf2 : field < 2 ^ 29) (hw : wt ≤ 5) (rest : List Nat) :
    decodeKey (encodeKey field wt ++ rest) = some ((field, wt), rest) := by
  unfold decodeKey encodeKey
  have h29 : (2 : Nat) ^ 29 = 536870912 := by decide
  have hlt : field * 8 + wt < two64 := by unfold two64; omega
  rw [varint64_roundtrip _ hlt]
  have h1 : field * 8 + wt < two32 := by unfold two32; omega
  have h2 : (field * 8 + wt) % 8 = wt := by omega
  have h3 : (field * 8 + wt) / 8 = field := by omega
  simp [h1, h2, h3, hw, hf1]

/-! ### length-delimited -/

theorem len_delim_roundtrip (payload rest : List Nat) (h : payload.length < two64) :
    decodeLenDelim (encodeLenDelim payload ++ rest) = some (payload, rest) := by
  unfold decodeLenDelim encodeLenDelim
  rw [List.append_assoc, varint64_roundtrip _ h]
  simp

/-! ### int32/int64 fields -/

theorem toSigned_toU64 (w : Nat) (hw : w = 8 ∨ w = 16 ∨ w = 32 ∨ w = 64) (v : Int)
    (lo : -(2 ^ (w - 1) : Int) ≤ v) (hi : v < (2 ^ (w - 1) : Int)) :
    toSigned w (toU64 v) = v := by
  unfold toSigned toU64 two64
  rcases hw with rfl | rfl | rfl | rfl <;> simp only [Nat.reducePow, Nat.reduceSub, Int.reducePow] at * <;> omega

theorem toU64_lt (v : Int) : toU64 v < two64 := by
  unfold toU64 two64
  omega

end DfModel.Proofs.C35Wire
