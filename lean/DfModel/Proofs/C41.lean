/-
  C41 helper lemmas: the substitution lemma for expressions (`bindExpr`), by mutual structural
  recursion over the nested expression AST.  Core Lean only.
-/
import DfModel.Sql.Bind
namespace DfModel.Proofs.C41
open DfModel

mutual
/-- evaluating the bound expression with NO parameters = evaluating the parameterised expression
    with the parameters in the environment — whatever the row and the enclosing query's row -/
theorem bindExpr_eval (ps : Params) (o : Row) : (e : Expr) → (ρ : Row) →
    eval (bindExpr ps e) ρ { params := [], outer := o } = eval e ρ { params := ps, outer := o }
  | .col i, ρ => by simp [bindExpr, eval]
  | .outer i, ρ => by simp [bindExpr, eval]
  | .lit v, ρ => by simp [bindExpr, eval]
  | .ph i, ρ => by
    simp only [bindExpr]
    cases h : ps[i]? with
    | none => simp [eval, h]
    | some v => simp [eval, h]
  | .bin op a b, ρ => by
    simp only [bindExpr, eval, bindExpr_eval ps o a ρ, bindExpr_eval ps o b ρ]
  | .not a, ρ => by simp only [bindExpr, eval, bindExpr_eval ps o a ρ]
  | .neg a, ρ => by simp only [bindExpr, eval, bindExpr_eval ps o a ρ]
  | .is k n a, ρ => by simp only [bindExpr, eval, bindExpr_eval ps o a ρ]
  | .inList n a l, ρ => by
    simp only [bindExpr, eval, bindExpr_eval ps o a ρ, bindList_eval ps o l ρ]
  | .between n a lo hi, ρ => by
    simp only [bindExpr, eval, bindExpr_eval ps o a ρ, bindExpr_eval ps o lo ρ, bindExpr_eval ps o hi ρ]
  | .case none ws none, ρ => by
    simp only [bindExpr, bindOpt, eval, pure_bind, bindWhens_eval ps o none ws ρ]
  | .case none ws (some e), ρ => by
    simp only [bindExpr, bindOpt, eval, pure_bind, bindWhens_eval ps o none ws ρ, bindExpr_eval ps o e ρ]
  | .case (some x) ws none, ρ => by
    simp only [bindExpr, bindOpt, eval, bindExpr_eval ps o x ρ, bind_assoc, pure_bind]
    congr 1; funext v
    rw [bindWhens_eval ps o (some v) ws ρ]
  | .case (some x) ws (some e), ρ => by
    simp only [bindExpr, bindOpt, eval, bindExpr_eval ps o x ρ, bindExpr_eval ps o e ρ, bind_assoc, pure_bind]
    congr 1; funext v
    rw [bindWhens_eval ps o (some v) ws ρ]
  | .coalesce l, ρ => by simp only [bindExpr, eval, bindCoalesce_eval ps o l ρ]
  | .nullif a b, ρ => by
    simp only [bindExpr, eval, bindExpr_eval ps o a ρ, bindExpr_eval ps o b ρ]
  | .cast ty t a, ρ => by simp only [bindExpr, eval, bindExpr_eval ps o a ρ]
  | .like n ci a p esc, ρ => by
    simp only [bindExpr, eval, bindExpr_eval ps o a ρ, bindExpr_eval ps o p ρ]

theorem bindList_eval (ps : Params) (o : Row) : (es : List Expr) → (ρ : Row) →
    evalList (bindList ps es) ρ { params := [], outer := o } = evalList es ρ { params := ps, outer := o }
  | [], ρ => by simp [bindList, evalList]
  | e :: es, ρ => by
    simp only [bindList, evalList, bindExpr_eval ps o e ρ, bindList_eval ps o es ρ]

theorem bindWhens_eval (ps : Params) (o : Row) (x : Option Val) : (ws : List (Expr × Expr)) → (ρ : Row) →
    evalWhens x (bindWhens ps ws) ρ { params := [], outer := o } = evalWhens x ws ρ { params := ps, outer := o }
  | [], ρ => by simp [bindWhens, evalWhens]
  | (w, t) :: rest, ρ => by
    simp only [bindWhens, evalWhens, bindExpr_eval ps o w ρ, bindExpr_eval ps o t ρ,
      bindWhens_eval ps o x rest ρ]

theorem bindCoalesce_eval (ps : Params) (o : Row) : (es : List Expr) → (ρ : Row) →
    evalCoalesce (bindList ps es) ρ { params := [], outer := o } = evalCoalesce es ρ { params := ps, outer := o }
  | [], ρ => by simp [bindList, evalCoalesce]
  | e :: es, ρ => by
    simp only [bindList, evalCoalesce, bindExpr_eval ps o e ρ, bindCoalesce_eval ps o es ρ]
end

theorem bindOpt_eval (ps : Params) (o : Row) (x : Option Expr) (ρ : Row) :
    (match bindOpt ps x with
      | none => (pure none : Except RtErr (Option Val))
      | some e => do pure (some (← eval e ρ { params := [], outer := o })))
    = (match x with
      | none => pure none
      | some e => do pure (some (← eval e ρ { params := ps, outer := o }))) := by
  cases x with
  | none => rfl
  | some e => simp only [bindOpt, bindExpr_eval ps o e ρ]

theorem evalTri_bind (ps : Params) (o : Row) (e : Expr) (ρ : Row) :
    evalTri (bindExpr ps e) ρ { params := [], outer := o } = evalTri e ρ { params := ps, outer := o } := by
  simp only [evalTri, bindExpr_eval]

theorem holds_bind (ps : Params) (o : Row) (e : Expr) (ρ : Row) :
    holds (bindExpr ps e) ρ { params := [], outer := o } = holds e ρ { params := ps, outer := o } := by
  simp only [holds, evalTri_bind]

theorem evalFilter_bind (ps : Params) (o : Row) (e : Expr) (rows : List Row) :
    evalFilter (bindExpr ps e) { params := [], outer := o } rows = evalFilter e { params := ps, outer := o } rows := by
  induction rows with
  | nil => rfl
  | cons r rs ih => simp only [evalFilter, holds_bind, ih]

theorem bindList_eq_map (ps : Params) (es : List Expr) : bindList ps es = es.map (bindExpr ps) := by
  induction es with
  | nil => rfl
  | cons e es ih => simp [bindList, ih]

theorem evalExprs_bind (ps : Params) (o : Row) (es : List Expr) (ρ : Row) :
    evalExprs (bindList ps es) ρ { params := [], outer := o } = evalExprs es ρ { params := ps, outer := o } := by
  simp only [evalExprs]
  induction es with
  | nil => rfl
  | cons e es ih => simp only [bindList, List.mapM_cons, bindExpr_eval, ih]

theorem evalProject_bind (ps : Params) (o : Row) (es : List Expr) (rows : List Row) :
    evalProject (bindList ps es) { params := [], outer := o } rows = evalProject es { params := ps, outer := o } rows := by
  simp only [evalProject]
  induction rows with
  | nil => rfl
  | cons r rs ih => simp only [List.mapM_cons, evalExprs_bind, ih]

end DfModel.Proofs.C41

namespace DfModel.Proofs.C41
open DfModel

theorem bindList_length (ps : Params) (es : List Expr) : (bindList ps es).length = es.length := by
  simp [bindList_eq_map]

theorem bindPlan_arity (ps : Params) (db : Db) (p : Plan) : (bindPlan ps p).arity db = p.arity db := by
  induction p with
  | scan n => rfl
  | values w rows => rfl
  | filter e p ih => simpa [bindPlan, Plan.arity] using ih
  | project es p _ => simp [bindPlan, Plan.arity, bindList_length]
  | join jt ne on f l r ihl ihr => simp [bindPlan, Plan.arity, ihl, ihr]
  | aggregate ks as p _ => simp [bindPlan, Plan.arity, bindList_length]
  | sort ks p ih => simpa [bindPlan, Plan.arity] using ih
  | limit s f p ih => simpa [bindPlan, Plan.arity] using ih
  | setop k all l r ihl _ => simpa [bindPlan, Plan.arity] using ihl
  | distinct p ih => simpa [bindPlan, Plan.arity] using ih
  | apply k x i sub ihi _ => simp [bindPlan, Plan.arity, ihi]

theorem bindOn_eq_map (ps : Params) (on : List (Expr × Expr)) :
    bindOn ps on = on.map (fun ab => (bindExpr ps ab.1, bindExpr ps ab.2)) := by
  induction on with
  | nil => rfl
  | cons ab rest ih => cases ab; simp [bindOn, ih]

theorem joinCond_bind (ps : Params) (o : Row) (ne : Bool) (on : List (Expr × Expr)) (f : Option Expr) (l r : Row) :
    joinCond ne (bindOn ps on) (bindOpt ps f) { params := [], outer := o } l r
      = joinCond ne on f { params := ps, outer := o } l r := by
  simp only [joinCond]
  have hk : (bindOn ps on).mapM (fun (ab : Expr × Expr) => do
        let x ← eval ab.1 l { params := [], outer := o }
        let y ← eval ab.2 r { params := [], outer := o }
        if ne then eqNullSafe x y else (eqTri x y).map Tri.isTrue)
      = on.mapM (fun (ab : Expr × Expr) => do
        let x ← eval ab.1 l { params := ps, outer := o }
        let y ← eval ab.2 r { params := ps, outer := o }
        if ne then eqNullSafe x y else (eqTri x y).map Tri.isTrue) := by
    induction on with
    | nil => rfl
    | cons ab rest ih =>
      cases ab with
      | mk a b => simp only [bindOn, List.mapM_cons, bindExpr_eval, ih]
  rw [hk]
  cases f with
  | none => rfl
  | some e => simp only [bindOpt, holds_bind]

theorem evalJoin_bind (ps : Params) (o : Row) (jt : JoinType) (ne : Bool) (on : List (Expr × Expr))
    (f : Option Expr) (wl wr : Nat) (L R : List Row) :
    evalJoin jt ne (bindOn ps on) (bindOpt ps f) { params := [], outer := o } wl wr L R
      = evalJoin jt ne on f { params := ps, outer := o } wl wr L R := by
  simp only [evalJoin, joinCond_bind]

theorem evalAgg_bind (ps : Params) (o : Row) (a : Agg) (rows : List Row) :
    evalAgg (bindAgg ps a) { params := [], outer := o } rows = evalAgg a { params := ps, outer := o } rows := by
  obtain ⟨fn, d, arg, flt⟩ := a
  cases flt with
  | none => cases fn <;> simp only [evalAgg, bindAgg, bindOpt, bindExpr_eval]
  | some f => cases fn <;> simp only [evalAgg, bindAgg, bindOpt, bindExpr_eval, evalFilter_bind]

theorem evalAggregate_bind (ps : Params) (o : Row) (ks : List Expr) (as : List Agg) (rows : List Row) :
    evalAggregate (bindList ps ks) (as.map (bindAgg ps)) { params := [], outer := o } rows
      = evalAggregate ks as { params := ps, outer := o } rows := by
  simp only [evalAggregate, evalExprs_bind, List.mapM_map, evalAgg_bind]
  have : (bindList ps ks).isEmpty = ks.isEmpty := by cases ks <;> rfl
  simp only [this, Function.comp_def, evalAgg_bind]

theorem bindKeys_fst (ps : Params) (ks : List (Expr × SortOpt)) :
    (bindKeys ps ks).map (·.1) = bindList ps (ks.map (·.1)) := by
  induction ks with
  | nil => rfl
  | cons k rest ih => cases k; simp [bindKeys, bindList, ih]

theorem bindKeys_snd (ps : Params) (ks : List (Expr × SortOpt)) : (bindKeys ps ks).map (·.2) = ks.map (·.2) := by
  induction ks with
  | nil => rfl
  | cons k rest ih => cases k; simp [bindKeys, ih]

theorem evalSort_bind (ps : Params) (o : Row) (ks : List (Expr × SortOpt)) (rows : List Row) :
    evalSort (bindKeys ps ks) { params := [], outer := o } rows = evalSort ks { params := ps, outer := o } rows := by
  simp only [evalSort, bindKeys_fst, bindKeys_snd, evalExprs_bind]

end DfModel.Proofs.C41
