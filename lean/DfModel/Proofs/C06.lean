/-
  C06 — grouped aggregation strategies refine the specification. Core Lean only.
-/
import DfModel.Mech.GroupAgg
import DfModel.Proofs.C07
namespace DfModel.Proofs.C06
open DfModel.Mech.AggAcc DfModel.Mech.GroupAgg DfModel.Proofs.C07

variable {K σ ρ : Type} [DecidableEq K]

abbrev keys (t : List (K × σ)) : List K := t.map (·.1)

theorem lookup_nil (k : K) : lookup ([] : Table K σ) k = none := rfl

theorem lookup_cons (e : K × σ) (t : Table K σ) (k : K) :
    lookup (e :: t) k = if e.1 = k then some e.2 else lookup t k := by
  simp only [lookup, List.find?_cons]
  by_cases h : e.1 = k <;> simp [h]

theorem lookup_upsert (t : Table K σ) (k k' : K) (d : σ) (f : σ → σ) :
    lookup (upsert t k d f) k' =
      if k' = k then some (f ((lookup t k).getD d)) else lookup t k' := by
  induction t with
  | nil =>
    simp only [upsert, lookup_cons, lookup_nil]
    by_cases h : k' = k
    · subst h; simp
    · have : ¬ k = k' := fun e => h e.symm
      simp [h, this]
  | cons e t ih =>
    simp only [upsert]
    by_cases he : e.1 = k
    · simp only [he, if_true, lookup_cons]
      by_cases h : k' = k
      · subst h; simp [he]
      · have : ¬ k = k' := fun e => h e.symm
        simp [h, this, he]
    · simp only [he, if_false, lookup_cons, ih]
      by_cases h : k' = k
      · subst h; simp [he]
      · simp [h]

theorem keys_upsert (t : Table K σ) (k : K) (d : σ) (f : σ → σ) :
    keys (upsert t k d f) = if k ∈ keys t then keys t else keys t ++ [k] := by
  induction t with
  | nil => simp [upsert]
  | cons e t ih =>
    simp only [upsert]
    by_cases he : e.1 = k
    · simp [he]
    · have : ¬ k = e.1 := fun x => he x.symm
      simp only [he, if_false, List.map_cons, ih, List.mem_cons, this, false_or]
      split <;> simp

theorem nodup_upsert (t : Table K σ) (k : K) (d : σ) (f : σ → σ) (h : (keys t).Nodup) :
    (keys (upsert t k d f)).Nodup := by
  rw [keys_upsert]
  split
  · exact h
  · rename_i hk
    refine List.nodup_append.mpr ⟨h, by simp, ?_⟩
    intro a ha b hb
    simp only [List.mem_singleton] at hb
    subst hb
    intro e; exact hk (e ▸ ha)

theorem lookup_none_iff (t : Table K σ) (k : K) : lookup t k = none ↔ k ∉ keys t := by
  induction t with
  | nil => simp [lookup]
  | cons e t ih =>
    rw [lookup_cons]
    by_cases h : e.1 = k
    · simp [h]
    · have : ¬ k = e.1 := fun x => h x.symm
      simp [h, ih, this]

/-! ### hash aggregation of rows -/

theorem valsOf_nil (k : K) : valsOf k ([] : List (Row K)) = [] := rfl
theorem valsOf_cons (k : K) (r : Row K) (rows : List (Row K)) :
    valsOf k (r :: rows) = if r.1 = k then r.2 :: valsOf k rows else valsOf k rows := by
  simp only [valsOf, List.filter_cons]
  by_cases h : r.1 = k <;> simp [h]
theorem valsOf_append (k : K) (xs ys : List (Row K)) : valsOf k (xs ++ ys) = valsOf k xs ++ valsOf k ys := by
  simp [valsOf, List.filter_append]
theorem valsOf_of_not_any (k : K) (rows : List (Row K)) (h : rows.any (fun r => r.1 = k) = false) :
    valsOf k rows = [] := by
  induction rows with
  | nil => rfl
  | cons r rows ih =>
    simp only [List.any_cons, Bool.or_eq_false_iff, decide_eq_false_iff_not] at h
    rw [valsOf_cons, if_neg h.1, ih h.2]

theorem nodup_aggRows (a : Acc σ ρ) (t : Table K σ) (rows : List (Row K)) (h : (keys t).Nodup) :
    (keys (aggRows a t rows)).Nodup := by
  induction rows generalizing t with
  | nil => exact h
  | cons r rows ih => exact ih _ (nodup_upsert t _ _ _ h)

theorem lookup_aggRows (a : Acc σ ρ) (t : Table K σ) (rows : List (Row K)) (k : K) :
    lookup (aggRows a t rows) k =
      match lookup t k with
      | some s => some (a.update s (valsOf k rows))
      | none => if rows.any (fun r => r.1 = k) then some (a.update a.init (valsOf k rows)) else none := by
  induction rows generalizing t with
  | nil => cases h : lookup t k <;> simp [aggRows, Acc.update, valsOf_nil, h]
  | cons r rows ih =>
    simp only [aggRows, List.foldl_cons] at ih ⊢
    rw [ih, lookup_upsert, valsOf_cons, List.any_cons]
    by_cases h : k = r.1
    · subst h
      cases hl : lookup t r.1 <;> simp [Acc.update]
    · have h' : ¬ r.1 = k := fun e => h e.symm
      simp only [h, if_false, h', decide_false, Bool.false_or]

theorem lookup_partialAgg (a : Acc σ ρ) (rows : List (Row K)) (k : K) :
    lookup (partialAgg a rows) k =
      if rows.any (fun r => r.1 = k) then some (a.update a.init (valsOf k rows)) else none := by
  simp [partialAgg, lookup_aggRows, lookup_nil]

/-! ### merging state tables -/

theorem nodup_mergeTable (a : Acc σ ρ) (t st : Table K σ) (h : (keys t).Nodup) :
    (keys (mergeTable a t st)).Nodup := by
  induction st generalizing t with
  | nil => exact h
  | cons e st ih => exact ih _ (nodup_upsert t _ _ _ h)

/-- with at most one state row per key, merging a table of state rows merges that one state -/
theorem lookup_mergeTable (a : Acc σ ρ) (t st : Table K σ) (hst : (keys st).Nodup) (k : K) :
    lookup (mergeTable a t st) k =
      match lookup st k with
      | none => lookup t k
      | some s => some (a.merge ((lookup t k).getD a.init) s) := by
  induction st generalizing t with
  | nil => simp [mergeTable, lookup_nil]
  | cons e st ih =>
    have hn := List.nodup_cons.mp hst
    simp only [mergeTable, List.foldl_cons] at ih ⊢
    rw [ih _ hn.2, lookup_cons, lookup_upsert]
    by_cases h : e.1 = k
    · subst h
      have : lookup st e.1 = none := (lookup_none_iff st e.1).mpr hn.1
      simp [this]
    · have h' : ¬ k = e.1 := fun x => h x.symm
      simp only [h, if_false, h']

/-- **core**: merging the partial tables of consecutive parts = aggregating the concatenation
    (state by state, for every key) -/
theorem lookup_finalAgg {I : σ → Prop} (a : Acc σ ρ) (hl : MergeLaws a I) (parts : List (List (Row K))) (k : K) :
    lookup (finalAgg a (parts.map (partialAgg a))) k = lookup (partialAgg a parts.flatten) k := by
  suffices ∀ (pre : List (Row K)) (t : Table K σ), lookup t k = lookup (partialAgg a pre) k →
      lookup ((parts.map (partialAgg a)).foldl (mergeTable a) t) k = lookup (partialAgg a (pre ++ parts.flatten)) k by
    simpa [finalAgg] using this [] [] rfl
  induction parts with
  | nil => intro pre t h; simpa using h
  | cons p ps ih =>
    intro pre t h
    simp only [List.map_cons, List.foldl_cons, List.flatten_cons]
    rw [← List.append_assoc]
    apply ih (pre ++ p)
    rw [lookup_mergeTable a t (partialAgg a p) (nodup_aggRows a [] p List.nodup_nil), h]
    simp only [lookup_partialAgg, valsOf_append, List.any_append]
    cases hp : p.any (fun r => decide (r.1 = k)) <;> cases hq : pre.any (fun r => decide (r.1 = k))
    · simp [valsOf_of_not_any k p hp]
    · simp [valsOf_of_not_any k p hp]
    · simp only [Bool.false_or, if_true, Option.getD_none, Bool.false_eq_true, if_false]
      rw [valsOf_of_not_any k pre hq, List.nil_append, merge_update hl _ hl.inv_init]
    · simp only [Bool.true_or, Bool.or_true, if_true, Option.getD_some]
      rw [merge_hom hl]

end DfModel.Proofs.C06
