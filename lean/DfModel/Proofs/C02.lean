/-
  C02 helper lemmas: operators distribute over partitions; partition-wise joins.  Core Lean only.
-/
import DfModel.Mech.Partitioned
namespace DfModel.Proofs.C02
open DfModel DfModel.Mech.Partitioned

/-! ## per-partition operators -/

/-- an operator that can be run batch by batch / partition by partition -/
def Distributes (f : List Row → Except RtErr (List Row)) : Prop :=
  f [] = .ok [] ∧ ∀ xs ys, f (xs ++ ys) = (do let a ← f xs; let b ← f ys; pure (a ++ b))

theorem distributes_parts (f : List Row → Except RtErr (List Row)) (hf : Distributes f) (ps : Parts) :
    (perPartition f ps).map whole = f (whole ps) := by
  induction ps with
  | nil => simp [perPartition, whole, hf.1, Except.map, pure, Except.pure]
  | cons p ps ih =>
    simp only [perPartition, whole, List.mapM_cons, List.flatten_cons, hf.2] at ih ⊢
    rw [← ih]
    cases f p with
    | error e => rfl
    | ok a =>
      cases ps.mapM f with
      | error e => rfl
      | ok bs => rfl

theorem evalFilter_distributes (e : Expr) (env : Env) : Distributes (evalFilter e env) := by
  refine ⟨rfl, ?_⟩
  intro xs ys
  induction xs with
  | nil =>
    simp only [List.nil_append, evalFilter]
    cases evalFilter e env ys <;> rfl
  | cons r rs ih =>
    simp only [List.cons_append, evalFilter, ih]
    cases holds e r env with
    | error _ => rfl
    | ok b =>
      cases evalFilter e env rs with
      | error _ => rfl
      | ok a =>
        cases evalFilter e env ys with
        | error _ => rfl
        | ok c => cases b <;> rfl

theorem evalProject_distributes (es : List Expr) (env : Env) : Distributes (evalProject es env) := by
  refine ⟨rfl, ?_⟩
  intro xs ys
  simp only [evalProject, List.mapM_append]

/-! ## permutations of concatenations -/

theorem flatMap_nil' {α β : Type} (l : List α) (f : α → List β) (h : ∀ a ∈ l, f a = []) : l.flatMap f = [] := by
  induction l with
  | nil => rfl
  | cons a as ih =>
    simp only [List.flatMap_cons, h a (by simp), List.nil_append]
    exact ih (fun b hb => h b (by simp [hb]))

theorem flatMap_congr' {α β : Type} (l : List α) (f g : α → List β) (h : ∀ a ∈ l, f a = g a) :
    l.flatMap f = l.flatMap g := by
  induction l with
  | nil => rfl
  | cons a as ih =>
    simp only [List.flatMap_cons, h a (by simp)]
    rw [ih (fun b hb => h b (by simp [hb]))]

theorem flatMap_append_perm {α β : Type} (l : List α) (g h : α → List β) :
    (l.flatMap (fun i => g i ++ h i)).Perm (l.flatMap g ++ l.flatMap h) := by
  induction l with
  | nil => exact List.Perm.refl _
  | cons a as ih =>
    simp only [List.flatMap_cons]
    -- (g a ++ h a) ++ X  ~  (g a ++ G) ++ (h a ++ H)   with X ~ G ++ H
    have h1 : (g a ++ h a ++ as.flatMap (fun i => g i ++ h i)).Perm (g a ++ h a ++ (as.flatMap g ++ as.flatMap h)) :=
      List.Perm.append_left _ ih
    refine h1.trans ?_
    rw [List.append_assoc, List.append_assoc]
    refine List.Perm.append_left _ ?_
    rw [← List.append_assoc, ← List.append_assoc]
    exact List.Perm.append_right _ List.perm_append_comm

theorem flatMap_ite_range {β : Type} (n k : Nat) (hk : k < n) (x : List β) :
    (List.range n).flatMap (fun i => if k = i then x else []) = x := by
  induction n with
  | zero => omega
  | succ m ih =>
    rw [List.range_succ, List.flatMap_append]
    by_cases hkm : k = m
    · subst hkm
      rw [flatMap_nil' (List.range k) _ (fun a ha => by
        have : a < k := List.mem_range.mp ha
        simp; omega)]
      simp
    · rw [ih (by omega)]
      simp [hkm]

/-- splitting a list by a class function `c` with `n` classes and concatenating the per-class
    results gives a permutation of the unsplit result -/
theorem partition_flatMap_perm {α β : Type} (n : Nat) (c : α → Nat) (hc : ∀ a, c a < n) (L : List α) (f : α → List β) :
    ((List.range n).flatMap (fun i => (L.filter (fun a => c a == i)).flatMap f)).Perm (L.flatMap f) := by
  induction L with
  | nil =>
    simp only [List.filter_nil, List.flatMap_nil]
    rw [flatMap_nil' _ _ (fun _ _ => rfl)]
  | cons a as ih =>
    have hstep : ∀ i, ((a :: as).filter (fun a => c a == i)).flatMap f
        = (if c a = i then f a else []) ++ (as.filter (fun a => c a == i)).flatMap f := by
      intro i
      by_cases h : c a = i
      · simp [List.filter_cons, h]
      · simp [List.filter_cons, h]
    simp only [hstep]
    refine (flatMap_append_perm (List.range n) _ _).trans ?_
    rw [flatMap_ite_range n (c a) (hc a) (f a)]
    simp only [List.flatMap_cons]
    exact List.Perm.append_left _ ih

/-! ## joins driven by the left rows -/

/-- what a left-driven join emits for one left row (it looks at the right side only through the
    partners of that row) -/
def perLeft (θ : Row → Row → Bool) (jt : JoinType) (wr : Nat) (R : List Row) (l : Row) : List Row :=
  match jt with
  | .inner => (R.filter (θ l)).map (l ++ ·)
  | .left => if R.any (θ l) then (R.filter (θ l)).map (l ++ ·) else [l ++ nulls wr]
  | .leftSemi => if R.any (θ l) then [l] else []
  | .leftAnti => if !R.any (θ l) then [l] else []
  | .leftMark => [l ++ [Val.bool (R.any (θ l))]]
  | _ => []

def leftDriven : JoinType → Bool
  | .inner | .left | .leftSemi | .leftAnti | .leftMark => true
  | _ => false

theorem filter_eq_flatMap {α : Type} (p : α → Bool) (l : List α) :
    l.filter p = l.flatMap (fun a => if p a then [a] else []) := by
  induction l with
  | nil => rfl
  | cons a as ih => by_cases h : p a <;> simp [List.filter_cons, h, ih]

theorem map_eq_flatMap {α β : Type} (g : α → β) (l : List α) : l.map g = l.flatMap (fun a => [g a]) := by
  induction l with
  | nil => rfl
  | cons a as ih => simp [ih]

theorem joinRows_perLeft (θ : Row → Row → Bool) (jt : JoinType) (wl wr : Nat) (L R : List Row) (h : leftDriven jt = true) :
    joinRows θ jt wl wr L R = L.flatMap (perLeft θ jt wr R) := by
  cases jt <;> simp [leftDriven] at h
  · rfl
  · rfl
  · simp only [joinRows, semiJoin, filter_eq_flatMap]; rfl
  · simp only [joinRows, antiJoin, filter_eq_flatMap]; rfl
  · simp only [joinRows, leftMarkJoin, map_eq_flatMap]; rfl

theorem filter_filter_of_imp {α : Type} (p q : α → Bool) (l : List α) (h : ∀ a, q a = true → p a = true) :
    (l.filter p).filter q = l.filter q := by
  induction l with
  | nil => rfl
  | cons a as ih =>
    by_cases hq : q a = true
    · simp [List.filter_cons, h a hq, hq, ih]
    · by_cases hp : p a = true
      · simp [List.filter_cons, hp, hq, ih]
      · simp [List.filter_cons, hp, hq, ih]

theorem any_filter_of_imp {α : Type} (p q : α → Bool) (l : List α) (h : ∀ a, q a = true → p a = true) :
    (l.filter p).any q = l.any q := by
  induction l with
  | nil => rfl
  | cons a as ih =>
    by_cases hq : q a = true
    · simp [List.filter_cons, h a hq, hq]
    · by_cases hp : p a = true
      · simp [List.filter_cons, hp, hq, ih]
      · simp [List.filter_cons, hp, hq, ih]

/-- a left row sees the same partners in the co-located right partition as in the whole right side -/
theorem perLeft_colocated (θ : Row → Row → Bool) (jt : JoinType) (wr : Nat) (R : List Row) (p : Row → Bool) (l : Row)
    (h : ∀ r, θ l r = true → p r = true) : perLeft θ jt wr (R.filter p) l = perLeft θ jt wr R l := by
  cases jt <;> simp only [perLeft, filter_filter_of_imp p (θ l) R h, any_filter_of_imp p (θ l) R h]

end DfModel.Proofs.C02
