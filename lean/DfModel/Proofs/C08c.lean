/-
  C08 — top-k, judges, "equal up to ties", partial sort. Core Lean only.
-/
import DfModel.Proofs.C08b
namespace DfModel.Proofs.C08
open DfModel.Mech.SortMerge
variable {α : Type} {le : α → α → Bool} {P : α → Prop}

/-! ### TopK -/

structure TopKInv (le : α → α → Bool) (k : Nat) (seen : List α) (st : List α × List α) : Prop where
  sorted : Sorted le st.1
  len : st.1.length = min k seen.length
  perm : (st.1 ++ st.2).Perm seen
  dom : ∀ t ∈ st.1, ∀ d ∈ st.2, le t d = true

theorem insertS_length (a : α) (l : List α) : (insertS le a l).length = l.length + 1 := by
  simpa using (insertS_perm (le := le) a l).length_eq

theorem sorted_le_last (h : TotalPreorderOn le P) {init : List α} {m : α}
    (hs : Sorted le (init ++ [m])) : ∀ t ∈ init ++ [m], le t m = true := by
  intro t ht
  rcases List.mem_append.mp ht with h1 | h1
  · exact (List.pairwise_append.mp hs).2.2 t h1 m (by simp)
  · simp only [List.mem_singleton] at h1; subst h1; exact h.refl _

theorem topKInsert_inv (h : TotalPreorderOn le P) (k : Nat) (seen : List α) (st : List α × List α)
    (a : α) (hP : AllP P (a :: seen)) (inv : TopKInv le k seen st) :
    TopKInv le k (seen ++ [a]) (topKInsert le k st a) := by
  obtain ⟨kept, dropped⟩ := st
  obtain ⟨hs, hl, hp, hd⟩ := inv
  simp only at hs hl hp hd
  have hPa : P a := hP a (by simp)
  have hPk : AllP P kept := fun x hx => hP x (by simp [hp.subset (List.mem_append_left _ hx)])
  have hPd : AllP P dropped := fun x hx => hP x (by simp [hp.subset (List.mem_append_right _ hx)])
  have hlen := hp.length_eq
  simp only [List.length_append] at hlen
  simp only [topKInsert]
  split
  · rename_i hlt
    have hd0 : dropped = [] := List.eq_nil_of_length_eq_zero (by omega)
    subst hd0
    refine ⟨insertS_sorted h a kept hs ?_, ?_, ?_, ?_⟩
    · intro x hx
      rcases List.mem_cons.mp hx with rfl | hx
      · exact hPa
      · exact hPk x hx
    · simp only [insertS_length, List.length_append, List.length_cons, List.length_nil]; omega
    · simp only [List.append_nil] at hp ⊢
      exact (insertS_perm a kept).trans ((List.Perm.cons a hp).trans (List.perm_append_singleton a _).symm)
    · intro t _ d hd'; simp at hd'
  · rename_i hge
    cases hgl : kept.getLast? with
    | none =>
      have : kept = [] := by simpa using hgl
      subst this
      refine ⟨by simp, ?_, ?_, by simp⟩
      · simp only [List.length_nil, List.length_append, List.length_cons] at hl ⊢; omega
      · simp only [List.nil_append] at hp ⊢
        exact (List.Perm.cons a hp).trans (List.perm_append_singleton a _).symm
    | some m =>
      have hkm : kept.dropLast ++ [m] = kept := by
        have hne : kept ≠ [] := by intro h0; simp [h0] at hgl
        have := List.dropLast_concat_getLast hne
        rw [List.getLast?_eq_some_getLast hne] at hgl
        simp only [Option.some.injEq] at hgl
        rw [hgl] at this; exact this
      have hlast := sorted_le_last h (init := kept.dropLast) (m := m) (by rw [hkm]; exact hs)
      rw [hkm] at hlast
      have hmk : m ∈ kept := by rw [← hkm]; simp
      simp only
      split
      · rename_i hma
        refine ⟨hs, ?_, ?_, ?_⟩
        · simp only [List.length_append, List.length_cons, List.length_nil]; omega
        · exact (List.perm_middle).trans ((List.Perm.cons a hp).trans (List.perm_append_singleton a _).symm)
        · intro t ht d hd'
          rcases List.mem_cons.mp hd' with rfl | hd'
          · exact h.trans t m _ (hPk t ht) (hPk m hmk) hPa (hlast t ht) hma
          · exact hd t ht d hd'
      · rename_i hma
        have ham : le a m = true := h.of_not hma
        have hinit_sub : ∀ x ∈ kept.dropLast, x ∈ kept := fun x hx => by rw [← hkm]; simp [hx]
        have hsi : Sorted le kept.dropLast := by
          have := hs; rw [← hkm] at this; exact (List.pairwise_append.mp this).1
        refine ⟨insertS_sorted h a _ hsi ?_, ?_, ?_, ?_⟩
        · intro x hx
          rcases List.mem_cons.mp hx with rfl | hx
          · exact hPa
          · exact hPk x (hinit_sub x hx)
        · have : kept.length = kept.dropLast.length + 1 := by
            conv => lhs; rw [← hkm]
            simp
          simp only [insertS_length, List.length_append, List.length_cons, List.length_nil]; omega
        · have p1 : (insertS le a kept.dropLast ++ m :: dropped).Perm (a :: (kept.dropLast ++ m :: dropped)) :=
            List.Perm.append_right _ (insertS_perm a _)
          have p2 : (kept.dropLast ++ m :: dropped) = kept ++ dropped := by
            conv => rhs; rw [← hkm]
            simp
          rw [p2] at p1
          exact p1.trans ((List.Perm.cons a hp).trans (List.perm_append_singleton a _).symm)
        · intro t ht d hd'
          simp only at ht hd'
          rcases List.mem_cons.mp ((insertS_perm a _).subset ht) with rfl | ht
          · rcases List.mem_cons.mp hd' with rfl | hd'
            · exact ham
            · exact h.trans _ m d hPa (hPk m hmk) (hPd d hd') ham (hd m hmk d hd')
          · rcases List.mem_cons.mp hd' with rfl | hd'
            · exact hlast t (hinit_sub t ht)
            · exact hd t (hinit_sub t ht) d hd'

theorem topKGo_inv (h : TotalPreorderOn le P) (k : Nat) (xs seen : List α) (st : List α × List α)
    (hP : AllP P (seen ++ xs)) (inv : TopKInv le k seen st) :
    TopKInv le k (seen ++ xs) (xs.foldl (topKInsert le k) st) := by
  induction xs generalizing seen st with
  | nil => simpa using inv
  | cons a xs ih =>
    simp only [List.foldl_cons]
    have := ih (seen ++ [a]) (topKInsert le k st a) (by simpa using hP)
      (topKInsert_inv h k seen st a (fun x hx => hP x (by
        rcases List.mem_cons.mp hx with rfl | hx <;> simp_all)) inv)
    simpa using this

/-! ### judges -/

theorem sortedB_sound (h : TotalPreorderOn le P) (l : List α) (hP : AllP P l)
    (hb : sortedB le l = true) : Sorted le l := by
  induction l with
  | nil => simp
  | cons a l ih =>
    cases l with
    | nil => simp
    | cons b l =>
      simp only [sortedB, Bool.and_eq_true] at hb
      have ihs := ih (fun x hx => hP x (by simp [hx])) hb.2
      refine List.pairwise_cons.mpr ⟨?_, ihs⟩
      intro x hx
      rcases List.mem_cons.mp hx with rfl | hx
      · exact hb.1
      · exact h.trans a b x (hP a (by simp)) (hP b (by simp)) (hP x (by simp [hx])) hb.1
          ((List.pairwise_cons.mp ihs).1 x hx)

theorem sortedB_complete (l : List α) (hs : Sorted le l) : sortedB le l = true := by
  induction l with
  | nil => rfl
  | cons a l ih =>
    cases l with
    | nil => rfl
    | cons b l =>
      have := List.pairwise_cons.mp hs
      simp only [sortedB, Bool.and_eq_true]
      exact ⟨this.1 b (by simp), ih this.2⟩

theorem bagDiff_sound [BEq α] [LawfulBEq α] (l out rest : List α)
    (hb : bagDiff l out = some rest) : (out ++ rest).Perm l := by
  induction out generalizing l with
  | nil => simp only [bagDiff, Option.some.injEq] at hb; subst hb; simp
  | cons a as ih =>
    simp only [bagDiff] at hb
    split at hb
    · rename_i hc
      have hmem : a ∈ l := by simpa using hc
      have := ih (l.erase a) hb
      exact (List.Perm.cons a this).trans (List.perm_cons_erase hmem).symm
    · simp at hb

/-- the sort judge is sound: `ok` implies sorted ∧ permutation -/
theorem judgeSort_sound [BEq α] [LawfulBEq α] (h : TotalPreorderOn le P) (full : α → α → Bool)
    (inp out : List α) (hP : AllP P out) (hj : judgeSort le full inp out = .ok) :
    Sorted le out ∧ out.Perm inp := by
  simp only [judgeSort] at hj
  split at hj
  · simp at hj
  · rename_i h1
    split at hj
    · simp at hj
    · split at hj
      · simp at hj
      · rename_i h3
        refine ⟨sortedB_sound h out hP (by simpa using h1), ?_⟩
        have heq : inp.mergeSort full = out.mergeSort full := by simpa using h3
        exact (List.mergeSort_perm out full).symm.trans (heq ▸ List.mergeSort_perm inp full)

/-- the top-k judge is sound -/
theorem judgeTopK_sound [BEq α] [LawfulBEq α] (h : TotalPreorderOn le P) (k : Nat)
    (inp out : List α) (hP : AllP P out) (hj : judgeTopK le k inp out = .ok) :
    Sorted le out ∧ out.length = min k inp.length ∧
    ∃ dropped, (out ++ dropped).Perm inp ∧ ∀ t ∈ out, ∀ d ∈ dropped, le t d = true := by
  simp only [judgeTopK] at hj
  split at hj
  · simp at hj
  · rename_i h1
    split at hj
    · simp at hj
    · rename_i h2
      split at hj
      · simp at hj
      · rename_i rest hbd
        split at hj
        · rename_i hall
          refine ⟨sortedB_sound h out hP (by simpa using h1), by simpa using h2, rest,
            bagDiff_sound inp out rest hbd, ?_⟩
          simpa [List.all_eq_true] using hall
        · simp at hj

/-! ### equal up to ties -/

/-- Two sorted permutations of the same rows agree on every position up to ties: their key
    sequences are EQUAL, for any key projection through which `le` factors and on which it is
    antisymmetric. -/
theorem sorted_perm_keys_eq {κ : Type} (key : α → κ) (leK : κ → κ → Bool)
    (hfac : ∀ a b, le a b = leK (key a) (key b))
    (l₁ l₂ : List α)
    (hanti : ∀ a ∈ l₁, ∀ b ∈ l₂, leK (key a) (key b) = true → leK (key b) (key a) = true → key a = key b)
    (h₁ : Sorted le l₁) (h₂ : Sorted le l₂) (hp : l₁.Perm l₂) :
    l₁.map key = l₂.map key := by
  apply List.Perm.eq_of_pairwise (le := fun x y => leK x y = true)
  · intro x y hx hy hxy hyx
    obtain ⟨a, ha, rfl⟩ := List.mem_map.mp hx
    obtain ⟨b, hb, rfl⟩ := List.mem_map.mp hy
    exact hanti a ha b hb hxy hyx
  · rw [List.pairwise_map]; exact h₁.imp (fun {a b} hab => by rw [← hfac]; exact hab)
  · rw [List.pairwise_map]; exact h₂.imp (fun {a b} hab => by rw [← hfac]; exact hab)
  · exact hp.map key

/-! ### partial sort -/

theorem runsBy_flatten (eqv : α → α → Bool) (xs : List α) : (runsBy eqv xs).flatten = xs := by
  induction xs with
  | nil => rfl
  | cons a l ih =>
    simp only [runsBy]
    split
    · rename_i hr; rw [hr] at ih; simp at ih; simp [ih]
    · rename_i b r rs hr
      rw [hr] at ih
      split <;> simp_all
    · rename_i rs hr; rw [hr] at ih; simp_all

/-- sorting consecutive chunks whose rows are ordered across chunks gives a sorted permutation -/
theorem chunks_sorted_perm (h : TotalPreorderOn le P) (cs : List (List α))
    (hP : AllPP P cs)
    (hcross : cs.Pairwise (fun c d => ∀ a ∈ c, ∀ b ∈ d, le a b = true)) :
    Sorted le ((cs.map (isort le)).flatten) ∧ ((cs.map (isort le)).flatten).Perm cs.flatten := by
  induction cs with
  | nil => simp
  | cons c cs ih =>
    have hc := List.pairwise_cons.mp hcross
    obtain ⟨i1, i2⟩ := ih (fun s hs => hP s (by simp [hs])) hc.2
    simp only [List.map_cons, List.flatten_cons]
    refine ⟨List.pairwise_append.mpr ⟨isort_sorted h c (hP c (by simp)), i1, ?_⟩,
      List.Perm.append (isort_perm c) i2⟩
    intro a ha b hb
    have ha' : a ∈ c := (isort_perm c).subset ha
    have hb' : b ∈ cs.flatten := i2.subset hb
    obtain ⟨d, hd, hbd⟩ := List.mem_flatten.mp hb'
    exact hc.1 d hd a ha' b hbd

end DfModel.Proofs.C08
