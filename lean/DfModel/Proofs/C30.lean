/-
  C30 helper lemmas: value-level facts for type soundness.  Core Lean only.
-/
import DfModel.Sql.Typing
namespace DfModel.Proofs.C30
open DfModel

/-- `v : (τ, nullable)` as a proposition -/
def Okv (v : Val) (t : Ty × Bool) : Prop := v.hasTy t.1 = true ∧ (t.2 = false → v.isNull = false)

theorem okv_iff (v : Val) (t : Ty × Bool) : Okv v t ↔ v.conforms t = true := by
  simp only [Okv, Val.conforms, Bool.and_eq_true, Bool.or_eq_true, Bool.not_eq_true']
  constructor
  · rintro ⟨h1, h2⟩
    refine ⟨h1, ?_⟩
    cases ht : t.2 with
    | true => exact Or.inl rfl
    | false => exact Or.inr (h2 ht)
  · rintro ⟨h1, h2⟩
    refine ⟨h1, ?_⟩
    intro ht
    rcases h2 with h | h
    · rw [ht] at h; cases h
    · exact h

theorem hasTy_null (t : Ty) : Val.null.hasTy t = true := by cases t <;> rfl

theorem hasTy_nullTy (v : Val) (h : v.hasTy .null = true) : v = .null := by
  cases v <;> simp_all [Val.hasTy]

theorem hasTy_ty (v : Val) : v.hasTy v.ty = true := by
  cases v <;> simp [Val.hasTy, Val.ty]

theorem hasTy_unify_left (a b t : Ty) (v : Val) (hu : unifyTy a b = some t) (h : v.hasTy a = true) :
    v.hasTy t = true := by
  cases a with
  | null => rw [hasTy_nullTy v h]; exact hasTy_null t
  | int w s =>
    cases b <;> simp_all [unifyTy]
    all_goals (try (obtain ⟨⟨rfl, rfl⟩, rfl⟩ := hu; exact h))
    all_goals (try (subst hu; exact h))
  | bool =>
    cases b <;> simp_all [unifyTy]
    all_goals (try (subst hu; exact h))
  | str =>
    cases b <;> simp_all [unifyTy]
    all_goals (try (subst hu; exact h))

theorem hasTy_unify_right (a b t : Ty) (v : Val) (hu : unifyTy a b = some t) (h : v.hasTy b = true) :
    v.hasTy t = true := by
  cases b with
  | null => rw [hasTy_nullTy v h]; exact hasTy_null t
  | int w s =>
    cases a <;> simp_all [unifyTy]
    all_goals (try (obtain ⟨⟨rfl, rfl⟩, rfl⟩ := hu; exact h))
    all_goals (try (subst hu; exact h))
  | bool =>
    cases a <;> simp_all [unifyTy]
    all_goals (try (subst hu; exact h))
  | str =>
    cases a <;> simp_all [unifyTy]
    all_goals (try (subst hu; exact h))

theorem unifyE_ok (a b t : Ty) : unifyE a b = .ok t ↔ unifyTy a b = some t := by
  simp only [unifyE]
  cases unifyTy a b <;> simp

theorem rowConforms_get (ρ : Row) (Γ : Schema) (h : rowConforms ρ Γ = true) (i : Nat) (v : Val) (t : Ty × Bool)
    (hv : ρ[i]? = some v) (ht : Γ[i]? = some t) : Okv v t := by
  induction ρ generalizing Γ i with
  | nil => simp at hv
  | cons x xs ih =>
    cases Γ with
    | nil => simp at ht
    | cons y ys =>
      simp only [rowConforms, Bool.and_eq_true] at h
      cases i with
      | zero =>
        simp at hv ht
        subst hv ht
        exact (okv_iff _ _).mpr h.1
      | succ k =>
        simp at hv ht
        exact ih ys h.2 k hv ht

/-! ## the scalar operations produce values of the declared type -/

theorem toVal_bool (x : Tri) : x.toVal.hasTy .bool = true := by cases x <;> rfl

theorem ofVal_nonnull (a : Val) (x : Tri) (h : Tri.ofVal? a = some x) (hn : a.isNull = false) : x ≠ .u := by
  cases a with
  | null => simp [Val.isNull] at hn
  | bool b => cases b <;> simp [Tri.ofVal?] at h <;> subst h <;> simp
  | int _ _ _ => simp [Tri.ofVal?] at h
  | str _ => simp [Tri.ofVal?] at h

theorem toVal_nonnull (x : Tri) (h : x ≠ .u) : x.toVal.isNull = false := by
  cases x <;> simp_all [Tri.toVal, Val.isNull]

theorem and_nonu (x y : Tri) (hx : x ≠ .u) (hy : y ≠ .u) : Tri.and x y ≠ .u := by
  cases x <;> cases y <;> simp_all [Tri.and]
theorem or_nonu (x y : Tri) (hx : x ≠ .u) (hy : y ≠ .u) : Tri.or x y ≠ .u := by
  cases x <;> cases y <;> simp_all [Tri.or]
theorem not_nonu (x : Tri) (hx : x ≠ .u) : x.not ≠ .u := by
  cases x <;> simp_all [Tri.not]

theorem eqTri_nonnull (a b : Val) (x : Tri) (h : eqTri a b = .ok x) (ha : a.isNull = false) (hb : b.isNull = false) :
    x ≠ .u := by
  cases a <;> cases b <;> simp_all [eqTri, Val.isNull]
  all_goals (split at h <;> simp_all [Tri.ofBool])
  all_goals (subst h; split <;> simp)

/-- arithmetic, comparison, logic, concatenation: result of the declared type, non-NULL when both
    operands are declared NOT NULL -/
theorem typeBin_sound (op : BinOp) (ta tb t : Ty × Bool) (x y v : Val)
    (ht : typeBin op ta tb = .ok t) (hx : Okv x ta) (hy : Okv y tb) (hv : evalBin op x y = .ok v) : Okv v t := by
  obtain ⟨hx1, hx2⟩ := hx
  obtain ⟨hy1, hy2⟩ := hy
  cases op
  -- add sub mul div mod
  case add | sub | mul | div | mod =>
    simp only [typeBin, bind, Except.bind] at ht
    cases hu : unifyE ta.1 tb.1 with
    | error _ => simp [hu] at ht
    | ok u =>
      simp only [hu] at ht
      split at ht
      · rename_i hint
        simp only [pure, Except.pure, Except.ok.injEq] at ht
        subst ht
        have hu' := (unifyE_ok _ _ _).mp hu
        refine ⟨?_, ?_⟩
        · cases x <;> cases y <;> simp [evalBin] at hv
          all_goals (try (subst hv; exact hasTy_null u))
          rename_i w s a w' s' b
          have hxa := hasTy_unify_left _ _ _ _ hu' hx1
          split at hv
          · rename_i hws
            obtain ⟨rfl, rfl⟩ := hws
            first
              | (simp only [Except.ok.injEq] at hv; subst hv; cases u <;> simp_all [Val.hasTy])
              | (simp only [intDiv, intMod] at hv
                 split at hv
                 · cases hv
                 · first
                     | (split at hv
                        · cases hv
                        · simp only [Except.ok.injEq] at hv; subst hv; cases u <;> simp_all [Val.hasTy])
                     | (simp only [Except.ok.injEq] at hv; subst hv; cases u <;> simp_all [Val.hasTy]))
          · cases hv
        · intro hn
          simp only [Bool.or_eq_false_iff] at hn
          have hxn := hx2 hn.1
          have hyn := hy2 hn.2
          cases x <;> cases y <;> simp [evalBin, Val.isNull] at hv hxn hyn ⊢
          split at hv
          · first
              | (simp only [Except.ok.injEq] at hv; subst hv; rfl)
              | (simp only [intDiv, intMod] at hv
                 split at hv
                 · cases hv
                 · first
                     | (split at hv
                        · cases hv
                        · simp only [Except.ok.injEq] at hv; subst hv; rfl)
                     | (simp only [Except.ok.injEq] at hv; subst hv; rfl))
          · cases hv
      · cases ht
  -- comparisons
  case eq | ne | lt | le | gt | ge =>
    simp only [typeBin, bind, Except.bind] at ht
    cases hu : unifyE ta.1 tb.1 with
    | error _ => simp [hu] at ht
    | ok u =>
      simp only [hu, pure, Except.pure, Except.ok.injEq] at ht
      subst ht
      refine ⟨?_, ?_⟩
      · cases x <;> cases y <;> simp [evalBin] at hv
        all_goals (try (subst hv; rfl))
        all_goals (split at hv <;> simp_all)
        all_goals (try (subst hv; rfl))
      · intro hn
        simp only [Bool.or_eq_false_iff] at hn
        have hxn := hx2 hn.1
        have hyn := hy2 hn.2
        cases x <;> cases y <;> simp [evalBin, Val.isNull] at hv hxn hyn ⊢
        all_goals (split at hv <;> simp_all)
        all_goals (try (subst hv; rfl))
  case and | or =>
    simp only [typeBin] at ht
    split at ht
    · simp only [pure, Except.pure, Except.ok.injEq] at ht
      subst ht
      simp only [evalBin] at hv
      cases hox : Tri.ofVal? x with
      | none => simp [hox] at hv
      | some tx =>
        cases hoy : Tri.ofVal? y with
        | none => simp [hox, hoy] at hv
        | some ty =>
          simp only [hox, hoy, Except.ok.injEq] at hv
          subst hv
          refine ⟨toVal_bool _, ?_⟩
          intro hn
          simp only [Bool.or_eq_false_iff] at hn
          first
            | exact toVal_nonnull _ (and_nonu _ _ (ofVal_nonnull x tx hox (hx2 hn.1)) (ofVal_nonnull y ty hoy (hy2 hn.2)))
            | exact toVal_nonnull _ (or_nonu _ _ (ofVal_nonnull x tx hox (hx2 hn.1)) (ofVal_nonnull y ty hoy (hy2 hn.2)))
    · cases ht
  case distinct | notDistinct =>
    simp only [typeBin, bind, Except.bind] at ht
    cases hu : unifyE ta.1 tb.1 with
    | error _ => simp [hu] at ht
    | ok u =>
      simp only [hu, pure, Except.pure, Except.ok.injEq] at ht
      subst ht
      simp only [evalBin, Except.map] at hv
      cases he : eqNullSafe x y with
      | error _ => simp [he] at hv
      | ok b =>
        simp only [he, Except.ok.injEq] at hv
        subst hv
        exact ⟨rfl, fun _ => rfl⟩
  case concat =>
    simp only [typeBin] at ht
    split at ht
    · simp only [pure, Except.pure, Except.ok.injEq] at ht
      subst ht
      refine ⟨?_, ?_⟩
      · cases x <;> cases y <;> simp [evalBin] at hv
        all_goals (subst hv; rfl)
      · intro hn
        simp only [Bool.or_eq_false_iff] at hn
        have hxn := hx2 hn.1
        have hyn := hy2 hn.2
        cases x <;> cases y <;> simp [evalBin, Val.isNull] at hv hxn hyn ⊢
        subst hv; rfl
    · cases ht

theorem castVal_sound (ty : Ty) (v r : Val) (h : castVal ty v = .ok (some r)) :
    r.hasTy ty = true ∧ (v.isNull = false → r.isNull = false) := by
  cases v <;> cases ty <;> simp [castVal] at h
  all_goals (try (subst h; simp [Val.hasTy, Val.isNull]))
  all_goals (try (obtain ⟨_, rfl⟩ := h; simp [Val.hasTy, Val.isNull]))
  all_goals (try (split at h <;> simp_all [Val.hasTy, Val.isNull]))
  all_goals (try (split at h <;> simp_all [Val.hasTy, Val.isNull]))
  all_goals (try (obtain ⟨_, rfl⟩ := h; simp [Val.hasTy, Val.isNull]))
  all_goals (try (subst h; simp [Val.hasTy, Val.isNull]))

theorem inListTri_nonu (x : Val) (vs : List Val) (r : Tri) (h : inListTri x vs = .ok r)
    (hx : x.isNull = false) (hvs : ∀ v ∈ vs, v.isNull = false) : r ≠ .u := by
  induction vs generalizing r with
  | nil => simp [inListTri] at h; subst h; simp
  | cons v vs ih =>
    simp only [inListTri, bind, Except.bind] at h
    cases he : eqTri x v with
    | error _ => simp [he] at h
    | ok e =>
      cases hr : inListTri x vs with
      | error _ => simp [he, hr] at h
      | ok r' =>
        simp only [he, hr, pure, Except.pure, Except.ok.injEq] at h
        subst h
        exact or_nonu _ _ (eqTri_nonnull x v e he hx (hvs v (by simp))) (ih r' hr (fun u hu => hvs u (by simp [hu])))

end DfModel.Proofs.C30
