/-
  C08 — multi-level merge, external sort, top-k, partial sort and the judges. Core Lean only.
-/
import DfModel.Proofs.C08
namespace DfModel.Proofs.C08
open DfModel.Mech.SortMerge
variable {α : Type} {le : α → α → Bool} {P : α → Prop}

theorem kMerge_spec (h : TotalPreorderOn le P) (ss : List (List α))
    (hs : AllSorted le ss) (hp : AllPP P ss) :
    Sorted le (kMerge le ss) ∧ (kMerge le ss).Perm ss.flatten :=
  kMergeBy_spec h _ ss hs hp

theorem perm_allP {l l' : List α} (hp : l.Perm l') (h : AllP P l') : AllP P l :=
  fun x hx => h x (hp.subset hx)

theorem allPP_flatten {ss : List (List α)} : AllPP P ss ↔ AllP P ss.flatten := by
  constructor
  · intro h x hx
    obtain ⟨s, hs, hxs⟩ := List.mem_flatten.mp hx
    exact h s hs x hxs
  · intro h s hs x hx
    exact h x (List.mem_flatten.mpr ⟨s, hs, hx⟩)

/-! ### multi-level merge -/

theorem multiLevel_spec (h : TotalPreorderOn le P) (ks : List Nat) (runs : List (List α))
    (hs : AllSorted le runs) (hp : AllPP P runs) :
    Sorted le (multiLevel le ks runs) ∧ (multiLevel le ks runs).Perm runs.flatten := by
  induction ks generalizing runs with
  | nil => exact kMerge_spec h runs hs hp
  | cons k ks ih =>
    simp only [multiLevel]
    split
    · have hst : AllSorted le (runs.take k) := fun s hs' => hs s (List.mem_of_mem_take hs')
      have hpt : AllPP P (runs.take k) := fun s hs' => hp s (List.mem_of_mem_take hs')
      obtain ⟨ms, mp⟩ := kMerge_spec h (runs.take k) hst hpt
      have hs2 : AllSorted le (runs.drop k ++ [kMerge le (runs.take k)]) := by
        intro s hs'
        rcases List.mem_append.mp hs' with h1 | h1
        · exact hs s (List.mem_of_mem_drop h1)
        · simp only [List.mem_singleton] at h1; subst h1; exact ms
      have hp2 : AllPP P (runs.drop k ++ [kMerge le (runs.take k)]) := by
        intro s hs'
        rcases List.mem_append.mp hs' with h1 | h1
        · exact hp s (List.mem_of_mem_drop h1)
        · simp only [List.mem_singleton] at h1; subst h1
          exact perm_allP mp (allPP_flatten.mp hpt)
      obtain ⟨r1, r2⟩ := ih _ hs2 hp2
      refine ⟨r1, r2.trans ?_⟩
      simp only [List.flatten_append, List.flatten_cons, List.flatten_nil, List.append_nil]
      refine (List.Perm.append_left _ mp).trans ?_
      refine List.perm_append_comm.trans ?_
      rw [← List.flatten_append, List.take_append_drop]
    · exact kMerge_spec h runs hs hp

/-! ### in-memory sort and external sort -/

theorem chunk_flatten {β : Type} (ks : List Nat) (xs : List β) : (chunk ks xs).flatten = xs := by
  induction ks generalizing xs with
  | nil => simp only [chunk]; split <;> simp_all
  | cons k ks ih =>
    simp only [chunk]
    split
    · simp_all
    · simp [ih]

theorem inMemSort_spec (h : TotalPreorderOn le P) (grp : List Nat) (bufs : List (List α))
    (hp : AllPP P bufs) :
    Sorted le (inMemSort le grp bufs) ∧ (inMemSort le grp bufs).Perm bufs.flatten := by
  have hpf : AllP P bufs.flatten := allPP_flatten.mp hp
  have hflat : ((chunk grp bufs).map (fun g => g.flatten)).flatten = bufs.flatten := by
    rw [← List.flatten_flatten, chunk_flatten]
  have hgP : ∀ g ∈ chunk grp bufs, AllP P g.flatten := by
    intro g hg x hx
    apply hpf
    rw [← hflat]
    exact List.mem_flatten.mpr ⟨g.flatten, List.mem_map.mpr ⟨g, hg, rfl⟩, hx⟩
  have hs : AllSorted le ((chunk grp bufs).map (fun g => isort le g.flatten)) := by
    intro s hs'
    obtain ⟨g, hg, rfl⟩ := List.mem_map.mp hs'
    exact isort_sorted h _ (hgP g hg)
  have hpp : AllPP P ((chunk grp bufs).map (fun g => isort le g.flatten)) := by
    intro s hs'
    obtain ⟨g, hg, rfl⟩ := List.mem_map.mp hs'
    exact perm_allP (isort_perm _) (hgP g hg)
  obtain ⟨r1, r2⟩ := kMerge_spec h _ hs hpp
  refine ⟨r1, r2.trans ?_⟩
  rw [← hflat]
  generalize chunk grp bufs = cs
  induction cs with
  | nil => simp
  | cons c cs ih => simpa using List.Perm.append (isort_perm (le := le) c.flatten) ih

theorem extSortGo_spec (h : TotalPreorderOn le P) (batches : List (List α)) (sch : SpillSched)
    (buf runs : List (List α)) (hb : AllPP P batches) (hbuf : AllPP P buf)
    (hrs : AllSorted le runs) (hrp : AllPP P runs) :
    AllPP P (extSortGo le batches sch buf runs).1 ∧
    AllSorted le (extSortGo le batches sch buf runs).2 ∧
    AllPP P (extSortGo le batches sch buf runs).2 ∧
    ((extSortGo le batches sch buf runs).2.flatten ++ (extSortGo le batches sch buf runs).1.flatten).Perm
      (runs.flatten ++ buf.flatten ++ batches.flatten) := by
  induction batches generalizing sch buf runs with
  | nil => exact ⟨hbuf, hrs, hrp, by simp [extSortGo]⟩
  | cons b bs ih =>
    have hbs : AllPP P bs := fun s hs => hb s (by simp [hs])
    have hbP : ∀ x ∈ b, P x := hb b (by simp)
    have hb1 : AllPP P [b] := by intro s hs; simp only [List.mem_singleton] at hs; subst hs; exact hbP
    have hbuf' : AllPP P (buf ++ [b]) := by
      intro s hs
      rcases List.mem_append.mp hs with h1 | h1
      · exact hbuf s h1
      · exact hb1 s h1
    simp only [extSortGo]
    split
    · rename_i hemp
      have : b = [] := by simpa using hemp
      subst this
      simpa using ih sch buf runs hbs hbuf hrs hrp
    · match sch with
      | (true, grp) :: sch' =>
        simp only
        split
        · rename_i hbe
          have : buf = [] := by simpa using hbe
          subst this
          obtain ⟨a1, a2, a3, a4⟩ := ih sch' [b] runs hbs hb1 hrs hrp
          exact ⟨a1, a2, a3, by simpa using a4⟩
        · obtain ⟨ms, mp⟩ := inMemSort_spec h grp buf hbuf
          have hrs' : AllSorted le (runs ++ [inMemSort le grp buf]) := by
            intro s hs
            rcases List.mem_append.mp hs with h1 | h1
            · exact hrs s h1
            · simp only [List.mem_singleton] at h1; subst h1; exact ms
          have hrp' : AllPP P (runs ++ [inMemSort le grp buf]) := by
            intro s hs
            rcases List.mem_append.mp hs with h1 | h1
            · exact hrp s h1
            · simp only [List.mem_singleton] at h1; subst h1
              exact perm_allP mp (allPP_flatten.mp hbuf)
          obtain ⟨a1, a2, a3, a4⟩ := ih sch' [b] (runs ++ [inMemSort le grp buf]) hbs hb1 hrs' hrp'
          refine ⟨a1, a2, a3, a4.trans ?_⟩
          simp only [List.flatten_append, List.flatten_cons, List.flatten_nil, List.append_nil,
            List.append_assoc]
          exact List.Perm.append_left _ (List.Perm.append_right _ mp)
      | (false, _) :: sch' =>
        simp only
        obtain ⟨a1, a2, a3, a4⟩ := ih sch' (buf ++ [b]) runs hbs hbuf' hrs hrp
        exact ⟨a1, a2, a3, by simpa using a4⟩
      | [] =>
        simp only
        obtain ⟨a1, a2, a3, a4⟩ := ih [] (buf ++ [b]) runs hbs hbuf' hrs hrp
        exact ⟨a1, a2, a3, by simpa using a4⟩

/-- **external sort**: for every spill schedule, every grouping of the in-memory sorts and every
    sequence of merge fan-ins, the result is sorted and a permutation of all inserted rows. -/
theorem extSort_spec (h : TotalPreorderOn le P) (batches : List (List α)) (sch : SpillSched)
    (finalGrp fanin : List Nat) (hb : AllPP P batches) :
    Sorted le (extSort le batches sch finalGrp fanin) ∧
    (extSort le batches sch finalGrp fanin).Perm batches.flatten := by
  obtain ⟨a1, a2, a3, a4⟩ := extSortGo_spec h batches sch [] [] hb
    (fun _ hs => nomatch hs) (fun _ hs => nomatch hs) (fun _ hs => nomatch hs)
  simp only [List.flatten_nil, List.nil_append] at a4
  obtain ⟨ms, mp⟩ := inMemSort_spec h finalGrp _ a1
  simp only [extSort]
  split
  · rename_i hre
    have hre' : (extSortGo le batches sch [] []).2 = [] := by simpa using hre
    rw [hre'] at a4
    exact ⟨ms, mp.trans (by simpa using a4)⟩
  · split
    · rename_i hbe
      have hbe' : (extSortGo le batches sch [] []).1 = [] := by simpa using hbe
      rw [hbe'] at a4
      obtain ⟨r1, r2⟩ := multiLevel_spec h fanin _ a2 a3
      exact ⟨r1, r2.trans (by simpa using a4)⟩
    · have hs' : AllSorted le ((extSortGo le batches sch [] []).2 ++
          [inMemSort le finalGrp (extSortGo le batches sch [] []).1]) := by
        intro s hs
        rcases List.mem_append.mp hs with h1 | h1
        · exact a2 s h1
        · simp only [List.mem_singleton] at h1; subst h1; exact ms
      have hp' : AllPP P ((extSortGo le batches sch [] []).2 ++
          [inMemSort le finalGrp (extSortGo le batches sch [] []).1]) := by
        intro s hs
        rcases List.mem_append.mp hs with h1 | h1
        · exact a3 s h1
        · simp only [List.mem_singleton] at h1; subst h1
          exact perm_allP mp (allPP_flatten.mp a1)
      obtain ⟨r1, r2⟩ := multiLevel_spec h fanin _ hs' hp'
      refine ⟨r1, r2.trans (List.Perm.trans ?_ a4)⟩
      simp only [List.flatten_append, List.flatten_cons, List.flatten_nil, List.append_nil]
      exact List.Perm.append_left _ mp

end DfModel.Proofs.C08
