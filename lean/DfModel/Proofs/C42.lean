/-
  C42 helper lemmas: induction principle for rose trees, pre-order list, the contract-level
  reference walk used by `apply_visits_preorder_prefix`.
-/
import DfModel.Sm.TreeWalk
namespace DfModel.Proofs.C42
open DfModel.Tbl DfModel.Gen.TreeNodeTbl DfModel.Sm.TreeWalk

/-- simultaneous induction over a tree and its list of children -/
theorem Tree.induct {P : Tree → Prop} {Q : List Tree → Prop}
    (hnode : ∀ l ks r, Q ks → P (.node l ks r)) (hnil : Q [])
    (hcons : ∀ c cs, P c → Q cs → Q (c :: cs)) : (∀ t, P t) ∧ (∀ ks, Q ks) := by
  have h : ∀ t, P t := fun t =>
    Tree.rec (motive_1 := P) (motive_2 := Q) (fun l ks r ih => hnode l ks r ih) hnil
      (fun c cs ihc ihcs => hcons c cs ihc ihcs) t
  refine ⟨h, ?_⟩
  intro ks
  induction ks with
  | nil => exact hnil
  | cons c cs ih => exact hcons c cs (h c) ih

mutual
/-- the sub-trees of `t` in pre-order (documented visiting order of `apply` / `f_down`) -/
def pre : Tree → List Tree
  | .node l ks r => .node l ks r :: preList ks
def preList : List Tree → List Tree
  | [] => []
  | c :: cs => pre c ++ preList cs
end

variable {σ : Type}

/-- The documented contract of `TreeNode::apply`, written over the pre-order list, with no
    reference to the code's structure: call `f` on the next node; `Continue` → go on; `Jump` → drop
    that node's descendants (the next `|sub-tree| - 1` entries) and go on; `Stop`/error → end. -/
def specWalk (f : VF σ) (s : σ) : List Tree → σ × Option Tnr
  | [] => (s, some .Continue)
  | n :: rest =>
    match f s n with
    | (s1, none) => (s1, none)
    | (s1, some .Continue) => specWalk f s1 rest
    | (s1, some .Jump) => specWalk f s1 (rest.drop ((pre n).length - 1))
    | (s1, some .Stop) => (s1, some .Stop)
termination_by l => l.length
decreasing_by all_goals (simp only [List.length_cons, List.length_drop]; omega)


/-- what the caller of a sub-walk does with its result -/
def andThen (r : σ × Option Tnr) (k : σ → σ × Option Tnr) : σ × Option Tnr :=
  match r with
  | (s1, none) => (s1, none)
  | (s1, some .Stop) => (s1, some .Stop)
  | (s1, some _) => k s1

theorem apply_spec_gen (f : VF σ) :
    (∀ t : Tree, ∀ s rest, specWalk f s (pre t ++ rest) = andThen (apply f s t) (fun s1 => specWalk f s1 rest)) ∧
    (∀ ks : List Tree, ∀ s last rest, last ≠ .Stop →
      specWalk f s (preList ks ++ rest) = andThen (applyKids f s last ks) (fun s1 => specWalk f s1 rest)) := by
  apply Tree.induct
  · intro l ks r ih s rest
    simp only [pre, List.cons_append]
    rw [specWalk, apply]
    rcases hf : f s (.node l ks r) with ⟨s1, _ | d⟩
    · simp [andThen, andOk]
    · cases d
      · -- Continue
        simp only [andOk, vdispatch, TreeNodeRecursion.visit_children, endKids]
        rw [ih s1 .Continue rest (by decide)]
        rcases applyKids f s1 .Continue ks with ⟨s2, _ | d2⟩
        · simp [andThen]
        · cases d2 <;> cases r <;> simp [andThen, seqEnd]
      · -- Jump
        simp only [andOk, vdispatch, TreeNodeRecursion.visit_children, andThen]
        have : (pre (.node l ks r)).length - 1 = (preList ks).length := by simp [pre]
        rw [this, List.drop_left]
      · simp [andOk, vdispatch, TreeNodeRecursion.visit_children, andThen]
  · intro s last rest _
    cases last <;> simp_all [preList, applyKids, andThen]
  · intro c cs ihc ihcs s last rest hl
    simp only [preList, List.append_assoc]
    rw [ihc, applyKids]
    cases last
    · simp only [vdispatch, TreeNodeRecursion.visit_sibling]
      rcases apply f s c with ⟨s1, _ | d⟩
      · simp [andThen, andOk]
      · cases d
        · simp only [andThen, andOk]; exact ihcs s1 .Continue rest (by decide)
        · simp only [andThen, andOk]; exact ihcs s1 .Jump rest (by decide)
        · simp only [andThen, andOk]
          cases cs <;> simp [applyKids, vdispatch, TreeNodeRecursion.visit_sibling]
    · simp only [vdispatch, TreeNodeRecursion.visit_sibling]
      rcases apply f s c with ⟨s1, _ | d⟩
      · simp [andThen, andOk]
      · cases d
        · simp only [andThen, andOk]; exact ihcs s1 .Continue rest (by decide)
        · simp only [andThen, andOk]; exact ihcs s1 .Jump rest (by decide)
        · simp only [andThen, andOk]
          cases cs <;> simp [applyKids, vdispatch, TreeNodeRecursion.visit_sibling]
    · exact absurd rfl hl

theorem apply_no_jump (f : VF σ) :
    (∀ t : Tree, ∀ s, (apply f s t).2 ≠ some .Jump) ∧
    (∀ ks : List Tree, ∀ s last, last ≠ .Jump → (applyKids f s last ks).2 ≠ some .Jump) := by
  apply Tree.induct
  · intro l ks r ih s
    rw [apply]
    rcases f s (.node l ks r) with ⟨s1, _ | d⟩
    · simp [andOk]
    · cases d
      · simp only [andOk, vdispatch, TreeNodeRecursion.visit_children, endKids]
        have := ih s1 .Continue (by decide)
        generalize applyKids f s1 .Continue ks = x at this
        rcases x with ⟨s2, _ | d2⟩
        · simp
        · cases d2 <;> cases r <;> simp_all [seqEnd]
      · simp [andOk, vdispatch, TreeNodeRecursion.visit_children]
      · simp [andOk, vdispatch, TreeNodeRecursion.visit_children]
  · intro s last hl
    simpa [applyKids] using hl
  · intro c cs ihc ihcs s last hl
    rw [applyKids]
    cases last
    · simp only [vdispatch, TreeNodeRecursion.visit_sibling]
      have hc := ihc s
      generalize apply f s c = x at hc
      rcases x with ⟨s1, _ | d⟩
      · simp [andOk]
      · exact ihcs s1 d (by intro h; subst h; simp at hc)
    · exact absurd rfl hl
    · simp [vdispatch, TreeNodeRecursion.visit_sibling]

theorem apply_eq_spec (f : VF σ) (s : σ) (t : Tree) : apply f s t = specWalk f s (pre t) := by
  have h := (apply_spec_gen f).1 t s []
  have hj := (apply_no_jump f).1 t s
  simp only [List.append_nil] at h
  rw [h]
  generalize apply f s t = x at hj
  rcases x with ⟨s1, _ | d⟩
  · simp [andThen]
  · cases d
    · simp [andThen, specWalk]
    · simp at hj
    · simp [andThen]


theorem andOk_some {α β : Type} (s : σ) (a : α) (k : σ → α → σ × Option β) : andOk (s, some a) k = k s a := rfl
theorem andOk_none {α β : Type} (s : σ) (k : σ → α → σ × Option β) : andOk ((s, none) : σ × Option α) k = (s, none) := rfl

/-- instrument a rewriting callback: the extra state bit is the OR of every `transformed` flag it reported -/
def track (f : TF σ) : TF (σ × Bool) := fun sb n =>
  match f sb.1 n with
  | (s1, none) => ((s1, sb.2), none)
  | (s1, some t) => ((s1, sb.2 || t.transformed), some t)

/-- a (sub-)traversal started with bit `b` ends with bit `b || result.transformed` -/
def FlagOK {α : Type} (b : Bool) (out : (σ × Bool) × Option (Tr α)) : Prop :=
  ∀ s' b' r, out = ((s', b'), some r) → b' = (b || r.transformed)

/-- a sibling loop started with bit `b` and running flag `tr` -/
def ListOK (b tr : Bool) (out : (σ × Bool) × Option (Tr (List Tree))) : Prop :=
  ∀ s' b' k, out = ((s', b'), some k) → ∃ x, b' = (b || x) ∧ k.transformed = (tr || x)

theorem track_ok (f : TF σ) (s : σ) (b : Bool) (n : Tree) : FlagOK b (track f (s, b) n) := by
  intro s' b' r h
  simp only [track] at h
  generalize f s n = x at h
  rcases x with ⟨s1, _ | t⟩
  · simp at h
  · simp only [Prod.mk.injEq, Option.some.injEq] at h
    obtain ⟨⟨_, hb⟩, hr⟩ := h
    subst hr hb; rfl

theorem callT_ok (f : TF σ) (s : σ) (b : Bool) (n : Tree) : FlagOK b (callT (track f) (s, b) n) := by
  intro s' b' r h
  simp only [callT, andOk] at h
  have h0 := track_ok f s b n
  generalize track f (s, b) n = x at h h0
  rcases x with ⟨⟨s1, b1⟩, _ | t⟩
  · simp at h
  · simp only [Prod.mk.injEq, Option.some.injEq] at h
    obtain ⟨⟨_, hb⟩, hr⟩ := h
    subst hr hb
    exact h0 _ _ _ rfl

theorem tdispatch_ok {α : Type} (tbl : Tnr → Act Tnr) (self : Tr α) (s : σ) (b0 b : Bool)
    (g : σ × Bool → α → (σ × Bool) × Option (Tr α))
    (hb : b = (b0 || self.transformed)) (hg : ∀ s b, FlagOK b (g (s, b) self.data)) :
    FlagOK b0 (tdispatch tbl self (s, b) g) := by
  intro s' b' r h
  simp only [tdispatch] at h
  generalize tbl self.tnr = act at h
  cases act
  case ret v =>
    simp only [Prod.mk.injEq, Option.some.injEq] at h
    obtain ⟨⟨_, hb'⟩, hr⟩ := h
    subst hr hb'; exact hb
  all_goals
    simp only at h
    have h0 := hg s b
    generalize g (s, b) self.data = x at h h0
    rcases x with ⟨⟨s1, b1⟩, _ | t⟩
    · simp at h
    · simp only [Prod.mk.injEq, Option.some.injEq] at h
      obtain ⟨⟨_, hb'⟩, hr⟩ := h
      subst hr hb'
      rw [h0 _ _ _ rfl, hb]
      simp only [Tr.merge]
      generalize t.transformed = y
      generalize self.transformed = z
      cases b0 <;> cases y <;> cases z <;> rfl

theorem mapStep_ok (tnr : Tnr) (tr : Bool) (c : Tree) (cs : List Tree) (s : σ) (b : Bool)
    (g : σ × Bool → (σ × Bool) × Option (Tr Tree))
    (rest : σ × Bool → Tnr → Bool → (σ × Bool) × Option (Tr (List Tree)))
    (hg : ∀ s b, FlagOK b (g (s, b))) (hrest : ∀ s b d tr, ListOK b tr (rest (s, b) d tr)) :
    ListOK b tr (mapStep tnr tr c cs (s, b) g rest) := by
  intro s' b' k h
  simp only [mapStep] at h
  generalize Transformed.transform_sibling tnr = act at h
  cases act
  case ret v =>
    simp only [Prod.mk.injEq, Option.some.injEq] at h
    obtain ⟨⟨_, hb'⟩, hk⟩ := h
    subst hk hb'
    exact ⟨false, by simp, by simp⟩
  all_goals
    simp only [andOk] at h
    have h0 := hg s b
    generalize g (s, b) = x at h h0
    rcases x with ⟨⟨s1, b1⟩, _ | t⟩
    · simp at h
    · simp only at h
      have h1 := hrest s1 b1 t.tnr (t.transformed || tr)
      generalize rest (s1, b1) t.tnr (t.transformed || tr) = y at h h1
      rcases y with ⟨⟨s2, b2⟩, _ | k2⟩
      · simp at h
      · simp only [Prod.mk.injEq, Option.some.injEq] at h
        obtain ⟨⟨_, hb'⟩, hk⟩ := h
        obtain ⟨x, hx1, hx2⟩ := h1 _ _ _ rfl
        subst hk hb'
        refine ⟨t.transformed || x, ?_, ?_⟩
        · rw [hx1, h0 _ _ _ rfl, Bool.or_assoc]
        · simp only [hx2]
          generalize t.transformed = y
          cases tr <;> cases x <;> cases y <;> rfl

theorem list_nil_ok (s : σ) (b : Bool) (tnr : Tnr) (tr : Bool) :
    ListOK b tr (((s, b), some { data := [], transformed := tr, tnr := tnr }) : (σ × Bool) × Option (Tr (List Tree))) := by
  intro s' b' k h
  simp only [Prod.mk.injEq, Option.some.injEq] at h
  obtain ⟨⟨_, hb⟩, hk⟩ := h
  subst hk hb
  exact ⟨false, by simp, by simp⟩

/-- children phase shared by `transform_down` and `transform_down_up` -/
theorem kids_closure_ok (l : Nat) (r : Bool) (b : Bool) (out : (σ × Bool) × Option (Tr (List Tree)))
    (h : ListOK b false out) : FlagOK b (andOk out fun s3 k => (s3, some (rebuild l r k))) := by
  intro s' b' res hres
  rcases out with ⟨⟨s1, b1⟩, _ | k⟩
  · simp [andOk] at hres
  · simp only [andOk, Prod.mk.injEq, Option.some.injEq] at hres
    obtain ⟨⟨_, hb⟩, hr⟩ := hres
    obtain ⟨x, hx1, hx2⟩ := h _ _ _ rfl
    subst hr hb
    simp [rebuild, hx1, hx2]

theorem flag_down (f : TF σ) :
    (∀ t : Tree, ∀ s b, FlagOK b (transformDown (track f) (s, b) t)) ∧
    (∀ ks : List Tree, ∀ s b tnr tr, ListOK b tr (mapDown (track f) (s, b) tnr tr ks)) := by
  apply Tree.induct
  · intro l ks r ih s b
    rw [transformDown]
    have h0 := track_ok f s b (.node l ks r)
    generalize track f (s, b) (.node l ks r) = x at h0
    rcases x with ⟨⟨s1, b1⟩, _ | t⟩
    · intro _ _ _ h; simp [andOk] at h
    · simp only [andOk]
      exact tdispatch_ok _ _ s1 b b1 _ (h0 _ _ _ rfl) (fun s2 b2 => kids_closure_ok _ _ _ _ (ih s2 b2 _ _))
  · intro s b tnr tr
    simp only [mapDown]; exact list_nil_ok s b tnr tr
  · intro c cs ihc ihcs s b tnr tr
    rw [mapDown]
    exact mapStep_ok _ _ _ _ _ _ _ _ (fun s b => ihc s b) (fun s b d tr => ihcs s b d tr)

theorem flag_up (f : TF σ) :
    (∀ t : Tree, ∀ s b, FlagOK b (transformUp (track f) (s, b) t)) ∧
    (∀ ks : List Tree, ∀ s b tnr tr, ListOK b tr (mapUp (track f) (s, b) tnr tr ks)) := by
  apply Tree.induct
  · intro l ks r ih s b
    rw [transformUp]
    have h0 := ih s b .Continue false
    generalize mapUp (track f) (s, b) .Continue false ks = x at h0
    rcases x with ⟨⟨s1, b1⟩, _ | k⟩
    · intro _ _ _ h; simp [andOk] at h
    · simp only [andOk]
      obtain ⟨x, hx1, hx2⟩ := h0 _ _ _ rfl
      exact tdispatch_ok _ _ s1 b b1 _ (by simp [rebuild, hx1, hx2]) (fun s2 b2 => callT_ok f s2 b2 _)
  · intro s b tnr tr
    simp only [mapUp]; exact list_nil_ok s b tnr tr
  · intro c cs ihc ihcs s b tnr tr
    rw [mapUp]
    exact mapStep_ok _ _ _ _ _ _ _ _ (fun s b => ihc s b) (fun s b d tr => ihcs s b d tr)

theorem flag_downup (fd fu : TF σ) :
    (∀ t : Tree, ∀ s b, FlagOK b (transformDownUp (track fd) (track fu) (s, b) t)) ∧
    (∀ ks : List Tree, ∀ s b tnr tr, ListOK b tr (mapDownUp (track fd) (track fu) (s, b) tnr tr ks)) := by
  apply Tree.induct
  · intro l ks r ih s b
    rw [transformDownUp]
    have h0 := track_ok fd s b (.node l ks r)
    generalize track fd (s, b) (.node l ks r) = x at h0
    rcases x with ⟨⟨s1, b1⟩, _ | t⟩
    · intro _ _ _ h; simp [andOk] at h
    · simp only [andOk_some]
      have h1 := tdispatch_ok Transformed.transform_children
        ({ data := Tree.node t.data ks r, transformed := t.transformed, tnr := t.tnr } : Tr Tree) s1 b b1
        (fun s2 _ => andOk (mapDownUp (track fd) (track fu) s2 .Continue false ks) fun s3 k => (s3, some (rebuild t.data r k)))
        (h0 _ _ _ rfl) (fun s2 b2 => kids_closure_ok _ _ _ _ (ih s2 b2 _ _))
      generalize tdispatch Transformed.transform_children
        ({ data := Tree.node t.data ks r, transformed := t.transformed, tnr := t.tnr } : Tr Tree) (s1, b1)
        (fun s2 _ => andOk (mapDownUp (track fd) (track fu) s2 .Continue false ks) fun s3 k => (s3, some (rebuild t.data r k))) = y at h1 ⊢
      rcases y with ⟨⟨s2, b2⟩, _ | me⟩
      · intro _ _ _ h; simp [andOk_none] at h
      · simp only [andOk_some]
        exact tdispatch_ok _ _ s2 b b2 _ (h1 _ _ _ rfl) (fun s3 b3 => callT_ok fu s3 b3 _)
  · intro s b tnr tr
    simp only [mapDownUp]; exact list_nil_ok s b tnr tr
  · intro c cs ihc ihcs s b tnr tr
    rw [mapDownUp]
    exact mapStep_ok _ _ _ _ _ _ _ _ (fun s b => ihc s b) (fun s b d tr => ihcs s b d tr)


/-- instrument a rewriting callback with two bits: `stopped` (a previous invocation returned `Stop`
    or an error) and `violated` (an invocation happened although `stopped` was already set) -/
def watch (f : TF σ) : TF (σ × Bool × Bool) := fun x n =>
  match f x.1 n with
  | (s1, none) => ((s1, true, x.2.2 || x.2.1), none)
  | (s1, some t) => ((s1, x.2.1 || (t.tnr == .Stop), x.2.2 || x.2.1), some t)

/-- outcome of a (sub-)traversal started un-stopped with violation bit `vi`: no violation was added,
    and if it recorded a stop then it returns an error or `tnr = Stop` -/
def StopOK {α : Type} (vi : Bool) (out : (σ × Bool × Bool) × Option (Tr α)) : Prop :=
  out.1.2.2 = vi ∧ (out.1.2.1 = true → out.2 = none ∨ ∃ r, out.2 = some r ∧ r.tnr = .Stop)

theorem watch_ok (f : TF σ) (s : σ) (vi : Bool) (n : Tree) : StopOK vi (watch f (s, false, vi) n) := by
  simp only [watch]
  rcases f s n with ⟨s1, _ | t⟩
  · simp [StopOK]
  · simp only [StopOK, Bool.or_false, Bool.false_or, beq_iff_eq, true_and]
    intro h; exact Or.inr ⟨t, rfl, h⟩

theorem callT_stop (f : TF σ) (s : σ) (vi : Bool) (n : Tree) : StopOK vi (callT (watch f) (s, false, vi) n) := by
  have h0 := watch_ok f s vi n
  simp only [callT]
  generalize watch f (s, false, vi) n = x at h0
  rcases x with ⟨⟨s1, st1, vi1⟩, _ | t⟩
  · simpa [StopOK, andOk] using h0
  · simp only [StopOK, andOk] at h0 ⊢
    refine ⟨h0.1, fun h => ?_⟩
    rcases h0.2 h with h' | ⟨r, hr, hs⟩
    · simp at h'
    · simp only [Option.some.injEq] at hr; subst hr
      exact Or.inr ⟨_, rfl, hs⟩

theorem tdispatch_stop {α : Type} (tbl : Tnr → Act Tnr) (self : Tr α) (s : σ) (st vi : Bool)
    (g : σ × Bool × Bool → α → (σ × Bool × Bool) × Option (Tr α))
    (htbl : tbl .Stop = .ret .Stop) (hpre : st = true → self.tnr = .Stop)
    (hg : ∀ s vi, StopOK vi (g (s, false, vi) self.data)) :
    StopOK vi (tdispatch tbl self (s, st, vi) g) := by
  cases st
  · -- not stopped so far
    simp only [tdispatch]
    cases tbl self.tnr
    case ret v => simp [StopOK]
    all_goals
      have h0 := hg s vi
      generalize g (s, false, vi) self.data = x at h0
      rcases x with ⟨⟨s1, st1, vi1⟩, _ | t⟩
      · simpa [StopOK] using h0
      · simp only [StopOK] at h0 ⊢
        refine ⟨h0.1, fun h => ?_⟩
        rcases h0.2 h with h' | ⟨r, hr, hs⟩
        · simp at h'
        · simp only [Option.some.injEq] at hr; subst hr
          exact Or.inr ⟨_, rfl, by simpa [Tr.merge] using hs⟩
  · simp only [tdispatch, hpre rfl, htbl, StopOK, true_and]
    intro _; exact Or.inr ⟨_, rfl, rfl⟩

theorem mapStep_stop (tnr : Tnr) (tr : Bool) (c : Tree) (cs : List Tree) (s : σ) (st vi : Bool)
    (g : σ × Bool × Bool → (σ × Bool × Bool) × Option (Tr Tree))
    (rest : σ × Bool × Bool → Tnr → Bool → (σ × Bool × Bool) × Option (Tr (List Tree)))
    (hpre : st = true → tnr = .Stop)
    (hg : ∀ s vi, StopOK vi (g (s, false, vi)))
    (hrest : ∀ s st vi d tr, (st = true → d = .Stop) → StopOK vi (rest (s, st, vi) d tr)) :
    StopOK vi (mapStep tnr tr c cs (s, st, vi) g rest) := by
  cases st
  · simp only [mapStep]
    cases Transformed.transform_sibling tnr
    case ret v => simp [StopOK]
    all_goals
      have h0 := hg s vi
      generalize g (s, false, vi) = x at h0
      rcases x with ⟨⟨s1, st1, vi1⟩, _ | t⟩
      · simpa [StopOK, andOk] using h0
      · simp only [StopOK] at h0
        obtain ⟨hv, hst⟩ := h0
        subst hv
        have hpre1 : st1 = true → t.tnr = .Stop := by
          intro h
          rcases hst h with h' | ⟨r, hr, hs⟩
          · simp at h'
          · simp only [Option.some.injEq] at hr; subst hr; exact hs
        have h1 := hrest s1 st1 vi1 t.tnr (t.transformed || tr) hpre1
        simp only [andOk_some]
        generalize rest (s1, st1, vi1) t.tnr (t.transformed || tr) = y at h1
        rcases y with ⟨⟨s2, st2, vi2⟩, _ | k⟩
        · simpa [StopOK, andOk] using h1
        · simp only [StopOK, andOk] at h1 ⊢
          refine ⟨h1.1, fun h => ?_⟩
          rcases h1.2 h with h' | ⟨r, hr, hs⟩
          · simp at h'
          · simp only [Option.some.injEq] at hr; subst hr
            exact Or.inr ⟨_, rfl, hs⟩
  · have : tnr = .Stop := hpre rfl
    subst this
    simp only [mapStep, Transformed.transform_sibling, StopOK, true_and]
    intro _; exact Or.inr ⟨_, rfl, rfl⟩

theorem list_nil_stop (s : σ) (st vi : Bool) (tnr : Tnr) (tr : Bool) (hpre : st = true → tnr = .Stop) :
    StopOK vi (((s, st, vi), some { data := [], transformed := tr, tnr := tnr }) : (σ × Bool × Bool) × Option (Tr (List Tree))) := by
  simp only [StopOK, true_and]
  intro h; exact Or.inr ⟨_, rfl, hpre h⟩

theorem kids_closure_stop (l : Nat) (r : Bool) (vi : Bool) (out : (σ × Bool × Bool) × Option (Tr (List Tree)))
    (h : StopOK vi out) : StopOK vi (andOk out fun s3 k => (s3, some (rebuild l r k))) := by
  rcases out with ⟨⟨s1, st1, vi1⟩, _ | k⟩
  · simpa [StopOK, andOk] using h
  · simp only [StopOK, andOk] at h ⊢
    refine ⟨h.1, fun hs => ?_⟩
    rcases h.2 hs with h' | ⟨r', hr, hstop⟩
    · simp at h'
    · simp only [Option.some.injEq] at hr; subst hr
      exact Or.inr ⟨_, rfl, by simp [rebuild, seqEnd, hstop]⟩

/-- `StopOK` for a node whose first action is a watched callback -/
theorem stop_down (f : TF σ) :
    (∀ t : Tree, ∀ s vi, StopOK vi (transformDown (watch f) (s, false, vi) t)) ∧
    (∀ ks : List Tree, ∀ s st vi tnr tr, (st = true → tnr = .Stop) → StopOK vi (mapDown (watch f) (s, st, vi) tnr tr ks)) := by
  apply Tree.induct
  · intro l ks r ih s vi
    rw [transformDown]
    have h0 := watch_ok f s vi (.node l ks r)
    generalize watch f (s, false, vi) (.node l ks r) = x at h0
    rcases x with ⟨⟨s1, st1, vi1⟩, _ | t⟩
    · simpa [StopOK, andOk] using h0
    · simp only [andOk_some]
      obtain ⟨hv, hst⟩ := h0
      simp only at hv; subst hv
      refine tdispatch_stop _ _ s1 st1 vi1 _ rfl ?_ (fun s2 vi2 => kids_closure_stop _ _ _ _ (ih s2 false vi2 _ _ (by simp)))
      intro h
      rcases hst h with h' | ⟨r', hr, hs⟩
      · simp at h'
      · simp only [Option.some.injEq] at hr; subst hr; exact hs
  · intro s st vi tnr tr hpre
    simp only [mapDown]; exact list_nil_stop s st vi tnr tr hpre
  · intro c cs ihc ihcs s st vi tnr tr hpre
    rw [mapDown]
    exact mapStep_stop _ _ _ _ _ _ _ _ _ hpre (fun s vi => ihc s vi) (fun s st vi d tr h => ihcs s st vi d tr h)


theorem stopOK_pre {α : Type} {vi : Bool} {s1 : σ} {st1 vi1 : Bool} {t : Tr α}
    (h : StopOK vi (((s1, st1, vi1), some t) : (σ × Bool × Bool) × Option (Tr α))) :
    vi1 = vi ∧ (st1 = true → t.tnr = .Stop) := by
  obtain ⟨hv, hst⟩ := h
  refine ⟨hv, fun h => ?_⟩
  rcases hst h with h' | ⟨r', hr, hs⟩
  · simp at h'
  · simp only [Option.some.injEq] at hr; subst hr; exact hs

theorem stop_up (f : TF σ) :
    (∀ t : Tree, ∀ s vi, StopOK vi (transformUp (watch f) (s, false, vi) t)) ∧
    (∀ ks : List Tree, ∀ s st vi tnr tr, (st = true → tnr = .Stop) → StopOK vi (mapUp (watch f) (s, st, vi) tnr tr ks)) := by
  apply Tree.induct
  · intro l ks r ih s vi
    rw [transformUp]
    have h0 := ih s false vi .Continue false (by simp)
    generalize mapUp (watch f) (s, false, vi) .Continue false ks = x at h0
    rcases x with ⟨⟨s1, st1, vi1⟩, _ | k⟩
    · simpa [StopOK, andOk] using h0
    · simp only [andOk_some]
      obtain ⟨hv, hst⟩ := stopOK_pre h0
      subst hv
      refine tdispatch_stop _ _ s1 st1 vi1 _ rfl ?_ (fun s2 vi2 => callT_stop f s2 vi2 _)
      intro h; simp [rebuild, seqEnd, hst h]
  · intro s st vi tnr tr hpre
    simp only [mapUp]; exact list_nil_stop s st vi tnr tr hpre
  · intro c cs ihc ihcs s st vi tnr tr hpre
    rw [mapUp]
    exact mapStep_stop _ _ _ _ _ _ _ _ _ hpre (fun s vi => ihc s vi) (fun s st vi d tr h => ihcs s st vi d tr h)

theorem stop_downup (fd fu : TF σ) :
    (∀ t : Tree, ∀ s vi, StopOK vi (transformDownUp (watch fd) (watch fu) (s, false, vi) t)) ∧
    (∀ ks : List Tree, ∀ s st vi tnr tr, (st = true → tnr = .Stop) →
        StopOK vi (mapDownUp (watch fd) (watch fu) (s, st, vi) tnr tr ks)) := by
  apply Tree.induct
  · intro l ks r ih s vi
    rw [transformDownUp]
    have h0 := watch_ok fd s vi (.node l ks r)
    generalize watch fd (s, false, vi) (.node l ks r) = x at h0
    rcases x with ⟨⟨s1, st1, vi1⟩, _ | t⟩
    · simpa [StopOK, andOk] using h0
    · simp only [andOk_some]
      obtain ⟨hv, hst⟩ := stopOK_pre h0
      subst hv
      have h1 := tdispatch_stop Transformed.transform_children
        ({ data := Tree.node t.data ks r, transformed := t.transformed, tnr := t.tnr } : Tr Tree) s1 st1 vi1
        (fun s2 _ => andOk (mapDownUp (watch fd) (watch fu) s2 .Continue false ks) fun s3 k => (s3, some (rebuild t.data r k)))
        rfl hst (fun s2 vi2 => kids_closure_stop _ _ _ _ (ih s2 false vi2 _ _ (by simp)))
      generalize tdispatch Transformed.transform_children
        ({ data := Tree.node t.data ks r, transformed := t.transformed, tnr := t.tnr } : Tr Tree) (s1, st1, vi1)
        (fun s2 _ => andOk (mapDownUp (watch fd) (watch fu) s2 .Continue false ks) fun s3 k => (s3, some (rebuild t.data r k))) = y at h1 ⊢
      rcases y with ⟨⟨s2, st2, vi2⟩, _ | me⟩
      · simpa [StopOK, andOk] using h1
      · simp only [andOk_some]
        obtain ⟨hv, hst2⟩ := stopOK_pre h1
        subst hv
        exact tdispatch_stop _ _ s2 st2 vi2 _ rfl hst2 (fun s3 vi3 => callT_stop fu s3 vi3 _)
  · intro s st vi tnr tr hpre
    simp only [mapDownUp]; exact list_nil_stop s st vi tnr tr hpre
  · intro c cs ihc ihcs s st vi tnr tr hpre
    rw [mapDownUp]
    exact mapStep_stop _ _ _ _ _ _ _ _ _ hpre (fun s vi => ihc s vi) (fun s st vi d tr h => ihcs s st vi d tr h)

/-- after `Stop` the sibling loop returns the remaining children untouched, calling nothing -/
theorem mapDown_after_stop (f : TF σ) (s : σ) (tr : Bool) (ks : List Tree) :
    mapDown f s .Stop tr ks = (s, some { data := ks, transformed := tr, tnr := .Stop }) := by
  cases ks <;> simp [mapDown, mapStep, Transformed.transform_sibling]
theorem mapUp_after_stop (f : TF σ) (s : σ) (tr : Bool) (ks : List Tree) :
    mapUp f s .Stop tr ks = (s, some { data := ks, transformed := tr, tnr := .Stop }) := by
  cases ks <;> simp [mapUp, mapStep, Transformed.transform_sibling]
theorem mapDownUp_after_stop (fd fu : TF σ) (s : σ) (tr : Bool) (ks : List Tree) :
    mapDownUp fd fu s .Stop tr ks = (s, some { data := ks, transformed := tr, tnr := .Stop }) := by
  cases ks <;> simp [mapDownUp, mapStep, Transformed.transform_sibling]

end DfModel.Proofs.C42
