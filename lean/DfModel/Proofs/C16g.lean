/-
  C16 helper lemmas, part G: the single-writer invariant `Spsc` (no `clone`/`new_sink` in the
  schedule): files are filled strictly one after the other, so file order = push order.
  Core Lean only.
-/
import DfModel.Proofs.C16f
namespace DfModel.Proofs.C16
open DfModel.Sm.SpillPool

/-! ### single writer (`spsc_channel`, no `new_sink`): files are filled strictly one after the other -/

structure Spsc (s : St) : Prop where
  one : s.nw = 1
  order : catW s.written s.nfiles = s.log.map (·.1)
  fin_but_last : ∀ f, f + 1 < s.nfiles → s.finished f = true
  creating_open : ∀ b sz, s.wpc 0 = .creating b sz → s.open_ = []

theorem spsc_init (m : Nat) : Spsc (init m) := by
  constructor <;> simp [init, catW]

theorem spsc_of_eq (s s' : St) (e1 : s'.nw = s.nw) (e2 : s'.written = s.written) (e3 : s'.nfiles = s.nfiles)
    (e4 : s'.log = s.log) (e5 : ∀ f, s.finished f = true → s'.finished f = true)
    (e6 : ∀ b sz, s'.wpc 0 = .creating b sz → s'.open_ = []) (h : Spsc s) : Spsc s' := by
  obtain ⟨h1, h2, h3, h4⟩ := h
  constructor
  · rw [e1]; exact h1
  · rw [e2, e3, e4]; exact h2
  · intro f hf; rw [e3] at hf; exact e5 f (h3 f hf)
  · exact e6

theorem spsc_stepReader (s : St) (h : Spsc s) : Spsc (stepReader s) :=
  spsc_of_eq s _ (by simp) (by simp) (by simp) (by simp) (by simp) (by simpa using h.creating_open) h

theorem spsc_stepPush (s : St) (b sz : Nat) (h : Spsc s) : Spsc (stepPush s 0 b sz) := by
  unfold stepPush
  split
  · exact spsc_of_eq s _ rfl rfl rfl rfl (fun _ h => h) (by simp [upd]) h
  · rename_i hop; exact spsc_of_eq s _ rfl rfl rfl rfl (fun _ h => h) (by intro _ _ _; exact hop) h

theorem spsc_stepCreate (s : St) (b sz : Nat) (ok : Bool) (ho : Own s) (hpc : s.wpc 0 = .creating b sz)
    (h : Spsc s) : Spsc (stepCreate s 0 b sz ok) := by
  obtain ⟨h1, h2, h3, h4⟩ := h
  have hop := h4 b sz hpc
  have hall : ∀ f, f < s.nfiles → s.finished f = true := by
    intro f hf
    cases hfin : s.finished f with
    | true => rfl
    | false =>
      rcases ho.unfin f hf hfin with hm | ⟨w, hw, hm⟩
      · rw [hop] at hm; cases hm
      · have : w = 0 := by omega
        subst this; rw [hpc] at hm; simp [own] at hm
  unfold stepCreate
  split
  · constructor
    · simp only [wakePool_nw]; exact h1
    · simp only [wakePool_written, wakePool_nfiles, wakePool_log, catW_upd_last, List.append_nil]; exact h2
    · simp only [wakePool_nfiles, wakePool_finished]
      intro f hf
      have : f ≠ s.nfiles := by omega
      rw [upd_ne _ _ _ _ this]; exact hall f (by omega)
    · simp only [wakePool_wpc, wakePool_open_, upd_same]; intro _ _ hh; cases hh
  · exact spsc_of_eq s _ rfl rfl rfl rfl (fun _ h => h) (by simp [upd]) ⟨h1, h2, h3, h4⟩

theorem spsc_stepAppend (s : St) (f b sz : Nat) (aok fok : Bool) (hl : Live s f)
    (h : Spsc s) : Spsc (stepAppend true s 0 f b sz aok fok) := by
  obtain ⟨h1, h2, h3, h4⟩ := h
  obtain ⟨hl1, hl2, hl3⟩ := hl
  have hlast : f + 1 = s.nfiles := by
    by_cases hh : f + 1 < s.nfiles
    · have := h3 f hh; rw [hl2] at this; cases this
    · omega
  have hcat : catW (upd s.written f (s.written f ++ [b])) s.nfiles = catW s.written s.nfiles ++ [b] := by
    rw [← hlast, catW_upd_last]; simp only [catW, List.append_assoc]
  unfold stepAppend
  simp only [hl3, ↓reduceIte]
  (repeat' split) <;> constructor <;>
    simp only [finishFile_nw, finishFile_written, finishFile_nfiles, finishFile_finished, finishFile_open_,
      wakeFile_nw, wakeFile_written, wakeFile_nfiles, wakeFile_finished, wakeFile_open_, finishFile_log,
      List.map_append, List.map_cons, List.map_nil, hcat, h2, upd_same] <;>
    first
    | exact h1
    | rfl
    | exact h2
    | (intro _ _ hh; cases hh)
    | (intro g hg; have := h3 g hg; grind [upd])


theorem spsc_stepGiveBack (s : St) (f : Nat) (h : Spsc s) : Spsc (stepGiveBack s 0 f) :=
  spsc_of_eq s _ rfl rfl rfl rfl (fun _ h => h) (by simp [stepGiveBack, upd]) h

theorem spsc_stepDrop (s : St) (h : Spsc s) : Spsc (stepDrop s 0) := by
  unfold stepDrop
  (repeat' split) <;>
    exact spsc_of_eq s _ (by simp) (by simp) (by simp) (by simp) (by simp) (by simp [upd]) h

theorem spsc_stepFinalize (s : St) (fs : List Nat) (h : Spsc s) : Spsc (stepFinalize s 0 fs) := by
  unfold stepFinalize
  split
  · exact spsc_of_eq s _ (by simp) (by simp) (by simp) (by simp) (by simp) (by simp [upd]) h
  · exact spsc_of_eq s _ (by simp) (by simp) (by simp) (by simp)
      (by intro g hg; simp only [finishFile_finished, upd]; split <;> simp_all) (by simp [upd]) h

def Act.isClone : Act → Bool
  | .clone _ => true
  | _ => false

theorem spsc_step (s : St) (a : Act) (ha : Act.isClone a = false) (ho : Own s) (h : Spsc s) :
    Spsc (step true s a) := by
  have h1 := h.one
  cases a with
  | push w b sz =>
    simp only [step]; split
    · rename_i hw
      have : w = 0 := by omega
      subst this
      split <;> first | exact spsc_stepPush s b sz h | exact h
    · exact h
  | create w ok =>
    simp only [step]; split
    · rename_i hw
      have : w = 0 := by omega
      subst this
      split
      · rename_i b sz hpc; exact spsc_stepCreate s b sz ok ho hpc h
      all_goals exact h
    · exact h
  | append w aok fok =>
    simp only [step]; split
    · rename_i hw
      have hw0 : w = 0 := by omega
      subst hw0
      split
      · rename_i f b sz hpc
        exact spsc_stepAppend s f b sz aok fok (ho.own_live 0 hw f (by simp [hpc, own])) h
      all_goals exact h
    · exact h
  | giveBack w =>
    simp only [step]; split
    · rename_i hw
      have : w = 0 := by omega
      subst this
      split <;> first | exact spsc_stepGiveBack s _ h | exact h
    · exact h
  | clone w => simp [Act.isClone] at ha
  | drop w =>
    simp only [step]; split
    · rename_i hw
      have : w = 0 := by omega
      subst this
      split <;> first | exact spsc_stepDrop s h | exact h
    · exact h
  | finalize w =>
    simp only [step]; split
    · rename_i hw
      have : w = 0 := by omega
      subst this
      split <;> first | exact spsc_stepFinalize s _ h | exact h
    · exact h
  | reader => exact spsc_stepReader s h

end DfModel.Proofs.C16
