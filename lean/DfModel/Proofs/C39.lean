/-
  C39 helper lemmas: the batch-wise / column-major MemTable model computes, batch by batch, what the
  row-by-row specification computes.  Core Lean only.
-/
import DfModel.Sm.MemTable
namespace DfModel.Proofs.C39
open DfModel DfModel.Sm.MemTable

/-! ## `List.mapM` in `Option` -/

theorem mapM_length {α β : Type} (f : α → Option β) (l : List α) (r : List β) (h : l.mapM f = some r) :
    r.length = l.length := by
  induction l generalizing r with
  | nil => simp at h; subst h; rfl
  | cons x xs ih =>
    simp only [List.mapM_cons] at h
    cases hx : f x with
    | none => simp [hx] at h
    | some y =>
      cases hxs : xs.mapM f with
      | none => simp [hx, hxs] at h
      | some ys =>
        simp [hx, hxs] at h
        subst h
        simp [ih ys hxs]

theorem mapM_some {α : Type} (l : List α) : l.mapM (fun x => (some x : Option α)) = some l := by
  induction l with
  | nil => rfl
  | cons x xs ih => simp [List.mapM_cons, ih]

theorem mapM_append' {α β : Type} (f : α → Option β) (l₁ l₂ : List α) :
    (l₁ ++ l₂).mapM f = (l₁.mapM f).bind (fun a => (l₂.mapM f).map (fun b => a ++ b)) := by
  induction l₁ with
  | nil => cases h : l₂.mapM f <;> simp [h]
  | cons x xs ih =>
    simp only [List.cons_append, List.mapM_cons, ih]
    cases f x <;> cases xs.mapM f <;> cases l₂.mapM f <;> simp

/-- two row-wise computations zipped = the two columns computed one after the other -/
theorem mapM_zipWith {α β γ δ : Type} (g : α → Option β) (h : α → Option γ) (k : β → γ → δ) (l : List α) :
    l.mapM (fun x => (g x).bind fun a => (h x).map fun c => k a c)
      = (l.mapM g).bind fun as => (l.mapM h).map fun cs => List.zipWith k as cs := by
  induction l with
  | nil => simp
  | cons x xs ih =>
    simp only [List.mapM_cons, ih]
    cases g x <;> cases h x <;> cases xs.mapM g <;> cases xs.mapM h <;> simp

/-- positional bind: a column step followed by a column step = one pass doing both per position -/
theorem zip_mapM_bind {ρ τ : Type} (f g : ρ → τ → Option τ) (ctx : List ρ) (acc : List τ)
    (hl : ctx.length = acc.length) :
    ((ctx.zip acc).mapM (fun ct => f ct.1 ct.2)).bind (fun acc1 => (ctx.zip acc1).mapM (fun ct => g ct.1 ct.2))
      = (ctx.zip acc).mapM (fun ct => (f ct.1 ct.2).bind (fun t' => g ct.1 t')) := by
  induction ctx generalizing acc with
  | nil => simp
  | cons c cs ih =>
    cases acc with
    | nil => simp at hl
    | cons t ts =>
      simp only [List.length_cons, Nat.add_right_cancel_iff] at hl
      simp only [List.zip_cons_cons, List.mapM_cons]
      rw [← ih ts hl]
      cases hf : f c t with
      | none => simp
      | some t' =>
        cases hm : (cs.zip ts).mapM (fun ct => f ct.1 ct.2) with
        | none => simp
        | some acc1 =>
          simp only [Option.bind_eq_bind, Option.bind_some, Option.pure_def, List.zip_cons_cons, List.mapM_cons]

theorem zip_mapM_length {ρ τ : Type} (f : ρ → τ → Option τ) (ctx : List ρ) (acc acc1 : List τ)
    (hl : ctx.length = acc.length) (h : (ctx.zip acc).mapM (fun ct => f ct.1 ct.2) = some acc1) :
    ctx.length = acc1.length := by
  have := mapM_length _ _ _ h
  simp [List.length_zip, hl] at this
  omega

/-- **column-major = row-major**: folding column steps over the whole batch equals folding, per
    position, the per-row steps -/
theorem foldlM_swap {α ρ τ : Type} (st : α → ρ → τ → Option τ) (as : List α) (ctx : List ρ) (acc : List τ)
    (hl : ctx.length = acc.length) :
    as.foldlM (fun acc a => (ctx.zip acc).mapM (fun ct => st a ct.1 ct.2)) acc
      = (ctx.zip acc).mapM (fun ct => as.foldlM (fun t a => st a ct.1 t) ct.2) := by
  induction as generalizing acc with
  | nil =>
    simp only [List.foldlM_nil]
    have : ∀ (ctx : List ρ) (acc : List τ), ctx.length = acc.length →
        (ctx.zip acc).mapM (fun ct => (some ct.2 : Option τ)) = some acc := by
      intro ctx
      induction ctx with
      | nil => intro acc h; cases acc <;> simp_all
      | cons c cs ih =>
        intro acc h
        cases acc with
        | nil => simp at h
        | cons t ts =>
          simp only [List.length_cons, Nat.add_right_cancel_iff] at h
          simp [List.mapM_cons, ih ts h]
    exact (this ctx acc hl).symm
  | cons a as ih =>
    simp only [List.foldlM_cons, Option.bind_eq_bind]
    rw [← zip_mapM_bind (fun c t => st a c t) (fun c t => as.foldlM (fun t a => st a c t) t) ctx acc hl]
    cases hm : (ctx.zip acc).mapM (fun ct => st a ct.1 ct.2) with
    | none => simp
    | some acc1 =>
      simp only [Option.bind_some]
      exact ih acc1 (zip_mapM_length _ ctx acc acc1 hl hm)

/-! ## the filter mask -/

/-- the selection a mask stands for: TRUE positions only; no filters = every row -/
def norm (b : Batch) : Option (List Tri) → List Bool
  | none => b.map (fun _ => true)
  | some m => m.map (· == .t)

theorem arrowAnd_t (x y : Tri) : (arrowAnd x y == .t) = ((x == .t) && (y == .t)) := by
  cases x <;> cases y <;> rfl

theorem zipWith_and_true (b : Batch) (ps : List Bool) (h : ps.length = b.length) :
    List.zipWith (· && ·) (b.map fun _ => true) ps = ps := by
  induction b generalizing ps with
  | nil => cases ps <;> simp_all
  | cons r rs ih =>
    cases ps with
    | nil => simp at h
    | cons p ps => simp at h; simp [ih ps h]

theorem predRow_cons (f : Expr) (fs : List Expr) (r : Row) :
    predRow (f :: fs) r = (tv f r).bind fun t => (predRow fs r).map fun p => (t == .t) && p := by
  simp only [predRow, List.mapM_cons]
  cases tv f r <;> cases fs.mapM (fun f => tv f r) <;> simp

theorem predRow_nil (r : Row) : predRow [] r = some true := by simp [predRow]

theorem mapM_const_true (b : Batch) : b.mapM (fun _ => (some true : Option Bool)) = some (b.map fun _ => true) := by
  induction b with
  | nil => rfl
  | cons r rs ih => simp [List.mapM_cons, ih]

theorem zipWith_norm_left (ts : List Tri) (ps : List Bool) :
    List.zipWith (· && ·) (ts.map (· == Tri.t)) ps = List.zipWith (fun x p => (x == Tri.t) && p) ts ps := by
  induction ts generalizing ps with
  | nil => simp
  | cons x xs ih => cases ps with
    | nil => simp
    | cons p ps => simp [ih]

theorem zipWith_norm_acc (xs m : List Tri) (ps : List Bool) :
    List.zipWith (· && ·) ((List.zipWith arrowAnd xs m).map (· == Tri.t)) ps
      = List.zipWith (· && ·) (xs.map (· == Tri.t)) (List.zipWith (fun x p => (x == Tri.t) && p) m ps) := by
  induction xs generalizing m ps with
  | nil => simp
  | cons x xs ih =>
    cases m with
    | nil => simp
    | cons y ys =>
      cases ps with
      | nil => simp
      | cons p ps =>
        simp only [List.zipWith_cons_cons, List.map_cons, ih, arrowAnd_t, Bool.and_assoc]

/-- the accumulated mask of `evaluate_filters_to_mask` selects exactly the rows on which every
    conjunct is TRUE; it fails iff some conjunct fails on some row -/
theorem filtersMask_rowwise (b : Batch) (fs : List Expr) (acc : Option (List Tri))
    (hacc : (norm b acc).length = b.length) :
    (filtersMask b acc fs).map (norm b)
      = (b.mapM (predRow fs)).map (fun ps => List.zipWith (· && ·) (norm b acc) ps) := by
  induction fs generalizing acc with
  | nil =>
    have hn : predRow [] = fun _ => some true := by funext r; exact predRow_nil r
    simp only [filtersMask, Option.map_some, hn, mapM_const_true]
    congr 1
    have : ∀ (xs : List Bool) (b : Batch), xs.length = b.length →
        List.zipWith (· && ·) xs (b.map fun _ => true) = xs := by
      intro xs
      induction xs with
      | nil => intro b _; simp
      | cons x xs ih =>
        intro b h
        cases b with
        | nil => simp at h
        | cons r rs => simp at h; simp [ih rs h]
    exact (this _ b hacc).symm
  | cons f fs ih =>
    simp only [filtersMask]
    have hz := mapM_zipWith (tv f) (predRow fs) (fun t p => (t == .t) && p) b
    have hp : (fun r => predRow (f :: fs) r) = fun r => (tv f r).bind fun t => (predRow fs r).map fun p => (t == .t) && p := by
      funext r; exact predRow_cons f fs r
    rw [show b.mapM (predRow (f :: fs)) = b.mapM (fun r => predRow (f :: fs) r) from rfl, hp, hz]
    simp only [triCol]
    cases hm : b.mapM (tv f) with
    | none => simp
    | some m =>
      have hml := mapM_length _ _ _ hm
      simp only [Option.bind_eq_bind, Option.bind_some]
      have hacc' : (norm b (some (combineMask acc m))).length = b.length := by
        cases acc with
        | none => simp [norm, combineMask, hml]
        | some a => simp [norm, combineMask] at hacc ⊢; omega
      rw [ih _ hacc']
      cases hps : b.mapM (predRow fs) with
      | none => simp
      | some ps =>
        have hpl := mapM_length _ _ _ hps
        simp only [Option.map_some]
        congr 1
        cases acc with
        | none =>
          simp only [norm, combineMask]
          rw [zipWith_and_true b _ (by simp [List.length_zipWith, hml, hpl])]
          exact zipWith_norm_left m ps
        | some a =>
          simp only [norm, combineMask]
          exact zipWith_norm_acc a m ps

end DfModel.Proofs.C39
