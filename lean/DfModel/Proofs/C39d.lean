/-
  C39 helper lemmas, part 4: INSERT — the round-robin distribution of the arriving batches loses and
  duplicates nothing.
-/
import DfModel.Proofs.C39c
import DfModel.Proofs.C02
namespace DfModel.Proofs.C39
open DfModel DfModel.Sm.MemTable DfModel.Proofs.C02

theorem zipIdx_flatMap_fst {α β : Type} (l : List α) (k : Nat) (f : α → List β) :
    (l.zipIdx k).flatMap (fun pi => f pi.1) = l.flatMap f := by
  induction l generalizing k with
  | nil => rfl
  | cons a as ih => simp [List.zipIdx_cons, ih]

theorem zipIdx_flatMap_snd {α β : Type} (l : List α) (k : Nat) (F : Nat → List β) :
    (l.zipIdx k).flatMap (fun pi => F pi.2) = (List.range' k l.length).flatMap F := by
  induction l generalizing k with
  | nil => rfl
  | cons a as ih => simp [List.zipIdx_cons, ih, List.range'_succ]

theorem flatten_flatten_map {α β : Type} (xs : List α) (f : α → List (List β)) :
    (xs.map f).flatten.flatten = xs.flatMap (fun x => (f x).flatten) := by
  induction xs with
  | nil => rfl
  | cons a as ih => simp [ih]

theorem flatMap_flatten' {β : Type} (l : List (List (List β))) : l.flatMap (fun p => p.flatten) = l.flatten.flatten := by
  induction l with
  | nil => rfl
  | cons a as ih => simp [ih, List.flatten_append]

theorem rrTail_eq (n p : Nat) (bs : List Batch) :
    rrTail n p bs = (bs.zipIdx.filter (fun bj => bj.2 % n == p)).map (·.1) := by
  simp only [rrTail]
  induction bs.zipIdx with
  | nil => rfl
  | cons x xs ih =>
    by_cases h : x.2 % n = p
    · simp [List.filterMap_cons, List.filter_cons, h, ih]
    · simp [List.filterMap_cons, List.filter_cons, h, ih]

/-- with at least one partition the table afterwards holds exactly the old rows plus the rows of the
    arriving batches (as a bag) -/
theorem insertBatches_perm (l : Layout) (bs : List Batch) (hl : l ≠ []) :
    (rows (insertBatches l bs)).Perm (rows l ++ bs.flatten) := by
  have hn : 0 < l.length := List.length_pos_iff.mpr hl
  simp only [rows, insertBatches, flatten_flatten_map]
  have h1 : (l.zipIdx.flatMap (fun pi => (pi.1 ++ rrTail l.length pi.2 bs).flatten))
      = l.zipIdx.flatMap (fun pi => (fun (pi : Part × Nat) => pi.1.flatten) pi ++ (fun (pi : Part × Nat) => (rrTail l.length pi.2 bs).flatten) pi) := by
    apply flatMap_congr'
    intro pi _
    simp
  rw [h1]
  refine (flatMap_append_perm l.zipIdx _ _).trans ?_
  have e1 : l.zipIdx.flatMap (fun (pi : Part × Nat) => pi.1.flatten) = l.flatten.flatten := by
    rw [zipIdx_flatMap_fst l 0 (fun p => p.flatten)]
    exact flatMap_flatten' l
  have e2 : l.zipIdx.flatMap (fun (pi : Part × Nat) => (rrTail l.length pi.2 bs).flatten)
      = (List.range l.length).flatMap (fun i => (bs.zipIdx.filter (fun bj => bj.2 % l.length == i)).flatMap (fun bj => bj.1)) := by
    rw [zipIdx_flatMap_snd l 0 (fun i => (rrTail l.length i bs).flatten), List.range_eq_range']
    apply flatMap_congr'
    intro i _
    rw [rrTail_eq, List.flatMap_def]
  rw [e1, e2]
  refine List.Perm.append_left _ ?_
  refine (partition_flatMap_perm l.length (fun (bj : Batch × Nat) => bj.2 % l.length) (fun _ => Nat.mod_lt _ hn)
    bs.zipIdx (fun bj => bj.1)).trans ?_
  rw [zipIdx_flatMap_fst bs 0 (fun b => b)]
  simp [List.flatMap_def]

end DfModel.Proofs.C39
