/-
  C43 helper lemmas: decimal rendering / parsing round trips, per-kind `parse ∘ show`.
  Core Lean only.
-/
import DfModel.Text.Config
namespace DfModel.Proofs.C43
open DfModel.Text.Config

set_option linter.unusedSimpArgs false

theorem digitChar_props : ∀ d, d < 10 → (digitChar d).isDigit = true ∧ (digitChar d).toNat - 48 = d
    ∧ ((digitChar d) == '+') = false ∧ ((digitChar d) == '-') = false := by decide

theorem foldDigits_append_digit (l : List Char) (d : Nat) (hd : d < 10) : ∀ acc,
    foldDigits acc (l ++ [digitChar d]) = (foldDigits acc l).map (fun x => x * 10 + d) := by
  induction l with
  | nil =>
    intro acc
    obtain ⟨h1, h2, _⟩ := digitChar_props d hd
    simp [foldDigits, h1, h2]
  | cons c l ih =>
    intro acc
    by_cases hc : c.isDigit = true
    · simp [foldDigits, hc, ih]
    · simp [foldDigits, hc]

theorem showNat_lt (n : Nat) (h : n < 10) : showNat n = [digitChar n] := by
  rw [showNat]; simp [h]

theorem showNat_ge (n : Nat) (h : ¬ n < 10) :
    showNat n = showNat (n / 10) ++ [digitChar (n % 10)] := by
  rw [showNat]; simp [h]

theorem foldDigits_showNat (n : Nat) : foldDigits 0 (showNat n) = some n := by
  induction n using Nat.strongRecOn with
  | _ n ih =>
    by_cases h : n < 10
    · obtain ⟨h1, h2, _⟩ := digitChar_props n h
      simp [showNat_lt n h, foldDigits, h1, h2]
    · rw [showNat_ge n h, foldDigits_append_digit _ _ (Nat.mod_lt _ (by omega)), ih (n / 10) (by omega)]
      simp only [Option.map_some, Option.some.injEq]
      omega

/-- the first character of a decimal rendering is a digit -/
theorem showNat_head (n : Nat) : ∃ c r, showNat n = c :: r ∧ c.isDigit = true
    ∧ (c == '+') = false ∧ (c == '-') = false := by
  induction n using Nat.strongRecOn with
  | _ n ih =>
    by_cases h : n < 10
    · obtain ⟨h1, _, h3, h4⟩ := digitChar_props n h
      exact ⟨digitChar n, [], showNat_lt n h, h1, h3, h4⟩
    · obtain ⟨c, r, hc, h1, h3, h4⟩ := ih (n / 10) (by omega)
      exact ⟨c, r ++ [digitChar (n % 10)], by rw [showNat_ge n h, hc]; rfl, h1, h3, h4⟩

theorem parseDigits_showNat (n : Nat) : parseDigits (showNat n) = some n := by
  obtain ⟨c, r, hc, _⟩ := showNat_head n
  have := foldDigits_showNat n
  rw [hc] at this ⊢
  simpa [parseDigits] using this

/-- **`str::parse::<uN>` inverts `Display`** for every natural number within the type's range -/
theorem parseUnsigned_showNat (max n : Nat) (h : n ≤ max) : parseUnsigned max (showNat n) = some n := by
  obtain ⟨c, r, hc, _, hplus, _⟩ := showNat_head n
  have hp := parseDigits_showNat n
  unfold parseUnsigned
  rw [hc] at hp ⊢
  simp only [hplus, Bool.false_eq_true, if_false, hp, h, if_true]

/-- **`str::parse::<iN>` inverts `Display`** for every integer within the type's range -/
theorem parseSigned_showInt (lo hi v : Int) (h1 : lo ≤ v) (h2 : v ≤ hi) :
    parseSigned lo hi (showInt v) = some v := by
  cases v with
  | ofNat n =>
    obtain ⟨c, r, hc, _, hplus, hminus⟩ := showNat_head n
    have hp := parseDigits_showNat n
    simp only [showInt]
    rw [hc] at hp ⊢
    simp only [parseSigned, hminus, hplus, Bool.false_eq_true, if_false, hp]
    have : (n : Int) ≤ hi := h2
    simp [this]
  | negSucc n =>
    have hp := parseDigits_showNat (n + 1)
    simp only [showInt, parseSigned, beq_self_eq_true, if_true, hp]
    have e : -((n + 1 : Nat) : Int) = Int.negSucc n := by omega
    have : lo ≤ -((n + 1 : Nat) : Int) := by rw [e]; exact h1
    rw [e] at this ⊢
    simp [this]

theorem showNat_eq_zero_text (v : Nat) (h : showNat v = ['0']) : v = 0 := by
  have a := parseDigits_showNat v
  rw [h] at a
  have b : parseDigits ['0'] = some 0 := by decide
  rw [b] at a
  exact (Option.some.inj a).symm

theorem parse_showBool (b : Bool) : parseStrictBool (lowerAscii (showBool b)) = some b
    ∧ parseStrictBool (showBool b) = some b := by
  cases b <;> decide

/-- per-kind round trip: whatever text a valid value is reported as parses back to that value -/
theorem parse_show : ∀ (k : Kind) (v : Val) (t : List Char),
    Valid k v → «show» k v = some t → parse k t = some v := by
  intro k
  induction k with
  | bool =>
    intro v t hv hs
    cases v <;> simp [«show», Valid] at hs hv
    subst hs; simp [parse, (parse_showBool _).1]
  | strictBool =>
    intro v t hv hs
    cases v <;> simp [«show», Valid] at hs hv
    subst hs; simp [parse, (parse_showBool _).2]
  | uint max =>
    intro v t hv hs
    cases v <;> simp [«show», Valid] at hs hv
    subst hs; simp [parse, parseUnsigned_showNat _ _ hv]
  | int lo hi =>
    intro v t hv hs
    cases v <;> simp [«show», Valid] at hs hv
    subst hs; simp [parse, parseSigned_showInt _ _ _ hv.1 hv.2]
  | uintMin lo max =>
    intro v t hv hs
    cases v <;> simp [«show», Valid] at hs hv
    subst hs; simp [parse, parseUnsigned_showNat _ _ hv.2, hv.1]
  | selectivity =>
    intro v t hv hs
    cases v with
    | n x =>
      simp [«show», Valid] at hs hv
      subst hs
      have := parseSigned_showInt (-(2 ^ 63 : Int)) (2 ^ 63 - 1) (x : Int) (by omega) (by omega)
      simp only [showInt] at this
      have hx : ((x : Int)) = Int.ofNat x := rfl
      simp only [parse]
      rw [show showNat x = showInt (Int.ofNat x) from rfl, ← hx]
      rw [show showInt (x : Int) = showNat x from rfl, this]
      have h100 : (x : Int) ≤ 100 := by omega
      simp [h100]
    | _ => simp [«show», Valid] at hs hv
  | parallelism ncpu max =>
    intro v t hv hs
    cases v with
    | n x =>
      simp [«show», Valid] at hs hv
      subst hs
      have hp := parseUnsigned_showNat _ _ hv.2
      simp only [parse, hp]
      cases x with
      | zero => omega
      | succ y => rfl
    | _ => simp [«show», Valid] at hs hv
  | str =>
    intro v t hv hs
    cases v <;> simp [«show», Valid] at hs hv
    subst hs; simp [parse]
  | lowerStr =>
    intro v t hv hs
    cases v <;> simp [«show», Valid] at hs hv
    subst hs; simp [parse, hv]
  | «enum» table tr =>
    intro v t hv hs
    cases v with
    | e i =>
      simp only [«show»] at hs
      simp only [Valid] at hv
      obtain ⟨c, hc, hf, htrim⟩ := hv
      rw [hc] at hs
      have : c = t := Option.some.inj hs
      subst this
      cases tr <;> simp [parse, hf, htrim]
    | _ => simp [«show», Valid] at hs hv
  | opt inner ih =>
    intro v t hv hs
    cases v with
    | none => simp [«show»] at hs
    | b x => simp only [«show», Valid, parse] at hs hv ⊢; exact ih _ _ hv hs
    | n x => simp only [«show», Valid, parse] at hs hv ⊢; exact ih _ _ hv hs
    | i x => simp only [«show», Valid, parse] at hs hv ⊢; exact ih _ _ hv hs
    | s x => simp only [«show», Valid, parse] at hs hv ⊢; exact ih _ _ hv hs
    | e x => simp only [«show», Valid, parse] at hs hv ⊢; exact ih _ _ hv hs
  | optStrict inner ih =>
    intro v t hv hs
    cases v with
    | none => simp [«show»] at hs
    | b x => simp only [«show», Valid, parse] at hs hv ⊢; exact ih _ _ hv hs
    | n x => simp only [«show», Valid, parse] at hs hv ⊢; exact ih _ _ hv hs
    | i x => simp only [«show», Valid, parse] at hs hv ⊢; exact ih _ _ hv hs
    | s x => simp only [«show», Valid, parse] at hs hv ⊢; exact ih _ _ hv hs
    | e x => simp only [«show», Valid, parse] at hs hv ⊢; exact ih _ _ hv hs
  | unmodelled =>
    intro v t hv hs
    cases v <;> simp [«show», Valid] at hs hv

/-! ### configuration level -/

theorem find_key_eq (cfg : Config) (e : Entry) (hmem : e ∈ cfg)
    (hnd : (cfg.map (·.key)).Nodup) : cfg.find? (fun x => x.key == e.key) = some e := by
  induction cfg with
  | nil => cases hmem
  | cons x cfg ih =>
    simp only [List.map_cons, List.nodup_cons] at hnd
    by_cases hx : x.key = e.key
    · have : x = e := by
        rcases List.mem_cons.mp hmem with h | h
        · exact h.symm
        · exfalso; apply hnd.1; rw [hx]; exact List.mem_map.mpr ⟨e, h, rfl⟩
      subst this
      simp [List.find?]
    · have hne : (x.key == e.key) = false := by simpa using hx
      have hmem' : e ∈ cfg := by
        rcases List.mem_cons.mp hmem with h | h
        · subst h; exact absurd rfl hx
        · exact h
      simp [List.find?, hne, ih hmem' hnd.2]

theorem mem_key_unique (cfg : Config) (e x : Entry) (he : e ∈ cfg) (hx : x ∈ cfg)
    (hk : x.key = e.key) (hnd : (cfg.map (·.key)).Nodup) : x = e := by
  induction cfg with
  | nil => cases he
  | cons y cfg ih =>
    simp only [List.map_cons, List.nodup_cons] at hnd
    rcases List.mem_cons.mp he with h1 | h1 <;> rcases List.mem_cons.mp hx with h2 | h2
    · rw [h1, h2]
    · exfalso; apply hnd.1; rw [← h1, ← hk]; exact List.mem_map.mpr ⟨x, h2, rfl⟩
    · exfalso; apply hnd.1; rw [← h2, hk]; exact List.mem_map.mpr ⟨e, h1, rfl⟩
    · exact ih h1 h2 hnd.2

theorem assign_self (cfg : Config) (e : Entry) (hmem : e ∈ cfg)
    (hnd : (cfg.map (·.key)).Nodup) : assign cfg [e.key] e.val = cfg := by
  unfold assign
  have : ∀ x ∈ cfg, (if [e.key].contains x.key then { x with val := e.val } else x) = x := by
    intro x hx
    by_cases hk : x.key = e.key
    · have := mem_key_unique cfg e x hmem hx hk hnd
      subst this; simp
    · have : ([e.key].contains x.key) = false := by simp [hk]
      rw [this]; simp
  calc cfg.map _ = cfg.map id := List.map_congr_left this
    _ = cfg := List.map_id cfg

end DfModel.Proofs.C43
