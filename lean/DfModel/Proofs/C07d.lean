/-
  C07 — sliding min/max, distinct-count bag, bit_xor retraction, per-group accumulation. Core Lean only.
-/
import DfModel.Proofs.C07c
namespace DfModel.Proofs.C07
open DfModel.Mech.AggAcc

/-! ### sliding min / max (FIFO of values) -/

theorem sliding_update (f : V → V → V)
    (a : Acc (List V) (Option V)) (hstep : ∀ s v, a.step s v = match v with | none => s | some x => s ++ [x])
    (s : List V) (xs : List NV) : a.update s xs = s ++ vals xs := by
  induction xs generalizing s with
  | nil => simp [Acc.update]
  | cons x xs ih =>
    simp only [Acc.update, List.foldl_cons] at ih ⊢
    rw [ih, hstep]
    cases x <;> simp

theorem slidingMax_update (s : List V) (xs : List NV) : slidingMax.update s xs = s ++ vals xs :=
  sliding_update vmax slidingMax (fun _ _ => rfl) s xs
theorem slidingMin_update (s : List V) (xs : List NV) : slidingMin.update s xs = s ++ vals xs :=
  sliding_update vmin slidingMin (fun _ _ => rfl) s xs

theorem slidingRetract_fold (s : List V) (xs : List NV) :
    xs.foldl slidingRetract s = s.drop (cntV xs) := by
  induction xs generalizing s with
  | nil => simp
  | cons x xs ih =>
    simp only [List.foldl_cons]; rw [ih]
    cases x <;> simp [slidingRetract, Nat.add_comm]

/-- retracting a prefix restores exactly the state of the remaining rows -/
theorem slidingMax_retract_prefix (xs ys : List NV) :
    xs.foldl slidingRetract (slidingMax.update slidingMax.init (xs ++ ys)) = slidingMax.update slidingMax.init ys := by
  rw [slidingRetract_fold, slidingMax_update, slidingMax_update]
  show ([] ++ vals (xs ++ ys)).drop (cntV xs) = [] ++ vals ys
  simp [vals_append, cntV]
theorem slidingMin_retract_prefix (xs ys : List NV) :
    xs.foldl slidingRetract (slidingMin.update slidingMin.init (xs ++ ys)) = slidingMin.update slidingMin.init ys := by
  rw [slidingRetract_fold, slidingMin_update, slidingMin_update]
  show ([] ++ vals (xs ++ ys)).drop (cntV xs) = [] ++ vals ys
  simp [vals_append, cntV]

theorem foldOpt_append (f : V → V → V) (hassoc : ∀ a b c, f (f a b) c = f a (f b c)) (s t : List V) :
    foldOpt f (s ++ t) = mergeOpt f (foldOpt f s) (foldOpt f t) := by
  have hfold : ∀ (l : List V) (a b : V), l.foldl f (f a b) = f a (l.foldl f b) := by
    intro l
    induction l with
    | nil => intro a b; rfl
    | cons x l ih => intro a b; simp only [List.foldl_cons]; rw [hassoc, ih]
  cases s with
  | nil => cases t <;> simp [foldOpt, mergeOpt]
  | cons a s =>
    cases t with
    | nil => simp [foldOpt, mergeOpt]
    | cons b t =>
      simp only [foldOpt, mergeOpt, List.cons_append, List.foldl_append, List.foldl_cons]
      rw [hfold]

/-- plain min/max state = fold over the non-null values -/
theorem liftOpt_update (f : V → V → V) (hassoc : ∀ a b c, f (f a b) c = f a (f b c))
    (s : Option V) (xs : List NV) :
    xs.foldl (liftOpt f) s = mergeOpt f s (foldOpt f (vals xs)) := by
  induction xs generalizing s with
  | nil => cases s <;> rfl
  | cons x xs ih =>
    simp only [List.foldl_cons]; rw [ih]
    cases x with
    | none => rfl
    | some x =>
      have h2 : foldOpt f (vals (some x :: xs)) = mergeOpt f (some x) (foldOpt f (vals xs)) := by
        have := foldOpt_append f hassoc [x] (vals xs)
        simpa [foldOpt] using this
      rw [h2]
      cases s <;> cases h : foldOpt f (vals xs) <;> simp [liftOpt, mergeOpt, hassoc]

/-- the sliding accumulators compute the same value as the plain ones -/
theorem slidingMax_eq_max (xs : List NV) :
    slidingMax.eval (slidingMax.update slidingMax.init xs) = max.eval (max.update max.init xs) := by
  rw [slidingMax_update]
  show foldOpt vmax ([] ++ vals xs) = xs.foldl (liftOpt vmax) none
  rw [liftOpt_update vmax vmax_assoc]
  cases h : foldOpt vmax (vals xs) <;> simp [mergeOpt, h]
theorem slidingMin_eq_min (xs : List NV) :
    slidingMin.eval (slidingMin.update slidingMin.init xs) = min.eval (min.update min.init xs) := by
  rw [slidingMin_update]
  show foldOpt vmin ([] ++ vals xs) = xs.foldl (liftOpt vmin) none
  rw [liftOpt_update vmin vmin_assoc]
  cases h : foldOpt vmin (vals xs) <;> simp [mergeOpt, h]

/-- merging sliding partials (each ships its current max) gives the max of everything -/
theorem slidingMax_merge_hom (xs ys : List NV) :
    slidingMax.eval (slidingMax.merge (slidingMax.update slidingMax.init xs) (slidingMax.update slidingMax.init ys))
      = slidingMax.eval (slidingMax.update slidingMax.init (xs ++ ys)) := by
  rw [slidingMax_update, slidingMax_update, slidingMax_update]
  show foldOpt vmax (match foldOpt vmax ([] ++ vals ys) with | none => [] ++ vals xs | some m => ([] ++ vals xs) ++ [m])
    = foldOpt vmax ([] ++ vals (xs ++ ys))
  simp only [List.nil_append, vals_append]
  rw [foldOpt_append vmax vmax_assoc (vals xs) (vals ys)]
  cases h : foldOpt vmax (vals ys) with
  | none => simp [mergeOpt]
  | some m => simp only; rw [foldOpt_append vmax vmax_assoc]; rfl
theorem slidingMin_merge_hom (xs ys : List NV) :
    slidingMin.eval (slidingMin.merge (slidingMin.update slidingMin.init xs) (slidingMin.update slidingMin.init ys))
      = slidingMin.eval (slidingMin.update slidingMin.init (xs ++ ys)) := by
  rw [slidingMin_update, slidingMin_update, slidingMin_update]
  show foldOpt vmin (match foldOpt vmin ([] ++ vals ys) with | none => [] ++ vals xs | some m => ([] ++ vals xs) ++ [m])
    = foldOpt vmin ([] ++ vals (xs ++ ys))
  simp only [List.nil_append, vals_append]
  rw [foldOpt_append vmin vmin_assoc (vals xs) (vals ys)]
  cases h : foldOpt vmin (vals ys) with
  | none => simp [mergeOpt]
  | some m => simp only; rw [foldOpt_append vmin vmin_assoc]; rfl

/-! ### sliding distinct count (bag) -/

theorem bag_update (s : List V) (xs : List NV) : countDistinctSliding.update s xs = s ++ vals xs :=
  sliding_update (fun a _ => a) ⟨[], countDistinctSliding.step, countDistinctSliding.merge, fun l => some (BitVec.ofNat 64 l.length)⟩
    (fun _ _ => rfl) s xs

theorem bag_retract_prefix (xs ys : List NV) :
    xs.foldl bagRetract (countDistinctSliding.update countDistinctSliding.init (xs ++ ys))
      = countDistinctSliding.update countDistinctSliding.init ys := by
  rw [bag_update, bag_update]
  show xs.foldl bagRetract ([] ++ vals (xs ++ ys)) = [] ++ vals ys
  simp only [List.nil_append, vals_append]
  induction xs with
  | nil => simp
  | cons x xs ih =>
    cases x with
    | none => simpa [bagRetract] using ih
    | some x => simp only [List.foldl_cons, bagRetract, vals_some, List.cons_append]; simpa using ih

/-! ### bit_xor -/

/-- `bit_xor` after retraction: right value whenever NULL is read as 0 … -/
theorem bitXor_retract_partial (xs ys : List NV) :
    (xs.foldl bitXorRetract (bitXor.update bitXor.init (xs ++ ys))).getD 0 = (bitXor.update bitXor.init ys).getD 0 := by
  have hupd : ∀ (s : Option V) (zs : List NV), (zs.foldl (liftOpt (· ^^^ ·)) s).getD 0
      = s.getD 0 ^^^ (vals zs).foldl (· ^^^ ·) 0 := by
    intro s zs
    induction zs generalizing s with
    | nil => simp
    | cons z zs ih =>
      simp only [List.foldl_cons]; rw [ih]
      cases z with
      | none => rfl
      | some z =>
        have hf : ∀ (l : List V) (a : V), l.foldl (· ^^^ ·) a = a ^^^ l.foldl (· ^^^ ·) 0 := by
          intro l
          induction l with
          | nil => intro a; simp
          | cons y l ih2 => intro a; simp only [List.foldl_cons]; rw [ih2 (a ^^^ y), ih2 (0 ^^^ y)]; simp [BitVec.xor_assoc]
        cases s <;> simp only [liftOpt, vals_some, List.foldl_cons, Option.getD_some, Option.getD_none] <;>
          rw [hf (vals zs) (0 ^^^ z)] <;> simp [BitVec.xor_assoc]
  have hx : ∀ (l : List V) (a : V), l.foldl (· ^^^ ·) a = a ^^^ l.foldl (· ^^^ ·) 0 := by
    intro l
    induction l with
    | nil => intro a; simp
    | cons y l ih2 => intro a; simp only [List.foldl_cons]; rw [ih2 (a ^^^ y), ih2 (0 ^^^ y)]; simp [BitVec.xor_assoc]
  show (xs.foldl (liftOpt (· ^^^ ·)) ((xs ++ ys).foldl (liftOpt (· ^^^ ·)) none)).getD 0
    = (ys.foldl (liftOpt (· ^^^ ·)) none).getD 0
  rw [hupd, hupd, hupd]
  simp only [Option.getD_none, vals_append, List.foldl_append]
  rw [hx (vals ys) (List.foldl _ 0 (vals xs))]
  generalize List.foldl (fun x1 x2 => x1 ^^^ x2) 0 (vals xs) = A
  generalize List.foldl (fun x1 x2 => x1 ^^^ x2) 0 (vals ys) = B
  apply BitVec.eq_of_getLsbD_eq
  intro i _
  simp only [BitVec.getLsbD_xor, BitVec.getLsbD_zero]
  cases A.getLsbD i <;> cases B.getLsbD i <;> cases BitVec.getLsbD (0 : V) i <;> rfl

/-! ### per-group accumulation -/

variable {σ ρ : Type}

theorem groupsUpdate_get (a : Acc σ ρ) (sts : List σ) (rows : List GRow) (g : Nat) :
    (groupsUpdate a sts rows)[g]? =
      sts[g]?.map (fun s => a.update s ((rows.filter (fun r => r.keep && r.g == g)).map (·.v))) := by
  induction rows generalizing sts with
  | nil => simp [groupsUpdate, Acc.update]
  | cons r rows ih =>
    simp only [groupsUpdate, List.foldl_cons] at ih ⊢
    rw [ih]
    by_cases hk : r.keep = true
    · simp only [hk, if_true, List.getElem?_modify, Bool.true_and]
      by_cases hg : r.g = g
      · subst hg
        cases h : sts[r.g]? <;> simp [h, List.filter_cons, hk, Acc.update]
      · have : (r.g == g) = false := by simpa using hg
        cases h : sts[g]? <;> simp [h, List.filter_cons, hk, this, hg]
    · have hk' : r.keep = false := by simpa using hk
      simp [hk', List.filter_cons]

end DfModel.Proofs.C07
