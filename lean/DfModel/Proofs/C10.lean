/-
  Helper lemmas for C10 (routing). Core Lean only.
-/
import DfModel.Mech.Repart
namespace DfModel.Proofs.C10
open DfModel.Mech.Repart

/-! ### binary search -/

/-- `lt` is monotone: once the key is below a split point it is below all later ones -/
def Mono (lt : Nat → Bool) : Prop := ∀ i j, i ≤ j → lt i = true → lt j = true

theorem bsearch_spec (lt : Nat → Bool) (hm : Mono lt) (low high : Nat) (hlh : low ≤ high) :
    low ≤ bsearch lt low high ∧ bsearch lt low high ≤ high ∧
    (∀ i, low ≤ i → i < bsearch lt low high → lt i = false) ∧
    (∀ i, bsearch lt low high ≤ i → i < high → lt i = true) := by
  fun_induction bsearch lt low high with
  | case1 low high hlt mid hmid ih =>
    have := ih (by omega)
    refine ⟨this.1, by omega, this.2.2.1, ?_⟩
    intro i hi1 hi2
    by_cases h : i < mid
    · exact this.2.2.2 i hi1 h
    · exact hm mid i (by omega) hmid
  | case2 low high hlt mid hmid ih =>
    have := ih (by omega)
    refine ⟨by omega, this.2.1, ?_, this.2.2.2⟩
    intro i hi1 hi2
    by_cases h : mid + 1 ≤ i
    · exact this.2.2.1 i h hi2
    · cases hl : lt i with
      | false => rfl
      | true =>
        have := hm i mid (by omega) hl
        simp [this] at hmid
  | case3 low high hlt =>
    refine ⟨Nat.le_refl _, by omega, ?_, ?_⟩
    · intro i h1 h2; omega
    · intro i h1 h2; omega

/-- the probe made by `range_partition_id` at index `i` -/
def probe (key : List (Option Int)) (splits : List (List (Option Int))) (opts : List SortOpt)
    (i : Nat) : Bool :=
  match splits[i]? with
  | some s => cmpRows key s opts == .lt
  | none => true        -- never probed (`mid < high ≤ len`); "+∞" keeps the predicate monotone

theorem rangeIdAux_eq_bsearch (key : List (Option Int)) (splits : List (List (Option Int)))
    (opts : List SortOpt) (low high : Nat) (hh : high ≤ splits.length) :
    rangeIdAux key splits opts low high hh = bsearch (probe key splits opts) low high := by
  fun_induction rangeIdAux key splits opts low high hh with
  | case1 low high hh hlt mid hm hcmp ih =>
    rw [bsearch]
    have : probe key splits opts mid = true := by
      simp [probe, List.getElem?_eq_getElem hm, hcmp]
    have this' : probe key splits opts (low + (high - low) / 2) = true := this
    simp only [hlt, if_true]
    rw [if_pos this']; exact ih
  | case2 low high hh hlt mid hm hcmp ih =>
    rw [bsearch]
    have : probe key splits opts mid = false := by
      simp only [probe, List.getElem?_eq_getElem hm]
      cases hc : cmpRows key splits[mid] opts with
      | lt => exact absurd hc (hcmp)
      | eq => rfl
      | gt => rfl
    have this' : probe key splits opts (low + (high - low) / 2) = false := this
    simp only [hlt, if_true]
    rw [this']; exact ih
  | case3 low high hh hlt =>
    rw [bsearch]; simp [hlt]

/-- a list whose first `r` elements satisfy `p` and whose other elements do not has `countP p = r` -/
theorem countP_prefix {α : Type} (p : α → Bool) (l : List α) (r : Nat) (hr : r ≤ l.length)
    (h1 : ∀ i (hi : i < l.length), i < r → p l[i] = true)
    (h2 : ∀ i (hi : i < l.length), r ≤ i → p l[i] = false) : l.countP p = r := by
  induction l generalizing r with
  | nil => simp at hr; simp [hr]
  | cons a l ih =>
    cases r with
    | zero =>
      rw [List.countP_eq_zero]
      intro x hx
      obtain ⟨i, hi, rfl⟩ := List.getElem_of_mem hx
      have := h2 i hi (Nat.zero_le _)
      simp [this]
    | succ r =>
      have ha : p a = true := h1 0 (by simp) (by omega)
      rw [List.countP_cons_of_pos ha]
      have := ih r (by simp at hr; omega)
        (fun i hi hlt => by have := h1 (i + 1) (by simp; omega) (by omega); simpa using this)
        (fun i hi hle => by have := h2 (i + 1) (by simp; omega) (by omega); simpa using this)
      omega

/-! ### `compare_rows` is a strict order on equal-width tuples -/

theorem cmpInt_eq {a b : Int} (h : cmpInt a b = .eq) : a = b := by
  unfold cmpInt at h; split at h
  · cases h
  · split at h
    · assumption
    · cases h

theorem cmpInt_lt {a b : Int} : cmpInt a b = .lt ↔ a < b := by
  unfold cmpInt; split
  · simp [*]
  · split <;> simp [*]

theorem cmpCol_eq {o : SortOpt} {x y : Option Int} (h : cmpCol o x y = .eq) : x = y := by
  cases x with
  | none =>
    cases y with
    | none => rfl
    | some b => simp only [cmpCol] at h; split at h <;> cases h
  | some a =>
    cases y with
    | none => simp only [cmpCol] at h; split at h <;> cases h
    | some b =>
      simp only [cmpCol] at h
      split at h
      · rw [cmpInt_eq h]
      · rw [cmpInt_eq h]

theorem cmpCol_lt_trans {o : SortOpt} {x y z : Option Int}
    (h1 : cmpCol o x y = .lt) (h2 : cmpCol o y z = .lt) : cmpCol o x z = .lt := by
  obtain ⟨d, nf⟩ := o
  cases x <;> cases y <;> cases z <;> cases d <;> cases nf <;>
    simp only [cmpCol, cmpInt_lt, if_true, if_false, Bool.false_eq_true, reduceCtorEq] at h1 h2 ⊢ <;>
    omega

theorem cmpRows_lt_trans (opts : List SortOpt) (a b c : List (Option Int))
    (h1 : cmpRows a b opts = .lt) (h2 : cmpRows b c opts = .lt) : cmpRows a c opts = .lt := by
  induction opts generalizing a b c with
  | nil => cases a <;> cases b <;> simp [cmpRows] at h1
  | cons o os ih =>
    cases a with
    | nil => simp [cmpRows] at h1
    | cons x as =>
      cases b with
      | nil => simp [cmpRows] at h1
      | cons y bs =>
        cases c with
        | nil => simp [cmpRows] at h2
        | cons z cs =>
          simp only [cmpRows] at h1 h2 ⊢
          cases hxy : cmpCol o x y with
          | gt => rw [hxy] at h1; cases h1
          | lt =>
            cases hyz : cmpCol o y z with
            | gt => rw [hyz] at h2; cases h2
            | lt => rw [cmpCol_lt_trans hxy hyz]
            | eq => rw [← cmpCol_eq hyz, hxy]
          | eq =>
            rw [hxy] at h1
            simp only at h1
            have hxy' := cmpCol_eq hxy
            subst hxy'
            cases hyz : cmpCol o x z with
            | gt => rw [hyz] at h2; cases h2
            | lt => rfl
            | eq =>
              rw [hyz] at h2
              exact ih as bs cs h1 h2

theorem validSplits_pairwise (splits : List (List (Option Int))) (opts : List SortOpt)
    (h : validSplits splits opts = true) :
    List.Pairwise (fun a b => cmpRows a b opts = .lt) splits := by
  have hchain : ((splits.zip splits.tail).all (fun p => cmpRows p.1 p.2 opts == .lt)) = true := by
    unfold validSplits at h
    simp only [Bool.and_eq_true] at h
    exact h.2
  clear h
  induction splits with
  | nil => exact List.Pairwise.nil
  | cons s t ih =>
    cases t with
    | nil => exact List.Pairwise.cons (by simp) List.Pairwise.nil
    | cons u t' =>
      simp only [List.tail_cons, List.zip_cons_cons, List.all_cons, Bool.and_eq_true,
        beq_iff_eq] at hchain
      have iht := ih (by simpa using hchain.2)
      refine List.Pairwise.cons ?_ iht
      intro b hb
      rcases List.mem_cons.mp hb with rfl | hb'
      · exact hchain.1
      · have := (List.pairwise_cons.mp iht).1 b hb'
        exact cmpRows_lt_trans opts s u b hchain.1 this

theorem probe_mono (key : List (Option Int)) (splits : List (List (Option Int)))
    (opts : List SortOpt) (hs : List.Pairwise (fun a b => cmpRows a b opts = .lt) splits) :
    Mono (probe key splits opts) := by
  intro i j hij hi
  unfold probe at hi ⊢
  cases hgi : splits[i]? with
  | none =>
    have : splits[j]? = none := by
      rw [List.getElem?_eq_none_iff] at hgi ⊢; omega
    rw [this]
  | some si =>
    rw [hgi] at hi
    simp only [beq_iff_eq] at hi
    by_cases hj : j < splits.length
    · rw [List.getElem?_eq_getElem hj]
      simp only [beq_iff_eq]
      by_cases hij' : i = j
      · subst hij'
        rw [List.getElem?_eq_getElem hj] at hgi
        cases hgi; exact hi
      · have hi' : i < splits.length := by omega
        rw [List.getElem?_eq_getElem hi'] at hgi
        cases hgi
        have := (List.pairwise_iff_getElem.mp hs) i j hi' hj (by omega)
        exact cmpRows_lt_trans opts key _ _ hi this
    · rw [List.getElem?_eq_none (by omega)]

end DfModel.Proofs.C10
