/-
  C39 helper lemmas, part 2: DELETE and UPDATE of one batch = the row-by-row specification.
-/
import DfModel.Proofs.C39
namespace DfModel.Proofs.C39
open DfModel DfModel.Sm.MemTable

/-! ## more `mapM` plumbing -/

theorem mapM_map' {α β γ : Type} (g : α → Option β) (h : α → β → γ) (l : List α) :
    l.mapM (fun x => (g x).map (h x)) = (l.mapM g).map (fun ps => List.zipWith h l ps) := by
  induction l with
  | nil => simp
  | cons x xs ih =>
    simp only [List.mapM_cons, ih]
    cases g x <;> cases xs.mapM g <;> simp

/-- evaluate the predicate column first, then do the per-row work knowing the predicate -/
theorem mapM_bind_zip {α β γ : Type} (g : α → Option β) (k : α → β → Option γ) (l : List α) :
    l.mapM (fun x => (g x).bind (k x)) = (l.mapM g).bind (fun ps => (l.zip ps).mapM (fun xp => k xp.1 xp.2)) := by
  induction l with
  | nil => simp
  | cons x xs ih =>
    simp only [List.mapM_cons, ih]
    cases hg : g x with
    | none => simp
    | some p =>
      cases hgs : xs.mapM g with
      | none =>
        simp only [Option.bind_eq_bind, Option.bind_some, Option.bind_none]
        cases k x p <;> simp
      | some ps => simp [List.mapM_cons]

theorem zip_self_mapM {α β γ : Type} (F : α → β → α → Option γ) (l : List α) (ps : List β) :
    ((l.zip ps).zip l).mapM (fun x => F x.1.1 x.1.2 x.2) = (l.zip ps).mapM (fun rp => F rp.1 rp.2 rp.1) := by
  induction l generalizing ps with
  | nil => simp
  | cons x xs ih =>
    cases ps with
    | nil => simp
    | cons p ps => simp [List.mapM_cons, ih]

/-! ## DELETE of one batch -/

theorem deleteBatch_rowwise (fs : List Expr) (b : Batch) :
    deleteBatch fs b = (b.mapM (predRow fs)).map (fun ps => (ps.countP id, keepRows (ps.map not) b)) := by
  have h := filtersMask_rowwise b fs none (by simp [norm])
  simp only [deleteBatch, Option.bind_eq_bind, Option.pure_def]
  cases hm : filtersMask b none fs with
  | none =>
    rw [hm] at h
    cases hp : b.mapM (predRow fs) with
    | none => simp
    | some ps => simp [hp] at h
  | some mo =>
    rw [hm] at h
    cases hp : b.mapM (predRow fs) with
    | none => simp [hp] at h
    | some ps =>
      have hl := mapM_length _ _ _ hp
      simp only [hp, Option.map_some, Option.some.injEq] at h
      rw [show norm b none = b.map (fun _ => true) from rfl, zipWith_and_true b ps hl] at h
      subst h
      cases mo with
      | none =>
        simp only [Option.bind_some, Option.map_some, norm]
        congr 2
        · induction b with
          | nil => rfl
          | cons r rs ih => simp [List.countP_cons]
        · congr 1
          simp [List.map_map]
      | some m =>
        simp only [Option.bind_some, Option.map_some, norm]
        congr 2
        · rw [List.countP_map]; rfl
        · congr 1
          rw [List.map_map]; rfl

theorem del_zip (b : Batch) (ps : List Bool) (hl : ps.length = b.length) :
    (List.zipWith (fun (r : Row) (p : Bool) => (p, if p then ([] : List Row) else [r])) b ps).countP (·.1) = ps.countP id ∧
    ((List.zipWith (fun (r : Row) (p : Bool) => (p, if p then ([] : List Row) else [r])) b ps).map (·.2)).flatten
      = keepRows (ps.map not) b := by
  induction b generalizing ps with
  | nil => cases ps <;> simp_all [keepRows]
  | cons r rs ih =>
    cases ps with
    | nil => simp at hl
    | cons p ps =>
      simp only [List.length_cons, Nat.add_right_cancel_iff] at hl
      obtain ⟨h1, h2⟩ := ih ps hl
      constructor
      · simp only [List.zipWith_cons_cons, List.countP_cons, h1]
        cases p <;> simp
      · simp only [List.zipWith_cons_cons, List.map_cons, List.flatten_cons, h2]
        cases p <;> simp [keepRows]

theorem specRows_delRow (fs : List Expr) (b : Batch) :
    specRows (delRow fs) b = (b.mapM (predRow fs)).map (fun ps => (ps.countP id, keepRows (ps.map not) b)) := by
  simp only [specRows]
  rw [show b.mapM (delRow fs) = b.mapM (fun r => (predRow fs r).map ((fun r p => (p, if p then [] else [r])) r)) from rfl,
    mapM_map']
  cases hp : b.mapM (predRow fs) with
  | none => simp
  | some ps =>
    have hl := mapM_length _ _ _ hp
    simp only [Option.map_some, Option.some.injEq]
    obtain ⟨h1, h2⟩ := del_zip b ps hl
    rw [h1, h2]

/-! ## UPDATE of one batch -/

/-- what one assignment does at one position: (original row, selected?) and the row built so far -/
def asgStep (je : Nat × Expr) (rp : Row × Bool) (t : Row) : Option Row :=
  if rp.2 then (ev je.2 rp.1).map (fun v => t.set je.1 v) else some t

theorem colStep_all (e : Expr) (j : Nat) (b : Batch) (ps : List Bool) (acc : Batch)
    (h1 : ps.length = b.length) (h2 : acc.length = b.length) (hall : ps.all id = true) :
    (evalCol e b).map (fun c => setCol j ps c acc)
      = ((b.zip ps).zip acc).mapM (fun x => asgStep (j, e) x.1 x.2) := by
  induction b generalizing ps acc with
  | nil => cases ps <;> cases acc <;> simp_all [evalCol, setCol]
  | cons r rs ih =>
    cases ps with
    | nil => simp at h1
    | cons p ps =>
      cases acc with
      | nil => simp at h2
      | cons a as =>
        simp only [List.length_cons, Nat.add_right_cancel_iff] at h1 h2
        simp only [List.all_cons, Bool.and_eq_true, id] at hall
        have ih' := ih ps as h1 h2 hall.2
        simp only [evalCol] at ih' ⊢
        simp only [List.zip_cons_cons, List.mapM_cons]
        rw [← ih']
        simp only [asgStep, hall.1, if_true]
        cases ev e r <;> cases rs.mapM (ev e) <;> simp [setCol, hall.1]

theorem colStep_none (e : Expr) (j : Nat) (b : Batch) (ps : List Bool) (acc : Batch)
    (h1 : ps.length = b.length) (h2 : acc.length = b.length) (hnone : ps.any id = false) :
    (some (setCol j ps (b.map fun _ => Val.null) acc) : Option Batch)
      = ((b.zip ps).zip acc).mapM (fun x => asgStep (j, e) x.1 x.2) := by
  induction b generalizing ps acc with
  | nil => cases ps <;> cases acc <;> simp_all [setCol]
  | cons r rs ih =>
    cases ps with
    | nil => simp at h1
    | cons p ps =>
      cases acc with
      | nil => simp at h2
      | cons a as =>
        simp only [List.length_cons, Nat.add_right_cancel_iff] at h1 h2
        simp only [List.any_cons, Bool.or_eq_false_iff, id] at hnone
        have ih' := ih ps as h1 h2 hnone.2
        simp only [List.zip_cons_cons, List.mapM_cons]
        rw [← ih']
        simp [asgStep, setCol, hnone.1]

theorem colStep_mixed (e : Expr) (j : Nat) (b : Batch) (ps : List Bool) (acc : Batch)
    (h1 : ps.length = b.length) (h2 : acc.length = b.length) :
    (evalCol e (keepRows ps b)).map (fun vs => setCol j ps (scatter ps vs) acc)
      = ((b.zip ps).zip acc).mapM (fun x => asgStep (j, e) x.1 x.2) := by
  induction b generalizing ps acc with
  | nil => cases ps <;> cases acc <;> simp_all [evalCol, setCol, keepRows, scatter]
  | cons r rs ih =>
    cases ps with
    | nil => simp at h1
    | cons p ps =>
      cases acc with
      | nil => simp at h2
      | cons a as =>
        simp only [List.length_cons, Nat.add_right_cancel_iff] at h1 h2
        have ih' := ih ps as h1 h2
        simp only [evalCol] at ih' ⊢
        cases p with
        | false =>
          simp only [keepRows, List.zip_cons_cons, List.mapM_cons]
          rw [← ih']
          simp only [asgStep]
          cases (keepRows ps rs).mapM (ev e) <;> simp [scatter, setCol]
        | true =>
          simp only [keepRows, List.zip_cons_cons, List.mapM_cons]
          rw [← ih']
          simp only [asgStep, if_true]
          cases ev e r <;> cases (keepRows ps rs).mapM (ev e) <;> simp [scatter, setCol]

/-- one column of UPDATE (`evaluate_selection` + `zip` + rebuild) = the per-position step -/
theorem colStep (e : Expr) (j : Nat) (b : Batch) (ps : List Bool) (acc : Batch)
    (h1 : ps.length = b.length) (h2 : acc.length = b.length) :
    (evalSelection e b ps).map (fun c => setCol j ps c acc)
      = ((b.zip ps).zip acc).mapM (fun x => asgStep (j, e) x.1 x.2) := by
  simp only [evalSelection]
  split
  · exact colStep_all e j b ps acc h1 h2 (by assumption)
  · split
    · rename_i hn
      simp only [Option.map_some]
      exact colStep_none e j b ps acc h1 h2 (by simpa using hn)
    · rw [Option.map_map]
      exact colStep_mixed e j b ps acc h1 h2

theorem foldlM_some {α τ : Type} (as : List α) (t : τ) : as.foldlM (fun t _ => (some t : Option τ)) t = some t := by
  induction as with
  | nil => rfl
  | cons a as ih => simp [List.foldlM_cons, ih]

/-- all assignment columns of UPDATE, column by column over the ORIGINAL batch = per row, all
    assignments evaluated on the pre-update row -/
theorem updateCols_rowwise (asgs : List (Nat × Expr)) (b : Batch) (ps : List Bool) (h1 : ps.length = b.length) :
    asgs.foldlM (fun acc je => (evalSelection je.2 b ps).map (fun c => setCol je.1 ps c acc)) b
      = (b.zip ps).mapM (fun rp => if rp.2 then
          asgs.foldlM (fun acc je => (ev je.2 rp.1).map (fun v => acc.set je.1 v)) rp.1 else some rp.1) := by
  have key : ∀ (acc : Batch), acc.length = b.length →
      asgs.foldlM (fun acc je => (evalSelection je.2 b ps).map (fun c => setCol je.1 ps c acc)) acc
        = asgs.foldlM (fun acc je => ((b.zip ps).zip acc).mapM (fun ct => asgStep je ct.1 ct.2)) acc := by
    induction asgs with
    | nil => intro acc _; rfl
    | cons je rest ih =>
      intro acc hacc
      simp only [List.foldlM_cons, Option.bind_eq_bind]
      rw [colStep je.2 je.1 b ps acc h1 hacc]
      cases hm : ((b.zip ps).zip acc).mapM (fun x => asgStep (je.1, je.2) x.1 x.2) with
      | none => simp
      | some acc1 =>
        simp only [Option.bind_some]
        have hl := zip_mapM_length (fun c t => asgStep (je.1, je.2) c t) (b.zip ps) acc acc1
          (by simp [List.length_zip, h1, hacc]) hm
        exact ih acc1 (by simp [List.length_zip, h1] at hl; omega)
  rw [key b rfl, foldlM_swap asgStep asgs (b.zip ps) b (by simp [List.length_zip, h1])]
  rw [zip_self_mapM (fun r p t => asgs.foldlM (fun t a => asgStep a (r, p) t) t) b ps]
  congr 1
  funext rp
  cases hp : rp.2 with
  | false =>
    simp only [asgStep, hp]
    exact foldlM_some asgs rp.1
  | true => simp only [asgStep, hp, if_true]

theorem upd_zip (b : Batch) (ps : List Bool) (rs' : List Row) (hl : ps.length = b.length) (h : rs'.length = b.length) :
    (List.zipWith (fun (xp : Row × Bool) (r' : Row) => (xp.2, [r'])) (b.zip ps) rs').countP (·.1) = ps.countP id ∧
    ((List.zipWith (fun (xp : Row × Bool) (r' : Row) => (xp.2, [r'])) (b.zip ps) rs').map (·.2)).flatten = rs' := by
  induction b generalizing ps rs' with
  | nil => cases rs' <;> cases ps <;> simp_all
  | cons r rs ih =>
    cases ps with
    | nil => simp at hl
    | cons p ps =>
      cases rs' with
      | nil => simp at h
      | cons r' rs' =>
        simp only [List.length_cons, Nat.add_right_cancel_iff] at hl h
        obtain ⟨h1, h2⟩ := ih ps rs' hl h
        constructor
        · simp only [List.zip_cons_cons, List.zipWith_cons_cons, List.countP_cons, h1]
          cases p <;> simp
        · simp only [List.zip_cons_cons, List.zipWith_cons_cons, List.map_cons, List.flatten_cons, h2]
          simp

/-- the per-row effect of UPDATE with a single new row instead of a list -/
def updRow1 (w : Nat) (asg : List (Nat × Expr)) (p : Bool) (r : Row) : Option Row :=
  if p then assignRow w asg r else some r

theorem updRow_eq (w : Nat) (asg : List (Nat × Expr)) (fs : List Expr) (r : Row) :
    updRow w asg fs r = (predRow fs r).bind (fun p => (updRow1 w asg p r).map (fun r' => (p, [r']))) := by
  simp only [updRow, updRow1, Option.bind_eq_bind]
  cases predRow fs r with
  | none => rfl
  | some p => cases p <;> simp

theorem updateBatch_rowwise (w : Nat) (asg : List (Nat × Expr)) (fs : List Expr) (b : Batch) :
    updateBatch w asg fs b = specRows (updRow w asg fs) b := by
  have h := filtersMask_rowwise b fs none (by simp [norm])
  have hu : updRow w asg fs = fun r => (predRow fs r).bind (fun p => (updRow1 w asg p r).map (fun r' => (p, [r']))) := by
    funext r; exact updRow_eq w asg fs r
  simp only [specRows, hu, mapM_bind_zip]
  simp only [updateBatch, Option.bind_eq_bind, Option.pure_def]
  cases hm : filtersMask b none fs with
  | none =>
    rw [hm] at h
    cases hp : b.mapM (predRow fs) with
    | none => simp
    | some ps => simp [hp] at h
  | some mo =>
    rw [hm] at h
    cases hp : b.mapM (predRow fs) with
    | none => simp [hp] at h
    | some ps =>
      have hl := mapM_length _ _ _ hp
      simp only [hp, Option.map_some, Option.some.injEq] at h
      rw [show norm b none = b.map (fun _ => true) from rfl, zipWith_and_true b ps hl] at h
      -- the count and the normalised mask are functions of `ps`
      have hcm : countMask b mo = (ps.countP id, ps) := by
        rw [← h]
        cases mo with
        | none =>
          simp only [countMask, norm, Prod.mk.injEq, and_true]
          clear hm hp hl hu h
          induction b with
          | nil => rfl
          | cons r rs ih => simp [List.countP_cons]
        | some m =>
          simp only [countMask, norm, Prod.mk.injEq, and_true]
          rw [List.countP_map]; rfl
      simp only [Option.bind_some, hcm]
      -- per-row: new rows, then pair them with the predicate bits
      have hrows := updateCols_rowwise (ordered w asg) b ps hl
      have hk : (b.zip ps).mapM (fun xp => (updRow1 w asg xp.2 xp.1).map (fun r' => (xp.2, [r'])))
          = ((b.zip ps).mapM (fun xp => updRow1 w asg xp.2 xp.1)).map
              (fun rs' => List.zipWith (fun xp r' => (xp.2, [r'])) (b.zip ps) rs') :=
        mapM_map' (fun xp => updRow1 w asg xp.2 xp.1) (fun xp r' => (xp.2, [r'])) (b.zip ps)
      rw [hk]
      have hfun : (fun (rp : Row × Bool) => if rp.2 then
            (ordered w asg).foldlM (fun acc je => (ev je.2 rp.1).map (fun v => acc.set je.1 v)) rp.1 else some rp.1)
          = fun xp => updRow1 w asg xp.2 xp.1 := by
        funext xp; simp only [updRow1, assignRow]
      rw [hfun] at hrows
      have hfin : ∀ (rs' : List Row), rs'.length = b.length →
          ((List.zipWith (fun (xp : Row × Bool) (r' : Row) => (xp.2, [r'])) (b.zip ps) rs').countP (·.1),
            ((List.zipWith (fun (xp : Row × Bool) (r' : Row) => (xp.2, [r'])) (b.zip ps) rs').map (·.2)).flatten)
          = (ps.countP id, rs') := by
        intro rs' h'
        obtain ⟨e1, e2⟩ := upd_zip b ps rs' hl h'
        rw [e1, e2]
      by_cases hc : ps.countP id = 0
      · -- no row selected: the batch is passed through untouched
        simp only [hc, if_true]
        have hall : ∀ p ∈ ps, p = false := by
          intro p hpmem
          cases p with
          | false => rfl
          | true =>
            have : 0 < ps.countP id := List.countP_pos_iff.mpr ⟨true, hpmem, rfl⟩
            omega
        have hid : (b.zip ps).mapM (fun xp => updRow1 w asg xp.2 xp.1) = some b := by
          clear hrows hk hcm hp hm h hu hfun hfin hc
          induction b generalizing ps with
          | nil => simp
          | cons r rs ih =>
            cases ps with
            | nil => simp at hl
            | cons p ps =>
              simp only [List.length_cons, Nat.add_right_cancel_iff] at hl
              have hp0 : p = false := hall p (by simp)
              have := ih ps hl (fun q hq => hall q (by simp [hq]))
              simp only [List.zip_cons_cons, List.mapM_cons, this]
              simp [updRow1, hp0]
        rw [hid]
        simp only [Option.map_some]
        rw [hfin b rfl, hc]
      · simp only [hc, if_false]
        rw [hrows]
        cases hr : (b.zip ps).mapM (fun xp => updRow1 w asg xp.2 xp.1) with
        | none => simp
        | some rs' =>
          have hl' := mapM_length _ _ _ hr
          simp only [Option.bind_some, Option.map_some]
          rw [hfin rs' (by simp [List.length_zip, hl] at hl'; omega)]

end DfModel.Proofs.C39
