/-
  C14 — the build invariant: `update_from_iter` produces linked chains. Core Lean only.
-/
import DfModel.Sm.Jhm
import DfModel.Proofs.C14
namespace DfModel.Proofs.C14
open DfModel.Sm.Jhm

/-- the rows inserted with hash `h`, latest insertion first -/
def chainOf (ins : List (Nat × Nat)) (h : Nat) : List Nat :=
  ((ins.filter (fun rh => rh.2 == h)).map (·.1)).reverse

theorem chainOf_snoc (ins : List (Nat × Nat)) (row h h' : Nat) :
    chainOf (ins ++ [(row, h)]) h' = if h = h' then row :: chainOf ins h' else chainOf ins h' := by
  unfold chainOf
  by_cases e : h = h'
  · subst e; simp [List.filter_append]
  · simp [List.filter_append, e]

theorem mem_chainOf {ins : List (Nat × Nat)} {h x : Nat} (hx : x ∈ chainOf ins h) : x ∈ ins.map (·.1) := by
  unfold chainOf at hx
  simp only [List.mem_reverse, List.mem_map, List.mem_filter] at hx
  obtain ⟨a, ⟨ha, _⟩, rfl⟩ := hx
  exact List.mem_map.mpr ⟨a, ha, rfl⟩

theorem chainOf_nodup {ins : List (Nat × Nat)} (hnd : (ins.map (·.1)).Nodup) (h : Nat) : (chainOf ins h).Nodup := by
  unfold chainOf
  have h1 : ((ins.filter (fun rh => rh.2 == h)).map (·.1)).Nodup :=
    List.Nodup.sublist ((List.filter_sublist).map _) hnd
  unfold List.Nodup at h1 ⊢
  rw [List.pairwise_reverse]
  exact h1.imp (fun hab => Ne.symm hab)

theorem linked_set {next : List Nat} {s : Nat} {c : List Nat} (h : Linked next s c) (r v : Nat)
    (hr : r ∉ c) : Linked (next.set r v) s c := by
  induction c generalizing s with
  | nil => exact h
  | cons b rest ih =>
    obtain ⟨hs, nx, hnx, hl⟩ := h
    simp only [List.mem_cons, not_or] at hr
    refine ⟨hs, nx, ?_, ih hl hr.2⟩
    rw [List.getElem?_set]
    rw [if_neg hr.1]
    exact hnx

theorem find_append_of_none {f : List (Nat × Nat)} {h v h' : Nat}
    (hn : (f.find? (fun e => e.1 == h)) = none) :
    ((f ++ [(h, v)]).find? (fun e => e.1 == h')).map (·.2)
      = if h' = h then some v else (f.find? (fun e => e.1 == h')).map (·.2) := by
  rw [List.find?_append]
  by_cases e : h' = h
  · subst e; simp [hn]
  · cases hf : f.find? (fun e => e.1 == h') with
    | none => simp [e, Ne.symm e]
    | some x => simp [e]

theorem find_setFirst {f : List (Nat × Nat)} {h v h' : Nat} :
    ((setFirst f h v).find? (fun e => e.1 == h')).map (·.2)
      = if h' = h then (f.find? (fun e => e.1 == h)).map (fun _ => v)
        else (f.find? (fun e => e.1 == h')).map (·.2) := by
  induction f with
  | nil => simp [setFirst]
  | cons a rest ih =>
    have hcons : setFirst (a :: rest) h v = (if a.1 == h then (h, v) else a) :: setFirst rest h v := by
      simp [setFirst]
    rw [hcons]
    by_cases ha : a.1 = h
    · have hb : (a.1 == h) = true := by simp [ha]
      rw [hb]
      simp only [if_true]
      by_cases e : h' = h
      · subst e
        rw [List.find?_cons_of_pos (by simp), List.find?_cons_of_pos (by simp [ha])]
        simp
      · have hne : ¬ h = h' := fun x => e x.symm
        have hne2 : ¬ a.1 = h' := by rw [ha]; exact hne
        rw [List.find?_cons_of_neg (by simpa using hne), if_neg e,
          List.find?_cons_of_neg (by simpa using hne2)]
        rw [if_neg e] at ih
        exact ih
    · have hb : (a.1 == h) = false := by simp [ha]
      rw [hb]
      simp only [Bool.false_eq_true, if_false]
      by_cases e2 : a.1 = h'
      · have e : ¬ h' = h := fun x => ha (by rw [e2, x])
        rw [List.find?_cons_of_pos (by simp [e2]), if_neg e, List.find?_cons_of_pos (by simp [e2])]
      · rw [List.find?_cons_of_neg (by simp [e2])]
        by_cases e : h' = h
        · rw [if_pos e] at ih ⊢
          rw [List.find?_cons_of_neg (by simp [ha])]
          exact ih
        · rw [if_neg e] at ih ⊢
          rw [List.find?_cons_of_neg (by simp [e2])]
          exact ih

structure BInv (cap : Nat) (m : Map) (ins : List (Nat × Nat)) : Prop where
  len : m.next.length = cap
  miss : ∀ h, find m h = none → chainOf ins h = []
  hit : ∀ h s, find m h = some s → chainOf ins h ≠ [] ∧ Linked m.next s (chainOf ins h)
  fresh : ∀ r, r < cap → r ∉ ins.map (·.1) → m.next[r]? = some 0

theorem binv_init (cap : Nat) : BInv cap (withCapacity cap) [] := by
  refine ⟨by simp [withCapacity], fun _ _ => rfl, ?_, ?_⟩
  · intro h s hf; simp [find, withCapacity] at hf
  · intro r hr _; simp [withCapacity, hr]

theorem binv_insert {cap : Nat} {m : Map} {ins : List (Nat × Nat)} (hb : BInv cap m ins) (row h : Nat)
    (hrow : row < cap) (hnew : row ∉ ins.map (·.1)) :
    ∃ m', Sm.Jhm.insert m row h 0 = some m' ∧ BInv cap m' (ins ++ [(row, h)]) := by
  unfold Sm.Jhm.insert
  cases hf : find m h with
  | none =>
    refine ⟨_, rfl, ?_⟩
    have hfn : m.first.find? (fun e => e.1 == h) = none := by
      unfold find at hf; simpa using hf
    have hfind : ∀ h', find { m with first := m.first ++ [(h, row + 1)] } h'
        = if h' = h then some (row + 1) else find m h' := by
      intro h'; unfold find; exact find_append_of_none hfn
    refine ⟨hb.len, ?_, ?_, ?_⟩
    · intro h' hn
      rw [hfind] at hn
      by_cases e : h' = h
      · simp [e] at hn
      · rw [if_neg e] at hn
        rw [chainOf_snoc, if_neg (fun x => e x.symm)]; exact hb.miss h' hn
    · intro h' s hs
      rw [hfind] at hs
      by_cases e : h' = h
      · subst e
        simp only [if_true, Option.some.injEq] at hs
        subst hs
        rw [chainOf_snoc, if_pos rfl, hb.miss h' hf]
        exact ⟨by simp, rfl, 0, hb.fresh row hrow hnew, rfl⟩
      · rw [if_neg e] at hs
        rw [chainOf_snoc, if_neg (fun x => e x.symm)]; exact hb.hit h' s hs
    · intro r hr hnr
      simp only [List.map_append, List.map_cons, List.map_nil, List.mem_append, List.mem_singleton, not_or] at hnr
      exact hb.fresh r hr hnr.1
  | some prev =>
    have hlen := hb.len
    simp only [Nat.not_lt_zero, Nat.sub_zero, false_or]
    rw [if_neg (by omega)]
    refine ⟨_, rfl, ?_⟩
    obtain ⟨hne, hl⟩ := hb.hit h prev hf
    have hfs : (m.first.find? (fun e => e.1 == h)).isSome := by
      unfold find at hf
      cases hx : m.first.find? (fun e => e.1 == h) with
      | none => rw [hx] at hf; cases hf
      | some _ => rfl
    have hfind : ∀ h', find { first := setFirst m.first h (row + 1), next := m.next.set row prev } h'
        = if h' = h then some (row + 1) else find m h' := by
      intro h'
      unfold find
      simp only
      rw [find_setFirst]
      by_cases e : h' = h
      · simp only [e, if_true]
        cases hx : m.first.find? (fun e => e.1 == h) with
        | none => rw [hx] at hfs; cases hfs
        | some _ => rfl
      · simp [e]
    have hnotin : ∀ h', row ∉ chainOf ins h' := fun h' hx => hnew (mem_chainOf hx)
    refine ⟨by simp [hlen], ?_, ?_, ?_⟩
    · intro h' hn
      rw [hfind] at hn
      by_cases e : h' = h
      · simp [e] at hn
      · rw [if_neg e] at hn
        rw [chainOf_snoc, if_neg (fun x => e x.symm)]; exact hb.miss h' hn
    · intro h' s hs
      rw [hfind] at hs
      by_cases e : h' = h
      · subst e
        simp only [if_true, Option.some.injEq] at hs
        subst hs
        rw [chainOf_snoc, if_pos rfl]
        refine ⟨by simp, rfl, prev, ?_, linked_set hl row prev (hnotin h')⟩
        simp only
        rw [List.getElem?_set]; simp [hlen, hrow]
      · rw [if_neg e] at hs
        rw [chainOf_snoc, if_neg (fun x => e x.symm)]
        obtain ⟨a, b⟩ := hb.hit h' s hs
        exact ⟨a, linked_set b row prev (hnotin h')⟩
    · intro r hr hnr
      simp only [List.map_append, List.map_cons, List.map_nil, List.mem_append, List.mem_singleton, not_or] at hnr
      simp only
      rw [List.getElem?_set, if_neg (fun e => hnr.2 e.symm)]
      exact hb.fresh r hr hnr.1

theorem binv_update {cap : Nat} (rest : List (Nat × Nat)) :
    ∀ (m : Map) (ins : List (Nat × Nat)), BInv cap m ins →
      ((ins ++ rest).map (·.1)).Nodup → (∀ rh ∈ rest, rh.1 < cap) →
      ∃ m', updateFromIter m 0 rest = some m' ∧ BInv cap m' (ins ++ rest) := by
  induction rest with
  | nil => intro m ins hb _ _; exact ⟨m, rfl, by simpa using hb⟩
  | cons rh rest ih =>
    intro m ins hb hnd hlt
    obtain ⟨row, h⟩ := rh
    have hnew : row ∉ ins.map (·.1) := by
      intro hx
      simp only [List.map_append, List.map_cons] at hnd
      rw [List.nodup_append] at hnd
      exact hnd.2.2 row hx row (by simp) rfl
    obtain ⟨m1, h1, hb1⟩ := binv_insert hb row h (hlt (row, h) (by simp)) hnew
    obtain ⟨m2, h2, hb2⟩ := ih m1 (ins ++ [(row, h)]) hb1 (by simpa using hnd)
      (fun x hx => hlt x (List.mem_cons_of_mem _ hx))
    refine ⟨m2, ?_, by simpa using hb2⟩
    simp only [updateFromIter]; rw [h1]; exact h2

end DfModel.Proofs.C14
