/-
  C52 helper lemmas: the tokenizer model run on rendered (quoted) identifiers.  Core Lean only.
-/
import DfModel.Text.Ident
namespace DfModel.Proofs.C52
open DfModel.Text.Ident

/-! ### character classes as intervals of code points -/

theorem isLower_iff (c : Char) : c.isLower = true ↔ 97 ≤ c.toNat ∧ c.toNat ≤ 122 := by
  simp [Char.isLower, UInt32.le_iff_toNat_le]
theorem isUpper_iff (c : Char) : c.isUpper = true ↔ 65 ≤ c.toNat ∧ c.toNat ≤ 90 := by
  simp [Char.isUpper, UInt32.le_iff_toNat_le]
theorem isDigit_iff (c : Char) : c.isDigit = true ↔ 48 ≤ c.toNat ∧ c.toNat ≤ 57 := by
  simp [Char.isDigit, UInt32.le_iff_toNat_le]
theorem char_eq_iff (c d : Char) : c = d ↔ c.toNat = d.toNat :=
  ⟨fun h => by rw [h], fun h => Char.toNat_inj.mp h⟩

theorem toLower_of_not_upper (c : Char) (h : c.isUpper = false) : c.toLower = c := by
  unfold Char.toLower
  rw [dif_neg]
  intro hh
  have : c.isUpper = true := by
    simp only [Char.isUpper, Bool.and_eq_true, decide_eq_true_eq]; exact hh
  simp [this] at h

theorem bareStart_iff (c : Char) :
    bareStart c = true ↔ (97 ≤ c.toNat ∧ c.toNat ≤ 122) ∨ c.toNat = 95 := by
  simp [bareStart, isLower_iff, char_eq_iff]
theorem barePart_iff (c : Char) : barePart c = true ↔
    (97 ≤ c.toNat ∧ c.toNat ≤ 122) ∨ (48 ≤ c.toNat ∧ c.toNat ≤ 57) ∨ c.toNat = 95 := by
  simp [barePart, isLower_iff, isDigit_iff, char_eq_iff, or_assoc]
theorem identPart_iff (c : Char) : identPart c = true ↔
    (65 ≤ c.toNat ∧ c.toNat ≤ 90) ∨ (97 ≤ c.toNat ∧ c.toNat ≤ 122) ∨ (48 ≤ c.toNat ∧ c.toNat ≤ 57)
      ∨ c.toNat = 95 := by
  simp [identPart, Char.isAlpha, isLower_iff, isUpper_iff, isDigit_iff, char_eq_iff, or_assoc]
theorem identStart_iff (c : Char) : identStart c = true ↔
    (65 ≤ c.toNat ∧ c.toNat ≤ 90) ∨ (97 ≤ c.toNat ∧ c.toNat ≤ 122) ∨ c.toNat = 95 := by
  simp [identStart, Char.isAlpha, isLower_iff, isUpper_iff, char_eq_iff, or_assoc]
theorem isWs_iff (c : Char) :
    isWs c = true ↔ c.toNat = 32 ∨ c.toNat = 9 ∨ c.toNat = 10 ∨ c.toNat = 13 := by
  simp [isWs, char_eq_iff, or_assoc]

theorem barePart_identPart {c : Char} (h : barePart c = true) : identPart c = true := by
  rw [barePart_iff] at h; rw [identPart_iff]; omega

theorem barePart_ne_quote {c : Char} (h : barePart c = true) : (c == '"') = false := by
  rw [barePart_iff] at h
  simp only [beq_eq_false_iff_ne, ne_eq, char_eq_iff]
  show ¬ c.toNat = 34
  omega

theorem barePart_toLower {c : Char} (h : barePart c = true) : c.toLower = c := by
  apply toLower_of_not_upper
  rw [barePart_iff] at h
  rw [Bool.eq_false_iff, ne_eq, isUpper_iff]
  omega

/-- what the tokenizer's dispatch sees on the first character of a bare identifier -/
theorem bareStart_dispatch {c : Char} (h : bareStart c = true) :
    isWs c = false ∧ (c == '.') = false ∧ (c == '"') = false ∧ c.isDigit = false
      ∧ identStart c = true := by
  rw [bareStart_iff] at h
  refine ⟨?_, ?_, ?_, ?_, ?_⟩
  · rw [Bool.eq_false_iff, ne_eq, isWs_iff]; omega
  · simp only [beq_eq_false_iff_ne, ne_eq, char_eq_iff]; show ¬ c.toNat = 46; omega
  · simp only [beq_eq_false_iff_ne, ne_eq, char_eq_iff]; show ¬ c.toNat = 34; omega
  · rw [Bool.eq_false_iff, ne_eq, isDigit_iff]; omega
  · rw [identStart_iff]; omega

/-! ### the input that follows a rendered part: end of text or a period -/

def Sep (rest : List Char) : Prop := rest = [] ∨ ∃ r, rest = '.' :: r

theorem sep_nil : Sep [] := Or.inl rfl
theorem sep_dot (r : List Char) : Sep ('.' :: r) := Or.inr ⟨r, rfl⟩

theorem takeWhile_bare (cs rest : List Char) (h : cs.all barePart = true) (hs : Sep rest) :
    (cs ++ rest).takeWhile identPart = cs ∧ (cs ++ rest).dropWhile identPart = rest := by
  induction cs with
  | nil =>
    rcases hs with rfl | ⟨r, rfl⟩
    · simp
    · have : identPart '.' = false := by decide
      simp [List.takeWhile, List.dropWhile, this]
  | cons c cs ih =>
    simp only [List.all_cons, Bool.and_eq_true] at h
    have hp := barePart_identPart h.1
    have := ih h.2
    simp [List.takeWhile, List.dropWhile, hp, this.1, this.2]

theorem head_bare_ne_quote (cs rest : List Char) (h : cs.all barePart = true) (hs : Sep rest) :
    ((cs ++ rest).head? == some '"') = false := by
  cases cs with
  | nil =>
    rcases hs with rfl | ⟨r, rfl⟩
    · rfl
    · simp
  | cons c cs =>
    simp only [List.all_cons, Bool.and_eq_true] at h
    have := barePart_ne_quote h.1
    simp only [List.cons_append, List.head?_cons]
    rw [Bool.eq_false_iff]
    intro hh
    simp only [beq_iff_eq, Option.some.injEq] at hh
    simp [hh] at this

/-- a bare (unquoted) rendered identifier is one unquoted Word token -/
theorem lex_bare (pw : Bool) (s rest : List Char) (hne : s ≠ []) (hq : needsQuotes s = false)
    (hs : Sep rest) : lex pw (s ++ rest) = (lex true rest).cons (.word s false) := by
  cases s with
  | nil => exact absurd rfl hne
  | cons c cs =>
    simp only [needsQuotes, Bool.or_eq_false_iff, Bool.not_eq_false'] at hq
    obtain ⟨h1, h2, h3, h4, h5⟩ := bareStart_dispatch hq.1
    obtain ⟨ht, hd⟩ := takeWhile_bare cs rest hq.2 hs
    have hh := head_bare_ne_quote cs rest hq.2 hs
    rw [List.cons_append, lex]
    simp only [h1, h2, h3, h4, h5, hh, ht, hd, Bool.false_eq_true, if_false, if_true,
      Bool.and_false]

theorem scanQuoted_cons_ne (c : Char) (l : List Char) (hc : (c == '"') = false) :
    scanQuoted (c :: l) = (scanQuoted l).map (fun p => (c :: p.1, p.2)) := by
  cases l <;> simp [scanQuoted, hc]

theorem scanQuoted_escape (s rest : List Char) (hs : Sep rest) :
    scanQuoted (escapeQuotes s ++ '"' :: rest) = some (s, rest) := by
  induction s with
  | nil =>
    rcases hs with rfl | ⟨r, rfl⟩
    · simp [escapeQuotes, scanQuoted]
    · have : ('.' == '"') = false := by decide
      simp [escapeQuotes, scanQuoted, this]
  | cons c s ih =>
    by_cases hc : (c == '"') = true
    · have hc' : c = '"' := by simpa using hc
      subst hc'
      simp [escapeQuotes, scanQuoted, ih]
    · simp only [Bool.not_eq_true] at hc
      simp only [escapeQuotes, hc, Bool.false_eq_true, if_false, List.cons_append]
      rw [scanQuoted_cons_ne c _ hc, ih]; rfl

/-- a quoted rendered identifier is one quoted Word token carrying the original characters -/
theorem lex_quoted (pw : Bool) (s rest : List Char) (hs : Sep rest) :
    lex pw ('"' :: (escapeQuotes s ++ '"' :: rest)) = (lex true rest).cons (.word s true) := by
  have hsc := scanQuoted_escape s rest hs
  have h1 : isWs '"' = false := by decide
  have h2 : ('"' == '.') = false := by decide
  rw [lex]
  simp only [h1, h2, Bool.false_eq_true, if_false, beq_self_eq_true, if_true]
  split
  · rename_i h; rw [hsc] at h; cases h
  · rename_i v rest' h
    rw [hsc] at h
    simp only [Option.some.injEq, Prod.mk.injEq] at h
    obtain ⟨rfl, rfl⟩ := h
    rfl

/-- one rendered part (non-empty identifier) = one Word token -/
theorem lex_part (pw : Bool) (p rest : List Char) (hne : p ≠ []) (hs : Sep rest) :
    lex pw (quoteIdentifier p ++ rest) = (lex true rest).cons (.word p (needsQuotes p)) := by
  unfold quoteIdentifier
  cases hq : needsQuotes p with
  | true =>
    simp only [if_true, List.cons_append, List.append_assoc, List.singleton_append]
    exact lex_quoted pw p rest hs
  | false =>
    simp only [Bool.false_eq_true, if_false]
    exact lex_bare pw p rest hne hq hs

theorem quoteIdentifier_head (p : List Char) (hne : p ≠ []) :
    ∃ d r, quoteIdentifier p = d :: r ∧ (d = '"' ∨ bareStart d = true) := by
  unfold quoteIdentifier
  cases hq : needsQuotes p with
  | true => exact ⟨'"', escapeQuotes p ++ ['"'], by simp, Or.inl rfl⟩
  | false =>
    cases p with
    | nil => exact absurd rfl hne
    | cons c cs =>
      simp only [needsQuotes, Bool.or_eq_false_iff, Bool.not_eq_false'] at hq
      exact ⟨c, cs, by simp, Or.inr hq.1⟩

/-- the period before a rendered part, after a Word: `Token::Period` (the `._` special case
    needs the previous token to be a Word — it is) -/
theorem lex_period_part (p rest : List Char) (hne : p ≠ []) (hs : Sep rest) :
    lex true ('.' :: (quoteIdentifier p ++ rest))
      = ((lex true rest).cons (.word p (needsQuotes p))).cons .period := by
  obtain ⟨d, r, hd, hcase⟩ := quoteIdentifier_head p hne
  have h1 : isWs '.' = false := by decide
  have hdig : d.isDigit = false := by
    rcases hcase with rfl | hb
    · decide
    · exact (bareStart_dispatch hb).2.2.2.1
  rw [lex]
  simp only [h1, Bool.false_eq_true, if_false, beq_self_eq_true, if_true, hd, List.cons_append,
    List.head?_cons, hdig]
  have := lex_part false p rest hne hs
  rw [hd, List.cons_append] at this
  -- the recursive call `lex false (d :: r ++ rest)`; `pw` is irrelevant for a part
  have h2 := lex_part false p rest hne hs
  rw [hd, List.cons_append] at h2
  split <;> simp [h2]

/-! ### any number of parts -/

/-- `.p₁.p₂…` with each part quoted as needed -/
def renderTail : List (List Char) → List Char
  | [] => []
  | p :: ps => '.' :: (quoteIdentifier p ++ renderTail ps)

/-- `p₀.p₁.…` — what `to_quoted_string` / `quoted_flat_name` produce -/
def renderParts : List (List Char) → List Char
  | [] => []
  | p :: ps => quoteIdentifier p ++ renderTail ps

def tailToks : List (List Char) → List Tok
  | [] => []
  | p :: ps => .period :: .word p (needsQuotes p) :: tailToks ps

theorem sep_renderTail (ps : List (List Char)) : Sep (renderTail ps) := by
  cases ps with
  | nil => exact sep_nil
  | cons p ps => exact sep_dot _

theorem lex_renderTail (ps : List (List Char)) (hne : ∀ p ∈ ps, p ≠ []) :
    lex true (renderTail ps) = .ok (tailToks ps) := by
  induction ps with
  | nil => simp [renderTail, tailToks, lex]
  | cons p ps ih =>
    have hp : p ≠ [] := hne p (by simp)
    have ih' := ih (fun q hq => hne q (by simp [hq]))
    rw [renderTail, lex_period_part p _ hp (sep_renderTail ps), ih']
    simp [LexRes.cons, tailToks]

theorem lex_renderParts (p : List Char) (ps : List (List Char)) (hp : p ≠ [])
    (hne : ∀ q ∈ ps, q ≠ []) :
    lex false (renderParts (p :: ps)) = .ok (.word p (needsQuotes p) :: tailToks ps) := by
  rw [renderParts, lex_part false p _ hp (sep_renderTail ps), lex_renderTail ps hne]
  rfl

theorem dropWs_tailToks (ps : List (List Char)) : dropWs (tailToks ps) = tailToks ps := by
  induction ps with
  | nil => rfl
  | cons p ps ih =>
    simp only [dropWs, tailToks] at ih ⊢
    simp only [List.filter_cons]
    have h1 : (Tok.period != Tok.ws) = true := by decide
    have h2 : (Tok.word p (needsQuotes p) != Tok.ws) = true := by
      simp [bne, BEq.beq]
    simp [h1, h2, ih]

theorem parseTail_tailToks (ps : List (List Char)) :
    parseTail (tailToks ps) = some (ps.map fun p => ⟨p, needsQuotes p⟩) := by
  induction ps with
  | nil => rfl
  | cons p ps ih => simp [tailToks, parseTail, ih]

theorem lower_of_bare (p : List Char) (h : needsQuotes p = false) : lower p = p := by
  cases p with
  | nil => rfl
  | cons c cs =>
    simp only [needsQuotes, Bool.or_eq_false_iff, Bool.not_eq_false'] at h
    have hc : barePart c = true := by
      have := h.1
      rw [bareStart_iff] at this; rw [barePart_iff]; omega
    have : ∀ (l : List Char), l.all barePart = true → l.map Char.toLower = l := by
      intro l hl
      induction l with
      | nil => rfl
      | cons a l ih =>
        simp only [List.all_cons, Bool.and_eq_true] at hl
        simp [barePart_toLower hl.1, ih hl.2]
    simp [lower, barePart_toLower hc, this cs h.2]

theorem normalize_parts (ic : Bool) (ps : List (List Char)) :
    (ps.map fun p => (⟨p, needsQuotes p⟩ : Ident)).map
        (fun id => if id.quoted then id.value else if ic then id.value else lower id.value) = ps := by
  induction ps with
  | nil => rfl
  | cons p ps ih =>
    simp only [List.map_cons, List.map_map] at ih ⊢
    rw [ih]
    cases hq : needsQuotes p with
    | true => simp
    | false => cases ic <;> simp [lower_of_bare p hq]

/-- **core round trip**: `parse_identifiers_normalized(render(parts), ignore_case) = parts` for
    any number (≥ 1) of non-empty identifiers over arbitrary characters -/
theorem parse_renderParts (ic : Bool) (p : List Char) (ps : List (List Char)) (hp : p ≠ [])
    (hne : ∀ q ∈ ps, q ≠ []) :
    parseIdentifiersNormalized (renderParts (p :: ps)) ic = some (p :: ps) := by
  unfold parseIdentifiersNormalized
  rw [lex_renderParts p ps hp hne]
  have hd : dropWs (.word p (needsQuotes p) :: tailToks ps) = .word p (needsQuotes p) :: tailToks ps := by
    have := dropWs_tailToks ps
    simp only [dropWs] at this ⊢
    simp only [List.filter_cons]
    have h2 : (Tok.word p (needsQuotes p) != Tok.ws) = true := by simp [bne, BEq.beq]
    simp [h2, this]
  simp only [hd, parseMultipart, parseTail_tailToks, Option.map_some]
  have := normalize_parts ic (p :: ps)
  simp only [List.map_cons] at this ⊢
  rw [this]

end DfModel.Proofs.C52
