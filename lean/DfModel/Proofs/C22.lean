/-
  Helper lemmas for C22 (statistics pruning). Core Lean only.
-/
import DfModel.Mech.Pruning
namespace DfModel.Proofs.C22
open DfModel.Mech.Pruning

/-- "not definitely false" -/
def nf (x : Option Bool) : Prop := x ≠ some false

theorem nf_and3 {a b : Option Bool} (ha : nf a) (hb : nf b) : nf (and3 a b) := by
  rcases a with _ | _ | _ <;> rcases b with _ | _ | _ <;> simp_all [nf, and3]

theorem nf_or3_left {a b : Option Bool} (ha : nf a) : nf (or3 a b) := by
  rcases a with _ | _ | _ <;> rcases b with _ | _ | _ <;> simp_all [nf, or3]

theorem nf_or3_right {a b : Option Bool} (hb : nf b) : nf (or3 a b) := by
  rcases a with _ | _ | _ <;> rcases b with _ | _ | _ <;> simp_all [nf, or3]

theorem and3_true {a b : Option Bool} (h : and3 a b = some true) : a = some true ∧ b = some true := by
  rcases a with _ | _ | _ <;> rcases b with _ | _ | _ <;> simp_all [and3]

theorem or3_true {a b : Option Bool} (h : or3 a b = some true) : a = some true ∨ b = some true := by
  rcases a with _ | _ | _ <;> rcases b with _ | _ | _ <;> simp_all [or3]

theorem evalS_simpAnd (l r : SExpr) (s : CStats) :
    evalS (simpAnd l r) s = and3 (evalS l s) (evalS r s) := by
  unfold simpAnd
  split
  · rename_i h
    simp only [Bool.or_eq_true] at h
    rcases h with h | h
    · have : l = .lit (some false) := by
        unfold alwaysFalse at h; split at h <;> simp_all
      subst this
      simp [evalS, and3]
    · have : r = .lit (some false) := by
        unfold alwaysFalse at h; split at h <;> simp_all
      subst this
      rcases hl : evalS l s with _ | _ | _ <;> simp [evalS, and3]
  · split
    · rename_i h
      have : l = .lit (some true) := by
        unfold alwaysTrue at h; split at h <;> simp_all
      subst this
      rcases hr : evalS r s with _ | _ | _ <;> simp [evalS, and3]
    · split
      · rename_i h
        have : r = .lit (some true) := by
          unfold alwaysTrue at h; split at h <;> simp_all
        subst this
        rcases hl : evalS l s with _ | _ | _ <;> simp [evalS, and3]
      · rfl

theorem evalS_simpOr (l r : SExpr) (s : CStats) :
    evalS (simpOr l r) s = or3 (evalS l s) (evalS r s) := by
  unfold simpOr
  split
  · rename_i h
    simp only [Bool.or_eq_true] at h
    rcases h with h | h
    · have : l = .lit (some true) := by
        unfold alwaysTrue at h; split at h <;> simp_all
      subst this
      simp [evalS, or3]
    · have : r = .lit (some true) := by
        unfold alwaysTrue at h; split at h <;> simp_all
      subst this
      rcases hl : evalS l s with _ | _ | _ <;> simp [evalS, or3]
  · split
    · rename_i h
      have : l = .lit (some false) := by
        unfold alwaysFalse at h; split at h <;> simp_all
      subst this
      rcases hr : evalS r s with _ | _ | _ <;> simp [evalS, or3]
    · split
      · rename_i h
        have : r = .lit (some false) := by
          unfold alwaysFalse at h; split at h <;> simp_all
        subst this
        rcases hl : evalS l s with _ | _ | _ <;> simp [evalS, or3]
      · rfl

/-- a row with a non-null value in column `c` makes `null_count != row_count` true or unknown -/
theorem countNulls_lt {rows : List Row} {c : Nat} {r : Row} (hr : r ∈ rows) {v : Int}
    (hv : r.iv c = some v) : countNulls rows c < rows.length := by
  unfold countNulls
  induction rows with
  | nil => cases hr
  | cons x xs ih =>
    simp only [List.filter_cons, List.length_cons]
    rcases List.mem_cons.mp hr with h | h
    · subst h
      simp only [hv, Option.isNone_some, Bool.false_eq_true, if_false]
      have := List.length_filter_le (fun r => (r.iv c).isNone) xs
      omega
    · have := ih h
      split
      · simp only [List.length_cons]; omega
      · omega

theorem hasNonNulls_nf {s : CStats} {rows : List Row} (hs : ValidStats s rows) {c : Nat} {r : Row}
    (hr : r ∈ rows) {v : Int} (hv : r.iv c = some v) : nf (evalS (hasNonNulls c) s) := by
  unfold hasNonNulls
  simp only [evalS, STerm.eval]
  cases hn : (s.ic c).nulls with
  | none => simp [cmp3, nf]
  | some n =>
    cases hN : s.rows with
    | none => simp [cmp3, nf]
    | some N =>
      have e1 := hs.nulls_ok c n hn
      have e2 := hs.rows_ok N hN
      have := countNulls_lt hr hv
      simp [cmp3, Cmp.holds, nf]
      omega

/-- the min/max rewrite of `col op lit` never evaluates to FALSE when some row satisfies it -/
theorem statsCmp_nf {s : CStats} {rows : List Row} (hs : ValidStats s rows) (op : Cmp) (c : Nat)
    (l : Option Int) {r : Row} (hr : r ∈ rows) (h : cmp3 op (r.iv c) l = some true) :
    nf (evalS (statsCmp op c l) s) := by
  cases hv : r.iv c with
  | none => simp [hv, cmp3] at h
  | some v =>
    cases l with
    | none => simp [hv, cmp3] at h
    | some y =>
      simp only [hv, cmp3, Option.some.injEq] at h
      unfold statsCmp
      simp only [evalS]
      apply nf_and3 (hasNonNulls_nf hs hr hv)
      have hmin := hs.min_ok c
      have hmax := hs.max_ok c
      cases op <;> simp only [Cmp.holds, decide_eq_true_eq] at h <;> simp only [evalS, STerm.eval]
      · -- eq
        subst h
        apply nf_and3
        · cases hm : (s.ic c).min with
          | none => simp [cmp3, nf]
          | some m => have := hmin m hm r hr v hv; simp [cmp3, Cmp.holds, nf]; omega
        · cases hm : (s.ic c).max with
          | none => simp [cmp3, nf]
          | some m => have := hmax m hm r hr v hv; simp [cmp3, Cmp.holds, nf]; omega
      · -- ne
        cases hm : (s.ic c).min with
        | none => exact nf_or3_left (by simp [cmp3, nf])
        | some m =>
          cases hM : (s.ic c).max with
          | none => exact nf_or3_right (by simp [cmp3, nf])
          | some M =>
            have := hmin m hm r hr v hv
            have := hmax M hM r hr v hv
            by_cases hmy : m = y
            · apply nf_or3_right
              simp [cmp3, Cmp.holds, nf]; omega
            · apply nf_or3_left
              simp [cmp3, Cmp.holds, nf]; omega
      · -- lt : min < lit
        cases hm : (s.ic c).min with
        | none => simp [cmp3, nf]
        | some m => have := hmin m hm r hr v hv; simp [cmp3, Cmp.holds, nf]; omega
      · -- le
        cases hm : (s.ic c).min with
        | none => simp [cmp3, nf]
        | some m => have := hmin m hm r hr v hv; simp [cmp3, Cmp.holds, nf]; omega
      · -- gt : max > lit
        cases hm : (s.ic c).max with
        | none => simp [cmp3, nf]
        | some m => have := hmax m hm r hr v hv; simp [cmp3, Cmp.holds, nf]; omega
      · -- ge
        cases hm : (s.ic c).max with
        | none => simp [cmp3, nf]
        | some m => have := hmax m hm r hr v hv; simp [cmp3, Cmp.holds, nf]; omega

theorem countNulls_pos' {rows : List Row} {c : Nat} {r : Row} (hr : r ∈ rows)
    (hv : r.iv c = none) : 0 < countNulls rows c := by
  unfold countNulls
  apply List.length_pos_of_mem (a := r)
  simp [List.mem_filter, hr, hv]

theorem hasNulls_nf {s : CStats} {rows : List Row} (hs : ValidStats s rows) {c : Nat} {r : Row}
    (hr : r ∈ rows) (hv : r.iv c = none) : nf (evalS (hasNulls c) s) := by
  unfold hasNulls
  simp only [evalS, STerm.eval]
  cases hn : (s.ic c).nulls with
  | none => simp [cmp3, nf]
  | some n =>
    have := hs.nulls_ok c n hn
    have := countNulls_pos' hr hv
    simp [cmp3, Cmp.holds, nf]
    omega

theorem eqStats_nf {s : CStats} {rows : List Row} (hs : ValidStats s rows) (c : Nat) {r : Row}
    (hr : r ∈ rows) {v : Int} (hv : r.iv c = some v) : nf (evalS (eqStats c (some v)) s) := by
  unfold eqStats
  simp only [evalS, STerm.eval]
  apply nf_and3
  · cases hm : (s.ic c).min with
    | none => simp [cmp3, nf]
    | some m => have := hs.min_ok c m hm r hr v hv; simp [cmp3, Cmp.holds, nf]; omega
  · cases hm : (s.ic c).max with
    | none => simp [cmp3, nf]
    | some m => have := hs.max_ok c m hm r hr v hv; simp [cmp3, Cmp.holds, nf]; omega

theorem neStats_nf {s : CStats} {rows : List Row} (hs : ValidStats s rows) (c : Nat) {r : Row}
    (hr : r ∈ rows) {v y : Int} (hv : r.iv c = some v) (hne : v ≠ y) :
    nf (evalS (neStats c (some y)) s) := by
  unfold neStats
  simp only [evalS, STerm.eval]
  cases hm : (s.ic c).min with
  | none => exact nf_or3_left (by simp [cmp3, nf])
  | some m =>
    cases hM : (s.ic c).max with
    | none => exact nf_or3_right (by simp [cmp3, nf])
    | some M =>
      have := hs.min_ok c m hm r hr v hv
      have := hs.max_ok c M hM r hr v hv
      by_cases hmy : m = y
      · apply nf_or3_right
        simp [cmp3, Cmp.holds, nf]; omega
      · apply nf_or3_left
        simp [cmp3, Cmp.holds, nf]; omega

theorem cmp3_swap (op : Cmp) (a b : Option Int) : cmp3 op.swap a b = cmp3 op b a := by
  cases a <;> cases b <;> simp only [cmp3]
  cases op <;> simp only [Cmp.swap, Cmp.holds, Option.some.injEq, decide_eq_decide] <;> omega

/-! ### IN lists -/

theorem inList3_true {x : Option Int} {ls : List (Option Int)} :
    ∀ {acc : Option Bool},
      ls.foldl (fun acc l => or3 acc (cmp3 .eq x l)) acc = some true →
      acc = some true ∨ ∃ l ∈ ls, cmp3 .eq x l = some true := by
  induction ls with
  | nil => intro acc h; exact Or.inl h
  | cons l rest ih =>
    intro acc h
    simp only [List.foldl_cons] at h
    rcases ih h with h1 | ⟨l', hl', h2⟩
    · rcases or3_true h1 with h3 | h3
      · exact Or.inl h3
      · exact Or.inr ⟨l, List.mem_cons_self, h3⟩
    · exact Or.inr ⟨l', List.mem_cons_of_mem _ hl', h2⟩

/-- `NOT (x IN ls) = TRUE` forces `x != l` to be TRUE for every element -/
theorem inList3_false {x : Option Int} {ls : List (Option Int)} :
    ∀ {acc : Option Bool},
      ls.foldl (fun acc l => or3 acc (cmp3 .eq x l)) acc = some false →
      acc = some false ∧ ∀ l ∈ ls, cmp3 .ne x l = some true := by
  induction ls with
  | nil => intro acc h; exact ⟨h, by intro l hl; cases hl⟩
  | cons l rest ih =>
    intro acc h
    simp only [List.foldl_cons] at h
    obtain ⟨h1, h2⟩ := ih h
    have hacc : acc = some false ∧ cmp3 .eq x l = some false := by
      rcases acc with _ | _ | _ <;> rcases hc : cmp3 .eq x l with _ | _ | _ <;> simp_all [or3]
    refine ⟨hacc.1, ?_⟩
    intro l' hl'
    rcases List.mem_cons.mp hl' with h3 | h3
    · subst h3
      have := hacc.2
      cases x <;> cases l' <;> simp_all [cmp3, Cmp.holds]
    · exact h2 l' h3

theorem inListS_or_nf {s : CStats} {c : Nat} {rest : List (Option Int)} :
    ∀ {acc : SExpr},
      (nf (evalS acc s) ∨ ∃ l ∈ rest, nf (evalS (statsCmp .eq c l) s)) →
      nf (evalS (rest.foldl (fun acc l' => simpOr acc (statsCmp .eq c l')) acc) s) := by
  induction rest with
  | nil =>
    intro acc h
    rcases h with h | ⟨l, hl, _⟩
    · exact h
    · cases hl
  | cons l rest ih =>
    intro acc h
    simp only [List.foldl_cons]
    apply ih
    rcases h with h | ⟨l', hl', h2⟩
    · left; rw [evalS_simpOr]; exact nf_or3_left h
    · rcases List.mem_cons.mp hl' with h3 | h3
      · subst h3; left; rw [evalS_simpOr]; exact nf_or3_right h2
      · right; exact ⟨l', h3, h2⟩

theorem inListS_and_nf {s : CStats} {c : Nat} {rest : List (Option Int)} :
    ∀ {acc : SExpr},
      nf (evalS acc s) → (∀ l ∈ rest, nf (evalS (statsCmp .ne c l) s)) →
      nf (evalS (rest.foldl (fun acc l' => simpAnd acc (statsCmp .ne c l')) acc) s) := by
  induction rest with
  | nil => intro acc h _; exact h
  | cons l rest ih =>
    intro acc h hall
    simp only [List.foldl_cons]
    apply ih
    · rw [evalS_simpAnd]; exact nf_and3 h (hall l List.mem_cons_self)
    · intro l' hl'; exact hall l' (List.mem_cons_of_mem _ hl')

end DfModel.Proofs.C22
