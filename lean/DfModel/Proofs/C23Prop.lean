/-
  C23 helper lemmas, part 2: satisfy_greater and the boolean connectives. Core Lean only.
-/
import DfModel.Proofs.C23
namespace DfModel.Proofs.C23
open DfModel.Mech.Interval

theorem nextValue_lb {t : Ty} {p : Option Int} {q b : Int} (hp : lbOK p b) (hq : b < q) :
    lbOK (nextValue t p) q := by
  intro v hv
  cases p with
  | none => simp [nextValue] at hv
  | some y =>
    simp only [nextValue] at hv
    split at hv
    · cases hv
    · simp only [Option.some.injEq] at hv
      have := hp y rfl
      omega

theorem prevValue_ub {t : Ty} {p : Option Int} {q a : Int} (hp : ubOK p a) (hq : q < a) :
    ubOK (prevValue t p) q := by
  intro v hv
  cases p with
  | none => simp [prevValue] at hv
  | some y =>
    simp only [prevValue] at hv
    split at hv
    · cases hv
    · simp only [Option.some.injEq] at hv
      have := hp y rfl
      omega

/-- `satisfy_greater` keeps every assignment `(a, b)` with `a > b` (strict) / `a ≥ b` -/
theorem satisfy_greater_sound {t : Ty} (hw : t.WF) {l r : Iv} {a b : Int} (strict : Bool)
    (ha : mem a l) (hb : mem b r) (hra : t.inRange a) (hrb : t.inRange b)
    (hc : if strict then b < a else b ≤ a) :
    ∃ l' r', satisfyGreater t l r strict = some (l', r') ∧ mem a l' ∧ mem b r' := by
  unfold satisfyGreater
  split
  · rename_i h
    have h' : (!(l.hi.isNone || r.lo.isNone) && ole l.hi r.lo) = true := by
      cases hl : l.hi with
      | none => simp [hl] at h
      | some x =>
        cases hr : r.lo with
        | none => simp [hl, hr, ole] at h
        | some y => simpa [hl, hr] using h
    obtain ⟨x, y, hx, hy, hxy⟩ := guard_le h'
    have h1 := ha.2 x hx
    have h2 := hb.1 y hy
    cases strict with
    | true => simp only [if_true] at hc; omega
    | false =>
      simp only [Bool.false_eq_true, if_false] at hc
      have hxy' : x = y := by omega
      subst hxy'
      have hax : a = x := by omega
      have hbx : b = x := by omega
      simp only [hx, hy, Bool.not_false, Bool.true_and, beq_self_eq_true, if_true]
      refine ⟨_, _, rfl, ?_, ?_⟩
      · apply mem_mk hw hra <;> intro v hv <;> simp only [Option.some.injEq] at hv <;> omega
      · apply mem_mk hw hrb <;> intro v hv <;> simp only [Option.some.injEq] at hv <;> omega
  · refine ⟨_, _, rfl, ?_, ?_⟩
    · apply mem_mk hw hra
      · intro v hv
        split at hv
        · cases strict with
          | true =>
            simp only [if_true] at hv hc
            exact nextValue_lb (t := t) (p := r.lo) (b := b) hb.1 hc v hv
          | false =>
            simp only [Bool.false_eq_true, if_false] at hv hc
            have := hb.1 v hv
            omega
        · exact ha.1 v hv
      · exact ha.2
    · apply mem_mk hw hrb
      · exact hb.1
      · intro v hv
        split at hv
        · cases strict with
          | true =>
            simp only [if_true] at hv hc
            exact prevValue_ub (t := t) (p := l.hi) (a := a) ha.2 hc v hv
          | false =>
            simp only [Bool.false_eq_true, if_false] at hv hc
            have := ha.2 v hv
            omega
        · exact hb.2 v hv

/-! ### boolean connectives: the whole table -/

theorem band_sound {A B : BIv} {x y : Bool} (hx : bmem x A) (hy : bmem y B) :
    bmem (x && y) (band A B) := by
  obtain ⟨al, ah⟩ := A; obtain ⟨bl, bh⟩ := B
  cases al <;> cases ah <;> cases bl <;> cases bh <;> cases x <;> cases y <;>
    simp_all [bmem, band]

theorem bor_sound {A B : BIv} {x y : Bool} (hx : bmem x A) (hy : bmem y B) :
    bmem (x || y) (bor A B) := by
  obtain ⟨al, ah⟩ := A; obtain ⟨bl, bh⟩ := B
  cases al <;> cases ah <;> cases bl <;> cases bh <;> cases x <;> cases y <;>
    simp_all [bmem, bor]

theorem bnot_sound {A : BIv} {x : Bool} (hx : bmem x A) : bmem (!x) (bnot A) := by
  obtain ⟨al, ah⟩ := A
  cases al <;> cases ah <;> cases x <;> simp_all [bmem, bnot, BIv.TRUE, BIv.FALSE, BIv.TF]

/-! ### contains -/

theorem contains_false_sound {I J : Iv} {v : Int} (h : contains I J = .FALSE)
    (hi : mem v I) (hj : mem v J) : False := by
  obtain ⟨c, hc, _⟩ := intersect_sound hi hj
  unfold contains at h
  rw [hc] at h
  simp only at h
  split at h <;> simp [BIv.TRUE, BIv.FALSE, BIv.TF] at h

theorem contains_true_sound {I J : Iv} {v : Int} (h : contains I J = .TRUE)
    (hj : mem v J) : mem v I := by
  unfold contains at h
  cases hx : intersect I J with
  | none => rw [hx] at h; simp [BIv.TRUE, BIv.FALSE] at h
  | some c =>
    rw [hx] at h
    simp only at h
    split at h
    · rename_i hc
      have hc' : c = J := by simpa using hc
      subst hc'
      unfold intersect at hx
      split at hx
      · cases hx
      · simp only [Option.some.injEq] at hx
        obtain ⟨il, ih⟩ := I
        have hlo : maxOfBounds il c.lo = c.lo := congrArg Iv.lo hx
        have hhi : minOfBounds ih c.hi = c.hi := congrArg Iv.hi hx
        refine ⟨?_, ?_⟩
        · intro l hl
          simp only at hl
          subst hl
          unfold maxOfBounds at hlo
          split at hlo
          · have := hj.1 l hlo.symm; omega
          · rename_i hcnd
            cases hcl : c.lo with
            | none => simp [hcl] at hcnd
            | some y =>
              simp only [hcl, Option.isNone_some, Bool.not_false, Bool.false_or, Bool.true_and, ole,
                decide_eq_true_eq] at hcnd
              have := hj.1 y hcl
              omega
        · intro u hu
          simp only at hu
          subst hu
          unfold minOfBounds at hhi
          split at hhi
          · have := hj.2 u hhi.symm; omega
          · rename_i hcnd
            cases hcl : c.hi with
            | none => simp [hcl] at hcnd
            | some y =>
              simp only [hcl, Option.isNone_some, Bool.not_false, Bool.false_or, Bool.true_and, ole,
                decide_eq_true_eq] at hcnd
              have := hj.2 y hcl
              omega
    · simp [BIv.TRUE, BIv.TF] at h

end DfModel.Proofs.C23
