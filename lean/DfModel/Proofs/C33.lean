/-
  Helper lemmas for C33: `okOf` (forget which error) as a monad homomorphism Except → Option,
  mapM fusion, the searched-CASE batch strategy row by row.
-/
import DfModel.Mech.ExprStrat
namespace DfModel.Proofs.C33
open DfModel DfModel.Strat

/-- the successful result, forgetting which error occurred -/
def okOf {ε α : Type} : Except ε α → Option α
  | .ok a => some a
  | .error _ => none
@[simp] theorem okOf_ok {ε α : Type} (a : α) : okOf (.ok a : Except ε α) = some a := rfl
@[simp] theorem okOf_pure {ε α : Type} (a : α) : okOf (pure a : Except ε α) = some a := rfl
@[simp] theorem okOf_error {ε α : Type} (e : ε) : okOf (.error e : Except ε α) = none := rfl
theorem okOf_bind {ε α β : Type} (x : Except ε α) (f : α → Except ε β) :
    okOf (x >>= f) = (okOf x).bind (fun a => okOf (f a)) := by
  cases x <;> rfl
theorem okOf_eq_some {ε α : Type} (x : Except ε α) (a : α) : okOf x = some a ↔ x = .ok a := by
  cases x <;> simp [okOf]
theorem okOf_map {ε α β : Type} (f : α → β) (x : Except ε α) : okOf (f <$> x) = (okOf x).map f := by
  cases x <;> rfl
theorem okOf_ite {ε α : Type} {c : Prop} [Decidable c] (x y : Except ε α) :
    okOf (if c then x else y) = if c then okOf x else okOf y := by split <;> rfl

theorem okOf_mapM {ε α β : Type} (f : α → Except ε β) (l : List α) :
    okOf (l.mapM f) = l.mapM (fun a => okOf (f a)) := by
  induction l with
  | nil => rfl
  | cons a l ih =>
    rw [List.mapM_cons, List.mapM_cons, okOf_bind]
    simp only [okOf_bind, okOf_pure, ih]
    rfl

theorem opt_mapM_fuse {α β γ : Type} (F : α → Option β) (G : β → Option γ) (l : List α) :
    (l.mapM F).bind (fun l' => l'.mapM G) = l.mapM (fun a => (F a).bind G) := by
  induction l with
  | nil => rfl
  | cons a l ih =>
    rw [List.mapM_cons, List.mapM_cons]
    cases hF : F a with
    | none => rfl
    | some b =>
      rw [← ih]
      cases hl : l.mapM F with
      | none => cases hG : G b <;> simp [hG]
      | some bs =>
        simp only [Option.bind_eq_bind, Option.bind_some, Option.pure_def, List.mapM_cons]

theorem okOf_mapM_fuse {ε α β γ : Type} (f : α → Except ε β) (g : β → Except ε γ) (l : List α) :
    (okOf (l.mapM f)).bind (fun l' => okOf (l'.mapM g)) = okOf (l.mapM (fun a => f a >>= g)) := by
  simp only [okOf_mapM, okOf_bind]
  exact opt_mapM_fuse _ _ l

def rowStep (w t : Expr) (env : Env) (x : Row × Option Val) : Except RtErr (Row × Option Val) :=
  match x with
  | (r, some v) => .ok (r, some v)
  | (r, none) => do
    let c ← evalTri w r env
    if c == .t then do pure (r, some (← eval t r env)) else pure (r, none)

theorem okOf_phases (w t : Expr) (env : Env) (st : CaseSt) :
    (okOf (whenPhase w env st)).bind (fun cs => okOf (thenPhase t env st cs)) = okOf (st.mapM (rowStep w t env)) := by
  induction st with
  | nil => rfl
  | cons x st ih =>
    obtain ⟨r, d⟩ := x
    rw [List.mapM_cons, okOf_bind]
    simp only [okOf_bind, okOf_pure]
    rw [← ih]
    cases d with
    | some v =>
      simp only [whenPhase, rowStep, okOf_bind, okOf_pure, okOf_ok]
      cases hB : okOf (whenPhase w env st) with
      | none => rfl
      | some cs =>
        simp only [Option.bind_some, thenPhase, okOf_bind, okOf_pure]
        have : (none == some Tri.t) = false := rfl
        simp only [this, Bool.false_eq_true, if_false, pure, Except.pure, okOf_bind, okOf_ok, Option.bind_some]
    | none =>
      simp only [whenPhase, rowStep, okOf_bind, okOf_pure]
      cases hA : okOf (evalTri w r env) with
      | none => rfl
      | some c =>
        cases hB : okOf (whenPhase w env st) with
        | none =>
          simp [okOf_ite]
          all_goals (try (split <;> simp))
          all_goals (try (cases okOf (eval t r env) <;> rfl))
        | some cs =>
          simp only [Option.bind_some, thenPhase, okOf_bind, okOf_pure, okOf_ite]
          by_cases hc : c = .t
          · subst hc
            cases hV : okOf (eval t r env) <;> simp
          · have h1 : (some c == some Tri.t) = false := by cases c <;> simp_all
            have h2 : (c == Tri.t) = false := by cases c <;> simp_all
            simp [h1, h2]

def rowElse (els : Option Expr) (env : Env) (x : Row × Option Val) : Except RtErr Val :=
  match x with
  | (_, some v) => .ok v
  | (r, none) => match els with
    | none => .ok .null
    | some e => eval e r env

def rowGo (whens : List (Expr × Expr)) (els : Option Expr) (env : Env) (x : Row × Option Val) : Except RtErr Val :=
  match whens with
  | [] => rowElse els env x
  | (w, t) :: rest => rowStep w t env x >>= rowGo rest els env

theorem okOf_elsePhase (els : Option Expr) (env : Env) (st : CaseSt) :
    okOf (elsePhase els env st) = okOf (st.mapM (rowElse els env)) := by
  induction st with
  | nil => rfl
  | cons x st ih =>
    obtain ⟨r, d⟩ := x
    rw [List.mapM_cons]
    cases d with
    | some v => simp only [elsePhase, rowElse, okOf_bind, okOf_pure, okOf_ok, ih, Option.bind_some]
    | none => cases els <;> simp only [elsePhase, rowElse, okOf_bind, okOf_pure, okOf_ok, ih, Option.bind_some]

/-- when WHEN selected no row, phase 2 leaves the state as it is — so skipping it (and never
    evaluating THEN) is invisible -/
theorem thenPhase_noop (w t : Expr) (env : Env) (st : CaseSt) (cs : List (Option Tri))
    (hw : okOf (whenPhase w env st) = some cs) (hnone : cs.any (· == some .t) = false) :
    okOf (thenPhase t env st cs) = some st := by
  induction st generalizing cs with
  | nil => cases cs <;> rfl
  | cons x st ih =>
    obtain ⟨r, d⟩ := x
    cases d with
    | some v =>
      simp only [whenPhase, okOf_bind, okOf_pure] at hw
      cases hB : okOf (whenPhase w env st) with
      | none => simp [hB] at hw
      | some cs' =>
        simp only [hB, Option.bind_some, Option.some.injEq] at hw
        subst hw
        simp only [List.any_cons, Bool.or_eq_false_iff] at hnone
        simp only [thenPhase, okOf_bind, okOf_pure, okOf_ite, hnone.1, Bool.false_eq_true, if_false,
          Option.bind_some, ih cs' hB hnone.2]
    | none =>
      simp only [whenPhase, okOf_bind, okOf_pure] at hw
      cases hA : okOf (evalTri w r env) with
      | none => simp [hA] at hw
      | some c =>
        cases hB : okOf (whenPhase w env st) with
        | none => simp [hA, hB] at hw
        | some cs' =>
          simp only [hA, hB, Option.bind_some, Option.some.injEq] at hw
          subst hw
          simp only [List.any_cons, Bool.or_eq_false_iff] at hnone
          simp only [thenPhase, okOf_bind, okOf_pure, okOf_ite, hnone.1, Bool.false_eq_true, if_false,
            Option.bind_some, ih cs' hB hnone.2]

theorem okOf_branchStep (w t : Expr) (env : Env) (st : CaseSt) :
    okOf (branchStep w t env st) = okOf (st.mapM (rowStep w t env)) := by
  rw [← okOf_phases]
  unfold branchStep
  rw [okOf_bind]
  cases hw : okOf (whenPhase w env st) with
  | none => rfl
  | some cs =>
    simp only [Option.bind_some, okOf_ite, okOf_pure]
    by_cases hany : cs.any (· == some .t) = true
    · simp [hany]
    · have hany' : cs.any (· == some .t) = false := Bool.eq_false_iff.mpr hany
      simp only [hany', Bool.not_false, if_true]
      exact (thenPhase_noop w t env st cs hw hany').symm

theorem okOf_caseGo (whens : List (Expr × Expr)) (els : Option Expr) (env : Env) (st : CaseSt) :
    okOf (caseGo whens els env st) = okOf (st.mapM (rowGo whens els env)) := by
  induction whens generalizing st with
  | nil => simp only [caseGo, okOf_elsePhase]; rfl
  | cons wt rest ih =>
    obtain ⟨w, t⟩ := wt
    simp only [caseGo]
    rw [okOf_bind, okOf_branchStep]
    have : (fun a => okOf (caseGo rest els env a)) = (fun a => okOf (a.mapM (rowGo rest els env))) := by
      funext a; exact ih a
    rw [this, okOf_mapM_fuse]
    rfl

theorem rowGo_decided (whens : List (Expr × Expr)) (els : Option Expr) (env : Env) (r : Row) (v : Val) :
    rowGo whens els env (r, some v) = .ok v := by
  induction whens with
  | nil => rfl
  | cons wt rest ih => obtain ⟨w, t⟩ := wt; simp [rowGo, rowStep, bind, Except.bind, ih]

/-- the per-row composition of the branch steps IS the row-by-row semantics of the CASE expression -/
theorem rowGo_eq_eval (whens : List (Expr × Expr)) (els : Option Expr) (env : Env) (r : Row) :
    rowGo whens els env (r, none) = eval (.case none whens els) r env := by
  have key : ∀ whens, rowGo whens els env (r, none) =
      (evalWhens none whens r env >>= fun o => match o with
        | some v => pure v
        | none => match els with
          | none => pure Val.null
          | some e => eval e r env) := by
    intro whens
    induction whens with
    | nil => cases els <;> simp [rowGo, rowElse, evalWhens, bind, Except.bind, pure, Except.pure]
    | cons wt rest ih =>
      obtain ⟨w, t⟩ := wt
      simp only [rowGo, rowStep, evalWhens, evalTri]
      cases hw : eval w r env with
      | error e => simp [bind, Except.bind]
      | ok c =>
        cases hc : Tri.ofVal? c with
        | none => simp [bind, Except.bind, hc]
        | some tv =>
          by_cases ht : tv = .t
          · subst ht
            cases hv : eval t r env with
            | error e => simp [bind, Except.bind, hc, pure, Except.pure, hv]
            | ok v => simp [bind, Except.bind, hc, pure, Except.pure, hv, rowGo_decided]
          · have : (tv == Tri.t) = false := by cases tv <;> simp_all
            simp only [bind, Except.bind, hc, pure, Except.pure, this, Bool.false_eq_true, if_false]
            exact ih
  rw [key whens]
  conv => rhs; unfold eval
  simp only [bind, Except.bind, pure, Except.pure]
  cases evalWhens none whens r env with
  | error e => rfl
  | ok o => cases o <;> cases els <;> rfl

end DfModel.Proofs.C33
