/-
  C16 helper lemmas, part D: the reader's structural invariant `Rd` (position in the file queue,
  `delivered` = what was written before that position, pc-specific facts, file handles), preserved
  by the reader's own regions and — through the frame `WFrame` — by every writer-side region.
  Core Lean only.
-/
import DfModel.Proofs.C16c
namespace DfModel.Proofs.C16
open DfModel.Sm.SpillPool

/-- structural invariant of the reader -/
structure Rd (s : St) : Prop where
  popped_le : s.popped ≤ s.nfiles
  popped_fin : ∀ f, f < s.popped → s.finished f = true
  cur_eq : ∀ f, s.cur = some f → f = s.popped ∧ f < s.nfiles
  read_le : ∀ f, s.cur = some f → s.rread ≤ (s.written f).length
  del_some : ∀ f, s.cur = some f → s.delivered = catW s.written s.popped ++ (s.written f).take s.rread
  del_none : s.cur = none → s.delivered = catW s.written s.popped
  pc_atFile : s.rpc = .atFile → s.cur ≠ none
  pc_chk : (s.rpc = .chkFin ∨ s.rpc = .popping) →
    ∃ f, s.cur = some f ∧ s.finished f = true ∧ s.rread = (s.written f).length
  pc_pend : s.rpc = .pendPool → s.cur ≠ none
  pc_noFile : s.rpc = .noFile → s.cur = none
  handle_ok : ∀ f, f < s.nfiles → s.popped ≤ f → ¬(s.cur = some f ∧ s.stream = true) → s.handle f = true

theorem rd_init (m : Nat) : Rd (init m) := by
  constructor <;> simp [init, catW]

theorem rd_stepReader (s : St) (h : Rd s) : Rd (stepReader s) := by
  obtain ⟨h1, h2, h3, h4, h5, h6, h7, h8, h9, h10, h11⟩ := h
  unfold stepReader
  split
  · -- idle: begin
    constructor <;> dsimp only <;> grind
  · -- atFile
    split
    · constructor <;> dsimp only <;> grind
    · rename_i f hc
      have hf := h3 f hc
      split
      · rename_i hlt
        split
        · have ht := List.take_succ_eq_append_getElem hlt
          constructor <;> dsimp only <;> grind [upd]
        · constructor <;> dsimp only <;> grind
      · split
        · constructor <;> dsimp only <;> grind
        · constructor <;> dsimp only <;> grind
  · -- chkFin
    split
    · constructor <;> dsimp only <;> grind
    · split
      · constructor <;> dsimp only <;> grind
      · constructor <;> dsimp only <;> grind
  · -- popping
    obtain ⟨f, hc, hfin, hr⟩ := h8 (Or.inr ‹_›)
    have hf := h3 f hc
    have hd := h5 f hc
    constructor <;> dsimp only <;> grind [catW, List.take_length]
  · constructor <;> dsimp only <;> grind
  · -- noFile
    split
    · constructor <;> dsimp only <;> grind
    · split
      · constructor <;> dsimp only <;> grind
      · constructor <;> dsimp only <;> grind


/-- what a writer-side micro-step may do to the state the reader depends on: files are only added,
    finished files are frozen, batch lists only grow at the end, file handles are untouched -/
structure WFrame (s s' : St) : Prop where
  popped : s'.popped = s.popped
  cur : s'.cur = s.cur
  rread : s'.rread = s.rread
  delivered : s'.delivered = s.delivered
  rpc : s'.rpc = s.rpc
  stream : s'.stream = s.stream
  nfiles : s.nfiles ≤ s'.nfiles
  fin_mono : ∀ f, f < s.nfiles → s.finished f = true → s'.finished f = true ∧ s'.written f = s.written f
  wr_prefix : ∀ f, f < s.nfiles → s.written f <+: s'.written f
  handle_old : ∀ f, f < s.nfiles → s'.handle f = s.handle f
  handle_new : ∀ f, s.nfiles ≤ f → f < s'.nfiles → s'.handle f = true

theorem rd_wframe (s s' : St) (h : Rd s) (fr : WFrame s s') : Rd s' := by
  obtain ⟨h1, h2, h3, h4, h5, h6, h7, h8, h9, h10, h11⟩ := h
  obtain ⟨f1, f2, f3, f4, f5, f6, f7, f8, f9, f10, f11⟩ := fr
  have hcat : catW s'.written s.popped = catW s.written s.popped :=
    catW_congr _ _ _ (fun i hi => (f8 i (by omega) (h2 i hi)).2)
  have htake : ∀ f, s.cur = some f → (s'.written f).take s.rread = (s.written f).take s.rread := by
    intro f hc
    obtain ⟨t, ht⟩ := f9 f (h3 f hc).2
    rw [← ht]
    exact List.take_append_of_le_length (h4 f hc)
  have hlen : ∀ f, f < s.nfiles → (s.written f).length ≤ (s'.written f).length := by
    intro f hf
    obtain ⟨t, ht⟩ := f9 f hf
    rw [← ht, List.length_append]; omega
  constructor
  · rw [f1]; omega
  · intro f hf; rw [f1] at hf; exact (f8 f (by omega) (h2 f hf)).1
  · intro f hc; rw [f2] at hc; rw [f1]; have := h3 f hc; omega
  · intro f hc; rw [f2] at hc; rw [f3]; have := h4 f hc; have := hlen f (h3 f hc).2; omega
  · intro f hc; rw [f2] at hc; rw [f4, f1, f3, hcat, htake f hc]; exact h5 f hc
  · intro hc; rw [f2] at hc; rw [f4, f1, hcat]; exact h6 hc
  · rw [f5, f2]; exact h7
  · rw [f5, f2, f3]
    intro hp
    obtain ⟨f, hc, hfin, hr⟩ := h8 hp
    have := f8 f (h3 f hc).2 hfin
    exact ⟨f, hc, this.1, by rw [this.2]; exact hr⟩
  · rw [f5, f2]; exact h9
  · rw [f5, f2]; exact h10
  · intro f hf hp hn
    rw [f1] at hp; rw [f2, f6] at hn
    by_cases hlt : f < s.nfiles
    · rw [f10 f hlt]; exact h11 f hlt hp hn
    · exact f11 f (by omega) hf

theorem wframe_of_eq (s s' : St) (e1 : s'.popped = s.popped) (e2 : s'.cur = s.cur) (e3 : s'.rread = s.rread)
    (e4 : s'.delivered = s.delivered) (e5 : s'.rpc = s.rpc) (e6 : s'.stream = s.stream)
    (e7 : s'.nfiles = s.nfiles) (e8 : s'.finished = s.finished) (e9 : s'.written = s.written)
    (e10 : s'.handle = s.handle) : WFrame s s' := by
  constructor
  · exact e1
  · exact e2
  · exact e3
  · exact e4
  · exact e5
  · exact e6
  · omega
  · intro f _ h; rw [e8, e9]; exact ⟨h, rfl⟩
  · intro f _; rw [e9]; exact List.prefix_refl _
  · intro f _; rw [e10]
  · intro f h1 h2; omega

theorem wframe_stepPush (s : St) (w b sz : Nat) : WFrame s (stepPush s w b sz) := by
  unfold stepPush; split <;> exact wframe_of_eq _ _ rfl rfl rfl rfl rfl rfl rfl rfl rfl rfl

theorem wframe_stepGiveBack (s : St) (w f : Nat) : WFrame s (stepGiveBack s w f) :=
  wframe_of_eq _ _ rfl rfl rfl rfl rfl rfl rfl rfl rfl rfl

theorem wframe_stepClone (s : St) : WFrame s (stepClone s) :=
  wframe_of_eq _ _ rfl rfl rfl rfl rfl rfl rfl rfl rfl rfl

theorem wframe_stepDrop (s : St) (w : Nat) : WFrame s (stepDrop s w) := by
  unfold stepDrop
  (repeat' split) <;> exact wframe_of_eq _ _ (by simp) (by simp) (by simp) (by simp) (by simp) (by simp)
    (by simp) (by simp) (by simp) (by simp)

theorem wframe_stepCreate (s : St) (w b sz : Nat) (ok : Bool) : WFrame s (stepCreate s w b sz ok) := by
  unfold stepCreate
  split
  · constructor <;> simp only [wakePool_popped, wakePool_cur, wakePool_rread, wakePool_delivered,
      wakePool_rpc, wakePool_stream, wakePool_nfiles, wakePool_finished, wakePool_written, wakePool_handle] <;>
      grind [upd]
  · exact wframe_of_eq _ _ rfl rfl rfl rfl rfl rfl rfl rfl rfl rfl

theorem wframe_stepFinalize (s : St) (w : Nat) (fs : List Nat) : WFrame s (stepFinalize s w fs) := by
  unfold stepFinalize
  split
  · exact wframe_of_eq _ _ (by simp) (by simp) (by simp) (by simp) (by simp) (by simp)
      (by simp) (by simp) (by simp) (by simp)
  · constructor <;> simp only [finishFile_popped, finishFile_cur, finishFile_rread, finishFile_delivered,
      finishFile_rpc, finishFile_stream, finishFile_nfiles, finishFile_finished, finishFile_written,
      finishFile_handle] <;> grind [upd]

theorem wframe_stepAppend (fx : Bool) (s : St) (w f b sz : Nat) (aok fok : Bool) (hl : Live s f) :
    WFrame s (stepAppend fx s w f b sz aok fok) := by
  obtain ⟨hl1, hl2, hl3⟩ := hl
  unfold stepAppend
  (repeat' split) <;> constructor <;>
    simp only [finishFile_popped, finishFile_cur, finishFile_rread, finishFile_delivered,
      finishFile_rpc, finishFile_stream, finishFile_nfiles, finishFile_finished, finishFile_written,
      finishFile_handle, wakeFile_popped, wakeFile_cur, wakeFile_rread, wakeFile_delivered,
      wakeFile_rpc, wakeFile_stream, wakeFile_nfiles, wakeFile_finished, wakeFile_written,
      wakeFile_handle] <;> grind [upd]


/-- every action either is a reader region or satisfies the writer frame -/
theorem wframe_step (fx : Bool) (s : St) (a : Act) (ho : Own s) (ha : a ≠ .reader) :
    WFrame s (step fx s a) := by
  have hrefl : WFrame s s := wframe_of_eq _ _ rfl rfl rfl rfl rfl rfl rfl rfl rfl rfl
  cases a with
  | push w b sz =>
    simp only [step]; split
    · split <;> first | exact wframe_stepPush s w b sz | exact hrefl
    · exact hrefl
  | create w ok =>
    simp only [step]; split
    · split <;> first | exact wframe_stepCreate s w _ _ ok | exact hrefl
    · exact hrefl
  | append w aok fok =>
    simp only [step]; split
    · rename_i hw
      split
      · rename_i f b sz hpc
        exact wframe_stepAppend fx s w f b sz aok fok (ho.own_live w hw f (by simp [hpc, own]))
      · exact hrefl
    · exact hrefl
  | giveBack w =>
    simp only [step]; split
    · split <;> first | exact wframe_stepGiveBack s w _ | exact hrefl
    · exact hrefl
  | clone w =>
    simp only [step]; split
    · exact wframe_stepClone s
    · exact hrefl
  | drop w =>
    simp only [step]; split
    · split <;> first | exact wframe_stepDrop s w | exact hrefl
    · exact hrefl
  | finalize w =>
    simp only [step]; split
    · split <;> first | exact wframe_stepFinalize s w _ | exact hrefl
    · exact hrefl
  | reader => exact absurd rfl ha

theorem rd_step (fx : Bool) (s : St) (a : Act) (ho : Own s) (h : Rd s) : Rd (step fx s a) := by
  by_cases ha : a = .reader
  · subst ha; exact rd_stepReader s h
  · exact rd_wframe s _ h (wframe_step fx s a ho ha)

end DfModel.Proofs.C16
