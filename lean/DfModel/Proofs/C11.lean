/-
  Helper lemmas for C11 (pure arithmetic; core Lean only).
-/
import DfModel.Base.UInt
namespace DfModel.Proofs.C11
open DfModel

/-- the reciprocal is `⌈2^128/d⌉` (or exactly `2^128/d` when `d ∣ 2^128`): `r*d = 2^128 + e`, `e < d`. -/
theorem recip_spec (d : Nat) (hd : 0 < d) :
    ∃ e, e < d ∧ ((2 ^ 128 - 1) / d + 1) * d = 2 ^ 128 + e := by
  refine ⟨d - 1 - (2 ^ 128 - 1) % d, ?_, ?_⟩
  · omega
  · have h := Nat.div_add_mod (2 ^ 128 - 1) d
    have hm := Nat.mod_lt (2 ^ 128 - 1) hd
    have : ((2 ^ 128 - 1) / d + 1) * d = d * ((2 ^ 128 - 1) / d) + d := by
      rw [Nat.add_mul, Nat.one_mul, Nat.mul_comm]
    rw [this]
    have h128 : (1 : Nat) ≤ 2 ^ 128 := Nat.one_le_two_pow
    omega

/-- Granlund–Montgomery: multiplying by the rounded-up reciprocal and shifting is exact for
    64-bit numerators. -/
theorem quot_exact (v d r e : Nat) (hd : 0 < d) (hr : r * d = 2 ^ 128 + e) (he : e < d)
    (hv : v < 2 ^ 64) (hd64 : d < 2 ^ 64) : v * r / 2 ^ 128 = v / d := by
  have hq := Nat.div_add_mod v d
  have hm := Nat.mod_lt v hd
  generalize hqdef : v / d = q at *
  generalize hmdef : v % d = m at *
  -- v = d*q + m
  have key : v * r * d = v * 2 ^ 128 + v * e := by
    rw [Nat.mul_assoc, hr, Nat.mul_add]
  have hve : v * e < 2 ^ 128 := by
    have h1 : v * e < 2 ^ 64 * 2 ^ 64 := by
      cases Nat.eq_zero_or_pos e with
      | inl h0 => subst h0; simp
      | inr hpos =>
        calc v * e < 2 ^ 64 * e := Nat.mul_lt_mul_of_pos_right hv hpos
          _ ≤ 2 ^ 64 * 2 ^ 64 := Nat.mul_le_mul_left _ (by omega)
    have : (2:Nat) ^ 64 * 2 ^ 64 = 2 ^ 128 := by rw [← Nat.pow_add]
    omega
  apply Nat.div_eq_of_lt_le
  · -- q * 2^128 ≤ v * r
    apply Nat.le_of_mul_le_mul_right (c := d) _ hd
    rw [key]
    have : q * 2 ^ 128 * d = (d * q) * 2 ^ 128 := by ac_rfl
    rw [this]
    have : d * q ≤ v := by omega
    calc d * q * 2 ^ 128 ≤ v * 2 ^ 128 := Nat.mul_le_mul_right _ this
      _ ≤ v * 2 ^ 128 + v * e := Nat.le_add_right _ _
  · -- v * r < (q+1) * 2^128
    apply Nat.lt_of_mul_lt_mul_right (a := d)
    rw [key]
    have h1 : (q + 1) * 2 ^ 128 * d = (d * q + d) * 2 ^ 128 := by
      rw [Nat.mul_right_comm, Nat.add_mul, Nat.one_mul, Nat.mul_comm q d]
    rw [h1]
    have h2 : d * q + d = v + (d - m) := by omega
    rw [h2, Nat.add_mul]
    have h3 : 1 * 2 ^ 128 ≤ (d - m) * 2 ^ 128 := Nat.mul_le_mul_right _ (by omega)
    omega

/-- the 64×128→high-64 multiply assembled from two 64×64→128 products and a carry. -/
theorem limbs (v rl rh : Nat) (hrl : rl < 2 ^ 64) :
    (v * (rh * 2 ^ 64 + rl)) / 2 ^ 128
      = (v * rh) / 2 ^ 64 + ((v * rh) % 2 ^ 64 + (v * rl) / 2 ^ 64) / 2 ^ 64 := by
  have _ := hrl
  have e1 : v * (rh * 2 ^ 64 + rl) = (v * rh) * 2 ^ 64 + v * rl := by
    rw [Nat.mul_add, Nat.mul_assoc]
  have e2 : (2:Nat) ^ 128 = 2 ^ 64 * 2 ^ 64 := by rw [← Nat.pow_add]
  rw [e1, e2, ← Nat.div_div_eq_div_mul]
  have hpos : 0 < (2:Nat) ^ 64 := Nat.two_pow_pos 64
  rw [Nat.mul_comm (v * rh) (2 ^ 64), Nat.mul_add_div hpos]
  generalize v * rh = hp
  generalize v * rl / 2 ^ 64 = c
  have := Nat.div_add_mod hp (2 ^ 64)
  omega

end DfModel.Proofs.C11
