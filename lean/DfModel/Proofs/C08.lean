/-
  C08 — generic theory of the sort / merge / top-k models, over any `le` that is total and
  transitive on the elements satisfying a well-formedness predicate `P` (for rows: "has the
  schema's arity").  Core Lean only.
-/
import DfModel.Mech.SortMerge
namespace DfModel.Proofs.C08
open DfModel.Mech.SortMerge
variable {α : Type}

structure TotalPreorderOn (le : α → α → Bool) (P : α → Prop) : Prop where
  total : ∀ a b, le a b = true ∨ le b a = true
  trans : ∀ a b c, P a → P b → P c → le a b = true → le b c = true → le a c = true

abbrev Sorted (le : α → α → Bool) (l : List α) : Prop := l.Pairwise (fun a b => le a b = true)
abbrev AllP (P : α → Prop) (l : List α) : Prop := ∀ x ∈ l, P x

variable {le : α → α → Bool} {P : α → Prop}

theorem TotalPreorderOn.refl (h : TotalPreorderOn le P) (a : α) : le a a = true := by
  cases h.total a a <;> assumption

theorem TotalPreorderOn.of_not (h : TotalPreorderOn le P) {a b : α} (hn : ¬ le a b = true) :
    le b a = true := by
  cases h.total a b with
  | inl h' => exact absurd h' hn
  | inr h' => exact h'

/-! ### insertion sort -/

theorem insertS_perm (a : α) (l : List α) : (insertS le a l).Perm (a :: l) := by
  induction l with
  | nil => exact List.Perm.refl _
  | cons b l ih =>
    simp only [insertS]
    split
    · exact List.Perm.refl _
    · exact (List.Perm.cons b ih).trans (List.Perm.swap a b l)

theorem insertS_sorted (h : TotalPreorderOn le P) (a : α) (l : List α) (hs : Sorted le l)
    (hp : AllP P (a :: l)) : Sorted le (insertS le a l) := by
  induction l with
  | nil => simp [insertS]
  | cons b l ih =>
    have hPa : P a := hp a (by simp)
    have hPb : P b := hp b (by simp)
    have hs' := List.pairwise_cons.mp hs
    simp only [insertS]
    split
    · rename_i hab
      refine List.pairwise_cons.mpr ⟨?_, hs⟩
      intro x hx
      rcases List.mem_cons.mp hx with rfl | hx
      · exact hab
      · exact h.trans a b x hPa hPb (hp x (by simp [hx])) hab (hs'.1 x hx)
    · rename_i hab
      refine List.pairwise_cons.mpr ⟨?_, ih hs'.2 ?_⟩
      · intro x hx
        rcases List.mem_cons.mp ((insertS_perm a l).subset hx) with rfl | hx
        · exact h.of_not hab
        · exact hs'.1 x hx
      · intro x hx
        rcases List.mem_cons.mp hx with rfl | hx
        · exact hPa
        · exact hp x (by simp [hx])

theorem isort_perm (l : List α) : (isort le l).Perm l := by
  induction l with
  | nil => exact List.Perm.refl _
  | cons a l ih => exact (insertS_perm a _).trans (List.Perm.cons a ih)

theorem isort_sorted (h : TotalPreorderOn le P) (l : List α) (hp : AllP P l) :
    Sorted le (isort le l) := by
  induction l with
  | nil => simp [isort]
  | cons a l ih =>
    simp only [isort]
    refine insertS_sorted h a _ (ih (fun x hx => hp x (by simp [hx]))) ?_
    intro x hx
    rcases List.mem_cons.mp hx with rfl | hx
    · exact hp _ (by simp)
    · exact hp x (by simp [(isort_perm l).subset hx])

/-! ### two-way merge -/

theorem merge2_perm (xs ys : List α) : (merge2 le xs ys).Perm (xs ++ ys) := by
  fun_induction merge2 le xs ys with
  | case1 ys => simp
  | case2 xs _ => simp
  | case3 a as b bs hab ih =>
    exact List.Perm.cons a ih
  | case4 a as b bs hab ih =>
    refine (List.Perm.cons b ih).trans ?_
    simpa using (List.perm_middle (a := b) (l₁ := a :: as) (l₂ := bs)).symm

theorem merge2_sorted (h : TotalPreorderOn le P) (xs ys : List α) (hx : Sorted le xs)
    (hy : Sorted le ys) (hpx : AllP P xs) (hpy : AllP P ys) : Sorted le (merge2 le xs ys) := by
  fun_induction merge2 le xs ys with
  | case1 ys => exact hy
  | case2 xs _ => exact hx
  | case3 a as b bs hab ih =>
    have hx' := List.pairwise_cons.mp hx
    have hy' := List.pairwise_cons.mp hy
    refine List.pairwise_cons.mpr ⟨?_, ih hx'.2 hy (fun x hx => hpx x (by simp [hx])) hpy⟩
    intro x hxm
    rcases List.mem_append.mp ((merge2_perm as (b :: bs)).subset hxm) with hxa | hxb
    · exact hx'.1 x hxa
    · rcases List.mem_cons.mp hxb with rfl | hxb
      · exact hab
      · exact h.trans a b x (hpx a (by simp)) (hpy b (by simp)) (hpy x (by simp [hxb])) hab (hy'.1 x hxb)
  | case4 a as b bs hab ih =>
    have hx' := List.pairwise_cons.mp hx
    have hy' := List.pairwise_cons.mp hy
    have hba : le b a = true := h.of_not hab
    refine List.pairwise_cons.mpr ⟨?_, ih hx hy'.2 hpx (fun x hx => hpy x (by simp [hx]))⟩
    intro x hxm
    rcases List.mem_append.mp ((merge2_perm (a :: as) bs).subset hxm) with hxa | hxb
    · rcases List.mem_cons.mp hxa with rfl | hxa
      · exact hba
      · exact h.trans b a x (hpy b (by simp)) (hpx a (by simp)) (hpx x (by simp [hxa])) hba (hx'.1 x hxa)
    · exact hy'.1 x hxb

/-! ### k-way merge -/

abbrev AllSorted (le : α → α → Bool) (ss : List (List α)) : Prop := ∀ s ∈ ss, Sorted le s
abbrev AllPP (P : α → Prop) (ss : List (List α)) : Prop := ∀ s ∈ ss, ∀ x ∈ s, P x

theorem mem_heads {ss : List (List α)} {b : α} :
    b ∈ heads ss ↔ ∃ t, (b :: t) ∈ ss := by
  simp only [heads, List.mem_filterMap]
  constructor
  · rintro ⟨s, hs, hb⟩
    cases s with
    | nil => simp at hb
    | cons x t => simp at hb; subst hb; exact ⟨t, hs⟩
  · rintro ⟨t, ht⟩
    exact ⟨b :: t, ht, rfl⟩

theorem totalLen_cons (s : List α) (ss : List (List α)) : totalLen (s :: ss) = s.length + totalLen ss := by
  simp [totalLen]

/-- what advancing cursor `i` does -/
theorem popAt_spec {ss : List (List α)} {i : Nat} {a : α} {ss' : List (List α)}
    (h : popAt ss i = some (a, ss')) :
    (ss.flatten).Perm (a :: ss'.flatten) ∧ totalLen ss = totalLen ss' + 1 ∧ a ∈ heads ss ∧
    (∀ s' ∈ ss', s' ∈ ss ∨ (a :: s') ∈ ss) := by
  induction ss generalizing i ss' with
  | nil => simp [popAt] at h
  | cons s ss ih =>
    cases i with
    | zero =>
      cases s with
      | nil => simp [popAt] at h
      | cons x t =>
        simp only [popAt, Option.some.injEq, Prod.mk.injEq] at h
        obtain ⟨rfl, rfl⟩ := h
        refine ⟨by simp, by simp [totalLen_cons]; omega, mem_heads.mpr ⟨t, by simp⟩, ?_⟩
        intro s' hs'
        rcases List.mem_cons.mp hs' with rfl | hs'
        · right; simp
        · left; simp [hs']
    | succ i =>
      simp only [popAt, Option.map_eq_some_iff] at h
      obtain ⟨⟨a', ss''⟩, hp, heq⟩ := h
      simp only [Prod.mk.injEq] at heq
      obtain ⟨rfl, rfl⟩ := heq
      obtain ⟨h1, h2, h3, h4⟩ := ih hp
      refine ⟨?_, by simp [totalLen_cons, h2]; omega, ?_, ?_⟩
      · simp only [List.flatten_cons]
        exact (List.Perm.append_left s h1).trans (List.perm_middle)
      · obtain ⟨t, ht⟩ := mem_heads.mp h3
        exact mem_heads.mpr ⟨t, by simp [ht]⟩
      · intro s' hs'
        rcases List.mem_cons.mp hs' with rfl | hs'
        · left; simp
        · rcases h4 s' hs' with h | h
          · left; simp [h]
          · right; simp [h]

theorem popAt_sorted {ss : List (List α)} {i : Nat} {a : α} {ss' : List (List α)}
    (h : popAt ss i = some (a, ss')) (hs : AllSorted le ss) : AllSorted le ss' := by
  intro s' hs'
  rcases (popAt_spec h).2.2.2 s' hs' with h' | h'
  · exact hs s' h'
  · exact (List.pairwise_cons.mp (hs _ h')).2

theorem popAt_allP {ss : List (List α)} {i : Nat} {a : α} {ss' : List (List α)}
    (h : popAt ss i = some (a, ss')) (hp : AllPP P ss) : AllPP P ss' := by
  intro s' hs' x hx
  rcases (popAt_spec h).2.2.2 s' hs' with h' | h'
  · exact hp s' h' x hx
  · exact hp _ h' x (by simp [hx])

theorem heads_P {ss : List (List α)} (hp : AllPP P ss) : AllP P (heads ss) := by
  intro b hb
  obtain ⟨t, ht⟩ := mem_heads.mp hb
  exact hp _ ht b (by simp)

theorem heads_cons_nil (ss : List (List α)) : heads ([] :: ss) = heads ss := rfl
theorem heads_cons_cons (a : α) (t : List α) (ss : List (List α)) :
    heads ((a :: t) :: ss) = a :: heads ss := rfl

theorem minIdx_none {ss : List (List α)} (hm : minIdx le ss = none) : ss.flatten = [] := by
  induction ss with
  | nil => rfl
  | cons s ss ih =>
    cases s with
    | nil =>
      simp only [minIdx, Option.map_eq_none_iff] at hm
      simp [ih hm]
    | cons x t =>
      simp only [minIdx] at hm
      cases hr : minIdx le ss with
      | none => rw [hr] at hm; simp at hm
      | some p => rw [hr] at hm; simp only at hm; split at hm <;> simp at hm

theorem minIdx_none_heads {ss : List (List α)} (hm : minIdx le ss = none) : heads ss = [] := by
  have := minIdx_none hm
  cases hh : heads ss with
  | nil => rfl
  | cons b l =>
    have hb : b ∈ heads ss := by simp [hh]
    obtain ⟨t, ht⟩ := mem_heads.mp hb
    have hbf : b ∈ ss.flatten := List.mem_flatten.mpr ⟨_, ht, by simp⟩
    rw [this] at hbf
    simp at hbf

/-- the lowest-index rule picks a poppable stream whose head is ≤ every head -/
theorem minIdx_spec (h : TotalPreorderOn le P) {ss : List (List α)} (hp : AllP P (heads ss))
    {i : Nat} {a : α} (hm : minIdx le ss = some (i, a)) :
    (∃ ss', popAt ss i = some (a, ss')) ∧ ∀ b ∈ heads ss, le a b = true := by
  induction ss generalizing i a with
  | nil => simp [minIdx] at hm
  | cons s ss ih =>
    cases s with
    | nil =>
      simp only [minIdx, Option.map_eq_some_iff] at hm
      obtain ⟨⟨j, b⟩, hj, heq⟩ := hm
      simp only [Prod.mk.injEq] at heq
      obtain ⟨rfl, rfl⟩ := heq
      rw [heads_cons_nil] at hp ⊢
      obtain ⟨⟨ss', hpop⟩, hle⟩ := ih hp hj
      exact ⟨⟨[] :: ss', by simp [popAt, hpop]⟩, hle⟩
    | cons x t =>
      rw [heads_cons_cons] at hp ⊢
      have hpx : P x := hp x (by simp)
      have hp' : AllP P (heads ss) := fun y hy => hp y (by simp [hy])
      simp only [minIdx] at hm
      cases hr : minIdx le ss with
      | none =>
        rw [hr] at hm
        simp only [Option.some.injEq, Prod.mk.injEq] at hm
        obtain ⟨rfl, rfl⟩ := hm
        refine ⟨⟨t :: ss, by simp [popAt]⟩, ?_⟩
        intro b hb
        rcases List.mem_cons.mp hb with rfl | hb
        · exact h.refl _
        · rw [minIdx_none_heads hr] at hb; simp at hb
      | some p =>
        obtain ⟨j, b⟩ := p
        rw [hr] at hm
        simp only at hm
        obtain ⟨⟨ss', hpop⟩, hle⟩ := ih hp' hr
        have hbP : P b := by
          have := (popAt_spec hpop).2.2.1
          exact hp' b this
        split at hm
        · rename_i hxb
          simp only [Option.some.injEq, Prod.mk.injEq] at hm
          obtain ⟨rfl, rfl⟩ := hm
          refine ⟨⟨t :: ss, by simp [popAt]⟩, ?_⟩
          intro c hc
          rcases List.mem_cons.mp hc with rfl | hc
          · exact h.refl _
          · exact h.trans _ b c hpx hbP (hp' c hc) hxb (hle c hc)
        · rename_i hxb
          simp only [Option.some.injEq, Prod.mk.injEq] at hm
          obtain ⟨rfl, rfl⟩ := hm
          refine ⟨⟨(x :: t) :: ss', by simp [popAt, hpop]⟩, ?_⟩
          intro c hc
          rcases List.mem_cons.mp hc with rfl | hc
          · exact h.of_not hxb
          · exact hle c hc

theorem choose_spec (h : TotalPreorderOn le P) {ss : List (List α)} (hp : AllPP P ss)
    {prop : Option Nat} {i : Nat} (hc : choose le prop ss = some i) :
    ∃ a ss', popAt ss i = some (a, ss') ∧ ∀ b ∈ heads ss, le a b = true := by
  have dflt : (minIdx le ss).map (·.1) = some i →
      ∃ a ss', popAt ss i = some (a, ss') ∧ ∀ b ∈ heads ss, le a b = true := by
    intro hm
    simp only [Option.map_eq_some_iff] at hm
    obtain ⟨⟨j, a⟩, hj, rfl⟩ := hm
    obtain ⟨⟨ss', hpop⟩, hle⟩ := minIdx_spec h (heads_P hp) hj
    exact ⟨a, ss', hpop, hle⟩
  cases prop with
  | none => exact dflt hc
  | some j =>
    simp only [choose] at hc
    split at hc
    · rename_i hmin
      simp only [Option.some.injEq] at hc
      subst hc
      simp only [isMinAt] at hmin
      split at hmin
      · rename_i a ss' hpop
        exact ⟨a, ss', hpop, by simpa [List.all_eq_true] using hmin⟩
      · simp at hmin
    · exact dflt hc

theorem choose_none {ss : List (List α)} {prop : Option Nat} (hc : choose le prop ss = none) :
    ss.flatten = [] := by
  cases prop with
  | none =>
    simp only [choose, Option.map_eq_none_iff] at hc
    exact minIdx_none hc
  | some j =>
    simp only [choose] at hc
    split at hc
    · simp at hc
    · simp only [Option.map_eq_none_iff] at hc
      exact minIdx_none hc

theorem totalLen_eq_flatten (ss : List (List α)) : totalLen ss = ss.flatten.length := by
  induction ss with
  | nil => rfl
  | cons s ss ih => simp [totalLen_cons, ih]

/-- **k-way merge**: for every tie oracle, from sorted streams the output is sorted and is a
    permutation of all the rows of all streams. -/
theorem kMergeFuel_spec (h : TotalPreorderOn le P) (pol : Nat → Option Nat) (n : Nat)
    (ss : List (List α)) (hn : totalLen ss ≤ n) (hs : AllSorted le ss) (hp : AllPP P ss) :
    Sorted le (kMergeFuel le pol n ss) ∧ (kMergeFuel le pol n ss).Perm ss.flatten := by
  induction n generalizing ss with
  | zero =>
    have : ss.flatten = [] := by
      have := totalLen_eq_flatten ss
      exact List.eq_nil_of_length_eq_zero (by omega)
    simp [kMergeFuel, this]
  | succ n ih =>
    simp only [kMergeFuel]
    cases hc : choose le (pol n) ss with
    | none => simp [choose_none hc]
    | some i =>
      obtain ⟨a, ss', hpop, hle⟩ := choose_spec h hp hc
      simp only [hpop]
      obtain ⟨hperm, hlen, hhead, _⟩ := popAt_spec hpop
      obtain ⟨ihs, ihp⟩ := ih ss' (by omega) (popAt_sorted hpop hs) (popAt_allP hpop hp)
      have haP : P a := heads_P hp a hhead
      refine ⟨List.pairwise_cons.mpr ⟨?_, ihs⟩, (List.Perm.cons a ihp).trans hperm.symm⟩
      intro x hx
      -- x is in some stream of ss; that stream's head is ≥ a and ≤ x
      have hx' : x ∈ ss.flatten := hperm.symm.subset (by simp [ihp.subset hx])
      obtain ⟨s, hs_mem, hxs⟩ := List.mem_flatten.mp hx'
      cases s with
      | nil => simp at hxs
      | cons b t =>
        have hab := hle b (mem_heads.mpr ⟨t, hs_mem⟩)
        rcases List.mem_cons.mp hxs with rfl | hxt
        · exact hab
        · exact h.trans a b x haP (hp _ hs_mem b (by simp)) (hp _ hs_mem x hxs) hab
            ((List.pairwise_cons.mp (hs _ hs_mem)).1 x hxt)

theorem kMergeBy_spec (h : TotalPreorderOn le P) (pol : Nat → Option Nat) (ss : List (List α))
    (hs : AllSorted le ss) (hp : AllPP P ss) :
    Sorted le (kMergeBy le pol ss) ∧ (kMergeBy le pol ss).Perm ss.flatten :=
  kMergeFuel_spec h pol _ ss (Nat.le_refl _) hs hp

end DfModel.Proofs.C08
