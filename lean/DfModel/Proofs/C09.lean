/-
  C09 — frame mechanisms equal the declarative frames; sliding evaluation equals recomputation.
  Core Lean only.
-/
import DfModel.Mech.WindowFrame
import DfModel.Proofs.C07
namespace DfModel.Proofs.C09
open DfModel.RowOrd DfModel.Mech.AggAcc DfModel.Mech.WindowFrame

/-! ### ROWS -/

theorem rows_frame (s e : Bound) (len i lo hi : Nat) (hi_lt : i < len)
    (hs : rowsStart s len i = some lo) (he : rowsEnd e len i = some hi) (j : Nat) :
    (lo ≤ j ∧ j < hi) ↔ (j < len ∧ rowsLowerOk s i j ∧ rowsUpperOk e i j) := by
  cases s <;> cases e <;> simp only [rowsStart, rowsEnd, Option.some.injEq, reduceCtorEq] at hs he <;>
    subst_vars <;> simp only [rowsLowerOk, rowsUpperOk, Nat.min_def, true_and, and_true]
  all_goals (first | omega | (split <;> omega) | (split <;> split <;> omega))

/-! ### linear search from a memoised start -/

theorem takeWhile_length_le {α : Type} (p : α → Bool) (l : List α) : (l.takeWhile p).length ≤ l.length := by
  induction l with
  | nil => simp
  | cons a l ih => simp only [List.takeWhile_cons]; split <;> simp <;> omega

/-- characterisation of `takeWhile` by index -/
theorem takeWhile_spec {α : Type} [Inhabited α] (p : α → Bool) (l : List α)
    (hmono : ∀ j, j + 1 < l.length → p (l[j + 1]!) = true → p (l[j]!) = true) (j : Nat) (hj : j < l.length) :
    j < (l.takeWhile p).length ↔ p (l[j]!) = true := by
  induction l generalizing j with
  | nil => simp at hj
  | cons a l ih =>
    have hmono' : ∀ j, j + 1 < l.length → p (l[j + 1]!) = true → p (l[j]!) = true := by
      intro j hj' h
      have := hmono (j + 1) (by simp; omega)
      simpa using this (by simpa using h)
    simp only [List.takeWhile_cons]
    cases j with
    | zero =>
      by_cases ha : p a = true <;> simp [ha]
    | succ j =>
      have hjl : j < l.length := by simpa using hj
      by_cases ha : p a = true
      · simp only [ha, if_true, List.length_cons, Nat.add_lt_add_iff_right]
        rw [ih hmono' j hjl]; simp
      · simp only [ha, Bool.false_eq_true, if_false, List.length_nil, Nat.not_lt_zero, false_iff]
        -- p fails at 0, so by monotonicity it fails everywhere
        intro hp
        have : ∀ m, m < (a :: l).length → p ((a :: l)[m]!) = true → p a = true := by
          intro m
          induction m with
          | zero => intro _ h; simpa using h
          | succ m ihm =>
            intro hm h
            exact ihm (by omega) (hmono m hm h)
        exact ha (this (j + 1) hj (by simpa using hp))

/-- **memoised linear search**: if the predicate is downward closed along the (sorted) column and holds
    everywhere before the start position, the scan returns exactly the boundary -/
theorem searchFrom_spec {α : Type} [Inhabited α] (p : α → Bool) (xs : List α) (s : Nat) (hs : s ≤ xs.length)
    (hbefore : ∀ j, j < s → p (xs[j]!) = true)
    (hmono : ∀ j, j + 1 < xs.length → p (xs[j + 1]!) = true → p (xs[j]!) = true)
    (j : Nat) (hj : j < xs.length) :
    j < searchFrom p xs s ↔ p (xs[j]!) = true := by
  simp only [searchFrom]
  by_cases hjs : j < s
  · simp only [hbefore j hjs, iff_true]; exact Nat.lt_of_lt_of_le hjs (Nat.le_add_right _ _)
  · have hd : (xs.drop s).length = xs.length - s := by simp
    have hmono' : ∀ m, m + 1 < (xs.drop s).length → p ((xs.drop s)[m + 1]!) = true → p ((xs.drop s)[m]!) = true := by
      intro m hm h
      have h1 : (xs.drop s)[m + 1]! = xs[s + (m + 1)]! := by
        simp [List.getElem!_eq_getElem?_getD, List.getElem?_drop]
      have h2 : (xs.drop s)[m]! = xs[s + m]! := by
        simp [List.getElem!_eq_getElem?_getD, List.getElem?_drop]
      rw [h2]; rw [h1] at h
      exact hmono (s + m) (by omega) (by simpa [Nat.add_assoc] using h)
    have := takeWhile_spec p (xs.drop s) hmono' (j - s) (by omega)
    have h3 : (xs.drop s)[j - s]! = xs[j]! := by
      simp [List.getElem!_eq_getElem?_getD, List.getElem?_drop]
      congr 2; omega
    rw [h3] at this
    rw [← this]; omega

/-! ### sliding aggregation -/

variable {σ ρ : Type}

theorem slice_append {α : Type} (xs : List α) (a b c : Nat) (h1 : a ≤ b) (h2 : b ≤ c) :
    slice xs a b ++ slice xs b c = slice xs a c := by
  simp only [slice]
  have : xs.drop b = (xs.drop a).drop (b - a) := by rw [List.drop_drop]; congr 1; omega
  rw [this]
  have h3 : c - a = (b - a) + (c - b) := by omega
  rw [h3, List.take_add]

theorem slice_self {α : Type} (xs : List α) (a : Nat) : slice xs a a = [] := by simp [slice]

/-- **sliding = recompute**: if the accumulator's retraction restores the state of the remaining rows
    (C07 `retract_prefix`), then after moving from frame `last` to a later frame `cur` the state is the
    state of accumulating exactly the rows of `cur` from scratch -/
theorem slideStep_eq_recompute (a : Acc σ ρ) (retract : σ → NV → σ) (vals : List NV)
    (hretract : ∀ xs ys : List NV, xs.foldl retract (a.update a.init (xs ++ ys)) = a.update a.init ys)
    (last cur : Nat × Nat) (hl : last.1 ≤ last.2) (hc : cur.1 ≤ cur.2)
    (h1 : last.1 ≤ cur.1) (h2 : last.2 ≤ cur.2) (st : σ)
    (hst : st = a.update a.init (slice vals last.1 last.2)) :
    slideStep a retract vals st last cur = a.update a.init (slice vals cur.1 cur.2) := by
  simp only [slideStep]
  split
  · rename_i heq
    rw [hst, heq, slice_self]
    have := hretract (slice vals last.1 last.2) []
    simpa using this
  · rw [hst, DfModel.Proofs.C07.update_append]
    rw [slice_append vals last.1 last.2 cur.2 hl h2]
    have hsplit : slice vals last.1 cur.2 = slice vals last.1 cur.1 ++ slice vals cur.1 cur.2 :=
      (slice_append vals last.1 cur.1 cur.2 h1 hc).symm
    rw [hsplit]
    exact hretract _ _

end DfModel.Proofs.C09
