/-
  C15 helper lemmas, part 3: trace-level facts (FIFO, receiver-drop, progress measure).
  Core Lean only.
-/
import DfModel.Proofs.C15b
namespace DfModel.Proofs.C15
open DfModel.Sm.Chan

theorem sentOf_send (c c' t v : Nat) (o : Out) :
    sentOf c (.send c' t v, o) = if o.res = .sendOk ∧ c' = c then [v] else [] := by
  obtain ⟨res, w⟩ := o
  cases res <;> simp [sentOf]

theorem rcvdOf_recv (c c' t : Nat) (o : Out) :
    rcvdOf c (.recv c' t, o) =
      match o.res with
      | .recvSome v => if c' = c then [v] else []
      | _ => [] := by
  obtain ⟨res, w⟩ := o
  cases res <;> simp [rcvdOf]

theorem sentOf_not_send (c : Nat) (op : Op) (o : Out) (h : ∀ c' t v, op ≠ .send c' t v) :
    sentOf c (op, o) = [] := by
  cases op with
  | send c' t v => exact absurd rfl (h c' t v)
  | _ => simp [sentOf]

theorem rcvdOf_not_recv (c : Nat) (op : Op) (o : Out) (h : ∀ c' t, op ≠ .recv c' t) :
    rcvdOf c (op, o) = [] := by
  cases op with
  | recv c' t => exact absurd rfl (h c' t)
  | _ => simp [rcvdOf]

/-- the per-step queue equation: what was delivered plus what is left = what was there plus what
    was accepted; a dropped receiver stays dropped and neither accepts nor delivers -/
def FifoRel (d d' : Option (List Nat)) (r sn : List Nat) : Prop :=
  match d, d' with
  | some q, some q' => r ++ q' = q ++ sn
  | some _, none => r = [] ∧ sn = []
  | none, some _ => False
  | none, none => r = [] ∧ sn = []

theorem fifo_step {s : St} (h : InvC s) (op : Op) (c : Nat) :
    FifoRel (dataOf s c) (dataOf (step s op).1 c)
      (rcvdOf c (op, (step s op).2)) (sentOf c (op, (step s op).2)) := by
  have same : ∀ (op : Op), dataOf (step s op).1 c = dataOf s c →
      rcvdOf c (op, (step s op).2) = [] → sentOf c (op, (step s op).2) = [] →
      FifoRel (dataOf s c) (dataOf (step s op).1 c)
        (rcvdOf c (op, (step s op).2)) (sentOf c (op, (step s op).2)) := by
    intro op h1 h2 h3
    rw [h1, h2, h3]
    unfold FifoRel
    cases dataOf s c <;> simp
  cases op with
  | send c' t v =>
    have hr : rcvdOf c (.send c' t v, (step s (.send c' t v)).2) = [] :=
      rcvdOf_not_recv _ _ _ (by intro _ _ h; cases h)
    by_cases hv : c' < s.n ∧ 0 < (s.chan c').nSenders
    · obtain ⟨h1, h2⟩ := step_send_spec h c' t v hv
      by_cases hcc : c = c'
      · subst hcc
        rw [hr, sentOf_send]
        cases hd : dataOf s c with
        | none =>
          rw [hd] at h2
          simp only at h2
          rw [h2.2, h2.1]
          simp [FifoRel]
        | some q =>
          rw [hd] at h2
          simp only at h2
          by_cases he : s.empty = 0
          · simp only [he, if_true] at h2
            rw [h2.2, h2.1]
            simp [FifoRel]
          · simp only [he, if_false] at h2
            rw [h2.2, h2.1]
            simp [FifoRel]
      · apply same _ (h1 c hcc) hr
        rw [sentOf_send]
        have : ¬ c' = c := fun e => hcc e.symm
        simp [this]
    · have hi : (step s (.send c' t v)) = (s, ⟨.invalid, []⟩) := by simp [step, hv]
      apply same _ (by rw [hi]) hr
      rw [sentOf_send, hi]; simp
  | recv c' t =>
    have hsn : sentOf c (.recv c' t, (step s (.recv c' t)).2) = [] :=
      sentOf_not_send _ _ _ (by intro _ _ _ h; cases h)
    by_cases hc' : c' < s.n
    · cases hd : (s.chan c').data with
      | none =>
        have hi : (step s (.recv c' t)) = (s, ⟨.invalid, []⟩) := by simp [step, hd]
        apply same _ (by rw [hi]) _ hsn
        rw [rcvdOf_recv, hi]
      | some q =>
        obtain ⟨h1, h2⟩ := step_recv_spec h c' t q hc' hd
        by_cases hcc : c = c'
        · subst hcc
          rw [hsn, rcvdOf_recv]
          have hd' : dataOf s c = some q := hd
          cases q with
          | nil =>
            simp only at h2
            rw [hd', h2.1]
            have : (step s (.recv c t)).2.res = .recvNone ∨ (step s (.recv c t)).2.res = .recvPending := by
              have := h2.2; split at this
              · exact Or.inl this
              · exact Or.inr this
            rcases this with e | e <;> rw [e] <;> simp [FifoRel]
          | cons v q =>
            simp only at h2
            rw [hd', h2.2, h2.1]
            simp [FifoRel]
        · apply same _ (h1 c hcc) _ hsn
          rw [rcvdOf_recv]
          have : ¬ c' = c := fun e => hcc e.symm
          split <;> simp [this]
    · have hi : (step s (.recv c' t)) = (s, ⟨.invalid, []⟩) := by simp [step, hc']
      apply same _ (by rw [hi]) _ hsn
      rw [rcvdOf_recv, hi]
  | clone c' =>
    exact same _ ((step_clone_spec s c').1 c) (rcvdOf_not_recv _ _ _ (by intro _ _ h; cases h))
      (sentOf_not_send _ _ _ (by intro _ _ _ h; cases h))
  | dropTx c' =>
    exact same _ ((step_dropTx_spec h c').1 c) (rcvdOf_not_recv _ _ _ (by intro _ _ h; cases h))
      (sentOf_not_send _ _ _ (by intro _ _ _ h; cases h))
  | cancel t =>
    exact same _ rfl (rcvdOf_not_recv _ _ _ (by intro _ _ h; cases h))
      (sentOf_not_send _ _ _ (by intro _ _ _ h; cases h))
  | dropRx c' =>
    have hr : rcvdOf c (.dropRx c', (step s (.dropRx c')).2) = [] :=
      rcvdOf_not_recv _ _ _ (by intro _ _ h; cases h)
    have hsn : sentOf c (.dropRx c', (step s (.dropRx c')).2) = [] :=
      sentOf_not_send _ _ _ (by intro _ _ _ h; cases h)
    obtain ⟨h1, h2⟩ := step_dropRx_spec h c'
    by_cases hcc : c = c'
    · subst hcc
      split at h2
      · rw [hr, hsn, h2.2]
        unfold FifoRel
        cases dataOf s c <;> simp
      · exact same _ (by rw [h2.2]) hr hsn
    · exact same _ (h1 c hcc) hr hsn

theorem run_cons (s : St) (op : Op) (ops : List Op) :
    run s (op :: ops) = ((run (step s op).1 ops).1, (op, (step s op).2) :: (run (step s op).1 ops).2) :=
  rfl

theorem sent_cons (c : Nat) (p : Op × Out) (tr : List (Op × Out)) :
    sent c (p :: tr) = sentOf c p ++ sent c tr := by simp [sent]
theorem rcvd_cons (c : Nat) (p : Op × Out) (tr : List (Op × Out)) :
    rcvd c (p :: tr) = rcvdOf c p ++ rcvd c tr := by simp [rcvd]

/-- trace-level FIFO / exactly-once relation from any invariant state -/
def FifoRun (d d' : Option (List Nat)) (r sn : List Nat) : Prop :=
  match d, d' with
  | some q, some q' => r ++ q' = q ++ sn
  | some q, none => r <+: q ++ sn
  | none, some _ => False
  | none, none => r = []

theorem fifo_run (s : St) (h : Inv s) (ops : List Op) (c : Nat) :
    FifoRun (dataOf s c) (dataOf (run s ops).1 c) (rcvd c (run s ops).2) (sent c (run s ops).2) := by
  induction ops generalizing s with
  | nil =>
    simp only [run, rcvd, sent, List.flatMap_nil, FifoRun]
    cases dataOf s c <;> simp
  | cons op ops ih =>
    have hstep := fifo_step h.core op c
    have ih' := ih (step s op).1 (inv_step s op h)
    rw [run_cons]
    simp only [sent_cons, rcvd_cons]
    generalize rcvdOf c (op, (step s op).2) = r1 at *
    generalize sentOf c (op, (step s op).2) = s1 at *
    generalize rcvd c (run (step s op).1 ops).2 = R at *
    generalize sent c (run (step s op).1 ops).2 = S at *
    generalize dataOf (run (step s op).1 ops).1 c = d2 at *
    generalize dataOf (step s op).1 c = d1 at *
    generalize dataOf s c = d0 at *
    cases d0 with
    | none =>
      cases d1 with
      | some _ => exact absurd hstep (by simp [FifoRel])
      | none =>
        cases d2 with
        | some _ => exact absurd ih' (by simp [FifoRun])
        | none =>
          simp only [FifoRel] at hstep
          simp only [FifoRun] at ih' ⊢
          rw [hstep.1, ih']; rfl
    | some q =>
      cases d1 with
      | none =>
        cases d2 with
        | some _ => exact absurd ih' (by simp [FifoRun])
        | none =>
          simp only [FifoRel] at hstep
          simp only [FifoRun] at ih' ⊢
          rw [hstep.1, ih']
          exact List.nil_prefix
      | some q1 =>
        simp only [FifoRel] at hstep
        cases d2 with
        | some q2 =>
          simp only [FifoRun] at ih' ⊢
          rw [List.append_assoc, ih', ← List.append_assoc, hstep, List.append_assoc]
        | none =>
          simp only [FifoRun] at ih' ⊢
          rw [← List.append_assoc, ← hstep, List.append_assoc]
          exact (List.prefix_append_right_inj r1).mpr ih'

/-! ### receiver-gone iff dropped -/

def isRxDrop (c : Nat) (p : Op × Out) : Bool :=
  match p with
  | (.dropRx c', ⟨.done, _⟩) => c' == c
  | _ => false

def rxDropped (c : Nat) (tr : List (Op × Out)) : Bool := tr.any (isRxDrop c)

theorem data_none_iff_of_not_dropRx {s : St} (h : InvC s) (op : Op)
    (hop : ∀ c', op ≠ .dropRx c') (c : Nat) :
    dataOf (step s op).1 c = none ↔ dataOf s c = none := by
  cases op with
  | dropRx c' => exact absurd rfl (hop c')
  | clone c' => rw [(step_clone_spec s c').1 c]
  | dropTx c' => rw [(step_dropTx_spec h c').1 c]
  | cancel t => exact Iff.rfl
  | send c' t v =>
    by_cases hv : c' < s.n ∧ 0 < (s.chan c').nSenders
    · obtain ⟨h1, h2⟩ := step_send_spec h c' t v hv
      by_cases hcc : c = c'
      · subst hcc
        cases hd : dataOf s c with
        | none => rw [hd] at h2; simp only at h2; simp [h2.2]
        | some q =>
          rw [hd] at h2
          simp only at h2
          split at h2 <;> simp [h2.2]
      · rw [h1 c hcc]
    · have hi : (step s (.send c' t v)) = (s, ⟨.invalid, []⟩) := by simp [step, hv]
      rw [hi]
  | recv c' t =>
    by_cases hc' : c' < s.n
    · cases hd : (s.chan c').data with
      | none =>
        have hi : (step s (.recv c' t)) = (s, ⟨.invalid, []⟩) := by simp [step, hd]
        rw [hi]
      | some q =>
        obtain ⟨h1, h2⟩ := step_recv_spec h c' t q hc' hd
        by_cases hcc : c = c'
        · subst hcc
          have hd' : dataOf s c = some q := hd
          cases q with
          | nil => simp only at h2; simp [h2.1, hd']
          | cons v q => simp only at h2; simp [h2.2, hd']
        · rw [h1 c hcc]
    · have hi : (step s (.recv c' t)) = (s, ⟨.invalid, []⟩) := by simp [step, hc']
      rw [hi]

theorem isRxDrop_not_dropRx (c : Nat) (op : Op) (o : Out) (hop : ∀ c', op ≠ .dropRx c') :
    isRxDrop c (op, o) = false := by
  cases op with
  | dropRx c' => exact absurd rfl (hop c')
  | _ => simp [isRxDrop]

theorem rx_gone_step {s : St} (h : InvC s) (op : Op) (c : Nat) :
    (dataOf (step s op).1 c = none ↔ (dataOf s c = none ∨ isRxDrop c (op, (step s op).2) = true)) := by
  by_cases hop : ∀ c', op ≠ .dropRx c'
  · rw [data_none_iff_of_not_dropRx h op hop c, isRxDrop_not_dropRx c op _ hop]; simp
  · have : ∃ c', op = .dropRx c' := by
      false_or_by_contra; rename_i hne
      exact hop (fun c' e => hne ⟨c', e⟩)
    obtain ⟨c', rfl⟩ := this
    obtain ⟨h1, h2⟩ := step_dropRx_spec h c'
    by_cases hcc : c = c'
    · subst hcc
      split at h2
      · have : isRxDrop c (.dropRx c, (step s (.dropRx c)).2) = true := by
          generalize (step s (.dropRx c)).2 = o at *
          obtain ⟨res, w⟩ := o
          simp only at h2
          rw [h2.1]; simp [isRxDrop]
        simp [h2.2, this]
      · have hi : isRxDrop c (.dropRx c, (step s (.dropRx c)).2) = false := by
          generalize (step s (.dropRx c)).2 = o at *
          obtain ⟨res, w⟩ := o
          simp only at h2
          rw [h2.1]; simp [isRxDrop]
        rw [h2.2, hi]; simp
    · have hi : isRxDrop c (.dropRx c', (step s (.dropRx c')).2) = false := by
        generalize (step s (.dropRx c')).2 = o
        obtain ⟨res, w⟩ := o
        have : ¬ c' = c := fun e => hcc e.symm
        cases res <;> simp [isRxDrop, this]
      rw [h1 c hcc, hi]; simp

theorem rx_gone_run (s : St) (h : Inv s) (ops : List Op) (c : Nat) :
    dataOf (run s ops).1 c = none ↔ (dataOf s c = none ∨ rxDropped c (run s ops).2 = true) := by
  induction ops generalizing s with
  | nil => simp [run, rxDropped]
  | cons op ops ih =>
    rw [run_cons]
    simp only [rxDropped, List.any_cons, Bool.or_eq_true]
    rw [ih _ (inv_step s op h), rx_gone_step h.core op c]
    simp only [rxDropped]
    constructor
    · rintro ((h1 | h1) | h1)
      · exact Or.inl h1
      · exact Or.inr (Or.inl h1)
      · exact Or.inr (Or.inr h1)
    · rintro (h1 | h1 | h1)
      · exact Or.inl (Or.inl h1)
      · exact Or.inl (Or.inr h1)
      · exact Or.inr h1

end DfModel.Proofs.C15
