/-
  C31 (a): invariant of the dynamic-filter generation/cache state machine under every
  interleaving of writer and reader micro-steps.  Core Lean only.
-/
import DfModel.Sm.DynFilter
namespace DfModel.Proofs.C31
open DfModel.Sm.DynFilter
open List

variable {E : Type}

/-- `r` is the remap of the expression published as generation `g` -/
def IsGen (remap : E → E) (hist : List E) (g : Nat) (r : E) : Prop :=
  ∃ e, exprAt hist g = some e ∧ r = remap e

def PcOk (remap : E → E) (hist : List E) (gen : Nat) : Pc E → Prop
  | .idle => True
  | .gotInner g0 e g => g0 ≤ g ∧ g ≤ gen ∧ exprAt hist g = some e
  | .computed g0 g r => g0 ≤ g ∧ g ≤ gen ∧ IsGen remap hist g r
  | .done g0 r => ∃ g, g0 ≤ g ∧ g ≤ gen ∧ IsGen remap hist g r

structure Inv (remap : E → E) (s : St E) : Prop where
  len : s.hist.length = s.gen
  pos : 1 ≤ s.gen
  cur : exprAt s.hist s.gen = some s.expr
  cache : ∀ cg ce, s.cache = some (cg, ce) → cg ≤ s.gen ∧ IsGen remap s.hist cg ce
  readers : ∀ pc ∈ s.readers, PcOk remap s.hist s.gen pc

theorem exprAt_append (hist : List E) (e : E) (g : Nat) (x : E) (h : exprAt hist g = some x) :
    exprAt (hist ++ [e]) g = some x := by
  unfold exprAt at h ⊢
  split at h
  · cases h
  · rename_i hg
    simp only [hg, ite_false]
    have hlt : g - 1 < hist.length := by
      cases hh : hist[g - 1]? with
      | none => rw [hh] at h; cases h
      | some _ => exact (List.getElem?_eq_some_iff.mp hh).1
    rw [getElem?_append_left hlt]
    exact h

theorem exprAt_last (hist : List E) (e : E) : exprAt (hist ++ [e]) (hist.length + 1) = some e := by
  simp [exprAt]

theorem isGen_append (remap : E → E) (hist : List E) (e : E) (g : Nat) (r : E)
    (h : IsGen remap hist g r) : IsGen remap (hist ++ [e]) g r := by
  obtain ⟨x, hx, hr⟩ := h
  exact ⟨x, exprAt_append hist e g x hx, hr⟩

theorem pcOk_update (remap : E → E) (hist : List E) (gen : Nat) (e : E) (pc : Pc E)
    (h : PcOk remap hist gen pc) : PcOk remap (hist ++ [e]) (gen + 1) pc := by
  cases pc with
  | idle => trivial
  | gotInner g0 x g => exact ⟨h.1, Nat.le_succ_of_le h.2.1, exprAt_append hist e g x h.2.2⟩
  | computed g0 g r => exact ⟨h.1, Nat.le_succ_of_le h.2.1, isGen_append remap hist e g r h.2.2⟩
  | done g0 r =>
    obtain ⟨g, h1, h2, h3⟩ := h
    exact ⟨g, h1, Nat.le_succ_of_le h2, isGen_append remap hist e g r h3⟩

theorem inv_init (remap : E → E) (e0 : E) (n : Nat) : Inv remap (init e0 n) where
  len := rfl
  pos := Nat.le_refl 1
  cur := by simp [init, exprAt]
  cache := by intro cg ce h; simp [init] at h
  readers := by
    intro pc hpc
    simp only [init, mem_replicate] at hpc
    rw [hpc.2]; trivial

/-- one micro-step of a reader keeps its own obligations and the cache obligations -/
theorem readerStep_ok (remap : E → E) (s : St E) (hs : Inv remap s) (pc : Pc E)
    (hpc : PcOk remap s.hist s.gen pc) :
    PcOk remap s.hist s.gen (readerStep remap s pc).1 ∧
    (∀ cg ce, (readerStep remap s pc).2 = some (cg, ce) → cg ≤ s.gen ∧ IsGen remap s.hist cg ce) := by
  cases pc with
  | idle =>
    exact ⟨⟨Nat.le_refl _, Nat.le_refl _, hs.cur⟩, hs.cache⟩
  | gotInner g0 e g =>
    simp only [readerStep]
    cases hc : s.cache with
    | none =>
      refine ⟨⟨hpc.1, hpc.2.1, e, hpc.2.2, rfl⟩, ?_⟩
      intro cg ce h; cases h
    | some c =>
      obtain ⟨cg, ce⟩ := c
      have hcache := hs.cache cg ce hc
      by_cases hg : cg = g
      · subst hg
        simp only [ite_true]
        refine ⟨⟨cg, hpc.1, hpc.2.1, hcache.2⟩, ?_⟩
        intro cg' ce' h
        exact hs.cache cg' ce' (hc ▸ h)
      · simp only [hg, ite_false]
        refine ⟨⟨hpc.1, hpc.2.1, e, hpc.2.2, rfl⟩, ?_⟩
        intro cg' ce' h
        exact hs.cache cg' ce' (hc ▸ h)
  | computed g0 g r =>
    simp only [readerStep]
    cases hc : s.cache with
    | none =>
      refine ⟨⟨g, hpc.1, hpc.2.1, hpc.2.2⟩, ?_⟩
      intro cg ce h
      simp only [Option.some.injEq, Prod.mk.injEq] at h
      exact ⟨h.1 ▸ hpc.2.1, h.1 ▸ h.2 ▸ hpc.2.2⟩
    | some c =>
      obtain ⟨cg, ce⟩ := c
      by_cases hg : g > cg
      · simp only [hg, ite_true]
        refine ⟨⟨g, hpc.1, hpc.2.1, hpc.2.2⟩, ?_⟩
        intro cg' ce' h
        simp only [Option.some.injEq, Prod.mk.injEq] at h
        exact ⟨h.1 ▸ hpc.2.1, h.1 ▸ h.2 ▸ hpc.2.2⟩
      · simp only [hg, ite_false]
        refine ⟨⟨g, hpc.1, hpc.2.1, hpc.2.2⟩, ?_⟩
        intro cg' ce' h
        exact hs.cache cg' ce' (hc ▸ h)
  | done g0 r =>
    exact ⟨⟨Nat.le_refl _, Nat.le_refl _, hs.cur⟩, hs.cache⟩

theorem inv_step (remap : E → E) (s : St E) (op : Op E) (hs : Inv remap s) :
    Inv remap (step remap s op) := by
  cases op with
  | update e =>
    refine ⟨?_, ?_, ?_, ?_, ?_⟩
    · simp [step, hs.len]
    · simp [step]
    · simp only [step]; rw [← hs.len]; exact exprAt_last s.hist e
    · intro cg ce h
      have := hs.cache cg ce h
      exact ⟨Nat.le_succ_of_le this.1, isGen_append remap s.hist e cg ce this.2⟩
    · intro pc hpc
      exact pcOk_update remap s.hist s.gen e pc (hs.readers pc hpc)
  | markComplete => exact ⟨hs.len, hs.pos, hs.cur, hs.cache, hs.readers⟩
  | read i =>
    simp only [step]
    cases hi : s.readers[i]? with
    | none => exact hs
    | some pc =>
      have hmem : pc ∈ s.readers := mem_of_getElem? hi
      have hok := readerStep_ok remap s hs pc (hs.readers pc hmem)
      refine ⟨hs.len, hs.pos, hs.cur, hok.2, ?_⟩
      intro pc' hpc'
      rcases mem_or_eq_of_mem_set hpc' with h | h
      · exact hs.readers pc' h
      · rw [h]; exact hok.1

theorem inv_run (remap : E → E) : ∀ (ops : List (Op E)) (s : St E), Inv remap s → Inv remap (run remap s ops)
  | [], _, h => h
  | op :: ops, s, h => inv_run remap ops _ (inv_step remap s op h)

def cacheGen (s : St E) : Nat :=
  match s.cache with
  | none => 0
  | some (g, _) => g

theorem cacheGen_step (remap : E → E) (s : St E) (op : Op E) :
    cacheGen s ≤ cacheGen (step remap s op) := by
  cases op with
  | update e => exact Nat.le_refl _
  | markComplete => exact Nat.le_refl _
  | read i =>
    simp only [step]
    cases hi : s.readers[i]? with
    | none => exact Nat.le_refl _
    | some pc =>
      simp only [cacheGen]
      cases pc with
      | idle => exact Nat.le_refl _
      | done _ _ => exact Nat.le_refl _
      | gotInner g0 e g =>
        simp only [readerStep]
        cases hc : s.cache with
        | none => simp
        | some c =>
          obtain ⟨cg, ce⟩ := c
          by_cases hg : cg = g <;> simp [hg]
      | computed g0 g r =>
        simp only [readerStep]
        cases hc : s.cache with
        | none => simp
        | some c =>
          obtain ⟨cg, ce⟩ := c
          by_cases hg : g > cg
          · simp [hg]; omega
          · simp [hg]

theorem gen_step (remap : E → E) (s : St E) (op : Op E) :
    s.gen ≤ (step remap s op).gen ∧ s.hist <+: (step remap s op).hist := by
  cases op with
  | update e => exact ⟨Nat.le_succ _, prefix_append _ _⟩
  | markComplete => exact ⟨Nat.le_refl _, prefix_refl _⟩
  | read i =>
    simp only [step]
    cases s.readers[i]? with
    | none => exact ⟨Nat.le_refl _, prefix_refl _⟩
    | some pc => exact ⟨Nat.le_refl _, prefix_refl _⟩

end DfModel.Proofs.C31
