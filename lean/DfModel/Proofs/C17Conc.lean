/-
  Helper lemmas for C17, concurrent micro-step model (`Sm.Pool.cstep`).  Core Lean only.
-/
import DfModel.Sm.Pool
import DfModel.Proofs.C17
namespace DfModel.Proofs.C17Conc
open DfModel.Sm.Pool DfModel.Proofs.C17

theorem ledgerIs_congr {k : Kind} {l : Ledger} {a b a' b' : Nat} (h : LedgerIs k l a b)
    (ha : a = a') (hb : b = b') : LedgerIs k l a' b' := by
  subst ha; subst hb; exact h

/-- a pending phase B of a growth refers to an existing reservation with the recorded spill flag -/
def PendOk (rs : List Res) : Pend → Prop
  | .growB r _ sp _ => ∃ x, findRes rs r = some x ∧ x.spill = sp
  | _ => True

theorem findRes_updRes (rs : List Res) (r r' : Nat) (g : Nat → Nat) :
    ∀ x, findRes rs r' = some x → ∃ x', findRes (updRes rs r g) r' = some x' ∧ x'.spill = x.spill := by
  induction rs with
  | nil => intro x h; simp [findRes] at h
  | cons y ys ih =>
    intro x h
    unfold updRes
    by_cases hy : y.rid = r
    · simp only [hy, if_true]
      unfold findRes at h ⊢
      simp only [hy] at h ⊢
      split
      · rename_i e
        simp only [e, if_true, Option.some.injEq] at h
        subst h
        exact ⟨_, rfl, rfl⟩
      · rename_i e
        simp only [e, if_false] at h
        exact ⟨x, h, rfl⟩
    · simp only [hy, if_false]
      unfold findRes at h ⊢
      split
      · rename_i e
        simp only [e, if_true, Option.some.injEq] at h
        subst h
        exact ⟨_, rfl, rfl⟩
      · rename_i e
        simp only [e, if_false] at h
        exact ih x h

theorem pendOk_upd {rs : List Res} (r : Nat) (g : Nat → Nat) {p : Pend} (h : PendOk rs p) :
    PendOk (updRes rs r g) p := by
  cases p with
  | idle => trivial
  | shrinkB _ _ _ _ => trivial
  | growB r' n sp out =>
    obtain ⟨x, hx, e⟩ := h
    obtain ⟨x', hx', e'⟩ := findRes_updRes rs r r' g x hx
    exact ⟨x', hx', by rw [e', e]⟩

structure CInv (k : Kind) (c : CSt) : Prop where
  led : LedgerIs k c.led (sumSpill true c.res + inflight true c.threads)
          (sumSpill false c.res + inflight false c.threads)
  bad : c.bad = false
  pend : ∀ t ∈ c.threads, PendOk c.res t.pend

/-- the result of one phase of one thread, as a predicate (rest of the in-flight bytes = `Rt/Rf`) -/
def MicroGood (k : Kind) (rs : List Res) (Rt Rf : Nat) (r : Thread × Ledger × List Res × Bool) : Prop :=
  LedgerIs k r.2.1 (sumSpill true r.2.2.1 + (r.1.pend.amount true + Rt))
      (sumSpill false r.2.2.1 + (r.1.pend.amount false + Rf))
    ∧ r.2.2.2 = false ∧ PendOk r.2.2.1 r.1.pend ∧ (∀ p, PendOk rs p → PendOk r.2.2.1 p)

theorem microThread_ok {k : Kind} {l : Ledger} {rs : List Res} {t : Thread} {Rt Rf : Nat}
    (hl : LedgerIs k l (sumSpill true rs + (t.pend.amount true + Rt))
            (sumSpill false rs + (t.pend.amount false + Rf)))
    (hp : PendOk rs t.pend) : MicroGood k rs Rt Rf (microThread k l rs t) := by
  unfold microThread
  cases hpend : t.pend with
  | growB r n sp out =>
    rw [hpend] at hl hp
    obtain ⟨x, hx, e⟩ := hp
    subst e
    refine ⟨?_, rfl, trivial, fun p hp' => pendOk_upd r _ hp'⟩
    simp only [Pend.amount, sumSpill] at hl ⊢
    rw [sum_add _ n hx, sum_add _ n hx]
    exact ledgerIs_congr hl (by omega) (by omega)
  | shrinkB r n sp out =>
    rw [hpend] at hl
    simp only [Pend.amount] at hl
    have hle : n ≤ if sp then sumSpill true rs + ((if (sp == true) = true then n else 0) + Rt)
        else sumSpill false rs + ((if (sp == false) = true then n else 0) + Rf) := by
      cases sp <;> simp
      all_goals omega
    obtain ⟨h1, h2⟩ := ledgerIs_sub sp n hl hle
    refine ⟨?_, h2, trivial, fun p hp' => hp'⟩
    simp only [Pend.amount]
    exact ledgerIs_congr h1 (by cases sp <;> simp <;> omega) (by cases sp <;> simp <;> omega)
  | idle =>
    rw [hpend] at hl
    simp only [Pend.amount, Nat.zero_add] at hl
    cases hprog : t.prog with
    | nil =>
      refine ⟨?_, rfl, ?_, fun p hp' => hp'⟩
      · simp only [hpend, Pend.amount, Nat.zero_add]; exact hl
      · simp only [hpend]; trivial
    | cons op rest =>
      simp only
      cases op with
      | grow r n =>
        simp only
        split
        · exact ⟨by simpa [Pend.amount] using hl, rfl, trivial, fun p hp' => hp'⟩
        · rename_i x hx
          refine ⟨?_, rfl, ⟨x, hx, rfl⟩, fun p hp' => hp'⟩
          simp only [Pend.amount]
          exact ledgerIs_congr (ledgerIs_add x.spill n hl) (by omega) (by omega)
      | tryGrow r n =>
        simp only
        split
        · exact ⟨by simpa [Pend.amount] using hl, rfl, trivial, fun p hp' => hp'⟩
        · rename_i x hx
          split
          · exact ⟨by simpa [Pend.amount] using hl, rfl, trivial, fun p hp' => hp'⟩
          · rename_i l' hl'
            refine ⟨?_, rfl, ⟨x, hx, rfl⟩, fun p hp' => hp'⟩
            simp only [Pend.amount]
            exact ledgerIs_congr (ledgerIs_tryAdd x.spill x.size n hl hl').1 (by omega) (by omega)
      | shrink r n =>
        simp only
        split
        · exact ⟨by simpa [Pend.amount] using hl, rfl, trivial, fun p hp' => hp'⟩
        · rename_i x hx
          split
          · rename_i hn
            refine ⟨?_, rfl, trivial, fun p hp' => pendOk_upd r _ hp'⟩
            have e1 := sum_sub (fun _ s => s == true) n hx hn
            have e2 := sum_sub (fun _ s => s == false) n hx hn
            simp only [Pend.amount, sumSpill] at hl ⊢
            exact ledgerIs_congr hl (by omega) (by omega)
          · exact ⟨by simpa [Pend.amount] using hl, rfl, trivial, fun p hp' => hp'⟩
      | tryShrink r n =>
        simp only
        split
        · exact ⟨by simpa [Pend.amount] using hl, rfl, trivial, fun p hp' => hp'⟩
        · rename_i x hx
          split
          · rename_i hn
            refine ⟨?_, rfl, trivial, fun p hp' => pendOk_upd r _ hp'⟩
            have e1 := sum_sub (fun _ s => s == true) n hx hn
            have e2 := sum_sub (fun _ s => s == false) n hx hn
            simp only [Pend.amount, sumSpill] at hl ⊢
            exact ledgerIs_congr hl (by omega) (by omega)
          · exact ⟨by simpa [Pend.amount] using hl, rfl, trivial, fun p hp' => hp'⟩
      | free r =>
        simp only
        split
        · exact ⟨by simpa [Pend.amount] using hl, rfl, trivial, fun p hp' => hp'⟩
        · rename_i x hx
          have e1 := sum_zero (fun _ s => s == true) hx
          have e2 := sum_zero (fun _ s => s == false) hx
          split
          · refine ⟨?_, rfl, trivial, fun p hp' => pendOk_upd r _ hp'⟩
            simp only [Pend.amount, sumSpill] at hl ⊢
            exact ledgerIs_congr hl (by omega) (by omega)
          · rename_i hz
            have hz' : x.size = 0 := by omega
            refine ⟨?_, rfl, trivial, fun p hp' => pendOk_upd r _ hp'⟩
            simp only [Pend.amount, sumSpill, hz'] at hl e1 e2 ⊢
            exact ledgerIs_congr hl (by split at e1 <;> omega) (by split at e2 <;> omega)

def AtGood (k : Kind) (rs : List Res) (Rt Rf : Nat) (r : List Thread × Ledger × List Res × Bool) : Prop :=
  LedgerIs k r.2.1 (sumSpill true r.2.2.1 + (inflight true r.1 + Rt))
      (sumSpill false r.2.2.1 + (inflight false r.1 + Rf))
    ∧ r.2.2.2 = false ∧ (∀ t ∈ r.1, PendOk r.2.2.1 t.pend) ∧ (∀ p, PendOk rs p → PendOk r.2.2.1 p)

theorem microAt_ok {k : Kind} {l : Ledger} {rs : List Res} (ts : List Thread) :
    ∀ (i Rt Rf : Nat),
      LedgerIs k l (sumSpill true rs + (inflight true ts + Rt)) (sumSpill false rs + (inflight false ts + Rf)) →
      (∀ t ∈ ts, PendOk rs t.pend) → AtGood k rs Rt Rf (microAt k l rs ts i) := by
  induction ts with
  | nil =>
    intro i Rt Rf hl hp
    refine ⟨hl, rfl, ?_, fun p hp' => hp'⟩
    intro t ht
    simp [microAt] at ht
  | cons t ts ih =>
    intro i Rt Rf hl hp
    cases i with
    | zero =>
      have h := microThread_ok (t := t) (Rt := inflight true ts + Rt) (Rf := inflight false ts + Rf)
        (ledgerIs_congr hl (by simp only [inflight]; omega) (by simp only [inflight]; omega))
        (hp t List.mem_cons_self)
      obtain ⟨h1, h2, h3, h4⟩ := h
      refine ⟨?_, h2, ?_, h4⟩
      · simp only [microAt, inflight]
        exact ledgerIs_congr h1 (by omega) (by omega)
      · intro u hu
        simp only [microAt] at hu
        rcases List.mem_cons.mp hu with rfl | hu'
        · exact h3
        · exact h4 _ (hp u (List.mem_cons_of_mem _ hu'))
    | succ i =>
      have h := ih i (t.pend.amount true + Rt) (t.pend.amount false + Rf)
        (ledgerIs_congr hl (by simp only [inflight]; omega) (by simp only [inflight]; omega))
        (fun u hu => hp u (List.mem_cons_of_mem _ hu))
      obtain ⟨h1, h2, h3, h4⟩ := h
      refine ⟨?_, h2, ?_, h4⟩
      · simp only [microAt, inflight]
        exact ledgerIs_congr h1 (by omega) (by omega)
      · intro u hu
        simp only [microAt] at hu
        rcases List.mem_cons.mp hu with rfl | hu'
        · exact h4 _ (hp u List.mem_cons_self)
        · exact h3 u hu'

theorem cinv_cstep {k : Kind} {c : CSt} (i : Nat) (h : CInv k c) : CInv k (cstep k c i) := by
  have := microAt_ok (k := k) (l := c.led) (rs := c.res) c.threads i 0 0
    (ledgerIs_congr h.led (by omega) (by omega)) h.pend
  obtain ⟨h1, h2, h3, _⟩ := this
  refine ⟨?_, ?_, h3⟩
  · simp only [cstep]
    exact ledgerIs_congr h1 (by omega) (by omega)
  · simp only [cstep, h.bad, h2, Bool.or_self]

theorem cinv_crun {k : Kind} (sched : List Nat) {c : CSt} (h : CInv k c) : CInv k (crun k c sched) := by
  induction sched generalizing c with
  | nil => exact h
  | cons i is ih => exact ih (cinv_cstep i h)

theorem sumBy_mkRes (p : Nat → Bool → Bool) (xs : List (Nat × Bool)) : ∀ i, sumBy p (mkRes i xs) = 0 := by
  induction xs with
  | nil => intro i; rfl
  | cons x xs ih =>
    intro i
    obtain ⟨c, sp⟩ := x
    simp only [mkRes, sumBy, ih]
    split <;> rfl

theorem inflight_idle (b : Bool) (progs : List (List COp)) :
    inflight b (progs.map (fun p => ({ prog := p, pend := .idle, outs := [] } : Thread))) = 0 := by
  induction progs with
  | nil => rfl
  | cons p ps ih => simp only [List.map_cons, inflight, Pend.amount, ih]

theorem cinv_cinit (k : Kind) (numSpill : Nat) (rs : List (Nat × Bool)) (progs : List (List COp)) :
    CInv k (cinit numSpill rs progs) := by
  refine ⟨?_, rfl, ?_⟩
  · simp only [cinit, sumSpill, sumBy_mkRes, inflight_idle]
    cases k <;> simp [LedgerIs]
  · intro t ht
    simp only [cinit, List.mem_map] at ht
    obtain ⟨p, _, rfl⟩ := ht
    trivial

theorem inflight_quiescent (b : Bool) (ts : List Thread) (h : quiescent ts = true) : inflight b ts = 0 := by
  induction ts with
  | nil => rfl
  | cons t ts ih =>
    simp only [quiescent, List.all_cons, Bool.and_eq_true, beq_iff_eq] at h
    simp only [inflight, h.1, Pend.amount, Nat.zero_add]
    exact ih (by simpa [quiescent] using h.2)

theorem inflightGrows_le (ts : List Thread) : inflightGrows ts ≤ inflight true ts + inflight false ts := by
  induction ts with
  | nil => simp [inflightGrows, inflight]
  | cons t ts ih =>
    simp only [inflightGrows, inflight]
    have : t.pend.growAmount ≤ t.pend.amount true + t.pend.amount false := by
      cases t.pend with
      | idle => simp [Pend.growAmount]
      | shrinkB _ _ _ _ => simp [Pend.growAmount]
      | growB r n sp out => cases sp <;> simp [Pend.growAmount, Pend.amount]
    omega

/-! ### greedy: `used ≤ limit` under every schedule when nobody calls the infallible `grow` -/

def NoGrow (ts : List Thread) : Prop := ∀ t ∈ ts, noInfallibleGrow t.prog = true

theorem greedy_microThread {lim : Nat} {l : Ledger} {rs : List Res} {t : Thread}
    (hu : l.used ≤ lim) (hn : noInfallibleGrow t.prog = true) :
    (microThread (.greedy lim) l rs t).2.1.used ≤ lim
      ∧ noInfallibleGrow (microThread (.greedy lim) l rs t).1.prog = true := by
  unfold microThread
  cases hpend : t.pend with
  | growB r n sp out => exact ⟨hu, hn⟩
  | shrinkB r n sp out => exact ⟨by simp only [ledSub]; omega, hn⟩
  | idle =>
    cases hprog : t.prog with
    | nil => simp only [hprog]; exact ⟨hu, by simp [noInfallibleGrow]⟩
    | cons op rest =>
      rw [hprog] at hn
      have hrest : noInfallibleGrow rest = true := by
        simp only [noInfallibleGrow, List.all_cons, Bool.and_eq_true] at hn ⊢
        exact hn.2
      simp only
      cases op with
      | grow r n => simp [noInfallibleGrow] at hn
      | tryGrow r n =>
        simp only
        split
        · exact ⟨hu, hrest⟩
        · split
          · exact ⟨hu, hrest⟩
          · rename_i l' hl'
            refine ⟨?_, hrest⟩
            simp only [ledTryAdd] at hl'
            split at hl'
            · simp only [Option.some.injEq] at hl'
              subst hl'
              assumption
            · cases hl'
      | shrink r n =>
        simp only
        split
        · exact ⟨hu, hrest⟩
        · split <;> exact ⟨hu, hrest⟩
      | tryShrink r n =>
        simp only
        split
        · exact ⟨hu, hrest⟩
        · split <;> exact ⟨hu, hrest⟩
      | free r =>
        simp only
        split
        · exact ⟨hu, hrest⟩
        · split <;> exact ⟨hu, hrest⟩

theorem greedy_microAt {lim : Nat} {l : Ledger} {rs : List Res} (ts : List Thread) :
    ∀ i, l.used ≤ lim → NoGrow ts →
      (microAt (.greedy lim) l rs ts i).2.1.used ≤ lim ∧ NoGrow (microAt (.greedy lim) l rs ts i).1 := by
  induction ts with
  | nil => intro i hu hn; exact ⟨hu, hn⟩
  | cons t ts ih =>
    intro i hu hn
    cases i with
    | zero =>
      obtain ⟨h1, h2⟩ := greedy_microThread (rs := rs) hu (hn t List.mem_cons_self)
      refine ⟨h1, ?_⟩
      intro u hu'
      simp only [microAt] at hu'
      rcases List.mem_cons.mp hu' with rfl | h'
      · exact h2
      · exact hn u (List.mem_cons_of_mem _ h')
    | succ i =>
      obtain ⟨h1, h2⟩ := ih i hu (fun u hu' => hn u (List.mem_cons_of_mem _ hu'))
      refine ⟨h1, ?_⟩
      intro u hu'
      simp only [microAt] at hu'
      rcases List.mem_cons.mp hu' with rfl | h'
      · exact hn u List.mem_cons_self
      · exact h2 u h'

theorem greedy_used_le_crun (lim : Nat) (sched : List Nat) :
    ∀ c : CSt, c.led.used ≤ lim → NoGrow c.threads → (crun (.greedy lim) c sched).led.used ≤ lim := by
  induction sched with
  | nil => intro c hu _; exact hu
  | cons i is ih =>
    intro c hu hn
    obtain ⟨h1, h2⟩ := greedy_microAt (rs := c.res) c.threads i hu hn
    exact ih (cstep (.greedy lim) c i) h1 h2

theorem noGrow_cinit (numSpill : Nat) (rs : List (Nat × Bool)) (progs : List (List COp))
    (h : ∀ p ∈ progs, noInfallibleGrow p = true) : NoGrow (cinit numSpill rs progs).threads := by
  intro t ht
  simp only [cinit, List.mem_map] at ht
  obtain ⟨p, hp, rfl⟩ := ht
  exact h p hp

end DfModel.Proofs.C17Conc
