/-
  C24 — helper lemmas: every `RowSelection` operation against its mask meaning.  Core Lean only.
-/
import DfModel.Mech.AccessPlan
set_option linter.unusedSimpArgs false
set_option linter.unusedVariables false
namespace DfModel.Proofs.C24
open DfModel.Mech.AccessPlan

theorem mask_cons (r : Run) (rs : Sel) : mask (r :: rs) = List.replicate r.n (!r.skip) ++ mask rs := rfl

theorem mask_normalize (s : Sel) : mask (normalize s) = mask s := by
  induction s with
  | nil => rfl
  | cons r rs ih =>
    simp only [normalize]
    split
    · rename_i h; simp [mask_cons, h, ih]
    · cases hn : normalize rs with
      | nil => simp [mask_cons, ← ih, hn, mask]
      | cons s ss =>
        simp only
        rw [hn] at ih
        split
        · rename_i hs
          simp only [mask_cons] at ih ⊢
          rw [← ih, hs, ← List.append_assoc, List.replicate_append_replicate]
        · simp only [mask_cons] at ih ⊢; rw [← ih]

theorem zipTail_replicate (n : Nat) (x y : Bool) (l r : List Bool) :
    zipTail (List.replicate n x ++ l) (List.replicate n y ++ r) = List.replicate n (x && y) ++ zipTail l r := by
  induction n with
  | zero => simp
  | succ n ih => simp [List.replicate_succ, zipTail, ih]

theorem replicate_split (a b : Nat) (v : Bool) (h : a ≤ b) :
    List.replicate b v = List.replicate a v ++ List.replicate (b - a) v := by
  rw [List.replicate_append_replicate]; congr 1; omega

theorem zipTail_nil_right (l : List Bool) : zipTail l [] = l := by cases l <;> rfl

theorem mask_intersectRaw (a b : Sel) : mask (intersectRaw a b) = zipTail (mask a) (mask b) := by
  fun_induction intersectRaw a b
  case case1 r => simp [mask, zipTail]
  case case2 l _ => simp [mask, zipTail_nil_right]
  case case3 a l b r h ih => simp [mask_cons, h, ih]
  case case4 a l b r h1 h2 ih => simp [mask_cons, h2] at ih ⊢; exact ih
  case case5 a l b r h1 h2 h3 h4 ih =>
    simp only [Bool.and_eq_true, Bool.not_eq_true'] at h3
    simp only [mask_cons] at ih ⊢
    rw [ih, replicate_split a.n b.n (!b.skip) (by omega), List.append_assoc, zipTail_replicate]
    simp [h3.1, h3.2]
  case case6 a l b r h1 h2 h3 h4 ih =>
    simp only [Bool.and_eq_true, Bool.not_eq_true'] at h3
    simp only [mask_cons] at ih ⊢
    rw [ih, replicate_split b.n a.n (!a.skip) (by omega), List.append_assoc, zipTail_replicate]
    simp [h3.1, h3.2]
  case case7 a l b r h1 h2 h3 h4 ih =>
    simp only [mask_cons, skipRun] at ih ⊢
    rw [ih, replicate_split a.n b.n (!b.skip) (by omega), List.append_assoc, zipTail_replicate]
    congr 1
    cases ha : a.skip <;> cases hb : b.skip <;> simp_all
  case case8 a l b r h1 h2 h3 h4 ih =>
    simp only [mask_cons, skipRun] at ih ⊢
    rw [ih, replicate_split b.n a.n (!a.skip) (by omega), List.append_assoc, zipTail_replicate]
    congr 1
    cases ha : a.skip <;> cases hb : b.skip <;> simp_all

theorem mask_intersection (a b : Sel) : mask (intersection a b) = zipTail (mask a) (mask b) := by
  simp [intersection, mask_normalize, mask_intersectRaw]

/-! ### split_off / limit / offset -/

theorem mask_splitOff (s : Sel) (n : Nat) :
    mask (splitOff s n).1 = (mask s).take n ∧ mask (splitOff s n).2 = (mask s).drop n := by
  induction s generalizing n with
  | nil => simp [splitOff, mask]
  | cons r rs ih =>
    simp only [splitOff]
    split
    · rename_i h
      have := ih (n - r.n)
      simp only [mask_cons]
      rw [List.take_append, List.drop_append]
      simp only [List.length_replicate]
      have e1 : List.take n (List.replicate r.n (!r.skip)) = List.replicate r.n (!r.skip) :=
        List.take_of_length_le (by rw [List.length_replicate]; exact h)
      have e2 : List.drop n (List.replicate r.n (!r.skip)) = [] :=
        List.drop_of_length_le (by rw [List.length_replicate]; exact h)
      constructor
      · rw [this.1, e1]
      · rw [this.2, e2]; simp
    · rename_i h
      simp only [mask_cons]
      rw [List.take_append, List.drop_append]
      simp only [List.length_replicate]
      have h0 : n - r.n = 0 := by omega
      constructor
      · rw [h0]
        split
        · rename_i hn; subst hn; simp [mask]
        · simp [mask_cons, mask, List.take_replicate]; congr 1; omega
      · rw [h0]; simp [List.drop_replicate]

theorem mask_limit (s : Sel) (k : Nat) : mask (limitSel s k) = takeTrues (mask s) k := by
  induction s generalizing k with
  | nil => cases k <;> simp [limitSel, mask, takeTrues]
  | cons r rs ih =>
    cases k with
    | zero => simp [limitSel, mask, takeTrues]
    | succ k =>
      simp only [limitSel]
      -- a general fact about `takeTrues` over a block of equal bits
      have hfalse : ∀ (m : Nat) (l : List Bool) (j : Nat),
          takeTrues (List.replicate m false ++ l) (j + 1) = List.replicate m false ++ takeTrues l (j + 1) := by
        intro m l j; induction m with
        | zero => simp
        | succ m ihm => simp [List.replicate_succ, takeTrues, ihm]
      have htrue : ∀ (m : Nat) (l : List Bool) (j : Nat), m ≤ j →
          takeTrues (List.replicate m true ++ l) j = List.replicate m true ++ takeTrues l (j - m) := by
        intro m l j; induction m generalizing j with
        | zero => simp
        | succ m ihm =>
          intro h
          cases j with
          | zero => omega
          | succ j => simp [List.replicate_succ, takeTrues, ihm j (by omega)]
      have htrue' : ∀ (m j : Nat) (l : List Bool), j ≤ m →
          takeTrues (List.replicate m true ++ l) j = List.replicate j true := by
        intro m j l; induction j generalizing m with
        | zero => simp [takeTrues]
        | succ j ihj =>
          intro h
          cases m with
          | zero => omega
          | succ m => simp [List.replicate_succ, takeTrues, ihj m (by omega)]
      split
      · rename_i hs
        simp only [mask_cons, hs, Bool.not_true, ih, hfalse]
      · rename_i hs
        simp only [Bool.not_eq_true] at hs
        split
        · rename_i hge
          simp only [mask_cons, hs, Bool.not_false, mask, List.append_nil]
          rw [htrue' r.n (k + 1) (mask rs) hge]
        · rename_i hlt
          simp only [mask_cons, hs, Bool.not_false, ih]
          rw [htrue r.n (mask rs) (k + 1) (by omega)]

/-! ### access plan: soundness of refinements -/

theorem soundMask_length {α : Type} (p : α → Bool) (m : List Bool) (rows : List α)
    (h : soundMask p m rows = true) : m.length = rows.length := by
  induction m generalizing rows with
  | nil => cases rows <;> simp_all [soundMask]
  | cons x m ih =>
    cases rows with
    | nil => simp [soundMask] at h
    | cons r rows => simp only [soundMask, Bool.and_eq_true] at h; simp [ih rows h.2]

/-- intersecting two sound masks is sound -/
theorem soundMask_zipTail {α : Type} (p : α → Bool) (m1 m2 : List Bool) (rows : List α)
    (h1 : soundMask p m1 rows = true) (h2 : soundMask p m2 rows = true) :
    soundMask p (zipTail m1 m2) rows = true := by
  induction rows generalizing m1 m2 with
  | nil => cases m1 <;> cases m2 <;> simp_all [soundMask, zipTail]
  | cons r rows ih =>
    cases m1 with
    | nil => simp [soundMask] at h1
    | cons x m1 =>
      cases m2 with
      | nil => simp [soundMask] at h2
      | cons y m2 =>
        simp only [soundMask, Bool.and_eq_true, zipTail] at *
        refine ⟨?_, ih m1 m2 h1.2 h2.2⟩
        cases x <;> cases y <;> simp_all

theorem soundMask_append {α : Type} (p : α → Bool) (m1 m2 : List Bool) (r1 r2 : List α)
    (h1 : soundMask p m1 r1 = true) (h2 : soundMask p m2 r2 = true) :
    soundMask p (m1 ++ m2) (r1 ++ r2) = true := by
  induction m1 generalizing r1 with
  | nil => cases r1 <;> simp_all [soundMask]
  | cons x m1 ih =>
    cases r1 with
    | nil => simp [soundMask] at h1
    | cons r r1 =>
      simp only [soundMask, Bool.and_eq_true, List.cons_append] at *
      exact ⟨h1.1, ih r1 h1.2⟩

theorem soundMask_all_true {α : Type} (p : α → Bool) (rows : List α) :
    soundMask p (List.replicate rows.length true) rows = true := by
  induction rows with
  | nil => rfl
  | cons r rows ih => simp [List.replicate_succ, soundMask, ih]

/-- skipping a whole container is sound when no row of it matches -/
theorem soundMask_all_false {α : Type} (p : α → Bool) (rows : List α) (h : ∀ r ∈ rows, p r = false) :
    soundMask p (List.replicate rows.length false) rows = true := by
  induction rows with
  | nil => rfl
  | cons r rows ih =>
    simp only [List.length_cons, List.replicate_succ, soundMask, Bool.false_or, Bool.and_eq_true, Bool.not_eq_true']
    exact ⟨h r (by simp), ih (fun x hx => h x (by simp [hx]))⟩

theorem filter_selectRows {α : Type} (p : α → Bool) (m : List Bool) (rows : List α)
    (h : soundMask p m rows = true) : (selectRows m rows).filter p = rows.filter p := by
  induction rows generalizing m with
  | nil => cases m <;> simp [selectRows]
  | cons r rows ih =>
    cases m with
    | nil => simp [soundMask] at h
    | cons x m =>
      simp only [soundMask, Bool.and_eq_true, Bool.or_eq_true, Bool.not_eq_true'] at h
      cases x with
      | true => simp [selectRows, List.filter_cons, ih m h.2]
      | false =>
        have : p r = false := by simpa using h.1
        simp [selectRows, List.filter_cons, this, ih m h.2]

/-- late materialisation: applying `m2` to the rows that survived `m1` reads the rows of the composed mask -/
theorem selectRows_compose {α : Type} (m1 m2 m : List Bool) (rows : List α) (h : compose m1 m2 = some m)
    (hl : m1.length = rows.length) : selectRows m rows = selectRows m2 (selectRows m1 rows) := by
  induction m1 generalizing m2 m rows with
  | nil =>
    cases m2 with
    | nil => simp [compose] at h; subst h; cases rows <;> simp [selectRows]
    | cons y m2 => simp [compose] at h
  | cons x m1 ih =>
    cases rows with
    | nil => simp at hl
    | cons r rows =>
      simp only [List.length_cons, Nat.add_right_cancel_iff] at hl
      cases x with
      | false =>
        simp only [compose, Option.map_eq_some_iff] at h
        obtain ⟨m', hm', rfl⟩ := h
        simp [selectRows, ih m2 m' rows hm' hl]
      | true =>
        cases m2 with
        | nil => simp [compose] at h
        | cons y m2 =>
          simp only [compose, Option.map_eq_some_iff] at h
          obtain ⟨m', hm', rfl⟩ := h
          cases y <;> simp [selectRows, ih m2 m' rows hm' hl]

theorem compose_false_block (n : Nat) (l r : List Bool) :
    compose (List.replicate n false ++ l) r = (compose l r).map (List.replicate n false ++ ·) := by
  induction n with
  | zero => simp
  | succ n ih =>
    simp only [List.replicate_succ, List.cons_append, compose, ih, Option.map_map]
    congr 1

theorem compose_true_block (n : Nat) (y : Bool) (l r : List Bool) :
    compose (List.replicate n true ++ l) (List.replicate n y ++ r) = (compose l r).map (List.replicate n y ++ ·) := by
  induction n with
  | zero => simp
  | succ n ih =>
    simp only [List.replicate_succ, List.cons_append, compose, ih, Option.map_map]
    congr 1

theorem mask_all_skip (s : Sel) (h : s.all (fun v => v.n = 0 || v.skip) = true) :
    mask s = List.replicate (totalRows s) false := by
  induction s with
  | nil => rfl
  | cons r rs ih =>
    simp only [List.all_cons, Bool.and_eq_true, Bool.or_eq_true, decide_eq_true_eq] at h
    simp only [mask_cons, totalRows, List.map_cons, List.sum_cons] at *
    rw [ih h.2, ← List.replicate_append_replicate]
    rcases h.1 with h0 | hs
    · simp [h0]
    · simp [hs]

theorem compose_false_nil (n : Nat) : compose (List.replicate n false) [] = some (List.replicate n false) := by
  have := compose_false_block n [] []
  simpa [compose] using this

theorem andThenGo_spec (a b : Sel) (k : Nat) (c : Sel) (h : andThenGo a b k = some c) :
    ∃ m, compose (mask a) (mask b) = some m ∧ mask c = List.replicate k false ++ m := by
  fun_induction andThenGo a b k generalizing c
  case case1 first k hall t =>
    simp only [Option.some.injEq] at h
    simp only [t] at *
    refine ⟨List.replicate (totalRows first) false, ?_, ?_⟩
    · rw [mask_all_skip first hall]; exact compose_false_nil _
    · subst h
      split
      · rename_i ht
        have h1 : k = 0 := by omega
        have h2 : totalRows first = 0 := by omega
        simp [mask, h1, h2]
      · simp [mask_cons, skipRun, mask, List.replicate_append_replicate]
  case case2 => cases h
  case case3 => cases h
  case case4 a first b second k hb ih =>
    obtain ⟨m, hm, hc⟩ := ih c h
    exact ⟨m, by simpa [mask_cons, hb] using hm, hc⟩
  case case5 a first b second k hb ha ih =>
    obtain ⟨m, hm, hc⟩ := ih c h
    exact ⟨m, by simpa [mask_cons, ha] using hm, hc⟩
  case case6 a first b second k hb ha hs ih =>
    obtain ⟨m, hm, hc⟩ := ih c h
    refine ⟨List.replicate a.n false ++ m, ?_, ?_⟩
    · rw [mask_cons a first, hs]; simp only [Bool.not_true]
      rw [compose_false_block, hm]; rfl
    · rw [hc, ← List.replicate_append_replicate, List.append_assoc]
  case case7 a first b second k hb ha hs p hbs ih =>
    obtain ⟨m, hm, hc⟩ := ih c h
    have hsa : a.skip = false := by simpa using hs
    have hpa : p ≤ a.n := Nat.min_le_left _ _
    have hpb : p ≤ b.n := Nat.min_le_right _ _
    refine ⟨List.replicate p false ++ m, ?_, ?_⟩
    · rw [mask_cons a first, mask_cons b second, hsa, hbs]
      simp only [Bool.not_false, Bool.not_true]
      rw [replicate_split p a.n true hpa, replicate_split p b.n false hpb, List.append_assoc, List.append_assoc,
        compose_true_block]
      simp only [mask_cons, hsa, hbs, Bool.not_false, Bool.not_true] at hm
      rw [hm]; rfl
    · rw [hc, ← List.replicate_append_replicate, List.append_assoc]
  case case8 a first b second k hb ha hs p hbs hnone => simp [hnone] at h
  case case9 a first b second k hb ha hs p hbs rest hrest ih =>
    simp only [hrest, Option.some.injEq] at h
    obtain ⟨m, hm, hc⟩ := ih rest hrest
    have hsa : a.skip = false := by simpa using hs
    have hsb : b.skip = false := by simpa using hbs
    have hpa : p ≤ a.n := Nat.min_le_left _ _
    have hpb : p ≤ b.n := Nat.min_le_right _ _
    refine ⟨List.replicate p true ++ m, ?_, ?_⟩
    · rw [mask_cons a first, mask_cons b second, hsa, hsb]
      simp only [Bool.not_false]
      rw [replicate_split p a.n true hpa, replicate_split p b.n true hpb, List.append_assoc, List.append_assoc,
        compose_true_block]
      simp only [mask_cons, hsa, hsb, Bool.not_false] at hm
      rw [hm]; rfl
    · subst h
      simp only [List.replicate_zero, List.nil_append] at hc
      split
      · rename_i hk; subst hk; simp [mask_cons, select, hc]
      · simp [mask_cons, skipRun, select, hc]

theorem mask_andThen (a b c : Sel) (h : andThen a b = some c) : compose (mask a) (mask b) = some (mask c) := by
  simp only [andThen, Option.map_eq_some_iff] at h
  obtain ⟨c', hc', rfl⟩ := h
  obtain ⟨m, hm, hc⟩ := andThenGo_spec a b 0 c' hc'
  rw [mask_normalize, hc, hm]; simp

theorem countTrue_append (a b : List Bool) : countTrue (a ++ b) = countTrue a + countTrue b := by
  simp [countTrue, List.filter_append]

theorem countTrue_replicate (n : Nat) (v : Bool) : countTrue (List.replicate n v) = if v then n else 0 := by
  cases v <;> simp [countTrue, List.filter_replicate]

theorem clearTrues_zero (l : List Bool) : clearTrues l 0 = l := by cases l <;> rfl

theorem all_false_of_countTrue_zero (Q : List Bool) (h : countTrue Q = 0) : Q = List.replicate Q.length false := by
  induction Q with
  | nil => rfl
  | cons q Q ih =>
    cases q with
    | true => simp [countTrue] at h
    | false =>
      have : countTrue Q = 0 := by simpa [countTrue] using h
      simp only [List.length_cons, List.replicate_succ, List.cons.injEq, true_and]
      exact ih this

theorem countTrue_cons_false (P : List Bool) : countTrue (false :: P) = countTrue P := by simp [countTrue]
theorem countTrue_cons_true (P : List Bool) : countTrue (true :: P) = countTrue P + 1 := by simp [countTrue]

/-- clearing `k` selected rows, when the prefix `P` holds at most `k` of them, clears the whole prefix -/
theorem clearTrues_prefix (P X : List Bool) (k : Nat) (h : countTrue P ≤ k) :
    clearTrues (P ++ X) k = List.replicate P.length false ++ clearTrues X (k - countTrue P) := by
  induction P generalizing k with
  | nil => simp [countTrue]
  | cons x P ih =>
    cases x with
    | false =>
      rw [countTrue_cons_false] at h ⊢
      cases k with
      | zero =>
        have hz : countTrue P = 0 := by omega
        rw [clearTrues_zero, hz, Nat.sub_zero, clearTrues_zero]
        have := all_false_of_countTrue_zero P hz
        rw [List.length_cons, List.replicate_succ, List.cons_append, List.cons_append, ← this]
      | succ k =>
        rw [List.cons_append, clearTrues, ih (k + 1) h, List.length_cons, List.replicate_succ, List.cons_append]
    | true =>
      rw [countTrue_cons_true] at h ⊢
      cases k with
      | zero => omega
      | succ k =>
        rw [List.cons_append, clearTrues, ih k (by omega), List.length_cons, List.replicate_succ, List.cons_append]
        congr 3; omega

theorem clearTrues_trues (n k : Nat) (X : List Bool) (h : k < n) :
    clearTrues (List.replicate n true ++ X) k = List.replicate k false ++ List.replicate (n - k) true ++ X := by
  induction k generalizing n with
  | zero => simp [clearTrues]
  | succ k ih =>
    cases n with
    | zero => omega
    | succ n =>
      simp only [List.replicate_succ, List.cons_append, clearTrues, List.cons.injEq, true_and]
      rw [ih n (by omega)]; congr 2; congr 1; omega

/-- the scan of `offset_selectors`, generalised over the already-consumed prefix `P` -/
theorem offsetGo_spec (rs : Sel) (offset sel sk : Nat) (P : List Bool)
    (hsel : countTrue P = sel) (hlen : P.length = sel + sk) (hle : sel ≤ offset) :
    match offsetGo rs offset sel sk with
    | none => countTrue (P ++ mask rs) ≤ offset
    | some c => offset < countTrue (P ++ mask rs) ∧ mask c = clearTrues (P ++ mask rs) offset := by
  induction rs generalizing sel sk P with
  | nil => simp [offsetGo, mask, hsel, hle]
  | cons r rs ih =>
    by_cases hs : r.skip = true
    · have := ih sel (sk + r.n) (P ++ List.replicate r.n false)
        (by rw [countTrue_append, countTrue_replicate]; simp [hsel])
        (by simp [hlen]; omega) hle
      simp only [offsetGo, hs, if_true, mask_cons, Bool.not_true]
      simpa [List.append_assoc] using this
    · have hs' : r.skip = false := by simpa using hs
      by_cases hgt : sel + r.n > offset
      · simp only [offsetGo, hs', Bool.false_eq_true, if_false, hgt, if_true, mask_cons, Bool.not_false]
        refine ⟨by rw [countTrue_append, countTrue_append, countTrue_replicate, hsel]; simp; omega, ?_⟩
        rw [clearTrues_prefix P _ offset (by omega), hsel, clearTrues_trues r.n (offset - sel) _ (by omega)]
        simp only [skipRun, select, mask_cons, Bool.not_true, Bool.not_false, hlen]
        have e1 : List.replicate (sel + sk) false ++ (List.replicate (offset - sel) false ++ List.replicate (r.n - (offset - sel)) true)
            = List.replicate (sk + offset) false ++ List.replicate (sel + r.n - offset) true := by
          rw [← List.append_assoc, List.replicate_append_replicate]
          congr 2 <;> omega
        rw [← List.append_assoc, ← List.append_assoc, ← List.append_assoc, List.append_assoc (List.replicate (sel + sk) false), e1]
      · have := ih (sel + r.n) sk (P ++ List.replicate r.n true)
          (by rw [countTrue_append, countTrue_replicate]; simp [hsel])
          (by simp [hlen]; omega) (by omega)
        simp only [offsetGo, hs', Bool.false_eq_true, if_false, hgt, mask_cons, Bool.not_false]
        simpa [List.append_assoc] using this

/-- `RowSelection::offset(k)`: the first `k` selected rows are deselected (nothing else changes); if there
    are at most `k` selected rows the selection becomes empty -/
theorem mask_offset (s : Sel) (k : Nat) :
    mask (offsetSel s k) = if countTrue (mask s) ≤ k then [] else clearTrues (mask s) k := by
  have := offsetGo_spec s k 0 0 [] rfl rfl (Nat.zero_le _)
  simp only [offsetSel, List.nil_append] at *
  cases h : offsetGo s k 0 0 with
  | none => rw [h] at this; simp only at this; simp [this, mask]
  | some c =>
    rw [h] at this; simp only at this
    rw [if_neg (by omega)]; simpa using this.2

end DfModel.Proofs.C24
