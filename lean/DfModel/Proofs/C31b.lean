/-
  C31 (b) join build-side filter soundness, (c) TopK threshold soundness.  Core Lean only.
-/
import DfModel.Mech.DynSound
import DfModel.Proofs.C05
namespace DfModel.Proofs.C31
open DfModel.Mech.Join DfModel.Mech.DynSound
open List

/-! ### (b) -/

theorem flatMap_congr_mem {α β : Type} (xs : List α) (f g : α → List β) (h : ∀ x ∈ xs, f x = g x) :
    xs.flatMap f = xs.flatMap g := by
  induction xs with
  | nil => rfl
  | cons x xs ih =>
    simp only [flatMap_cons]
    rw [h x (by simp), ih (fun y hy => h y (by simp [hy]))]

theorem filter_filter_of_imp {α : Type} (R : List α) (f p : α → Bool)
    (h : ∀ r ∈ R, p r = true → f r = true) : (R.filter f).filter p = R.filter p := by
  rw [filter_filter]
  apply filter_congr
  intro r hr
  cases hp : p r
  · simp
  · simp [h r hr hp]

theorem any_filter_of_imp {α : Type} (R : List α) (f p : α → Bool)
    (h : ∀ r ∈ R, p r = true → f r = true) : (R.filter f).any p = R.any p := by
  rw [Bool.eq_iff_iff, any_eq_true, any_eq_true]
  constructor
  · rintro ⟨r, hr, hp⟩
    exact ⟨r, (mem_filter.mp hr).1, hp⟩
  · rintro ⟨r, hr, hp⟩
    exact ⟨r, mem_filter.mpr ⟨hr, h r hr hp⟩, hp⟩

/-- removing probe rows that match no build row changes nothing, for the gated join types -/
theorem join_filter_eq (jt : JoinType) (hg : gate jt = true) (m : Row → Row → Bool) (wl wr : Nat)
    (L R : List Row) (f : Row → Bool)
    (hf : ∀ r ∈ R, (∃ l ∈ L, m l r = true) → f r = true) :
    join jt m wl wr L (R.filter f) = join jt m wl wr L R := by
  have h1 : ∀ l ∈ L, (R.filter f).filter (m l) = R.filter (m l) := fun l hl =>
    filter_filter_of_imp R f (m l) (fun r hr hm => hf r hr ⟨l, hl, hm⟩)
  have h2 : ∀ l ∈ L, (R.filter f).any (m l) = R.any (m l) := fun l hl =>
    any_filter_of_imp R f (m l) (fun r hr hm => hf r hr ⟨l, hl, hm⟩)
  cases jt <;> simp only [gate, JoinType.onLrIsPreserved] at hg <;> try cases hg
  case inner =>
    simp only [join, innerPart]
    exact flatMap_congr_mem L _ _ (fun l hl => by rw [h1 l hl])
  case left =>
    simp only [join, leftPart]
    exact flatMap_congr_mem L _ _ (fun l hl => by rw [h1 l hl])
  case leftSemi =>
    simp only [join]
    exact filter_congr (fun l hl => h2 l hl)
  case leftAnti =>
    simp only [join]
    exact filter_congr (fun l hl => by rw [h2 l hl])
  case leftMark =>
    simp only [join]
    exact map_congr_left (fun l hl => by rw [h2 l hl])
  case rightSemi =>
    simp only [join]
    exact filter_filter_of_imp R f _ (fun r hr hm => by
      obtain ⟨l, hl, hml⟩ := any_eq_true.mp hm
      exact hf r hr ⟨l, hl, hml⟩)

theorem keysEq_none_needs_nullEq {ne : Bool} : ∀ {a b : List Val}, keysEq ne a b = true →
    a.any Option.isNone = true → ne = true
  | [], [], _, h => by simp at h
  | [], _ :: _, h, _ => by simp [keysEq] at h
  | _ :: _, [], h, _ => by simp [keysEq] at h
  | a :: as, b :: bs, h, hn => by
    simp only [keysEq, Bool.and_eq_true] at h
    simp only [any_cons, Bool.or_eq_true] at hn
    rcases hn with hn | hn
    · cases a <;> cases b <;> simp_all [valEq]
    · exact keysEq_none_needs_nullEq h.2 hn

theorem foldl_min_le (xs : List Int) : ∀ (a : Int), xs.foldl min a ≤ a ∧ ∀ y ∈ xs, xs.foldl min a ≤ y := by
  induction xs with
  | nil => intro a; simp
  | cons x xs ih =>
    intro a
    simp only [foldl_cons]
    have := ih (min a x)
    refine ⟨Int.le_trans this.1 (Int.min_le_left _ _), ?_⟩
    intro y hy
    rcases mem_cons.mp hy with rfl | hy
    · exact Int.le_trans this.1 (Int.min_le_right _ _)
    · exact this.2 y hy

theorem le_foldl_max (xs : List Int) : ∀ (a : Int), a ≤ xs.foldl max a ∧ ∀ y ∈ xs, y ≤ xs.foldl max a := by
  induction xs with
  | nil => intro a; simp
  | cons x xs ih =>
    intro a
    simp only [foldl_cons]
    have := ih (max a x)
    refine ⟨Int.le_trans (Int.le_max_left _ _) this.1, ?_⟩
    intro y hy
    rcases mem_cons.mp hy with rfl | hy
    · exact Int.le_trans (Int.le_max_right _ _) this.1
    · exact this.2 y hy

theorem boundsCol_of_mem (buildKeys : List (List Val)) (i : Nat) (x : Int)
    (h : x ∈ colVals buildKeys i) : boundsCol buildKeys i (some x) = true := by
  unfold boundsCol
  cases hv : colVals buildKeys i with
  | nil => rw [hv] at h; cases h
  | cons a as =>
    rw [hv] at h
    simp only [colMin, colMax, Bool.and_eq_true, decide_eq_true_eq]
    rcases mem_cons.mp h with rfl | h
    · exact ⟨(foldl_min_le as x).1, (le_foldl_max as x).1⟩
    · exact ⟨(foldl_min_le as a).2 x h, (le_foldl_max as a).2 x h⟩

/-- the published filter keeps every probe key that is key-equal to some build key -/
theorem publishedFilter_keeps (nullEq : Bool) (buildKeys : List (List Val)) (k : List Val)
    (h : ∃ b ∈ buildKeys, keysEq nullEq b k = true) : publishedFilter nullEq buildKeys k = true := by
  obtain ⟨b, hb, hk⟩ := h
  have hbk : b = k := DfModel.Proofs.C05.keysEq_eq hk
  subst hbk
  unfold publishedFilter
  by_cases hn : b.any Option.isNone = true
  · have := keysEq_none_needs_nullEq hk hn
    have hany : buildKeys.any (·.any Option.isNone) = true := any_eq_true.mpr ⟨b, hb, hn⟩
    simp [this, hany, hn]
  · have hall : b.all Option.isSome = true := by
      rw [all_eq_true]
      intro v hv
      cases v with
      | some _ => rfl
      | none => exact absurd (any_eq_true.mpr ⟨none, hv, rfl⟩) hn
    have hmem : memberPred buildKeys b = true := by
      simp only [memberPred, hall, Bool.true_and, contains_eq_mem, decide_eq_true_eq]
      exact hb
    have hbounds : boundsPred buildKeys b = true := by
      unfold boundsPred
      rw [all_eq_true]
      intro vi hvi
      obtain ⟨v, i⟩ := vi
      have hget : b[i]? = some v := mem_zipIdx_iff_getElem?.mp hvi
      have hvs : v.isSome = true := (all_eq_true.mp hall) v (mem_of_getElem? hget)
      cases v with
      | none => cases hvs
      | some x =>
        apply boundsCol_of_mem
        simp only [colVals, mem_filterMap]
        exact ⟨b, hb, by rw [getD_eq_getElem?_getD, hget]; rfl⟩
    simp [hmem, hbounds]

theorem routedFilter_keeps (nullEq : Bool) (route : List Val → Nat) (buildKeys : List (List Val))
    (k : List Val) (h : ∃ b ∈ buildKeys, keysEq nullEq b k = true) :
    routedFilter nullEq route buildKeys k = true := by
  obtain ⟨b, hb, hk⟩ := h
  have hbk : b = k := DfModel.Proofs.C05.keysEq_eq hk
  apply publishedFilter_keeps
  exact ⟨b, mem_filter.mpr ⟨hb, by simp [hbk]⟩, hk⟩

/-! ### (c) TopK -/

section TopK
variable {α : Type} (le : α → α → Bool)
  (total : ∀ a b, le a b = true ∨ le b a = true)
  (trans : ∀ a b c, le a b = true → le b c = true → le a c = true)

theorem mem_insertSorted (x : α) : ∀ (h : List α) (y : α), y ∈ insertSorted le x h ↔ y = x ∨ y ∈ h
  | [], y => by simp [insertSorted]
  | z :: zs, y => by
    simp only [insertSorted]
    split
    · simp only [mem_cons, mem_insertSorted x zs y]
      constructor
      · rintro (h | h | h)
        · exact Or.inr (Or.inl h)
        · exact Or.inl h
        · exact Or.inr (Or.inr h)
      · rintro (h | h | h)
        · exact Or.inr (Or.inl h)
        · exact Or.inl h
        · exact Or.inr (Or.inr h)
    · simp [mem_cons]

include total trans in
theorem insertSorted_sorted (x : α) : ∀ (h : List α), h.Pairwise (fun a b => le a b = true) →
    (insertSorted le x h).Pairwise (fun a b => le a b = true)
  | [], _ => by simp [insertSorted]
  | z :: zs, hs => by
    simp only [insertSorted]
    have hz := (pairwise_cons.mp hs)
    split
    · rename_i hzx
      rw [pairwise_cons]
      refine ⟨?_, insertSorted_sorted x zs hz.2⟩
      intro y hy
      rcases (mem_insertSorted le x zs y).mp hy with rfl | hy
      · exact hzx
      · exact hz.1 y hy
    · rename_i hzx
      have hxz : le x z = true := by
        rcases total x z with h | h
        · exact h
        · exact absurd h hzx
      rw [pairwise_cons]
      refine ⟨?_, hs⟩
      intro y hy
      rcases mem_cons.mp hy with rfl | hy
      · exact hxz
      · exact trans x z y hxz (hz.1 y hy)

theorem insertSorted_all_le (x : α) : ∀ (h : List α), (∀ y ∈ h, le y x = true) →
    insertSorted le x h = h ++ [x]
  | [], _ => rfl
  | z :: zs, hall => by
    simp only [insertSorted, hall z (by simp), ite_true, cons_append]
    rw [insertSorted_all_le x zs (fun y hy => hall y (by simp [hy]))]

include total trans in
/-- where `x` lands: after a prefix, before a suffix all of whose elements are `≥ x` -/
theorem insertSorted_decomp (x : α) : ∀ (h : List α), h.Pairwise (fun a b => le a b = true) →
    ∃ pre post, h = pre ++ post ∧ insertSorted le x h = pre ++ x :: post ∧ ∀ y ∈ post, le x y = true
  | [], _ => ⟨[], [], rfl, rfl, by simp⟩
  | z :: zs, hs => by
    have hz := pairwise_cons.mp hs
    simp only [insertSorted]
    split
    · obtain ⟨pre, post, h1, h2, h3⟩ := insertSorted_decomp x zs hz.2
      exact ⟨z :: pre, post, by simp [h1], by simp [h2], h3⟩
    · rename_i hzx
      have hxz : le x z = true := by
        rcases total x z with h | h
        · exact h
        · exact absurd h hzx
      refine ⟨[], z :: zs, rfl, rfl, ?_⟩
      intro y hy
      rcases mem_cons.mp hy with rfl | hy
      · exact hxz
      · exact trans x z y hxz (hz.1 y hy)

include total in
theorem le_last_of_sorted (h : List α) (hs : h.Pairwise (fun a b => le a b = true)) (ol : α)
    (hl : h.getLast? = some ol) : ∀ y ∈ h, le y ol = true := by
  obtain ⟨ys, rfl⟩ := getLast?_eq_some_iff.mp hl
  intro y hy
  rcases mem_append.mp hy with hy | hy
  · exact (pairwise_append.mp hs).2.2 y hy ol (by simp)
  · simp only [mem_singleton] at hy
    subst hy
    rcases total y y with h | h <;> exact h

/-- the invariant of the heap together with everything published so far -/
structure HeapInv (k : Nat) (heap pubs : List α) : Prop where
  sorted : heap.Pairwise (fun a b => le a b = true)
  len : heap.length ≤ k
  full : pubs ≠ [] → heap.length = k
  below : ∀ t ∈ pubs, ∀ y ∈ heap, le y t = true

include total trans in
theorem heapStep_inv (k : Nat) (heap pubs : List α) (x : α) (h : HeapInv le k heap pubs) :
    HeapInv le k (heapStep le k heap x) pubs := by
  have hsorted := insertSorted_sorted le total trans x heap h.sorted
  have hsub : (insertSorted le x heap).take k <+ insertSorted le x heap := take_sublist _ _
  refine ⟨hsorted.sublist hsub, by simp [heapStep, length_take]; omega, ?_, ?_⟩
  · intro hp
    have hk := h.full hp
    have hl : (insertSorted le x heap).length = heap.length + 1 := by
      obtain ⟨pre, post, h1, h2, _⟩ := insertSorted_decomp le total trans x heap h.sorted
      rw [h2, h1]; simp; omega
    simp [heapStep, length_take, hl, hk]
  · intro t ht y hy
    have hk := h.full (ne_nil_of_mem ht)
    obtain ⟨pre, post, h1, h2, h3⟩ := insertSorted_decomp le total trans x heap h.sorted
    simp only [heapStep, h2] at hy
    cases post with
    | nil =>
      -- x goes after a full heap: the first k elements are the old heap
      simp only [append_nil] at h1
      subst h1
      rw [take_left' hk] at hy
      exact h.below t ht y hy
    | cons p ps =>
      have hy' := mem_of_mem_take hy
      rcases mem_append.mp hy' with hy' | hy'
      · exact h.below t ht y (by rw [h1]; exact mem_append_left _ hy')
      · rcases mem_cons.mp hy' with rfl | hy'
        · exact trans y p t (h3 p (by simp)) (h.below t ht p (by rw [h1]; simp))
        · exact h.below t ht y (by rw [h1]; exact mem_append_right _ hy')

include total trans in
theorem heapInv_publish (k : Nat) (heap pubs : List α) (h : HeapInv le k heap pubs) :
    HeapInv le k heap (publish k heap pubs) := by
  unfold publish
  cases ht : threshold k heap with
  | none => exact h
  | some t =>
    simp only [threshold] at ht
    split at ht
    · rename_i hk
      refine ⟨h.sorted, h.len, fun _ => hk, ?_⟩
      intro t' ht' y hy
      rcases mem_append.mp ht' with ht' | ht'
      · exact h.below t' ht' y hy
      · simp only [mem_singleton] at ht'
        subst ht'
        exact le_last_of_sorted le total heap h.sorted t' ht y hy
    · cases ht

theorem seen_mem (pubs : List α) (p : Option (Option Nat)) (t : α)
    (h : seenThreshold pubs p = some t) : t ∈ pubs := by
  unfold seenThreshold at h
  split at h
  · exact mem_of_getElem? h
  · cases h

include total trans in
/-- a row rejected by ANY threshold published so far would not have changed the heap -/
theorem rejected_noop (k : Nat) (heap pubs : List α) (h : HeapInv le k heap pubs) (t x : α)
    (ht : t ∈ pubs) (hrej : passes le t x = false) : heapStep le k heap x = heap := by
  have htx : le t x = true := by
    rcases total t x with h' | h'
    · exact h'
    · simp only [passes, h', Bool.true_and, Bool.not_eq_false'] at hrej
      exact hrej
  have hall : ∀ y ∈ heap, le y x = true := fun y hy => trans y t x (h.below t ht y hy) htx
  have hk := h.full (ne_nil_of_mem ht)
  simp only [heapStep, insertSorted_all_le le x heap hall]
  exact take_left' hk

include total trans in
theorem runFiltered_eq_runPlain (k : Nat) : ∀ (xs heap pubs : List α) (picks : List (Option Nat)),
    HeapInv le k heap pubs → runFiltered le k heap pubs xs picks = runPlain le k heap xs
  | [], _, _, _, _ => by simp [runFiltered, runPlain]
  | x :: xs, heap, pubs, picks, h => by
    simp only [runFiltered, runPlain]
    -- whichever threshold the scan saw, the heap after this row is `heapStep heap x`
    have key : (if rejects le (seenThreshold pubs picks.head?) x = true then heap
        else heapStep le k heap x) = heapStep le k heap x := by
      split
      · rename_i hrej
        cases hs : seenThreshold pubs picks.head? with
        | none => rw [hs] at hrej; simp [rejects] at hrej
        | some t =>
          rw [hs] at hrej
          have : passes le t x = false := by simpa [rejects] using hrej
          exact (rejected_noop le total trans k heap pubs h t x (seen_mem pubs _ t hs) this).symm
      · rfl
    rw [key]
    apply runFiltered_eq_runPlain k xs
    exact heapInv_publish le total trans k _ pubs (heapStep_inv le total trans k heap pubs x h)

end TopK

end DfModel.Proofs.C31
