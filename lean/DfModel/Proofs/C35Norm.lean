/-
  Helper lemmas for C35: the expression rewrites of `normExpr` are exact.  Core Lean only.
-/
import DfModel.Sql.Judge
namespace DfModel.Proofs.C35Norm
open DfModel DfModel.Judge

/-! ## expression rewrites are exact -/

theorem ofVal_toVal (x : Tri) : Tri.ofVal? x.toVal = some x := by cases x <;> rfl

theorem evalNot_toVal (x : Tri) : evalNot x.toVal = .ok x.not.toVal := by
  simp [evalNot, ofVal_toVal]

theorem eval_not (a : Expr) (ρ : Row) (env : Env) : eval (.not a) ρ env = (do evalNot (← eval a ρ env)) := by
  rw [eval]

theorem eval_mkNot (a : Expr) (ρ : Row) (env : Env) : eval (mkNot a) ρ env = eval (.not a) ρ env := by
  unfold mkNot
  split
  · rename_i b
    simp only [eval_not]
    cases h : eval b ρ env with
    | error e => rfl
    | ok v => rcases v with _ | _ | b | _ <;> (try cases b) <;> rfl
  · rfl

theorem evalBin_ne (x y : Val) : evalBin .ne x y = (do evalNot (← evalBin .eq x y)) := by
  cases x <;> cases y <;> simp only [evalBin, sameKind, ordIs, bind, Except.bind, evalNot, Tri.ofVal?] <;> try rfl
  all_goals (generalize cmpVal _ _ = o; cases o <;> rfl)

theorem evalIs_notNull (v : Val) : evalIs .null true v = (do evalNot (← evalIs .null false v)) := by
  cases v <;> simp [evalIs, evalNot, Val.isNull, Tri.ofVal?, Tri.not, Tri.toVal, bind, Except.bind]

theorem evalLike_neg (ci : Bool) (esc : Option Char) (x y : Val) :
    evalLike true ci esc x y = (do evalNot (← evalLike false ci esc x y)) := by
  cases x <;> cases y <;> simp [evalLike, evalNot, Tri.ofVal?, Tri.not, Tri.toVal, bind, Except.bind]
  rename_i s p
  generalize likeMatch _ _ = b
  cases b <;> simp [Tri.ofVal?, Tri.not, Tri.toVal]

mutual
theorem normExpr_eval : ∀ (e : Expr) (ρ : Row) (env : Env), eval (normExpr e) ρ env = eval e ρ env
  | .col i, ρ, env => by simp [normExpr]
  | .outer i, ρ, env => by simp [normExpr]
  | .lit v, ρ, env => by simp [normExpr]
  | .ph i, ρ, env => by simp [normExpr]
  | .bin op a b, ρ, env => by
    have ha := normExpr_eval a ρ env
    have hb := normExpr_eval b ρ env
    by_cases hop : op = .ne
    · subst hop
      simp only [normExpr, eval_mkNot]
      rw [eval, eval, eval, ha, hb]
      cases eval a ρ env with
      | error e => rfl
      | ok x =>
        cases eval b ρ env with
        | error e => rfl
        | ok y => simp only [bind, Except.bind]; rw [evalBin_ne]; rfl
    · have : normExpr (.bin op a b) = .bin op (normExpr a) (normExpr b) := by
        cases op <;> simp_all [normExpr]
      rw [this, eval, eval, ha, hb]
  | .not a, ρ, env => by
    simp only [normExpr, eval_mkNot]
    rw [eval, eval, normExpr_eval a ρ env]
  | .neg a, ρ, env => by
    simp only [normExpr]
    rw [eval, eval, normExpr_eval a ρ env]
  | .is k n a, ρ, env => by
    have ha := normExpr_eval a ρ env
    by_cases hk : k = .null ∧ n = true
    · obtain ⟨rfl, rfl⟩ := hk
      simp only [normExpr, eval_mkNot]
      rw [eval, eval, eval, ha]
      cases eval a ρ env with
      | error e => rfl
      | ok x => simp only [bind, Except.bind]; rw [evalIs_notNull]; rfl
    · have : normExpr (.is k n a) = .is k n (normExpr a) := by
        cases k <;> cases n <;> simp_all [normExpr]
      rw [this, eval, eval, ha]
  | .inList n a l, ρ, env => by
    have ha := normExpr_eval a ρ env
    have hl := normExprs_eval l ρ env
    cases n with
    | false => simp only [normExpr]; rw [eval, eval, ha, hl]
    | true =>
      simp only [normExpr, eval_mkNot]
      rw [eval, eval, eval, ha, hl]
      cases eval a ρ env with
      | error e => rfl
      | ok x =>
        cases evalList l ρ env with
        | error e => rfl
        | ok vs =>
          simp only [bind, Except.bind]
          cases inListTri x vs with
          | error e => rfl
          | ok r => simp [pure, Except.pure, evalNot_toVal]
  | .between n a lo hi, ρ, env => by
    have ha := normExpr_eval a ρ env
    have hlo := normExpr_eval lo ρ env
    have hhi := normExpr_eval hi ρ env
    cases n with
    | false => simp only [normExpr]; rw [eval, eval, ha, hlo, hhi]
    | true =>
      simp only [normExpr, eval_mkNot]
      rw [eval, eval, eval, ha, hlo, hhi]
      cases eval a ρ env with
      | error e => rfl
      | ok x =>
        cases eval lo ρ env with
        | error e => rfl
        | ok l =>
          cases eval hi ρ env with
          | error e => rfl
          | ok h =>
            simp only [bind, Except.bind]
            cases evalBin .ge x l with
            | error e => rfl
            | ok c1 =>
              cases evalBin .le x h with
              | error e => rfl
              | ok c2 =>
                simp only []
                cases evalBin .and c1 c2 with
                | error e => rfl
                | ok r => simp [pure, Except.pure]
  | .case o ws e, ρ, env => by
    have hws := normWhens_eval ws ρ env
    cases o with
    | none =>
      cases e with
      | none => simp only [normExpr, normOptExpr, eval, hws]
      | some e' => simp only [normExpr, normOptExpr, eval, hws, normExpr_eval e' ρ env]
    | some o' =>
      cases e with
      | none => simp only [normExpr, normOptExpr, eval, hws, normExpr_eval o' ρ env]
      | some e' => simp only [normExpr, normOptExpr, eval, hws, normExpr_eval o' ρ env, normExpr_eval e' ρ env]
  | .coalesce l, ρ, env => by
    simp only [normExpr]
    rw [eval, eval, normCoalesce_eval l ρ env]
  | .nullif a b, ρ, env => by
    simp only [normExpr]
    rw [eval, eval, normExpr_eval a ρ env, normExpr_eval b ρ env]
  | .cast t tr a, ρ, env => by
    simp only [normExpr]
    rw [eval, eval, normExpr_eval a ρ env]
  | .like n ci a p esc, ρ, env => by
    have ha := normExpr_eval a ρ env
    have hp := normExpr_eval p ρ env
    cases n with
    | false => simp only [normExpr]; rw [eval, eval, ha, hp]
    | true =>
      simp only [normExpr, eval_mkNot]
      rw [eval, eval, eval, ha, hp]
      cases eval a ρ env with
      | error e => rfl
      | ok x =>
        cases eval p ρ env with
        | error e => rfl
        | ok y => simp only [bind, Except.bind]; rw [evalLike_neg]; rfl
theorem normExprs_eval : ∀ (l : List Expr) (ρ : Row) (env : Env), evalList (normExprs l) ρ env = evalList l ρ env
  | [], ρ, env => by simp [normExprs]
  | e :: es, ρ, env => by
    simp only [normExprs]
    rw [evalList, evalList, normExpr_eval e ρ env, normExprs_eval es ρ env]
theorem normWhens_eval : ∀ (ws : List (Expr × Expr)) (ρ : Row) (env : Env) (x : Option Val),
    evalWhens x (normWhens ws) ρ env = evalWhens x ws ρ env
  | [], ρ, env, x => by simp [normWhens]
  | (w, t) :: rest, ρ, env, x => by
    simp only [normWhens]
    rw [evalWhens, evalWhens, normExpr_eval w ρ env, normExpr_eval t ρ env]
    simp only [normWhens_eval rest ρ env x]
theorem normCoalesce_eval : ∀ (l : List Expr) (ρ : Row) (env : Env), evalCoalesce (normExprs l) ρ env = evalCoalesce l ρ env
  | [], ρ, env => by simp [normExprs]
  | e :: es, ρ, env => by
    simp only [normExprs]
    rw [evalCoalesce, evalCoalesce, normExpr_eval e ρ env]
    simp only [normCoalesce_eval es ρ env]
end

end DfModel.Proofs.C35Norm
