/-
  C16 helper lemmas, part H: termination of the reader once the writers' side is quiet (decreasing
  measure `mu`), no Pending in that situation, the combined invariant `Inv` and its preservation
  along every schedule of the repaired code.  Core Lean only.
-/
import DfModel.Proofs.C16g
namespace DfModel.Proofs.C16
open DfModel.Sm.SpillPool

/-! ### termination of the reader once the writers' side is quiet -/

/-- nothing more will be written: no live sink, every file finished -/
def Quiet (s : St) : Prop := s.count = 0 ∧ ∀ f, f < s.nfiles → s.finished f = true

theorem quiet_stepReader (s : St) (h : Quiet s) : Quiet (stepReader s) := by
  unfold Quiet at *; simpa using h

/-- batches written but not yet delivered -/
def undel (s : St) : Nat := (catW s.written s.nfiles).length - s.delivered.length

def rank (s : St) : Nat :=
  match s.rpc with
  | .idle => if s.cur = none then 6 else 4
  | .noFile => 5
  | .pendPool => 5
  | .atFile => 3
  | .chkFin => 2
  | .popping => 1

/-- the decreasing measure: reader regions still to run before EOS -/
def mu (s : St) : Nat :=
  if s.done then 0 else 1 + 5 * (s.nfiles - s.popped) + 2 * undel s + rank s

theorem stepReader_done_sticky (s : St) (h : s.done = true) : (stepReader s).done = true := by
  unfold stepReader; (repeat' split) <;> simp [h]

theorem readerIter_done_sticky (n : Nat) (s : St) (h : s.done = true) : (readerIter n s).done = true := by
  induction n generalizing s with
  | zero => exact h
  | succ n ih => exact ih _ (stepReader_done_sticky s h)

/-- the current file's unread part is still undelivered -/
theorem undel_pos (s : St) (hr : Rd s) (f : Nat) (hc : s.cur = some f) (hlt : s.rread < (s.written f).length) :
    s.delivered.length + ((s.written f).length - s.rread) ≤ (catW s.written s.nfiles).length := by
  have hf := hr.cur_eq f hc
  have e := hf.1
  subst e
  have hle := hr.read_le _ hc
  have hd := hr.del_some _ hc
  have hpre : catW s.written (s.popped + 1) <+: catW s.written s.nfiles :=
    catW_prefix _ _ _ (by omega)
  have hlen := hpre.length_le
  simp only [catW, List.length_append] at hlen
  rw [hd, List.length_append, List.length_take]
  omega


theorem mu_decreases (s : St) (hr : Rd s) (hq : Quiet s) (hd : s.done = false) :
    mu (stepReader s) < mu s := by
  obtain ⟨hq1, hq2⟩ := hq
  have r1 := hr.popped_le
  have r3 := hr.cur_eq
  have r4 := hr.read_le
  have r7 := hr.pc_atFile
  have r8 := hr.pc_chk
  have r9 := hr.pc_pend
  have r10 := hr.pc_noFile
  have r11 := hr.handle_ok
  unfold stepReader
  split
  · -- idle
    rename_i hpc
    by_cases hc : s.cur = none <;> simp [mu, rank, undel, hd, hpc, hc]
  · -- atFile
    rename_i hpc
    split
    · rename_i hc; exact absurd hc (r7 hpc)
    · rename_i f hc
      have hf := r3 f hc
      split
      · rename_i hlt
        have hu := undel_pos s hr f hc hlt
        split
        · simp only [mu, rank, undel, hd, hpc, hc, List.length_append, List.length_cons, List.length_nil]
          simp
          omega
        · rename_i hh
          have := r11 f hf.2 (by omega) (by intro hx; simp [hx.2] at hh)
          simp [this] at hh
      · split
        · simp [mu, rank, undel, hd, hpc]
        · rename_i hfin; have := hq2 f hf.2; simp [this] at hfin
  · -- chkFin
    rename_i hpc
    obtain ⟨f, hc, hfin, _⟩ := r8 (Or.inl hpc)
    simp [mu, rank, undel, hd, hpc, hc, hfin]
  · -- popping
    rename_i hpc
    obtain ⟨f, hc, hfin, _⟩ := r8 (Or.inr hpc)
    have hf := r3 f hc
    have : s.popped < s.nfiles := by omega
    simp [mu, rank, undel, hd, hpc, this]
    omega
  · -- pendPool
    rename_i hpc
    have := r9 hpc
    simp [mu, rank, undel, hd, hpc, this]
  · -- noFile
    rename_i hpc
    split
    · simp [mu, rank, undel, hd, hpc]
    · simp [mu, rank, undel, hd, hpc]

/-- with the writers' side quiet, the reader reaches EOS within `mu s` regions -/
theorem reader_reaches_eos (n : Nat) (s : St) (hr : Rd s) (hq : Quiet s) (hn : mu s ≤ n) :
    (readerIter n s).done = true := by
  induction n generalizing s with
  | zero =>
    cases hd : s.done with
    | true => exact hd
    | false => simp [mu, hd] at hn
  | succ n ih =>
    cases hd : s.done with
    | true => exact readerIter_done_sticky _ s hd
    | false =>
      have := mu_decreases s hr hq hd
      exact ih _ (rd_stepReader s hr) (quiet_stepReader s hq) (by omega)

/-- … and no poll that starts in a quiet state returns Pending -/
def NoPend (s : St) : Prop := s.parked = false ∧ s.rpc ≠ .pendPool ∧ s.last ≠ some .pending

theorem nopend_stepReader (s : St) (hr : Rd s) (hq : Quiet s) (h : NoPend s ∨ s.rpc = .idle) :
    NoPend (stepReader s) := by
  obtain ⟨hq1, hq2⟩ := hq
  have r3 := hr.cur_eq
  have r11 := hr.handle_ok
  unfold NoPend at *
  unfold stepReader
  (repeat' split) <;> dsimp only <;> grind

theorem nopend_readerIter (n : Nat) (s : St) (hr : Rd s) (hq : Quiet s) (h : NoPend s ∨ s.rpc = .idle) :
    NoPend (readerIter (n + 1) s) := by
  induction n generalizing s with
  | zero => exact nopend_stepReader s hr hq h
  | succ n ih =>
    exact ih _ (rd_stepReader s hr) (quiet_stepReader s hq) (Or.inl (nopend_stepReader s hr hq h))


/-! ### the combined invariant -/

structure Inv (s : St) : Prop where
  own : Own s
  cnt : Cnt s
  rd : Rd s
  wk : Wk s
  logp : LogP s
  donei : DoneI s

theorem inv_init (m : Nat) : Inv (init m) :=
  ⟨own_init m, cnt_init m, rd_init m, wk_init m, logp_init m, donei_init m⟩

/-- one region of any thread, with any environment choice, preserves the invariant (repaired code) -/
theorem inv_step (s : St) (a : Act) (h : Inv s) : Inv (step true s a) :=
  ⟨own_step s a h.own, cnt_step true s a h.cnt, rd_step true s a h.own h.rd,
   wk_step true s a h.own h.rd h.wk, logp_step true s a h.own h.logp,
   donei_step true s a h.cnt h.rd h.donei⟩

theorem inv_run (s : St) (acts : List Act) (h : Inv s) : Inv (run true s acts) := by
  induction acts generalizing s with
  | nil => exact h
  | cons a as ih => exact ih _ (inv_step s a h)

theorem inv_reach (m : Nat) (acts : List Act) : Inv (run true (init m) acts) :=
  inv_run _ acts (inv_init m)

theorem readerIter_eq_run (fx : Bool) (n : Nat) (s : St) :
    readerIter n s = run fx s (List.replicate n .reader) := by
  induction n generalizing s with
  | zero => rfl
  | succ n ih => simp only [readerIter, List.replicate_succ, run, step]; exact ih _

theorem run_append (fx : Bool) (s : St) (as bs : List Act) :
    run fx s (as ++ bs) = run fx (run fx s as) bs := by
  induction as generalizing s with
  | nil => rfl
  | cons a as ih => simp only [List.cons_append, run]; exact ih _

/-- every sink has been dropped (and its Drop has run to completion) -/
def AllGone (s : St) : Prop := ∀ w, w < s.nw → s.wpc w = .gone

theorem quiet_of_allGone (s : St) (h : Inv s) (hg : AllGone s) : Quiet s := by
  have hdead : ∀ w, w < s.nw → alive (s.wpc w) = false := fun w hw => by rw [hg w hw]; rfl
  have hc : s.count = 0 := by rw [h.cnt.count_eq]; exact cntAlive_all_dead _ _ hdead
  have hopen : s.open_ = [] := by
    cases hop : s.open_ with
    | nil => rfl
    | cons f fs => have := h.cnt.open_alive (by rw [hop]; simp); omega
  refine ⟨hc, ?_⟩
  intro f hf
  cases hfin : s.finished f with
  | true => rfl
  | false =>
    rcases h.own.unfin f hf hfin with hm | ⟨w, hw, hm⟩
    · rw [hopen] at hm; cases hm
    · rw [hg w hw] at hm; simp [own] at hm

end DfModel.Proofs.C16
