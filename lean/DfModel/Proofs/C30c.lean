/-
  C30 helper lemmas, part 3: rows produced by the relational operators conform to `schemaOf`.
-/
import DfModel.Proofs.C30b
namespace DfModel.Proofs.C30
open DfModel

theorem mapM_ok_mem {ε α β : Type} (f : α → Except ε β) (l : List α) (out : List β) (h : l.mapM f = .ok out) :
    ∀ y ∈ out, ∃ x ∈ l, f x = .ok y := by
  induction l generalizing out with
  | nil => simp [pure, Except.pure] at h; subst h; simp
  | cons a as ih =>
    simp only [List.mapM_cons] at h
    obtain ⟨b, hb, h⟩ := bind_ok h
    obtain ⟨bs, hbs, h⟩ := bind_ok h
    have := pure_ok h
    subst this
    intro y hy
    simp only [List.mem_cons] at hy
    rcases hy with rfl | hy
    · exact ⟨a, by simp, hb⟩
    · obtain ⟨x, hx, hfx⟩ := ih bs hbs y hy
      exact ⟨x, by simp [hx], hfx⟩

theorem evalFilter_mem (e : Expr) (env : Env) (rows out : List Row) (h : evalFilter e env rows = .ok out) :
    ∀ r ∈ out, r ∈ rows := by
  induction rows generalizing out with
  | nil => simp [evalFilter] at h; subst h; simp
  | cons a as ih =>
    simp only [evalFilter] at h
    obtain ⟨b, _, h⟩ := bind_ok h
    obtain ⟨rest, hrest, h⟩ := bind_ok h
    have := pure_ok h
    subst this
    intro r hr
    split at hr
    · simp only [List.mem_cons] at hr
      rcases hr with rfl | hr
      · simp
      · simp [ih rest hrest r hr]
    · simp [ih rest hrest r hr]

theorem evalExprs_sound (Γ : TEnv) (ρ : Row) (env : Env) (hE : EnvOk Γ ρ env) (es : List Expr) (S : Schema) (r' : Row)
    (ht : typeExprs es Γ = .ok S) (hv : evalExprs es ρ env = .ok r') : rowConforms r' S = true := by
  simp only [typeExprs] at ht
  simp only [evalExprs] at hv
  induction es generalizing S r' with
  | nil =>
    simp [pure, Except.pure] at ht hv
    subst ht hv
    rfl
  | cons e es ih =>
    simp only [List.mapM_cons] at ht hv
    obtain ⟨t, ht1, ht⟩ := bind_ok ht
    obtain ⟨ts, hts, ht⟩ := bind_ok ht
    obtain ⟨v, hv1, hv⟩ := bind_ok hv
    obtain ⟨vs, hvs, hv⟩ := bind_ok hv
    have := pure_ok ht
    subst this
    have := pure_ok hv
    subst this
    simp only [rowConforms, Bool.and_eq_true]
    exact ⟨(okv_iff _ _).mp (type_sound_expr Γ ρ env hE e t v ht1 hv1), ih ts vs hts hvs⟩

theorem insertBy_mem {α : Type} (le : α → α → Bool) (x : α) (l : List α) : ∀ y, y ∈ insertBy le x l ↔ y = x ∨ y ∈ l :=
  fun y => (insertBy_perm le x l).mem_iff.trans (by simp)

theorem evalSort_mem (ks : List (Expr × SortOpt)) (env : Env) (rows out : List Row) (h : evalSort ks env rows = .ok out) :
    ∀ r ∈ out, r ∈ rows := by
  simp only [evalSort] at h
  obtain ⟨keyed, hk, h⟩ := bind_ok h
  have := pure_ok h
  subst this
  intro r hr
  simp only [List.mem_map] at hr
  obtain ⟨kr, hkr, rfl⟩ := hr
  have hmem : kr ∈ keyed := (sortBy'_perm _ keyed).mem_iff.mp hkr
  obtain ⟨x, hx, hfx⟩ := mapM_ok_mem _ rows keyed hk kr hmem
  obtain ⟨k, _, hfx⟩ := bind_ok hfx
  have := pure_ok hfx
  subst this
  exact hx

theorem limitRows_mem (s : Nat) (f : Option Nat) (rows : List Row) : ∀ r ∈ limitRows s f rows, r ∈ rows := by
  intro r hr
  cases f with
  | none => exact List.mem_of_mem_drop hr
  | some n => exact List.mem_of_mem_drop (List.mem_of_mem_take hr)

theorem dedup_mem {α : Type} [BEq α] (l : List α) : ∀ x ∈ dedup l, x ∈ l := by
  induction l with
  | nil => simp [dedup]
  | cons a as ih =>
    intro x hx
    simp only [dedup, List.mem_cons, List.mem_filter] at hx
    rcases hx with rfl | ⟨hx, _⟩
    · simp
    · simp [ih x hx]

theorem intersectAll_mem (A B : List Row) : ∀ r ∈ intersectAll A B, r ∈ A := by
  induction A generalizing B with
  | nil => simp [intersectAll]
  | cons a as ih =>
    intro r hr
    simp only [intersectAll] at hr
    split at hr
    · simp only [List.mem_cons] at hr
      rcases hr with rfl | hr
      · simp
      · simp [ih _ r hr]
    · simp [ih _ r hr]

theorem exceptAll_mem (A B : List Row) : ∀ r ∈ exceptAll A B, r ∈ A := by
  induction A generalizing B with
  | nil => simp [exceptAll]
  | cons a as ih =>
    intro r hr
    simp only [exceptAll] at hr
    split at hr
    · simp [ih _ r hr]
    · simp only [List.mem_cons] at hr
      rcases hr with rfl | hr
      · simp
      · simp [ih _ r hr]

theorem setOp_mem (k : SetKind) (all : Bool) (A B : List Row) :
    ∀ r ∈ setOp k all A B, r ∈ A ∨ (k = .union ∧ r ∈ B) := by
  intro r hr
  cases k <;> cases all <;> simp only [setOp] at hr
  · have := dedup_mem _ r hr
    simp only [List.mem_append] at this
    rcases this with h | h
    · exact Or.inl h
    · exact Or.inr ⟨rfl, h⟩
  · simp only [List.mem_append] at hr
    rcases hr with h | h
    · exact Or.inl h
    · exact Or.inr ⟨rfl, h⟩
  · exact Or.inl (dedup_mem _ r (List.mem_filter.mp hr).1)
  · exact Or.inl (intersectAll_mem A B r hr)
  · exact Or.inl (dedup_mem _ r (List.mem_filter.mp hr).1)
  · exact Or.inl (exceptAll_mem A B r hr)

theorem conforms_weaken (v : Val) (a b : Ty × Bool) (t : Ty) (n : Bool) (hu : unifyTy a.1 b.1 = some t)
    (hn : a.2 = true → n = true) (h : v.conforms a = true) : v.conforms (t, n) = true := by
  have ho := (okv_iff v a).mpr h
  apply (okv_iff v (t, n)).mp
  refine ⟨hasTy_unify_left _ _ _ _ hu ho.1, fun hf => ?_⟩
  apply ho.2
  cases ha : a.2 with
  | false => rfl
  | true => rw [hn ha] at hf; cases hf

theorem conforms_weaken_right (v : Val) (a b : Ty × Bool) (t : Ty) (n : Bool) (hu : unifyTy a.1 b.1 = some t)
    (hn : b.2 = true → n = true) (h : v.conforms b = true) : v.conforms (t, n) = true := by
  have ho := (okv_iff v b).mpr h
  apply (okv_iff v (t, n)).mp
  refine ⟨hasTy_unify_right _ _ _ _ hu ho.1, fun hf => ?_⟩
  apply ho.2
  cases hb : b.2 with
  | false => rfl
  | true => rw [hn hb] at hf; cases hf

theorem unifySchemas_left (L R S : Schema) (f : Bool → Bool → Bool) (hf : ∀ a b, a = true → f a b = true)
    (h : unifySchemas L R f = .ok S) (r : Row) (hr : rowConforms r L = true) : rowConforms r S = true := by
  induction L generalizing R S r with
  | nil =>
    cases R with
    | nil => simp [unifySchemas] at h; subst h; exact hr
    | cons _ _ => simp [unifySchemas] at h
  | cons a as ih =>
    cases R with
    | nil => simp [unifySchemas] at h
    | cons b bs =>
      simp only [unifySchemas] at h
      obtain ⟨t, ht, h⟩ := bind_ok h
      obtain ⟨rest, hrest, h⟩ := bind_ok h
      have := pure_ok h
      subst this
      cases r with
      | nil => simp [rowConforms] at hr
      | cons v vs =>
        simp only [rowConforms, Bool.and_eq_true] at hr ⊢
        exact ⟨conforms_weaken v a b t _ ((unifyE_ok _ _ _).mp ht) (hf a.2 b.2) hr.1, ih bs rest hrest vs hr.2⟩

theorem unifySchemas_right (L R S : Schema) (f : Bool → Bool → Bool) (hf : ∀ a b, b = true → f a b = true)
    (h : unifySchemas L R f = .ok S) (r : Row) (hr : rowConforms r R = true) : rowConforms r S = true := by
  induction L generalizing R S r with
  | nil =>
    cases R with
    | nil => simp [unifySchemas] at h; subst h; exact hr
    | cons _ _ => simp [unifySchemas] at h
  | cons a as ih =>
    cases R with
    | nil => simp [unifySchemas] at h
    | cons b bs =>
      simp only [unifySchemas] at h
      obtain ⟨t, ht, h⟩ := bind_ok h
      obtain ⟨rest, hrest, h⟩ := bind_ok h
      have := pure_ok h
      subst this
      cases r with
      | nil => simp [rowConforms] at hr
      | cons v vs =>
        simp only [rowConforms, Bool.and_eq_true] at hr ⊢
        exact ⟨conforms_weaken_right v a b t _ ((unifyE_ok _ _ _).mp ht) (hf a.2 b.2) hr.1, ih bs rest hrest vs hr.2⟩

end DfModel.Proofs.C30
