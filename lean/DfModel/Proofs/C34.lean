/-
  Helper lemmas for C34 (core Lean only).
-/
import DfModel.Base.ScalarModel
namespace DfModel.Proofs.C34
open DfModel.ScalarModel

/-! ### replicate / index helpers -/

theorem getElem?_replicate_lt {α} (x : α) {n i : Nat} (h : i < n) : (List.replicate n x)[i]? = some x := by
  simp [List.getElem?_replicate, h]

/-! ### round trip, primitive -/

theorem pToArray_get (p : PScalar) (n i : Nat) (h : i < n) (a : PArr) (ha : pToArray p n = .ok a) :
    pFromArray a i = .ok p := by
  obtain ⟨ty, v⟩ := p
  unfold pToArray at ha
  cases v with
  | none =>
    simp only at ha
    cases ha
    simp [pFromArray, getElem?_replicate_lt _ h]
  | some x =>
    simp only at ha
    split at ha
    · cases ha
      simp [pFromArray, getElem?_replicate_lt _ h]
    · cases ha

theorem pToArray_ty (p : PScalar) (n : Nat) (a : PArr) (ha : pToArray p n = .ok a) :
    a.ty = p.ty ∧ a.valid.length = n ∧ a.data.length = n := by
  unfold pToArray at ha
  cases hv : p.v with
  | none => rw [hv] at ha; cases ha; simp
  | some x =>
    rw [hv] at ha
    simp only at ha
    split at ha
    · cases ha; simp
    · cases ha

/-! ### iter_to_array, primitive -/

theorem collectP_get (t0 : PTy) : ∀ (xs : List Scalar) (vs : List Bool) (ds : List PVal),
    collectP t0 xs = .ok (vs, ds) →
    ∀ (i : Nat) (hi : i < xs.length), ∃ p : PScalar, xs[i] = .prim p ∧ sameVariant t0 p.ty = true ∧
      pFromArray ⟨t0, vs, ds⟩ i = .ok ⟨t0, p.v⟩ := by
  intro xs
  induction xs with
  | nil => intro vs ds _ i hi; simp at hi
  | cons x rest ih =>
    intro vs ds h i hi
    cases x with
    | prim p =>
      simp only [collectP] at h
      split at h
      · rename_i hc
        cases hr : collectP t0 rest with
        | error e => rw [hr] at h; cases h
        | ok pr =>
          obtain ⟨vs', ds'⟩ := pr
          rw [hr] at h
          simp only [Except.ok.injEq, Prod.mk.injEq] at h
          obtain ⟨rfl, rfl⟩ := h
          cases i with
          | zero =>
            refine ⟨p, rfl, ?_, ?_⟩
            · simp only [Bool.and_eq_true] at hc; exact hc.1
            · cases hv : p.v <;> simp [pFromArray, hv]
          | succ j =>
            obtain ⟨q, hq, hs, hg⟩ := ih vs' ds' hr j (by simpa using hi)
            refine ⟨q, by simpa using hq, hs, ?_⟩
            simpa [pFromArray] using hg
      · cases h
    | dict k p => simp [collectP] at h
    | list e v => simp [collectP] at h
    | struct fs v => simp [collectP] at h

theorem collectP_length (t0 : PTy) : ∀ (xs : List Scalar) (vs : List Bool) (ds : List PVal),
    collectP t0 xs = .ok (vs, ds) → vs.length = xs.length ∧ ds.length = xs.length := by
  intro xs
  induction xs with
  | nil => intro vs ds h; simp [collectP] at h; obtain ⟨rfl, rfl⟩ := h; simp
  | cons x rest ih =>
    intro vs ds h
    cases x with
    | prim p =>
      simp only [collectP] at h
      split at h
      · cases hr : collectP t0 rest with
        | error e => rw [hr] at h; cases h
        | ok pr =>
          obtain ⟨vs', ds'⟩ := pr
          rw [hr] at h
          simp only [Except.ok.injEq, Prod.mk.injEq] at h
          obtain ⟨rfl, rfl⟩ := h
          have := ih vs' ds' hr
          simp [this.1, this.2]
      · cases h
    | dict k p => simp [collectP] at h
    | list e v => simp [collectP] at h
    | struct fs v => simp [collectP] at h

theorem collectDict_get (k : PTy) : ∀ (xs inner : List Scalar), collectDict k xs = .ok inner →
    inner.length = xs.length ∧
    ∀ (i : Nat) (hi : i < xs.length), ∃ p : PScalar, xs[i] = .dict k p ∧ inner[i]? = some (.prim p) := by
  intro xs
  induction xs with
  | nil => intro inner h; simp [collectDict] at h; subst h; simp
  | cons x rest ih =>
    intro inner h
    cases x with
    | dict k' p =>
      simp only [collectDict] at h
      split at h
      · rename_i hk
        subst hk
        cases hr : collectDict k' rest with
        | error e => rw [hr] at h; cases h
        | ok r =>
          rw [hr] at h
          simp only [Except.map, Except.ok.injEq] at h
          subst h
          obtain ⟨hl, hg⟩ := ih r hr
          refine ⟨by simp [hl], ?_⟩
          intro i hi
          cases i with
          | zero => exact ⟨p, rfl, rfl⟩
          | succ j =>
            obtain ⟨q, hq, hi'⟩ := hg j (by simpa using hi)
            exact ⟨q, by simpa using hq, by simpa using hi'⟩
      · cases h
    | prim p => simp [collectDict] at h
    | list e v => simp [collectDict] at h
    | struct fs v => simp [collectDict] at h

theorem collectRows_get (t : Ty) : ∀ (xs : List Scalar) (rows : List (Option (List PScalar))),
    collectRows t xs = .ok rows →
    rows.length = xs.length ∧
    ∀ (i : Nat) (hi : i < xs.length), xs[i].ty = t ∧
      ((∃ e v, xs[i] = .list e v ∧ rows[i]? = some v) ∨ (∃ fs v, xs[i] = .struct fs v ∧ rows[i]? = some v)) := by
  intro xs
  induction xs with
  | nil => intro rows h; simp [collectRows] at h; subst h; simp
  | cons x rest ih =>
    intro rows h
    simp only [collectRows] at h
    split at h
    · rename_i hty
      cases hr : collectRows t rest with
      | error e =>
        rw [hr] at h
        cases x <;> simp at h
      | ok r =>
        rw [hr] at h
        obtain ⟨hl, hg⟩ := ih r hr
        cases x with
        | prim p => simp at h
        | dict k p => simp at h
        | list e v =>
          simp only [Except.ok.injEq] at h
          subst h
          refine ⟨by simp [hl], ?_⟩
          intro i hi
          cases i with
          | zero => exact ⟨hty, Or.inl ⟨e, v, rfl, rfl⟩⟩
          | succ j =>
            obtain ⟨h1, h2⟩ := hg j (by simpa using hi)
            exact ⟨by simpa using h1, by simpa using h2⟩
        | struct fs v =>
          simp only [Except.ok.injEq] at h
          subst h
          refine ⟨by simp [hl], ?_⟩
          intro i hi
          cases i with
          | zero => exact ⟨hty, Or.inr ⟨fs, v, rfl, rfl⟩⟩
          | succ j =>
            obtain ⟨h1, h2⟩ := hg j (by simpa using hi)
            exact ⟨by simpa using h1, by simpa using h2⟩
    · cases h

/-! ### order on payloads -/

theorem cmpInt_swap (a b : Int) : cmpInt b a = (cmpInt a b).swap := by
  unfold cmpInt
  by_cases h1 : a < b <;> by_cases h2 : b < a <;> simp [h1, h2, Ordering.swap] <;> omega

theorem cmpInt_eq_iff (a b : Int) : cmpInt a b = .eq ↔ a = b := by
  unfold cmpInt
  by_cases h1 : a < b <;> by_cases h2 : b < a <;> simp [h1, h2] <;> omega

theorem cmpInt_le_trans {a b c : Int} (h1 : cmpInt a b ≠ .gt) (h2 : cmpInt b c ≠ .gt) : cmpInt a c ≠ .gt := by
  have k : ∀ x y : Int, cmpInt x y ≠ .gt ↔ x ≤ y := by
    intro x y; unfold cmpInt
    by_cases h1 : x < y
    · simp [h1]; omega
    · by_cases h2 : y < x
      · simp [h1, h2]
      · simp [h1, h2]; omega
  rw [k] at *; omega

theorem cmpBytes_swap : ∀ (a b : List Nat), cmpBytes b a = (cmpBytes a b).swap
  | [], [] => rfl
  | [], _ :: _ => rfl
  | _ :: _, [] => rfl
  | x :: xs, y :: ys => by
    simp only [cmpBytes]
    rcases Nat.lt_trichotomy x y with h | h | h
    · have h' : ¬ y < x := by omega
      simp [h, h', Ordering.swap]
    · subst h; simp [cmpBytes_swap xs ys]
    · have h' : ¬ x < y := by omega
      simp [h, h', Ordering.swap]

theorem cmpBytes_eq_iff : ∀ (a b : List Nat), cmpBytes a b = .eq ↔ a = b
  | [], [] => by simp [cmpBytes]
  | [], _ :: _ => by simp [cmpBytes]
  | _ :: _, [] => by simp [cmpBytes]
  | x :: xs, y :: ys => by
    simp only [cmpBytes]
    by_cases h1 : x < y <;> by_cases h2 : y < x <;> simp [h1, h2, cmpBytes_eq_iff xs ys] <;> omega

theorem cmpBytes_le_trans : ∀ (a b c : List Nat), cmpBytes a b ≠ .gt → cmpBytes b c ≠ .gt → cmpBytes a c ≠ .gt
  | [], [], [] => by simp [cmpBytes]
  | [], [], _ :: _ => by simp [cmpBytes]
  | [], _ :: _, [] => by simp [cmpBytes]
  | [], _ :: _, _ :: _ => by simp [cmpBytes]
  | _ :: _, [], _ => by simp [cmpBytes]
  | _ :: _, _ :: _, [] => by simp [cmpBytes]
  | x :: xs, y :: ys, z :: zs => by
    simp only [cmpBytes]
    intro h1 h2
    rcases Nat.lt_trichotomy x y with a | a | a
    · rcases Nat.lt_trichotomy y z with b | b | b
      · have : x < z := by omega
        simp [this]
      · subst b; simp [a]
      · have b' : ¬ y < z := by omega
        simp [b, b'] at h2
    · subst a
      rcases Nat.lt_trichotomy x z with b | b | b
      · simp [b]
      · subst b
        simp only [Nat.lt_irrefl, ite_false] at h1 h2 ⊢
        exact cmpBytes_le_trans xs ys zs h1 h2
      · have b' : ¬ x < z := by omega
        simp [b, b'] at h2
    · have a' : ¬ x < y := by omega
      simp [a, a'] at h1

theorem cmpPVal_swap (a b : PVal) : cmpPVal b a = (cmpPVal a b).swap := by
  cases a <;> cases b <;> simp only [cmpPVal, Ordering.swap]
  · rename_i x y
    cases x <;> cases y <;> simp
  · exact cmpInt_swap _ _
  · exact cmpBytes_swap _ _

theorem cmpPVal_eq_iff (a b : PVal) : cmpPVal a b = .eq ↔ a = b := by
  cases a <;> cases b <;> simp only [cmpPVal]
  · rename_i x y
    cases x <;> cases y <;> simp
  all_goals first
    | (simp; done)
    | (rw [cmpInt_eq_iff]; simp)
    | (rw [cmpBytes_eq_iff]; simp)

theorem cmpPVal_le_trans (a b c : PVal) (h1 : cmpPVal a b ≠ .gt) (h2 : cmpPVal b c ≠ .gt) :
    cmpPVal a c ≠ .gt := by
  cases a <;> cases b <;> cases c <;> simp only [cmpPVal] at * <;> try (simp at *; done)
  · rename_i x y z
    cases x <;> cases y <;> cases z <;> simp at *
  · exact cmpInt_le_trans h1 h2
  · exact cmpBytes_le_trans _ _ _ h1 h2

theorem cmpOpt_swap (a b : Option PVal) : cmpOpt b a = (cmpOpt a b).swap := by
  cases a <;> cases b <;> simp only [cmpOpt] <;> try rfl
  rename_i x y
  exact cmpPVal_swap x y

theorem cmpOpt_eq_iff (a b : Option PVal) : cmpOpt a b = .eq ↔ a = b := by
  cases a <;> cases b <;> simp [cmpOpt, cmpPVal_eq_iff]

theorem cmpOpt_le_trans (a b c : Option PVal) (h1 : cmpOpt a b ≠ .gt) (h2 : cmpOpt b c ≠ .gt) :
    cmpOpt a c ≠ .gt := by
  cases a <;> cases b <;> cases c <;> simp [cmpOpt] at *
  exact cmpPVal_le_trans _ _ _ h1 h2

theorem sameVariant_refl (t : PTy) : sameVariant t t = true := by
  cases t <;> simp [sameVariant]

theorem comparable_refl (t : PTy) : comparable t t = true := by
  cases t <;> simp [comparable, sameVariant]

theorem sameVariant_symm (a b : PTy) : sameVariant a b = sameVariant b a := by
  cases a <;> cases b <;> simp only [sameVariant] <;>
    first | rfl | exact BEq.comm | (congr 1 <;> exact BEq.comm)

theorem comparable_symm (a b : PTy) : comparable a b = comparable b a := by
  cases a <;> cases b <;> simp only [comparable, sameVariant] <;>
    first | rfl | exact BEq.comm | (congr 1 <;> exact BEq.comm)

end DfModel.Proofs.C34
