/-
  C51 helper lemmas (b): the reference CSV decoder inverts the csv-core writer model.
  Core Lean only.
-/
import DfModel.Text.Csv
namespace DfModel.Proofs.C51Csv
open DfModel.Text.Csv

set_option linter.unusedSimpArgs false

/-- admissible delimiters: not the quote, not a record terminator (',' and '\t' are) -/
def DelimOk (d : Char) : Prop := (d == '"') = false ∧ isTerm d = false

theorem delimOk_comma : DelimOk ',' := ⟨by decide, by decide⟩
theorem delimOk_tab : DelimOk '\t' := ⟨by decide, by decide⟩

theorem special_false {d c : Char} (h : special d c = false) :
    (c == d) = false ∧ (c == '"') = false ∧ isTerm c = false := by
  simp only [special, Bool.or_eq_false_iff] at h
  simp [isTerm, h.1.1.1, h.1.1.2, h.1.2, h.2]

/-- scanning the rest of an unquoted field up to a delimiter -/
theorem unq_delim (d : Char) (g : List Char) (hg : g.any (special d) = false) :
    ∀ (f' : List Char) (r : List (List Char)) (rest : List Char),
      decode d .unq f' r (g ++ d :: rest) = decode d .start [] (r ++ [f' ++ g]) rest := by
  induction g with
  | nil => intro f' r rest; simp [decode]
  | cons c g ih =>
    intro f' r rest
    simp only [List.any_cons, Bool.or_eq_false_iff] at hg
    obtain ⟨h1, h2, h3⟩ := special_false hg.1
    simp [decode, h1, h3, ih hg.2]

theorem unq_term (d : Char) (g : List Char) (hg : g.any (special d) = false) (hd : DelimOk d) :
    ∀ (f' : List Char) (r : List (List Char)) (rest : List Char),
      decode d .unq f' r (g ++ '\n' :: rest) = (r ++ [f' ++ g]) :: decode d .start [] [] rest := by
  have hnd : ('\n' == d) = false := by
    have := hd.2
    simp only [isTerm, Bool.or_eq_false_iff] at this
    rw [Bool.eq_false_iff]; intro h; simp only [beq_iff_eq] at h
    subst h; simp at this
  induction g with
  | nil => intro f' r rest; simp [decode, hnd, isTerm]
  | cons c g ih =>
    intro f' r rest
    simp only [List.any_cons, Bool.or_eq_false_iff] at hg
    obtain ⟨h1, h2, h3⟩ := special_false hg.1
    simp [decode, h1, h3, ih hg.2]

/-- scanning the body of a quoted field up to closing quote + delimiter -/
theorem q_delim (d : Char) (hd : DelimOk d) (g : List Char) :
    ∀ (acc : List Char) (r : List (List Char)) (rest : List Char),
      decode d .q acc r (quoteBody g ++ '"' :: d :: rest) = decode d .start [] (r ++ [acc ++ g]) rest := by
  have hdq : (d == '"') = false := hd.1
  induction g with
  | nil => intro acc r rest; simp [quoteBody, decode, hdq]
  | cons c g ih =>
    intro acc r rest
    by_cases hc : c = '"'
    · subst hc; simp [quoteBody, decode, ih]
    · simp [quoteBody, decode, hc, ih]

theorem q_term (d : Char) (hd : DelimOk d) (g : List Char) :
    ∀ (acc : List Char) (r : List (List Char)) (rest : List Char),
      decode d .q acc r (quoteBody g ++ '"' :: '\n' :: rest)
        = (r ++ [acc ++ g]) :: decode d .start [] [] rest := by
  have hnd : ('\n' == d) = false := by
    have := hd.2
    simp only [isTerm, Bool.or_eq_false_iff] at this
    rw [Bool.eq_false_iff]; intro h; simp only [beq_iff_eq] at h
    subst h; simp at this
  induction g with
  | nil => intro acc r rest; simp [quoteBody, decode, hnd, isTerm]
  | cons c g ih =>
    intro acc r rest
    by_cases hc : c = '"'
    · subst hc; simp [quoteBody, decode, ih]
    · simp [quoteBody, decode, hc, ih]

/-- an encoded field followed by a delimiter: the field is recovered -/
theorem field_delim (d : Char) (hd : DelimOk d) (f : List Char) (r : List (List Char))
    (rest : List Char) :
    decode d .start [] r (encodeField d f ++ d :: rest) = decode d .start [] (r ++ [f]) rest := by
  unfold encodeField
  cases hq : needsQuotes d f with
  | true =>
    simp only [if_true, List.cons_append, List.append_assoc, List.singleton_append]
    simp only [decode, beq_self_eq_true, if_true]
    simpa using q_delim d hd f [] r rest
  | false =>
    simp only [Bool.false_eq_true, if_false]
    cases f with
    | nil => simp [decode, hd.1]
    | cons c g =>
      simp only [needsQuotes, List.any_cons, Bool.or_eq_false_iff] at hq
      obtain ⟨h1, h2, h3⟩ := special_false hq.1
      simp only [List.cons_append, decode, h1, h2, h3, Bool.false_eq_true, if_false]
      simpa using unq_delim d g hq.2 [c] r rest

/-- an encoded field followed by the terminator: the record is closed — unless the record is
    the single empty unquoted field (a blank line), which is why the writer emits `""` then -/
theorem field_term (d : Char) (hd : DelimOk d) (f : List Char) (r : List (List Char))
    (rest : List Char) (hne : ¬ (r = [] ∧ f = [])) :
    decode d .start [] r (encodeField d f ++ '\n' :: rest)
      = (r ++ [f]) :: decode d .start [] [] rest := by
  have hnd : ('\n' == d) = false := by
    have := hd.2
    simp only [isTerm, Bool.or_eq_false_iff] at this
    rw [Bool.eq_false_iff]; intro h; simp only [beq_iff_eq] at h
    subst h; simp at this
  unfold encodeField
  cases hq : needsQuotes d f with
  | true =>
    simp only [if_true, List.cons_append, List.append_assoc, List.singleton_append]
    simp only [decode, beq_self_eq_true, if_true]
    simpa using q_term d hd f [] r rest
  | false =>
    simp only [Bool.false_eq_true, if_false]
    cases f with
    | nil =>
      have hr : r ≠ [] := fun h => hne ⟨h, rfl⟩
      have : r.isEmpty = false := by cases r <;> simp_all
      simp [decode, hnd, isTerm, this]
    | cons c g =>
      simp only [needsQuotes, List.any_cons, Bool.or_eq_false_iff] at hq
      obtain ⟨h1, h2, h3⟩ := special_false hq.1
      simp only [List.cons_append, decode, h1, h2, h3, Bool.false_eq_true, if_false]
      simpa using unq_term d g hq.2 hd [c] r rest

theorem fields_term (d : Char) (hd : DelimOk d) (fs : List (List Char)) :
    ∀ (r : List (List Char)) (rest : List Char), fs ≠ [] → ¬ (r = [] ∧ fs = [[]]) →
      decode d .start [] r (joinFields d (fs.map (encodeField d)) ++ '\n' :: rest)
        = (r ++ fs) :: decode d .start [] [] rest := by
  induction fs with
  | nil => intro r rest h; exact absurd rfl h
  | cons f fs ih =>
    intro r rest _ hne
    cases fs with
    | nil =>
      simp only [List.map_cons, List.map_nil, joinFields]
      exact field_term d hd f r rest (by intro h; exact hne ⟨h.1, by rw [h.2]⟩)
    | cons g fs' =>
      simp only [List.map_cons, joinFields, List.append_assoc, List.cons_append]
      rw [field_delim d hd f r]
      have := ih (r ++ [f]) rest (by simp) (by simp)
      simp only [List.map_cons, List.append_assoc, List.cons_append, List.nil_append,
        List.singleton_append] at this
      simpa using this

/-- one encoded record is decoded to exactly its fields -/
theorem record_roundtrip (d : Char) (hd : DelimOk d) (fs : List (List Char)) (hne : fs ≠ [])
    (rest : List Char) :
    decode d .start [] [] (encodeRecord d fs ++ rest) = fs :: decode d .start [] [] rest := by
  unfold encodeRecord
  by_cases h : fs = [[]]
  · subst h
    have hnd : ('\n' == d) = false := by
      have := hd.2
      simp only [isTerm, Bool.or_eq_false_iff] at this
      rw [Bool.eq_false_iff]; intro h; simp only [beq_iff_eq] at h
      subst h; simp at this
    simp [decode, hnd, isTerm]
  · have hb : (fs == [[]]) = false := by
      rw [Bool.eq_false_iff]; intro hh; exact h (by simpa using hh)
    simp only [hb, Bool.false_eq_true, if_false, List.append_assoc, List.singleton_append]
    have := fields_term d hd fs [] rest hne (by intro hh; exact h hh.2)
    simpa using this

theorem records_roundtrip (d : Char) (hd : DelimOk d) (rows : List (List (List Char)))
    (hne : ∀ r ∈ rows, r ≠ []) : decodeRecords d (encodeRecords d rows) = rows := by
  unfold decodeRecords encodeRecords
  induction rows with
  | nil => simp [decode]
  | cons r rows ih =>
    simp only [List.map_cons, List.flatten_cons]
    rw [record_roundtrip d hd r (hne r (by simp))]
    rw [ih (fun q hq => hne q (by simp [hq]))]

end DfModel.Proofs.C51Csv
