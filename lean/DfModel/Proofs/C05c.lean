/-
  C05 — from chunks to a probe batch to the whole hash join.  Core Lean only.
-/
import DfModel.Proofs.C05b
namespace DfModel.Proofs.C05
open DfModel.Mech.Join DfModel.Mech.HashJoin
open List

/-! ### any chunking of a probe batch ≈ a single final chunk -/

theorem runChunks_perm (mk : MapKind) (c : Cfg) (Bi : List IRow) (n : Nat)
    (hn : ∀ r ∈ Bi, r.2 < n) (init : List (List Pair)) :
    ∀ (j : Option Nat) (last : List Pair),
      (init.flatten ++ last).Pairwise (fun a b => a.2.2 ≤ b.2.2) →
      (∀ v, j = some v → ∀ p ∈ init.flatten ++ last, v ≤ p.2.2) →
      runChunks mk c Bi n j init last ~ chunkOut mk c Bi n true j (init.flatten ++ last) := by
  induction init with
  | nil => intro j last _ _; simp [runChunks]
  | cons C1 rest ih =>
    intro j last hs hj
    simp only [runChunks, flatten_cons, append_assoc] at hs hj ⊢
    have hs' : (rest.flatten ++ last).Pairwise (fun a b => a.2.2 ≤ b.2.2) := (pairwise_append.mp hs).2.1
    have hj' : ∀ v, chunkJoined mk c j C1 = some v → ∀ p ∈ rest.flatten ++ last, v ≤ p.2.2 := by
      intro v hv p hp
      unfold chunkJoined at hv
      cases hl : lastJoined (matchedOf mk c C1) with
      | none =>
        rw [hl] at hv
        exact hj v (by simpa [Option.or] using hv) p (mem_append_right _ hp)
      | some w =>
        rw [hl] at hv
        have hw : w = v := by simpa [Option.or] using hv
        subst hw
        rw [lastJoined_eq] at hl
        obtain ⟨q, hq, hq2⟩ := probeIdxs_matched_sub mk c C1 w (mem_of_getLast? hl)
        have := (pairwise_append.mp hs).2.2 q hq p hp
        omega
    exact (Perm.append_left _ (ih _ last hs' hj')).trans (merge_last mk c Bi n j C1 _ hs hj hn)

theorem splitBy_flatten {α : Type} (ks : List Nat) : ∀ (xs : List α),
    (DfModel.Mech.HashJoin.splitBy ks xs).1.flatten ++ (DfModel.Mech.HashJoin.splitBy ks xs).2 = xs := by
  induction ks with
  | nil => intro xs; simp [DfModel.Mech.HashJoin.splitBy]
  | cons k ks ih =>
    intro xs
    simp only [DfModel.Mech.HashJoin.splitBy, flatten_cons, append_assoc]
    rw [ih, take_append_drop]

/-! ### rows carrying their index -/

structure Indexed (Xi : List IRow) (X : List Row) : Prop where
  fst : Xi.map (·.1) = X
  inj : ∀ a ∈ Xi, ∀ b ∈ Xi, a.2 = b.2 → a = b
  lt : ∀ a ∈ Xi, a.2 < X.length

theorem indexed_zipIdx (X : List Row) : Indexed X.zipIdx X where
  fst := zipIdx_map_fst 0 X
  inj := by
    intro a ha b hb hab
    rw [mem_zipIdx_iff_getElem?] at ha hb
    rw [hab, hb] at ha
    exact Prod.ext (Option.some.inj ha).symm hab
  lt := by
    intro a ha
    have := snd_lt_of_mem_zipIdx ha
    simpa using this

theorem idx_filter_map {β : Type} {Xi : List IRow} {X : List Row} (h : Indexed Xi X)
    (p : Row → Bool) (f : Row → β) :
    (Xi.filter fun x => p x.1).map (fun x => f x.1) = (X.filter p).map f := by
  rw [← h.fst, filter_map, map_map]; rfl

theorem idx_flatMap {β : Type} {Xi : List IRow} {X : List Row} (h : Indexed Xi X)
    (g : Row → List β) : Xi.flatMap (fun x => g x.1) = X.flatMap g := by
  rw [← h.fst, flatMap_map]

theorem idx_any {Xi : List IRow} {X : List Row} (h : Indexed Xi X) (p : Row → Bool) :
    Xi.any (fun x => p x.1) = X.any p := by
  rw [← h.fst, any_map]; rfl

theorem idx_mem {Xi : List IRow} {X : List Row} (h : Indexed Xi X) : ∀ x ∈ Xi, x.1 ∈ X := by
  intro x hx; rw [← h.fst]; exact mem_map_of_mem hx

/-- the probe-index membership test of `adjust` is "some build row matches" -/
theorem hit_eq (c : Cfg) {Li Bi : List IRow} {L B : List Row} (hL : Indexed Li L) (hB : Indexed Bi B)
    (r : IRow) (hr : r ∈ Bi) :
    (probeIdxs (Bi.flatMap fun r => (Li.filter fun l => c.matches l.1 r.1).map fun l => (l, r))).contains r.2
      = L.any (c.matches · r.1) := by
  rw [← idx_any hL (fun l => c.matches l r.1), Bool.eq_iff_iff]
  simp only [probeIdxs, contains_eq_mem, decide_eq_true_eq, mem_map, mem_flatMap, mem_filter,
    any_eq_true]
  constructor
  · rintro ⟨p, ⟨r', hr', l, ⟨hl, hm⟩, rfl⟩, h2⟩
    have : r' = r := hB.inj r' hr' r hr h2
    subst this
    exact ⟨l, hl, hm⟩
  · rintro ⟨l, hl, hm⟩
    exact ⟨(l, r), ⟨r, hr, l, ⟨hl, hm⟩, rfl⟩, rfl⟩

theorem inRange_zero {n i : Nat} (h : i < n) : inRange 0 n i = true := by
  simp [inRange, h]

/-- one final chunk holding all candidates of a batch emits the batch's share of the spec -/
theorem chunkOut_single (mk : MapKind) (c : Cfg) (L B : List Row) (he : Eligible mk c L)
    (Li Bi : List IRow) (hL : Indexed Li L) (hB : Indexed Bi B) :
    chunkOut mk c Bi B.length true none (allCands mk c Li Bi) ~ B.flatMap (rowSpec c L) := by
  unfold chunkOut
  rw [matchedOf_allCands mk c L he Li Bi (idx_mem hL)]
  simp only [rangeStart, rangeEnd, ite_true, adjust]
  have hin : (Bi.flatMap fun r => (Li.filter fun l => c.matches l.1 r.1).map fun l => (l, r)).map
      (fun p => p.1.1 ++ p.2.1) = B.flatMap fun r => (L.filter fun l => c.matches l r).map (· ++ r) := by
    rw [map_flatMap, ← idx_flatMap hB]
    congr 1; funext r
    rw [map_map]
    exact idx_filter_map hL (fun l => c.matches l r.1) (fun l => l ++ r.1)
  have hrng : ∀ r ∈ Bi, inRange 0 B.length r.2 = true := fun r hr => inRange_zero (hB.lt r hr)
  have hhit := fun r hr => hit_eq c hL hB r hr
  cases hjt : c.jt <;> simp only [rowSpec, hjt]
  case inner => exact Perm.of_eq hin
  case left => exact Perm.of_eq hin
  case leftSemi => simp [flatMap_nil']
  case leftAnti => simp [flatMap_nil']
  case leftMark => simp [flatMap_nil']
  case right =>
    rw [hin]
    refine Perm.trans (Perm.of_eq ?_) (flatMap_append_perm' B _ _).symm
    congr 1
    rw [filter_congr (q := fun r => !L.any (c.matches · r.1))
      (fun r hr => by rw [hrng r hr, hhit r hr]; simp)]
    rw [idx_filter_map hB (fun r => !L.any (c.matches · r)) (fun r => nulls c.wl ++ r),
      filter_map_eq_flatMap]
    congr 1; funext r
    cases L.any (c.matches · r) <;> simp
  case full =>
    rw [hin]
    refine Perm.trans (Perm.of_eq ?_) (flatMap_append_perm' B _ _).symm
    congr 1
    rw [filter_congr (q := fun r => !L.any (c.matches · r.1))
      (fun r hr => by rw [hrng r hr, hhit r hr]; simp)]
    rw [idx_filter_map hB (fun r => !L.any (c.matches · r)) (fun r => nulls c.wl ++ r),
      filter_map_eq_flatMap]
    congr 1; funext r
    cases L.any (c.matches · r) <;> simp
  case rightSemi =>
    rw [filter_congr (q := fun r => L.any (c.matches · r.1))
      (fun r hr => by rw [hrng r hr, hhit r hr]; simp)]
    rw [idx_filter_map hB (fun r => L.any (c.matches · r)) (fun r => r), filter_map_eq_flatMap]
  case rightAnti =>
    rw [filter_congr (q := fun r => !L.any (c.matches · r.1))
      (fun r hr => by rw [hrng r hr, hhit r hr]; simp)]
    rw [idx_filter_map hB (fun r => !L.any (c.matches · r)) (fun r => r), filter_map_eq_flatMap]
    apply Perm.of_eq; congr 1; funext r
    cases L.any (c.matches · r) <;> simp
  case rightMark =>
    rw [filter_eq_self.mpr (fun r hr => hrng r hr)]
    rw [map_congr_left (g := fun r => r.1 ++ [markVal (L.any (c.matches · r.1))])
      (fun r hr => by rw [hhit r hr])]
    have := idx_filter_map hB (fun _ => true) (fun r => r ++ [markVal (L.any (c.matches · r))])
    rw [filter_eq_self.mpr (fun _ _ => rfl), filter_eq_self.mpr (fun _ _ => rfl)] at this
    rw [this, map_eq_flatMap]

theorem allCands_sorted (mk : MapKind) (c : Cfg) (Li : List IRow) (B : List Row) :
    (allCands mk c Li B.zipIdx).Pairwise (fun a b => a.2.2 ≤ b.2.2) := by
  unfold allCands
  have hz : B.zipIdx.Pairwise (fun a b => a.2 < b.2) := by
    rw [zipIdx_eq_zip_range']
    have := pairwise_lt_range' (s := 0) (n := B.length) (step := 1)
    generalize range' 0 B.length = rs at this
    induction B generalizing rs with
    | nil => simp
    | cons x xs ih =>
      cases rs with
      | nil => simp
      | cons y ys =>
        simp only [zip_cons_cons, pairwise_cons] at this ⊢
        refine ⟨?_, ih ys this.2⟩
        intro a ha
        exact this.1 a.2 (of_mem_zip ha).2
  rw [pairwise_flatMap]
  constructor
  · intro r _
    rw [pairwise_map]
    exact pairwise_of_forall (fun _ _ => Nat.le_refl _)
  · refine hz.imp ?_
    intro a b hab x hx y hy
    simp only [mem_map] at hx hy
    obtain ⟨_, _, rfl⟩ := hx
    obtain ⟨_, _, rfl⟩ := hy
    exact Nat.le_of_lt hab

end DfModel.Proofs.C05
