/-
  C02 helper lemmas, part 2: two-stage SUM over Int64 (wrapping addition is associative and
  commutative modulo 2^64, so partial wrapped sums add up to the wrapped total).
-/
import DfModel.Mech.Partitioned
namespace DfModel.Proofs.C02
open DfModel DfModel.Mech.Partitioned

theorem p63 : (2:Int)^(64-1) = 9223372036854775808 := by decide
theorem p64 : (2:Int)^64 = 18446744073709551616 := by decide

theorem wrap64_eq (n : Int) :
    wrapInt 64 true n = (n + 9223372036854775808) % 18446744073709551616 - 9223372036854775808 := by
  simp only [wrapInt, if_true, p63, p64]

theorem wrap_add_left (a b : Int) : wrapInt 64 true (wrapInt 64 true a + b) = wrapInt 64 true (a + b) := by
  simp only [wrap64_eq]; omega

theorem wrap_add_right (a b : Int) : wrapInt 64 true (a + wrapInt 64 true b) = wrapInt 64 true (a + b) := by
  simp only [wrap64_eq]; omega

/-- the integers among the values (NULLs skipped) -/
def ints : List Val → List Int
  | [] => []
  | .int _ _ n :: vs => n :: ints vs
  | _ :: vs => ints vs

/-- an Int64 column -/
def Typed (vals : List Val) : Prop := ∀ v ∈ vals, v = .null ∨ ∃ n, v = .int 64 true n

theorem ints_append (a b : List Val) : ints (a ++ b) = ints a ++ ints b := by
  induction a with
  | nil => rfl
  | cons v vs ih => cases v <;> simp [ints, ih]

theorem sumVals_typed (vals : List Val) (h : Typed vals) :
    sumVals (vals.filter (fun v => !v.isNull)) = .ok (if ints vals = [] then none else some (true, (ints vals).sum)) := by
  induction vals with
  | nil => rfl
  | cons v vs ih =>
    have hvs : Typed vs := fun u hu => h u (by simp [hu])
    rcases h v (by simp) with rfl | ⟨n, rfl⟩
    · have hf : (Val.null :: vs).filter (fun v => !v.isNull) = vs.filter (fun v => !v.isNull) := by
        rw [List.filter_cons]; rfl
      rw [hf, ih hvs]
      rfl
    · have hf : (Val.int 64 true n :: vs).filter (fun v => !v.isNull)
          = Val.int 64 true n :: vs.filter (fun v => !v.isNull) := by
        rw [List.filter_cons]; rfl
      rw [hf]
      simp only [sumVals, ih hvs, bind, Except.bind, ints]
      by_cases he : ints vs = []
      · simp [he, pure, Except.pure]
      · simp [he, pure, Except.pure]

theorem aggSum_typed (vals : List Val) (k : Nat) (h : Typed vals) :
    aggVals .sum false k vals
      = .ok (if ints vals = [] then Val.null else Val.int 64 true (wrapInt 64 true (ints vals).sum)) := by
  simp only [aggVals, Bool.false_eq_true, if_false, sumVals_typed vals h, bind, Except.bind]
  by_cases he : ints vals = []
  · simp [he, pure, Except.pure]
  · simp [he, pure, Except.pure]

/-- the partial result of one partition, as a value -/
def partialSum (p : List Val) : Val :=
  if ints p = [] then Val.null else Val.int 64 true (wrapInt 64 true (ints p).sum)

theorem partials_typed (parts : List (List Val)) : Typed (parts.map partialSum) := by
  intro v hv
  obtain ⟨p, _, rfl⟩ := List.mem_map.mp hv
  simp only [partialSum]
  split
  · exact Or.inl rfl
  · exact Or.inr ⟨_, rfl⟩

theorem partials_sum (parts : List (List Val)) :
    (ints (parts.map partialSum) = [] ↔ ints parts.flatten = []) ∧
    wrapInt 64 true (ints (parts.map partialSum)).sum = wrapInt 64 true (ints parts.flatten).sum := by
  induction parts with
  | nil => exact ⟨Iff.rfl, rfl⟩
  | cons p ps ih =>
    simp only [List.map_cons, List.flatten_cons, ints_append]
    by_cases he : ints p = []
    · simp only [partialSum, he, if_true, ints, List.nil_append]
      exact ih
    · simp only [partialSum, he, if_false, ints, List.sum_cons, List.sum_append]
      refine ⟨by simp [he], ?_⟩
      rw [wrap_add_left, ← wrap_add_right, ih.2, wrap_add_right]

theorem mapM_ok' {α β : Type} (f : α → Except RtErr β) (g : α → β) (l : List α) (h : ∀ a ∈ l, f a = .ok (g a)) :
    l.mapM f = .ok (l.map g) := by
  induction l with
  | nil => rfl
  | cons a as ih =>
    simp [List.mapM_cons, h a (by simp), ih (fun b hb => h b (by simp [hb])), bind, Except.bind, pure, Except.pure]

/-- **two-stage SUM** over an Int64 column, any split into partitions -/
theorem twoStage_sum (parts : List (List Val)) (h : Typed parts.flatten) :
    twoStage .sum parts = aggVals .sum false parts.flatten.length parts.flatten := by
  have hp : ∀ p ∈ parts, partialAgg .sum p = .ok (partialSum p) := by
    intro p hpm
    have : Typed p := fun v hv => h v (List.mem_flatten.mpr ⟨p, hpm, hv⟩)
    simp only [partialAgg, partialSum]
    exact aggSum_typed p p.length this
  simp only [twoStage, mapM_ok' _ _ parts hp, bind, Except.bind, finalAgg]
  rw [aggSum_typed _ 0 (partials_typed parts), aggSum_typed _ _ h]
  obtain ⟨h1, h2⟩ := partials_sum parts
  by_cases he : ints parts.flatten = []
  · simp [he, h1.mpr he]
  · have : ¬ ints (parts.map partialSum) = [] := fun hc => he (h1.mp hc)
    simp [he, this, h2]

end DfModel.Proofs.C02
