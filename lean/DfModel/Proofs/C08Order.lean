/-
  C08 — `cmpRows` is a total preorder (on rows of equal length), and is antisymmetric on keys.
  Core Lean only.
-/
import DfModel.Base.Order
namespace DfModel.Proofs.C08Order
open DfModel.RowOrd


theorem cmpInt_lt {a b : Int} (h : a < b) : compare a b = .lt := by
  simp [compare, compareOfLessAndEq, h]
theorem cmpInt_gt {a b : Int} (h : b < a) : compare a b = .gt := by
  have h1 : ¬ a < b := by omega
  have h2 : ¬ a = b := by omega
  simp [compare, compareOfLessAndEq, h1, h2]
theorem cmpInt_self (a : Int) : compare a a = .eq := by
  simp [compare, compareOfLessAndEq]

theorem cmpInt_swap (a b : Int) : compare b a = (compare a b).swap := by
  rcases Int.lt_trichotomy a b with h | h | h
  · rw [cmpInt_lt h, cmpInt_gt h]; rfl
  · subst h; rw [cmpInt_self]; rfl
  · rw [cmpInt_gt h, cmpInt_lt h]; rfl

theorem cmpInt_eq (a b : Int) : compare a b = .eq ↔ a = b := by
  rcases Int.lt_trichotomy a b with h | h | h
  · rw [cmpInt_lt h]; exact ⟨fun h' => (by cases h'), fun h' => (by omega)⟩
  · subst h; simp
  · rw [cmpInt_gt h]; exact ⟨fun h' => (by cases h'), fun h' => (by omega)⟩

theorem cmpInt_lt_iff (a b : Int) : compare a b = .lt ↔ a < b := by
  rcases Int.lt_trichotomy a b with h | h | h
  · simp [cmpInt_lt h, h]
  · subst h; simp
  · rw [cmpInt_gt h]; exact ⟨fun h' => (by cases h'), fun h' => (by omega)⟩

theorem cmpVal_swap (o : SortOpt) (a b : NVal) : cmpVal o b a = (cmpVal o a b).swap := by
  cases a <;> cases b <;> simp only [cmpVal] <;> (try split) <;> first | rfl | exact cmpInt_swap _ _

theorem cmpVal_eq_iff (o : SortOpt) (a b : NVal) : cmpVal o a b = .eq ↔ a = b := by
  cases a <;> cases b <;> simp only [cmpVal] <;> (try split) <;> simp
  all_goals (constructor <;> intro h <;> exact h.symm)

theorem cmpVal_lt_trans (o : SortOpt) (a b c : NVal) (h1 : cmpVal o a b = .lt) (h2 : cmpVal o b c = .lt) :
    cmpVal o a c = .lt := by
  cases a <;> cases b <;> cases c <;> simp only [cmpVal] at * <;> (try split at h1) <;> (try split at h2) <;> (try split) <;> simp_all [cmpInt_lt_iff] <;> omega

theorem cmpVal_refl (o : SortOpt) (a : NVal) : cmpVal o a a = .eq := (cmpVal_eq_iff o a a).mpr rfl

theorem cmpRows_swap (os : List SortOpt) (a b : NRow) : cmpRows os b a = (cmpRows os a b).swap := by
  induction os generalizing a b with
  | nil => simp [cmpRows]
  | cons o os ih =>
    cases a with
    | nil => cases b <;> simp [cmpRows]
    | cons x a =>
      cases b with
      | nil => simp [cmpRows]
      | cons y b =>
        simp only [cmpRows]
        rw [cmpVal_swap o x y]
        cases h : cmpVal o x y <;> simp only [Ordering.swap]
        exact ih a b

theorem cmpRows_refl (os : List SortOpt) (a : NRow) : cmpRows os a a = .eq := by
  induction os generalizing a with
  | nil => simp [cmpRows]
  | cons o os ih =>
    cases a with
    | nil => simp [cmpRows]
    | cons x a => simp [cmpRows, cmpVal_refl, ih]

theorem leRows_refl (os : List SortOpt) (a : NRow) : leRows os a a = true := by
  simp [leRows, cmpRows_refl]

theorem leRows_total (os : List SortOpt) (a b : NRow) : leRows os a b = true ∨ leRows os b a = true := by
  simp only [leRows, cmpRows_swap os a b]
  cases cmpRows os a b <;> simp [Ordering.swap]

/-- not-greater is transitive on rows of one common length (the operators only ever compare rows of
    one schema; for ragged rows the `zip` truncation makes it fail: `[1,5] ≤ [1] ≤ [1,3]`). -/
theorem cmpRows_trans (os : List SortOpt) (a b c : NRow) (hab : a.length = b.length)
    (hbc : b.length = c.length) (h1 : cmpRows os a b ≠ .gt) (h2 : cmpRows os b c ≠ .gt) :
    cmpRows os a c ≠ .gt := by
  induction os generalizing a b c with
  | nil => simp [cmpRows]
  | cons o os ih =>
    cases a with
    | nil => simp [cmpRows]
    | cons x a =>
      cases b with
      | nil => simp at hab
      | cons y b =>
        cases c with
        | nil => simp at hbc
        | cons z c =>
          simp only [List.length_cons, Nat.add_right_cancel_iff] at hab hbc
          simp only [cmpRows] at h1 h2 ⊢
          cases hxy : cmpVal o x y with
          | eq =>
            have := (cmpVal_eq_iff o x y).mp hxy
            subst this
            rw [hxy] at h1
            cases hyz : cmpVal o x z with
            | eq => rw [hyz] at h2; exact ih a b c hab hbc h1 h2
            | lt => simp
            | gt => rw [hyz] at h2; simp at h2
          | lt =>
            cases hyz : cmpVal o y z with
            | eq =>
              have := (cmpVal_eq_iff o y z).mp hyz
              subst this
              rw [hxy]; simp
            | lt => rw [cmpVal_lt_trans o x y z hxy hyz]; simp
            | gt => rw [hyz] at h2; simp at h2
          | gt => rw [hxy] at h1; simp at h1

theorem leRows_trans (os : List SortOpt) (a b c : NRow) (hab : a.length = b.length)
    (hbc : b.length = c.length) (h1 : leRows os a b = true) (h2 : leRows os b c = true) :
    leRows os a c = true := by
  simp only [leRows, bne_iff_ne] at *
  exact cmpRows_trans os a b c hab hbc h1 h2

/-- the comparison only looks at the key columns -/
theorem cmpRows_keyOf (os : List SortOpt) (a b : NRow) :
    cmpRows os (keyOf os a) (keyOf os b) = cmpRows os a b := by
  induction os generalizing a b with
  | nil => simp [cmpRows]
  | cons o os ih =>
    cases a with
    | nil => simp [keyOf, cmpRows]
    | cons x a =>
      cases b with
      | nil => simp [keyOf, cmpRows]
      | cons y b =>
        simp only [keyOf, List.length_cons, List.take_succ_cons, cmpRows]
        have := ih a b
        simp only [keyOf] at this
        rw [this]

/-- on full keys (`|row| = |opts|`) equal-comparing rows are equal: the order is antisymmetric -/
theorem cmpRows_eq_imp_eq (os : List SortOpt) (a b : NRow) (ha : a.length = os.length)
    (hb : b.length = os.length) (h : cmpRows os a b = .eq) : a = b := by
  induction os generalizing a b with
  | nil =>
    simp at ha hb; simp [ha, hb]
  | cons o os ih =>
    cases a with
    | nil => simp at ha
    | cons x a =>
      cases b with
      | nil => simp at hb
      | cons y b =>
        simp only [List.length_cons, Nat.add_right_cancel_iff] at ha hb
        simp only [cmpRows] at h
        cases hxy : cmpVal o x y with
        | eq =>
          rw [hxy] at h
          rw [(cmpVal_eq_iff o x y).mp hxy, ih a b ha hb h]
        | lt => rw [hxy] at h; simp at h
        | gt => rw [hxy] at h; simp at h

theorem leRows_antisymm_key (os : List SortOpt) (a b : NRow) (ha : a.length = os.length)
    (hb : b.length = os.length) (h1 : leRows os a b = true) (h2 : leRows os b a = true) : a = b := by
  apply cmpRows_eq_imp_eq os a b ha hb
  simp only [leRows, bne_iff_ne, cmpRows_swap os a b] at h1 h2
  cases h : cmpRows os a b <;> simp_all [Ordering.swap]

theorem leRows_keyOf (os : List SortOpt) (a b : NRow) :
    leRows os (keyOf os a) (keyOf os b) = leRows os a b := by
  simp [leRows, cmpRows_keyOf]

theorem keyOf_length (os : List SortOpt) (a : NRow) (h : os.length ≤ a.length) :
    (keyOf os a).length = os.length := by
  simp [keyOf, Nat.min_eq_left h]

end DfModel.Proofs.C08Order
