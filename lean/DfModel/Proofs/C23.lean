/-
  Helper lemmas for C23 (interval arithmetic). Core Lean only.
-/
import DfModel.Mech.Interval
namespace DfModel.Proofs.C23
open DfModel.Mech.Interval

/-- endpoints are values of the type (they are `ScalarValue`s of that type in the Rust code) -/
def inTy (t : Ty) (a : Iv) : Prop :=
  (∀ l, a.lo = some l → t.inRange l) ∧ (∀ u, a.hi = some u → t.inRange u)

/-- `c` is a valid lower endpoint for `q` (NULL = −∞) -/
def lbOK (c : Option Int) (q : Int) : Prop := ∀ v, c = some v → v ≤ q
/-- `c` is a valid upper endpoint for `q` (NULL = +∞) -/
def ubOK (c : Option Int) (q : Int) : Prop := ∀ v, c = some v → q ≤ v

theorem lbOK_none (q : Int) : lbOK none q := by intro v h; cases h
theorem ubOK_none (q : Int) : ubOK none q := by intro v h; cases h

theorem mem_mk {t : Ty} (hw : t.WF) {lo hi : Option Int} {q : Int} (hq : t.inRange q)
    (hl : lbOK lo q) (hu : ubOK hi q) : mem q (mk t lo hi) := by
  unfold mk
  split
  · rename_i h
    simp only [Bool.and_eq_true] at h
    refine ⟨?_, hu⟩
    intro l hl'
    simp only [Option.some.injEq] at hl'
    have := hw.uns_mn h.1
    unfold Ty.inRange at hq
    omega
  · exact ⟨hl, hu⟩

theorem mem_unbounded {t : Ty} (hw : t.WF) {q : Int} (hq : t.inRange q) : mem q (unbounded t) :=
  mem_mk hw hq (lbOK_none q) (ubOK_none q)

/-- a lower-endpoint candidate `checked(e)` / `handle_overflow::<false>` bounds every in-range
    `q ≥ e`, provided a "positive overflow" verdict really means `e` is not below the range -/
theorem cand_lb {t : Ty} {e q : Int} {op : AOp} {x y : Int} (hq : t.inRange q) (he : e ≤ q)
    (hpos : positiveSign op x y = true → t.mn ≤ e) :
    lbOK (match chk t e with
          | some v => some v
          | none => handleOverflow t false op x y) q := by
  intro v hv
  unfold chk at hv
  by_cases hr : t.inRange e
  · simp only [hr, if_true, Option.some.injEq] at hv; omega
  · simp only [hr, if_false, handleOverflow] at hv
    cases hp : positiveSign op x y
    · simp [hp] at hv
    · simp only [hp, Option.some.injEq] at hv
      have := hpos hp
      unfold Ty.inRange at hr hq
      omega

theorem cand_ub {t : Ty} {e q : Int} {op : AOp} {x y : Int} (hq : t.inRange q) (he : q ≤ e)
    (hneg : positiveSign op x y = false → e ≤ t.mx) :
    ubOK (match chk t e with
          | some v => some v
          | none => handleOverflow t true op x y) q := by
  intro v hv
  unfold chk at hv
  by_cases hr : t.inRange e
  · simp only [hr, if_true, Option.some.injEq] at hv; omega
  · simp only [hr, if_false, handleOverflow] at hv
    cases hp : positiveSign op x y
    · simp only [hp, Option.some.injEq] at hv
      have := hneg hp
      unfold Ty.inRange at hr hq
      omega
    · simp [hp] at hv

/-! ### add / sub endpoint candidates -/

theorem addBounds_lb {t : Ty} {l r : Option Int} {q : Int} (hq : t.inRange q)
    (hr : ∀ y, r = some y → t.inRange y)
    (h : ∀ x y, l = some x → r = some y → x + y ≤ q) : lbOK (addBounds t false l r) q := by
  cases l with
  | none => exact lbOK_none q
  | some x =>
    cases r with
    | none => exact lbOK_none q
    | some y =>
      apply cand_lb hq (h x y rfl rfl)
      intro hp
      simp only [positiveSign, decide_eq_true_eq] at hp
      have := hr y rfl
      unfold Ty.inRange at this
      omega

theorem addBounds_ub {t : Ty} {l r : Option Int} {q : Int} (hq : t.inRange q)
    (hr : ∀ y, r = some y → t.inRange y)
    (h : ∀ x y, l = some x → r = some y → q ≤ x + y) : ubOK (addBounds t true l r) q := by
  cases l with
  | none => exact ubOK_none q
  | some x =>
    cases r with
    | none => exact ubOK_none q
    | some y =>
      apply cand_ub hq (h x y rfl rfl)
      intro hp
      simp only [positiveSign, decide_eq_false_iff_not] at hp
      have := hr y rfl
      unfold Ty.inRange at this
      omega

theorem subBounds_lb {t : Ty} (hw : t.WF) {l r : Option Int} {q : Int} (hq : t.inRange q)
    (h : ∀ x y, l = some x → r = some y → x - y ≤ q) : lbOK (subBounds t false l r) q := by
  cases l with
  | none => exact lbOK_none q
  | some x =>
    cases r with
    | none => exact lbOK_none q
    | some y =>
      apply cand_lb hq (h x y rfl rfl)
      intro hp
      simp only [positiveSign, decide_eq_true_eq] at hp
      have := hw.mn_le
      omega

theorem subBounds_ub {t : Ty} (hw : t.WF) {l r : Option Int} {q : Int} (hq : t.inRange q)
    (h : ∀ x y, l = some x → r = some y → q ≤ x - y) : ubOK (subBounds t true l r) q := by
  cases l with
  | none => exact ubOK_none q
  | some x =>
    cases r with
    | none => exact ubOK_none q
    | some y =>
      apply cand_ub hq (h x y rfl rfl)
      intro hp
      simp only [positiveSign, decide_eq_false_iff_not] at hp
      have := hw.mx_ge
      omega

/-! ### intersect / union -/

theorem maxOfBounds_cases (x y : Option Int) : maxOfBounds x y = x ∨ maxOfBounds x y = y := by
  unfold maxOfBounds; split <;> simp

theorem minOfBounds_cases (x y : Option Int) : minOfBounds x y = x ∨ minOfBounds x y = y := by
  unfold minOfBounds; split <;> simp

theorem intersect_sound {a b : Iv} {v : Int} (ha : mem v a) (hb : mem v b) :
    ∃ c, intersect a b = some c ∧ mem v c := by
  obtain ⟨al, ah⟩ := a
  obtain ⟨bl, bh⟩ := b
  simp only [mem] at ha hb
  unfold intersect
  split
  · rename_i h
    exfalso
    simp only [Bool.or_eq_true, Bool.and_eq_true, Bool.not_eq_true', Bool.or_eq_false_iff] at h
    rcases h with ⟨⟨h1, h2⟩, h3⟩ | ⟨⟨h1, h2⟩, h3⟩
    · cases al with
      | none => simp at h1
      | some x =>
        cases bh with
        | none => simp at h2
        | some y =>
          simp only [olt, decide_eq_true_eq] at h3
          have := ha.1 x rfl
          have := hb.2 y rfl
          omega
    · cases ah with
      | none => simp at h1
      | some x =>
        cases bl with
        | none => simp at h2
        | some y =>
          simp only [olt, decide_eq_true_eq] at h3
          have := ha.2 x rfl
          have := hb.1 y rfl
          omega
  · refine ⟨_, rfl, ?_, ?_⟩
    · intro l hl
      simp only at hl
      rcases maxOfBounds_cases al bl with h | h
      · rw [h] at hl; exact ha.1 l hl
      · rw [h] at hl; exact hb.1 l hl
    · intro u hu
      simp only at hu
      rcases minOfBounds_cases ah bh with h | h
      · rw [h] at hu; exact ha.2 u hu
      · rw [h] at hu; exact hb.2 u hu

theorem union_sound_left {a b : Iv} {v : Int} (ha : mem v a) : mem v (union a b) := by
  obtain ⟨al, ah⟩ := a
  obtain ⟨bl, bh⟩ := b
  simp only [mem] at ha
  unfold union
  refine ⟨?_, ?_⟩
  · intro l hl
    simp only at hl
    split at hl
    · exact ha.1 l hl
    · rename_i hc
      cases al with
      | none => simp at hc
      | some x =>
        cases bl with
        | none => cases hl
        | some y =>
          simp only [Option.isNone_some, Bool.false_or, Bool.not_false, Bool.true_and, ole,
            decide_eq_true_eq] at hc
          have := ha.1 x rfl
          simp only [Option.some.injEq] at hl
          omega
  · intro u hu
    simp only at hu
    split at hu
    · exact ha.2 u hu
    · rename_i hc
      cases ah with
      | none => simp at hc
      | some x =>
        cases bh with
        | none => cases hu
        | some y =>
          simp only [Option.isNone_some, Bool.false_or, Bool.not_false, Bool.true_and, ole,
            decide_eq_true_eq] at hc
          have := ha.2 x rfl
          simp only [Option.some.injEq] at hu
          omega

theorem union_sound_right {a b : Iv} {v : Int} (hb : mem v b) : mem v (union a b) := by
  obtain ⟨al, ah⟩ := a
  obtain ⟨bl, bh⟩ := b
  simp only [mem] at hb
  unfold union
  refine ⟨?_, ?_⟩
  · intro l hl
    simp only at hl
    split at hl
    · rename_i hc
      cases al with
      | none => cases hl
      | some x =>
        cases bl with
        | none => simp at hc
        | some y =>
          simp only [Option.isNone_some, Bool.false_or, Bool.not_false, Bool.true_and, ole,
            decide_eq_true_eq] at hc
          have := hb.1 y rfl
          simp only [Option.some.injEq] at hl
          omega
    · exact hb.1 l hl
  · intro u hu
    simp only at hu
    split at hu
    · rename_i hc
      cases ah with
      | none => cases hu
      | some x =>
        cases bh with
        | none => simp at hc
        | some y =>
          simp only [Option.isNone_some, Bool.false_or, Bool.not_false, Bool.true_and, ole,
            decide_eq_true_eq] at hc
          have := hb.2 y rfl
          simp only [Option.some.injEq] at hu
          omega
    · exact hb.2 u hu

/-! ### comparison guards -/

theorem guard_le {p q : Option Int} (h : (!(p.isNone || q.isNone) && ole p q) = true) :
    ∃ x y, p = some x ∧ q = some y ∧ x ≤ y := by
  cases p with
  | none => simp at h
  | some x =>
    cases q with
    | none => simp at h
    | some y => exact ⟨x, y, rfl, rfl, by simpa [ole] using h⟩

theorem guard_lt {p q : Option Int} (h : (!(p.isNone || q.isNone) && olt q p) = true) :
    ∃ x y, p = some x ∧ q = some y ∧ y < x := by
  cases p with
  | none => simp at h
  | some x =>
    cases q with
    | none => simp at h
    | some y => exact ⟨x, y, rfl, rfl, by simpa [olt] using h⟩

theorem bmem_TF (v : Bool) : bmem v .TF := by simp [bmem, BIv.TF]
theorem bmem_TRUE {v : Bool} (h : v = true) : bmem v .TRUE := by simp [bmem, BIv.TRUE, h]
theorem bmem_FALSE {v : Bool} (h : v = false) : bmem v .FALSE := by simp [bmem, BIv.FALSE, h]

theorem gt_sound {I J : Iv} {a b : Int} (ha : mem a I) (hb : mem b J) :
    bmem (decide (a > b)) (gt I J) := by
  unfold gt
  split
  · rename_i h
    obtain ⟨x, y, hx, hy, hxy⟩ := guard_le h
    have := ha.2 x hx
    have := hb.1 y hy
    exact bmem_FALSE (by simp; omega)
  · split
    · rename_i h
      obtain ⟨x, y, hx, hy, hxy⟩ := guard_lt h
      have := ha.1 x hx
      have := hb.2 y hy
      exact bmem_TRUE (by simp; omega)
    · exact bmem_TF _

theorem gtEq_sound {I J : Iv} {a b : Int} (ha : mem a I) (hb : mem b J) :
    bmem (decide (a ≥ b)) (gtEq I J) := by
  unfold gtEq
  split
  · rename_i h
    have h' : (!(J.hi.isNone || I.lo.isNone) && ole J.hi I.lo) = true := by
      rw [Bool.or_comm]; exact h
    obtain ⟨x, y, hx, hy, hxy⟩ := guard_le h'
    have := hb.2 x hx
    have := ha.1 y hy
    exact bmem_TRUE (by simp; omega)
  · split
    · rename_i h
      have h' : (!(J.lo.isNone || I.hi.isNone) && olt I.hi J.lo) = true := by
        rw [Bool.or_comm]; exact h
      obtain ⟨x, y, hx, hy, hxy⟩ := guard_lt h'
      have := hb.1 x hx
      have := ha.2 y hy
      exact bmem_FALSE (by simp; omega)
    · exact bmem_TF _

theorem equal_sound {I J : Iv} {a b : Int} (ha : mem a I) (hb : mem b J) :
    bmem (decide (a = b)) (equal I J) := by
  unfold equal
  split
  · rename_i h
    simp only [Bool.and_eq_true, Bool.not_eq_true', beq_iff_eq] at h
    obtain ⟨⟨⟨h1, h2⟩, h3⟩, h4⟩ := h
    cases hl : I.lo with
    | none => simp [hl] at h1
    | some x =>
      have e1 := ha.1 x hl
      have e2 := ha.2 x (by rw [← h2, hl])
      have e3 := hb.1 x (by rw [← h4, hl])
      have e4 := hb.2 x (by rw [← h3, ← h4, hl])
      exact bmem_TRUE (by simp; omega)
  · split
    · rename_i h
      apply bmem_FALSE
      simp only [decide_eq_false_iff_not]
      intro hab
      subst hab
      obtain ⟨c, hc, _⟩ := intersect_sound ha hb
      simp [hc] at h
    · exact bmem_TF _

end DfModel.Proofs.C23
