/-
  Helper lemmas for C21 (disk accounting). Core Lean only.
-/
import DfModel.Sm.Disk
namespace DfModel.Proofs.C21
open DfModel.Sm.Disk

@[simp] theorem sumUsage_nil : sumUsage [] = 0 := rfl
@[simp] theorem sumUsage_cons (x : TFile) (xs : List TFile) :
    sumUsage (x :: xs) = x.usage + sumUsage xs := by simp [sumUsage]
@[simp] theorem updFile_nil (f : Nat) (g : TFile → TFile) : updFile [] f g = [] := rfl
@[simp] theorem updFile_cons (x : TFile) (xs : List TFile) (f : Nat) (g : TFile → TFile) :
    updFile (x :: xs) f g = (if x.id = f then g x else x) :: updFile xs f g := by simp [updFile]

theorem sum_upd_same_usage (fs : List TFile) (f : Nat) (g : TFile → TFile)
    (hg : ∀ x, (g x).usage = x.usage) : sumUsage (updFile fs f g) = sumUsage fs := by
  induction fs with
  | nil => rfl
  | cons x xs ih =>
    rw [updFile_cons, sumUsage_cons, sumUsage_cons, ih]
    split <;> simp [hg]

theorem ids_upd (fs : List TFile) (f : Nat) (g : TFile → TFile) (hg : ∀ x, (g x).id = x.id) :
    (updFile fs f g).map (·.id) = fs.map (·.id) := by
  induction fs with
  | nil => rfl
  | cons x xs ih =>
    rw [updFile_cons, List.map_cons, List.map_cons, ih]
    split <;> simp [hg]

theorem upd_absent (fs : List TFile) (f : Nat) (g : TFile → TFile)
    (h : f ∉ fs.map (·.id)) : updFile fs f g = fs := by
  induction fs with
  | nil => rfl
  | cons x xs ih =>
    simp only [List.map_cons, List.mem_cons, not_or] at h
    have : ¬ x.id = f := fun e => h.1 e.symm
    rw [updFile_cons, ih h.2, if_neg this]

theorem sum_upd_add (fs : List TFile) (f len : Nat)
    (hnd : (fs.map (·.id)).Nodup) (hin : f ∈ fs.map (·.id)) :
    sumUsage (updFile fs f (fun x => { x with usage := x.usage + len })) = sumUsage fs + len := by
  induction fs with
  | nil => simp at hin
  | cons x xs ih =>
    simp only [List.map_cons, List.nodup_cons] at hnd
    simp only [List.map_cons, List.mem_cons] at hin
    rw [updFile_cons, sumUsage_cons, sumUsage_cons]
    by_cases hx : x.id = f
    · have habs : f ∉ xs.map (·.id) := by rw [← hx]; exact hnd.1
      rw [upd_absent xs f _ habs, if_pos hx]
      simp only
      omega
    · have hin' : f ∈ xs.map (·.id) := by
        rcases hin with h | h
        · exact absurd h.symm hx
        · exact h
      rw [ih hnd.2 hin', if_neg hx]
      omega

theorem getUsage_absent (fs : List TFile) (f : Nat) (h : f ∉ fs.map (·.id)) :
    getUsage fs f = 0 := by
  induction fs with
  | nil => rfl
  | cons x xs ih =>
    simp only [List.map_cons, List.mem_cons, not_or] at h
    unfold getUsage at *
    have : (x.id == f) = false := by simp; exact fun e => h.1 e.symm
    simp only [List.find?_cons, this]
    exact ih h.2

theorem filter_absent (fs : List TFile) (f : Nat) (h : f ∉ fs.map (·.id)) :
    fs.filter (fun x => x.id != f) = fs := by
  induction fs with
  | nil => rfl
  | cons x xs ih =>
    simp only [List.map_cons, List.mem_cons, not_or] at h
    have : (x.id != f) = true := by simp; exact fun e => h.1 e.symm
    simp only [List.filter_cons, this, if_true]
    rw [ih h.2]

theorem getUsage_cons (x : TFile) (xs : List TFile) (f : Nat) :
    getUsage (x :: xs) f = if x.id = f then x.usage else getUsage xs f := by
  unfold getUsage
  by_cases hx : x.id = f
  · have : (x.id == f) = true := by simp [hx]
    simp [List.find?_cons, this, hx]
  · have : (x.id == f) = false := by simp [hx]
    simp [List.find?_cons, this, hx]

theorem sum_filter (fs : List TFile) (f : Nat) (hnd : (fs.map (·.id)).Nodup) :
    sumUsage (fs.filter (fun x => x.id != f)) + getUsage fs f = sumUsage fs := by
  induction fs with
  | nil => rfl
  | cons x xs ih =>
    simp only [List.map_cons, List.nodup_cons] at hnd
    rw [getUsage_cons, sumUsage_cons]
    by_cases hx : x.id = f
    · have habs : f ∉ xs.map (·.id) := by rw [← hx]; exact hnd.1
      have h1 : (x.id != f) = false := by simp [hx]
      rw [List.filter_cons, h1, if_pos hx]
      simp only [Bool.false_eq_true, if_false]
      rw [filter_absent xs f habs]
      omega
    · have h1 : (x.id != f) = true := by simp [hx]
      have := ih hnd.2
      rw [List.filter_cons, h1, if_neg hx]
      simp only [if_true]
      rw [sumUsage_cons]
      omega

theorem hasFile_iff (fs : List TFile) (f : Nat) : hasFile fs f = true ↔ f ∈ fs.map (·.id) := by
  unfold hasFile
  simp only [List.any_eq_true, List.mem_map, beq_iff_eq]

theorem ids_filter_nodup (fs : List TFile) (f : Nat) (hnd : (fs.map (·.id)).Nodup) :
    ((fs.filter (fun x => x.id != f)).map (·.id)).Nodup := by
  induction fs with
  | nil => simp
  | cons x xs ih =>
    simp only [List.map_cons, List.nodup_cons] at hnd
    simp only [List.filter_cons]
    split
    · simp only [List.map_cons, List.nodup_cons]
      refine ⟨?_, ih hnd.2⟩
      intro hmem
      apply hnd.1
      simp only [List.mem_map, List.mem_filter] at hmem ⊢
      obtain ⟨y, ⟨hy, _⟩, e⟩ := hmem
      exact ⟨y, hy, e⟩
    · exact ih hnd.2

end DfModel.Proofs.C21
