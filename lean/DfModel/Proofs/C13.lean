/-
  Helper lemmas for C13 (group-key interning). Core Lean only.
-/
import DfModel.Sm.Gv
namespace DfModel.Proofs.C13
open DfModel.Sm.Gv

/-! ## specification lemmas -/
section SpecLemmas
variable {K : Type} [DecidableEq K]

/-- keys in first-seen order, duplicates removed -/
def firstSeen : List K → List K
  | [] => []
  | k :: ks => k :: (firstSeen ks).filter (fun x => decide (x ≠ k))

theorem mem_firstSeen {ks : List K} {x : K} : x ∈ firstSeen ks ↔ x ∈ ks := by
  induction ks with
  | nil => simp [firstSeen]
  | cons k ks ih =>
    simp only [firstSeen, List.mem_cons, List.mem_filter, decide_eq_true_eq, ih]
    by_cases h : x = k <;> simp [h]

theorem firstSeen_nodup (ks : List K) : (firstSeen ks).Nodup := by
  induction ks with
  | nil => simp [firstSeen]
  | cons k ks ih =>
    simp only [firstSeen, List.nodup_cons, List.mem_filter, decide_eq_true_eq]
    exact ⟨fun h => h.2 rfl, List.Nodup.sublist List.filter_sublist ih⟩

theorem intern1_fst (g : List K) (k : K) :
    (Spec.intern1 g k).1 = g ++ (if k ∈ g then [] else [k]) := by
  unfold Spec.intern1; split <;> simp

/-- the store after interning a batch = old store ++ the new keys in first-seen order -/
theorem internAll_fst (g : List K) (ks : List K) :
    (Spec.internAll g ks).1 = g ++ (firstSeen ks).filter (fun x => decide (x ∉ g)) := by
  induction ks generalizing g with
  | nil => simp [Spec.internAll, firstSeen]
  | cons k ks ih =>
    simp only [Spec.internAll, firstSeen]
    rw [ih, intern1_fst]
    by_cases hk : k ∈ g
    · simp only [hk, if_true, List.append_nil, List.filter_cons, not_true_eq_false, decide_false]
      congr 1
      rw [List.filter_filter]
      apply List.filter_congr
      intro x _
      by_cases hx : x = k
      · subst hx; simp [hk]
      · simp [hx]
    · simp only [hk, if_false, List.filter_cons, not_false_eq_true, decide_true, if_true,
        List.append_assoc, List.singleton_append]
      congr 2
      rw [List.filter_filter]
      apply List.filter_congr
      intro x _
      by_cases hx : x = k
      · subst hx; simp
      · simp [hx, List.mem_append]

theorem internAll_length (g : List K) (ks : List K) : (Spec.internAll g ks).2.length = ks.length := by
  induction ks generalizing g with
  | nil => rfl
  | cons k ks ih => simp [Spec.internAll, ih]

theorem intern1_nodup {g : List K} (k : K) (h : g.Nodup) : (Spec.intern1 g k).1.Nodup := by
  rw [intern1_fst]
  split
  · simpa using h
  · rename_i hk
    rw [List.nodup_append]
    refine ⟨h, by simp, ?_⟩
    intro a ha b hb
    simp only [List.mem_singleton] at hb
    subst hb
    intro e; subst e; exact hk ha

theorem internAll_nodup {g : List K} (ks : List K) (h : g.Nodup) : (Spec.internAll g ks).1.Nodup := by
  induction ks generalizing g with
  | nil => exact h
  | cons k ks ih => simp only [Spec.internAll]; exact ih (intern1_nodup k h)

theorem intern1_prefix (g : List K) (k : K) : g <+: (Spec.intern1 g k).1 := by
  rw [intern1_fst]; exact List.prefix_append _ _

theorem internAll_prefix (g : List K) (ks : List K) : g <+: (Spec.internAll g ks).1 := by
  rw [internAll_fst]; exact List.prefix_append _ _

theorem intern1_get (g : List K) (k : K) : (Spec.intern1 g k).1[(Spec.intern1 g k).2]? = some k := by
  unfold Spec.intern1
  split
  · rename_i h
    simp only
    rw [List.getElem?_eq_getElem (List.idxOf_lt_length_of_mem h)]
    simp
  · simp

omit [DecidableEq K] in
theorem prefix_getElem? {a b : List K} (h : a <+: b) {i : Nat} {x : K} (hx : a[i]? = some x) :
    b[i]? = some x := by
  obtain ⟨t, rfl⟩ := h
  have hi : i < a.length := by
    rcases Nat.lt_or_ge i a.length with h | h
    · exact h
    · rw [List.getElem?_eq_none h] at hx; cases hx
  rw [List.getElem?_append_left hi]; exact hx

/-- every returned id points at its row's key in the resulting store -/
theorem internAll_get (g : List K) (ks : List K) (i : Nat) (hi : i < ks.length) :
    ∃ id, (Spec.internAll g ks).2[i]? = some id ∧ (Spec.internAll g ks).1[id]? = some ks[i] := by
  induction ks generalizing g i with
  | nil => cases hi
  | cons k ks ih =>
    simp only [Spec.internAll]
    cases i with
    | zero =>
      refine ⟨(Spec.intern1 g k).2, by simp, ?_⟩
      simp only [List.getElem_cons_zero]
      exact prefix_getElem? (internAll_prefix _ ks) (intern1_get g k)
    | succ i =>
      obtain ⟨id, h1, h2⟩ := ih (Spec.intern1 g k).1 i (by simpa using hi)
      exact ⟨id, by simpa using h1, by simpa using h2⟩

omit [DecidableEq K] in
theorem nodup_getElem?_inj {l : List K} (h : l.Nodup) {i j : Nat} {x : K}
    (hi : l[i]? = some x) (hj : l[j]? = some x) : i = j := by
  induction l generalizing i j with
  | nil => simp at hi
  | cons a l ih =>
    rw [List.nodup_cons] at h
    cases i with
    | zero =>
      cases j with
      | zero => rfl
      | succ j =>
        simp only [List.getElem?_cons_zero, Option.some.injEq, List.getElem?_cons_succ] at hi hj
        subst hi
        exact absurd (List.mem_of_getElem? hj) h.1
    | succ i =>
      cases j with
      | zero =>
        simp only [List.getElem?_cons_zero, Option.some.injEq, List.getElem?_cons_succ] at hi hj
        subst hj
        exact absurd (List.mem_of_getElem? hi) h.1
      | succ j =>
        simp only [List.getElem?_cons_succ] at hi hj
        rw [ih h.2 hi hj]

theorem spec_step_nodup {g : List K} (op : Op K) (h : g.Nodup) : (Spec.step g op).1.Nodup := by
  cases op with
  | intern ks => exact internAll_nodup ks h
  | emit e =>
    cases e with
    | all => simp [Spec.step]
    | first n =>
      simp only [Spec.step]
      split
      · exact List.Nodup.sublist (List.drop_sublist n g) h
      · exact h
  | clear => simp [Spec.step]

theorem spec_run_nodup {g : List K} (ops : List (Op K)) (h : g.Nodup) : (Spec.run g ops).1.Nodup := by
  induction ops generalizing g with
  | nil => exact h
  | cons op ops ih => simp only [Spec.run]; exact ih (spec_step_nodup op h)

end SpecLemmas


/-! ## GroupValuesPrimitive refines the specification -/
namespace PrimR
open Prim

structure Wf (hash : Nat → Nat) (s : St) : Prop where
  nullLt : ∀ i, s.nullGroup = some i → i < s.values.length
  mapSound : ∀ e ∈ s.map, s.nullGroup ≠ some e.1 ∧ ∃ v, s.values[e.1]? = some v ∧ e.2 = hash v
  mapComplete : ∀ g v, s.values[g]? = some v → s.nullGroup ≠ some g → (g, hash v) ∈ s.map
  nodup : (abs s).Nodup

theorem wf_init (hash : Nat → Nat) : Wf hash init := by
  refine ⟨?_, ?_, ?_, ?_⟩ <;> simp [init, abs]

theorem abs_length (s : St) : (abs s).length = s.values.length := by
  unfold abs; split <;> simp

theorem abs_get (s : St) (g : Nat) :
    (abs s)[g]? = if s.nullGroup = some g ∧ g < s.values.length then some none
                  else (s.values[g]?).map some := by
  unfold abs
  cases hn : s.nullGroup with
  | none => simp
  | some i =>
    simp only [List.getElem?_set, List.length_map, List.getElem?_map, Option.some.injEq]
    by_cases h : i = g
    · subst h
      by_cases hl : i < s.values.length
      · simp [hl]
      · simp [hl]
    · simp [h]

theorem lookup_some {hash : Nat → Nat} {s : St} (h : Wf hash s) {key g : Nat}
    (hl : lookup hash s key = some g) : (abs s)[g]? = some (some key) := by
  unfold lookup at hl
  cases hf : s.map.find? (fun e => e.2 == hash key && s.values[e.1]? == some key) with
  | none => rw [hf] at hl; cases hl
  | some e =>
    rw [hf] at hl
    simp only [Option.map_some, Option.some.injEq] at hl
    have hp := List.find?_some hf
    have hm := List.mem_of_find?_eq_some hf
    simp only [Bool.and_eq_true, beq_iff_eq] at hp
    obtain ⟨hnn, _⟩ := h.mapSound e hm
    rw [abs_get, ← hl]
    have : ¬ (s.nullGroup = some e.1 ∧ e.1 < s.values.length) := fun c => hnn c.1
    rw [if_neg this, hp.2]; rfl

theorem lookup_none {hash : Nat → Nat} {s : St} (h : Wf hash s) {key : Nat}
    (hl : lookup hash s key = none) : some key ∉ abs s := by
  unfold lookup at hl
  simp only [Option.map_eq_none_iff, List.find?_eq_none] at hl
  intro hm
  obtain ⟨g, hg⟩ := List.mem_iff_getElem?.mp hm
  rw [abs_get] at hg
  split at hg
  · cases hg
  · rename_i hc
    cases hv : s.values[g]? with
    | none => rw [hv] at hg; cases hg
    | some v =>
      rw [hv] at hg
      simp only [Option.map_some, Option.some.injEq] at hg
      subst hg
      have hnn : s.nullGroup ≠ some g := by
        intro e
        apply hc
        refine ⟨e, ?_⟩
        rcases Nat.lt_or_ge g s.values.length with h' | h'
        · exact h'
        · rw [List.getElem?_eq_none h'] at hv; cases hv
      have := hl _ (h.mapComplete g v hv hnn)
      simp [hv] at this

theorem abs_push_null (s : St) (h : s.nullGroup = none) :
    abs { s with nullGroup := some s.values.length, values := s.values ++ [default] } = abs s ++ [none] := by
  simp [abs, h]

theorem abs_push_val (s : St) (key : Nat) (m : List (Nat × Nat))
    (hn : ∀ i, s.nullGroup = some i → i < s.values.length) :
    abs { s with map := m, values := s.values ++ [key] } = abs s ++ [some key] := by
  unfold abs
  cases hg : s.nullGroup with
  | none => simp
  | some i =>
    have := hn i hg
    simp only [List.map_append, List.map_cons, List.map_nil]
    rw [List.set_append_left _ _ (by simpa using this)]

/-- one `intern` of one key: the concrete step is the specification step on the abstraction -/
theorem intern1_refines {hash : Nat → Nat} {s : St} (h : Wf hash s) (k : Option Nat) :
    Wf hash (intern1 hash s k).1 ∧
    abs (intern1 hash s k).1 = (Spec.intern1 (abs s) k).1 ∧
    (intern1 hash s k).2 = (Spec.intern1 (abs s) k).2 := by
  have key : Wf hash (intern1 hash s k).1 ∧ abs (intern1 hash s k).1 = (Spec.intern1 (abs s) k).1 ∧
      (abs (intern1 hash s k).1)[(intern1 hash s k).2]? = some k := by
    cases k with
    | none =>
      cases hn : s.nullGroup with
      | some g =>
        have hlt := h.nullLt g hn
        have hget : (abs s)[g]? = some none := by rw [abs_get]; simp [hn, hlt]
        have hmem : none ∈ abs s := List.mem_iff_getElem?.mpr ⟨g, hget⟩
        simp only [intern1, hn]
        refine ⟨h, ?_, hget⟩
        rw [intern1_fst]; simp [hmem]
      | none =>
        have hnm : none ∉ abs s := by simp [abs, hn]
        simp only [intern1, hn]
        have habs := abs_push_null s hn
        refine ⟨?_, ?_, ?_⟩
        · refine ⟨?_, ?_, ?_, ?_⟩
          · intro i hi; simp only [Option.some.injEq] at hi; subst hi; simp
          · intro e he
            obtain ⟨_, v, hv, hh⟩ := h.mapSound e he
            have hlt : e.1 < s.values.length := by
              rcases Nat.lt_or_ge e.1 s.values.length with h' | h'
              · exact h'
              · rw [List.getElem?_eq_none h'] at hv; cases hv
            refine ⟨?_, v, ?_, hh⟩
            · simp only [ne_eq, Option.some.injEq]; omega
            · simp only; rw [List.getElem?_append_left hlt]; exact hv
          · intro g v hv hne
            simp only [ne_eq, Option.some.injEq] at hne
            simp only at hv
            have hlt : g < s.values.length := by
              have : g < (s.values ++ [default]).length := by
                rcases Nat.lt_or_ge g (s.values ++ [default]).length with h' | h'
                · exact h'
                · rw [List.getElem?_eq_none h'] at hv; cases hv
              simp only [List.length_append, List.length_cons, List.length_nil] at this
              omega
            rw [List.getElem?_append_left hlt] at hv
            exact h.mapComplete g v hv (by rw [hn]; simp)
          · rw [habs, List.nodup_append]
            refine ⟨h.nodup, by simp, ?_⟩
            intro a ha b hb
            simp only [List.mem_singleton] at hb
            subst hb
            intro e; subst e; exact hnm ha
        · rw [habs, intern1_fst]; simp [hnm]
        · rw [habs, ← abs_length]; simp
    | some key =>
      cases hl : lookup hash s key with
      | some g =>
        have hget := lookup_some h hl
        have hmem : some key ∈ abs s := List.mem_iff_getElem?.mpr ⟨g, hget⟩
        simp only [intern1, hl]
        refine ⟨h, ?_, hget⟩
        rw [intern1_fst]; simp [hmem]
      | none =>
        have hnm := lookup_none h hl
        simp only [intern1, hl]
        have habs := abs_push_val s key (s.map ++ [(s.values.length, hash key)]) h.nullLt
        refine ⟨?_, ?_, ?_⟩
        · refine ⟨?_, ?_, ?_, ?_⟩
          · intro i hi
            have := h.nullLt i hi
            simp only [List.length_append, List.length_cons, List.length_nil]; omega
          · intro e he
            rcases List.mem_append.mp he with he | he
            · obtain ⟨hnn, v, hv, hh⟩ := h.mapSound e he
              have hlt : e.1 < s.values.length := by
                rcases Nat.lt_or_ge e.1 s.values.length with h' | h'
                · exact h'
                · rw [List.getElem?_eq_none h'] at hv; cases hv
              refine ⟨hnn, v, ?_, hh⟩
              simp only; rw [List.getElem?_append_left hlt]; exact hv
            · simp only [List.mem_singleton] at he
              subst he
              refine ⟨?_, key, by simp, rfl⟩
              intro e
              have := h.nullLt _ e
              simp at this
          · intro g v hv hne
            simp only at hv hne
            rcases Nat.lt_or_ge g s.values.length with hlt | hge
            · rw [List.getElem?_append_left hlt] at hv
              exact List.mem_append_left _ (h.mapComplete g v hv hne)
            · have hg : g = s.values.length := by
                have : g < (s.values ++ [key]).length := by
                  rcases Nat.lt_or_ge g (s.values ++ [key]).length with h' | h'
                  · exact h'
                  · rw [List.getElem?_eq_none h'] at hv; cases hv
                simp only [List.length_append, List.length_cons, List.length_nil] at this
                omega
              subst hg
              simp only [List.getElem?_append_right (Nat.le_refl _), Nat.sub_self,
                List.getElem?_cons_zero, Option.some.injEq] at hv
              subst hv
              exact List.mem_append_right _ (by simp)
          · rw [habs, List.nodup_append]
            refine ⟨h.nodup, by simp, ?_⟩
            intro a ha b hb
            simp only [List.mem_singleton] at hb
            subst hb
            intro e; subst e; exact hnm ha
        · rw [habs, intern1_fst]; simp [hnm]
        · rw [habs, ← abs_length]; simp
  obtain ⟨hw, ha, hg⟩ := key
  refine ⟨hw, ha, ?_⟩
  have h2 := intern1_get (abs s) k
  rw [← ha] at h2
  exact nodup_getElem?_inj hw.nodup hg h2

theorem internAll_refines {hash : Nat → Nat} {s : St} (h : Wf hash s) (ks : List (Option Nat)) :
    Wf hash (internAll hash s ks).1 ∧
    abs (internAll hash s ks).1 = (Spec.internAll (abs s) ks).1 ∧
    (internAll hash s ks).2 = (Spec.internAll (abs s) ks).2 := by
  induction ks generalizing s with
  | nil => exact ⟨h, rfl, rfl⟩
  | cons k ks ih =>
    obtain ⟨hw, ha, hi⟩ := intern1_refines h k
    obtain ⟨hw', ha', hi'⟩ := ih hw
    simp only [internAll, Spec.internAll]
    rw [← ha, ← hi]
    exact ⟨hw', ha', by rw [hi']⟩

theorem build_abs {s : St} (hn : ∀ i, s.nullGroup = some i → i < s.values.length) :
    build s.values s.nullGroup = some (abs s) := by
  unfold build abs
  cases hg : s.nullGroup with
  | none => rfl
  | some i => simp [hn i hg]


/-- `emit(EmitTo::First(n))`, `n ≤ len`: emits the keys of ids `0..n` in id order, the remaining
    groups are renumbered down by `n` (map entries and `null_group` included) -/
theorem emitFirst_refines {hash : Nat → Nat} {s : St} (h : Wf hash s) (fix : Bool) (n : Nat)
    (hn : n ≤ s.values.length) :
    Wf hash (step hash fix s (.emit (.first n))).1 ∧
    abs (step hash fix s (.emit (.first n))).1 = (abs s).drop n ∧
    (step hash fix s (.emit (.first n))).2 = .keys ((abs s).take n) := by
  simp only [step, hn, if_true]
  cases hg : s.nullGroup with
  | none =>
    simp only
    refine ⟨⟨?_, ?_, ?_, ?_⟩, ?_, ?_⟩
    · intro i hi; cases hi
    · intro e he
      obtain ⟨a, ha, hf⟩ := List.mem_filterMap.mp he
      split at hf
      · rename_i hle
        injection hf with hf; subst hf
        obtain ⟨_, v, hv, hh⟩ := h.mapSound a ha
        refine ⟨by simp, v, ?_, hh⟩
        simp only [List.getElem?_drop]
        rw [show n + (a.1 - n) = a.1 by omega]; exact hv
      · cases hf
    · intro g v hv _
      simp only [List.getElem?_drop] at hv
      have := h.mapComplete (n + g) v hv (by rw [hg]; simp)
      apply List.mem_filterMap.mpr
      exact ⟨(n + g, hash v), this, by simp⟩
    · have := h.nodup
      simp only [abs, hg] at this ⊢
      exact List.Nodup.sublist ((List.drop_sublist n s.values).map some) this
    · simp [abs, hg, List.map_drop]
    · simp [build, abs, hg, List.map_take]
  | some v =>
    have hv := h.nullLt v hg
    by_cases hle : n ≤ v
    · simp only [hle, if_true]
      have habs : abs { map := s.map.filterMap (fun e => if n ≤ e.1 then some (e.1 - n, e.2) else none),
                        nullGroup := some (v - n), values := s.values.drop n } = (abs s).drop n := by
        simp only [abs, hg, List.drop_set, List.map_drop]
        rw [if_neg (by omega)]
      refine ⟨⟨?_, ?_, ?_, ?_⟩, habs, ?_⟩
      · intro i hi
        simp only [Option.some.injEq] at hi
        subst hi
        simp only [List.length_drop]; omega
      · intro e he
        obtain ⟨a, ha, hf⟩ := List.mem_filterMap.mp he
        split at hf
        · rename_i hle'
          injection hf with hf; subst hf
          obtain ⟨hnn, w, hw, hh⟩ := h.mapSound a ha
          refine ⟨?_, w, ?_, hh⟩
          · simp only [ne_eq, Option.some.injEq]
            intro e
            apply hnn
            rw [hg]; congr 1; omega
          · simp only [List.getElem?_drop]
            rw [show n + (a.1 - n) = a.1 by omega]; exact hw
        · cases hf
      · intro g w hw hne
        simp only [List.getElem?_drop] at hw
        simp only [ne_eq, Option.some.injEq] at hne
        have := h.mapComplete (n + g) w hw (by rw [hg]; simp only [ne_eq, Option.some.injEq]; omega)
        apply List.mem_filterMap.mpr
        exact ⟨(n + g, hash w), this, by simp⟩
      · rw [habs]; exact List.Nodup.sublist (List.drop_sublist n _) h.nodup
      · simp only [build, abs, hg, List.take_set, List.map_take]
        rw [List.set_eq_of_length_le (by simp; omega)]
    · simp only [hle, if_false]
      have hvn : v < n := by omega
      have habs : abs { map := s.map.filterMap (fun e => if n ≤ e.1 then some (e.1 - n, e.2) else none),
                        nullGroup := none, values := s.values.drop n } = (abs s).drop n := by
        simp only [abs, hg, List.drop_set, List.map_drop]
        rw [if_pos hvn]
      refine ⟨⟨?_, ?_, ?_, ?_⟩, habs, ?_⟩
      · intro i hi; cases hi
      · intro e he
        obtain ⟨a, ha, hf⟩ := List.mem_filterMap.mp he
        split at hf
        · injection hf with hf; subst hf
          obtain ⟨_, w, hw, hh⟩ := h.mapSound a ha
          refine ⟨by simp, w, ?_, hh⟩
          simp only [List.getElem?_drop]
          rw [show n + (a.1 - n) = a.1 by omega]; exact hw
        · cases hf
      · intro g w hw _
        simp only [List.getElem?_drop] at hw
        have := h.mapComplete (n + g) w hw (by rw [hg]; simp only [ne_eq, Option.some.injEq]; omega)
        apply List.mem_filterMap.mpr
        exact ⟨(n + g, hash w), this, by simp⟩
      · rw [habs]; exact List.Nodup.sublist (List.drop_sublist n _) h.nodup
      · have : v < (s.values.take n).length := by simp; omega
        simp only [build, this, if_true, abs, hg, List.take_set, List.map_take]

/-- every operation (with a `clear_shrink` that also resets `null_group`) is the specification's
    operation on the abstraction -/
theorem step_refines {hash : Nat → Nat} {s : St} (h : Wf hash s) (op : Op (Option Nat)) :
    Wf hash (step hash true s op).1 ∧
    abs (step hash true s op).1 = (Spec.step (abs s) op).1 ∧
    (step hash true s op).2 = (Spec.step (abs s) op).2 := by
  cases op with
  | intern ks =>
    obtain ⟨a, b, c⟩ := internAll_refines h ks
    exact ⟨a, b, by simp only [step, Spec.step]; rw [c]⟩
  | emit e =>
    cases e with
    | all =>
      simp only [step, Spec.step, build_abs h.nullLt]
      exact ⟨wf_init hash, by simp [abs, init], by trivial⟩
    | first n =>
      by_cases hn : n ≤ s.values.length
      · obtain ⟨a, b, c⟩ := emitFirst_refines h true n hn
        have hn' : n ≤ (abs s).length := by rw [abs_length]; exact hn
        simp only [Spec.step, hn', if_true]
        exact ⟨a, b, c⟩
      · have hn' : ¬ n ≤ (abs s).length := by rw [abs_length]; exact hn
        simp only [step, Spec.step, hn, hn', if_false]
        exact ⟨h, by trivial, by trivial⟩
  | clear =>
    simp only [step, Spec.step, if_true]
    exact ⟨wf_init hash, by simp [abs], by trivial⟩

end PrimR

end DfModel.Proofs.C13
