/-
  C15 helper lemmas, part 4: progress (ranking) arguments for blocked waiters. Core Lean only.
-/
import DfModel.Proofs.C15c
namespace DfModel.Proofs.C15
open DfModel.Sm.Chan

theorem qlen_eq (s : St) (c : Nat) :
    qlen s c = match dataOf s c with | some q => q.length | none => 0 := rfl

theorem qlen_congr {s s' : St} {c : Nat} (h : dataOf s' c = dataOf s c) : qlen s' c = qlen s c := by
  rw [qlen_eq, qlen_eq, h]

/-- a blocked, not woken sender sees: gate closed, counter 0, its channel open and non-empty -/
theorem blockedSend_facts {s : St} (h : Inv s) {t c : Nat} (hb : BlockedSend s t c) :
    s.empty = 0 ∧ c < s.n ∧ (∃ a q, dataOf s c = some (a :: q)) ∧ 0 < (s.chan c).nSenders := by
  obtain ⟨l, h1, h2, h3, h4, h5⟩ := h.waiters.bs t c hb.1 hb.2
  have he : s.empty = 0 := h.core.gateClosed (by rw [h1]; simp)
  refine ⟨he, h3, ?_, h5⟩
  have hz : countOE s.chan s.n = 0 := by rw [← h.core.cnt]; exact he
  have hoe := countOE_zero _ _ hz c h3
  rw [openEmpty_false_iff] at hoe
  obtain ⟨ws, hw⟩ := rw_some_of_tx h.core h3 h5
  cases hd : (s.chan c).data with
  | none => exact absurd hd h4
  | some q =>
    cases q with
    | nil => exact absurd ⟨hd, by rw [hw]; simp⟩ hoe
    | cons a q => exact ⟨a, q, hd⟩

/-- ranking argument for a blocked sender: no step lets the queue of its channel grow while it
    stays blocked, and every `recv` on that channel shrinks it -/
theorem sender_progress_step {s : St} (h : Inv s) {t c : Nat} (hb : BlockedSend s t c) (op : Op) :
    ¬ BlockedSend (step s op).1 t c ∨
      (qlen (step s op).1 c ≤ qlen s c ∧
        (∀ t', op = .recv c t' → qlen (step s op).1 c < qlen s c)) := by
  obtain ⟨he, hc, ⟨a, q, hd⟩, hs⟩ := blockedSend_facts h hb
  have keep : ∀ (op : Op), dataOf (step s op).1 c = dataOf s c → (∀ t', op ≠ .recv c t') →
      ¬ BlockedSend (step s op).1 t c ∨
      (qlen (step s op).1 c ≤ qlen s c ∧
        (∀ t', op = .recv c t' → qlen (step s op).1 c < qlen s c)) := by
    intro op h1 h2
    exact Or.inr ⟨Nat.le_of_eq (qlen_congr h1), fun t' e => absurd e (h2 t')⟩
  cases op with
  | clone c' => exact keep _ ((step_clone_spec s c').1 c) (by intro _ e; cases e)
  | dropTx c' => exact keep _ ((step_dropTx_spec h.core c').1 c) (by intro _ e; cases e)
  | cancel t' => exact keep _ rfl (by intro _ e; cases e)
  | send c' t' v =>
    by_cases hv : c' < s.n ∧ 0 < (s.chan c').nSenders
    · obtain ⟨h1, h2⟩ := step_send_spec h.core c' t' v hv
      by_cases hcc : c = c'
      · subst hcc
        rw [hd] at h2
        simp only [he, if_true] at h2
        exact keep _ (by rw [h2.2, hd]) (by intro _ e; cases e)
      · exact keep _ (h1 c hcc) (by intro _ e; cases e)
    · have hi : (step s (.send c' t' v)) = (s, ⟨.invalid, []⟩) := by simp [step, hv]
      exact keep _ (by rw [hi]) (by intro _ e; cases e)
  | recv c' t' =>
    by_cases hcc : c = c'
    · subst hcc
      obtain ⟨_, h2⟩ := step_recv_spec h.core c t' (a :: q) hc hd
      simp only at h2
      right
      have : qlen (step s (.recv c t')).1 c < qlen s c := by
        rw [qlen_eq, qlen_eq, h2.2, hd]; simp
      exact ⟨Nat.le_of_lt this, fun _ _ => this⟩
    · by_cases hc' : c' < s.n
      · cases hd' : (s.chan c').data with
        | none =>
          have hi : (step s (.recv c' t')) = (s, ⟨.invalid, []⟩) := by simp [step, hd']
          exact keep _ (by rw [hi]) (by intro _ e; cases e; exact hcc rfl)
        | some q' =>
          obtain ⟨h1, _⟩ := step_recv_spec h.core c' t' q' hc' hd'
          exact keep _ (h1 c hcc) (by intro _ e; cases e; exact hcc rfl)
      · have hi : (step s (.recv c' t')) = (s, ⟨.invalid, []⟩) := by simp [step, hc']
        exact keep _ (by rw [hi]) (by intro _ e; cases e; exact hcc rfl)
  | dropRx c' =>
    by_cases hcc : c = c'
    · subst hcc
      -- the receiver of `c` goes away: `t` is woken (it would otherwise contradict the invariant)
      left
      intro hb'
      have hI' := inv_step s (.dropRx c) h
      obtain ⟨_, _, ⟨a', q', hd'⟩, _⟩ := blockedSend_facts hI' hb'
      obtain ⟨_, h2⟩ := step_dropRx_spec h.core c
      have : c < s.n ∧ dataOf s c ≠ none := ⟨hc, by rw [hd]; simp⟩
      rw [if_pos this] at h2
      rw [h2.2] at hd'; cases hd'
    · exact keep _ ((step_dropRx_spec h.core c').1 c hcc) (by intro _ e; cases e)

def recvCount (c : Nat) : List Op → Nat
  | [] => 0
  | .recv c' _ :: ops => (if c' = c then 1 else 0) + recvCount c ops
  | _ :: ops => recvCount c ops

theorem run_take_succ (s : St) (op : Op) (ops : List Op) (k : Nat) :
    (run s ((op :: ops).take (k + 1))).1 = (run (step s op).1 (ops.take k)).1 := by
  simp [List.take, run]

/-- while `t` stays blocked on `send c`, the queue of `c` plus the number of `recv c` polls made
    is bounded by the initial queue length -/
theorem drain_bound (s : St) (h : Inv s) (t c : Nat) (ops : List Op)
    (hb : ∀ k, k ≤ ops.length → BlockedSend (run s (ops.take k)).1 t c) :
    qlen (run s ops).1 c + recvCount c ops ≤ qlen s c := by
  induction ops generalizing s with
  | nil => simp [run, recvCount]
  | cons op ops ih =>
    have hb0 : BlockedSend s t c := by simpa [run] using hb 0 (by simp)
    have hb1 : BlockedSend (step s op).1 t c := by
      have := hb 1 (by simp)
      simpa [List.take, run] using this
    have ih' := ih (step s op).1 (inv_step s op h) (by
      intro k hk
      have := hb (k + 1) (by simp; omega)
      rwa [run_take_succ] at this)
    rw [run_fst_cons]
    rcases sender_progress_step h hb0 op with hp | ⟨hp1, hp2⟩
    · exact absurd hb1 hp
    · cases op with
      | recv c' t' =>
        simp only [recvCount]
        by_cases hcc : c' = c
        · subst hcc
          have := hp2 t' rfl
          simp only [if_true]
          omega
        · simp only [hcc, if_false]; omega
      | send _ _ _ => simp only [recvCount]; omega
      | clone _ => simp only [recvCount]; omega
      | dropTx _ => simp only [recvCount]; omega
      | dropRx _ => simp only [recvCount]; omega
      | cancel _ => simp only [recvCount]; omega

end DfModel.Proofs.C15
