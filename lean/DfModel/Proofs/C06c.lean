/-
  C06 — ordered input: early emission of complete groups. Core Lean only.
-/
import DfModel.Proofs.C06b
namespace DfModel.Proofs.C06
open DfModel.Mech.AggAcc DfModel.Mech.GroupAgg DfModel.Proofs.C07

variable {K σ ρ S : Type} [DecidableEq K] [DecidableEq S]

def runRows (run : Row K × List (Row K)) : List (Row K) := run.1 :: run.2

theorem runsOn_flatten (sk : K → S) (rows : List (Row K)) :
    ((runsOn sk rows).map runRows).flatten = rows := by
  induction rows with
  | nil => rfl
  | cons r l ih =>
    simp only [runsOn]
    cases h : runsOn sk l with
    | nil => rw [h] at ih; simp at ih; simp [runRows, ih]
    | cons q rs =>
      obtain ⟨q, run⟩ := q
      rw [h] at ih
      simp only
      split <;> simp_all [runRows]

theorem runsOn_head (sk : K → S) (l : List (Row K)) (q : Row K) (run : List (Row K))
    (rs : List (Row K × List (Row K))) (h : runsOn sk l = (q, run) :: rs) : ∃ l', l = q :: l' := by
  cases l with
  | nil => simp [runsOn] at h
  | cons x l' =>
    simp only [runsOn] at h
    cases h2 : runsOn sk l' with
    | nil => rw [h2] at h; simp at h; exact ⟨l', by rw [h.1.1]⟩
    | cons q' rs' =>
      obtain ⟨q', run'⟩ := q'
      rw [h2] at h
      simp only at h
      split at h <;> (simp at h; exact ⟨l', by rw [h.1.1]⟩)

/-- in clustered input, rows of different runs have different sort keys -/
theorem runsOn_distinct (sk : K → S) (rows : List (Row K)) (hc : Clustered (rows.map (fun r => sk r.1))) :
    (runsOn sk rows).Pairwise (fun p q => ∀ x ∈ runRows p, ∀ y ∈ runRows q, sk x.1 ≠ sk y.1) := by
  induction rows with
  | nil => simp [runsOn]
  | cons r l ih =>
    simp only [List.map_cons, Clustered] at hc
    have ih' := ih hc.2
    simp only [runsOn]
    cases h : runsOn sk l with
    | nil => simp
    | cons q rs =>
      obtain ⟨q, run⟩ := q
      rw [h] at ih'
      have hp := List.pairwise_cons.mp ih'
      simp only
      split
      · rename_i heq
        refine List.pairwise_cons.mpr ⟨?_, hp.2⟩
        intro p hp' x hx y hy
        simp only [runRows, List.mem_cons] at hx
        rcases hx with rfl | hx
        · rw [heq]; exact hp.1 p hp' q (by simp [runRows]) y hy
        · exact hp.1 p hp' x (by simpa [runRows] using hx) y hy
      · rename_i hne
        refine List.pairwise_cons.mpr ⟨?_, ih'⟩
        intro p hp' x hx y hy
        simp only [runRows, List.mem_cons, List.not_mem_nil, or_false] at hx
        rw [hx]
        -- y is a row of l, and l starts with q whose sort key differs from r's
        obtain ⟨l', hl⟩ := runsOn_head sk l q run rs h
        have hy' : y ∈ l := by
          have := runsOn_flatten sk l
          rw [h] at this
          rw [← this]
          exact List.mem_flatten.mpr ⟨runRows p, List.mem_map.mpr ⟨p, hp', rfl⟩, hy⟩
        have hdw : (l.map (fun r => sk r.1)).dropWhile (fun x => decide (x = sk r.1)) = l.map (fun r => sk r.1) := by
          subst hl
          have : ¬ sk q.1 = sk r.1 := fun e => hne e.symm
          simp [List.dropWhile_cons, this]
        have := hc.1 (sk y.1) (by rw [hdw]; exact List.mem_map.mpr ⟨y, hy', rfl⟩)
        exact fun e => this e.symm

/-- aggregating parts that do not share the key `k` = aggregating the concatenation -/
theorem findSome_specAgg (a : Acc σ ρ) (parts : List (List (Row K))) (k : K)
    (hex : parts.Pairwise (fun p q => ¬ (p.any (fun r => r.1 = k) = true ∧ q.any (fun r => r.1 = k) = true))) :
    parts.findSome? (fun p => specAgg a p k) = specAgg a parts.flatten k := by
  induction parts with
  | nil => rfl
  | cons p ps ih =>
    have hp := List.pairwise_cons.mp hex
    simp only [List.findSome?_cons, List.flatten_cons]
    cases hk : p.any (fun r => decide (r.1 = k))
    · have h1 : specAgg a p k = none := by simp [specAgg, hk]
      rw [h1, ih hp.2]
      simp only [specAgg, List.any_append, hk, Bool.false_or, valsOf_append, valsOf_of_not_any k p hk, List.nil_append]
    · have hrest : ps.flatten.any (fun r => decide (r.1 = k)) = false := by
        rw [Bool.eq_false_iff]
        intro hany
        simp only [List.any_eq_true, List.mem_flatten] at hany
        obtain ⟨x, ⟨q, hq, hxq⟩, hx⟩ := hany
        exact hp.1 q hq ⟨hk, List.any_eq_true.mpr ⟨x, hxq, hx⟩⟩
      simp only [specAgg, hk, if_true, List.any_append, Bool.true_or, valsOf_append,
        valsOf_of_not_any k ps.flatten hrest, List.append_nil]

/-- **ordered input**: emitting the groups of a sort-key run as soon as the run ends loses nothing —
    every key's result is the specification's -/
theorem orderedAgg_spec (a : Acc σ ρ) (sk : K → S) (rows : List (Row K))
    (hc : Clustered (rows.map (fun r => sk r.1))) (k : K) :
    lookupOut (orderedAgg a sk rows) k = specAgg a rows k := by
  have hflat := runsOn_flatten sk rows
  simp only [orderedAgg, lookupOut_flatten, List.findSome?_map, Function.comp_def, singleAgg_spec]
  have : (runsOn sk rows).findSome? (fun run => specAgg a (run.1 :: run.2) k)
      = ((runsOn sk rows).map runRows).findSome? (fun p => specAgg a p k) := by
    simp [List.findSome?_map, Function.comp_def, runRows]
  rw [this, findSome_specAgg, hflat]
  rw [List.pairwise_map]
  refine (runsOn_distinct sk rows hc).imp ?_
  intro p q hpq ⟨h1, h2⟩
  simp only [List.any_eq_true, decide_eq_true_eq] at h1 h2
  obtain ⟨x, hx, hxk⟩ := h1
  obtain ⟨y, hy, hyk⟩ := h2
  exact hpq x hx y hy (by rw [hxk, hyk])

/-- an emitted group never receives a later row: a key occurs in at most one run -/
theorem emitted_group_complete (sk : K → S) (rows : List (Row K))
    (hc : Clustered (rows.map (fun r => sk r.1))) (k : K) :
    ((runsOn sk rows).map runRows).Pairwise
      (fun p q => ¬ (p.any (fun r => r.1 = k) = true ∧ q.any (fun r => r.1 = k) = true)) := by
  rw [List.pairwise_map]
  refine (runsOn_distinct sk rows hc).imp ?_
  intro p q hpq ⟨h1, h2⟩
  simp only [List.any_eq_true, decide_eq_true_eq] at h1 h2
  obtain ⟨x, hx, hxk⟩ := h1
  obtain ⟨y, hy, hyk⟩ := h2
  exact hpq x hx y hy (by rw [hxk, hyk])

end DfModel.Proofs.C06
