/-
  C15 helper lemmas, part 2: what each step returns and what it does to the queues
  (used for FIFO / exactly-once / close / error theorems). Core Lean only.
-/
import DfModel.Proofs.C15
namespace DfModel.Proofs.C15
open DfModel.Sm.Chan
set_option linter.unusedSectionVars false

def dataOf (s : St) (c : Nat) : Option (List Nat) := (s.chan c).data

/-- result and queue effect of a valid `send` -/
theorem step_send_spec {s : St} (h : InvC s) (c t v : Nat)
    (hv : c < s.n ∧ 0 < (s.chan c).nSenders) :
    (∀ c', c' ≠ c → dataOf (step s (.send c t v)).1 c' = dataOf s c') ∧
    (match dataOf s c with
     | none => (step s (.send c t v)).2.res = .sendErr ∧ dataOf (step s (.send c t v)).1 c = none
     | some q =>
       if s.empty = 0 then
         (step s (.send c t v)).2.res = .sendPending ∧ dataOf (step s (.send c t v)).1 c = some q
       else
         (step s (.send c t v)).2.res = .sendOk ∧
           dataOf (step s (.send c t v)).1 c = some (q ++ [v])) := by
  have h0 : InvC (pollBegin s t) := h.of_core rfl rfl rfl rfl
  have hc0 : c < (pollBegin s t).n := hv.1
  simp only [step, hv, and_self, if_true, dataOf, setBlk_chan]
  cases hd : (s.chan c).data with
  | none =>
    rw [pollSend_err h0 hc0 t v hd]
    simp [hd]
  | some q =>
    obtain ⟨ws, hw⟩ := rw_some_of_tx h hv.1 hv.2
    by_cases he : s.empty = 0
    · obtain ⟨l, hl⟩ := sw_some_of_zero h hv.1 he
      rw [pollSend_pending h0 hc0 t v q hd l he hl]
      simp [hd, he]
    · have hpos : 0 < s.empty := by omega
      cases q with
      | nil =>
        rw [pollSend_ok_empty h0 hc0 t v hd ws hw]
        simp only [he, if_false, wakeAll_chan, pollBegin_chan]
        refine ⟨fun c' hc' => ?_, trivial, ?_⟩
        · simp [setChan, hc']
        · simp [setChan]
      | cons a q =>
        rw [pollSend_ok_nonempty h0 hc0 t v a q hd hpos]
        simp only [he, if_false, pollBegin_chan]
        refine ⟨fun c' hc' => ?_, trivial, ?_⟩
        · simp [setChan, hc']
        · simp [setChan]

/-- result and queue effect of a valid `recv` -/
theorem step_recv_spec {s : St} (h : InvC s) (c t : Nat) (q : List Nat)
    (hc : c < s.n) (hd : (s.chan c).data = some q) :
    (∀ c', c' ≠ c → dataOf (step s (.recv c t)).1 c' = dataOf s c') ∧
    (match q with
     | [] =>
       dataOf (step s (.recv c t)).1 c = some [] ∧
       (if (s.chan c).nSenders = 0 then (step s (.recv c t)).2.res = .recvNone
        else (step s (.recv c t)).2.res = .recvPending)
     | v :: q' =>
       (step s (.recv c t)).2.res = .recvSome v ∧ dataOf (step s (.recv c t)).1 c = some q') := by
  have h0 : InvC (pollBegin s t) := h.of_core rfl rfl rfl rfl
  have hc0 : c < (pollBegin s t).n := hc
  have htx := h.tx c hc
  have hv : c < s.n ∧ (s.chan c).data.isSome = true := ⟨hc, by simp [hd]⟩
  simp only [step, hv, and_self, if_true, dataOf, setBlk_chan]
  cases q with
  | nil =>
    cases hw : (s.chan c).recvWakers with
    | none =>
      rw [pollRecv_eos h0 hc0 t hd hw]
      have : (s.chan c).nSenders = 0 := htx.mpr hw
      simp [hd, this]
    | some ws =>
      rw [pollRecv_pending h0 hc0 t hd ws hw]
      have : ¬ (s.chan c).nSenders = 0 := fun e => by rw [htx.mp e] at hw; cases hw
      simp only [this, if_false, pollBegin_chan]
      refine ⟨fun c' hc' => ?_, ?_, trivial⟩
      · simp [setChan, hc']
      · simp [setChan, hd]
  | cons v q =>
    by_cases hq : q ≠ [] ∨ (s.chan c).recvWakers = none
    · rw [pollRecv_plain h0 hc0 t v q hd hq]
      simp only [pollBegin_chan]
      refine ⟨fun c' hc' => ?_, trivial, ?_⟩
      · simp [setChan, hc']
      · simp [setChan]
    · have hq1 : q = [] := by
        false_or_by_contra; rename_i hne; exact hq (Or.inl hne)
      subst hq1
      cases hw : (s.chan c).recvWakers with
      | none => exact absurd (Or.inr hw) hq
      | some ws =>
        by_cases he : s.empty = 0
        · obtain ⟨l, hl⟩ := sw_some_of_zero h hc he
          rw [pollRecv_last_closed h0 hc0 t v hd ws hw l he hl]
          simp only [wakeAll_chan, pollBegin_chan]
          refine ⟨fun c' hc' => ?_, trivial, ?_⟩
          · simp [setChan, hc']
          · simp [setChan]
        · rw [pollRecv_last_open h0 hc0 t v hd ws hw (by show 0 < s.empty; omega)]
          simp only [pollBegin_chan]
          refine ⟨fun c' hc' => ?_, trivial, ?_⟩
          · simp [setChan, hc']
          · simp [setChan]

theorem step_clone_spec (s : St) (c : Nat) :
    (∀ c', dataOf (step s (.clone c)).1 c' = dataOf s c') ∧
    ((step s (.clone c)).2.res = .done ∨ (step s (.clone c)).2.res = .invalid) := by
  simp only [step, dataOf]
  split
  · refine ⟨fun c' => ?_, Or.inl rfl⟩
    simp only [setChan_chan]; split
    · rename_i e; subst e; rfl
    · rfl
  · exact ⟨fun _ => rfl, Or.inr rfl⟩

theorem step_dropTx_spec {s : St} (h : InvC s) (c : Nat) :
    (∀ c', dataOf (step s (.dropTx c)).1 c' = dataOf s c') ∧
    ((step s (.dropTx c)).2.res = .done ∨ (step s (.dropTx c)).2.res = .invalid) := by
  simp only [step, dataOf]
  split
  · rename_i hv
    obtain ⟨hc, hs⟩ := hv
    obtain ⟨ws, hw⟩ := rw_some_of_tx h hc hs
    have key : ∀ (X : Chan) (c' : Nat), X.data = (s.chan c).data →
        ((setChan s c X).chan c').data = (s.chan c').data := by
      intro X c' hX
      simp only [setChan_chan]; split
      · rename_i e; subst e; exact hX
      · rfl
    by_cases h1 : 1 < (s.chan c).nSenders
    · rw [dropSender_notlast h hc h1]
      exact ⟨fun c' => key _ c' rfl, Or.inl rfl⟩
    · have h1' : (s.chan c).nSenders = 1 := by omega
      by_cases hd : (s.chan c).data = some []
      · rw [dropSender_last_empty h hc h1' hd ws hw]
        exact ⟨fun c' => key _ c' rfl, Or.inl rfl⟩
      · rw [dropSender_last_nonempty h hc h1' hd ws hw]
        exact ⟨fun c' => key _ c' rfl, Or.inl rfl⟩
  · exact ⟨fun _ => rfl, Or.inr rfl⟩

theorem step_dropRx_spec {s : St} (h : InvC s) (c : Nat) :
    (∀ c', c' ≠ c → dataOf (step s (.dropRx c)).1 c' = dataOf s c') ∧
    (if c < s.n ∧ dataOf s c ≠ none then
       (step s (.dropRx c)).2.res = .done ∧ dataOf (step s (.dropRx c)).1 c = none
     else (step s (.dropRx c)).2.res = .invalid ∧ (step s (.dropRx c)).1 = s) := by
  simp only [step, dataOf]
  by_cases hc : c < s.n
  · simp only [hc, if_true, true_and]
    cases hd : (s.chan c).data with
    | none => simp
    | some q =>
      simp only [ne_eq, reduceCtorEq, not_false_eq_true, if_true]
      have key : ∀ (c' : Nat), c' ≠ c →
          ((setChan s c { s.chan c with data := none }).chan c').data = (s.chan c').data := by
        intro c' hne; simp [setChan_chan, hne]
      by_cases h1 : q = [] ∧ 0 < (s.chan c).nSenders
      · obtain ⟨hq, hs⟩ := h1
        subst hq
        rw [dropReceiver_open_empty h hc hs hd]
        exact ⟨fun c' hne => key c' hne, rfl, by simp [setChan]⟩
      · cases hsw : s.sendWakers with
        | none =>
          rw [dropReceiver_other_open h hc q h1 hsw]
          exact ⟨fun c' hne => key c' hne, rfl, by simp [setChan]⟩
        | some l =>
          rw [dropReceiver_other_closed h hc q h1 l hsw]
          exact ⟨fun c' hne => key c' hne, rfl, by simp [setChan]⟩
  · simp [hc]

theorem step_cancel_spec (s : St) (t : Nat) :
    (∀ c', dataOf (step s (.cancel t)).1 c' = dataOf s c') ∧ (step s (.cancel t)).2.res = .done :=
  ⟨fun _ => rfl, rfl⟩

theorem step_invalid_noop (s : St) (op : Op) (h : (step s op).2.res = .invalid) :
    (step s op).1 = s ∧ (step s op).2.wakes = [] := by
  cases op with
  | send c t v =>
    simp only [step] at h ⊢
    split
    · rename_i hv
      exfalso
      simp only [hv, and_self, if_true] at h
      revert h
      simp only [pollSend, pushSend]
      repeat' split
      all_goals simp
    · exact ⟨rfl, rfl⟩
  | recv c t =>
    simp only [step] at h ⊢
    split
    · rename_i hv
      exfalso
      simp only [hv, and_self, if_true] at h
      revert h
      simp only [pollRecv]
      repeat' split
      all_goals simp
    · exact ⟨rfl, rfl⟩
  | clone c =>
    simp only [step] at h ⊢
    split
    · rename_i hv; simp [hv] at h
    · exact ⟨rfl, rfl⟩
  | dropTx c =>
    simp only [step] at h ⊢
    split
    · rename_i hv
      exfalso
      simp only [hv, and_self, if_true] at h
      revert h
      simp only [dropSender]
      repeat' split
      all_goals simp
    · exact ⟨rfl, rfl⟩
  | dropRx c =>
    simp only [step] at h ⊢
    by_cases hc : c < s.n
    · simp only [hc, if_true] at h ⊢
      cases hd : (s.chan c).data with
      | none => exact ⟨rfl, rfl⟩
      | some q =>
        exfalso
        rw [hd] at h
        revert h
        simp only [dropReceiver]
        repeat' split
        all_goals simp
    · simp [hc]
  | cancel t => simp [step] at h

end DfModel.Proofs.C15
