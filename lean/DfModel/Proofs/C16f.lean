/-
  C16 helper lemmas, part F: every accepted batch sits in exactly one file (`LogP`); with no live
  sink only `finalize` and the reader can move (`step_dead`); end of stream is final and justified
  (`DoneI`).  Core Lean only.
-/
import DfModel.Proofs.C16e
namespace DfModel.Proofs.C16
open DfModel.Sm.SpillPool

/-! ### every accepted batch is in exactly one file (`LogP`) -/

def LogP (s : St) : Prop := (catW s.written s.nfiles).Perm (s.log.map (·.1))

theorem logp_init (m : Nat) : LogP (init m) := by simp [LogP, init, catW]

theorem logp_of_eq (s s' : St) (e1 : s'.written = s.written) (e2 : s'.nfiles = s.nfiles) (e3 : s'.log = s.log)
    (h : LogP s) : LogP s' := by
  unfold LogP at *; rw [e1, e2, e3]; exact h

theorem logp_stepCreate (s : St) (w b sz : Nat) (ok : Bool) (h : LogP s) : LogP (stepCreate s w b sz ok) := by
  unfold stepCreate
  split
  · unfold LogP at *
    simp only [wakePool_written, wakePool_nfiles, wakePool_log, catW_upd_last, List.append_nil]
    exact h
  · exact logp_of_eq _ _ rfl rfl rfl h

theorem perm_snoc_cons {l l' : List Nat} (b : Nat) (h : l.Perm l') : (b :: l).Perm (l' ++ [b]) :=
  (List.Perm.cons b h).trans (List.perm_append_singleton b l').symm

theorem logp_stepAppend (fx : Bool) (s : St) (w f b sz : Nat) (aok fok : Bool) (hl : Live s f) (h : LogP s) :
    LogP (stepAppend fx s w f b sz aok fok) := by
  obtain ⟨hl1, hl2, hl3⟩ := hl
  have hp := catW_append_perm s.written s.nfiles f b hl1
  unfold stepAppend
  simp only [hl3, ↓reduceIte]
  unfold LogP at *
  (repeat' split) <;>
    simp only [finishFile_written, finishFile_nfiles, finishFile_log, wakeFile_written, wakeFile_nfiles, List.map_append,
      List.map_cons, List.map_nil] <;>
    first | exact hp.trans (perm_snoc_cons b h) | exact h

theorem logp_step (fx : Bool) (s : St) (a : Act) (ho : Own s) (h : LogP s) : LogP (step fx s a) := by
  cases a with
  | push w b sz =>
    simp only [step]; split
    · split
      · unfold stepPush; split <;> exact logp_of_eq _ _ rfl rfl rfl h
      all_goals exact h
    · exact h
  | create w ok =>
    simp only [step]; split
    · split <;> first | exact logp_stepCreate s w _ _ ok h | exact h
    · exact h
  | append w aok fok =>
    simp only [step]; split
    · rename_i hw
      split
      · rename_i f b sz hpc
        exact logp_stepAppend fx s w f b sz aok fok (ho.own_live w hw f (by simp [hpc, own])) h
      all_goals exact h
    · exact h
  | giveBack w =>
    simp only [step]; split
    · split <;> first | exact logp_of_eq _ _ rfl rfl rfl h | exact h
    · exact h
  | clone w =>
    simp only [step]; split
    · exact logp_of_eq _ _ rfl rfl rfl h
    · exact h
  | drop w =>
    simp only [step]; split
    · split
      · unfold stepDrop; (repeat' split) <;> exact logp_of_eq _ _ (by simp) (by simp) (by simp) h
      all_goals exact h
    · exact h
  | finalize w =>
    simp only [step]; split
    · split
      · unfold stepFinalize; split
        · exact logp_of_eq _ _ (by simp) (by simp) (by simp) h
        · exact logp_of_eq _ _ (by simp) (by simp) (by simp) h
      all_goals exact h
    · exact h
  | reader => exact logp_of_eq _ _ (stepReader_written s) (stepReader_nfiles s) (stepReader_log s) h


/-! ### when no sink is alive only `finalize` and the reader can move -/

theorem step_dead (fx : Bool) (s : St) (a : Act) (hd : ∀ w, w < s.nw → alive (s.wpc w) = false) :
    (∃ w fs, w < s.nw ∧ s.wpc w = .finalizing fs ∧ step fx s a = stepFinalize s w fs) ∨
    a = .reader ∨ step fx s a = s := by
  cases a with
  | push w b sz =>
    right; right; simp only [step]; split
    · rename_i hw; have := hd w hw; split <;> simp_all [alive]
    · rfl
  | create w ok =>
    right; right; simp only [step]; split
    · rename_i hw; have := hd w hw; split <;> simp_all [alive]
    · rfl
  | append w aok fok =>
    right; right; simp only [step]; split
    · rename_i hw; have := hd w hw; split <;> simp_all [alive]
    · rfl
  | giveBack w =>
    right; right; simp only [step]; split
    · rename_i hw; have := hd w hw; split <;> simp_all [alive]
    · rfl
  | clone w =>
    right; right; simp only [step]; split
    · rename_i hw; have := hd w hw.1; simp_all
    · rfl
  | drop w =>
    right; right; simp only [step]; split
    · rename_i hw; have := hd w hw; split <;> simp_all [alive]
    · rfl
  | finalize w =>
    simp only [step]; split
    · rename_i hw
      split
      · rename_i fs hpc; left; exact ⟨w, fs, hw, hpc, rfl⟩
      all_goals (right; right; rfl)
    · right; right; rfl
  | reader => right; left; rfl

/-- only the reader sets `done` -/
theorem step_done_frame (fx : Bool) (s : St) (a : Act) (ha : a ≠ .reader) : (step fx s a).done = s.done := by
  cases a with
  | push w b sz => simp only [step]; (repeat' split) <;> first | rfl | (unfold stepPush; split <;> rfl)
  | create w ok => simp only [step]; (repeat' split) <;> first | rfl | (unfold stepCreate; split <;> simp)
  | append w aok fok =>
    simp only [step]; (repeat' split) <;> first | rfl | (unfold stepAppend; (repeat' split) <;> simp)
  | giveBack w => simp only [step]; (repeat' split) <;> rfl
  | clone w => simp only [step]; (repeat' split) <;> rfl
  | drop w => simp only [step]; (repeat' split) <;> first | rfl | (unfold stepDrop; (repeat' split) <;> simp)
  | finalize w =>
    simp only [step]; (repeat' split) <;> first | rfl | (unfold stepFinalize; (repeat' split) <;> simp)
  | reader => exact absurd rfl ha

/-! ### end of stream is final and justified (`DoneI`) -/

def DoneI (s : St) : Prop := s.done = true → s.count = 0 ∧ s.popped = s.nfiles ∧ s.cur = none

theorem donei_init (m : Nat) : DoneI (init m) := by simp [DoneI, init]

theorem donei_stepReader (s : St) (hr : Rd s) (h : DoneI s) : DoneI (stepReader s) := by
  obtain ⟨r1, r2, r3, r4, r5, r6, r7, r8, r9, r10, r11⟩ := hr
  unfold DoneI at *
  unfold stepReader
  (repeat' split) <;> dsimp only <;> grind

theorem donei_step (fx : Bool) (s : St) (a : Act) (hc : Cnt s) (hr : Rd s) (h : DoneI s) :
    DoneI (step fx s a) := by
  by_cases hdone : s.done = true
  · obtain ⟨h1, h2, h3⟩ := h hdone
    have hd := cntAlive_zero s.wpc s.nw (by rw [← hc.count_eq]; exact h1)
    rcases step_dead fx s a hd with ⟨w, fs, _, _, he⟩ | he | he
    · rw [he]; unfold stepFinalize
      split <;> intro _ <;> simp [h1, h2, h3]
    · subst he; exact donei_stepReader s hr h
    · rw [he]; exact h
  · -- `done` is set only by the reader
    by_cases ha : a = .reader
    · subst ha; exact donei_stepReader s hr h
    · have hfr := step_done_frame fx s a ha
      intro hd'; rw [hfr] at hd'; exact absurd hd' hdone

end DfModel.Proofs.C16
