/-
  Helper lemmas for C49 (catalog state machine). Core Lean only.
-/
import DfModel.Sm.Catalog
namespace DfModel.Proofs.C49
open DfModel.Sm.Catalog

/-- The flat state is the image of a nested catalog → schema → table map:
    names unique at every level, no schema without its catalog, no object without its schema. -/
structure Wf (s : State) : Prop where
  cats_nodup : s.cats.Nodup
  schemas_nodup : s.schemas.Nodup
  keys_nodup : (s.objs.map (·.key)).Nodup
  schema_cat : ∀ p ∈ s.schemas, p.1 ∈ s.cats
  obj_schema : ∀ e ∈ s.objs, (e.key.cat, e.key.sch) ∈ s.schemas

theorem inv_init : Wf init := by
  refine ⟨?_, ?_, ?_, ?_, ?_⟩ <;> simp [init]

/-! ### lookup -/

theorem lookup_eq_none_iff (s : State) (k : Key) :
    lookup s k = none ↔ k ∉ s.objs.map (·.key) := by
  simp only [lookup, List.find?_eq_none, List.mem_map, decide_eq_true_eq, not_exists, not_and]

theorem lookup_some_mem {s : State} {k : Key} {e : Entry} (h : lookup s k = some e) :
    e ∈ s.objs ∧ e.key = k := by
  simp only [lookup] at h
  have h1 := List.mem_of_find?_eq_some h
  have h2 := List.find?_some h
  exact ⟨h1, by simpa using h2⟩

theorem lookup_removeObj_self (s : State) (k : Key) : lookup (removeObj s k) k = none := by
  rw [lookup_eq_none_iff]
  simp only [removeObj, List.mem_map, List.mem_filter, Bool.not_eq_true', decide_eq_false_iff_not,
    not_exists, not_and]
  intro e he hk
  exact he.2 hk

theorem lookup_removeObj_ne (s : State) (k k' : Key) (h : k' ≠ k) :
    lookup (removeObj s k) k' = lookup s k' := by
  simp only [lookup, removeObj]
  rw [List.find?_filter]
  congr 1
  funext e
  by_cases hk' : e.key = k'
  · simp [hk', h]
  · simp [hk']

theorem lookup_insertObj_self (s : State) (e : Entry) (h : lookup s e.key = none) :
    lookup (insertObj s e) e.key = some e := by
  simp only [lookup, insertObj] at *
  rw [List.find?_append, h]
  simp

theorem lookup_insertObj_ne (s : State) (e : Entry) (k : Key) (h : e.key ≠ k) :
    lookup (insertObj s e) k = lookup s k := by
  simp only [lookup, insertObj]
  rw [List.find?_append]
  simp [List.find?_cons, h]

/-! ### the five state transformers preserve the invariant -/

theorem nodup_append_singleton {α} {l : List α} {x : α} (h : l.Nodup) (hx : x ∉ l) :
    (l ++ [x]).Nodup := by
  rw [List.nodup_append]
  refine ⟨h, by simp, ?_⟩
  intro a ha b hb
  simp only [List.mem_singleton] at hb
  subst hb
  intro hab; subst hab; exact hx ha

theorem inv_addCat {s : State} (h : Wf s) {c : Name} (hc : c ∉ s.cats) : Wf (addCat s c) := by
  refine ⟨nodup_append_singleton h.cats_nodup hc, h.schemas_nodup, h.keys_nodup, ?_, h.obj_schema⟩
  intro p hp
  simp only [addCat, List.mem_append]
  exact Or.inl (h.schema_cat p hp)

theorem inv_addSchema {s : State} (h : Wf s) {c sc : Name} (hc : c ∈ s.cats)
    (hs : (c, sc) ∉ s.schemas) : Wf (addSchema s c sc) := by
  refine ⟨h.cats_nodup, nodup_append_singleton h.schemas_nodup hs, h.keys_nodup, ?_, ?_⟩
  · intro p hp
    simp only [addSchema, List.mem_append, List.mem_singleton] at hp
    rcases hp with hp | rfl
    · exact h.schema_cat p hp
    · exact hc
  · intro e he
    simp only [addSchema, List.mem_append]
    exact Or.inl (h.obj_schema e he)

theorem nodup_map_filter {α β} (f : α → β) (p : α → Bool) {l : List α} (h : (l.map f).Nodup) :
    ((l.filter p).map f).Nodup :=
  List.Nodup.sublist (List.Sublist.map f List.filter_sublist) h

theorem inv_removeObj {s : State} (h : Wf s) (k : Key) : Wf (removeObj s k) := by
  refine ⟨h.cats_nodup, h.schemas_nodup, nodup_map_filter _ _ h.keys_nodup, h.schema_cat, ?_⟩
  intro e he
  simp only [removeObj, List.mem_filter] at he
  exact h.obj_schema e he.1

theorem inv_insertObj {s : State} (h : Wf s) {e : Entry} (hk : lookup s e.key = none)
    (hs : hasSchema s e.key.cat e.key.sch = true) : Wf (insertObj s e) := by
  refine ⟨h.cats_nodup, h.schemas_nodup, ?_, h.schema_cat, ?_⟩
  · simp only [insertObj, List.map_append, List.map_cons, List.map_nil]
    exact nodup_append_singleton h.keys_nodup ((lookup_eq_none_iff s e.key).mp hk)
  · intro e' he'
    simp only [insertObj, List.mem_append, List.mem_singleton] at he'
    rcases he' with he' | rfl
    · exact h.obj_schema e' he'
    · simpa [hasSchema, insertObj] using hs

theorem inv_delSchema {s : State} (h : Wf s) (c sc : Name) : Wf (delSchema s c sc) := by
  refine ⟨h.cats_nodup, List.Nodup.sublist List.filter_sublist h.schemas_nodup,
    nodup_map_filter _ _ h.keys_nodup, ?_, ?_⟩
  · intro p hp
    simp only [delSchema, List.mem_filter] at hp
    exact h.schema_cat p hp.1
  · intro e he
    simp only [delSchema, List.mem_filter, inSchema, Bool.not_eq_true', Bool.and_eq_false_iff,
      decide_eq_false_iff_not] at he ⊢
    refine ⟨h.obj_schema e he.1, ?_⟩
    simp only [Bool.not_eq_true', decide_eq_false_iff_not, Prod.mk.injEq, not_and]
    intro hc hsc
    rcases he.2 with h' | h'
    · exact h' hc
    · exact h' hsc

theorem inv_createFresh {s : State} (h : Wf s) {e : Entry} (hk : lookup s e.key = none)
    (b : Bool) : Wf (createFresh s e b).1 := by
  simp only [createFresh]
  split
  · exact h
  · split
    · rename_i hs; exact inv_insertObj h hk hs
    · exact h

end DfModel.Proofs.C49
