/-
  C39 helper lemmas, part 3: partitions, layouts, and the shape of an updated row.
-/
import DfModel.Proofs.C39b
namespace DfModel.Proofs.C39
open DfModel DfModel.Sm.MemTable

theorem deleteBatch_spec (fs : List Expr) (b : Batch) : deleteBatch fs b = specRows (delRow fs) b := by
  rw [deleteBatch_rowwise, specRows_delRow]

theorem specRows_nil (g : Row → Option (Bool × List Row)) : specRows g [] = some (0, []) := by
  simp [specRows]

theorem specRows_append (g : Row → Option (Bool × List Row)) (a b : List Row) :
    specRows g (a ++ b) = (specRows g a).bind (fun x => (specRows g b).map (fun y => (x.1 + y.1, x.2 ++ y.2))) := by
  simp only [specRows, mapM_append']
  cases a.mapM g <;> cases b.mapM g <;> simp [List.countP_append]

/-- the per-partition result, read as rows -/
def flat (r : Nat × Part) : Nat × List Row := (r.1, r.2.flatten)

theorem deletePart_spec (fs : List Expr) (p : Part) :
    (deletePart fs p).map flat = specRows (delRow fs) p.flatten := by
  induction p with
  | nil => simp [deletePart, flat, specRows_nil]
  | cons b bs ih =>
    simp only [deletePart]
    split
    · rename_i he
      have : b = [] := by simpa using he
      subst this
      simpa using ih
    · simp only [List.flatten_cons, specRows_append, ← deleteBatch_spec, ← ih, Option.bind_eq_bind, Option.pure_def]
      cases deleteBatch fs b with
      | none => simp
      | some r =>
        cases deletePart fs bs with
        | none => simp
        | some rest =>
          simp only [Option.bind_some, Option.map_some, flat]
          split <;> simp_all

theorem updatePart_spec (w : Nat) (asg : List (Nat × Expr)) (fs : List Expr) (p : Part) :
    (updatePart w asg fs p).map flat = specRows (updRow w asg fs) p.flatten := by
  induction p with
  | nil => simp [updatePart, flat, specRows_nil]
  | cons b bs ih =>
    simp only [updatePart]
    split
    · rename_i he
      have : b = [] := by simpa using he
      subst this
      simpa using ih
    · simp only [List.flatten_cons, specRows_append, ← updateBatch_rowwise, ← ih, Option.bind_eq_bind, Option.pure_def]
      cases updateBatch w asg fs b with
      | none => simp
      | some r =>
        cases updatePart w asg fs bs with
        | none => simp
        | some rest => simp [flat]

/-- the partition loop: the statement succeeds iff the row-wise specification is defined on all
    rows, then reports its count and leaves its rows -/
theorem runParts_spec (f : Part → Option (Nat × Part)) (g : Row → Option (Bool × List Row))
    (hf : ∀ p, (f p).map flat = specRows g p.flatten) (l : Layout) (n : Nat) :
    (runParts f l n).2 = (specRows g (rows l)).map (fun x => n + x.1) ∧
    ∀ x, specRows g (rows l) = some x → rows (runParts f l n).1 = x.2 := by
  induction l generalizing n with
  | nil => simp [runParts, rows, specRows_nil]
  | cons p ps ih =>
    have hp := hf p
    simp only [runParts, rows, List.flatten_cons, List.flatten_append, specRows_append]
    cases hfp : f p with
    | none =>
      rw [hfp] at hp
      simp only [Option.map_none] at hp
      simp [← hp]
    | some r =>
      rw [hfp] at hp
      simp only [Option.map_some, flat] at hp
      obtain ⟨ih1, ih2⟩ := ih (n + r.1)
      simp only [rows] at ih1 ih2
      simp only [← hp, Option.bind_some, ih1]
      constructor
      · cases specRows g ps.flatten.flatten <;> simp [Nat.add_assoc]
      · intro x hx
        cases hs : specRows g ps.flatten.flatten with
        | none => simp [hs] at hx
        | some y =>
          simp only [hs, Option.map_some, Option.some.injEq] at hx
          subst hx
          simp [ih2 y hs]

/-! ## reading a successful row-wise run in `filter` / `countP` form -/

theorem mapM_pred_filter (g : Row → Option Bool) (rs : List Row) (ps : List Bool) (h : rs.mapM g = some ps) :
    keepRows (ps.map not) rs = rs.filter (fun r => g r != some true) ∧
    ps.countP id = rs.countP (fun r => g r == some true) ∧
    ∀ r ∈ rs, (g r).isSome = true := by
  induction rs generalizing ps with
  | nil => simp at h; subst h; simp [keepRows]
  | cons r rs ih =>
    simp only [List.mapM_cons] at h
    cases hg : g r with
    | none => simp [hg] at h
    | some p =>
      cases hm : rs.mapM g with
      | none => simp [hg, hm] at h
      | some ps' =>
        simp [hg, hm] at h
        subst h
        obtain ⟨h1, h2, h3⟩ := ih ps' hm
        refine ⟨?_, ?_, ?_⟩
        · cases p <;> simp [keepRows, List.filter_cons, hg, h1]
        · cases p <;> simp [List.countP_cons, hg, h2]
        · intro r' hr'
          simp only [List.mem_cons] at hr'
          rcases hr' with rfl | hr'
          · simp [hg]
          · exact h3 r' hr'

/-! ## an updated row, column by column -/

/-- folding `set` over assignments with pairwise different targets: every target column holds the
    value of its expression ON THE ORIGINAL ROW `r`, every other column is unchanged -/
theorem assign_get (r : Row) (js : List (Nat × Expr)) (acc r' : Row)
    (hnd : (js.map (·.1)).Nodup)
    (h : js.foldlM (fun acc je => (ev je.2 r).map (fun v => acc.set je.1 v)) acc = some r') :
    r'.length = acc.length ∧
    (∀ j e, (j, e) ∈ js → j < acc.length → r'[j]? = ev e r) ∧
    (∀ j, (∀ e, (j, e) ∉ js) → r'[j]? = acc[j]?) := by
  induction js generalizing acc with
  | nil =>
    simp only [List.foldlM_nil] at h
    have : acc = r' := by simpa using h
    subst this
    simp
  | cons je rest ih =>
    simp only [List.foldlM_cons, Option.bind_eq_bind] at h
    simp only [List.map_cons, List.nodup_cons] at hnd
    cases hv : ev je.2 r with
    | none => simp [hv] at h
    | some v =>
      simp only [hv, Option.map_some, Option.bind_some] at h
      obtain ⟨hl, hin, hout⟩ := ih (acc.set je.1 v) hnd.2 h
      refine ⟨by simpa using hl, ?_, ?_⟩
      · intro j e hmem hj
        simp only [List.mem_cons] at hmem
        rcases hmem with heq | hmem
        · -- the head assignment: no later assignment targets `j`
          have : je = (j, e) := heq.symm
          subst this
          have hnot : ∀ e', (j, e') ∉ rest := by
            intro e' hm
            exact hnd.1 (List.mem_map.mpr ⟨(j, e'), hm, rfl⟩)
          rw [hout j hnot]
          simp [List.getElem?_set, hj, hv]
        · exact hin j e hmem (by simpa using hj)
      · intro j hnot
        have hne : je.1 ≠ j := by
          intro heq
          exact hnot je.2 (by simp [← heq])
        rw [hout j (fun e hm => hnot e (by simp [hm]))]
        simp [List.getElem?_set, hne]

theorem ordered_mem (w : Nat) (asg : List (Nat × Expr)) (j : Nat) (e : Expr) :
    (j, e) ∈ ordered w asg ↔ j < w ∧ asg.lookup j = some e := by
  simp only [ordered, List.mem_filterMap, List.mem_range, Option.map_eq_some_iff, Prod.mk.injEq]
  constructor
  · rintro ⟨a, ha, e', he', rfl, rfl⟩
    exact ⟨ha, he'⟩
  · rintro ⟨hj, he⟩
    exact ⟨j, hj, e, he, rfl, rfl⟩

theorem ordered_keys (w : Nat) (asg : List (Nat × Expr)) :
    (ordered w asg).map (·.1) = (List.range w).filter (fun j => (asg.lookup j).isSome) := by
  simp only [ordered]
  induction List.range w with
  | nil => rfl
  | cons j js ih =>
    simp only [List.filterMap_cons, List.filter_cons]
    cases asg.lookup j <;> simp [ih]

theorem ordered_nodup (w : Nat) (asg : List (Nat × Expr)) : ((ordered w asg).map (·.1)).Nodup := by
  rw [ordered_keys]
  exact List.Nodup.sublist List.filter_sublist List.nodup_range

/-- shape of one `updRow` result: the flag is "WHERE is TRUE", exactly one row comes back -/
theorem updRow_shape (w : Nat) (asg : List (Nat × Expr)) (fs : List Expr) (r : Row) (u : Bool × List Row)
    (hx : updRow w asg fs r = some u) : u.1 = (predRow fs r == some true) ∧ u.2.length = 1 := by
  simp only [updRow, Option.bind_eq_bind] at hx
  cases hp : predRow fs r with
  | none => simp [hp] at hx
  | some p =>
    cases p with
    | false => simp [hp] at hx; subst hx; exact ⟨rfl, rfl⟩
    | true =>
      simp [hp] at hx
      obtain ⟨a, _, rfl⟩ := hx
      exact ⟨rfl, rfl⟩

theorem updRow_counts (w : Nat) (asg : List (Nat × Expr)) (fs : List Expr) (rs : List Row)
    (us : List (Bool × List Row)) (hu : rs.mapM (updRow w asg fs) = some us) :
    us.countP (·.1) = rs.countP (fun r => predRow fs r == some true) ∧
    ((us.map (·.2)).flatten).length = rs.length := by
  induction rs generalizing us with
  | nil => simp at hu; subst hu; exact ⟨rfl, rfl⟩
  | cons r rs ih =>
    simp only [List.mapM_cons] at hu
    cases hx : updRow w asg fs r with
    | none => simp [hx] at hu
    | some u =>
      cases hm : rs.mapM (updRow w asg fs) with
      | none => simp [hx, hm] at hu
      | some us' =>
        simp [hx, hm] at hu
        subst hu
        obtain ⟨s1, s2⟩ := updRow_shape w asg fs r u hx
        obtain ⟨i1, i2⟩ := ih us' hm
        constructor
        · simp [List.countP_cons, i1, s1]
        · simp only [List.map_cons, List.flatten_cons, List.length_append, s2, i2, List.length_cons]
          omega

end DfModel.Proofs.C39
