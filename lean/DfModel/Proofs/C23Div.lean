/-
  C23 helper lemmas, part 4: truncating division (`Int.tdiv`) on fixed-sign ranges and the
  endpoint candidates of `Interval::div` (repaired sign classification).
-/
import DfModel.Proofs.C23Mul
import DfModel.Proofs.C23Prop
namespace DfModel.Proofs.C23
open DfModel.Mech.Interval

/-! ### monotonicity of `Int.tdiv` on fixed-sign ranges -/

/-- non-negative numerators, positive denominators: larger numerator / smaller denominator
    gives a larger quotient -/
theorem tdiv_mono_pp {a a' b b' : Int} (ha : 0 ≤ a) (haa : a ≤ a') (hb' : 0 < b') (hbb : b' ≤ b) :
    a.tdiv b ≤ a'.tdiv b' := by
  have hb : 0 < b := by omega
  rw [Int.tdiv_eq_ediv_of_nonneg ha, Int.tdiv_eq_ediv_of_nonneg (by omega : 0 ≤ a')]
  have hq0 : 0 ≤ a / b := Int.ediv_nonneg ha (by omega)
  have h1 : a / b * b ≤ a := Int.ediv_mul_le a (by omega)
  apply Int.le_ediv_of_mul_le hb'
  have : a / b * b' ≤ a / b * b := Int.mul_le_mul_of_nonneg_left hbb hq0
  omega

theorem tdiv_nonneg_pp {a b : Int} (ha : 0 ≤ a) (hb : 0 < b) : 0 ≤ a.tdiv b :=
  Int.tdiv_nonneg ha (by omega)

theorem tdiv_neg_neg (a b : Int) : (-a).tdiv (-b) = a.tdiv b := by
  rw [Int.tdiv_neg, Int.neg_tdiv, Int.neg_neg]

/-- non-positive numerators, positive denominators -/
theorem tdiv_mono_np {a a' b b' : Int} (haa : a ≤ a') (ha' : a' ≤ 0) (hb : 0 < b) (hbb : b ≤ b') :
    a.tdiv b ≤ a'.tdiv b' := by
  have h := tdiv_mono_pp (a := -a') (a' := -a) (b := b') (b' := b) (by omega) (by omega) hb hbb
  rw [Int.neg_tdiv, Int.neg_tdiv] at h
  omega

/-- non-negative numerators, negative denominators -/
theorem tdiv_mono_pn {x x' y y' : Int} (hx' : 0 ≤ x') (hxx : x' ≤ x) (hyy : y' ≤ y) (hy : y < 0) :
    x.tdiv y ≤ x'.tdiv y' := by
  have h := tdiv_mono_pp (a := x') (a' := x) (b := -y') (b' := -y) hx' hxx (by omega) (by omega)
  rw [Int.tdiv_neg, Int.tdiv_neg] at h
  omega

/-- non-positive numerators, negative denominators -/
theorem tdiv_mono_nn {x x' y y' : Int} (hxx : x' ≤ x) (hx : x ≤ 0) (hyy : y ≤ y') (hy' : y' < 0) :
    x.tdiv y ≤ x'.tdiv y' := by
  have h := tdiv_mono_pp (a := -x) (a' := -x') (b := -y) (b' := -y') (by omega) (by omega)
    (by omega) (by omega)
  rw [tdiv_neg_neg, tdiv_neg_neg] at h
  exact h

theorem tdiv_nonneg_nn {a b : Int} (ha : a ≤ 0) (hb : b < 0) : 0 ≤ a.tdiv b := by
  have := tdiv_nonneg_pp (a := -a) (b := -b) (by omega) (by omega)
  rwa [tdiv_neg_neg] at this

theorem tdiv_nonpos_pn {a b : Int} (ha : 0 ≤ a) (hb : b < 0) : a.tdiv b ≤ 0 := by
  have := tdiv_nonneg_pp (a := a) (b := -b) ha (by omega)
  rw [Int.tdiv_neg] at this
  omega

theorem tdiv_nonpos_np {a b : Int} (ha : a ≤ 0) (hb : 0 < b) : a.tdiv b ≤ 0 := by
  have := tdiv_nonneg_pp (a := -a) (b := b) (by omega) hb
  rw [Int.neg_tdiv] at this
  omega

/-! ### `div_bounds` candidates -/

theorem divBounds_lb {t : Ty} (hw : t.WF) {l r : Option Int} {q : Int} (hq : t.inRange q)
    (h : ∀ x y, l = some x → r = some y → y ≠ 0 → x.tdiv y ≤ q)
    (hnull : r = none → t.uns = false → 0 ≤ q) : lbOK (divBounds t false l r) q := by
  cases l with
  | none => exact lbOK_none q
  | some x =>
    cases r with
    | none =>
      intro v hv
      simp only [divBounds] at hv
      split at hv
      · cases hv
      · rename_i hu
        simp only [Option.some.injEq] at hv
        have := hnull rfl (by simpa using hu)
        omega
    | some y =>
      simp only [divBounds]
      split
      · exact lbOK_none q
      · rename_i hy
        apply cand_lb hq (h x y rfl rfl hy)
        intro hp
        simp only [positiveSign, Bool.or_eq_true, Bool.and_eq_true, decide_eq_true_eq] at hp
        have := hw.mn_le
        rcases hp with ⟨h1, h2⟩ | ⟨h1, h2⟩
        · have := tdiv_nonneg_nn (a := x) (b := y) (by omega) h2; omega
        · have := tdiv_nonneg_pp (a := x) (b := y) (by omega) h2; omega

theorem divBounds_ub {t : Ty} (hw : t.WF) {l r : Option Int} {q : Int} (hq : t.inRange q)
    (h : ∀ x y, l = some x → r = some y → y ≠ 0 → q ≤ x.tdiv y)
    (hnull : r = none → t.uns = false → q ≤ 0) : ubOK (divBounds t true l r) q := by
  cases l with
  | none => exact ubOK_none q
  | some x =>
    cases r with
    | none =>
      intro v hv
      simp only [divBounds] at hv
      split at hv
      · cases hv
      · rename_i hu
        simp only [Option.some.injEq] at hv
        have := hnull rfl (by simpa using hu)
        omega
    | some y =>
      simp only [divBounds]
      split
      · exact ubOK_none q
      · rename_i hy
        apply cand_ub hq (h x y rfl rfl hy)
        intro hp
        simp only [positiveSign, Bool.or_eq_false_iff, Bool.and_eq_false_iff,
          decide_eq_false_iff_not] at hp
        have := hw.mx_ge
        obtain ⟨h1, h2⟩ := hp
        rcases Int.lt_trichotomy x 0 with hx | hx | hx
        · have hy' : 0 < y := by rcases h1 with h1 | h1 <;> omega
          have := tdiv_nonpos_np (a := x) (b := y) (by omega) hy'; omega
        · subst hx; simp; omega
        · have hy' : y < 0 := by rcases h2 with h2 | h2 <;> omega
          have := tdiv_nonpos_pn (a := x) (b := y) (by omega) hy'; omega

/-! ### the zero neighbourhood and the operand classes of `div` -/

theorem zeroPoint_signed {t : Ty} (hw : t.WF) (hs : t.uns = false) :
    zeroPoint t = ⟨some (-1), some 1⟩ := by
  have h1 := hw.sgn_mn hs
  have h2 := hw.mx_ge
  have e1 : ¬ (0 : Int) = t.mn := by omega
  have e2 : ¬ (0 : Int) = t.mx := by omega
  simp [zeroPoint, prevValue, nextValue, mk, hs, e1, e2]

/-- an interval reaching −1 and 1 strictly contains the zero neighbourhood -/
theorem contains_zp_of_span {t : Ty} (hw : t.WF) (hs : t.uns = false) {X : Iv}
    (hl : ∀ l, X.lo = some l → l ≤ -1) (hh : ∀ h, X.hi = some h → 1 ≤ h) :
    contains X (zeroPoint t) = .TRUE := by
  rw [zeroPoint_signed hw hs]
  obtain ⟨xl, xh⟩ := X
  cases xl with
  | none =>
    cases xh with
    | none => decide
    | some h =>
      have := hh h rfl
      by_cases e : h = 1
      · subst e; decide
      · have h1 : ¬ h ≤ 1 := by omega
        have h2 : ¬ h < -1 := by omega
        simp [contains, intersect, maxOfBounds, minOfBounds, ole, olt, h1, h2]
  | some l =>
    have hl' := hl l rfl
    cases xh with
    | none =>
      by_cases e : l = -1
      · subst e; decide
      · have h1 : ¬ -1 ≤ l := by omega
        have h2 : ¬ 1 < l := by omega
        simp [contains, intersect, maxOfBounds, minOfBounds, ole, olt, h1, h2]
    | some h =>
      have hh' := hh h rfl
      have h2 : ¬ 1 < l := by omega
      have h4 : ¬ h < -1 := by omega
      by_cases e : l = -1 <;> by_cases e' : h = 1
      · subst e; subst e'; decide
      · subst e
        have h3 : ¬ h ≤ 1 := by omega
        simp [contains, intersect, maxOfBounds, minOfBounds, ole, olt, h3, h4]
      · subst e'
        have h1 : ¬ -1 ≤ l := by omega
        simp [contains, intersect, maxOfBounds, minOfBounds, ole, olt, h1, h2]
      · have h1 : ¬ -1 ≤ l := by omega
        have h3 : ¬ h ≤ 1 := by omega
        simp [contains, intersect, maxOfBounds, minOfBounds, ole, olt, h1, h2, h3, h4]

/-- non-negative operand of `div`: additionally, for signed types the lower endpoint exists -/
def NNd (t : Ty) (X : Iv) (v : Int) : Prop :=
  0 ≤ v ∧ (∀ l, X.lo = some l → 0 ≤ l) ∧ (t.uns = false → ∃ l, X.lo = some l)

theorem div_class_of {t : Ty} (hw : t.WF) {X : Iv} {v : Int} (hX : inTy t X) (hv : mem v X)
    (hrv : t.inRange v) (h : t.uns = true ∨ contains X (zeroPoint t) ≠ .TRUE) :
    (leNonNull X.hi (some 0) = true → NP X v) ∧
    (leNonNull X.hi (some 0) = false → NNd t X v) := by
  constructor
  · intro hle
    cases hh : X.hi with
    | none => simp [leNonNull, hh] at hle
    | some u =>
      simp only [hh, leNonNull, ole, Option.isNone_some, Bool.not_false, Bool.and_true,
        decide_eq_true_eq] at hle
      have := hv.2 u hh
      refine ⟨by omega, ?_⟩
      intro h' e
      rw [hh] at e
      simp only [Option.some.injEq] at e
      omega
  · intro hle
    cases hu : t.uns with
    | true =>
      have hmn := hw.uns_mn hu
      unfold Ty.inRange at hrv
      refine ⟨by omega, ?_, by intro e; simp [hu] at e⟩
      intro l hl
      have := hX.1 l hl
      unfold Ty.inRange at this
      omega
    | false =>
      have hc : contains X (zeroPoint t) ≠ .TRUE := by
        rcases h with h | h
        · rw [hu] at h; cases h
        · exact h
      -- the upper endpoint is NULL or ≥ 1
      have hhi : ∀ u, X.hi = some u → 1 ≤ u := by
        intro u e
        simp only [e, leNonNull, ole, Option.isNone_some, Bool.not_false, Bool.and_true,
          decide_eq_false_iff_not] at hle
        omega
      cases hl : X.lo with
      | none =>
        exfalso
        apply hc
        exact contains_zp_of_span hw hu (by intro l e; rw [hl] at e; cases e) hhi
      | some l =>
        have hl0 : 0 ≤ l := by
          by_contra hneg
          apply hc
          exact contains_zp_of_span hw hu
            (by intro l' e; rw [hl] at e; simp only [Option.some.injEq] at e; omega) hhi
        have := hv.1 l hl
        refine ⟨by omega, ?_, fun _ => ⟨l, hl⟩⟩
        intro l' e
        rw [hl] at e
        simp only [Option.some.injEq] at e
        omega

/-! ### the two helpers, repaired sign classification (`z = some 0`) -/

theorem divZeroExclusive_sound {t : Ty} (hw : t.WF) {I J : Iv} {a b : Int}
    (hI : inTy t I) (hJ : inTy t J) (ha : mem a I) (hb : mem b J)
    (hra : t.inRange a) (hrb : t.inRange b) (hb0 : b ≠ 0) (hq : t.inRange (a.tdiv b))
    (hcI : t.uns = true ∨ contains I (zeroPoint t) ≠ .TRUE)
    (hcJ : t.uns = true ∨ contains J (zeroPoint t) ≠ .TRUE) :
    mem (a.tdiv b) (divZeroExclusive t I J (some 0)) := by
  have cI := div_class_of hw hI ha hra hcI
  have cJ := div_class_of hw hJ hb hrb hcJ
  unfold divZeroExclusive
  cases h1 : leNonNull I.hi (some 0) <;> cases h2 : leNonNull J.hi (some 0) <;> simp only
  · -- I ≥ 0, J ≥ 0 : [lo / hi', hi / lo']
    obtain ⟨a0, al, _⟩ := cI.2 h1
    obtain ⟨b0, bl, bex⟩ := cJ.2 h2
    have hbpos : 0 < b := by omega
    apply mem_mk hw hq
    · apply divBounds_lb hw hq
      · intro x y hx hy hy0
        have := ha.1 x hx; have := hb.2 y hy; have := al x hx
        exact tdiv_mono_pp (by omega) (by omega) hbpos (by omega)
      · intro _ _; exact tdiv_nonneg_pp a0 hbpos
    · apply divBounds_ub hw hq
      · intro x y hx hy hy0
        have := ha.2 x hx; have := hb.1 y hy; have := bl y hy
        exact tdiv_mono_pp a0 (by omega) (by omega) (by omega)
      · intro hn hs
        obtain ⟨l, hl⟩ := bex hs
        rw [hl] at hn; cases hn
  · -- I ≥ 0, J ≤ 0 : [hi / hi', lo / lo']
    obtain ⟨a0, al, _⟩ := cI.2 h1
    obtain ⟨b0, bh⟩ := cJ.1 h2
    have hbneg : b < 0 := by omega
    apply mem_mk hw hq
    · apply divBounds_lb hw hq
      · intro x y hx hy hy0
        have := ha.2 x hx; have := hb.2 y hy; have := bh y hy
        exact tdiv_mono_pn a0 (by omega) (by omega) (by omega)
      · intro hn _
        cases hh : J.hi with
        | none => simp [leNonNull, hh] at h2
        | some u => rw [hh] at hn; cases hn
    · apply divBounds_ub hw hq
      · intro x y hx hy hy0
        have := ha.1 x hx; have := hb.1 y hy; have := al x hx
        exact tdiv_mono_pn (by omega) (by omega) (by omega) hbneg
      · intro _ _; exact tdiv_nonpos_pn a0 hbneg
  · -- I ≤ 0, J ≥ 0 : [lo / lo', hi / hi']
    obtain ⟨a0, ah⟩ := cI.1 h1
    obtain ⟨b0, bl, bex⟩ := cJ.2 h2
    have hbpos : 0 < b := by omega
    apply mem_mk hw hq
    · apply divBounds_lb hw hq
      · intro x y hx hy hy0
        have := ha.1 x hx; have := hb.1 y hy; have := bl y hy
        exact tdiv_mono_np (by omega) a0 (by omega) (by omega)
      · intro hn hs
        obtain ⟨l, hl⟩ := bex hs
        rw [hl] at hn; cases hn
    · apply divBounds_ub hw hq
      · intro x y hx hy hy0
        have := ha.2 x hx; have := hb.2 y hy; have := ah x hx
        exact tdiv_mono_np (by omega) (by omega) hbpos (by omega)
      · intro _ _; exact tdiv_nonpos_np a0 hbpos
  · -- I ≤ 0, J ≤ 0 : [hi / lo', lo / hi']
    obtain ⟨a0, ah⟩ := cI.1 h1
    obtain ⟨b0, bh⟩ := cJ.1 h2
    have hbneg : b < 0 := by omega
    apply mem_mk hw hq
    · apply divBounds_lb hw hq
      · intro x y hx hy hy0
        have := ha.2 x hx; have := hb.1 y hy; have := ah x hx
        exact tdiv_mono_nn (by omega) (by omega) (by omega) hbneg
      · intro _ _; exact tdiv_nonneg_nn a0 hbneg
    · apply divBounds_ub hw hq
      · intro x y hx hy hy0
        have := ha.1 x hx; have := hb.2 y hy; have := bh y hy
        exact tdiv_mono_nn (by omega) a0 (by omega) (by omega)
      · intro hn _
        cases hh : J.hi with
        | none => simp [leNonNull, hh] at h2
        | some u => rw [hh] at hn; cases hn

theorem divLhsZeroInclusive_sound {t : Ty} (hw : t.WF) (hs : t.uns = false) {I J : Iv} {a b : Int}
    (hJ : inTy t J) (ha : mem a I) (hb : mem b J)
    (hrb : t.inRange b) (hb0 : b ≠ 0) (hq : t.inRange (a.tdiv b))
    (hcI : contains I (zeroPoint t) = .TRUE)
    (hcJ : contains J (zeroPoint t) ≠ .TRUE) :
    mem (a.tdiv b) (divLhsZeroInclusive t I J (some 0)) := by
  have cJ := div_class_of hw hJ hb hrb (Or.inr hcJ)
  -- I reaches −1 and 1
  have hzp := zeroPoint_signed hw hs
  have hm1 : mem (-1) I := contains_true_sound hcI (by rw [hzp]; constructor <;> intro v h <;> simp at h <;> omega)
  have hp1 : mem 1 I := contains_true_sound hcI (by rw [hzp]; constructor <;> intro v h <;> simp at h <;> omega)
  unfold divLhsZeroInclusive
  cases h2 : leNonNull J.hi (some 0) <;> simp only [Bool.false_eq_true, if_false, if_true]
  · -- J ≥ 0 : [lo / lo', hi / lo']
    obtain ⟨b0, bl, bex⟩ := cJ.2 h2
    have hbpos : 0 < b := by omega
    apply mem_mk hw hq
    · apply divBounds_lb hw hq
      · intro x y hx hy hy0
        have := ha.1 x hx; have := hb.1 y hy; have := bl y hy; have := hm1.1 x hx
        rcases Int.le_total a 0 with sa | sa
        · exact tdiv_mono_np (by omega) sa (by omega) (by omega)
        · have h1 := tdiv_nonpos_np (a := x) (b := y) (by omega) (by omega)
          have h2' := tdiv_nonneg_pp sa hbpos
          omega
      · intro hn hs'
        obtain ⟨l, hl⟩ := bex hs'
        rw [hl] at hn; cases hn
    · apply divBounds_ub hw hq
      · intro x y hx hy hy0
        have := ha.2 x hx; have := hb.1 y hy; have := bl y hy; have := hp1.2 x hx
        rcases Int.le_total a 0 with sa | sa
        · have h1 := tdiv_nonpos_np sa hbpos
          have h2' := tdiv_nonneg_pp (a := x) (b := y) (by omega) (by omega)
          omega
        · exact tdiv_mono_pp sa (by omega) (by omega) (by omega)
      · intro hn hs'
        obtain ⟨l, hl⟩ := bex hs'
        rw [hl] at hn; cases hn
  · -- J ≤ 0 : [hi / hi', lo / hi']
    obtain ⟨b0, bh⟩ := cJ.1 h2
    have hbneg : b < 0 := by omega
    have hsome : ∀ (hn : J.hi = none), False := by
      intro hn; simp [leNonNull, hn] at h2
    apply mem_mk hw hq
    · apply divBounds_lb hw hq
      · intro x y hx hy hy0
        have := ha.2 x hx; have := hb.2 y hy; have := bh y hy; have := hp1.2 x hx
        rcases Int.le_total a 0 with sa | sa
        · have h1 := tdiv_nonneg_nn sa hbneg
          have h2' := tdiv_nonpos_pn (a := x) (b := y) (by omega) (by omega)
          omega
        · exact tdiv_mono_pn sa (by omega) (by omega) (by omega)
      · intro hn _; exact (hsome hn).elim
    · apply divBounds_ub hw hq
      · intro x y hx hy hy0
        have := ha.1 x hx; have := hb.2 y hy; have := bh y hy; have := hm1.1 x hx
        rcases Int.le_total a 0 with sa | sa
        · exact tdiv_mono_nn (by omega) sa (by omega) (by omega)
        · have h1 := tdiv_nonpos_pn sa hbneg
          have h2' := tdiv_nonneg_nn (a := x) (b := y) (by omega) (by omega)
          omega
      · intro hn _; exact (hsome hn).elim

end DfModel.Proofs.C23
