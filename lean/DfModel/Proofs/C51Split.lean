/-
  C51 helper lemmas (a): the quote-toggle automaton equals the specification lexer; content
  preservation.  Core Lean only.
-/
import DfModel.Text.Split
namespace DfModel.Proofs.C51Split
open DfModel.Text.Split

set_option linter.unusedSimpArgs false

theorem go_cons (inS inD : Bool) (cur : List Char) (c : Char) (rest : List Char) :
    go inS inD cur (c :: rest) =
      if c == ';' && !(nextS inS inD c) && !(nextD inS inD c) then
        if !(trim cur).isEmpty then stmt cur :: go (nextS inS inD c) (nextD inS inD c) [] rest
        else go (nextS inS inD c) (nextD inS inD c) cur rest
      else go (nextS inS inD c) (nextD inS inD c) (cur ++ [c]) rest := rfl

theorem go_nil (inS inD : Bool) (cur : List Char) :
    go inS inD cur [] = if !(trim cur).isEmpty then [stmt cur] else [] := rfl

theorem spec_nil (m : Mode) (cur : List Char) :
    spec m cur [] = if !(trim cur).isEmpty then [stmt cur] else [] := by
  rw [spec]

theorem go_eq_spec (n : Nat) : ∀ (s : List Char), s.length ≤ n → ∀ cur : List Char,
    go false false cur s = spec .normal cur s ∧ go true false cur s = spec .single cur s
      ∧ go false true cur s = spec .double cur s := by
  induction n with
  | zero =>
    intro s hs cur
    have : s = [] := List.eq_nil_of_length_eq_zero (by omega)
    subst this
    simp [go_nil, spec_nil]
  | succ n ih =>
    intro s hs cur
    cases s with
    | nil => simp [go_nil, spec_nil]
    | cons c rest =>
      have hr : rest.length ≤ n := by simp only [List.length_cons] at hs; omega
      have ihN := fun cur => (ih rest hr cur).1
      have ihS := fun cur => (ih rest hr cur).2.1
      have ihD := fun cur => (ih rest hr cur).2.2
      refine ⟨?_, ?_, ?_⟩
      · -- normal mode
        rw [go_cons, spec]
        by_cases h1 : c = '\''
        · subst h1; simp [nextS, nextD, ihS]
        · by_cases h2 : c = '"'
          · subst h2; simp [nextS, nextD, ihD]
          · by_cases h3 : c = ';'
            · subst h3; simp [nextS, nextD, ihN]
            · simp [nextS, nextD, h1, h2, h3, ihN]
      · -- inside '…'
        rw [go_cons]
        by_cases h1 : c = '\''
        · subst h1
          cases rest with
          | nil => rw [spec]; simp [nextS, nextD, go_nil, spec_nil]
          | cons d rest' =>
            have hr' : rest'.length ≤ n := by simp only [List.length_cons] at hr; omega
            rw [spec.eq_def]
            by_cases hd : d = '\''
            · subst hd
              simp [nextS, nextD, go_cons, (ih rest' hr' _).2.1]
            · simp [nextS, nextD, hd, ihN]
        · rw [spec.eq_def]; simp [nextS, nextD, h1, ihS]
      · -- inside "…"
        rw [go_cons]
        by_cases h1 : c = '"'
        · subst h1
          cases rest with
          | nil => rw [spec]; simp [nextS, nextD, go_nil, spec_nil]
          | cons d rest' =>
            have hr' : rest'.length ≤ n := by simp only [List.length_cons] at hr; omega
            rw [spec.eq_def]
            by_cases hd : d = '"'
            · subst hd
              simp [nextS, nextD, go_cons, (ih rest' hr' _).2.2]
            · simp [nextS, nextD, hd, ihN]
        · rw [spec.eq_def]; simp [nextS, nextD, h1, ihD]

/-! ### content preservation -/

theorem sig_of_white {c : Char} (h : isWhite c = true) : significant c = false := by
  simp [significant, h]

theorem filter_dropWhile_white (l : List Char) :
    (l.dropWhile isWhite).filter significant = l.filter significant := by
  induction l with
  | nil => rfl
  | cons c l ih =>
    by_cases h : isWhite c = true
    · simp [List.dropWhile, h, sig_of_white h, ih]
    · simp only [Bool.not_eq_true] at h
      simp [List.dropWhile, h]

theorem filter_trim (l : List Char) : (trim l).filter significant = l.filter significant := by
  unfold trim trimEnd trimStart
  rw [List.filter_reverse, filter_dropWhile_white, List.filter_reverse, List.reverse_reverse,
    filter_dropWhile_white]

theorem filter_stmt (cur : List Char) : (stmt cur).filter significant = cur.filter significant := by
  have : significant ';' = false := by decide
  simp [stmt, List.filter_append, filter_trim, this]

theorem filter_blank (cur : List Char) (h : (trim cur).isEmpty = true) :
    cur.filter significant = [] := by
  rw [← filter_trim]
  have : trim cur = [] := by simpa using h
  rw [this]; rfl

theorem go_content (s : List Char) : ∀ (inS inD : Bool) (cur : List Char),
    (go inS inD cur s).flatten.filter significant = (cur ++ s).filter significant := by
  induction s with
  | nil =>
    intro inS inD cur
    rw [go_nil, List.append_nil]
    by_cases h : (trim cur).isEmpty = true
    · simp [h, filter_blank cur h]
    · simp only [Bool.not_eq_true] at h
      simp [h, filter_stmt]
  | cons c rest ih =>
    intro inS inD cur
    rw [go_cons]
    by_cases hsemi : (c == ';' && !(nextS inS inD c) && !(nextD inS inD c)) = true
    · have hc : c = ';' := by
        simp only [Bool.and_eq_true, beq_iff_eq] at hsemi
        exact hsemi.1.1
      have hsig : significant c = false := by subst hc; decide
      rw [if_pos hsemi]
      by_cases h : (trim cur).isEmpty = true
      · simp [h, ih, List.filter_append, hsig, filter_blank cur h]
      · simp only [Bool.not_eq_true] at h
        simp [h, ih, List.filter_append, hsig, filter_stmt]
    · rw [if_neg hsemi]
      simp [ih, List.filter_append]

theorem go_pieces (s : List Char) : ∀ (inS inD : Bool) (cur : List Char),
    ∀ p ∈ go inS inD cur s, ∃ x, p = stmt x ∧ (trim x).isEmpty = false := by
  induction s with
  | nil =>
    intro inS inD cur p hp
    rw [go_nil] at hp
    by_cases h : (trim cur).isEmpty = true
    · simp [h] at hp
    · simp only [Bool.not_eq_true] at h
      simp [h] at hp
      exact ⟨cur, hp, h⟩
  | cons c rest ih =>
    intro inS inD cur p hp
    rw [go_cons] at hp
    split at hp
    · by_cases h : (trim cur).isEmpty = true
      · simp [h] at hp; exact ih _ _ _ p hp
      · simp only [Bool.not_eq_true] at h
        simp [h] at hp
        rcases hp with rfl | hp
        · exact ⟨cur, rfl, h⟩
        · exact ih _ _ _ p hp
    · exact ih _ _ _ p hp

end DfModel.Proofs.C51Split
