/-
  C18 — second pass: data exactness and absence of internal errors (panics) for the external sort
  model.  Inversion style: `proc s = .ok a s'` / `= .fail e s'` is decomposed by simp lemmas.
  Core Lean only.
-/
import DfModel.Proofs.C18
set_option linter.unusedSimpArgs false
set_option linter.unusedVariables false
namespace DfModel.Proofs.C18
open DfModel.Mech.ReserveOrSpill

/-! ### inversion lemmas for the monad and the primitives -/

theorem bind_ok_iff {m : M α} {f : α → M β} {s t : St} {b : β} :
    (m >>= f) s = .ok b t ↔ ∃ a s', m s = .ok a s' ∧ f a s' = .ok b t := by
  show M.bind m f s = .ok b t ↔ _
  simp only [M.bind]
  cases h : m s with
  | ok a s' =>
    simp only [Res.ok.injEq]
    exact ⟨fun h => ⟨a, s', ⟨rfl, rfl⟩, h⟩, fun ⟨_, _, ⟨h1, h2⟩, h⟩ => by subst h1 h2; exact h⟩
  | fail e s' => simp

theorem bind_fail_iff {m : M α} {f : α → M β} {s t : St} {e : Err} :
    (m >>= f) s = .fail e t ↔ m s = .fail e t ∨ ∃ a s', m s = .ok a s' ∧ f a s' = .fail e t := by
  show M.bind m f s = .fail e t ↔ _
  simp only [M.bind]
  cases h : m s with
  | ok a s' =>
    simp only [Res.ok.injEq, reduceCtorEq, false_or]
    exact ⟨fun h => ⟨a, s', ⟨rfl, rfl⟩, h⟩, fun ⟨_, _, ⟨h1, h2⟩, h⟩ => by subst h1 h2; exact h⟩
  | fail e' s' => simp

theorem mbind_ok_iff {m : M α} {f : α → M β} {s t : St} {b : β} :
    M.bind m f s = .ok b t ↔ ∃ a s', m s = .ok a s' ∧ f a s' = .ok b t := bind_ok_iff

theorem mbind_fail_iff {m : M α} {f : α → M β} {s t : St} {e : Err} :
    M.bind m f s = .fail e t ↔ m s = .fail e t ∨ ∃ a s', m s = .ok a s' ∧ f a s' = .fail e t := bind_fail_iff

@[simp] theorem pure_ok_iff {a b : α} {s t : St} : (pure a : M α) s = .ok b t ↔ a = b ∧ s = t := by
  show Res.ok a s = .ok b t ↔ _; simp
@[simp] theorem pure_fail_iff {a : α} {s t : St} {e : Err} : (pure a : M α) s = .fail e t ↔ False := by
  show Res.ok a s = .fail e t ↔ _; simp
@[simp] theorem mpure_ok_iff {a b : α} {s t : St} : (M.pure a : M α) s = .ok b t ↔ a = b ∧ s = t := by
  show Res.ok a s = .ok b t ↔ _; simp
@[simp] theorem mpure_fail_iff {a : α} {s t : St} {e : Err} : (M.pure a : M α) s = .fail e t ↔ False := by
  show Res.ok a s = .fail e t ↔ _; simp
@[simp] theorem failWith_ok_iff {e : Err} {b : α} {s t : St} : (failWith e : M α) s = .ok b t ↔ False := by
  simp [failWith]
@[simp] theorem failWith_fail_iff {e e' : Err} {s t : St} : (failWith e : M α) s = .fail e' t ↔ e = e' ∧ s = t := by
  simp [failWith]
@[simp] theorem getSt_ok_iff {a s t : St} : getSt s = .ok a t ↔ s = a ∧ s = t := by simp [getSt]
@[simp] theorem getSt_fail_iff {s t : St} {e : Err} : getSt s = .fail e t ↔ False := by simp [getSt]

/-- the part of the state the data argument talks about -/
def core (s : St) : Nat × List Batch × Option Run × List Run := (s.main, s.inMem, s.inProg, s.spills)

theorem core_eq {s t : St} : core t = core s ↔
    t.main = s.main ∧ t.inMem = s.inMem ∧ t.inProg = s.inProg ∧ t.spills = s.spills := by
  simp [core]

/-- acceptable failures: resource exhaustion, or a cancellation that the environment asked for -/
def EOk (env : Env) (e : Err) : Prop := e = .resources ∨ (e = .cancelled ∧ ∃ n, env.cancel n = true)

@[simp] theorem poolShrink_main (n : Nat) (s : St) : (poolShrink n s).main = s.main := by
  unfold poolShrink; split <;> rfl
@[simp] theorem poolShrink_stream (n : Nat) (s : St) : (poolShrink n s).stream = s.stream := by
  unfold poolShrink; split <;> rfl
@[simp] theorem poolShrink_merge (n : Nat) (s : St) : (poolShrink n s).merge = s.merge := by
  unfold poolShrink; split <;> rfl
@[simp] theorem poolShrink_mlocal (n : Nat) (s : St) : (poolShrink n s).mlocal = s.mlocal := by
  unfold poolShrink; split <;> rfl
@[simp] theorem poolShrink_pass (n : Nat) (s : St) : (poolShrink n s).pass = s.pass := by
  unfold poolShrink; split <;> rfl
@[simp] theorem poolShrink_inMem (n : Nat) (s : St) : (poolShrink n s).inMem = s.inMem := by
  unfold poolShrink; split <;> rfl
@[simp] theorem poolShrink_inProg (n : Nat) (s : St) : (poolShrink n s).inProg = s.inProg := by
  unfold poolShrink; split <;> rfl
@[simp] theorem poolShrink_spills (n : Nat) (s : St) : (poolShrink n s).spills = s.spills := by
  unfold poolShrink; split <;> rfl
@[simp] theorem diskDelete_main (n : Nat) (s : St) : (diskDelete n s).main = s.main := by
  unfold diskDelete; split <;> rfl
@[simp] theorem diskDelete_pass (n : Nat) (s : St) : (diskDelete n s).pass = s.pass := by
  unfold diskDelete; split <;> rfl
@[simp] theorem diskDelete_inMem (n : Nat) (s : St) : (diskDelete n s).inMem = s.inMem := by
  unfold diskDelete; split <;> rfl
@[simp] theorem diskDelete_inProg (n : Nat) (s : St) : (diskDelete n s).inProg = s.inProg := by
  unfold diskDelete; split <;> rfl
@[simp] theorem diskDelete_spills (n : Nat) (s : St) : (diskDelete n s).spills = s.spills := by
  unfold diskDelete; split <;> rfl

theorem await_ok {env : Env} {s t : St} {a : Unit} (h : await env s = .ok a t) : core t = core s := by
  unfold await at h; split at h <;> simp at h; subst h; rfl

theorem await_fail {env : Env} {s t : St} {e : Err} (h : await env s = .fail e t) : EOk env e := by
  unfold await at h; split at h <;> simp at h
  rename_i hc
  exact Or.inr ⟨h.1.symm, _, hc⟩

theorem tryGrowSoft_fail {env : Env} {k : Slot} {n : Nat} {s t : St} {e : Err} :
    tryGrowSoft env k n s = .fail e t ↔ False := by
  unfold tryGrowSoft; split <;> simp

/-- what a granted / denied `try_grow` does to slot `k` and to the rest -/
theorem tryGrowSoft_ok {env : Env} {k : Slot} {n : Nat} {s t : St} {b : Bool}
    (h : tryGrowSoft env k n s = .ok b t) :
    t.get k = (if b then s.get k + n else s.get k) ∧ (∀ j, j ≠ k → t.get j = s.get j) ∧
    t.inMem = s.inMem ∧ t.inProg = s.inProg ∧ t.spills = s.spills := by
  unfold tryGrowSoft at h
  split at h <;> simp at h <;> obtain ⟨rfl, rfl⟩ := h
  · refine ⟨?_, ?_, ?_, ?_, ?_⟩ <;> cases k <;> simp [St.set, St.get]
    all_goals (intro j hj; cases j <;> simp_all [St.get])
  · refine ⟨rfl, fun _ _ => rfl, rfl, rfl, rfl⟩

theorem tryGrow_ok {env : Env} {k : Slot} {n : Nat} {s t : St} {a : Unit}
    (h : tryGrow env k n s = .ok a t) :
    t.get k = s.get k + n ∧ (∀ j, j ≠ k → t.get j = s.get j) ∧
    t.inMem = s.inMem ∧ t.inProg = s.inProg ∧ t.spills = s.spills := by
  unfold tryGrow at h
  cases h' : tryGrowSoft env k n s with
  | ok b s' =>
    cases b <;> simp [h'] at h
    subst h
    simpa using tryGrowSoft_ok h'
  | fail e s' => simp [h'] at h

theorem tryGrow_fail {env : Env} {k : Slot} {n : Nat} {s t : St} {e : Err}
    (h : tryGrow env k n s = .fail e t) : e = .resources := by
  unfold tryGrow at h
  cases h' : tryGrowSoft env k n s with
  | ok b s' => cases b <;> simp [h'] at h; exact h.1.symm
  | fail e s' => exact absurd h' (by simp [tryGrowSoft_fail])

theorem free_ok {k : Slot} {s t : St} {a : Unit} (h : free k s = .ok a t) :
    t.get k = 0 ∧ (∀ j, j ≠ k → t.get j = s.get j) ∧
    t.inMem = s.inMem ∧ t.inProg = s.inProg ∧ t.spills = s.spills := by
  simp only [free, Res.ok.injEq, true_and] at h
  subst h
  refine ⟨?_, ?_, ?_, ?_, ?_⟩ <;> cases k <;> simp [St.set, St.get]
  all_goals (intro j hj; cases j <;> simp_all [St.get])

theorem free_fail {k : Slot} {s t : St} {e : Err} : free k s = .fail e t ↔ False := by simp [free]

theorem tryShrink_ok {k : Slot} {n : Nat} {s t : St} {a : Unit} (h : tryShrink k n s = .ok a t) :
    t.get k = s.get k - n ∧ (∀ j, j ≠ k → t.get j = s.get j) ∧
    t.inMem = s.inMem ∧ t.inProg = s.inProg ∧ t.spills = s.spills := by
  unfold tryShrink at h
  split at h <;> simp at h
  subst h
  refine ⟨?_, ?_, ?_, ?_, ?_⟩ <;> cases k <;> simp [St.set, St.get]
  all_goals (intro j hj; cases j <;> simp_all [St.get])

theorem tryShrink_fail {k : Slot} {n : Nat} {s t : St} {e : Err} (h : tryShrink k n s = .fail e t) :
    ¬ n ≤ s.get k := by
  unfold tryShrink at h
  split at h <;> simp_all

theorem tryResize_ok {env : Env} {k : Slot} {cap : Nat} {s t : St} {a : Unit}
    (h : tryResize env k cap s = .ok a t) :
    t.get k = cap ∧ (∀ j, j ≠ k → t.get j = s.get j) ∧
    t.inMem = s.inMem ∧ t.inProg = s.inProg ∧ t.spills = s.spills := by
  unfold tryResize at h
  split at h
  · have := tryGrow_ok h; refine ⟨by omega, this.2⟩
  · split at h
    · have := tryShrink_ok h; refine ⟨by omega, this.2⟩
    · simp at h; subst h; exact ⟨by omega, fun _ _ => rfl, rfl, rfl, rfl⟩

theorem tryResize_fail {env : Env} {k : Slot} {cap : Nat} {s t : St} {e : Err}
    (h : tryResize env k cap s = .fail e t) : e = .resources := by
  unfold tryResize at h
  split at h
  · exact tryGrow_fail h
  · split at h
    · exact absurd (tryShrink_fail h) (by omega)
    · simp at h

theorem move_ok {a b : Slot} (hab : a ≠ b) {n : Nat} {s t : St} {u : Unit} (h : move a b n s = .ok u t) :
    n ≤ s.get a ∧ t.get a = s.get a - n ∧ t.get b = s.get b + n ∧ (∀ j, j ≠ a → j ≠ b → t.get j = s.get j) ∧
    t.inMem = s.inMem ∧ t.inProg = s.inProg ∧ t.spills = s.spills := by
  unfold move at h
  split at h <;> simp at h
  subst h
  rename_i hle
  refine ⟨hle, ?_, ?_, ?_, ?_, ?_, ?_⟩ <;> cases a <;> cases b <;> simp_all [St.set, St.get]
  all_goals (intro j h1 h2; cases j <;> simp_all [St.get])

theorem move_fail {a b : Slot} {n : Nat} {s t : St} {e : Err} (h : move a b n s = .fail e t) :
    ¬ n ≤ s.get a := by
  unfold move at h
  split at h <;> simp_all

theorem getSt_bind {f : St → M β} {s : St} : (getSt >>= f) s = f s s := rfl
theorem setInMem_bind {f : Unit → M β} {l : List Batch} {s : St} :
    (setInMem l >>= f) s = f () { s with inMem := l } := rfl

macro "inv" "at" h:ident : tactic =>
  `(tactic| simp only [getSt_bind, setInMem_bind, bind_ok_iff, bind_fail_iff, mbind_ok_iff, mbind_fail_iff, pure_ok_iff, pure_fail_iff,
      mpure_ok_iff, mpure_fail_iff, failWith_ok_iff, failWith_fail_iff, getSt_ok_iff, getSt_fail_iff,
      free_fail, tryGrowSoft_fail, and_false, false_and, exists_false, or_false, false_or, exists_eq_left,
      exists_and_left, exists_eq_left'] at $h:ident)

theorem sortBatchStream_ok {cfg : Cfg} {env : Env} {b : Batch} {s t : St} {out : List Batch}
    (h : sortBatchStream cfg env b s = .ok out t) :
    out = chunks cfg.batchSize (sortRows b) ∧ core t = core s := by
  unfold sortBatchStream at h
  inv at h
  obtain ⟨_, s1, h1, rfl, rfl⟩ := h
  refine ⟨rfl, ?_⟩
  split at h1
  · have := tryGrow_ok h1; simp only [core_eq, this, true_and, and_true]
    exact this.2.1 .main (by decide)
  · have := tryShrink_ok h1; simp only [core_eq, this, true_and, and_true]
    exact this.2.1 .main (by decide)

theorem sortBatchStream_fail {cfg : Cfg} {env : Env} {b : Batch} {s t : St} {e : Err}
    (h : sortBatchStream cfg env b s = .fail e t) (hs : cfg.sz b ≤ s.stream) : e = .resources := by
  unfold sortBatchStream at h
  inv at h
  split at h
  · exact tryGrow_fail h
  · exact absurd (tryShrink_fail h) (by simp only [St.get]; omega)

theorem forEach_tryGrow_ok {env : Env} {k : Slot} (hk : k ≠ .main) {f : Batch → Nat} {l : List Batch} {s t : St} {u : Unit}
    (h : forEach l (fun c => tryGrow env k (f c)) s = .ok u t) : core t = core s := by
  induction l generalizing s with
  | nil => simp only [forEach] at h; inv at h; rw [h.2]
  | cons c cs ih =>
    simp only [forEach] at h; inv at h
    obtain ⟨_, s1, h1, h2⟩ := h
    rw [ih h2]
    have := tryGrow_ok h1
    simp only [core_eq, this, true_and, and_true]
    exact this.2.1 .main (Ne.symm hk)

theorem forEach_tryGrow_fail {env : Env} {k : Slot} {f : Batch → Nat} {l : List Batch} {s t : St} {e : Err}
    (h : forEach l (fun c => tryGrow env k (f c)) s = .fail e t) : e = .resources := by
  induction l generalizing s with
  | nil => simp only [forEach] at h; inv at h
  | cons c cs ih =>
    simp only [forEach] at h; inv at h
    rcases h with h | ⟨_, s1, _, h2⟩
    · exact tryGrow_fail h
    · exact ih h2

theorem startRun_ok {cfg : Cfg} {env : Env} {r : Batch} {s t : St} {u : Unit}
    (h : startRun cfg env r s = .ok u t) :
    cfg.sz r ≤ s.main ∧ t.main = s.main - cfg.sz r ∧ t.inMem = s.inMem ∧ t.inProg = s.inProg ∧ t.spills = s.spills := by
  unfold startRun at h
  inv at h
  obtain ⟨_, s1, h1, out, s2, h2, h3⟩ := h
  have m := move_ok (a := .main) (b := .stream) (by decide) h1
  have sb := core_eq.mp (sortBatchStream_ok h2).2
  have fe := core_eq.mp (forEach_tryGrow_ok (by decide) h3)
  simp only [St.get] at m
  refine ⟨m.1, ?_, ?_, ?_, ?_⟩
  · rw [fe.1, sb.1, m.2.1]
  · rw [fe.2.1, sb.2.1, m.2.2.2.2.1]
  · rw [fe.2.2.1, sb.2.2.1, m.2.2.2.2.2.1]
  · rw [fe.2.2.2, sb.2.2.2, m.2.2.2.2.2.2]

theorem startRun_fail {cfg : Cfg} {env : Env} {r : Batch} {s t : St} {e : Err}
    (h : startRun cfg env r s = .fail e t) (hs : cfg.sz r ≤ s.main) : e = .resources := by
  unfold startRun at h
  inv at h
  rcases h with h | ⟨_, s1, h1, h⟩
  · exact absurd (move_fail h) (by simp only [St.get]; omega)
  · have m := move_ok (a := .main) (b := .stream) (by decide) h1
    rcases h with h | ⟨out, s2, _, h3⟩
    · exact sortBatchStream_fail h (by simp only [St.get] at m; omega)
    · exact forEach_tryGrow_fail h3

def szSum (cfg : Cfg) (l : List Batch) : Nat := (l.map cfg.sz).sum

theorem forEach_startRun_ok {cfg : Cfg} {env : Env} {runs : List Batch} {s t : St} {u : Unit}
    (h : forEach runs (startRun cfg env) s = .ok u t) :
    szSum cfg runs ≤ s.main ∧ t.main = s.main - szSum cfg runs ∧ t.inMem = s.inMem ∧ t.inProg = s.inProg ∧ t.spills = s.spills := by
  induction runs generalizing s with
  | nil => simp only [forEach] at h; inv at h; obtain ⟨_, rfl⟩ := h; simp [szSum]
  | cons r rs ih =>
    simp only [forEach] at h; inv at h
    obtain ⟨_, s1, h1, h2⟩ := h
    have a := startRun_ok h1
    have b := ih h2
    simp only [szSum, List.map_cons, List.sum_cons] at *
    refine ⟨by omega, by omega, ?_, ?_, ?_⟩
    · rw [b.2.2.1, a.2.2.1]
    · rw [b.2.2.2.1, a.2.2.2.1]
    · rw [b.2.2.2.2, a.2.2.2.2]

theorem forEach_startRun_fail {cfg : Cfg} {env : Env} {runs : List Batch} {s t : St} {e : Err}
    (h : forEach runs (startRun cfg env) s = .fail e t) (hs : szSum cfg runs ≤ s.main) : e = .resources := by
  induction runs generalizing s with
  | nil => simp only [forEach] at h; inv at h
  | cons r rs ih =>
    simp only [szSum, List.map_cons, List.sum_cons] at hs
    simp only [forEach] at h; inv at h
    rcases h with h | ⟨_, s1, h1, h2⟩
    · exact startRun_fail h (by omega)
    · have a := startRun_ok h1
      exact ih h2 (by simp only [szSum]; omega)

/-- `in_mem_sort_stream`: the sorted output is exactly the sorted buffered rows; the buffer and its
    reservation are handed to the stream -/
theorem inMemSortStream_ok {cfg : Cfg} {env : Env} {c : Bool} {s t : St} {out : List Batch}
    (h : inMemSortStream cfg env c s = .ok out t) (hm : s.main = szSum cfg s.inMem) :
    out.flatten = sortRows s.inMem.flatten ∧ t.main = 0 ∧ t.inMem = [] ∧ t.inProg = s.inProg ∧ t.spills = s.spills := by
  unfold inMemSortStream at h
  inv at h
  match hi : s.inMem with
  | [] =>
    simp only [hi] at h
    inv at h; obtain ⟨rfl, rfl⟩ := h
    simp [hi, sortRows, szSum] at *
    exact hm
  | [b] =>
    simp only [hi] at h
    inv at h
    obtain ⟨_, s1, h1, _, s2, h2, h3⟩ := h
    split at h1
    · inv at h1
    · inv at h1
      obtain ⟨_, rfl⟩ := h1
      have m := move_ok (a := .main) (b := .stream) (by decide) h2
      have sb := sortBatchStream_ok h3
      have cb := core_eq.mp sb.2
      simp only [St.get] at m
      refine ⟨by simp [sb.1, chunks_flatten], ?_, ?_, ?_, ?_⟩
      · rw [cb.1, m.2.1]; omega
      · rw [cb.2.1, m.2.2.2.2.1]
      · rw [cb.2.2.1, m.2.2.2.2.2.1]
      · rw [cb.2.2.2, m.2.2.2.2.2.2]
  | b :: b2 :: bs =>
    simp only [hi] at h
    inv at h
    split at h
    · inv at h
      obtain ⟨_, s1, h1, _, s2, h2, h3⟩ := h
      have r := tryResize_ok h1
      have m := move_ok (a := .main) (b := .stream) (by decide) h2
      have sb := sortBatchStream_ok h3
      have cb := core_eq.mp sb.2
      simp only [St.get] at m r
      refine ⟨by simp [sb.1, chunks_flatten], ?_, ?_, ?_, ?_⟩
      · rw [cb.1, m.2.1]; omega
      · rw [cb.2.1, m.2.2.2.2.1, r.2.2.1]
      · rw [cb.2.2.1, m.2.2.2.2.2.1, r.2.2.2.1]
      · rw [cb.2.2.2, m.2.2.2.2.2.2, r.2.2.2.2]
    · inv at h
      obtain ⟨_, s1, h1, _, s2, h2, rfl, rfl⟩ := h
      have fe := forEach_startRun_ok h2
      cases c with
      | false =>
        simp only [Bool.false_eq_true, if_false] at *
        inv at h1
        obtain ⟨_, rfl⟩ := h1
        refine ⟨by rw [chunks_flatten, kmerge_map_sortRows], ?_, fe.2.2.1, fe.2.2.2.1, fe.2.2.2.2⟩
        rw [fe.2.1]; simp only [hm, hi]; simp [szSum]
      | true =>
        simp only [if_true] at *
        have r := tryResize_ok h1
        simp only [St.get] at r
        refine ⟨by rw [chunks_flatten, kmerge_map_sortRows, coalesceRuns_flatten], ?_, ?_, ?_, ?_⟩
        · rw [fe.2.1, r.1]; simp [szSum]
        · rw [fe.2.2.1, r.2.2.1]
        · rw [fe.2.2.2.1, r.2.2.2.1]
        · rw [fe.2.2.2.2, r.2.2.2.2]

theorem inMemSortStream_fail {cfg : Cfg} {env : Env} {c : Bool} {s t : St} {e : Err}
    (h : inMemSortStream cfg env c s = .fail e t) (hm : s.main = szSum cfg s.inMem) : e = .resources := by
  unfold inMemSortStream at h
  inv at h
  match hi : s.inMem with
  | [] => simp only [hi] at h; inv at h
  | [b] =>
    simp only [hi] at h
    inv at h
    rcases h with h | ⟨_, s1, h1, h⟩
    · split at h
      · rename_i hne
        simp [hm, hi, szSum] at hne
      · inv at h
    · split at h1
      · inv at h1
      · inv at h1
        obtain ⟨_, rfl⟩ := h1
        rcases h with h | ⟨_, s2, h2, h3⟩
        · exact absurd (move_fail h) (by simp [St.get])
        · have m := move_ok (a := .main) (b := .stream) (by decide) h2
          simp only [St.get] at m
          exact sortBatchStream_fail h3 (by rw [m.2.2.1, hm, hi]; simp [szSum])
  | b :: b2 :: bs =>
    simp only [hi] at h
    inv at h
    split at h
    · inv at h
      rcases h with h | ⟨_, s1, h1, h⟩
      · exact tryResize_fail h
      · have r := tryResize_ok h1
        simp only [St.get] at r
        rcases h with h | ⟨_, s2, h2, h3⟩
        · exact absurd (move_fail h) (by simp only [St.get]; omega)
        · have m := move_ok (a := .main) (b := .stream) (by decide) h2
          simp only [St.get] at m
          exact sortBatchStream_fail h3 (by omega)
    · inv at h
      rcases h with h | ⟨_, s1, h1, h2⟩
      · split at h
        · exact tryResize_fail h
        · inv at h
      · cases c with
        | false =>
          simp only [Bool.false_eq_true, if_false] at *
          inv at h1
          obtain ⟨_, rfl⟩ := h1
          exact forEach_startRun_fail h2 (by simp only [hm, hi]; exact Nat.le_refl _)
        | true =>
          simp only [if_true] at *
          have r := tryResize_ok h1
          simp only [St.get] at r
          exact forEach_startRun_fail h2 (by rw [r.1]; exact Nat.le_refl _)

theorem createFile_ok {cfg : Cfg} {s t : St} {u : Unit} (h : createFile cfg s = .ok u t) :
    t.inProg = some [] ∧ t.main = s.main ∧ t.inMem = s.inMem ∧ t.spills = s.spills := by
  unfold createFile at h
  split at h <;> simp at h
  subst h
  cases s.inProg <;> simp

theorem createFile_fail {cfg : Cfg} {s t : St} {e : Err} (h : createFile cfg s = .fail e t) : e = .resources := by
  unfold createFile at h
  split at h <;> simp at h
  exact h.1.symm

theorem appendBatch_ok {env : Env} {b : Batch} {s t : St} {u : Unit} (h : appendBatch env b s = .ok u t) :
    ∃ r, s.inProg = some r ∧ t.inProg = some (r ++ [b]) ∧ t.main = s.main ∧ t.inMem = s.inMem ∧ t.spills = s.spills := by
  unfold appendBatch at h
  cases hi : s.inProg with
  | none => simp [hi] at h
  | some r =>
    simp only [hi] at h
    split at h <;> simp at h
    subst h
    exact ⟨r, rfl, rfl, rfl, rfl, rfl⟩

theorem appendBatch_fail {env : Env} {b : Batch} {s t : St} {e : Err} (h : appendBatch env b s = .fail e t)
    (hs : s.inProg ≠ none) : e = .resources := by
  unfold appendBatch at h
  cases hi : s.inProg with
  | none => exact absurd hi hs
  | some r =>
    simp only [hi] at h
    split at h <;> simp at h
    exact h.1.symm

theorem forEach_append_ok {env : Env} {buf : List Batch} {s t : St} {u : Unit} {r : Run}
    (h : forEach buf (appendBatch env) s = .ok u t) (hs : s.inProg = some r) :
    t.inProg = some (r ++ buf) ∧ t.main = s.main ∧ t.inMem = s.inMem ∧ t.spills = s.spills := by
  induction buf generalizing s r with
  | nil => simp only [forEach] at h; inv at h; obtain ⟨_, rfl⟩ := h; simp [hs]
  | cons b bs ih =>
    simp only [forEach] at h; inv at h
    obtain ⟨_, s1, h1, h2⟩ := h
    obtain ⟨r', hr', a⟩ := appendBatch_ok h1
    rw [hs] at hr'; cases hr'
    have := ih h2 a.1
    refine ⟨by simp [this.1], ?_, ?_, ?_⟩
    · rw [this.2.1, a.2.1]
    · rw [this.2.2.1, a.2.2.1]
    · rw [this.2.2.2, a.2.2.2]

theorem forEach_append_fail {env : Env} {buf : List Batch} {s t : St} {e : Err}
    (h : forEach buf (appendBatch env) s = .fail e t) (hs : s.inProg ≠ none) : e = .resources := by
  induction buf generalizing s with
  | nil => simp only [forEach] at h; inv at h
  | cons b bs ih =>
    simp only [forEach] at h; inv at h
    rcases h with h | ⟨_, s1, h1, h2⟩
    · exact appendBatch_fail h hs
    · obtain ⟨r', hr', a⟩ := appendBatch_ok h1
      exact ih h2 (by simp [a.1])

/-- rows already written to the in-progress spill file -/
def wr (o : Option Run) : Run := o.getD []

theorem consume_ok {cfg : Cfg} {env : Env} {buf : List Batch} {s t : St} {u : Unit}
    (h : consumeAndSpillAppend cfg env buf s = .ok u t) :
    t.inMem = s.inMem ∧ t.spills = s.spills ∧
    (buf = [] → t.main = s.main ∧ t.inProg = s.inProg) ∧
    (buf ≠ [] → t.main = 0 ∧ t.inProg = some (wr s.inProg ++ buf)) := by
  unfold consumeAndSpillAppend at h
  split at h
  · rename_i he
    inv at h; obtain ⟨_, rfl⟩ := h
    simp only [List.isEmpty_iff] at he
    simp [he]
  · rename_i he
    simp only [List.isEmpty_iff] at he
    inv at h
    obtain ⟨_, s1, h1, _, s2, h2, h3⟩ := h
    have f := free_ok h2
    simp only [St.get] at f
    have key : s1.inProg = some (wr s.inProg) ∧ s1.inMem = s.inMem ∧ s1.spills = s.spills := by
      split at h1
      · rename_i hn
        have c := createFile_ok h1
        simp only [Option.isNone_iff_eq_none] at hn
        simp [c, hn, wr]
      · rename_i hn
        inv at h1; obtain ⟨_, rfl⟩ := h1
        cases hi : s.inProg <;> simp_all [wr]
    have a := forEach_append_ok h3 (r := wr s.inProg) (by rw [f.2.2.2.1, key.1])
    refine ⟨?_, ?_, fun hb => absurd hb he, fun _ => ⟨?_, a.1⟩⟩
    · rw [a.2.2.1, f.2.2.1, key.2.1]
    · rw [a.2.2.2, f.2.2.2.2, key.2.2]
    · rw [a.2.1, f.1]

theorem consume_fail {cfg : Cfg} {env : Env} {buf : List Batch} {s t : St} {e : Err}
    (h : consumeAndSpillAppend cfg env buf s = .fail e t) : e = .resources := by
  unfold consumeAndSpillAppend at h
  split at h
  · inv at h
  · inv at h
    rcases h with h | ⟨_, s1, h1, h⟩
    · split at h
      · exact createFile_fail h
      · inv at h
    · obtain ⟨_, s2, h2, h3⟩ := h
      have f := free_ok h2
      refine forEach_append_fail h3 ?_
      rw [f.2.2.2.1]
      split at h1
      · simp [(createFile_ok h1).1]
      · rename_i hn
        inv at h1; obtain ⟨_, rfl⟩ := h1
        simpa [Option.isNone_iff_eq_none] using hn

/-- the spill loop appends, in order, exactly the batches it is given -/
theorem spillLoop_ok {cfg : Cfg} {env : Env} {cs buf : List Batch} {s t : St} {buf' : List Batch}
    (h : spillLoop cfg env cs buf s = .ok buf' t) (hb : buf = [] → s.main = 0) :
    wr t.inProg ++ buf' = wr s.inProg ++ buf ++ cs ∧ (buf' = [] → t.main = 0) ∧
    (t.inProg = none → s.inProg = none) ∧
    t.inMem = s.inMem ∧ t.spills = s.spills := by
  induction cs generalizing s buf with
  | nil =>
    simp only [spillLoop] at h; inv at h; obtain ⟨rfl, rfl⟩ := h
    simp; exact hb
  | cons c cs ih =>
    simp only [spillLoop] at h; inv at h
    obtain ⟨_, s1, h1, g, s2, h2, h3⟩ := h
    have a := core_eq.mp (await_ok h1)
    have tg := tryGrowSoft_ok h2
    simp only [St.get] at tg
    cases g with
    | true =>
      simp only [if_true] at h3
      have := ih h3 (by simp)
      refine ⟨by rw [this.1, tg.2.2.2.1, a.2.2.1]; simp, this.2.1, ?_, ?_, ?_⟩
      · intro hn; have := this.2.2.1 hn; rw [tg.2.2.2.1, a.2.2.1] at this; exact this
      · rw [this.2.2.2.1, tg.2.2.1, a.2.1]
      · rw [this.2.2.2.2, tg.2.2.2.2, a.2.2.2]
    | false =>
      simp only [Bool.false_eq_true, if_false] at h3
      inv at h3
      obtain ⟨_, s3, h4, h5⟩ := h3
      have co := consume_ok h4
      have hne : buf ++ [c] ≠ [] := by simp
      have c2 := co.2.2.2 hne
      have := ih h5 (fun _ => c2.1)
      refine ⟨?_, this.2.1, ?_, ?_, ?_⟩
      · rw [this.1, c2.2, tg.2.2.2.1, a.2.2.1]; simp [wr]
      · intro hn; have := this.2.2.1 hn; rw [c2.2] at this; cases this
      · rw [this.2.2.2.1, co.1, tg.2.2.1, a.2.1]
      · rw [this.2.2.2.2, co.2.1, tg.2.2.2.2, a.2.2.2]

theorem spillLoop_fail {cfg : Cfg} {env : Env} {cs buf : List Batch} {s t : St} {e : Err}
    (h : spillLoop cfg env cs buf s = .fail e t) : EOk env e := by
  induction cs generalizing s buf with
  | nil => simp only [spillLoop] at h; inv at h
  | cons c cs ih =>
    simp only [spillLoop] at h; inv at h
    rcases h with h | ⟨_, s1, h1, g, s2, h2, h3⟩
    · exact await_fail h
    · cases g with
      | true => simp only [if_true] at h3; exact ih h3
      | false =>
        simp only [Bool.false_eq_true, if_false] at h3
        inv at h3
        rcases h3 with h3 | ⟨_, s3, _, h5⟩
        · exact Or.inl (consume_fail h3)
        · exact ih h5

theorem finishFile_ok {s t : St} {o : Option Run} (h : finishFile s = .ok o t) :
    ∃ r, s.inProg = some r ∧ t.inProg = none ∧ t.main = s.main ∧ t.inMem = s.inMem ∧
      ((r = [] ∧ o = none ∧ t.spills = s.spills) ∨ (r ≠ [] ∧ o = some r ∧ t.spills = s.spills ++ [r])) := by
  unfold finishFile at h
  cases hi : s.inProg with
  | none => simp [hi] at h
  | some r =>
    cases r with
    | nil =>
      simp only [hi] at h; simp at h
      obtain ⟨rfl, rfl⟩ := h
      exact ⟨[], rfl, by simp, by simp, by simp, Or.inl ⟨rfl, rfl, by simp⟩⟩
    | cons b r =>
      simp only [hi] at h; simp at h
      obtain ⟨rfl, rfl⟩ := h
      exact ⟨b :: r, rfl, rfl, rfl, rfl, Or.inr ⟨by simp, rfl, rfl⟩⟩

theorem finishFile_fail {s t : St} {e : Err} (h : finishFile s = .fail e t) : s.inProg = none := by
  unfold finishFile at h
  cases hi : s.inProg with
  | none => rfl
  | some r => cases r <;> simp [hi] at h

theorem reserveMerge_ok {cfg : Cfg} {env : Env} {s t : St} {u : Unit}
    (h : reserveMemoryForMerge cfg env s = .ok u t) : core t = core s := by
  unfold reserveMemoryForMerge at h
  inv at h
  split at h
  · have r := tryResize_ok h
    simp only [core_eq, r, and_true]
    exact r.2.1 .main (by decide)
  · inv at h; obtain ⟨_, rfl⟩ := h; rfl

theorem reserveMerge_fail {cfg : Cfg} {env : Env} {s t : St} {e : Err}
    (h : reserveMemoryForMerge cfg env s = .fail e t) : e = .resources := by
  unfold reserveMemoryForMerge at h
  inv at h
  split at h
  · exact tryResize_fail h
  · inv at h

theorem chunksAux_ne_nil (n : Nat) (l : List Row) (k : Nat) (cur : Batch) (h : l ≠ [] ∨ cur ≠ []) :
    chunksAux n l k cur ≠ [] := by
  induction l generalizing k cur with
  | nil =>
    simp only [chunksAux]
    rcases h with h | h
    · exact absurd rfl h
    · cases cur <;> simp_all
  | cons x xs ih =>
    simp only [chunksAux]
    split
    · simp
    · exact ih _ _ (Or.inr (by simp))

theorem chunks_ne_nil (n : Nat) (l : List Row) (h : l ≠ []) : chunks n l ≠ [] :=
  chunksAux_ne_nil n l 0 [] (Or.inl h)

theorem free_core {k : Slot} (hk : k ≠ .main) {s t : St} {a : Unit} (h : free k s = .ok a t) : core t = core s := by
  have f := free_ok h
  rw [core_eq]
  exact ⟨f.2.1 .main (Ne.symm hk), f.2.2⟩

/-- state after the spill loop, the drop of the sorted stream and the final `consume`: the in-progress
    file holds exactly the sorted buffered rows -/
theorem spill_tail {cfg : Cfg} {env : Env} {s s2 s3 s4 s5 s6a s6 s7 : St} {sorted buf : List Batch} {u2 u5 u6a u6 u7 : Unit}
    (hm : s.main = szSum cfg s.inMem) (hne : s.inMem.flatten ≠ []) (hp : s.inProg = none)
    (h2 : free .merge s = .ok u2 s2) (h3 : inMemSortStream cfg env false s2 = .ok sorted s3)
    (h4 : spillLoop cfg env sorted [] s3 = .ok buf s4) (h5 : await env s4 = .ok u5 s5)
    (h6a : free .stream s5 = .ok u6a s6a) (h6b : free .mlocal s6a = .ok u6 s6)
    (h7 : consumeAndSpillAppend cfg env buf s6 = .ok u7 s7) :
    s7.inProg = some sorted ∧ s7.main = 0 ∧ sorted ≠ [] ∧ sorted.flatten = sortRows s.inMem.flatten ∧
    s7.inMem = [] ∧ s7.spills = s.spills := by
  have f2 := core_eq.mp (free_core (by decide) h2)
  have i3 := inMemSortStream_ok h3 (by rw [f2.1, f2.2.1]; exact hm)
  rw [f2.2.1] at i3
  have l4 := spillLoop_ok h4 (fun _ => i3.2.1)
  have a5 := core_eq.mp (await_ok h5)
  have f6a := core_eq.mp (free_core (by decide) h6a)
  have f6b := core_eq.mp (free_core (by decide) h6b)
  have c7 := consume_ok h7
  have e6 : s6.inProg = s4.inProg ∧ s6.main = s4.main ∧ s6.inMem = [] ∧ s6.spills = s.spills := by
    refine ⟨?_, ?_, ?_, ?_⟩
    · rw [f6b.2.2.1, f6a.2.2.1, a5.2.2.1]
    · rw [f6b.1, f6a.1, a5.1]
    · rw [f6b.2.1, f6a.2.1, a5.2.1, l4.2.2.2.1, i3.2.2.1]
    · rw [f6b.2.2.2, f6a.2.2.2, a5.2.2.2, l4.2.2.2.2, i3.2.2.2.2, f2.2.2.2]
  have hw : wr s4.inProg ++ buf = sorted := by
    have := l4.1; rw [i3.2.2.2.1, f2.2.2.1, hp] at this; simpa [wr] using this
  have hsorted : sorted ≠ [] := by
    intro he; rw [he] at i3
    have := i3.1
    simp only [List.flatten_nil] at this
    have hp := sortRows_perm s.inMem.flatten
    rw [← this] at hp
    exact hne (List.Perm.eq_nil hp.symm)
  have hfile : s7.inProg = some sorted ∧ s7.main = 0 := by
    by_cases hb : buf = []
    · have := c7.2.2.1 hb
      subst hb
      simp only [List.append_nil] at hw
      rw [this.2, this.1, e6.1, e6.2.1]
      refine ⟨?_, l4.2.1 rfl⟩
      cases hi : s4.inProg with
      | none => rw [hi] at hw; exact absurd hw.symm hsorted
      | some x => rw [hi] at hw; simp [wr] at hw; rw [hw]
    · have := c7.2.2.2 hb
      rw [this.2, e6.1, hw]; exact ⟨rfl, this.1⟩
  refine ⟨hfile.1, hfile.2, hsorted, i3.1, ?_, ?_⟩
  · rw [c7.1, e6.2.2.1]
  · rw [c7.2.1, e6.2.2.2]

theorem sortAndSpill_ok {cfg : Cfg} {env : Env} {s t : St} {u : Unit}
    (h : sortAndSpill cfg env s = .ok u t) (hm : s.main = szSum cfg s.inMem)
    (hne : s.inMem.flatten ≠ []) (hp : s.inProg = none) :
    t.inMem = [] ∧ t.main = 0 ∧ t.inProg = none ∧
    ∃ run, run ≠ [] ∧ run.flatten = sortRows s.inMem.flatten ∧ t.spills = s.spills ++ [run] := by
  unfold sortAndSpill dropSortedStream spillFinish at h
  inv at h
  obtain ⟨_, s1, h1, _, s2, h2, sorted, s3, h3, buf, s4, h4, _, s5, h5, _, s6, ⟨_, s6a, h6a, h6b⟩, _, s7, h7, _, s8, ⟨o, s8a, h8, _, rfl⟩, h9⟩ := h
  split at h1
  · inv at h1
  inv at h1; obtain ⟨_, rfl⟩ := h1
  have tl := spill_tail hm hne hp h2 h3 h4 h5 h6a h6b h7
  obtain ⟨r, hr, f8⟩ := finishFile_ok h8
  have r9 := core_eq.mp (reserveMerge_ok h9)
  rw [tl.1] at hr; cases hr
  rcases f8.2.2.2 with ⟨he, _⟩ | ⟨_, _, hsp⟩
  · exact absurd he tl.2.2.1
  · refine ⟨?_, ?_, ?_, sorted, tl.2.2.1, tl.2.2.2.1, ?_⟩
    · rw [r9.2.1, f8.2.2.1, tl.2.2.2.2.1]
    · rw [r9.1, f8.2.1, tl.2.1]
    · rw [r9.2.2.1, f8.1]
    · rw [r9.2.2.2, hsp, tl.2.2.2.2.2]

theorem sortAndSpill_fail {cfg : Cfg} {env : Env} {s t : St} {e : Err}
    (h : sortAndSpill cfg env s = .fail e t) (hm : s.main = szSum cfg s.inMem)
    (hne : s.inMem.flatten ≠ []) (hp : s.inProg = none) : EOk env e := by
  unfold sortAndSpill dropSortedStream spillFinish at h
  inv at h
  rcases h with h | ⟨_, s1, h1, h⟩
  · split at h
    · rename_i he
      simp only [List.isEmpty_iff] at he
      rw [he] at hne; exact absurd rfl hne
    · inv at h
  split at h1
  · inv at h1
  inv at h1; obtain ⟨_, rfl⟩ := h1
  obtain ⟨_, s2, h2, h⟩ := h
  have f2 := core_eq.mp (free_core (by decide) h2)
  rcases h with h | ⟨sorted, s3, h3, h⟩
  · exact Or.inl (inMemSortStream_fail h (by rw [f2.1, f2.2.1]; exact hm))
  rcases h with h | ⟨buf, s4, h4, h⟩
  · exact spillLoop_fail h
  rcases h with h | ⟨_, s5, h5, h⟩
  · exact await_fail h
  obtain ⟨_, s6, ⟨_, s6a, h6a, h6b⟩, h⟩ := h
  rcases h with h | ⟨_, s7, h7, h⟩
  · exact Or.inl (consume_fail h)
  have tl := spill_tail hm hne hp h2 h3 h4 h5 h6a h6b h7
  rcases h with h | ⟨_, s8, ⟨o, s8a, h8, _, rfl⟩, h9⟩
  · have := finishFile_fail h; rw [tl.1] at this; cases this
  · exact Or.inl (reserveMerge_fail h9)

/-- the sorter between two `insert_batch` calls, having consumed the rows `X` -/
structure Quiet (cfg : Cfg) (s : St) (X : List Row) : Prop where
  main_eq : s.main = szSum cfg s.inMem
  inProg : s.inProg = none
  sorted : ∀ r ∈ s.spills, Sorted r.flatten
  nonempty : ∀ r ∈ s.spills, r ≠ []
  rows : ∀ b ∈ s.inMem, b ≠ []
  perm : (s.inMem.flatten ++ (s.spills.map List.flatten).flatten).Perm X

theorem Quiet.of_core {cfg : Cfg} {s t : St} {X : List Row} (h : core t = core s) (q : Quiet cfg s X) :
    Quiet cfg t X := by
  have c := core_eq.mp h
  exact ⟨by rw [c.1, c.2.1]; exact q.main_eq, by rw [c.2.2.1]; exact q.inProg,
    by rw [c.2.2.2]; exact q.sorted, by rw [c.2.2.2]; exact q.nonempty, by rw [c.2.1]; exact q.rows,
    by rw [c.2.1, c.2.2.2]; exact q.perm⟩

theorem flatten_ne_nil_of {l : List Batch} (h : l ≠ []) (hr : ∀ b ∈ l, b ≠ []) : l.flatten ≠ [] := by
  cases l with
  | nil => exact absurd rfl h
  | cons b bs =>
    have := hr b (by simp)
    cases b with
    | nil => exact absurd rfl this
    | cons x xs => simp

theorem reserveAndPush_ok {cfg : Cfg} {env : Env} {b : Batch} {s t : St} {u : Unit} {X : List Row}
    (h : reserveAndPush cfg env b s = .ok u t) (q : Quiet cfg s X) (hb : b ≠ []) :
    Quiet cfg t (X ++ b) := by
  unfold reserveAndPush at h
  inv at h
  obtain ⟨g, s1, h1, _, s2, h2, h6⟩ := h
  simp only [setInMem, Res.ok.injEq, true_and] at h6
  subst h6
  have tg := tryGrowSoft_ok h1
  simp only [St.get] at tg
  cases g with
  | true =>
    simp only [Bool.not_true, Bool.false_eq_true, if_false] at h2
    inv at h2; obtain ⟨_, rfl⟩ := h2
    simp only [if_true] at tg
    refine ⟨?_, ?_, ?_, ?_, ?_, ?_⟩
    · simp only [szSum, List.map_append, List.sum_append, List.map_cons, List.map_nil, List.sum_cons, List.sum_nil]
      rw [tg.1, tg.2.2.1, q.main_eq]; simp [szSum]
    · simp only; rw [tg.2.2.2.1]; exact q.inProg
    · simp only; rw [tg.2.2.2.2]; exact q.sorted
    · simp only; rw [tg.2.2.2.2]; exact q.nonempty
    · simp only; rw [tg.2.2.1]; intro x hx
      rcases List.mem_append.mp hx with hx | hx
      · exact q.rows x hx
      · simp at hx; rw [hx]; exact hb
    · simp only; rw [tg.2.2.1, tg.2.2.2.2]
      have := q.perm
      simp only [List.flatten_append, List.flatten_cons, List.flatten_nil, List.append_nil]
      refine List.Perm.trans ?_ (List.Perm.append_right b this)
      simp only [List.append_assoc]
      exact List.Perm.append_left _ List.perm_append_comm
  | false =>
    simp only [Bool.not_false, if_true] at h2
    simp only [Bool.false_eq_true, if_false] at tg
    inv at h2
    obtain ⟨_, s3, h3, _, s4, h4, h5⟩ := h2
    split at h3
    · inv at h3
    rename_i hne
    inv at h3; obtain ⟨_, rfl⟩ := h3
    simp only [List.isEmpty_iff] at hne
    rw [tg.2.2.1] at hne
    have ss := sortAndSpill_ok h4 (by rw [tg.1, tg.2.2.1]; exact q.main_eq)
      (by rw [tg.2.2.1]; exact flatten_ne_nil_of hne q.rows) (by rw [tg.2.2.2.1]; exact q.inProg)
    obtain ⟨i1, i2, i3, run, r1, r2, r3⟩ := ss
    have g5 := tryGrow_ok h5
    simp only [St.get] at g5
    rw [tg.2.2.1] at r2
    rw [tg.2.2.2.2] at r3
    refine ⟨?_, ?_, ?_, ?_, ?_, ?_⟩
    · simp only; rw [g5.1, g5.2.2.1, i1, i2]; simp [szSum]
    · simp only; rw [g5.2.2.2.1]; exact i3
    · simp only; rw [g5.2.2.2.2, r3]; intro r hr
      rcases List.mem_append.mp hr with hr | hr
      · exact q.sorted r hr
      · simp at hr; rw [hr, r2]; exact sorted_sortRows _
    · simp only; rw [g5.2.2.2.2, r3]; intro r hr
      rcases List.mem_append.mp hr with hr | hr
      · exact q.nonempty r hr
      · simp at hr; rw [hr]; exact r1
    · simp only; rw [g5.2.2.1, i1]; intro x hx; simp at hx; rw [hx]; exact hb
    · simp only; rw [g5.2.2.1, i1, g5.2.2.2.2, r3]
      simp only [List.nil_append, List.flatten_cons, List.flatten_nil, List.append_nil, List.map_append,
        List.map_cons, List.map_nil, List.flatten_append, r2]
      have := q.perm
      refine List.Perm.trans ?_ (List.Perm.append_right b this)
      refine List.Perm.trans List.perm_append_comm ?_
      refine List.Perm.append_right b ?_
      refine List.Perm.trans List.perm_append_comm ?_
      exact List.Perm.append_right _ (sortRows_perm _)

theorem reserveAndPush_fail {cfg : Cfg} {env : Env} {b : Batch} {s t : St} {e : Err} {X : List Row}
    (h : reserveAndPush cfg env b s = .fail e t) (q : Quiet cfg s X) : EOk env e := by
  unfold reserveAndPush at h
  inv at h
  obtain ⟨g, s1, h1, h⟩ := h
  have tg := tryGrowSoft_ok h1
  simp only [St.get] at tg
  rcases h with h | ⟨_, s2, h2, h⟩
  · cases g with
    | true => simp only [Bool.not_true, Bool.false_eq_true, if_false] at h; inv at h
    | false =>
      simp only [Bool.not_false, if_true] at h
      simp only [Bool.false_eq_true, if_false] at tg
      inv at h
      rcases h with h | ⟨_, s3, h3, h⟩
      · split at h
        · inv at h; exact Or.inl h.1.symm
        · inv at h
      split at h3
      · inv at h3
      rename_i hne
      inv at h3; obtain ⟨_, rfl⟩ := h3
      simp only [List.isEmpty_iff] at hne
      rw [tg.2.2.1] at hne
      rcases h with h | ⟨_, s4, h4, h5⟩
      · exact sortAndSpill_fail h (by rw [tg.1, tg.2.2.1]; exact q.main_eq)
          (by rw [tg.2.2.1]; exact flatten_ne_nil_of hne q.rows) (by rw [tg.2.2.2.1]; exact q.inProg)
      · exact Or.inl (tryGrow_fail h5)
  · cases h

theorem insertBatch_ok {cfg : Cfg} {env : Env} {b : Batch} {s t : St} {u : Unit} {X : List Row}
    (h : insertBatch cfg env b s = .ok u t) (q : Quiet cfg s X) : Quiet cfg t (X ++ b) := by
  unfold insertBatch at h
  split at h
  · rename_i he
    simp only [List.isEmpty_iff] at he
    inv at h; obtain ⟨_, rfl⟩ := h
    simpa [he] using q
  · rename_i he
    simp only [List.isEmpty_iff] at he
    inv at h
    obtain ⟨_, s1, h1, h2⟩ := h
    exact reserveAndPush_ok h2 (q.of_core (reserveMerge_ok h1)) he

theorem insertBatch_fail {cfg : Cfg} {env : Env} {b : Batch} {s t : St} {e : Err} {X : List Row}
    (h : insertBatch cfg env b s = .fail e t) (q : Quiet cfg s X) : EOk env e := by
  unfold insertBatch at h
  split at h
  · inv at h
  · inv at h
    rcases h with h | ⟨_, s1, h1, h2⟩
    · exact Or.inl (reserveMerge_fail h)
    · exact reserveAndPush_fail h2 (q.of_core (reserveMerge_ok h1))

theorem insertAll_ok {cfg : Cfg} {env : Env} {input : List Batch} {s t : St} {u : Unit} {X : List Row}
    (h : forEach input (fun b => do await env; insertBatch cfg env b) s = .ok u t) (q : Quiet cfg s X) :
    Quiet cfg t (X ++ input.flatten) := by
  induction input generalizing s X with
  | nil => simp only [forEach] at h; inv at h; obtain ⟨_, rfl⟩ := h; simpa using q
  | cons b bs ih =>
    simp only [forEach] at h; inv at h
    obtain ⟨_, s1, ⟨_, s0, h0, h1⟩, h2⟩ := h
    have := ih h2 (insertBatch_ok h1 (q.of_core (await_ok h0)))
    simpa using this

theorem insertAll_fail {cfg : Cfg} {env : Env} {input : List Batch} {s t : St} {e : Err} {X : List Row}
    (h : forEach input (fun b => do await env; insertBatch cfg env b) s = .fail e t) (q : Quiet cfg s X) :
    EOk env e := by
  induction input generalizing s X with
  | nil => simp only [forEach] at h; inv at h
  | cons b bs ih =>
    simp only [forEach] at h; inv at h
    rcases h with (h | ⟨_, s0, h0, h1⟩) | ⟨_, s1, ⟨_, s0, h0, h1⟩, h2⟩
    · exact await_fail h
    · exact insertBatch_fail h1 (q.of_core (await_ok h0))
    · exact ih h2 (insertBatch_ok h1 (q.of_core (await_ok h0)))

theorem selectGo_fail {cfg : Cfg} {env : Env} {mx bl : Nat} {fs : List Run} {n tot : Nat} {s t : St} {e : Err} :
    selectGo cfg env mx bl fs n tot s = .fail e t → False := by
  induction fs generalizing n tot s with
  | nil => intro h; simp only [selectGo] at h; inv at h
  | cons f fs ih =>
    intro h
    simp only [selectGo] at h
    split at h
    · inv at h
    · inv at h
      split at h
      · inv at h
        obtain ⟨g, s1, h1, h2⟩ := h
        cases g with
        | true => simp only [if_true] at h2; exact ih h2
        | false =>
          simp only [Bool.false_eq_true, if_false] at h2
          split at h2 <;> inv at h2
      · exact ih h

theorem selectGo_ok {cfg : Cfg} {env : Env} {mx bl : Nat} {fs : List Run} {n tot : Nat} {s t : St} {r : Sel}
    (h : selectGo cfg env mx bl fs n tot s = .ok r t) :
    core t = core s ∧
    (∀ k, r = .ready k → n ≤ k ∧ k ≤ n + fs.length ∧ (k = n + fs.length ∨ mx ≤ k ∨ 2 ≤ k)) ∧
    (∀ k, r = .tooFew k → k < 2) := by
  induction fs generalizing n tot s with
  | nil =>
    simp only [selectGo] at h; inv at h; obtain ⟨rfl, rfl⟩ := h
    refine ⟨rfl, ?_, ?_⟩
    · intro k hk; cases hk; simp
    · intro k hk; cases hk
  | cons f fs ih =>
    simp only [selectGo] at h
    split at h
    · rename_i hge
      inv at h; obtain ⟨rfl, rfl⟩ := h
      refine ⟨rfl, ?_, ?_⟩
      · intro k hk; cases hk; simp only [List.length_cons]; omega
      · intro k hk; cases hk
    · inv at h
      split at h
      · inv at h
        obtain ⟨g, s1, h1, h2⟩ := h
        have tg := tryGrowSoft_ok h1
        have c1 : core s1 = core s := by
          rw [core_eq]; exact ⟨tg.2.1 .main (by decide), tg.2.2⟩
        cases g with
        | true =>
          simp only [if_true] at h2
          have := ih h2
          refine ⟨this.1.trans c1, ?_, this.2.2⟩
          intro k hk
          have := this.2.1 k hk
          simp only [List.length_cons]; omega
        | false =>
          simp only [Bool.false_eq_true, if_false] at h2
          split at h2
          · inv at h2; obtain ⟨rfl, rfl⟩ := h2
            refine ⟨c1, ?_, ?_⟩
            · intro k hk; cases hk
            · intro k hk; cases hk; omega
          · inv at h2; obtain ⟨rfl, rfl⟩ := h2
            refine ⟨c1, ?_, ?_⟩
            · intro k hk; cases hk; simp only [List.length_cons]; omega
            · intro k hk; cases hk
      · have := ih h
        refine ⟨this.1, ?_, this.2.2⟩
        intro k hk
        have := this.2.1 k hk
        simp only [List.length_cons]; omega

theorem maxFilesOf_ge (cfg : Cfg) (files : List Run) (h : 2 ≤ files.length) : 2 ≤ maxFilesOf cfg files := by
  unfold maxFilesOf effectiveFanIn
  split
  · omega
  · rename_i k hk
    split at hk
    · cases hk
    · simp only [Option.some.injEq] at hk; omega

theorem selectFiles_ok {cfg : Cfg} {env : Env} {files : List Run} {s t : St} {p : Pick}
    (h : selectFiles cfg env files s = .ok p t) (hl : 2 ≤ files.length) :
    core t = core s ∧ (∀ n, p = .ready n → 2 ≤ n ∧ n ≤ files.length) ∧ (∀ i, p = .split i → i < files.length) := by
  have hmx := maxFilesOf_ge cfg files hl
  unfold selectFiles at h
  inv at h
  obtain ⟨r1, s1, h1, h⟩ := h
  have g1 := selectGo_ok h1
  cases r1 with
  | ready n =>
    simp only at h; inv at h; obtain ⟨rfl, rfl⟩ := h
    refine ⟨g1.1, ?_, ?_⟩
    · intro k hk; cases hk
      have := g1.2.1 n rfl
      omega
    · intro i hi; cases hi
  | tooFew n =>
    simp only at h; inv at h
    obtain ⟨_, s2, h2, r2, s3, h3, h⟩ := h
    have f2 := free_core (k := .pass) (by decide) h2
    have g3 := selectGo_ok h3
    cases r2 with
    | ready n2 =>
      simp only at h; inv at h; obtain ⟨rfl, rfl⟩ := h
      refine ⟨g3.1.trans (f2.trans g1.1), ?_, ?_⟩
      · intro k hk; cases hk
        have := g3.2.1 n2 rfl
        omega
      · intro i hi; cases hi
    | tooFew n2 =>
      simp only at h; inv at h
      obtain ⟨_, s4, h4, h⟩ := h
      have f4 := free_core (k := .pass) (by decide) h4
      split at h
      · inv at h
      · match files, hl with
        | f0 :: f1 :: rest, _ =>
          simp only at h; inv at h; obtain ⟨rfl, rfl⟩ := h
          refine ⟨f4.trans (g3.1.trans (f2.trans g1.1)), ?_, ?_⟩
          · intro k hk; cases hk
          · intro i hi; cases hi; simp only [List.length_cons]; split <;> omega

theorem selectFiles_fail {cfg : Cfg} {env : Env} {files : List Run} {s t : St} {e : Err}
    (h : selectFiles cfg env files s = .fail e t) (hl : 2 ≤ files.length) : e = .resources := by
  unfold selectFiles at h
  inv at h
  rcases h with h | ⟨r1, s1, h1, h⟩
  · exact absurd h selectGo_fail
  cases r1 with
  | ready n => simp only at h; inv at h
  | tooFew n =>
    simp only at h; inv at h
    obtain ⟨_, s2, h2, h⟩ := h
    rcases h with h | ⟨r2, s3, h3, h⟩
    · exact absurd h selectGo_fail
    cases r2 with
    | ready n2 => simp only at h; inv at h
    | tooFew n2 =>
      simp only at h; inv at h
      obtain ⟨_, s4, h4, h⟩ := h
      split at h
      · inv at h; exact h.1.symm
      · match files, hl with
        | f0 :: f1 :: rest, _ => simp only at h; inv at h

theorem forEach_awaitAppend_ok {env : Env} {buf : List Batch} {s t : St} {u : Unit} {r : Run}
    (h : forEach buf (fun c => do await env; appendBatch env c) s = .ok u t) (hs : s.inProg = some r) :
    t.inProg = some (r ++ buf) ∧ t.main = s.main ∧ t.inMem = s.inMem ∧ t.spills = s.spills := by
  induction buf generalizing s r with
  | nil => simp only [forEach] at h; inv at h; obtain ⟨_, rfl⟩ := h; simp [hs]
  | cons b bs ih =>
    simp only [forEach] at h; inv at h
    obtain ⟨_, s1, ⟨_, s0, h0, h1⟩, h2⟩ := h
    have a0 := core_eq.mp (await_ok h0)
    obtain ⟨r', hr', a⟩ := appendBatch_ok h1
    rw [a0.2.2.1, hs] at hr'; cases hr'
    have := ih h2 a.1
    refine ⟨by simp [this.1], ?_, ?_, ?_⟩
    · rw [this.2.1, a.2.1, a0.1]
    · rw [this.2.2.1, a.2.2.1, a0.2.1]
    · rw [this.2.2.2, a.2.2.2, a0.2.2.2]

theorem forEach_awaitAppend_fail {env : Env} {buf : List Batch} {s t : St} {e : Err}
    (h : forEach buf (fun c => do await env; appendBatch env c) s = .fail e t) (hs : s.inProg ≠ none) : EOk env e := by
  induction buf generalizing s with
  | nil => simp only [forEach] at h; inv at h
  | cons b bs ih =>
    simp only [forEach] at h; inv at h
    rcases h with (h | ⟨_, s0, h0, h1⟩) | ⟨_, s1, ⟨_, s0, h0, h1⟩, h2⟩
    · exact await_fail h
    · have a0 := core_eq.mp (await_ok h0)
      exact Or.inl (appendBatch_fail h1 (by rw [a0.2.2.1]; exact hs))
    · obtain ⟨r', hr', a⟩ := appendBatch_ok h1
      exact ih h2 (by simp [a.1])

theorem spillStream_ok {cfg : Cfg} {env : Env} {out : List Batch} {s t : St} {o : Option Run}
    (h : spillStream cfg env out s = .ok o t) :
    t.inProg = none ∧ t.main = s.main ∧ t.inMem = s.inMem ∧
    ((out = [] ∧ o = none ∧ t.spills = s.spills) ∨ (out ≠ [] ∧ o = some out ∧ t.spills = s.spills ++ [out])) := by
  unfold spillStream at h
  inv at h
  obtain ⟨_, s1, h1, _, s2, h2, _, s3, h3, h4⟩ := h
  have c1 := createFile_ok h1
  have f2 := forEach_awaitAppend_ok h2 c1.1
  have a3 := core_eq.mp (await_ok h3)
  obtain ⟨r, hr, f4⟩ := finishFile_ok h4
  rw [a3.2.2.1, f2.1] at hr
  simp only [List.nil_append, Option.some.injEq] at hr
  subst hr
  refine ⟨f4.1, ?_, ?_, ?_⟩
  · rw [f4.2.1, a3.1, f2.2.1, c1.2.1]
  · rw [f4.2.2.1, a3.2.1, f2.2.2.1, c1.2.2.1]
  · rcases f4.2.2.2 with ⟨h1, h2, h3⟩ | ⟨h1, h2, h3⟩
    · exact Or.inl ⟨h1, h2, by rw [h3, a3.2.2.2, f2.2.2.2, c1.2.2.2]⟩
    · exact Or.inr ⟨h1, h2, by rw [h3, a3.2.2.2, f2.2.2.2, c1.2.2.2]⟩

theorem spillStream_fail {cfg : Cfg} {env : Env} {out : List Batch} {s t : St} {e : Err}
    (h : spillStream cfg env out s = .fail e t) : EOk env e := by
  unfold spillStream at h
  inv at h
  rcases h with h | ⟨_, s1, h1, h⟩
  · exact Or.inl (createFile_fail h)
  have c1 := createFile_ok h1
  rcases h with h | ⟨_, s2, h2, h⟩
  · exact forEach_awaitAppend_fail h (by simp [c1.1])
  have f2 := forEach_awaitAppend_ok h2 c1.1
  rcases h with h | ⟨_, s3, h3, h4⟩
  · exact await_fail h
  · have a3 := core_eq.mp (await_ok h3)
    have := finishFile_fail h4
    rw [a3.2.2.1, f2.1] at this; cases this

theorem dropPassStream_ok {s t : St} {u : Unit} (h : dropPassStream s = .ok u t) : core t = core s := by
  simp only [dropPassStream, Res.ok.injEq, true_and] at h
  subst h
  simp [core, St.set]

theorem mergePass_ok {cfg : Cfg} {env : Env} {sel : List Run} {s t : St} {o : Option Run}
    (h : mergePass cfg env sel s = .ok o t) :
    t.inProg = none ∧ t.main = s.main ∧ t.inMem = s.inMem ∧
    ((chunks cfg.batchSize (kmerge (sel.map List.flatten)) = [] ∧ o = none ∧ t.spills = s.spills) ∨
     (o = some (chunks cfg.batchSize (kmerge (sel.map List.flatten))) ∧
      chunks cfg.batchSize (kmerge (sel.map List.flatten)) ≠ [] ∧
      t.spills = s.spills ++ [chunks cfg.batchSize (kmerge (sel.map List.flatten))])) := by
  unfold mergePass at h
  inv at h
  obtain ⟨r, s1, h1, _, s2, h2, rfl, rfl⟩ := h
  have sp := spillStream_ok h1
  have d := core_eq.mp (dropPassStream_ok h2)
  refine ⟨by rw [d.2.2.1]; exact sp.1, by rw [d.1]; exact sp.2.1, by rw [d.2.1]; exact sp.2.2.1, ?_⟩
  rcases sp.2.2.2 with ⟨a, b, c⟩ | ⟨a, b, c⟩
  · exact Or.inl ⟨a, b, by rw [d.2.2.2]; exact c⟩
  · exact Or.inr ⟨b, a, by rw [d.2.2.2]; exact c⟩

theorem mergePass_fail {cfg : Cfg} {env : Env} {sel : List Run} {s t : St} {e : Err}
    (h : mergePass cfg env sel s = .fail e t) : EOk env e := by
  unfold mergePass at h
  inv at h
  rcases h with h | ⟨r, s1, h1, h⟩
  · exact spillStream_fail h
  · simp [dropPassStream] at h

theorem resplit_ok {cfg : Cfg} {env : Env} {files : List Run} {idx : Nat} {target : Run} {s t : St} {run : Run}
    (h : resplit cfg env files idx target s = .ok run t) (hs : s.spills = files) :
    run = halveRun target ∧ t.spills = files.set idx run ∧ t.inProg = none ∧ t.main = s.main ∧ t.inMem = s.inMem := by
  unfold resplit at h
  inv at h
  obtain ⟨_, s1, h1, _, s2, h2, o, s3, h3, h⟩ := h
  have g1 := tryGrow_ok h1
  have sp := spillStream_ok h3
  simp only [startReadingIdx, Res.ok.injEq, true_and] at h2
  cases o with
  | none => simp only at h; inv at h
  | some r =>
    simp only at h; inv at h
    obtain ⟨_, s4, h4, _, s5, h5, rfl, rfl⟩ := h
    have d := core_eq.mp (dropPassStream_ok h4)
    unfold reorderSpills at h5
    split at h5
    · simp only [Res.ok.injEq, true_and] at h5
      subst h5
      rcases sp.2.2.2 with ⟨_, b, _⟩ | ⟨_, b, _⟩
      · cases b
      · cases b
        refine ⟨rfl, rfl, ?_, ?_, ?_⟩
        · simp only; rw [d.2.2.1]; exact sp.1
        · simp only; rw [d.1, sp.2.1, ← h2]; simp only; exact g1.2.1 .main (by decide)
        · simp only; rw [d.2.1, sp.2.2.1, ← h2]; simp only; exact g1.2.2.1
    · simp at h5

theorem resplit_fail {cfg : Cfg} {env : Env} {files : List Run} {idx : Nat} {target : Run} {s t : St} {e : Err}
    (h : resplit cfg env files idx target s = .fail e t) (hs : s.spills = files)
    (hi : idx < files.length) (ht : target ≠ []) : EOk env e := by
  unfold resplit at h
  inv at h
  rcases h with h | ⟨_, s1, h1, h⟩
  · exact Or.inl (tryGrow_fail h)
  have g1 := tryGrow_ok h1
  rcases h with h | ⟨_, s2, h2, h⟩
  · simp [startReadingIdx] at h
  simp only [startReadingIdx, Res.ok.injEq, true_and] at h2
  rcases h with h | ⟨o, s3, h3, h⟩
  · exact spillStream_fail h
  have sp := spillStream_ok h3
  cases o with
  | none =>
    rcases sp.2.2.2 with ⟨a, _, _⟩ | ⟨_, b, _⟩
    · exact absurd a (halveRun_ne_nil target ht)
    · cases b
  | some r =>
    simp only at h; inv at h
    rcases h with h | ⟨_, s4, h4, h⟩
    · simp [dropPassStream] at h
    have d := core_eq.mp (dropPassStream_ok h4)
    unfold reorderSpills at h
    split at h
    · simp at h
    · rename_i hlen
      exfalso; apply hlen
      rcases sp.2.2.2 with ⟨_, b, _⟩ | ⟨_, b, c⟩
      · cases b
      · rw [d.2.2.2, c, ← h2]
        simp only [List.length_set, List.length_append, List.length_cons, List.length_nil]
        rw [g1.2.2.2.2, hs, List.length_eraseIdx, if_pos hi]; omega

theorem selectStep_ok {cfg : Cfg} {env : Env} {files : List Run} {s t : St} {p : Pick}
    (h : selectStep cfg env files s = .ok p t) (hl : 2 ≤ files.length) :
    core t = core s ∧ (∀ n, p = .ready n → 2 ≤ n ∧ n ≤ files.length) ∧ (∀ i, p = .split i → i < files.length) := by
  unfold selectStep at h
  inv at h
  obtain ⟨_, s1, h1, h2⟩ := h
  have m := move_ok (a := .mlocal) (b := .pass) (by decide) h1
  have sf := selectFiles_ok h2 hl
  refine ⟨sf.1.trans ?_, sf.2⟩
  rw [core_eq]
  exact ⟨m.2.2.2.1 .main (by decide) (by decide), m.2.2.2.2⟩

theorem selectStep_fail {cfg : Cfg} {env : Env} {files : List Run} {s t : St} {e : Err}
    (h : selectStep cfg env files s = .fail e t) (hl : 2 ≤ files.length) : e = .resources := by
  unfold selectStep at h
  inv at h
  rcases h with h | ⟨_, s1, h1, h2⟩
  · exact absurd (move_fail h) (by simp [St.get])
  · exact selectFiles_fail h2 hl

theorem startReading_ok {n : Nat} {s t : St} {u : Unit} (h : startReading n s = .ok u t) :
    t.spills = s.spills.drop n ∧ t.inProg = s.inProg ∧ t.main = s.main ∧ t.inMem = s.inMem := by
  simp only [startReading, Res.ok.injEq, true_and] at h
  subst h; exact ⟨rfl, rfl, rfl, rfl⟩

def _root_.DfModel.Mech.ReserveOrSpill.Res.sat (r : Res α) (Q : α → St → Prop) (E : Err → Prop) : Prop :=
  match r with
  | .ok a t => Q a t
  | .fail e _ => E e

@[simp] theorem sat_ok {a : α} {t : St} {Q : α → St → Prop} {E : Err → Prop} : (Res.ok a t).sat Q E = Q a t := rfl
@[simp] theorem sat_fail {e : Err} {t : St} {Q : α → St → Prop} {E : Err → Prop} :
    (Res.fail e t : Res α).sat Q E = E e := rfl

/-- all rows held by a list of spill files -/
def rowsOf (files : List Run) : List Row := (files.map List.flatten).flatten

theorem rowsOf_append (a b : List Run) : rowsOf (a ++ b) = rowsOf a ++ rowsOf b := by simp [rowsOf]

theorem rowsOf_take_drop (n : Nat) (files : List Run) : rowsOf (files.take n) ++ rowsOf (files.drop n) = rowsOf files := by
  rw [← rowsOf_append, List.take_append_drop]

theorem kmerge_files (sel : List Run) (h : ∀ r ∈ sel, Sorted r.flatten) :
    kmerge (sel.map List.flatten) = sortRows (rowsOf sel) := by
  rw [kmerge_eq_sort]
  · rfl
  · intro r hr; simp only [List.mem_map] at hr; obtain ⟨x, hx, rfl⟩ := hr; exact h x hx

theorem rowsOf_set (files : List Run) (idx : Nat) (target run : Run) (ht : files[idx]? = some target)
    (hr : run.flatten = target.flatten) : rowsOf (files.set idx run) = rowsOf files := by
  induction files generalizing idx with
  | nil => simp at ht
  | cons f fs ih =>
    cases idx with
    | zero => simp at ht; subst ht; simp [rowsOf, hr]
    | succ i =>
      simp at ht
      have := ih i ht
      simp only [rowsOf, List.set_cons_succ, List.map_cons, List.flatten_cons] at *
      rw [this]

theorem sat_congr {r : Res α} {Q Q' : α → St → Prop} {E : Err → Prop} (h : r.sat Q E)
    (hq : ∀ a t, Q a t → Q' a t) : r.sat Q' E := by
  cases r with
  | ok a t => exact hq a t h
  | fail e t => exact h

theorem mem_of_getElem? {l : List Run} {i : Nat} {x : Run} (h : l[i]? = some x) : x ∈ l := by
  exact List.mem_of_getElem? h

theorem mergeLoop_spec (cfg : Cfg) (env : Env) (files : List Run) (s : St)
    (hs : s.spills = files) (hp : s.inProg = none)
    (hsort : ∀ r ∈ files, Sorted r.flatten) (hne : ∀ r ∈ files, r ≠ []) :
    (mergeLoop cfg env files s).sat (fun out _ => out.flatten = sortRows (rowsOf files)) (EOk env) := by
  fun_induction mergeLoop cfg env files s
  case case1 => simp [rowsOf, sortRows]
  case case2 s r =>
    simp only [startReading, sat_ok]
    have := hsort r (by simp)
    simp only [rowsOf, List.map_cons, List.map_nil, List.flatten_cons, List.flatten_nil, List.append_nil]
    exact eq_sortRows this (List.Perm.refl _)
  all_goals simp only [*, and_self, dite_true, if_true, if_false, dite_false, sat_ok, sat_fail, Bool.false_eq_true]
  case case3 f0 f1 fs e s' h => exact Or.inl (selectStep_fail h (by simp))
  case case4 h1 h2 _ => simp [startReading] at h1
  case case5 f0 f1 fs n s2 a s3 h1 h2 hb hd =>
    have hlen : (f0 :: f1 :: fs).length ≤ n := by
      simpa [List.isEmpty_iff, List.drop_eq_nil_iff] using hd
    rw [List.take_of_length_le hlen, chunks_flatten, kmerge_files _ hsort]
  case case6 h => exact mergePass_fail h
  case case7 f0 f1 fs n s2 a s3 h1 s5 h2 hb hd h3 ih =>
    have ss := selectStep_ok h2 (by simp)
    have c2 := core_eq.mp ss.1
    have sr := startReading_ok h1
    have mp := mergePass_ok h3
    rcases mp.2.2.2 with ⟨e1, _, e3⟩ | ⟨e1, _, _⟩
    · have hsp : s5.spills = List.drop n (f0 :: f1 :: fs) := by rw [e3, sr.1, c2.2.2.2, hs]
      refine sat_congr (ih hsp mp.1 (fun r hr => hsort r (List.mem_of_mem_drop hr))
        (fun r hr => hne r (List.mem_of_mem_drop hr))) ?_
      intro out _ ho
      rw [ho]
      apply sortRows_congr
      have hk : kmerge (List.map List.flatten (List.take n (f0 :: f1 :: fs))) = [] := by
        apply Classical.byContradiction; intro hk; exact chunks_ne_nil _ _ hk e1
      have ht : rowsOf (List.take n (f0 :: f1 :: fs)) = [] := by
        have := kmerge_perm (List.map List.flatten (List.take n (f0 :: f1 :: fs)))
        rw [hk] at this
        exact List.Perm.eq_nil this.symm
      rw [← rowsOf_take_drop n (f0 :: f1 :: fs), ht]; simp
    · cases e1
  case case8 f0 f1 fs n s2 a s3 h1 run s5 h2 hb hd h3 ih =>
    have ss := selectStep_ok h2 (by simp)
    have c2 := core_eq.mp ss.1
    have sr := startReading_ok h1
    have mp := mergePass_ok h3
    have hst : ∀ r ∈ List.take n (f0 :: f1 :: fs), Sorted r.flatten := fun r hr => hsort r (List.mem_of_mem_take hr)
    rcases mp.2.2.2 with ⟨_, e2, _⟩ | ⟨e1, e2, e3⟩
    · cases e2
    · simp only [Option.some.injEq] at e1
      have hsp : s5.spills = List.drop n (f0 :: f1 :: fs) ++ [run] := by rw [e3, sr.1, c2.2.2.2, hs, e1]
      have hrun : run.flatten = sortRows (rowsOf (List.take n (f0 :: f1 :: fs))) := by
        rw [e1, chunks_flatten, kmerge_files _ hst]
      refine sat_congr (ih hsp mp.1 ?_ ?_) ?_
      · intro r hr
        rcases List.mem_append.mp hr with hr | hr
        · exact hsort r (List.mem_of_mem_drop hr)
        · simp at hr; rw [hr, hrun]; exact sorted_sortRows _
      · intro r hr
        rcases List.mem_append.mp hr with hr | hr
        · exact hne r (List.mem_of_mem_drop hr)
        · simp at hr; rw [hr, e1]; exact e2
      · intro out _ ho
        rw [ho]
        apply sortRows_congr
        rw [rowsOf_append, ← rowsOf_take_drop n (f0 :: f1 :: fs)]
        refine List.Perm.trans List.perm_append_comm (List.Perm.append_right _ ?_)
        simp only [rowsOf, List.map_cons, List.map_nil, List.flatten_cons, List.flatten_nil, List.append_nil]
        rw [hrun]; exact sortRows_perm _
  case case9 f0 f1 fs n s2 h hb =>
    exact absurd ((selectStep_ok h (by simp)).2.1 n rfl) hb
  case case10 f0 f1 fs idx s2 h ht =>
    have := (selectStep_ok h (by simp)).2.2 idx rfl
    rw [List.getElem?_eq_none_iff] at ht
    omega
  case case11 f0 f1 fs idx s2 target e s' h2 ht h3 =>
    have ss := selectStep_ok h2 (by simp)
    have c2 := core_eq.mp ss.1
    split
    · rename_i h'; rw [ht] at h'; cases h'
    · rename_i t h'; rw [ht] at h'; cases h'
      simp only [h3, sat_fail]
      exact resplit_fail h3 (by rw [c2.2.2.2, hs]) (ss.2.2 idx rfl) (hne _ (mem_of_getElem? ht))
  case case12 f0 f1 fs idx s2 target run s5 hge h2 ht h3 =>
    split
    · rename_i h'; rw [ht] at h'; cases h'
    · rename_i t h'; rw [ht] at h'; cases h'
      simp only [h3, hge, if_true, sat_fail]; exact Or.inl rfl
  case case13 f0 f1 fs idx s2 target run s5 hge h2 ht h3 ih =>
    have ss := selectStep_ok h2 (by simp)
    have c2 := core_eq.mp ss.1
    split
    · rename_i h'; rw [ht] at h'; cases h'
    · rename_i t h'; rw [ht] at h'; cases h'
      simp only [h3, hge, if_false]
      have rs := resplit_ok h3 (by rw [c2.2.2.2, hs])
      have hfl : run.flatten = target.flatten := by rw [rs.1, halveRun_flatten]
      refine sat_congr (ih rs.2.1 rs.2.2.1 ?_ ?_) ?_
      · intro r hr
        rcases List.mem_or_eq_of_mem_set hr with hr | hr
        · exact hsort r hr
        · rw [hr, hfl]; exact hsort _ (mem_of_getElem? ht)
      · intro r hr
        rcases List.mem_or_eq_of_mem_set hr with hr | hr
        · exact hne r hr
        · rw [hr, rs.1]; exact halveRun_ne_nil _ (hne _ (mem_of_getElem? ht))
      · intro out _ ho
        rw [ho, rowsOf_set _ _ _ _ ht hfl]

theorem sortPhase_spec {cfg : Cfg} {env : Env} {s : St} {X : List Row} (q : Quiet cfg s X) :
    (sortPhase cfg env s).sat (fun out _ => out.flatten = sortRows X) (EOk env) := by
  cases hres : sortPhase cfg env s with
  | ok out t =>
    simp only [sat_ok]
    unfold sortPhase at hres
    inv at hres
    split at hres
    · rename_i hsp
      inv at hres
      obtain ⟨_, s1, h1, _, s2, h2, h3⟩ := hres
      -- state after the optional final spill
      have key : Quiet cfg s1 X ∧ s1.inMem = [] := by
        split at h1
        · rename_i hin
          simp only [Bool.not_eq_true', List.isEmpty_eq_false_iff] at hin
          have ss := sortAndSpill_ok h1 q.main_eq (flatten_ne_nil_of hin q.rows) q.inProg
          obtain ⟨i1, i2, i3, run, r1, r2, r3⟩ := ss
          refine ⟨⟨by rw [i1, i2]; simp [szSum], i3, ?_, ?_, by rw [i1]; simp, ?_⟩, i1⟩
          · rw [r3]; intro r hr
            rcases List.mem_append.mp hr with hr | hr
            · exact q.sorted r hr
            · simp at hr; rw [hr, r2]; exact sorted_sortRows _
          · rw [r3]; intro r hr
            rcases List.mem_append.mp hr with hr | hr
            · exact q.nonempty r hr
            · simp at hr; rw [hr]; exact r1
          · rw [i1, r3]
            simp only [List.flatten_nil, List.nil_append, List.map_append, List.map_cons, List.map_nil,
              List.flatten_append, List.flatten_cons, List.append_nil, r2]
            refine List.Perm.trans ?_ q.perm
            refine List.Perm.trans List.perm_append_comm (List.Perm.append_right _ (sortRows_perm _))
        · rename_i hin
          simp only [Bool.not_eq_true', Bool.not_eq_false, List.isEmpty_iff] at hin
          inv at h1; obtain ⟨_, rfl⟩ := h1
          exact ⟨q, hin⟩
      obtain ⟨q1, hin⟩ := key
      have m := move_ok (a := .merge) (b := .mlocal) (by decide) h2
      have := mergeLoop_spec cfg env s1.spills s2 m.2.2.2.2.2.2 (by rw [m.2.2.2.2.2.1]; exact q1.inProg) q1.sorted q1.nonempty
      rw [h3] at this
      simp only [sat_ok] at this
      rw [this]
      apply sortRows_congr
      have hp := q1.perm
      rw [hin] at hp
      simpa [rowsOf] using hp
    · rename_i hsp
      simp only [Bool.not_eq_true', Bool.not_eq_false, List.isEmpty_iff] at hsp
      inv at hres
      obtain ⟨_, s1, h1, h2⟩ := hres
      have f1 := core_eq.mp (free_core (by decide) h1)
      have i2 := inMemSortStream_ok h2 (by rw [f1.1, f1.2.1]; exact q.main_eq)
      rw [i2.1, f1.2.1]
      apply sortRows_congr
      have hp := q.perm
      rw [hsp] at hp
      simpa using hp
  | fail e t =>
    simp only [sat_fail]
    unfold sortPhase at hres
    inv at hres
    split at hres
    · inv at hres
      rcases hres with h | ⟨_, s1, h1, h⟩
      · split at h
        · rename_i hin
          simp only [Bool.not_eq_true', List.isEmpty_eq_false_iff] at hin
          exact sortAndSpill_fail h q.main_eq (flatten_ne_nil_of hin q.rows) q.inProg
        · inv at h
      · have key : s1.inProg = none ∧ (∀ r ∈ s1.spills, Sorted r.flatten) ∧ (∀ r ∈ s1.spills, r ≠ []) := by
          split at h1
          · rename_i hin
            simp only [Bool.not_eq_true', List.isEmpty_eq_false_iff] at hin
            have ss := sortAndSpill_ok h1 q.main_eq (flatten_ne_nil_of hin q.rows) q.inProg
            obtain ⟨i1, i2, i3, run, r1, r2, r3⟩ := ss
            refine ⟨i3, ?_, ?_⟩
            · rw [r3]; intro r hr
              rcases List.mem_append.mp hr with hr | hr
              · exact q.sorted r hr
              · simp at hr; rw [hr, r2]; exact sorted_sortRows _
            · rw [r3]; intro r hr
              rcases List.mem_append.mp hr with hr | hr
              · exact q.nonempty r hr
              · simp at hr; rw [hr]; exact r1
          · inv at h1; obtain ⟨_, rfl⟩ := h1
            exact ⟨q.inProg, q.sorted, q.nonempty⟩
        rcases h with h | ⟨_, s2, h2, h3⟩
        · exact absurd (move_fail h) (by simp [St.get])
        · have m := move_ok (a := .merge) (b := .mlocal) (by decide) h2
          have := mergeLoop_spec cfg env s1.spills s2 m.2.2.2.2.2.2 (by rw [m.2.2.2.2.2.1]; exact key.1) key.2.1 key.2.2
          rw [h3] at this
          exact this
    · inv at hres
      obtain ⟨_, s1, h1, h2⟩ := hres
      have f1 := core_eq.mp (free_core (by decide) h1)
      exact Or.inl (inMemSortStream_fail h2 (by rw [f1.1, f1.2.1]; exact q.main_eq))

theorem quiet_init (cfg : Cfg) : Quiet cfg {} [] := by
  refine ⟨by simp [szSum], rfl, by simp, by simp, by simp, by simp⟩

/-- the whole operator: sorted input, or an acceptable failure -/
theorem extSort_spec (cfg : Cfg) (env : Env) (input : List Batch) :
    (extSort cfg env input {}).sat (fun out _ => out.flatten = sortRows input.flatten) (EOk env) := by
  cases hres : extSort cfg env input {} with
  | ok out t =>
    simp only [sat_ok]
    unfold extSort at hres
    inv at hres
    obtain ⟨_, s1, h1, _, s2, h2, h3⟩ := hres
    have q1 := insertAll_ok h1 (quiet_init cfg)
    have := sortPhase_spec (env := env) (q1.of_core (await_ok h2))
    rw [h3] at this
    simpa using this
  | fail e t =>
    simp only [sat_fail]
    unfold extSort at hres
    inv at hres
    rcases hres with h | ⟨_, s1, h1, h⟩
    · exact insertAll_fail h (quiet_init cfg)
    · have q1 := insertAll_ok h1 (quiet_init cfg)
      rcases h with h | ⟨_, s2, h2, h3⟩
      · exact await_fail h
      · have := sortPhase_spec (env := env) (q1.of_core (await_ok h2))
        rw [h3] at this
        exact this

end DfModel.Proofs.C18
