/-
  C05 — partitioned mode: joining hash partitions independently and concatenating is the join.
  Core Lean only.
-/
import DfModel.Proofs.C05d
namespace DfModel.Proofs.C05
open DfModel.Mech.Join DfModel.Mech.HashJoin
open List

theorem flatMap_range_single {β : Type} (ys : List β) (a : Nat) : ∀ (n : Nat), a < n →
    (List.range n).flatMap (fun k => if a == k then ys else []) = ys := by
  intro n
  induction n with
  | zero => intro h; omega
  | succ n ih =>
    intro h
    rw [range_succ, flatMap_append, flatMap_singleton]
    by_cases han : a = n
    · subst han
      have : (List.range a).flatMap (fun k => if a == k then ys else []) = [] := by
        rw [flatMap_eq_nil_iff]
        intro k hk
        have : k < a := mem_range.mp hk
        have hne : (a == k) = false := by simp; omega
        simp [hne]
      rw [this]; simp
    · have hne : (a == n) = false := by simp [han]
      rw [ih (by omega)]
      simp [hne]

theorem flatMap_range_none {β : Type} (ys : List β) (a : Nat) (n : Nat) (h : n ≤ a) :
    (List.range n).flatMap (fun k => if a == k then ys else []) = [] := by
  rw [flatMap_eq_nil_iff]
  intro k hk
  have : k < n := mem_range.mp hk
  have hne : (a == k) = false := by simp; omega
  simp [hne]

/-- splitting a list by a bounded key and concatenating the parts is a permutation -/
theorem partition_flatMap_perm {α β : Type} (g : α → Nat) (n : Nat) (f : α → List β) :
    ∀ (xs : List α), (∀ x ∈ xs, g x < n) →
    (List.range n).flatMap (fun k => (xs.filter fun x => g x == k).flatMap f) ~ xs.flatMap f := by
  intro xs
  induction xs with
  | nil => intro _; simp [flatMap_nil']
  | cons x xs ih =>
    intro h
    have hx := h x (by simp)
    have heq : (fun k => ((x :: xs).filter fun y => g y == k).flatMap f) =
        (fun k => (if g x == k then f x else []) ++ (xs.filter fun y => g y == k).flatMap f) := by
      funext k
      by_cases hk : (g x == k) = true <;> simp [filter_cons, hk]
    rw [heq, flatMap_cons]
    refine (flatMap_append_perm' _ _ _).trans ?_
    rw [flatMap_range_single (f x) (g x) n hx]
    exact Perm.append_left _ (ih (fun y hy => h y (by simp [hy])))

theorem matches_same_key (c : Cfg) (l r : Row) (h : c.matches l r = true) : c.kl l = c.kr r := by
  simp only [Cfg.matches, Bool.and_eq_true] at h
  exact keysEq_eq h.1

/-- a probe row sees the same matches in its own build partition as in the whole build side -/
theorem rowSpec_partition (c : Cfg) (part : List Val → Nat) (L : List Row) (r : Row) :
    rowSpec c (L.filter fun l => part (c.kl l) == part (c.kr r)) r = rowSpec c L r := by
  have hf : ((L.filter fun l => part (c.kl l) == part (c.kr r)).filter fun l => c.matches l r) =
      L.filter fun l => c.matches l r := by
    apply filter_filter_of_imp'
    intro l _ hm
    rw [matches_same_key c l r hm]; simp
  have ha : (L.filter fun l => part (c.kl l) == part (c.kr r)).any (c.matches · r) = L.any (c.matches · r) := by
    rw [Bool.eq_iff_iff, any_eq_true, any_eq_true]
    constructor
    · rintro ⟨l, hl, hm⟩; exact ⟨l, (mem_filter.mp hl).1, hm⟩
    · rintro ⟨l, hl, hm⟩
      exact ⟨l, mem_filter.mpr ⟨hl, by rw [matches_same_key c l r hm]; simp⟩, hm⟩
  cases hjt : c.jt <;> simp only [rowSpec, hjt, hf, ha]
where
  filter_filter_of_imp' {α : Type} {R : List α} {f p : α → Bool}
      (h : ∀ r ∈ R, p r = true → f r = true) : (R.filter f).filter p = R.filter p := by
    rw [filter_filter]
    apply filter_congr
    intro r hr
    cases hp : p r
    · simp
    · simp [h r hr hp]

/-- a build row sees the same matches in its own probe partition as in the whole probe side -/
theorem any_partition (c : Cfg) (part : List Val → Nat) (R : List Row) (l : Row) :
    (R.filter fun r => part (c.kr r) == part (c.kl l)).any (c.matches l) = R.any (c.matches l) := by
  rw [Bool.eq_iff_iff, any_eq_true, any_eq_true]
  constructor
  · rintro ⟨r, hr, hm⟩; exact ⟨r, (mem_filter.mp hr).1, hm⟩
  · rintro ⟨r, hr, hm⟩
    exact ⟨r, mem_filter.mpr ⟨hr, by rw [matches_same_key c l r hm]; simp⟩, hm⟩

/-- `leftFinal` as a per-build-row contribution -/
def leftRow (c : Cfg) (R : List Row) (l : Row) : List Row :=
  match c.jt with
  | .left | .full => if R.any (c.matches l) then [] else [l ++ nulls c.wr]
  | .leftSemi => if R.any (c.matches l) then [l] else []
  | .leftAnti => if R.any (c.matches l) then [] else [l]
  | .leftMark => [l ++ [markVal (R.any (c.matches l))]]
  | _ => []

theorem leftFinal_eq_flatMap (c : Cfg) (L R : List Row) : leftFinal c L R = L.flatMap (leftRow c R) := by
  have e1 : ∀ (p : Row → Bool) (g : Row → Row), (L.filter p).map g = L.flatMap fun l => if p l then [g l] else [] :=
    fun p g => filter_map_eq_flatMap L p g
  cases hjt : c.jt <;> simp only [leftFinal, hjt]
  case left =>
    rw [e1]; congr 1; funext l; simp only [leftRow, hjt]; cases R.any (c.matches l) <;> simp
  case full =>
    rw [e1]; congr 1; funext l; simp only [leftRow, hjt]; cases R.any (c.matches l) <;> simp
  case leftSemi =>
    have := e1 (fun l => R.any (c.matches l)) id
    simp only [map_id, id] at this
    rw [this]; congr 1; funext l; simp only [leftRow, hjt]
  case leftAnti =>
    have := e1 (fun l => !R.any (c.matches l)) id
    simp only [map_id, id] at this
    rw [this]; congr 1; funext l; simp only [leftRow, hjt]; cases R.any (c.matches l) <;> simp
  case leftMark =>
    rw [map_eq_flatMap]; congr 1; funext l; simp only [leftRow, hjt]
  all_goals (have : (fun l => leftRow c R l) = fun _ => ([] : List Row) := by
               funext l; simp only [leftRow, hjt]
             simp [this, flatMap_nil'])

/-- the spec of a key-partitioned input is the concatenation of the specs of the partitions -/
theorem spec_partition (c : Cfg) (nparts : Nat) (part : List Val → Nat)
    (hpart : ∀ k, part k < nparts) (L R : List Row) :
    (List.range nparts).flatMap (fun k =>
        c.spec (L.filter fun l => part (c.kl l) == k) (R.filter fun r => part (c.kr r) == k))
      ~ c.spec L R := by
  -- decompose each partition's spec, then regroup
  have hk : ∀ k, c.spec (L.filter fun l => part (c.kl l) == k) (R.filter fun r => part (c.kr r) == k) ~
      (R.filter fun r => part (c.kr r) == k).flatMap (rowSpec c L) ++
      (L.filter fun l => part (c.kl l) == k).flatMap (leftRow c R) := by
    intro k
    refine (spec_decomp c _ _).trans ?_
    rw [leftFinal_eq_flatMap]
    refine Perm.of_eq ?_
    congr 1
    · apply flatMap_congr_mem'
      intro r hr
      have hrk : part (c.kr r) = k := by simpa using (mem_filter.mp hr).2
      rw [← hrk]; exact rowSpec_partition c part L r
    · apply flatMap_congr_mem'
      intro l hl
      have hlk : part (c.kl l) = k := by simpa using (mem_filter.mp hl).2
      simp only [leftRow]
      rw [← hlk, any_partition c part R l]
  have h1 : (List.range nparts).flatMap (fun k =>
        c.spec (L.filter fun l => part (c.kl l) == k) (R.filter fun r => part (c.kr r) == k)) ~
      (List.range nparts).flatMap (fun k =>
        (R.filter fun r => part (c.kr r) == k).flatMap (rowSpec c L) ++
        (L.filter fun l => part (c.kl l) == k).flatMap (leftRow c R)) := by
    generalize List.range nparts = ks
    induction ks with
    | nil => simp
    | cons k ks ih => simp only [flatMap_cons]; exact (hk k).append ih
  refine h1.trans ((flatMap_append_perm' _ _ _).trans ?_)
  refine Perm.trans ?_ (spec_decomp c L R).symm
  rw [leftFinal_eq_flatMap]
  exact (partition_flatMap_perm (fun r => part (c.kr r)) nparts (rowSpec c L) R (fun r _ => hpart _)).append
    (partition_flatMap_perm (fun l => part (c.kl l)) nparts (leftRow c R) L (fun l _ => hpart _))
where
  flatMap_congr_mem' {α β : Type} {xs : List α} {f g : α → List β} (h : ∀ x ∈ xs, f x = g x) :
      xs.flatMap f = xs.flatMap g := by
    induction xs with
    | nil => rfl
    | cons x xs ih =>
      simp only [flatMap_cons]
      rw [h x (by simp), ih (fun y hy => h y (by simp [hy]))]

theorem eligible_filter (mk : MapKind) (c : Cfg) (L : List Row) (p : Row → Bool)
    (he : Eligible mk c L) : Eligible mk c (L.filter p) := by
  cases mk with
  | hash h => exact fun l hl => he l (mem_filter.mp hl).1
  | array =>
    exact ⟨fun l hl => he.1 l (mem_filter.mp hl).1, he.2.1, fun hn l hl => he.2.2 hn l (mem_filter.mp hl).1⟩

/-- **partitioned hash join refines the spec** -/
theorem partitionedHashJoin_perm (mk : MapKind) (c : Cfg) (nparts : Nat) (part : List Val → Nat)
    (hpart : ∀ k, part k < nparts) (L R : List Row) (he : Eligible mk c L)
    (batchesOf : Nat → List Batch)
    (hR : ∀ k, (batchesOf k).flatMap (·.rows) = R.filter fun r => part (c.kr r) == k) :
    partitionedHashJoin mk c nparts part L batchesOf ~ c.spec L R := by
  refine Perm.trans ?_ (spec_partition c nparts part hpart L R)
  unfold partitionedHashJoin
  generalize List.range nparts = ks
  induction ks with
  | nil => simp
  | cons k ks ih =>
    simp only [flatMap_cons]
    refine Perm.append ?_ ih
    have := hashJoin_perm mk c (L.filter fun l => part (c.kl l) == k) (eligible_filter mk c L _ he) (batchesOf k)
    rw [hR k] at this
    exact this

end DfModel.Proofs.C05
