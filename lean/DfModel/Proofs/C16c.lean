/-
  C16 helper lemmas, part C: `remaining_writer_count` = number of live sinks (`Cnt`), preserved by
  every micro-step of both code versions.  Core Lean only.
-/
import DfModel.Proofs.C16b
namespace DfModel.Proofs.C16
open DfModel.Sm.SpillPool

/-- `remaining_writer_count` is exactly the number of live sinks; it never underflows; a non-empty
    open queue implies a live sink -/
structure Cnt (s : St) : Prop where
  count_eq : s.count = cntAlive s.wpc s.nw
  not_bad : s.bad = false
  open_alive : s.open_ ≠ [] → 0 < s.count

theorem cnt_congr (s s' : St) (ho : s'.open_ = s.open_) (hnw : s'.nw = s.nw) (hwpc : s'.wpc = s.wpc)
    (hc : s'.count = s.count) (hb : s'.bad = s.bad) (h : Cnt s) : Cnt s' := by
  obtain ⟨h1, h2, h3⟩ := h
  constructor <;> simp only [ho, hnw, hwpc, hc, hb] <;> assumption

theorem cnt_init (m : Nat) : Cnt (init m) := by
  constructor <;> simp [init, cntAlive, alive]

theorem cnt_stepReader (s : St) (h : Cnt s) : Cnt (stepReader s) :=
  cnt_congr s _ (by simp) (by simp) (by simp) (by simp) (by simp) h

/-- a step that only changes the pc of a live writer `w` to another live pc (and the open queue) -/
theorem cnt_live_step (s s' : St) (w : Nat) (p : WPc) (hw : w < s.nw) (hal : alive (s.wpc w) = true)
    (hp : alive p = true) (hnw : s'.nw = s.nw) (hwpc : s'.wpc = upd s.wpc w p)
    (hc : s'.count = s.count) (hb : s'.bad = s.bad) (h : Cnt s) : Cnt s' := by
  obtain ⟨h1, h2, h3⟩ := h
  have hpos := cntAlive_pos s.wpc s.nw w hw hal
  constructor
  · rw [hc, hnw, hwpc, cntAlive_upd_same _ _ _ _ (by rw [hp, hal])]; exact h1
  · rw [hb]; exact h2
  · intro _; rw [hc, h1]; exact hpos

theorem cnt_stepPush (s : St) (w b sz : Nat) (h : Cnt s) (hw : w < s.nw) (hpc : s.wpc w = .idle) :
    Cnt (stepPush s w b sz) := by
  unfold stepPush
  split
  · exact cnt_live_step s _ w _ hw (by simp [hpc, alive]) (by simp [alive]) rfl rfl rfl rfl h
  · exact cnt_live_step s _ w _ hw (by simp [hpc, alive]) (by simp [alive]) rfl rfl rfl rfl h

theorem cnt_stepCreate (s : St) (w b sz : Nat) (ok : Bool) (h : Cnt s) (hw : w < s.nw)
    (hpc : s.wpc w = .creating b sz) : Cnt (stepCreate s w b sz ok) := by
  unfold stepCreate
  split
  · exact cnt_live_step s _ w (.holding s.nfiles b sz) hw (by simp [hpc, alive]) (by simp [alive])
      (by simp) (by simp) (by simp) (by simp) h
  · exact cnt_live_step s _ w _ hw (by simp [hpc, alive]) (by simp [alive]) rfl rfl rfl rfl h


theorem cnt_stepAppend (fx : Bool) (s : St) (w f b sz : Nat) (aok fok : Bool) (h : Cnt s) (hw : w < s.nw)
    (hpc : s.wpc w = .holding f b sz) : Cnt (stepAppend fx s w f b sz aok fok) := by
  have hal : alive (s.wpc w) = true := by simp [hpc, alive]
  unfold stepAppend
  (repeat' split) <;>
    first
    | (refine cnt_live_step s _ w .idle hw hal ?_ ?_ ?_ ?_ ?_ h <;> simp [alive] <;> done)
    | (refine cnt_live_step s _ w (.returning f) hw hal ?_ ?_ ?_ ?_ ?_ h <;> simp [alive] <;> done)

theorem cnt_stepGiveBack (s : St) (w f : Nat) (h : Cnt s) (hw : w < s.nw)
    (hpc : s.wpc w = .returning f) : Cnt (stepGiveBack s w f) :=
  cnt_live_step s _ w .idle hw (by simp [hpc, alive]) (by simp [alive]) rfl rfl rfl rfl h

theorem cnt_stepClone (s : St) (h : Cnt s) :
    Cnt (stepClone s) := by
  obtain ⟨h1, h2, h3⟩ := h
  unfold stepClone
  constructor
  · simp only [cntAlive, upd_same, alive]
    rw [cntAlive_upd_ge _ _ _ _ (Nat.le_refl _)]
    simp only [↓reduceIte]; omega
  · exact h2
  · intro _; simp only; omega

theorem cnt_stepDrop (s : St) (w : Nat) (h : Cnt s) (hw : w < s.nw) (hpc : s.wpc w = .idle) :
    Cnt (stepDrop s w) := by
  obtain ⟨h1, h2, h3⟩ := h
  have hal : alive (s.wpc w) = true := by simp [hpc, alive]
  have hpos := cntAlive_pos s.wpc s.nw w hw hal
  have hdie := cntAlive_upd_die s.wpc s.nw w .gone hw hal (by simp [alive])
  unfold stepDrop
  split
  · omega
  · split
    · constructor
      · simp only; omega
      · exact h2
      · intro _; simp only; omega
    · split
      · rename_i hop
        constructor
        · simp only [wakePool_count, wakePool_wpc, wakePool_nw]; omega
        · simp only [wakePool_bad]; exact h2
        · simp only [wakePool_open_, hop]; intro hh; exact absurd rfl hh
      · rename_i f fs hop
        have hdie' := cntAlive_upd_die s.wpc s.nw w (.finalizing (f :: fs)) hw hal (by simp [alive])
        constructor
        · simp only; omega
        · exact h2
        · simp only; intro hh; exact absurd rfl hh

theorem cnt_stepFinalize (s : St) (w : Nat) (fs : List Nat) (h : Cnt s) (_hw : w < s.nw)
    (hpc : s.wpc w = .finalizing fs) : Cnt (stepFinalize s w fs) := by
  obtain ⟨h1, h2, h3⟩ := h
  unfold stepFinalize
  split
  · constructor
    · simp only [wakePool_count, wakePool_wpc, wakePool_nw]
      rw [cntAlive_upd_same _ _ _ _ (by simp [hpc, alive])]; exact h1
    · simp only [wakePool_bad]; exact h2
    · simp only [wakePool_open_, wakePool_count]; exact h3
  · constructor
    · simp only [finishFile_count, finishFile_nw]
      rw [cntAlive_upd_same _ _ _ _ (by simp [hpc, alive])]; exact h1
    · simp only [finishFile_bad]; exact h2
    · simp only [finishFile_open_, finishFile_count]; exact h3

theorem cnt_step (fx : Bool) (s : St) (a : Act) (h : Cnt s) : Cnt (step fx s a) := by
  cases a with
  | push w b sz =>
    simp only [step]; split
    · split <;> first | exact cnt_stepPush s w b sz h ‹_› ‹_› | exact h
    · exact h
  | create w ok =>
    simp only [step]; split
    · split <;> first | exact cnt_stepCreate s w _ _ ok h ‹_› ‹_› | exact h
    · exact h
  | append w aok fok =>
    simp only [step]; split
    · split <;> first | exact cnt_stepAppend fx s w _ _ _ aok fok h ‹_› ‹_› | exact h
    · exact h
  | giveBack w =>
    simp only [step]; split
    · split <;> first | exact cnt_stepGiveBack s w _ h ‹_› ‹_› | exact h
    · exact h
  | clone w =>
    simp only [step]; split
    · exact cnt_stepClone s h
    · exact h
  | drop w =>
    simp only [step]; split
    · split <;> first | exact cnt_stepDrop s w h ‹_› ‹_› | exact h
    · exact h
  | finalize w =>
    simp only [step]; split
    · split <;> first | exact cnt_stepFinalize s w _ h ‹_› ‹_› | exact h
    · exact h
  | reader => exact cnt_stepReader s h

end DfModel.Proofs.C16
