/-
  Helper lemmas for C35: `normPlan` is exact for `evalPlan` (every database, every environment).
  Core Lean only.
-/
import DfModel.Proofs.C35Norm
namespace DfModel.Proofs.C35Plan
open DfModel DfModel.Judge DfModel.Proofs.C35Norm

theorem mapM_map' {α β γ ε : Type} (f : β → Except ε γ) (g : α → β) (l : List α) :
    List.mapM f (l.map g) = List.mapM (fun a => f (g a)) l := by
  induction l with
  | nil => rfl
  | cons a l ih => simp only [List.map_cons, List.mapM_cons, ih]

theorem holds_norm (e : Expr) (ρ : Row) (env : Env) : holds (normExpr e) ρ env = holds e ρ env := by
  simp only [holds, evalTri, normExpr_eval]

theorem evalFilter_norm (e : Expr) (env : Env) : ∀ rows, evalFilter (normExpr e) env rows = evalFilter e env rows
  | [] => by simp [evalFilter]
  | r :: rs => by simp only [evalFilter, holds_norm, evalFilter_norm e env rs]

theorem evalExprs_norm (es : List Expr) (ρ : Row) (env : Env) :
    evalExprs (es.map normExpr) ρ env = evalExprs es ρ env := by
  unfold evalExprs
  rw [mapM_map']
  simp only [normExpr_eval]

theorem evalProject_norm (es : List Expr) (env : Env) (rows : List Row) :
    evalProject (es.map normExpr) env rows = evalProject es env rows := by
  unfold evalProject
  simp only [evalExprs_norm]

theorem joinCond_norm (ne : Bool) (on : List (Expr × Expr)) (f : Option Expr) (env : Env) (l r : Row) :
    joinCond ne (on.map (fun ab => (normExpr ab.1, normExpr ab.2))) (f.map normExpr) env l r
      = joinCond ne on f env l r := by
  unfold joinCond
  rw [mapM_map']
  cases f with
  | none => simp only [Option.map, normExpr_eval]
  | some e => simp only [Option.map, normExpr_eval, holds_norm]

theorem evalJoin_norm (jt : JoinType) (ne : Bool) (on : List (Expr × Expr)) (f : Option Expr) (env : Env)
    (wl wr : Nat) (L R : List Row) :
    evalJoin jt ne (on.map (fun ab => (normExpr ab.1, normExpr ab.2))) (f.map normExpr) env wl wr L R
      = evalJoin jt ne on f env wl wr L R := by
  unfold evalJoin
  simp only [joinCond_norm]

theorem evalAgg_norm (a : Agg) (env : Env) (rows : List Row) : evalAgg (normAgg a) env rows = evalAgg a env rows := by
  obtain ⟨fn, d, arg, flt⟩ := a
  unfold evalAgg normAgg
  cases flt with
  | none => simp only [Option.map, normExpr_eval]
  | some e => simp only [Option.map, normExpr_eval, evalFilter_norm]

theorem evalAggregate_norm (ks : List Expr) (as : List Agg) (env : Env) (rows : List Row) :
    evalAggregate (ks.map normExpr) (as.map normAgg) env rows = evalAggregate ks as env rows := by
  unfold evalAggregate
  simp only [evalExprs_norm, mapM_map', evalAgg_norm, List.isEmpty_map]

theorem evalSort_norm (ks : List (Expr × SortOpt)) (env : Env) (rows : List Row) :
    evalSort (ks.map (fun k => (normExpr k.1, k.2))) env rows = evalSort ks env rows := by
  unfold evalSort
  have h1 : List.map (fun x => x.1) (List.map (fun k => (normExpr k.1, k.2)) ks) = (ks.map (fun x => x.1)).map normExpr := by
    simp [List.map_map, Function.comp_def]
  have h2 : List.map (fun x => x.2) (List.map (fun k => (normExpr k.1, k.2)) ks) = ks.map (fun x => x.2) := by
    simp [List.map_map, Function.comp_def]
  simp only [h1, h2, evalExprs_norm]

theorem arity_norm (db : Db) : ∀ p : Plan, (normPlan p).arity db = p.arity db
  | .scan n => rfl
  | .values w rows => rfl
  | .filter e p => by simp only [normPlan, Plan.arity, arity_norm db p]
  | .project es p => by simp only [normPlan, Plan.arity, List.length_map]
  | .join jt ne on f l r => by simp only [normPlan, Plan.arity, arity_norm db l, arity_norm db r]
  | .aggregate ks as p => by simp only [normPlan, Plan.arity, List.length_map]
  | .sort ks p => by simp only [normPlan, Plan.arity, arity_norm db p]
  | .limit s f p => by
    simp only [normPlan]
    unfold mkLimit
    split <;> simp only [Plan.arity, arity_norm db p]
  | .setop k all l r => by simp only [normPlan, Plan.arity, arity_norm db l]
  | .distinct p => by simp only [normPlan, Plan.arity, arity_norm db p]
  | .apply k x i s => by simp only [normPlan, Plan.arity, arity_norm db i]

theorem limit_zero_none (r : Except RtErr (List Row)) : (do pure (limitRows 0 none (← r))) = r := by
  cases r <;> rfl

theorem normPlan_eval (db : Db) : ∀ (p : Plan) (env : Env), evalPlan (normPlan p) db env = evalPlan p db env
  | .scan n, env => rfl
  | .values w rows, env => rfl
  | .filter e p, env => by simp only [normPlan, evalPlan, normPlan_eval db p env, evalFilter_norm]
  | .project es p, env => by simp only [normPlan, evalPlan, normPlan_eval db p env, evalProject_norm]
  | .join jt ne on f l r, env => by
    simp only [normPlan, evalPlan, normPlan_eval db l env, normPlan_eval db r env, arity_norm, evalJoin_norm]
  | .aggregate ks as p, env => by simp only [normPlan, evalPlan, normPlan_eval db p env, evalAggregate_norm]
  | .sort ks p, env => by simp only [normPlan, evalPlan, normPlan_eval db p env, evalSort_norm]
  | .limit s f p, env => by
    simp only [normPlan]
    unfold mkLimit
    split
    · rw [normPlan_eval db p env, evalPlan, limit_zero_none]
    · simp only [evalPlan, normPlan_eval db p env]
  | .setop k all l r, env => by simp only [normPlan, evalPlan, normPlan_eval db l env, normPlan_eval db r env]
  | .distinct p, env => by simp only [normPlan, evalPlan, normPlan_eval db p env]
  | .apply k x i s, env => by
    have hs := fun env' => normPlan_eval db s env'
    cases x with
    | none => simp only [normPlan, Option.map, evalPlan, normPlan_eval db i env, hs]
    | some e => simp only [normPlan, Option.map, evalPlan, normPlan_eval db i env, hs, normExpr_eval]

end DfModel.Proofs.C35Plan
