/-
  C12 — `hashCol` (every kernel) = row-wise logical hash.  Core Lean only.
-/
import DfModel.Proofs.C12
namespace DfModel.Proofs.C12
open DfModel.Mech.RowHash
open List

theorem physValid_of_nullCount_zero (p : Phys) (h : p.physNullCount = 0) (i : Nat) :
    p.physValid i = true := by
  cases p <;> simp only [Phys.physNullCount, Phys.physValid] at h ⊢ <;>
    first | exact isValid_of_nullCount_zero h i | rfl

theorem view_row (H : Hasher) (bufs : List (List Nat)) (w : View) (hw : viewWF bufs w)
    (rehash : Bool) (h : Nat) :
    lhash H .view rehash h (.bytes (viewBytes bufs w)) =
      (if rehash then H.seeded h (viewLeaf bufs (!bufs.isEmpty) w)
       else H.one (viewLeaf bufs (!bufs.isEmpty) w)) := by
  cases w with
  | inline len data =>
    obtain ⟨h1, h2, h3⟩ := hw
    have hl : (data.take len).length = len := by simp [length_take]; omega
    simp only [lhash, viewBytes, viewLeaf, hl, h1, ite_true, padTo12]
    rw [← h2]
  | ref len b off =>
    obtain ⟨h1, h2, h3⟩ := hw
    have hne : bufs.isEmpty = false := by
      cases bufs with
      | nil => simp at h2
      | cons _ _ => rfl
    have hl : (slice (bufs.getD b []) off (off + len)).length = len := by
      simp only [slice, length_take, length_drop]; omega
    have h12 : ¬ len ≤ 12 := by omega
    simp only [lhash, viewBytes, viewLeaf, hl, h12, hne, ite_false, Bool.not_false, Bool.not_true,
      Bool.false_or, decide_false, Bool.false_eq_true]

/-- expansion of runs against a buffer -/
theorem reeFill_spec (rehash : Bool) (vh : Nat → Nat) (skip : Nat → Bool) (g : Nat → LVal)
    (f : Nat → LVal → Nat)
    :
    ∀ (rs : List (Nat × Nat)) (start : Nat) (buf : List Nat),
      (∀ h, ∀ r ∈ rs, f h (g r.2) =
        if skip r.2 then h else (if rehash then combine (vh r.2) h else vh r.2)) →
      buf.length = (reeExpand g rs start).length →
      reeFill rehash vh skip rs start buf = List.zipWith f buf (reeExpand g rs start) := by
  intro rs
  induction rs with
  | nil =>
    intro start buf _ hl
    simp only [reeExpand, length_nil] at hl
    have : buf = [] := by cases buf <;> simp_all
    subst this; simp [reeFill, reeExpand]
  | cons r rs ih =>
    intro start buf hrow' hl
    obtain ⟨e, i⟩ := r
    have hrow : ∀ h, f h (g i) = if skip i then h else (if rehash then combine (vh i) h else vh i) :=
      fun h => hrow' h (e, i) (by simp)
    simp only [reeExpand, length_append, length_replicate] at hl
    simp only [reeFill, reeExpand]
    have hsplit : buf = buf.take (e - start) ++ buf.drop (e - start) := (take_append_drop _ _).symm
    have hlt : (buf.take (e - start)).length = (List.replicate (e - start) (g i)).length := by
      simp [length_take]; omega
    conv => rhs; rw [hsplit]
    rw [zipWith_append hlt]
    congr 1
    · generalize buf.take (e - start) = seg at hlt ⊢
      simp only [length_replicate] at hlt
      generalize e - start = n at hlt ⊢
      induction seg generalizing n with
      | nil => cases skip i <;> simp
      | cons s seg ihs =>
        cases n with
        | zero => simp at hlt
        | succ n =>
          simp only [length_cons, Nat.add_right_cancel_iff] at hlt
          have := ihs n hlt
          simp only [replicate_succ, zipWith_cons_cons, hrow]
          cases hs : skip i
          · simp only [hs, Bool.false_eq_true, ite_false, map_cons] at this ⊢
            rw [this]
          · simp only [hs, ite_true] at this ⊢
            rw [← this]
    · apply ih
      · intro h r hr
        exact hrow' h r (by simp [hr])
      · simp [length_drop]; omega

theorem reeRuns_idx_lt (offset len : Nat) : ∀ (es : List Nat) (k : Nat),
    ∀ r ∈ reeRuns offset len es k, r.2 < k + es.length
  | [], _, r, h => by simp [reeRuns] at h
  | e :: es, k, r, h => by
    simp only [reeRuns] at h
    split at h
    · have := reeRuns_idx_lt offset len es (k + 1) r h
      simp only [length_cons]; omega
    · split at h
      · simp at h; subst h; simp
      · simp only [mem_cons] at h
        rcases h with h | h
        · subst h; simp
        · have := reeRuns_idx_lt offset len es (k + 1) r h
          simp only [length_cons]; omega

theorem getD_map_lhash (H : Hasher) (ty : Ty) (lv : List LVal) (k : Nat) :
    (lv.map (lhash H ty false 0)).getD k 0 = lhash H ty false 0 (lv.getD k .null) := by
  rw [getD_eq_getElem?_getD, getD_eq_getElem?_getD, getElem?_map]
  cases lv[k]? with
  | none => simp [lhash_null]
  | some l => rfl

/-- the value-array lookup shared by the dictionary scatter and the run-end fill -/
theorem nested_row (H : Hasher) (vty : Ty) (values : Phys) (hv : VisibleNulls values) (k : Nat)
    (hk : k < values.len) (rehash : Bool) (h : Nat) (f : Nat → LVal → Nat)
    (hf : ∀ l, f h l = match l with
      | .null => h
      | l => if rehash then combine (lhash H vty false 0 l) h else lhash H vty false 0 l) :
    f h (values.logical.getD k .null) =
      if (decide (values.physNullCount ≠ 0) && !values.physValid k) then h
      else if rehash then combine (lhash H vty false 0 (values.logical.getD k .null)) h
      else lhash H vty false 0 (values.logical.getD k .null) := by
  have hvis := hv k hk
  rw [hf]
  by_cases hpv : values.physValid k = true
  · rw [hpv] at hvis
    simp only [hpv, Bool.not_true, Bool.and_false, Bool.false_eq_true, ite_false]
    cases hl : values.logical.getD k .null <;> simp_all [LVal.isNull]
  · have hpv' : values.physValid k = false := by simpa using hpv
    have hnc : values.physNullCount ≠ 0 := by
      intro h0
      rw [physValid_of_nullCount_zero values h0 k] at hpv'
      cases hpv'
    rw [hpv'] at hvis
    simp only [hpv', hnc, ne_eq, not_false_eq_true, decide_true, Bool.not_false, Bool.and_self, ite_true]
    cases hl : values.logical.getD k .null <;> simp_all [LVal.isNull]

theorem lhash_dict (H : Hasher) (v : Ty) (rehash : Bool) (h : Nat) (l : LVal) :
    lhash H (.dict v) rehash h l = match l with
      | .null => h
      | l => if rehash then combine (lhash H v false 0 l) h else lhash H v false 0 l := by
  cases l <;> simp [lhash]

theorem lhash_ree (H : Hasher) (v : Ty) (rehash : Bool) (h : Nat) (l : LVal) :
    lhash H (.ree v) rehash h l = match l with
      | .null => h
      | l => if rehash then combine (lhash H v false 0 l) h else lhash H v false 0 l := by
  cases l <;> simp [lhash]

/-- **every kernel computes the logical hash row by row** -/
theorem hashCol_spec (H : Hasher) : ∀ (p : Phys) (rehash : Bool) (buf : List Nat),
    WF p → buf.length = p.len →
    hashCol H p rehash buf = List.zipWith (lhash H p.ty rehash) buf p.logical
  | .prim vals v, rehash, buf, _, _ => by
    simp only [hashCol, Phys.ty, Phys.logical]
    exact flatKernel_spec _ v vals buf LVal.int (lhash H .prim rehash)
      (fun h x _ => by simp [lhash]) (fun h => lhash_null H _ _ h)
  | .bytes offsets data v, rehash, buf, _, _ => by
    simp only [hashCol, Phys.ty, Phys.logical]
    exact flatKernel_spec _ v (windows offsets) buf (fun w => LVal.bytes (slice data w.1 w.2))
      (lhash H .bytes rehash) (fun h x _ => by simp [lhash]) (fun h => lhash_null H _ _ h)
  | .view views bufs v, rehash, buf, hwf, _ => by
    simp only [hashCol, Phys.ty, Phys.logical]
    exact flatKernel_spec _ v views buf (fun w => LVal.bytes (viewBytes bufs w))
      (lhash H .view rehash) (fun h x hx => view_row H bufs x (hwf.2 x hx) rehash h)
      (fun h => lhash_null H _ _ h)
  | .dict keys kv values, rehash, buf, hwf, _ => by
    obtain ⟨_, hwv, hvis, hkeys⟩ := hwf
    have ih := hashCol_spec H values false (zeros values.len) hwv (by simp [zeros])
    rw [zipWith_zeros _ _ _ (logical_length values hwv)] at ih
    simp only [hashCol, Phys.ty, Phys.logical]
    rw [ih]
    apply rows_lemma'
    intro h k i hm
    simp only [getD_map_lhash]
    by_cases hkv : kv.isValid i = true
    · have hk := hkeys (k, i) hm hkv
      have := nested_row H values.ty values hvis k hk rehash h (lhash H (.dict values.ty) rehash)
        (lhash_dict H _ rehash h)
      simp only [hkv, Bool.not_true, Bool.false_eq_true, and_false, ite_false, ite_true]
      rw [this]
      by_cases hc : values.physNullCount ≠ 0 ∧ (!values.physValid k) = true
      · simp [hc]
      · have hc' : (decide (values.physNullCount ≠ 0) && !values.physValid k) = false := by
          rw [Bool.eq_false_iff]
          intro hh
          simp only [Bool.and_eq_true, decide_eq_true_eq] at hh
          exact hc hh
        simp [hc, hc']
    · have hkv' : kv.isValid i = false := by simpa using hkv
      have hnc : kv.nullCount ≠ 0 := by
        intro h0
        rw [isValid_of_nullCount_zero h0 i] at hkv'
        cases hkv'
      simp [hkv', hnc, lhash_null]
  | .ree runEnds values offset len, rehash, buf, hwf, hlen => by
    obtain ⟨hwv, hvis, hre, hcov⟩ := hwf
    have ih := hashCol_spec H values false (zeros values.len) hwv (by simp [zeros])
    rw [zipWith_zeros _ _ _ (logical_length values hwv)] at ih
    simp only [hashCol, Phys.ty, Phys.logical]
    split
    · rename_i h0
      simp only [Phys.len] at hlen
      have : buf = [] := by cases buf <;> simp_all
      subst this; simp
    · rename_i h0
      rw [ih]
      -- restrict the skip test to run indices in range, where nulls are visible
      have hidx : ∀ r ∈ reeRuns offset len runEnds 0, r.2 < values.len := by
        intro r hr
        have := reeRuns_idx_lt offset len runEnds 0 r hr
        omega
      apply reeFill_spec rehash _ _ (fun i => values.logical.getD i .null)
        (lhash H (.ree values.ty) rehash)
      · intro h r hr
        simp only [getD_map_lhash]
        rw [nested_row H values.ty values hvis r.2 (hidx r hr) rehash h
          (lhash H (.ree values.ty) rehash) (lhash_ree H _ rehash h)]
      · simp only [Phys.len] at hlen
        rw [hlen, reeExpand_length _ (fun _ => ())]
        exact (hcov h0).symm
  | .list offsets child v, rehash, buf, hwf, _ => by
    obtain ⟨_, hwc⟩ := hwf
    have ih := hashCol_spec H child false (zeros child.len) hwc (by simp [zeros])
    rw [zipWith_zeros _ _ _ (logical_length child hwc)] at ih
    simp only [hashCol, Phys.ty, Phys.logical]
    rw [ih]
    apply rows_lemma'
    intro h w i _
    by_cases hv : v.isValid i = true
    · simp [hv, lhash, slice_map]
    · have hv' : v.isValid i = false := by simpa using hv
      have hnc : v.nullCount ≠ 0 := by
        intro h0
        rw [isValid_of_nullCount_zero h0 i] at hv'
        cases hv'
      simp [hv', hnc, lhash_null]
  | .struct c1 c2 v len, rehash, buf, hwf, _ => by
    obtain ⟨_, hw1, hw2, hl1, hl2⟩ := hwf
    have ih1 := hashCol_spec H c1 false (zeros len) hw1 (by simp [zeros, hl1])
    rw [zipWith_zeros _ _ _ (by rw [logical_length c1 hw1, hl1])] at ih1
    have ih2 := hashCol_spec H c2 true (hashCol H c1 false (zeros len)) hw2
      (by rw [ih1, length_map, logical_length c1 hw1, hl1, hl2])
    simp only [hashCol, Phys.ty, Phys.logical]
    rw [ih2, ih1, zipWith_map_left]
    have : List.zipWith (fun a b => lhash H c2.ty true (lhash H c1.ty false 0 a) b) c1.logical c2.logical
        = (List.zip c1.logical c2.logical).map
            (fun xy => lhash H c2.ty true (lhash H c1.ty false 0 xy.1) xy.2) := by
      rw [zip_eq_zipWith, map_zipWith]
    rw [this]
    apply rows_lemma
    intro h xy i _
    by_cases hv : v.isValid i = true
    · simp [hv, lhash]
    · simp [hv, lhash_null]

end DfModel.Proofs.C12
