/-
  Helper lemmas for C35: the `ScalarValue` message model round-trips.  Core Lean only.
-/
import DfModel.Proofs.C35Wire
namespace DfModel.Proofs.C35Scalar
open DfModel.Wire DfModel.Proofs.C35Wire

theorem encodeLenDelim_nil : encodeLenDelim [] = [0] := by
  unfold encodeLenDelim
  rw [encodeVarint]
  simp

theorem decodeLenDelim_nil : decodeLenDelim [0] = some ([], []) := by
  have := len_delim_roundtrip [] [] (by unfold two64; simp)
  rw [encodeLenDelim_nil] at this
  simpa using this

theorem ptype_arrow_roundtrip (t : PType) : ptypeOfArrowField (arrowTypeField t) = some t := by
  cases t <;> rfl

theorem arrowTypeField_bounds (t : PType) : 1 ≤ arrowTypeField t ∧ arrowTypeField t < 2 ^ 29 := by
  cases t <;> simp [arrowTypeField]

theorem valueField_bounds (t : PType) : 1 ≤ valueField t ∧ valueField t < 2 ^ 29 := by
  cases t <;> simp [valueField]

theorem arrowType_roundtrip (t : PType) : decodeArrowType (encodeArrowType t) = some t := by
  unfold decodeArrowType encodeArrowType
  have hb := arrowTypeField_bounds t
  rw [encodeLenDelim_nil, key_roundtrip _ 2 hb.1 hb.2 (by omega)]
  simp only [decodeLenDelim_nil, ptype_arrow_roundtrip]

theorem encodeKey_length (f wt : Nat) (hf : f < 2 ^ 29) (hw : wt ≤ 5) : (encodeKey f wt).length ≤ 10 := by
  unfold encodeKey
  apply encodeVarint_length_le_ten
  have h29 : (2 : Nat) ^ 29 = 536870912 := by decide
  unfold two64
  omega

theorem encodeArrowType_length (t : PType) : (encodeArrowType t).length < two64 := by
  unfold encodeArrowType
  rw [encodeLenDelim_nil, List.length_append]
  have := encodeKey_length (arrowTypeField t) 2 (arrowTypeField_bounds t).2 (by omega)
  unfold two64
  simp only [List.length_singleton]
  omega

theorem decodeVarint64_exact (n : Nat) (h : n < two64) : decodeVarint64 (encodeVarint n) = some (n, []) := by
  have := varint64_roundtrip n h []
  simpa using this

theorem decodeLenDelim_exact (p : List Nat) (h : p.length < two64) : decodeLenDelim (encodeLenDelim p) = some (p, []) := by
  have := len_delim_roundtrip p [] h
  simpa using this

theorem sint_i8 (v : Int) (lo : -128 ≤ v) (hi : v < 128) : toSigned 8 (toSigned 32 (toU64 v) % 256).toNat = v := by
  unfold toSigned toU64 two64
  simp only [Nat.reducePow, Nat.reduceSub]
  split <;> split <;> omega

theorem sint_i16 (v : Int) (lo : -32768 ≤ v) (hi : v < 32768) : toSigned 16 (toSigned 32 (toU64 v) % 65536).toNat = v := by
  unfold toSigned toU64 two64
  simp only [Nat.reducePow, Nat.reduceSub]
  split <;> split <;> omega

theorem scalar_roundtrip (s : Scalar) (hv : s.valid) : decodeScalar (encodeScalar s) = some s := by
  cases s with
  | null t =>
    unfold decodeScalar encodeScalar
    rw [key_roundtrip 33 2 (by omega) (by decide) (by omega)]
    simp only [decodeLenDelim_exact _ (encodeArrowType_length t), arrowType_roundtrip]
    simp
  | bool b =>
    unfold decodeScalar encodeScalar
    rw [key_roundtrip 1 0 (by omega) (by decide) (by omega)]
    cases b
    · simp [decodeVarint64_exact 0 (by unfold two64; omega)]
    · simp [decodeVarint64_exact 1 (by unfold two64; omega)]
  | sint t v =>
    obtain ⟨w, hw, lo, hi⟩ := hv
    unfold decodeScalar encodeScalar encodeInt
    have hb := valueField_bounds t
    rw [key_roundtrip _ 0 hb.1 hb.2 (by omega)]
    simp only [decodeVarint64_exact _ (toU64_lt v)]
    cases t <;> simp [sintBits] at hw <;> subst hw <;> simp only [valueField] <;> simp
    · exact sint_i8 v (by simpa using lo) (by simpa using hi)
    · exact sint_i16 v (by simpa using lo) (by simpa using hi)
    · exact toSigned_toU64 32 (by simp) v (by simpa using lo) (by simpa using hi)
    · exact toSigned_toU64 64 (by simp) v (by simpa using lo) (by simpa using hi)
  | uint t v =>
    obtain ⟨w, hw, hi⟩ := hv
    unfold decodeScalar encodeScalar
    have hb := valueField_bounds t
    rw [key_roundtrip _ 0 hb.1 hb.2 (by omega)]
    have hlt : v < two64 := by
      unfold two64
      cases t <;> simp [uintBits] at hw <;> subst hw <;> omega
    simp only [decodeVarint64_exact _ hlt]
    cases t <;> simp [uintBits] at hw <;> subst hw <;> simp only [valueField] <;> simp <;> unfold two32 <;> omega
  | str t bs =>
    obtain ⟨ht, hlen⟩ := hv
    unfold decodeScalar encodeScalar
    have hb := valueField_bounds t
    rw [key_roundtrip _ 2 hb.1 hb.2 (by omega)]
    simp only [decodeLenDelim_exact _ hlen]
    rcases ht with rfl | rfl | rfl <;> simp [valueField]

end DfModel.Proofs.C35Scalar
