/- C03 helper lemmas about filters over nested-loop joins. -/
import DfModel.Sql.Join
namespace DfModel.Proofs.C03
open DfModel.Gen.JoinTypeTbl DfModel.Sql.Join

theorem filter_const {α : Type} (p : α → Bool) (b : Bool) (xs : List α) (h : ∀ o ∈ xs, p o = b) :
    xs.filter p = if b then xs else [] := by
  induction xs with
  | nil => cases b <;> rfl
  | cons x xs ih =>
    have hx := h x (List.mem_cons_self)
    have ih' := ih (fun o ho => h o (List.mem_cons_of_mem _ ho))
    cases b <;> simp_all

/-- a filter that is constant (= `q l`) on everything generated from `l` can be moved below `flatMap` -/
theorem filter_flatMap_const {α β : Type} (p : β → Bool) (q : α → Bool) (f : α → List β) (L : List α)
    (h : ∀ l ∈ L, ∀ o ∈ f l, p o = q l) : (L.flatMap f).filter p = (L.filter q).flatMap f := by
  induction L with
  | nil => rfl
  | cons l L ih =>
    have hl := filter_const p (q l) (f l) (h l List.mem_cons_self)
    have ih' := ih (fun l' hl' => h l' (List.mem_cons_of_mem _ hl'))
    simp only [List.flatMap_cons, List.filter_append, hl, ih', List.filter_cons]
    cases q l <;> simp

theorem filter_map_const {α β : Type} (p : β → Bool) (q : α → Bool) (f : α → β) (L : List α)
    (h : ∀ l ∈ L, p (f l) = q l) : (L.map f).filter p = (L.filter q).map f := by
  induction L with
  | nil => rfl
  | cons l L ih =>
    have ih' := ih (fun l' hl' => h l' (List.mem_cons_of_mem _ hl'))
    have hl := h l List.mem_cons_self
    simp only [List.map_cons, List.filter_cons, hl, ih']
    cases q l <;> simp

theorem filter_comm' {α : Type} (p q : α → Bool) (L : List α) : (L.filter p).filter q = (L.filter q).filter p := by
  simp only [List.filter_filter]; congr 1; funext x; exact Bool.and_comm _ _

theorem filter_congr' {α : Type} (p q : α → Bool) (L : List α) (h : ∀ x ∈ L, p x = q x) : L.filter p = L.filter q :=
  List.filter_congr h

theorem flatMap_congr' {α β : Type} (f g : α → List β) (L : List α) (h : ∀ l ∈ L, f l = g l) :
    L.flatMap f = L.flatMap g := by
  induction L with
  | nil => rfl
  | cons l L ih =>
    simp only [List.flatMap_cons, h l List.mem_cons_self, ih (fun l' hl' => h l' (List.mem_cons_of_mem _ hl'))]

theorem length_nulls (n : Nat) : (nulls n).length = n := by simp [nulls]


theorem any_filter' {α : Type} (L : List α) (q c : α → Bool) : (L.filter q).any c = L.any (fun l => c l && q l) := by
  induction L with
  | nil => rfl
  | cons l L ih => cases h : q l <;> simp [h, ih]

theorem any_and_const {α : Type} (R : List α) (c : α → Bool) (b : Bool) : R.any (fun r => c r && b) = (R.any c && b) := by
  induction R with
  | nil => cases b <;> rfl
  | cons r R ih => simp only [List.any_cons, ih]; cases c r <;> cases b <;> simp

theorem filter_and_const {α : Type} (R : List α) (c : α → Bool) (b : Bool) :
    R.filter (fun r => c r && b) = if b then R.filter c else [] := by
  cases b <;> simp

theorem flatMap_filter' {α β : Type} (L : List α) (q : α → Bool) (f : α → List β) :
    (L.filter q).flatMap f = L.flatMap (fun l => if q l then f l else []) := by
  induction L with
  | nil => rfl
  | cons l L ih => cases h : q l <;> simp [h, ih]

theorem innerPart_on_left (on : Row → Row → Bool) (pl : Row → Bool) (L R : Rel) :
    innerPart (fun l r => on l r && pl l) L R = innerPart on (L.filter pl) R := by
  unfold innerPart
  rw [flatMap_filter']
  apply flatMap_congr'
  intro l _
  rw [filter_and_const]
  cases pl l <;> simp

theorem unmatchedRight_on_left (on : Row → Row → Bool) (pl : Row → Bool) (L R : Rel) :
    unmatchedRight (fun l r => on l r && pl l) L R = unmatchedRight on (L.filter pl) R := by
  unfold unmatchedRight
  congr 1; funext r; rw [any_filter']

theorem innerPart_on_right (on : Row → Row → Bool) (pr : Row → Bool) (L R : Rel) :
    innerPart (fun l r => on l r && pr r) L R = innerPart on L (R.filter pr) := by
  unfold innerPart
  apply flatMap_congr'
  intro l _
  rw [List.filter_filter]

theorem leftPart_on_right (wr : Nat) (on : Row → Row → Bool) (pr : Row → Bool) (L R : Rel) :
    leftPart wr (fun l r => on l r && pr r) L R = leftPart wr on L (R.filter pr) := by
  unfold leftPart
  apply flatMap_congr'
  intro l _
  rw [any_filter', List.filter_filter]


end DfModel.Proofs.C03
