/-
  Helper lemmas for C17 (memory pools).  Core Lean only.
  One lemma per primitive transformer about the measured sums (`sumBy`), then the invariant
  preservation of the composite transformers used by `Sm.Pool.step`.
-/
import DfModel.Sm.Pool
namespace DfModel.Proofs.C17
open DfModel.Sm.Pool

/-! ### reservation list primitives -/

theorem findRes_rid {rs : List Res} {r : Nat} {x : Res} (h : findRes rs r = some x) : x.rid = r := by
  induction rs with
  | nil => simp [findRes] at h
  | cons y ys ih =>
    unfold findRes at h
    split at h
    · cases h; assumption
    · exact ih h

theorem findRes_mem {rs : List Res} {r : Nat} {x : Res} (h : findRes rs r = some x) : x ∈ rs := by
  induction rs with
  | nil => simp [findRes] at h
  | cons y ys ih =>
    unfold findRes at h
    split at h
    · cases h; exact List.mem_cons_self
    · exact List.mem_cons_of_mem _ (ih h)

theorem findRes_upd_same {rs : List Res} {r : Nat} {x : Res} (g : Nat → Nat)
    (h : findRes rs r = some x) : findRes (updRes rs r g) r = some { x with size := g x.size } := by
  induction rs with
  | nil => simp [findRes] at h
  | cons y ys ih =>
    unfold findRes at h
    unfold updRes
    split at h
    · rename_i hy
      cases h
      simp [findRes, hy]
    · rename_i hy
      simp only [hy, if_false, findRes]
      exact ih h

/-- primitive "change the size of reservation r": effect on every measured sum -/
theorem sumBy_upd (p : Nat → Bool → Bool) {rs : List Res} {r : Nat} {x : Res} (g : Nat → Nat)
    (h : findRes rs r = some x) :
    sumBy p (updRes rs r g) + (if p x.cid x.spill then x.size else 0)
      = sumBy p rs + (if p x.cid x.spill then g x.size else 0) := by
  induction rs with
  | nil => simp [findRes] at h
  | cons y ys ih =>
    unfold findRes at h
    unfold updRes
    split at h
    · rename_i hy
      cases h
      simp only [hy, if_true, sumBy]
      omega
    · rename_i hy
      have := ih h
      simp only [hy, if_false, sumBy]
      omega

/-- primitive "remove reservation r" -/
theorem sumBy_erase (p : Nat → Bool → Bool) {rs : List Res} {r : Nat} {x : Res}
    (h : findRes rs r = some x) :
    sumBy p (eraseRes rs r) + (if p x.cid x.spill then x.size else 0) = sumBy p rs := by
  induction rs with
  | nil => simp [findRes] at h
  | cons y ys ih =>
    unfold findRes at h
    unfold eraseRes
    split at h
    · rename_i hy
      cases h
      simp only [hy, if_true, sumBy]
      omega
    · rename_i hy
      have := ih h
      simp only [hy, if_false, sumBy]
      omega

/-- primitive "add a reservation" -/
theorem sumBy_append (p : Nat → Bool → Bool) (rs ys : List Res) :
    sumBy p (rs ++ ys) = sumBy p rs + sumBy p ys := by
  induction rs with
  | nil => simp [sumBy]
  | cons y ys' ih => simp only [List.cons_append, sumBy, ih]; omega

theorem sumBy_single (p : Nat → Bool → Bool) (y : Res) :
    sumBy p [y] = if p y.cid y.spill then y.size else 0 := by simp [sumBy]

theorem sumSize_split (rs : List Res) : sumSize rs = sumSpill true rs + sumSpill false rs := by
  unfold sumSize sumSpill
  induction rs with
  | nil => rfl
  | cons y ys ih =>
    simp only [sumBy, ih]
    cases y.spill <;> simp <;> omega

theorem sumBy_le_of_find (p : Nat → Bool → Bool) {rs : List Res} {r : Nat} {x : Res}
    (h : findRes rs r = some x) (hp : p x.cid x.spill = true) : x.size ≤ sumBy p rs := by
  have := sumBy_erase p h
  simp only [hp, if_true] at this
  omega

theorem mem_updRes {rs : List Res} {r : Nat} {g : Nat → Nat} {y : Res} (h : y ∈ updRes rs r g) :
    ∃ x ∈ rs, y.rid = x.rid ∧ y.cid = x.cid ∧ y.spill = x.spill := by
  induction rs with
  | nil => simp [updRes] at h
  | cons z zs ih =>
    unfold updRes at h
    split at h
    · rcases List.mem_cons.mp h with rfl | h'
      · exact ⟨z, List.mem_cons_self, rfl, rfl, rfl⟩
      · exact ⟨y, List.mem_cons_of_mem _ h', rfl, rfl, rfl⟩
    · rcases List.mem_cons.mp h with rfl | h'
      · exact ⟨y, List.mem_cons_self, rfl, rfl, rfl⟩
      · obtain ⟨x, hx, e⟩ := ih h'
        exact ⟨x, List.mem_cons_of_mem _ hx, e⟩

theorem mem_updRes_rev {rs : List Res} {r : Nat} {g : Nat → Nat} {x : Res} (h : x ∈ rs) :
    ∃ y ∈ updRes rs r g, y.rid = x.rid ∧ y.cid = x.cid ∧ y.spill = x.spill := by
  induction rs with
  | nil => simp at h
  | cons z zs ih =>
    unfold updRes
    split
    · rcases List.mem_cons.mp h with rfl | h'
      · exact ⟨_, List.mem_cons_self, rfl, rfl, rfl⟩
      · exact ⟨x, List.mem_cons_of_mem _ h', rfl, rfl, rfl⟩
    · rcases List.mem_cons.mp h with rfl | h'
      · exact ⟨x, List.mem_cons_self, rfl, rfl, rfl⟩
      · obtain ⟨y, hy, e⟩ := ih h'
        exact ⟨y, List.mem_cons_of_mem _ hy, e⟩

theorem mem_eraseRes {rs : List Res} {r : Nat} {y : Res} (h : y ∈ eraseRes rs r) : y ∈ rs := by
  induction rs with
  | nil => simp [eraseRes] at h
  | cons z zs ih =>
    unfold eraseRes at h
    split at h
    · exact List.mem_cons_of_mem _ h
    · rcases List.mem_cons.mp h with rfl | h'
      · exact List.mem_cons_self
      · exact List.mem_cons_of_mem _ (ih h')

theorem rids_updRes (rs : List Res) (r : Nat) (g : Nat → Nat) :
    (updRes rs r g).map (·.rid) = rs.map (·.rid) := by
  induction rs with
  | nil => rfl
  | cons z zs ih =>
    unfold updRes
    split
    · simp
    · simp [ih]

theorem rids_eraseRes_sublist (rs : List Res) (r : Nat) :
    ((eraseRes rs r).map (·.rid)).Sublist (rs.map (·.rid)) := by
  induction rs with
  | nil => simp [eraseRes]
  | cons z zs ih =>
    unfold eraseRes
    split
    · simp
    · simp only [List.map_cons]
      exact List.Sublist.cons_cons _ ih

theorem hasCid_iff (rs : List Res) (c : Nat) : hasCid rs c = true ↔ ∃ x ∈ rs, x.cid = c := by
  simp [hasCid]

/-! ### ledger primitives: `LedgerIs k l sp un` = the inner pool's counters account for `sp`
    spillable and `un` unspillable bytes -/

def LedgerIs (k : Kind) (l : Ledger) (sp un : Nat) : Prop :=
  match k with
  | .fair _ => l.spillable = sp ∧ l.unspillable = un
  | _ => l.used = sp + un

theorem ledgerIs_reserved {k : Kind} {l : Ledger} {sp un : Nat} (h : LedgerIs k l sp un) :
    l.reserved k = sp + un := by
  cases k <;> simp_all [LedgerIs, Ledger.reserved]

/-- primitive "add to the pool ledger" -/
theorem ledgerIs_add {k : Kind} {l : Ledger} {sp un : Nat} (b : Bool) (n : Nat)
    (h : LedgerIs k l sp un) :
    LedgerIs k (ledAdd k b n l) (sp + if (b == true) = true then n else 0)
      (un + if (b == false) = true then n else 0) := by
  cases k <;> cases b <;> simp_all [LedgerIs, ledAdd] <;> omega

/-- primitive "subtract from the pool ledger": exact, and no underflow, when the bytes are there -/
theorem ledgerIs_sub {k : Kind} {l : Ledger} {sp un : Nat} (b : Bool) (n : Nat)
    (h : LedgerIs k l sp un) (hle : n ≤ if b then sp else un) :
    LedgerIs k (ledSub k b n l) (sp - if (b == true) = true then n else 0)
      (un - if (b == false) = true then n else 0)
      ∧ ledUnder k b n l = false := by
  cases k <;> cases b <;> simp_all [LedgerIs, ledSub, ledUnder] <;> omega

/-- a granted `try_grow` adds exactly `n` -/
theorem ledgerIs_tryAdd {k : Kind} {l l' : Ledger} {sp un : Nat} (b : Bool) (rsize n : Nat)
    (h : LedgerIs k l sp un) (hg : ledTryAdd k b rsize n l = some l') :
    LedgerIs k l' (sp + if (b == true) = true then n else 0)
      (un + if (b == false) = true then n else 0) ∧ l'.numSpill = l.numSpill := by
  cases k with
  | unbounded =>
    simp only [ledTryAdd, Option.some.injEq] at hg
    subst hg
    cases b <;> simp_all [LedgerIs] <;> omega
  | greedy lim =>
    simp only [ledTryAdd] at hg
    split at hg
    · simp only [Option.some.injEq] at hg
      subst hg
      cases b <;> simp_all [LedgerIs] <;> omega
    · cases hg
  | fair lim =>
    simp only [ledTryAdd] at hg
    cases b
    · simp only [Bool.false_eq_true, if_false] at hg
      split at hg
      · cases hg
      · simp only [Option.some.injEq] at hg
        subst hg
        simp_all [LedgerIs]
    · simp only [if_true] at hg
      split at hg
      · cases hg
      · simp only [Option.some.injEq] at hg
        subst hg
        simp_all [LedgerIs]

/-! ### sums under the three size updates used by the code -/

theorem sum_add (p : Nat → Bool → Bool) {rs : List Res} {r : Nat} {x : Res} (n : Nat)
    (h : findRes rs r = some x) :
    sumBy p (updRes rs r (· + n)) = sumBy p rs + (if p x.cid x.spill then n else 0) := by
  have := sumBy_upd p (· + n) h
  split at this <;> simp_all <;> omega

theorem sum_sub (p : Nat → Bool → Bool) {rs : List Res} {r : Nat} {x : Res} (n : Nat)
    (h : findRes rs r = some x) (hn : n ≤ x.size) :
    sumBy p (updRes rs r (· - n)) + (if p x.cid x.spill then n else 0) = sumBy p rs := by
  have := sumBy_upd p (· - n) h
  split at this <;> simp_all <;> omega

theorem sum_zero (p : Nat → Bool → Bool) {rs : List Res} {r : Nat} {x : Res}
    (h : findRes rs r = some x) :
    sumBy p (updRes rs r (fun _ => 0)) + (if p x.cid x.spill then x.size else 0) = sumBy p rs := by
  have := sumBy_upd p (fun _ => 0) h
  split at this <;> simp_all

/-! ### wrapper primitives -/

def PeakOk (p : Peak) (total : Nat) : Prop := p.reserved = total ∧ p.reserved ≤ p.peak ∧ p.peak ≤ p.max

theorem peakOk_add {p : Peak} {t : Nat} (n : Nat) (h : PeakOk p t) : PeakOk (peakAdd p n) (t + n) := by
  obtain ⟨h1, h2, h3⟩ := h
  refine ⟨by simp [peakAdd, h1], ?_, ?_⟩ <;> simp only [peakAdd] <;> omega

theorem peakOk_sub {p : Peak} {t : Nat} (n : Nat) (h : PeakOk p t) (hn : n ≤ t) :
    PeakOk (peakSub p n) (t - n) ∧ decide (p.reserved < n) = false := by
  obtain ⟨h1, h2, h3⟩ := h
  refine ⟨⟨by simp [peakSub, h1], ?_, ?_⟩, ?_⟩
  · simp only [peakSub]; omega
  · simp only [peakSub]; omega
  · simp; omega

def ConsOk (cs : List Cons) (rs : List Res) : Prop :=
  ∀ c ∈ cs, c.reserved = sumCid c.cid rs ∧ c.reserved ≤ c.peak

theorem consOk_add {cs : List Cons} {rs rs' : List Res} (c n : Nat) (h : ConsOk cs rs)
    (hs : ∀ d, sumCid d rs' = sumCid d rs + if (c == d) = true then n else 0) :
    ConsOk (trackAdd cs c n) rs' := by
  intro y hy
  simp only [trackAdd, List.mem_map] at hy
  obtain ⟨z, hz, rfl⟩ := hy
  obtain ⟨h1, h2⟩ := h z hz
  have := hs z.cid
  by_cases hc : z.cid = c
  · rw [if_pos hc]
    have e : (c == z.cid) = true := by simp [hc]
    rw [if_pos e] at this
    simp only
    omega
  · rw [if_neg hc]
    have e : ¬ (c == z.cid) = true := by simp; exact fun e => hc e.symm
    rw [if_neg e] at this
    omega

theorem consOk_sub {cs : List Cons} {rs rs' : List Res} (c n : Nat) (h : ConsOk cs rs)
    (hs : ∀ d, sumCid d rs' + (if (c == d) = true then n else 0) = sumCid d rs) :
    ConsOk (trackSub cs c n) rs' ∧ trackUnder cs c n = false := by
  constructor
  · intro y hy
    simp only [trackSub, List.mem_map] at hy
    obtain ⟨z, hz, rfl⟩ := hy
    obtain ⟨h1, h2⟩ := h z hz
    have := hs z.cid
    by_cases hc : z.cid = c
    · rw [if_pos hc]
      have e : (c == z.cid) = true := by simp [hc]
      rw [if_pos e] at this
      simp only
      omega
    · rw [if_neg hc]
      have e : ¬ (c == z.cid) = true := by simp; exact fun e => hc e.symm
      rw [if_neg e] at this
      omega
  · simp only [trackUnder, List.any_eq_false]
    intro z hz
    obtain ⟨h1, _⟩ := h z hz
    have := hs z.cid
    by_cases hc : z.cid = c
    · have e : (c == z.cid) = true := by simp [hc]
      rw [if_pos e] at this
      simp [hc]; omega
    · simp [hc]

theorem consOk_same {cs : List Cons} {rs rs' : List Res} (h : ConsOk cs rs)
    (hs : ∀ d, sumCid d rs' = sumCid d rs) : ConsOk cs rs' := by
  intro y hy
  obtain ⟨h1, h2⟩ := h y hy
  exact ⟨by rw [hs]; exact h1, h2⟩

/-! ### the accounting invariant (sums) -/

structure Core (k : Kind) (s : St) : Prop where
  led : LedgerIs k s.led (sumSpill true s.res) (sumSpill false s.res)
  pk : PeakOk s.pk (sumSize s.res)
  cons : ConsOk s.cons s.res
  bad : s.bad = false

theorem core_init (k : Kind) : Core k init := by
  refine ⟨?_, ?_, ?_, rfl⟩
  · cases k <;> simp [LedgerIs, init, sumSpill, sumBy]
  · simp [PeakOk, init, sumSize, sumBy]
  · intro c hc; simp [init] at hc

theorem core_doGrow {k : Kind} {s : St} {r : Nat} {x : Res} (n : Nat) (h : Core k s)
    (hf : findRes s.res r = some x) : Core k (doGrow k s x n) := by
  have hr := findRes_rid hf
  subst hr
  refine ⟨?_, ?_, ?_, h.bad⟩
  · simp only [doGrow, resAdd, poolGrow, sumSpill]
    rw [sum_add _ n hf, sum_add _ n hf]
    exact ledgerIs_add x.spill n h.led
  · simp only [doGrow, resAdd, poolGrow, sumSize]
    rw [sum_add _ n hf]
    exact peakOk_add n h.pk
  · simp only [doGrow, resAdd, poolGrow]
    exact consOk_add x.cid n h.cons (fun d => by simp only [sumCid]; rw [sum_add _ n hf])

theorem core_doTryGrow {k : Kind} {s s' : St} {r : Nat} {x : Res} (n : Nat) (h : Core k s)
    (hf : findRes s.res r = some x) (hg : doTryGrow k s x n = some s') : Core k s' := by
  have hr := findRes_rid hf
  subst hr
  simp only [doTryGrow, poolTryGrow] at hg
  split at hg
  · cases hg
  · rename_i s1 hs1
    split at hs1
    · cases hs1
    · rename_i l' hl'
      simp only [Option.some.injEq] at hs1 hg
      subst hs1
      subst hg
      refine ⟨?_, ?_, ?_, h.bad⟩
      · simp only [resAdd, sumSpill]
        rw [sum_add _ n hf, sum_add _ n hf]
        exact (ledgerIs_tryAdd x.spill x.size n h.led hl').1
      · simp only [resAdd, sumSize]
        rw [sum_add _ n hf]
        exact peakOk_add n h.pk
      · simp only [resAdd]
        exact consOk_add x.cid n h.cons (fun d => by simp only [sumCid]; rw [sum_add _ n hf])

/-- the pool-side `shrink` of the three layers, after `size` went from the old list `rs` to `rs'`
    by exactly `n` bytes of reservation `x` -/
theorem core_poolShrink {k : Kind} {s : St} {x : Res} (n : Nat) (rs' : List Res) (h : Core k s)
    (hs : ∀ p : Nat → Bool → Bool, sumBy p rs' + (if p x.cid x.spill then n else 0) = sumBy p s.res) :
    Core k (poolShrink k { s with res := rs' } x n) := by
  have hsp := hs (fun _ sp => sp == true)
  have hun := hs (fun _ sp => sp == false)
  have hall := hs (fun _ _ => true)
  have hle : n ≤ if x.spill then sumSpill true s.res else sumSpill false s.res := by
    unfold sumSpill
    cases hx : x.spill <;> simp_all <;> omega
  obtain ⟨hl, hu⟩ := ledgerIs_sub x.spill n h.led hle
  have hpk := peakOk_sub n h.pk (by unfold sumSize; simp at hall; omega)
  have hc := consOk_sub (rs' := rs') x.cid n h.cons (fun d => by
    have := hs (fun cid _ => cid == d)
    simpa [sumCid] using this)
  refine ⟨?_, ?_, hc.1, ?_⟩
  · simp only [poolShrink, sumSpill]
    have e1 : sumBy (fun _ sp => sp == true) rs' = sumSpill true s.res - if (x.spill == true) = true then n else 0 := by
      unfold sumSpill; omega
    have e2 : sumBy (fun _ sp => sp == false) rs' = sumSpill false s.res - if (x.spill == false) = true then n else 0 := by
      unfold sumSpill; omega
    rw [e1, e2]
    exact hl
  · simp only [poolShrink, sumSize]
    have e : sumBy (fun _ _ => true) rs' = sumSize s.res - n := by
      unfold sumSize; simp at hall; omega
    rw [e]
    exact hpk.1
  · simp only [poolShrink, h.bad, hu, hpk.2, hc.2, Bool.or_self]

theorem core_doShrink {k : Kind} {s : St} {r : Nat} {x : Res} (n : Nat) (h : Core k s)
    (hf : findRes s.res r = some x) (hn : n ≤ x.size) : Core k (doShrink k s x n) := by
  have hr := findRes_rid hf
  subst hr
  exact core_poolShrink n _ h (fun p => sum_sub p n hf hn)

theorem core_resZero_of_zero {k : Kind} {s : St} {r : Nat} {x : Res} (h : Core k s)
    (hf : findRes s.res r = some x) (hz : x.size = 0) : Core k (resZero s r) := by
  have hs : ∀ p : Nat → Bool → Bool, sumBy p (updRes s.res r (fun _ => 0)) = sumBy p s.res := by
    intro p
    have := sum_zero p hf
    simp only [hz] at this
    split at this <;> omega
  refine ⟨?_, ?_, ?_, h.bad⟩
  · simp only [resZero, sumSpill, hs]; exact h.led
  · simp only [resZero, sumSize, hs]; exact h.pk
  · exact consOk_same h.cons (fun d => by simp only [resZero, sumCid, hs])

theorem core_doFree {k : Kind} {s : St} {r : Nat} {x : Res} (h : Core k s)
    (hf : findRes s.res r = some x) : Core k (doFree k s x) := by
  have hr := findRes_rid hf
  subst hr
  unfold doFree
  split
  · exact core_poolShrink x.size _ h (fun p => sum_zero p hf)
  · rename_i hz
    exact core_resZero_of_zero h hf (by omega)

/-- moving `n` bytes out of reservation `r` into a new reservation of the same consumer
    (`split`, `take`; `new_empty` is the case without the subtraction) changes no sum -/
theorem core_split {k : Kind} {s : St} {r : Nat} {x : Res} (n : Nat) (h : Core k s)
    (hf : findRes s.res r = some x) (hn : n ≤ x.size) : Core k (resPush (resSub s r n) x n) := by
  have hs : ∀ p : Nat → Bool → Bool,
      sumBy p (updRes s.res r (· - n) ++ [{ rid := s.nextRid, cid := x.cid, size := n, spill := x.spill }])
        = sumBy p s.res := by
    intro p
    rw [sumBy_append, sumBy_single]
    have := sum_sub p n hf hn
    simpa using this
  refine ⟨?_, ?_, ?_, h.bad⟩
  · simp only [resPush, resSub, sumSpill, hs]; exact h.led
  · simp only [resPush, resSub, sumSize, hs]; exact h.pk
  · exact consOk_same h.cons (fun d => by simp only [resPush, resSub, sumCid, hs])

theorem core_newEmpty {k : Kind} {s : St} {x : Res} (h : Core k s) : Core k (resPush s x 0) := by
  have hs : ∀ p : Nat → Bool → Bool,
      sumBy p (s.res ++ [{ rid := s.nextRid, cid := x.cid, size := 0, spill := x.spill }]) = sumBy p s.res := by
    intro p
    rw [sumBy_append, sumBy_single]
    simp
  refine ⟨?_, ?_, ?_, h.bad⟩
  · simp only [resPush, sumSpill, hs]; exact h.led
  · simp only [resPush, sumSize, hs]; exact h.pk
  · exact consOk_same h.cons (fun d => by simp only [resPush, sumCid, hs])

/-! ### the registration invariant (identities, who is registered) -/

def countSpill (k : Kind) (cs : List Cons) : Nat :=
  match k with
  | .fair _ => (cs.filter (·.spill)).length
  | _ => 0

structure Reg (k : Kind) (s : St) : Prop where
  ridLt : ∀ x ∈ s.res, x.rid < s.nextRid
  ridNodup : (s.res.map (·.rid)).Nodup
  cidLt : ∀ c ∈ s.cons, c.cid < s.nextCid
  cidNodup : (s.cons.map (·.cid)).Nodup
  ownerTracked : ∀ x ∈ s.res, ∃ c ∈ s.cons, c.cid = x.cid ∧ c.spill = x.spill
  trackedOwner : ∀ c ∈ s.cons, ∃ x ∈ s.res, x.cid = c.cid
  numSpill : s.led.numSpill = countSpill k s.cons

theorem reg_init (k : Kind) : Reg k init := by
  refine ⟨?_, ?_, ?_, ?_, ?_, ?_, ?_⟩ <;> simp [init]
  cases k <;> simp [countSpill]

theorem countSpill_map (k : Kind) (cs : List Cons) (f : Cons → Cons) (hf : ∀ c, (f c).spill = c.spill) :
    countSpill k (cs.map f) = countSpill k cs := by
  cases k <;> simp only [countSpill]
  induction cs with
  | nil => rfl
  | cons c cs ih =>
    simp only [List.map_cons, List.filter_cons, hf]
    split <;> simp [ih]

/-- an operation that only changes sizes / byte counters keeps the registration invariant -/
theorem reg_sizeOnly {k : Kind} {s s' : St} (r : Nat) (g : Nat → Nat) (f : Cons → Cons) (h : Reg k s)
    (hres : s'.res = updRes s.res r g) (hcons : s'.cons = s.cons.map f)
    (hf : ∀ c, (f c).cid = c.cid ∧ (f c).spill = c.spill)
    (hns : s'.led.numSpill = s.led.numSpill) (hr : s'.nextRid = s.nextRid) (hc : s'.nextCid = s.nextCid) :
    Reg k s' := by
  refine ⟨?_, ?_, ?_, ?_, ?_, ?_, ?_⟩
  · intro y hy
    rw [hres] at hy
    obtain ⟨x, hx, e, _⟩ := mem_updRes hy
    rw [hr, e]; exact h.ridLt x hx
  · rw [hres, rids_updRes]; exact h.ridNodup
  · intro c hc'
    rw [hcons] at hc'
    obtain ⟨c0, hc0, rfl⟩ := List.mem_map.mp hc'
    rw [hc, (hf c0).1]; exact h.cidLt c0 hc0
  · rw [hcons, List.map_map]
    have : ((fun c : Cons => c.cid) ∘ f) = (fun c : Cons => c.cid) := by
      funext c; exact (hf c).1
    rw [this]; exact h.cidNodup
  · intro y hy
    rw [hres] at hy
    obtain ⟨x, hx, _, e2, e3⟩ := mem_updRes hy
    obtain ⟨c, hc0, e4, e5⟩ := h.ownerTracked x hx
    refine ⟨f c, ?_, ?_, ?_⟩
    · rw [hcons]; exact List.mem_map_of_mem hc0
    · rw [(hf c).1, e4, e2]
    · rw [(hf c).2, e5, e3]
  · intro c hc'
    rw [hcons] at hc'
    obtain ⟨c0, hc0, rfl⟩ := List.mem_map.mp hc'
    obtain ⟨x, hx, e⟩ := h.trackedOwner c0 hc0
    obtain ⟨y, hy, _, e2, _⟩ := mem_updRes_rev (r := r) (g := g) hx
    exact ⟨y, by rw [hres]; exact hy, by rw [e2, e, (hf c0).1]⟩
  · rw [hns, hcons, countSpill_map k _ f (fun c => (hf c).2)]; exact h.numSpill

theorem numSpill_ledAdd (k : Kind) (b : Bool) (n : Nat) (l : Ledger) :
    (ledAdd k b n l).numSpill = l.numSpill := by
  cases k <;> cases b <;> simp [ledAdd]

theorem numSpill_ledSub (k : Kind) (b : Bool) (n : Nat) (l : Ledger) :
    (ledSub k b n l).numSpill = l.numSpill := by
  cases k <;> cases b <;> simp [ledSub]

theorem numSpill_ledTryAdd {k : Kind} {b : Bool} {rsize n : Nat} {l l' : Ledger}
    (h : ledTryAdd k b rsize n l = some l') : l'.numSpill = l.numSpill := by
  cases k with
  | unbounded => simp only [ledTryAdd, Option.some.injEq] at h; subst h; rfl
  | greedy lim =>
    simp only [ledTryAdd] at h
    split at h
    · simp only [Option.some.injEq] at h; subst h; rfl
    · cases h
  | fair lim =>
    simp only [ledTryAdd] at h
    split at h <;> split at h <;> first | cases h; done | (simp only [Option.some.injEq] at h; subst h; rfl)

theorem reg_doGrow {k : Kind} {s : St} {x : Res} (n : Nat) (h : Reg k s) : Reg k (doGrow k s x n) :=
  reg_sizeOnly x.rid (· + n) _ h rfl rfl (fun c => by split <;> simp) (numSpill_ledAdd ..) rfl rfl

theorem reg_doTryGrow {k : Kind} {s s' : St} {x : Res} (n : Nat) (h : Reg k s)
    (hg : doTryGrow k s x n = some s') : Reg k s' := by
  simp only [doTryGrow, poolTryGrow] at hg
  split at hg
  · cases hg
  · rename_i s1 hs1
    split at hs1
    · cases hs1
    · rename_i l' hl'
      simp only [Option.some.injEq] at hs1 hg
      subst hs1
      subst hg
      exact reg_sizeOnly x.rid (· + n) _ h rfl rfl (fun c => by split <;> simp) (numSpill_ledTryAdd hl') rfl rfl

theorem reg_doShrink {k : Kind} {s : St} {x : Res} (n : Nat) (h : Reg k s) : Reg k (doShrink k s x n) :=
  reg_sizeOnly x.rid (· - n) _ h rfl rfl (fun c => by split <;> simp) (numSpill_ledSub ..) rfl rfl

theorem reg_doFree {k : Kind} {s : St} {x : Res} (h : Reg k s) : Reg k (doFree k s x) := by
  unfold doFree
  split
  · exact reg_sizeOnly x.rid (fun _ => 0) _ h rfl rfl (fun c => by split <;> simp) (numSpill_ledSub ..) rfl rfl
  · exact reg_sizeOnly x.rid (fun _ => 0) id h rfl (by simp [resZero]) (fun c => ⟨rfl, rfl⟩) rfl rfl rfl

/-- a new reservation sharing the registration of a live reservation `x` -/
theorem reg_push {k : Kind} {s : St} {x : Res} (size : Nat) (h : Reg k s) (hx : x ∈ s.res) :
    Reg k (resPush s x size) := by
  refine ⟨?_, ?_, h.cidLt, h.cidNodup, ?_, ?_, h.numSpill⟩
  · intro y hy
    simp only [resPush, List.mem_append, List.mem_singleton] at hy ⊢
    rcases hy with hy | rfl
    · have := h.ridLt y hy; omega
    · simp
  · simp only [resPush, List.map_append, List.map_cons, List.map_nil]
    rw [List.nodup_append]
    refine ⟨h.ridNodup, by simp, ?_⟩
    intro a ha b hb
    simp only [List.mem_singleton] at hb
    obtain ⟨y, hy, rfl⟩ := List.mem_map.mp ha
    have := h.ridLt y hy
    omega
  · intro y hy
    simp only [resPush, List.mem_append, List.mem_singleton] at hy
    rcases hy with hy | rfl
    · exact h.ownerTracked y hy
    · exact h.ownerTracked x hx
  · intro c hc
    obtain ⟨y, hy, e⟩ := h.trackedOwner c hc
    exact ⟨y, by simp only [resPush, List.mem_append]; exact Or.inl hy, e⟩

theorem reg_resSub {k : Kind} {s : St} (r n : Nat) (h : Reg k s) : Reg k (resSub s r n) :=
  reg_sizeOnly r (· - n) id h rfl (by simp [resSub]) (fun c => ⟨rfl, rfl⟩) rfl rfl rfl

theorem mem_resSub {s : St} {r n : Nat} {x : Res} (hf : findRes s.res r = some x) :
    { x with size := x.size - n } ∈ (resSub s r n).res :=
  findRes_mem (findRes_upd_same (· - n) hf)

theorem countSpill_append (k : Kind) (cs : List Cons) (c : Cons) :
    countSpill k (cs ++ [c]) = countSpill k cs + (match k with | .fair _ => if c.spill then 1 else 0 | _ => 0) := by
  cases k <;> simp only [countSpill]
  rw [List.filter_append, List.length_append]
  cases hc : c.spill <;> simp [hc]

theorem reg_register {k : Kind} {s : St} (spill : Bool) (h : Reg k s) :
    Reg k (step k s (.register spill)).1 := by
  simp only [step]
  refine ⟨?_, ?_, ?_, ?_, ?_, ?_, ?_⟩
  · intro y hy
    simp only [List.mem_append, List.mem_singleton] at hy
    rcases hy with hy | rfl
    · have := h.ridLt y hy; simp only; omega
    · simp
  · simp only [List.map_append, List.map_cons, List.map_nil]
    rw [List.nodup_append]
    refine ⟨h.ridNodup, by simp, ?_⟩
    intro a ha b hb
    simp only [List.mem_singleton] at hb
    obtain ⟨y, hy, rfl⟩ := List.mem_map.mp ha
    have := h.ridLt y hy
    omega
  · intro c hc
    simp only [List.mem_append, List.mem_singleton] at hc
    rcases hc with hc | rfl
    · have := h.cidLt c hc; simp only; omega
    · simp
  · simp only [List.map_append, List.map_cons, List.map_nil]
    rw [List.nodup_append]
    refine ⟨h.cidNodup, by simp, ?_⟩
    intro a ha b hb
    simp only [List.mem_singleton] at hb
    obtain ⟨y, hy, rfl⟩ := List.mem_map.mp ha
    have := h.cidLt y hy
    omega
  · intro y hy
    simp only [List.mem_append, List.mem_singleton] at hy
    rcases hy with hy | rfl
    · obtain ⟨c, hc, e⟩ := h.ownerTracked y hy
      exact ⟨c, by simp only [List.mem_append]; exact Or.inl hc, e⟩
    · exact ⟨_, by simp only [List.mem_append, List.mem_singleton]; exact Or.inr rfl, rfl, rfl⟩
  · intro c hc
    simp only [List.mem_append, List.mem_singleton] at hc
    rcases hc with hc | rfl
    · obtain ⟨y, hy, e⟩ := h.trackedOwner c hc
      exact ⟨y, by simp only [List.mem_append]; exact Or.inl hy, e⟩
    · exact ⟨_, by simp only [List.mem_append, List.mem_singleton]; exact Or.inr rfl, rfl⟩
  · simp only
    rw [countSpill_append]
    have := h.numSpill
    cases k <;> cases spill <;> simp_all [ledRegister]

theorem mem_eraseRes_of_ne {rs : List Res} {r : Nat} {x y : Res} (hf : findRes rs r = some x)
    (hy : y ∈ rs) (hne : y ≠ x) : y ∈ eraseRes rs r := by
  induction rs with
  | nil => simp at hy
  | cons z zs ih =>
    unfold findRes at hf
    unfold eraseRes
    split at hf
    · cases hf
      rename_i hz
      simp only [hz, if_true]
      rcases List.mem_cons.mp hy with rfl | h'
      · exact absurd rfl hne
      · exact h'
    · rename_i hz
      simp only [hz, if_false]
      rcases List.mem_cons.mp hy with rfl | h'
      · exact List.mem_cons_self
      · exact List.mem_cons_of_mem _ (ih hf h')

theorem countSpill_filter_cid (k : Kind) (cs : List Cons) (c0 : Cons) (hnd : (cs.map (·.cid)).Nodup)
    (hc0 : c0 ∈ cs) :
    countSpill k (cs.filter (fun c => c.cid != c0.cid))
      + (match k with | .fair _ => if c0.spill then 1 else 0 | _ => 0) = countSpill k cs := by
  cases k <;> simp only [countSpill]
  induction cs with
  | nil => simp at hc0
  | cons c cs ih =>
    simp only [List.map_cons, List.nodup_cons] at hnd
    rcases List.mem_cons.mp hc0 with rfl | h'
    · -- the head is c0; the tail does not contain its cid
      have hrest : cs.filter (fun c => c.cid != c0.cid) = cs := by
        apply List.filter_eq_self.mpr
        intro a ha
        simp only [bne_iff_ne, ne_eq]
        intro e
        exact hnd.1 (by rw [← e]; exact List.mem_map_of_mem ha)
      simp only [List.filter_cons, bne_self_eq_false, Bool.false_eq_true, if_false, hrest]
      cases c0.spill <;> simp
    · have hne : c.cid ≠ c0.cid := by
        intro e
        exact hnd.1 (by rw [e]; exact List.mem_map_of_mem h')
      have := ih hnd.2 h'
      have e1 : (c.cid != c0.cid) = true := by simp [hne]
      simp only [List.filter_cons, e1, if_true]
      cases hc : c.spill
      · simp only [Bool.false_eq_true, if_false]; exact this
      · simp only [if_true, List.length_cons]; omega

theorem ledgerIs_unregister {k : Kind} {l : Ledger} {sp un : Nat} (b : Bool) (h : LedgerIs k l sp un) :
    LedgerIs k (ledUnregister k b l) sp un := by
  cases k <;> cases b <;> simp_all [LedgerIs, ledUnregister]

/-- `Drop` of an already freed reservation `x'` (the entry with id `x.rid`, size 0) -/
theorem core_resDrop {k : Kind} {s : St} {x x' : Res} (h : Core k s) (hr : Reg k s)
    (hf : findRes s.res x.rid = some x') (hz : x'.size = 0) (hsp : x'.spill = x.spill) :
    Core k (resDrop k s x) := by
  have hs : ∀ p : Nat → Bool → Bool, sumBy p (eraseRes s.res x.rid) = sumBy p s.res := by
    intro p
    have := sumBy_erase p hf
    simp only [hz] at this
    split at this <;> omega
  unfold resDrop
  simp only
  split
  · refine ⟨?_, ?_, ?_, h.bad⟩
    · simp only [sumSpill, hs]; exact h.led
    · simp only [sumSize, hs]; exact h.pk
    · exact consOk_same h.cons (fun d => by simp only [sumCid, hs])
  · refine ⟨?_, ?_, ?_, ?_⟩
    · simp only [sumSpill, hs]; exact ledgerIs_unregister _ h.led
    · simp only [sumSize, hs]; exact h.pk
    · intro c hc'
      simp only [List.mem_filter] at hc'
      have := h.cons c hc'.1
      simp only [sumCid, hs]
      exact this
    · obtain ⟨c, hc1, hc2, hc3⟩ := hr.ownerTracked x' (findRes_mem hf)
      have hns := hr.numSpill
      simp only [h.bad, Bool.false_or]
      cases k with
      | unbounded => rfl
      | greedy lim => rfl
      | fair lim =>
        simp only [ledUnregUnder]
        cases hx : x.spill
        · rfl
        · simp only [Bool.true_and, decide_eq_false_iff_not]
          have : 1 ≤ countSpill (.fair lim) s.cons := by
            simp only [countSpill]
            apply List.length_pos_of_mem (a := c)
            simp only [List.mem_filter]
            exact ⟨hc1, by rw [hc3, hsp, hx]⟩
          omega

theorem reg_resDrop {k : Kind} {s : St} {x x' : Res} (hr : Reg k s)
    (hf : findRes s.res x.rid = some x') (hc : x'.cid = x.cid) (hsp : x'.spill = x.spill) :
    Reg k (resDrop k s x) := by
  have hsub := rids_eraseRes_sublist s.res x.rid
  unfold resDrop
  simp only
  split
  · rename_i hhas
    refine ⟨?_, hsub.nodup hr.ridNodup, hr.cidLt, hr.cidNodup, ?_, ?_, hr.numSpill⟩
    · intro y hy; exact hr.ridLt y (mem_eraseRes hy)
    · intro y hy; exact hr.ownerTracked y (mem_eraseRes hy)
    · intro c hc'
      by_cases hcx : c.cid = x.cid
      · obtain ⟨y, hy, e⟩ := (hasCid_iff _ _).mp hhas
        exact ⟨y, hy, by rw [e, hcx]⟩
      · obtain ⟨y, hy, e⟩ := hr.trackedOwner c hc'
        refine ⟨y, mem_eraseRes_of_ne hf hy ?_, e⟩
        intro e2
        apply hcx
        rw [← e, e2, hc]
  · rename_i hhas
    have hno : ∀ y ∈ eraseRes s.res x.rid, y.cid ≠ x.cid := by
      intro y hy e
      exact hhas ((hasCid_iff _ _).mpr ⟨y, hy, e⟩)
    obtain ⟨c0, hc01, hc02, hc03⟩ := hr.ownerTracked x' (findRes_mem hf)
    refine ⟨?_, hsub.nodup hr.ridNodup, ?_, ?_, ?_, ?_, ?_⟩
    · intro y hy; exact hr.ridLt y (mem_eraseRes hy)
    · intro c hc'
      simp only [List.mem_filter] at hc'
      exact hr.cidLt c hc'.1
    · exact (List.filter_sublist.map _).nodup hr.cidNodup
    · intro y hy
      obtain ⟨c, hc1, hc2, hc3⟩ := hr.ownerTracked y (mem_eraseRes hy)
      refine ⟨c, ?_, hc2, hc3⟩
      simp only [List.mem_filter, bne_iff_ne, ne_eq]
      exact ⟨hc1, by rw [hc2]; exact hno y hy⟩
    · intro c hc'
      simp only [List.mem_filter, bne_iff_ne, ne_eq] at hc'
      obtain ⟨y, hy, e⟩ := hr.trackedOwner c hc'.1
      refine ⟨y, mem_eraseRes_of_ne hf hy ?_, e⟩
      intro e2
      apply hc'.2
      rw [← e, e2, hc]
    · have hcnt := countSpill_filter_cid k s.cons c0 hr.cidNodup hc01
      have hns := hr.numSpill
      rw [hc02, hc] at hcnt
      rw [hc03, hsp] at hcnt
      simp only
      cases k <;> cases hx : x.spill <;> simp_all [ledUnregister] <;> omega

theorem sumBy_zero_of_none (p : Nat → Bool → Bool) (rs : List Res)
    (h : ∀ x ∈ rs, p x.cid x.spill = false) : sumBy p rs = 0 := by
  induction rs with
  | nil => rfl
  | cons y ys ih =>
    simp only [sumBy, h y List.mem_cons_self, Bool.false_eq_true, if_false, Nat.zero_add]
    exact ih (fun x hx => h x (List.mem_cons_of_mem _ hx))

theorem ledgerIs_register {k : Kind} {l : Ledger} {sp un : Nat} (b : Bool) (h : LedgerIs k l sp un) :
    LedgerIs k (ledRegister k b l) sp un := by
  cases k <;> cases b <;> simp_all [LedgerIs, ledRegister]

theorem core_register {k : Kind} {s : St} (spill : Bool) (h : Core k s) (hr : Reg k s) :
    Core k (step k s (.register spill)).1 := by
  have hs : ∀ p : Nat → Bool → Bool,
      sumBy p (s.res ++ [{ rid := s.nextRid, cid := s.nextCid, size := 0, spill := spill }]) = sumBy p s.res := by
    intro p
    rw [sumBy_append, sumBy_single]
    simp
  simp only [step]
  refine ⟨?_, ?_, ?_, h.bad⟩
  · simp only [sumSpill, hs]; exact ledgerIs_register _ h.led
  · simp only [sumSize, hs]; exact h.pk
  · intro c hc
    simp only [List.mem_append, List.mem_singleton] at hc
    simp only [sumCid, hs]
    rcases hc with hc | rfl
    · exact h.cons c hc
    · simp only [Nat.le_refl, and_true]
      symm
      apply sumBy_zero_of_none
      intro x hx
      obtain ⟨c, hc1, hc2, _⟩ := hr.ownerTracked x hx
      have := hr.cidLt c hc1
      simp only [beq_eq_false_iff_ne, ne_eq]
      omega

theorem core_resetPeak {k : Kind} {s : St} (h : Core k s) : Core k (step k s .resetPeak).1 := by
  obtain ⟨h1, h2, h3⟩ := h.pk
  refine ⟨h.led, ⟨h1, Nat.le_refl _, ?_⟩, h.cons, h.bad⟩
  simp only [step]
  omega

theorem reg_resetPeak {k : Kind} {s : St} (h : Reg k s) : Reg k (step k s .resetPeak).1 :=
  ⟨h.ridLt, h.ridNodup, h.cidLt, h.cidNodup, h.ownerTracked, h.trackedOwner, h.numSpill⟩

/-- the full invariant -/
def Inv (k : Kind) (s : St) : Prop := Core k s ∧ Reg k s

theorem inv_init (k : Kind) : Inv k init := ⟨core_init k, reg_init k⟩

/-- `(doFree k s x).res` is the list with reservation `x.rid` zeroed, whichever branch -/
theorem doFree_res (k : Kind) (s : St) (x : Res) :
    (doFree k s x).res = updRes s.res x.rid (fun _ => 0) := by
  unfold doFree
  split <;> rfl

/-- every operation preserves the invariant -/
theorem inv_step {k : Kind} {s : St} (op : Op) (h : Inv k s) : Inv k (step k s op).1 := by
  obtain ⟨hc, hr⟩ := h
  cases op with
  | register spill => exact ⟨core_register spill hc hr, reg_register spill hr⟩
  | resetPeak => exact ⟨core_resetPeak hc, reg_resetPeak hr⟩
  | grow r n =>
    simp only [step]
    split
    · exact ⟨hc, hr⟩
    · rename_i x hf
      exact ⟨core_doGrow n hc hf, reg_doGrow n hr⟩
  | tryGrow r n =>
    simp only [step]
    split
    · exact ⟨hc, hr⟩
    · rename_i x hf
      split
      · exact ⟨hc, hr⟩
      · rename_i s' hg
        exact ⟨core_doTryGrow n hc hf hg, reg_doTryGrow n hr hg⟩
  | shrink r n =>
    simp only [step]
    split
    · exact ⟨hc, hr⟩
    · rename_i x hf
      split
      · rename_i hn
        exact ⟨core_doShrink n hc hf hn, reg_doShrink n hr⟩
      · exact ⟨hc, hr⟩
  | tryShrink r n =>
    simp only [step]
    split
    · exact ⟨hc, hr⟩
    · rename_i x hf
      split
      · rename_i hn
        exact ⟨core_doShrink n hc hf hn, reg_doShrink n hr⟩
      · exact ⟨hc, hr⟩
  | resize r cap =>
    simp only [step]
    split
    · exact ⟨hc, hr⟩
    · rename_i x hf
      split
      · exact ⟨core_doGrow _ hc hf, reg_doGrow _ hr⟩
      · split
        · exact ⟨core_doShrink _ hc hf (by omega), reg_doShrink _ hr⟩
        · exact ⟨hc, hr⟩
  | tryResize r cap =>
    simp only [step]
    split
    · exact ⟨hc, hr⟩
    · rename_i x hf
      split
      · split
        · exact ⟨hc, hr⟩
        · rename_i s' hg
          exact ⟨core_doTryGrow _ hc hf hg, reg_doTryGrow _ hr hg⟩
      · split
        · exact ⟨core_doShrink _ hc hf (by omega), reg_doShrink _ hr⟩
        · exact ⟨hc, hr⟩
  | split r n =>
    simp only [step]
    split
    · exact ⟨hc, hr⟩
    · rename_i x hf
      split
      · rename_i hn
        refine ⟨core_split n hc hf hn, ?_⟩
        have := reg_push (x := { x with size := x.size - n }) n (reg_resSub r n hr) (mem_resSub hf)
        exact this
      · exact ⟨hc, hr⟩
  | newEmpty r =>
    simp only [step]
    split
    · exact ⟨hc, hr⟩
    · rename_i x hf
      exact ⟨core_newEmpty hc, reg_push 0 hr (findRes_mem hf)⟩
  | take r =>
    simp only [step]
    split
    · exact ⟨hc, hr⟩
    · rename_i x hf
      refine ⟨core_split x.size hc hf (Nat.le_refl _), ?_⟩
      have := reg_push (x := { x with size := x.size - x.size }) x.size (reg_resSub r x.size hr) (mem_resSub hf)
      exact this
  | free r =>
    simp only [step]
    split
    · exact ⟨hc, hr⟩
    · rename_i x hf
      exact ⟨core_doFree hc hf, reg_doFree hr⟩
  | drop r =>
    simp only [step]
    split
    · exact ⟨hc, hr⟩
    · rename_i x hf
      have hrid := findRes_rid hf
      have hf' : findRes (doFree k s x).res x.rid = some { x with size := 0 } := by
        have hf2 : findRes s.res x.rid = some x := by rw [hrid]; exact hf
        rw [doFree_res]
        exact findRes_upd_same (fun _ => 0) hf2
      exact ⟨core_resDrop (core_doFree hc hf) (reg_doFree hr) hf' rfl rfl,
             reg_resDrop (reg_doFree hr) hf' rfl rfl⟩

theorem inv_exec {k : Kind} (ops : List Op) {s : St} (h : Inv k s) : Inv k (exec k s ops) := by
  induction ops generalizing s with
  | nil => exact h
  | cons op ops ih => exact ih (inv_step op h)

/-! ### how one step moves the PeakRecording counters -/

theorem doTryGrow_pk {k : Kind} {s s' : St} {x : Res} {n : Nat} (hg : doTryGrow k s x n = some s') :
    s'.pk = peakAdd s.pk n := by
  simp only [doTryGrow, poolTryGrow] at hg
  split at hg
  · cases hg
  · rename_i s1 hs1
    split at hs1
    · cases hs1
    · simp only [Option.some.injEq] at hs1 hg
      subst hs1; subst hg
      rfl

theorem doFree_pk (k : Kind) (s : St) (x : Res) :
    (doFree k s x).pk = s.pk ∨ (doFree k s x).pk = peakSub s.pk x.size := by
  unfold doFree
  split
  · exact Or.inr rfl
  · exact Or.inl rfl

theorem resDrop_pk (k : Kind) (s : St) (x : Res) : (resDrop k s x).pk = s.pk := by
  unfold resDrop
  simp only
  split <;> rfl

/-- apart from `reset_peak`, an operation leaves the PeakRecording counters alone, or `record`s a
    growth, or subtracts a shrink -/
theorem pk_cases (k : Kind) (s : St) (op : Op) (hop : op ≠ .resetPeak) :
    (step k s op).1.pk = s.pk ∨ (∃ n, (step k s op).1.pk = peakAdd s.pk n)
      ∨ (∃ n, (step k s op).1.pk = peakSub s.pk n) := by
  cases op with
  | resetPeak => exact absurd rfl hop
  | register spill => exact Or.inl rfl
  | grow r n =>
    simp only [step]; split
    · exact Or.inl rfl
    · exact Or.inr (Or.inl ⟨n, rfl⟩)
  | tryGrow r n =>
    simp only [step]; split
    · exact Or.inl rfl
    · split
      · exact Or.inl rfl
      · rename_i s' hg
        exact Or.inr (Or.inl ⟨n, doTryGrow_pk hg⟩)
  | shrink r n =>
    simp only [step]; split
    · exact Or.inl rfl
    · split
      · exact Or.inr (Or.inr ⟨n, rfl⟩)
      · exact Or.inl rfl
  | tryShrink r n =>
    simp only [step]; split
    · exact Or.inl rfl
    · split
      · exact Or.inr (Or.inr ⟨n, rfl⟩)
      · exact Or.inl rfl
  | resize r cap =>
    simp only [step]; split
    · exact Or.inl rfl
    · split
      · exact Or.inr (Or.inl ⟨_, rfl⟩)
      · split
        · exact Or.inr (Or.inr ⟨_, rfl⟩)
        · exact Or.inl rfl
  | tryResize r cap =>
    simp only [step]; split
    · exact Or.inl rfl
    · split
      · split
        · exact Or.inl rfl
        · rename_i s' hg
          exact Or.inr (Or.inl ⟨_, doTryGrow_pk hg⟩)
      · split
        · exact Or.inr (Or.inr ⟨_, rfl⟩)
        · exact Or.inl rfl
  | split r n =>
    simp only [step]; split
    · exact Or.inl rfl
    · split <;> exact Or.inl rfl
  | newEmpty r =>
    simp only [step]; split <;> exact Or.inl rfl
  | take r =>
    simp only [step]; split <;> exact Or.inl rfl
  | free r =>
    simp only [step]; split
    · exact Or.inl rfl
    · rename_i x hf
      rcases doFree_pk k s x with h | h
      · exact Or.inl h
      · exact Or.inr (Or.inr ⟨_, h⟩)
  | drop r =>
    simp only [step]; split
    · exact Or.inl rfl
    · rename_i x hf
      rw [resDrop_pk]
      rcases doFree_pk k s x with h | h
      · exact Or.inl h
      · exact Or.inr (Or.inr ⟨_, h⟩)

/-! ### step-level facts used by the property theorems -/

/-- a granted `try_grow` grows exactly that reservation by exactly `n` -/
theorem granted_try_grow_adds (k : Kind) (s : St) (r n : Nat) (x : Res)
    (hf : findRes s.res r = some x) (h : (step k s (.tryGrow r n)).2 = .ok) :
    (step k s (.tryGrow r n)).1.res = updRes s.res r (· + n) := by
  have hr := findRes_rid hf
  simp only [step, hf] at h ⊢
  split at h
  · cases h
  · rename_i s' hg
    simp only [doTryGrow, poolTryGrow] at hg
    split at hg
    · cases hg
    · rename_i s1 hs1
      split at hs1
      · cases hs1
      · simp only [Option.some.injEq] at hs1 hg
        subst hs1; subst hg
        simp [resAdd, hr]

/-- the greedy check, per step: a granted `try_grow` leaves `used ≤ pool_size` -/
theorem greedy_grant_step (lim : Nat) (s : St) (r n : Nat)
    (h : (step (.greedy lim) s (.tryGrow r n)).2 = .ok) :
    (step (.greedy lim) s (.tryGrow r n)).1.led.used ≤ lim := by
  simp only [step] at h ⊢
  split
  · simp_all
  · rename_i x hf
    simp only [hf] at h
    split
    · simp_all
    · rename_i s' hg
      simp only [doTryGrow, poolTryGrow, ledTryAdd] at hg
      split at hg
      · cases hg
      · rename_i s1 hs1
        split at hs1
        · cases hs1
        · rename_i l' hl'
          split at hl'
          · simp only [Option.some.injEq] at hl' hs1 hg
            subst hl'; subst hs1; subst hg
            simp only [resAdd]
            omega
          · cases hl'

/-- one step of the PeakRecording bookkeeping against the running maxima of `reserved()` -/
theorem peak_step (k : Kind) (s : St) (op : Op) (h : Inv k s) :
    (op = .resetPeak → (step k s op).1.pk.peak = (step k s op).1.reserved k
                        ∧ (step k s op).1.pk.max = max s.pk.max ((step k s op).1.reserved k))
    ∧ (op ≠ .resetPeak → (step k s op).1.pk.peak = max s.pk.peak ((step k s op).1.reserved k)
                          ∧ (step k s op).1.pk.max = max s.pk.max ((step k s op).1.reserved k)) := by
  have hi' : Inv k (step k s op).1 := inv_step op h
  have hres : (step k s op).1.reserved k = (step k s op).1.pk.reserved := by
    rw [St.reserved, ledgerIs_reserved hi'.1.led, ← sumSize_split]; exact hi'.1.pk.1.symm
  rw [hres]
  obtain ⟨p1, p2, p3⟩ := h.1.pk
  constructor
  · intro e
    subst e
    have e1 : (step k s .resetPeak).1.pk.peak = s.pk.reserved := rfl
    have e2 : (step k s .resetPeak).1.pk.reserved = s.pk.reserved := rfl
    have e3 : (step k s .resetPeak).1.pk.max = s.pk.max := rfl
    rw [e1, e2, e3]
    omega
  · intro e
    rcases pk_cases k s op e with h0 | ⟨n, h1⟩ | ⟨n, h2⟩
    · have a1 : (step k s op).1.pk.peak = s.pk.peak := by rw [h0]
      have a2 : (step k s op).1.pk.reserved = s.pk.reserved := by rw [h0]
      have a3 : (step k s op).1.pk.max = s.pk.max := by rw [h0]
      omega
    · have a1 : (step k s op).1.pk.peak = max s.pk.peak (s.pk.reserved + n) := by rw [h1]; rfl
      have a2 : (step k s op).1.pk.reserved = s.pk.reserved + n := by rw [h1]; rfl
      have a3 : (step k s op).1.pk.max = max s.pk.max (s.pk.reserved + n) := by rw [h1]; rfl
      omega
    · have a1 : (step k s op).1.pk.peak = s.pk.peak := by rw [h2]; rfl
      have a2 : (step k s op).1.pk.reserved = s.pk.reserved - n := by rw [h2]; rfl
      have a3 : (step k s op).1.pk.max = s.pk.max := by rw [h2]; rfl
      omega

theorem sumCid_of_filter_single (rs : List Res) (x : Res)
    (h : rs.filter (fun y => y.cid == x.cid) = [x]) : sumCid x.cid rs = x.size := by
  have gen : ∀ rs : List Res, sumCid x.cid rs = sumSize (rs.filter (fun y => y.cid == x.cid)) := by
    intro rs
    induction rs with
    | nil => rfl
    | cons y ys ih =>
      simp only [sumCid, sumSize] at ih ⊢
      simp only [sumBy, List.filter_cons]
      split <;> simp_all [sumBy]
  rw [gen, h]
  simp [sumSize, sumBy]


end DfModel.Proofs.C17
