/-
  Helper lemmas for C14 (join hash map: chains, traversal, paging). Core Lean only.
-/
import DfModel.Sm.Jhm
namespace DfModel.Proofs.C14
open DfModel.Sm.Jhm

/-- `Linked next s c`: following the `next` array from the stored index `s` (row+1, 0 = end) visits
    exactly the rows `c`, in that order, and then reaches 0 -/
def Linked (next : List Nat) : Nat → List Nat → Prop
  | s, [] => s = 0
  | s, b :: rest => s = b + 1 ∧ ∃ nx, next[b]? = some nx ∧ Linked next nx rest

theorem linked_zero {next : List Nat} {c : List Nat} (h : Linked next 0 c) : c = [] := by
  cases c with
  | nil => rfl
  | cons b rest => simp [Linked] at h

theorem linked_nil_iff {next : List Nat} {s : Nat} : Linked next s [] ↔ s = 0 := by simp [Linked]

theorem linked_ne_nil {next : List Nat} {s : Nat} {c : List Nat} (h : Linked next s c) (hs : s ≠ 0) :
    c ≠ [] := by
  intro e; subst e; exact hs (linked_nil_iff.mp h)

/-- the full walk of `get_matched_indices` returns the chain -/
theorem walk_spec {next : List Nat} {s : Nat} {c : List Nat} (h : Linked next s c) (hne : c ≠ [])
    {fuel : Nat} (hf : c.length ≤ fuel) : walkChain next fuel s = some c := by
  induction c generalizing s fuel with
  | nil => exact absurd rfl hne
  | cons b rest ih =>
    obtain ⟨hs, nx, hnx, hl⟩ := h
    cases fuel with
    | zero => simp at hf
    | succ f =>
      subst hs
      simp only [walkChain, Nat.add_one_ne_zero, if_false, Nat.add_sub_cancel, hnx]
      by_cases h0 : nx = 0
      · subst h0
        rw [linked_zero hl]; simp
      · have hr := linked_ne_nil hl h0
        rw [if_neg h0, ih hl hr (by simpa using hf)]
        rfl

/-- `traverse_chain` on a linked chain `c` with `r > 0` results still wanted -/
theorem traverse_spec {next : List Nat} {s : Nat} {c : List Nat} (h : Linked next s c) (hne : c ≠ [])
    (p : Nat) (isLast : Bool) {fuel r : Nat} (hf : c.length ≤ fuel) (hr : 0 < r) :
    (r ≤ c.length → ∃ nx, Linked next nx (c.drop r) ∧
        traverseChain next p isLast fuel s r =
          some ((c.take r).map (fun b => (p, b)), 0,
                if isLast ∧ nx = 0 then none else some (p, some nx))) ∧
    (c.length < r →
        traverseChain next p isLast fuel s r = some (c.map (fun b => (p, b)), r - c.length, none)) := by
  induction c generalizing s fuel r with
  | nil => exact absurd rfl hne
  | cons b rest ih =>
    obtain ⟨hs, nx, hnx, hl⟩ := h
    cases fuel with
    | zero => simp at hf
    | succ f =>
      subst hs
      have hr0 : r ≠ 0 := by omega
      simp only [traverseChain, Nat.add_one_ne_zero, hr0, or_self, if_false, Nat.add_sub_cancel, hnx]
      by_cases h1 : r - 1 = 0
      · have hr1 : r = 1 := by omega
        subst hr1
        simp only [Nat.sub_self, if_true]
        refine ⟨fun _ => ⟨nx, by simpa using hl, by simp⟩, fun hlt => ?_⟩
        simp at hlt
      · rw [if_neg h1]
        by_cases h0 : nx = 0
        · subst h0
          have hrest := linked_zero hl
          subst hrest
          simp only [if_true, List.length_cons, List.length_nil, List.map_cons, List.map_nil]
          refine ⟨fun hle => ?_, fun _ => by trivial⟩
          simp at hle; omega
        · rw [if_neg h0]
          have hrne := linked_ne_nil hl h0
          obtain ⟨ihA, ihB⟩ := ih hl hrne (fuel := f) (r := r - 1) (by simpa using hf) (by omega)
          refine ⟨fun hle => ?_, fun hlt => ?_⟩
          · simp only [List.length_cons] at hle
            obtain ⟨nx', hl', ht⟩ := ihA (by omega)
            refine ⟨nx', ?_, ?_⟩
            · have : (b :: rest).drop r = rest.drop (r - 1) := by
                cases r with
                | zero => omega
                | succ r' => simp
              rw [this]; exact hl'
            · rw [ht]
              have : (b :: rest).take r = b :: rest.take (r - 1) := by
                cases r with
                | zero => omega
                | succ r' => simp
              rw [this]; rfl
          · simp only [List.length_cons] at hlt
            rw [ihB (by omega)]
            simp only [List.length_cons, List.map_cons]
            have : r - 1 - rest.length = r - (rest.length + 1) := by omega
            rw [this]


/-! ### maps whose chains are known -/

/-- `C h` is the chain of hash `h`: what following `next` from the table entry of `h` visits -/
structure WfMap (m : Map) (C : Nat → List Nat) : Prop where
  miss : ∀ h, find m h = none → C h = []
  hit : ∀ h s, find m h = some s → C h ≠ [] ∧ Linked m.next s (C h) ∧ (C h).length ≤ m.next.length

/-- the specification of a lookup: for every valid probe row, every row of its hash's chain -/
def matchesOf (C : Nat → List Nat) (rows : List (Nat × Nat × Bool)) : Pairs :=
  rows.flatMap (fun r => if r.2.2 then (C r.2.1).map (fun b => (r.1, b)) else [])

@[simp] theorem matchesOf_nil (C : Nat → List Nat) : matchesOf C [] = [] := rfl
theorem matchesOf_cons (C : Nat → List Nat) (r : Nat × Nat × Bool) (rows : List (Nat × Nat × Bool)) :
    matchesOf C (r :: rows) = (if r.2.2 then (C r.2.1).map (fun b => (r.1, b)) else []) ++ matchesOf C rows := by
  simp [matchesOf]

/-- row `k` of the probe table carries index `k` -/
structure IsRows (allRows : List (Nat × Nat × Bool)) (len : Nat) : Prop where
  length : allRows.length = len
  idx : ∀ k, k < len → ∃ h v, allRows[k]? = some (k, h, v)

theorem probeRows_isRows (hashes : List Nat) (valid : List Bool) :
    IsRows (probeRows hashes valid) hashes.length := by
  refine ⟨by simp [probeRows], ?_⟩
  intro k hk
  exact ⟨hashes.getD k 0, valid.getD k true, by simp [probeRows, hk]⟩

theorem drop_eq_cons {allRows : List (Nat × Nat × Bool)} {len : Nat} (hr : IsRows allRows len) {k : Nat}
    (hk : k < len) : ∃ h v, allRows.drop k = (k, h, v) :: allRows.drop (k + 1) := by
  obtain ⟨h, v, hkv⟩ := hr.idx k hk
  refine ⟨h, v, ?_⟩
  have hlt : k < allRows.length := by rw [hr.length]; exact hk
  rw [List.drop_eq_getElem_cons hlt]
  rw [List.getElem?_eq_getElem hlt] at hkv
  injection hkv with hkv
  rw [hkv]

/-- what is still to be delivered when resuming from an offset -/
def Rest (m : Map) (C : Nat → List Nat) (allRows : List (Nat × Nat × Bool)) (o : Offset) (R : Pairs) : Prop :=
  match o with
  | (idx, none) => idx ≤ allRows.length ∧ R = matchesOf C (allRows.drop idx)
  | (idx, some nx) => idx < allRows.length ∧ ∃ c, Linked m.next nx c ∧ c.length ≤ m.next.length ∧
      R = c.map (fun b => (idx, b)) ++ matchesOf C (allRows.drop (idx + 1))

/-- outcome of one call: either everything that remained was delivered and `None` returned, or exactly
    `r` pairs were delivered and the returned offset stands for the rest -/
def PageOk (m : Map) (C : Nat → List Nat) (allRows : List (Nat × Nat × Bool)) (r : Nat) (R : Pairs)
    (res : Option (Pairs × Option Offset)) : Prop :=
  ∃ out ret, res = some (out, ret) ∧ (ret = none → out = R) ∧
    (∀ o', ret = some o' → out.length = r ∧ ∃ R', Rest m C allRows o' R' ∧ out ++ R' = R)

theorem probeLoop_spec {m : Map} {C : Nat → List Nat} (hw : WfMap m C)
    {allRows : List (Nat × Nat × Bool)} {len : Nat} (hrows : IsRows allRows len) :
    ∀ (n k r : Nat), len - k = n → k ≤ len → (0 < r ∨ k = len) →
      PageOk m C allRows r (matchesOf C (allRows.drop k)) (probeLoop m len (allRows.drop k) r) := by
  intro n
  induction n with
  | zero =>
    intro k r hn hk _
    have : k = len := by omega
    subst this
    have : allRows.drop k = [] := by rw [List.drop_eq_nil_iff]; rw [hrows.length]; exact Nat.le_refl _
    rw [this]
    exact ⟨[], none, rfl, fun _ => rfl, fun o' hh => by cases hh⟩
  | succ n ih =>
    intro k r hn hk hr
    have hklt : k < len := by omega
    have hr0 : 0 < r := by rcases hr with h | h <;> omega
    obtain ⟨h, v, hd⟩ := drop_eq_cons hrows hklt
    rw [hd, matchesOf_cons]
    have ihn := fun r' (hr' : 0 < r' ∨ k + 1 = len) => ih (k + 1) r' (by omega) (by omega) hr'
    cases v with
    | false =>
      simp only [probeLoop, Bool.not_false, if_true, Bool.false_eq_true, if_false, List.nil_append]
      exact ihn r (Or.inl hr0)
    | true =>
      simp only [probeLoop, Bool.not_true, Bool.false_eq_true, if_false, if_true]
      cases hf : find m h with
      | none =>
        simp only [hw.miss h hf, List.map_nil, List.nil_append]
        exact ihn r (Or.inl hr0)
      | some s =>
        obtain ⟨hne, hl, hlen⟩ := hw.hit h s hf
        have hfuel : (C h).length ≤ fuelOf m := by unfold fuelOf; omega
        obtain ⟨tA, tB⟩ := traverse_spec hl hne k (decide (k = len - 1)) hfuel hr0
        simp only
        by_cases hle : r ≤ (C h).length
        · obtain ⟨nx, hlnx, ht⟩ := tA hle
          rw [ht]
          by_cases hlast : (decide (k = len - 1) = true ∧ nx = 0)
          · rw [if_pos hlast]
            simp only
            have hk1 : k + 1 = len := by have := hlast.1; simp at this; omega
            have hdrop : allRows.drop (k + 1) = [] := by
              rw [List.drop_eq_nil_iff, hrows.length]; omega
            have hcd : (C h).drop r = [] := by
              have := hlast.2; subst this; exact linked_zero hlnx
            have htake : (C h).take r = C h := by
              have := List.take_append_drop r (C h)
              rw [hcd, List.append_nil] at this; exact this
            rw [hdrop, htake]
            exact ⟨(C h).map (fun b => (k, b)), none, by simp [probeLoop], fun _ => by simp, fun o' hh => by cases hh⟩
          · rw [if_neg hlast]
            simp only
            refine ⟨_, some (k, some nx), rfl, (fun hh => by cases hh), ?_⟩
            intro o' ho'
            injection ho' with ho'
            subst ho'
            refine ⟨by simp [List.length_take]; omega, _, ⟨by rw [hrows.length]; exact hklt, (C h).drop r, hlnx,
              by simp only [List.length_drop]; omega, rfl⟩, ?_⟩
            rw [← List.append_assoc, ← List.map_append, List.take_append_drop]
        · have hlt : (C h).length < r := by omega
          rw [tB hlt]
          simp only
          obtain ⟨out, ret, he, hnone, hsome⟩ := ihn (r - (C h).length) (Or.inl (by omega))
          rw [he]
          refine ⟨_, ret, rfl, ?_, ?_⟩
          · intro hn'; simp only; rw [hnone hn']
          · intro o' ho'
            obtain ⟨hlen', R', hR', hcat⟩ := hsome o' ho'
            refine ⟨by simp only [List.length_append, List.length_map, hlen']; omega, R', hR', ?_⟩
            simp only [List.append_assoc, hcat]


/-- one call of `get_matched_indices_with_limit_offset` on the chained (non-unique) path -/
theorem page_spec {m : Map} {C : Nat → List Nat} (hw : WfMap m C) (hslow : m.first.length ≠ m.next.length)
    (hashes : List Nat) (valid : List Bool) {limit : Nat} (hlim : 0 < limit) (o : Offset) (R : Pairs)
    (hR : Rest m C (probeRows hashes valid) o R) :
    PageOk m C (probeRows hashes valid) limit R (page m hashes valid limit o) := by
  have hrows := probeRows_isRows hashes valid
  have hlen : (probeRows hashes valid).length = hashes.length := hrows.length
  obtain ⟨idx, on⟩ := o
  unfold page
  rw [if_neg hslow]
  cases on with
  | none =>
    obtain ⟨hi, hRe⟩ := hR
    rw [hlen] at hi
    simp only
    rw [if_neg (by omega), hRe]
    exact probeLoop_spec hw hrows _ idx limit rfl hi (Or.inl hlim)
  | some nx =>
    obtain ⟨hi, c, hl, hcl, hRe⟩ := hR
    rw [hlen] at hi
    cases nx with
    | zero =>
      have hc := linked_zero hl
      subst hc
      simp only
      rw [if_neg (by omega), hRe]
      simp only [List.map_nil, List.nil_append]
      exact probeLoop_spec hw hrows _ (idx + 1) limit rfl (by omega) (Or.inl hlim)
    | succ nx' =>
      have hne : c ≠ [] := linked_ne_nil hl (by omega)
      have hfuel : c.length ≤ fuelOf m := by unfold fuelOf; omega
      obtain ⟨tA, tB⟩ := traverse_spec hl hne idx (decide (idx = hashes.length - 1)) hfuel hlim
      simp only
      rw [if_neg (by omega)]
      by_cases hle : limit ≤ c.length
      · obtain ⟨nx2, hlnx, ht⟩ := tA hle
        rw [ht]
        by_cases hlast : (decide (idx = hashes.length - 1) = true ∧ nx2 = 0)
        · rw [if_pos hlast]
          simp only
          have hk1 : idx + 1 = hashes.length := by have := hlast.1; simp at this; omega
          rw [if_neg (by omega)]
          have hdrop : (probeRows hashes valid).drop (idx + 1) = [] := by
            rw [List.drop_eq_nil_iff, hlen]; omega
          have hcd : c.drop limit = [] := by
            have := hlast.2; subst this; exact linked_zero hlnx
          have htake : c.take limit = c := by
            have := List.take_append_drop limit c
            rw [hcd, List.append_nil] at this; exact this
          rw [hdrop, htake, hRe, hdrop]
          exact ⟨c.map (fun b => (idx, b)), none, by simp [probeLoop], fun _ => by simp,
            fun o' hh => by cases hh⟩
        · rw [if_neg hlast]
          simp only
          refine ⟨_, some (idx, some nx2), rfl, (fun hh => by cases hh), ?_⟩
          intro o' ho'
          injection ho' with ho'
          subst ho'
          refine ⟨by simp [List.length_take]; omega, _, ⟨by rw [hlen]; exact hi, c.drop limit, hlnx,
            by simp only [List.length_drop]; omega, rfl⟩, ?_⟩
          rw [hRe, ← List.append_assoc, ← List.map_append, List.take_append_drop]
      · have hlt : c.length < limit := by omega
        rw [tB hlt]
        simp only
        rw [if_neg (by omega)]
        obtain ⟨out, ret, he, hnone, hsome⟩ :=
          probeLoop_spec hw hrows _ (idx + 1) (limit - c.length) rfl (by omega) (Or.inl (by omega))
        rw [he, hRe]
        refine ⟨_, ret, rfl, ?_, ?_⟩
        · intro hn'; simp only; rw [hnone hn']
        · intro o' ho'
          obtain ⟨hlen', R', hR', hcat⟩ := hsome o' ho'
          refine ⟨by simp only [List.length_append, List.length_map, hlen']; omega, R', hR', ?_⟩
          simp only [List.append_assoc, hcat]

/-- calling again and again from the returned offset delivers exactly what remained -/
theorem pages_spec {m : Map} {C : Nat → List Nat} (hw : WfMap m C) (hslow : m.first.length ≠ m.next.length)
    (hashes : List Nat) (valid : List Bool) {limit : Nat} (hlim : 0 < limit) :
    ∀ (n : Nat) (o : Offset) (R : Pairs), R.length ≤ n → Rest m C (probeRows hashes valid) o R →
      ∃ ps, pages m hashes valid limit (n + 1) o = some ps ∧ ps.flatten = R := by
  intro n
  induction n with
  | zero =>
    intro o R hRl hR
    obtain ⟨out, ret, he, hnone, hsome⟩ := page_spec hw hslow hashes valid hlim o R hR
    have hR0 : R = [] := List.eq_nil_of_length_eq_zero (by omega)
    cases ret with
    | none => exact ⟨[out], by simp [pages, he], by simp [hnone rfl]⟩
    | some o' =>
      obtain ⟨hl, R', _, hcat⟩ := hsome o' rfl
      subst hR0
      have : out = [] := by
        cases out with
        | nil => rfl
        | cons a b => simp at hcat
      subst this
      simp at hl; omega
  | succ n ih =>
    intro o R hRl hR
    obtain ⟨out, ret, he, hnone, hsome⟩ := page_spec hw hslow hashes valid hlim o R hR
    cases ret with
    | none => exact ⟨[out], by simp [pages, he], by simp [hnone rfl]⟩
    | some o' =>
      obtain ⟨hl, R', hR', hcat⟩ := hsome o' rfl
      have hlt : R'.length ≤ n := by
        have : out.length + R'.length = R.length := by rw [← hcat]; simp
        omega
      obtain ⟨ps, hps, hfl⟩ := ih o' R' hlt hR'
      refine ⟨out :: ps, ?_, ?_⟩
      · rw [pages, he]; simp only; rw [hps]; rfl
      · simp [hfl, hcat]


/-! ### the full lookup -/

theorem getMatched_spec {m : Map} {C : Nat → List Nat} (hw : WfMap m C) (probes : List (Nat × Nat)) :
    getMatchedIndices m probes = some (probes.flatMap (fun ph => (C ph.2).map (fun b => (ph.1, b)))) := by
  induction probes with
  | nil => rfl
  | cons ph rest ih =>
    obtain ⟨p, h⟩ := ph
    simp only [getMatchedIndices, List.flatMap_cons]
    cases hf : find m h with
    | none => simp only [hw.miss h hf, List.map_nil, List.nil_append]; exact ih
    | some s =>
      obtain ⟨hne, hl, hlen⟩ := hw.hit h s hf
      simp only
      rw [walk_spec hl hne (by unfold fuelOf; omega), ih]

/-! ### the all-unique fast path -/

theorem fast_slice {m : Map} {C : Nat → List Nat} (hw : WfMap m C) (hu : ∀ h, (C h).length ≤ 1)
    (rows : List (Nat × Nat × Bool)) :
    rows.filterMap (fun r => if !r.2.2 then none else (find m r.2.1).map (fun idx => (r.1, idx - 1)))
      = matchesOf C rows := by
  induction rows with
  | nil => rfl
  | cons r rest ih =>
    obtain ⟨i, h, v⟩ := r
    rw [matchesOf_cons, List.filterMap_cons]
    cases v with
    | false => simpa using ih
    | true =>
      simp only [Bool.not_true, Bool.false_eq_true, if_false, if_true]
      cases hf : find m h with
      | none => simp only [Option.map_none, hw.miss h hf, List.map_nil, List.nil_append]; exact ih
      | some s =>
        obtain ⟨hne, hl, _⟩ := hw.hit h s hf
        have hu1 := hu h
        cases hc : C h with
        | nil => exact absurd hc hne
        | cons b tl =>
          rw [hc] at hl hu1
          have htl : tl = [] := List.eq_nil_of_length_eq_zero (by simp only [List.length_cons] at hu1; omega)
          subst htl
          obtain ⟨hs, _⟩ := hl
          subst hs
          simp only [Option.map_some, Nat.add_sub_cancel, List.map_cons, List.map_nil,
            List.cons_append, List.nil_append]
          rw [ih]

theorem pages_fast_spec {m : Map} {C : Nat → List Nat} (hw : WfMap m C) (hu : ∀ h, (C h).length ≤ 1)
    (hfast : m.first.length = m.next.length)
    (hashes : List Nat) (valid : List Bool) {limit : Nat} (hlim : 0 < limit) :
    ∀ (n start : Nat) (x : Option Nat), hashes.length - start ≤ n → start ≤ hashes.length →
      ∃ ps, pages m hashes valid limit (n + 1) (start, x) = some ps ∧
        ps.flatten = matchesOf C ((probeRows hashes valid).drop start) := by
  have hlen : (probeRows hashes valid).length = hashes.length := (probeRows_isRows hashes valid).length
  intro n
  induction n with
  | zero =>
    intro start x hn hs
    have hst : start = hashes.length := by omega
    subst hst
    refine ⟨[[]], ?_, ?_⟩
    · simp [pages, page, hfast, fastPage]
    · have : (probeRows hashes valid).drop hashes.length = [] := by
        rw [List.drop_eq_nil_iff, hlen]; exact Nat.le_refl _
      simp [this]
  | succ n ih =>
    intro start x hn hs
    by_cases hstop : start + limit ≥ hashes.length
    · -- last page
      refine ⟨[matchesOf C ((probeRows hashes valid).drop start)], ?_, by simp⟩
      have hmin : min (start + limit) hashes.length = hashes.length := by omega
      rw [pages]
      simp only [page, hfast, if_true, fastPage, hmin]
      rw [if_neg (by omega)]
      simp only [fast_slice hw hu]
      have : ((probeRows hashes valid).drop start).take (hashes.length - start)
          = (probeRows hashes valid).drop start := by
        apply List.take_of_length_le; simp [hlen]
      rw [this]
    · have hlt : start + limit < hashes.length := by omega
      have hmin : min (start + limit) hashes.length = start + limit := by omega
      obtain ⟨ps, hps, hfl⟩ := ih (start + limit) none (by omega) (by omega)
      refine ⟨matchesOf C (((probeRows hashes valid).drop start).take limit) :: ps, ?_, ?_⟩
      · rw [pages]
        simp only [page, hfast, if_true, fastPage, hmin]
        rw [if_neg (by omega), if_neg (by omega)]
        simp only [fast_slice hw hu, Nat.add_sub_cancel_left]
        rw [hps]; rfl
      · simp only [List.flatten_cons, hfl]
        have : (probeRows hashes valid).drop (start + limit)
            = ((probeRows hashes valid).drop start).drop limit := by rw [List.drop_drop]
        rw [this]
        unfold matchesOf
        rw [← List.flatMap_append, List.take_append_drop]

end DfModel.Proofs.C14
