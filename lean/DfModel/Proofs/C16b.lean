/-
  C16 helper lemmas, part B: frame lemmas of the reader step, and the ownership invariant `Own`
  (every unfinished file has exactly one responsible party) with its preservation by every
  micro-step of the repaired code.  Core Lean only.
-/
import DfModel.Proofs.C16a
namespace DfModel.Proofs.C16
open DfModel.Sm.SpillPool

/-! ### the reader never touches the writers' side (generated text) -/

@[simp] theorem stepReader_max (s : St) : (stepReader s).max = s.max := by
  unfold stepReader; (repeat' split) <;> rfl
@[simp] theorem stepReader_nfiles (s : St) : (stepReader s).nfiles = s.nfiles := by
  unfold stepReader; (repeat' split) <;> rfl
@[simp] theorem stepReader_open_ (s : St) : (stepReader s).open_ = s.open_ := by
  unfold stepReader; (repeat' split) <;> rfl
@[simp] theorem stepReader_count (s : St) : (stepReader s).count = s.count := by
  unfold stepReader; (repeat' split) <;> rfl
@[simp] theorem stepReader_written (s : St) : (stepReader s).written = s.written := by
  unfold stepReader; (repeat' split) <;> rfl
@[simp] theorem stepReader_size (s : St) : (stepReader s).size = s.size := by
  unfold stepReader; (repeat' split) <;> rfl
@[simp] theorem stepReader_finished (s : St) : (stepReader s).finished = s.finished := by
  unfold stepReader; (repeat' split) <;> rfl
@[simp] theorem stepReader_hasWriter (s : St) : (stepReader s).hasWriter = s.hasWriter := by
  unfold stepReader; (repeat' split) <;> rfl
@[simp] theorem stepReader_nw (s : St) : (stepReader s).nw = s.nw := by
  unfold stepReader; (repeat' split) <;> rfl
@[simp] theorem stepReader_wpc (s : St) : (stepReader s).wpc = s.wpc := by
  unfold stepReader; (repeat' split) <;> rfl
@[simp] theorem stepReader_wres (s : St) : (stepReader s).wres = s.wres := by
  unfold stepReader; (repeat' split) <;> rfl
@[simp] theorem stepReader_log (s : St) : (stepReader s).log = s.log := by
  unfold stepReader; (repeat' split) <;> rfl
@[simp] theorem stepReader_bad (s : St) : (stepReader s).bad = s.bad := by
  unfold stepReader; (repeat' split) <;> rfl

/-- file `f` exists, is not finished and still has its writer -/
def Live (s : St) (f : Nat) : Prop := f < s.nfiles ∧ s.finished f = false ∧ s.hasWriter f = true

/-- ownership: the open queue and the writers' local files are pairwise disjoint, all live, and
    cover every unfinished file -/
structure Own (s : St) : Prop where
  open_nodup : s.open_.Nodup
  open_live : ∀ f, f ∈ s.open_ → Live s f
  own_live : ∀ w, w < s.nw → ∀ f, f ∈ own (s.wpc w) → Live s f
  own_nodup : ∀ w, w < s.nw → (own (s.wpc w)).Nodup
  own_open : ∀ w, w < s.nw → ∀ f, f ∈ own (s.wpc w) → f ∉ s.open_
  own_own : ∀ w w', w < s.nw → w' < s.nw → w ≠ w' → ∀ f, f ∈ own (s.wpc w) → f ∉ own (s.wpc w')
  unfin : ∀ f, f < s.nfiles → s.finished f = false →
    f ∈ s.open_ ∨ ∃ w, w < s.nw ∧ f ∈ own (s.wpc w)

theorem own_congr (s s' : St) (ho : s'.open_ = s.open_) (hnw : s'.nw = s.nw) (hwpc : s'.wpc = s.wpc)
    (hnf : s'.nfiles = s.nfiles) (hfin : s'.finished = s.finished) (hhw : s'.hasWriter = s.hasWriter)
    (h : Own s) : Own s' := by
  obtain ⟨h1, h2, h3, h4, h5, h6, h7⟩ := h
  constructor <;> simp only [Live, ho, hnw, hwpc, hnf, hfin, hhw] at * <;> assumption

theorem own_init (m : Nat) : Own (init m) := by
  constructor <;> simp [init, own, Live]

theorem own_stepReader (s : St) (h : Own s) : Own (stepReader s) :=
  own_congr s _ (by simp) (by simp) (by simp) (by simp) (by simp) (by simp) h

theorem own_stepPush (s : St) (w b sz : Nat) (h : Own s) (hw : w < s.nw) (hpc : s.wpc w = .idle) :
    Own (stepPush s w b sz) := by
  obtain ⟨h1, h2, h3, h4, h5, h6, h7⟩ := h
  unfold stepPush
  split
  · rename_i f rest hop
    rw [hop] at h1 h2 h5 h7
    constructor <;> simp only [Live, upd] at * <;> grind [own]
  · constructor <;> simp only [Live, upd] at * <;> grind [own]

theorem own_stepCreate (s : St) (w b sz : Nat) (ok : Bool) (h : Own s) (hw : w < s.nw)
    (hpc : s.wpc w = .creating b sz) : Own (stepCreate s w b sz ok) := by
  obtain ⟨h1, h2, h3, h4, h5, h6, h7⟩ := h
  unfold stepCreate
  split
  · constructor <;> simp only [Live, upd, wakePool_open_, wakePool_nw, wakePool_wpc, wakePool_nfiles,
      wakePool_finished, wakePool_hasWriter] at * <;> grind [own]
  · constructor <;> simp only [Live, upd] at * <;> grind [own]

theorem own_stepAppend (s : St) (w f b sz : Nat) (aok fok : Bool) (h : Own s) (hw : w < s.nw)
    (hpc : s.wpc w = .holding f b sz) : Own (stepAppend true s w f b sz aok fok) := by
  obtain ⟨h1, h2, h3, h4, h5, h6, h7⟩ := h
  have hl := h3 w hw f (by simp [hpc, own])
  unfold stepAppend
  simp only [hl.2.2, ↓reduceIte]
  split
  · split
    · split
      · constructor <;> simp only [Live, upd, finishFile_open_, finishFile_nw, finishFile_nfiles,
          finishFile_finished, finishFile_hasWriter, wakeFile_open_, wakeFile_nw, wakeFile_nfiles,
          wakeFile_finished, wakeFile_hasWriter] at * <;> grind [own]
      · constructor <;> simp only [Live, upd, finishFile_open_, finishFile_nw, finishFile_nfiles,
          finishFile_finished, finishFile_hasWriter, wakeFile_open_, wakeFile_nw, wakeFile_nfiles,
          wakeFile_finished, wakeFile_hasWriter] at * <;> grind [own]
    · constructor <;> simp only [Live, upd, wakeFile_open_, wakeFile_nw, wakeFile_nfiles,
          wakeFile_finished, wakeFile_hasWriter] at * <;> grind [own]
  · constructor <;> simp only [Live, upd, finishFile_open_, finishFile_nw, finishFile_nfiles,
          finishFile_finished, finishFile_hasWriter] at * <;> grind [own]

theorem own_stepGiveBack (s : St) (w f : Nat) (h : Own s) (hw : w < s.nw)
    (hpc : s.wpc w = .returning f) : Own (stepGiveBack s w f) := by
  obtain ⟨h1, h2, h3, h4, h5, h6, h7⟩ := h
  have hl := h3 w hw f (by simp [hpc, own])
  have hno := h5 w hw f (by simp [hpc, own])
  unfold stepGiveBack
  constructor <;> simp only [Live, upd, List.nodup_append, List.mem_append, List.mem_singleton] at * <;> grind [own]

theorem own_stepClone (s : St) (h : Own s) : Own (stepClone s) := by
  obtain ⟨h1, h2, h3, h4, h5, h6, h7⟩ := h
  unfold stepClone
  constructor <;> simp only [Live, upd] at * <;> grind [own]

theorem own_stepDrop (s : St) (w : Nat) (h : Own s) (hw : w < s.nw) (hpc : s.wpc w = .idle) :
    Own (stepDrop s w) := by
  obtain ⟨h1, h2, h3, h4, h5, h6, h7⟩ := h
  unfold stepDrop
  split
  · constructor <;> simp only [Live, upd] at * <;> grind [own]
  · split
    · constructor <;> simp only [Live, upd] at * <;> grind [own]
    · split
      · constructor <;> simp only [Live, upd, wakePool_open_, wakePool_nw, wakePool_wpc, wakePool_nfiles,
          wakePool_finished, wakePool_hasWriter] at * <;> grind [own]
      · rename_i f fs hop
        rw [hop] at h1 h2 h5 h7
        constructor <;> simp only [Live, upd] at * <;> grind [own]

theorem own_stepFinalize (s : St) (w : Nat) (fs : List Nat) (h : Own s) (hw : w < s.nw)
    (hpc : s.wpc w = .finalizing fs) : Own (stepFinalize s w fs) := by
  obtain ⟨h1, h2, h3, h4, h5, h6, h7⟩ := h
  unfold stepFinalize
  split
  · constructor <;> simp only [Live, upd, wakePool_open_, wakePool_nw, wakePool_wpc, wakePool_nfiles,
      wakePool_finished, wakePool_hasWriter] at * <;> grind [own]
  · rename_i f r
    have hl := h3 w hw
    have hnd := h4 w hw
    rw [hpc] at hl hnd
    constructor <;> simp only [Live, upd, finishFile_open_, finishFile_nw, finishFile_nfiles,
      finishFile_finished, finishFile_hasWriter] at * <;> grind [own]

/-- `Own` is preserved by every action of the repaired code -/
theorem own_step (s : St) (a : Act) (h : Own s) : Own (step true s a) := by
  cases a with
  | push w b sz =>
    simp only [step]; split
    · split <;> first | exact own_stepPush s w b sz h ‹_› ‹_› | exact h
    · exact h
  | create w ok =>
    simp only [step]; split
    · split <;> first | exact own_stepCreate s w _ _ ok h ‹_› ‹_› | exact h
    · exact h
  | append w aok fok =>
    simp only [step]; split
    · split <;> first | exact own_stepAppend s w _ _ _ aok fok h ‹_› ‹_› | exact h
    · exact h
  | giveBack w =>
    simp only [step]; split
    · split <;> first | exact own_stepGiveBack s w _ h ‹_› ‹_› | exact h
    · exact h
  | clone w =>
    simp only [step]; split
    · exact own_stepClone s h
    · exact h
  | drop w =>
    simp only [step]; split
    · split <;> first | exact own_stepDrop s w h ‹_› ‹_› | exact h
    · exact h
  | finalize w =>
    simp only [step]; split
    · split <;> first | exact own_stepFinalize s w _ h ‹_› ‹_› | exact h
    · exact h
  | reader => exact own_stepReader s h

end DfModel.Proofs.C16
