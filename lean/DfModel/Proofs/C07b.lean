/-
  C07 — the per-function instances of the laws, retraction, per-group accumulation. Core Lean only.
-/
import DfModel.Proofs.C07
namespace DfModel.Proofs.C07
open DfModel.Mech.AggAcc

abbrev NoInv {σ : Type} : σ → Prop := fun _ => True

/-! ### merge laws -/

theorem count_laws : MergeLaws count NoInv :=
  ⟨trivial, fun _ _ _ => trivial, fun s _ => by simp [count],
   fun s t v _ => by cases v <;> simp [count] <;> omega⟩
theorem count_comm : StepComm count := by
  intro s v w; cases v <;> cases w <;> simp [count]

theorem sum_laws : MergeLaws sum NoInv := optLaws _ BitVec.add_assoc
theorem sum_comm : StepComm sum := liftOpt_comm _ BitVec.add_assoc BitVec.add_comm
theorem min_laws : MergeLaws min NoInv := optLaws _ vmin_assoc
theorem min_comm : StepComm min := liftOpt_comm _ vmin_assoc vmin_comm
theorem max_laws : MergeLaws max NoInv := optLaws _ vmax_assoc
theorem max_comm : StepComm max := liftOpt_comm _ vmax_assoc vmax_comm
theorem bitAnd_laws : MergeLaws bitAnd NoInv := optLaws _ BitVec.and_assoc
theorem bitAnd_comm : StepComm bitAnd := liftOpt_comm _ BitVec.and_assoc BitVec.and_comm
theorem bitOr_laws : MergeLaws bitOr NoInv := optLaws _ BitVec.or_assoc
theorem bitOr_comm : StepComm bitOr := liftOpt_comm _ BitVec.or_assoc BitVec.or_comm
theorem bitXor_laws : MergeLaws bitXor NoInv := optLaws _ BitVec.xor_assoc
theorem bitXor_comm : StepComm bitXor := liftOpt_comm _ BitVec.xor_assoc BitVec.xor_comm

/-- invariant of `SlidingSumAccumulator`: an empty window has sum 0 (wrapping sub is exact) -/
def SumSlidingInv (s : V × Nat) : Prop := s.2 = 0 → s.1 = 0

theorem sumSliding_laws : MergeLaws sumSliding SumSlidingInv := by
  refine ⟨fun _ => rfl, ?_, ?_, ?_⟩
  · intro t v _; cases v <;> simp_all [sumSliding, SumSlidingInv]
  · intro s _; simp [sumSliding]
  · intro s t v ht
    cases v with
    | none => rfl
    | some x =>
      simp only [sumSliding, SumSlidingInv] at *
      by_cases h0 : t.2 = 0
      · simp [h0, ht h0]
      · simp [h0, BitVec.add_assoc]; omega
theorem sumSliding_comm : StepComm sumSliding := by
  intro s v w
  cases v <;> cases w <;> simp [sumSliding]
  rename_i a b
  rw [BitVec.add_assoc, BitVec.add_assoc, BitVec.add_comm a b]

theorem avg_laws : MergeLaws avg NoInv := by
  refine ⟨trivial, fun _ _ _ => trivial, ?_, ?_⟩
  · intro s _; simp [avg]
  · intro s t v _
    cases v with
    | none => rfl
    | some x =>
      obtain ⟨t1, t2⟩ := t
      cases t1 <;> simp [avg] <;> omega
theorem avg_comm : StepComm avg := by
  intro s v w
  cases v <;> cases w <;> simp [avg]
  omega

/-- invariant of first_value: the value is the typed NULL until a row has been seen -/
def FirstInv (s : NV × Bool) : Prop := s.2 = false → s.1 = none

theorem first_laws : MergeLaws first FirstInv := by
  refine ⟨fun _ => rfl, ?_, ?_, ?_⟩
  · intro t v ht; simp only [first, FirstInv] at *; split <;> simp_all
  · intro s hs
    obtain ⟨s1, s2⟩ := s
    cases s2
    · have h1 : s1 = none := hs rfl
      subst h1; rfl
    · rfl
  · intro s t v _
    obtain ⟨s1, s2⟩ := s
    cases s2 <;> simp [first]

theorem last_laws : MergeLaws last NoInv :=
  ⟨trivial, fun _ _ _ => trivial, fun s _ => by simp [last], fun s t v _ => by simp [last]⟩

/-! ### count distinct -/

def insertNew (acc : List V) (x : V) : List V := if acc.contains x then acc else acc ++ [x]

theorem mem_foldl_insertNew (s t : List V) (x : V) :
    x ∈ t.foldl insertNew s ↔ x ∈ s ∨ x ∈ t := by
  induction t generalizing s with
  | nil => simp
  | cons y t ih =>
    simp only [List.foldl_cons, ih, List.mem_cons]
    simp only [insertNew]
    split
    · rename_i hc
      have : y ∈ s := by simpa using hc
      constructor
      · rintro (h | h) <;> simp [h]
      · rintro (h | rfl | h) <;> simp_all
    · simp only [List.mem_append, List.mem_singleton]
      constructor
      · rintro ((h | h) | h) <;> simp [h]
      · rintro (h | h | h) <;> simp [h]

theorem countDistinct_laws : MergeLaws countDistinct NoInv := by
  refine ⟨trivial, fun _ _ _ => trivial, fun s _ => rfl, ?_⟩
  intro s t v _
  cases v with
  | none => rfl
  | some x =>
    show List.foldl insertNew s (if t.contains x then t else t ++ [x])
      = (if (List.foldl insertNew s t).contains x then List.foldl insertNew s t else List.foldl insertNew s t ++ [x])
    by_cases hx : t.contains x = true
    · have hm : x ∈ t := by simpa using hx
      have : (List.foldl insertNew s t).contains x = true := by
        simpa using (mem_foldl_insertNew s t x).mpr (Or.inr hm)
      rw [if_pos hx, if_pos this]
    · rw [if_neg hx]
      simp only [List.foldl_append, List.foldl_cons, List.foldl_nil]
      rfl

theorem nodup_insertNew (acc : List V) (x : V) (h : acc.Nodup) : (insertNew acc x).Nodup := by
  simp only [insertNew]
  split
  · exact h
  · rename_i hc
    have : x ∉ acc := by simpa using hc
    refine List.nodup_append.mpr ⟨h, by simp, ?_⟩
    intro a ha b hb
    simp only [List.mem_singleton] at hb
    subst hb
    intro e
    exact this (e ▸ ha)

theorem countDistinct_update_spec (s : List V) (hs : s.Nodup) (xs : List NV) :
    (countDistinct.update s xs).Nodup ∧
    ∀ x, x ∈ countDistinct.update s xs ↔ x ∈ s ∨ some x ∈ xs := by
  induction xs generalizing s with
  | nil => simp [Acc.update, hs]
  | cons y ys ih =>
    cases y with
    | none =>
      have := ih s hs
      simp only [Acc.update, List.foldl_cons] at this ⊢
      refine ⟨this.1, fun x => ?_⟩
      rw [show countDistinct.step s none = s from rfl] at *
      rw [this.2 x]; simp
    | some y =>
      have hstep : countDistinct.step s (some y) = insertNew s y := rfl
      have := ih (insertNew s y) (nodup_insertNew s y hs)
      simp only [Acc.update, List.foldl_cons, hstep] at this ⊢
      refine ⟨this.1, fun x => ?_⟩
      rw [this.2 x]
      simp only [insertNew]
      split
      · rename_i hc
        have : y ∈ s := by simpa using hc
        constructor
        · rintro (h | h) <;> simp [h]
        · rintro (h | h)
          · simp [h]
          · rcases List.mem_cons.mp h with h | h
            · simp only [Option.some.injEq] at h; subst h; simp [this]
            · simp [h]
      · simp only [List.mem_append, List.mem_cons, List.not_mem_nil, or_false, Option.some.injEq]
        constructor
        · rintro ((h | h) | h)
          · exact Or.inl h
          · exact Or.inr (Or.inl h)
          · exact Or.inr (Or.inr h)
        · rintro (h | h | h)
          · exact Or.inl (Or.inl h)
          · exact Or.inl (Or.inr h)
          · exact Or.inr h

/-- count(distinct) does not depend on the order of the rows -/
theorem countDistinct_perm {xs ys : List NV} (p : xs.Perm ys) :
    countDistinct.eval (countDistinct.update countDistinct.init xs)
      = countDistinct.eval (countDistinct.update countDistinct.init ys) := by
  obtain ⟨n1, m1⟩ := countDistinct_update_spec [] List.nodup_nil xs
  obtain ⟨n2, m2⟩ := countDistinct_update_spec [] List.nodup_nil ys
  have : (countDistinct.update countDistinct.init xs).Perm (countDistinct.update countDistinct.init ys) := by
    refine (List.perm_ext_iff_of_nodup n1 n2).mpr (fun x => ?_)
    show x ∈ countDistinct.update [] xs ↔ x ∈ countDistinct.update [] ys
    rw [m1, m2]
    simp only [List.not_mem_nil, false_or]
    exact p.mem_iff
  simp only [countDistinct]
  exact congrArg Int.ofNat this.length_eq

end DfModel.Proofs.C07
