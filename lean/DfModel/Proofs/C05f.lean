/-
  C05 — the chunked nested loop join (memory-limited fallback) refines the spec.  Core Lean only.
-/
import DfModel.Mech.NljChunked
import DfModel.Proofs.C05e
namespace DfModel.Proofs.C05
open DfModel.Mech.Join DfModel.Mech.Nlj
open List

/-- nested `flatMap`s commute up to permutation -/
theorem flatMap_comm_perm {α β γ : Type} (xs : List α) (ys : List β) (g : α → β → List γ) :
    (ys.flatMap fun y => xs.flatMap fun x => g x y) ~ (xs.flatMap fun x => ys.flatMap fun y => g x y) := by
  induction xs with
  | nil => simp [flatMap_nil']
  | cons x xs ih =>
    simp only [flatMap_cons]
    exact (flatMap_append_perm' ys _ _).trans (Perm.append_left _ ih)

theorem rowSpec_split (c : Cfg) (L : List Row) (r : Row) :
    rowSpec c L r = pairs c L r ++ rightEmit c (L.any (c.matches · r)) r := by
  cases hjt : c.jt <;> simp [rowSpec, pairs, rightEmit, hjt]

theorem pairs_flatten (c : Cfg) (chunks : List (List Row)) (r : Row) :
    pairs c chunks.flatten r = chunks.flatMap fun ch => pairs c ch r := by
  cases hjt : c.jt <;> simp only [pairs, hjt, flatMap_nil']
  all_goals (induction chunks with
    | nil => rfl
    | cons ch chs ih => simp only [flatten_cons, filter_append, map_append, flatMap_cons, ih])

theorem chunkLeftEmit_eq (c : Cfg) (chunk R : List Row) : chunkLeftEmit c chunk R = leftFinal c chunk R := by
  cases hjt : c.jt <;> simp [chunkLeftEmit, leftFinal, hjt]

theorem any_flatten' (c : Cfg) (chunks : List (List Row)) (r : Row) :
    chunks.flatten.any (c.matches · r) = globalRightMatched c chunks r := by
  unfold globalRightMatched
  induction chunks with
  | nil => rfl
  | cons ch chs ih => simp only [flatten_cons, any_append, any_cons, ih]

theorem leftFinal_flatten (c : Cfg) (chunks : List (List Row)) (R : List Row) :
    leftFinal c chunks.flatten R = chunks.flatMap fun ch => leftFinal c ch R := by
  rw [leftFinal_eq_flatMap]
  induction chunks with
  | nil => rfl
  | cons ch chs ih => simp only [flatten_cons, flatMap_append, flatMap_cons, ih, leftFinal_eq_flatMap]

/-- **any partition of the left side into chunks**: per-chunk pairs and per-chunk left emission plus
    ONE global right emission at the end is the join -/
theorem nljChunked_perm (c : Cfg) (chunks : List (List Row)) (R : List Row) :
    nljChunked c chunks R ~ c.spec chunks.flatten R := by
  refine Perm.trans ?_ (spec_decomp c chunks.flatten R).symm
  unfold nljChunked
  have hrow : (fun r => rowSpec c chunks.flatten r) =
      fun r => (chunks.flatMap fun ch => pairs c ch r) ++ rightEmit c (globalRightMatched c chunks r) r := by
    funext r
    rw [rowSpec_split, pairs_flatten, any_flatten']
  rw [show rowSpec c chunks.flatten = fun r => rowSpec c chunks.flatten r from rfl, hrow, leftFinal_flatten]
  simp only [chunkLeftEmit_eq]
  -- LHS: chunks.flatMap (A ch ++ B ch) ++ RF        RHS: R.flatMap (P r ++ RF r) ++ chunks.flatMap B
  refine ((flatMap_append_perm' chunks _ _).append_right _).trans ?_
  refine Perm.trans ?_ ((flatMap_append_perm' R _ _).append_right _).symm
  refine Perm.trans ?_ (((flatMap_comm_perm chunks R (fun ch r => pairs c ch r)).append_right _).append_right _).symm
  -- (PA ++ LF) ++ RF ~ (PA ++ RF) ++ LF
  simp only [append_assoc]
  exact Perm.append_left _ perm_append_comm

end DfModel.Proofs.C05
