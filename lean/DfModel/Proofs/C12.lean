/-
  Helper lemmas for C12: every kernel of `create_hashes` computes, row by row, the logical hash
  `lhash ty rehash prev (logical value)`.  Core Lean only.
-/
import DfModel.Mech.RowHash
namespace DfModel.Proofs.C12
open DfModel.Mech.RowHash
open List

/-! ### generic row lemmas -/

/-- a kernel that walks `zip buf xs` with the row index computes a `zipWith` against the logical
    column, provided each row agrees -/
theorem rows_lemma {α β γ : Type} (V : α → β) (r : (Nat × β) × Nat → Nat) (f : Nat → γ → Nat)
    (G : α × Nat → γ) : ∀ (xs : List α) (buf : List Nat) (k : Nat),
    (∀ h x i, (x, i) ∈ xs.zipIdx k → r ((h, V x), i) = f h (G (x, i))) →
    ((List.zip buf (xs.map V)).zipIdx k).map r = List.zipWith f buf ((xs.zipIdx k).map G) := by
  intro xs
  induction xs with
  | nil => intro buf k _; simp
  | cons x xs ih =>
    intro buf k h
    cases buf with
    | nil => simp
    | cons b buf =>
      simp only [map_cons, zip_cons_cons, zipIdx_cons, zipWith_cons_cons]
      rw [h b x k (by simp)]
      congr 1
      apply ih
      intro h' x' i hm
      exact h h' x' i (by simp [hm])

theorem rows_lemma' {α γ : Type} (r : (Nat × α) × Nat → Nat) (f : Nat → γ → Nat)
    (G : α × Nat → γ) (xs : List α) (buf : List Nat) (k : Nat)
    (h : ∀ h x i, (x, i) ∈ xs.zipIdx k → r ((h, x), i) = f h (G (x, i))) :
    ((List.zip buf xs).zipIdx k).map r = List.zipWith f buf ((xs.zipIdx k).map G) := by
  have := rows_lemma (fun x => x) r f G xs buf k h
  simpa using this

theorem count_false_zero {bs : List Bool} (h : bs.count false = 0) : ∀ i, bs.getD i true = true := by
  intro i
  rw [count_eq_zero] at h
  rw [getD_eq_getElem?_getD]
  cases hi : bs[i]? with
  | none => rfl
  | some b =>
    have := mem_of_getElem? hi
    cases b
    · exact absurd this h
    · rfl

theorem isValid_of_nullCount_zero {v : Validity} (h : v.nullCount = 0) (i : Nat) : v.isValid i = true := by
  cases v with
  | none => rfl
  | some bs => exact count_false_zero h i

theorem zipWith_zipIdx_fast {α γ : Type} (upd : Nat → α → Nat) (f : Nat → γ → Nat) (G : α × Nat → γ) :
    ∀ (xs : List α) (buf : List Nat) (k : Nat),
    (∀ h x i, (x, i) ∈ xs.zipIdx k → upd h x = f h (G (x, i))) →
    List.zipWith upd buf xs = List.zipWith f buf ((xs.zipIdx k).map G) := by
  intro xs
  induction xs with
  | nil => intro buf k _; simp
  | cons x xs ih =>
    intro buf k h
    cases buf with
    | nil => simp
    | cons b buf =>
      simp only [zipIdx_cons, map_cons, zipWith_cons_cons]
      rw [h b x k (by simp)]
      congr 1
      apply ih
      intro h' x' i hm
      exact h h' x' i (by simp [hm])

/-- the flat kernels (primitive / byte array / view): fast path and `valid_indices` path both
    compute `f prev (logical row)` -/
theorem flatKernel_spec {α : Type} (upd : Nat → α → Nat) (valid : Validity) (xs : List α)
    (buf : List Nat) (g : α → LVal) (f : Nat → LVal → Nat)
    (hf : ∀ h x, x ∈ xs → f h (g x) = upd h x) (hn : ∀ h, f h .null = h) :
    flatKernel upd valid xs buf =
      List.zipWith f buf (xs.zipIdx.map fun (x, i) => if valid.isValid i then g x else .null) := by
  unfold flatKernel
  split
  · rename_i h0
    apply zipWith_zipIdx_fast
    intro h x i hm
    simp only [isValid_of_nullCount_zero h0, ite_true]
    exact (hf h x (by
      have := fst_mem_of_mem_zipIdx hm
      exact this)).symm
  · apply rows_lemma'
    intro h x i hm
    have hx : x ∈ xs := fst_mem_of_mem_zipIdx hm
    by_cases hv : valid.isValid i = true
    · simp [hv, hf h x hx]
    · simp [hv, hn]

theorem lhash_null (H : Hasher) (ty : Ty) (rehash : Bool) (prev : Nat) :
    lhash H ty rehash prev .null = prev := by
  cases ty <;> simp [lhash]

theorem zipWith_zeros {γ : Type} (f : Nat → γ → Nat) (ls : List γ) (n : Nat) (h : ls.length = n) :
    List.zipWith f (zeros n) ls = ls.map (f 0) := by
  subst h
  induction ls with
  | nil => simp [zeros]
  | cons l ls ih =>
    simp only [zeros, length_cons, replicate_succ, zipWith_cons_cons, map_cons] at ih ⊢
    rw [ih]

theorem windows_length : ∀ (os : List Nat), (windows os).length = os.length - 1
  | [] => rfl
  | [_] => rfl
  | a :: b :: rest => by
    simp only [windows, length_cons]
    rw [windows_length (b :: rest)]
    simp

theorem slice_map {α β : Type} (f : α → β) (xs : List α) (a b : Nat) :
    slice (xs.map f) a b = (slice xs a b).map f := by
  simp [slice, map_take, map_drop]

/-! ### well-formed arrays -/

def LVal.isNull : LVal → Bool
  | .null => true
  | _ => false

/-- logical NULLs are exactly the rows whose physical validity bit is unset -/
def VisibleNulls (p : Phys) : Prop :=
  ∀ i, i < p.len → (LVal.isNull (p.logical.getD i .null) = !p.physValid i)

def validLen (v : Validity) (n : Nat) : Prop :=
  match v with
  | none => True
  | some bs => bs.length = n

def viewWF (bufs : List (List Nat)) : View → Prop
  | .inline len data => len ≤ 12 ∧ data = data.take len ++ List.replicate (12 - len) 0 ∧ data.length = 12
  | .ref len buf off => 12 < len ∧ buf < bufs.length ∧ off + len ≤ (bufs.getD buf []).length

/-- Arrow's validity rules that the kernels rely on -/
def WF : Phys → Prop
  | .prim vals v => validLen v vals.length
  | .bytes offsets _ v => validLen v (offsets.length - 1)
  | .view views bufs v => validLen v views.length ∧ ∀ w ∈ views, viewWF bufs w
  | .dict keys kv values =>
    validLen kv keys.length ∧ WF values ∧ VisibleNulls values ∧
      ∀ ki ∈ keys.zipIdx, kv.isValid ki.2 = true → ki.1 < values.len
  | .ree runEnds values offset len =>
    WF values ∧ VisibleNulls values ∧ runEnds.length ≤ values.len ∧
      (len ≠ 0 → (reeExpand (fun _ => ()) (reeRuns offset len runEnds 0) 0).length = len)
  | .list offsets child v => validLen v (offsets.length - 1) ∧ WF child
  | .struct c1 c2 v len => validLen v len ∧ WF c1 ∧ WF c2 ∧ c1.len = len ∧ c2.len = len

theorem reeExpand_length {α β : Type} (f : Nat → α) (g : Nat → β) :
    ∀ (rs : List (Nat × Nat)) (s : Nat), (reeExpand f rs s).length = (reeExpand g rs s).length
  | [], _ => rfl
  | (e, i) :: rs, s => by
    simp only [reeExpand, length_append, length_replicate]
    rw [reeExpand_length f g rs e]

theorem logical_length : ∀ (p : Phys), WF p → p.logical.length = p.len
  | .prim vals v, _ => by simp [Phys.logical, Phys.len]
  | .bytes offsets data v, _ => by simp [Phys.logical, Phys.len, windows_length]
  | .view views bufs v, _ => by simp [Phys.logical, Phys.len]
  | .dict keys kv values, _ => by simp [Phys.logical, Phys.len]
  | .ree runEnds values offset len, h => by
    simp only [Phys.logical, Phys.len]
    split
    · rename_i h0; simp [h0]
    · rename_i h0
      rw [reeExpand_length _ (fun _ => ())]
      exact h.2.2.2 h0
  | .list offsets child v, _ => by simp [Phys.logical, Phys.len, windows_length]
  | .struct c1 c2 v len, h => by
    simp only [Phys.logical, Phys.len, length_map, length_zipIdx, length_zip]
    rw [logical_length c1 h.2.1, logical_length c2 h.2.2.1, h.2.2.2.1, h.2.2.2.2]
    simp

end DfModel.Proofs.C12
