/-
  Helper lemmas for C40 (LRU/TTL cache). Core Lean only.
-/
import DfModel.Sm.Lru
namespace DfModel.Proofs.C40
open DfModel.Sm.Lru

/-! ### queue lemmas -/

@[simp] theorem sumSizes_nil : sumSizes [] = 0 := rfl
@[simp] theorem sumSizes_cons (e : Ent) (q : List Ent) : sumSizes (e :: q) = entSize e + sumSizes q := by
  simp [sumSizes]
@[simp] theorem sumSizes_append (a b : List Ent) : sumSizes (a ++ b) = sumSizes a + sumSizes b := by
  simp [sumSizes, List.sum_append]

theorem findEnt_some {q : List Ent} {k : Key} {e : Ent} (h : findEnt q k = some e) : e ∈ q ∧ e.key = k := by
  unfold findEnt at h
  refine ⟨List.mem_of_find?_eq_some h, ?_⟩
  have := List.find?_some h
  simpa using this

theorem findEnt_none {q : List Ent} {k : Key} (h : findEnt q k = none) : k ∉ keys q := by
  unfold findEnt at h
  rw [List.find?_eq_none] at h
  intro hm
  simp only [keys, List.mem_map] at hm
  obtain ⟨e, he, rfl⟩ := hm
  have := h e he
  simp at this

theorem findEnt_isSome_iff (q : List Ent) (k : Key) : (findEnt q k).isSome ↔ k ∈ keys q := by
  constructor
  · intro h
    cases hf : findEnt q k with
    | none => rw [hf] at h; cases h
    | some e =>
      obtain ⟨hm, hk⟩ := findEnt_some hf
      simp only [keys, List.mem_map]
      exact ⟨e, hm, hk⟩
  · intro h
    cases hf : findEnt q k with
    | none => exact absurd h (findEnt_none hf)
    | some e => rfl

theorem mem_removeKey {q : List Ent} {k : Key} {e : Ent} : e ∈ removeKey q k ↔ e ∈ q ∧ e.key ≠ k := by
  simp [removeKey]

theorem removeKey_sublist (q : List Ent) (k : Key) : (removeKey q k).Sublist q := by
  unfold removeKey; exact List.filter_sublist

theorem not_mem_keys_removeKey (q : List Ent) (k : Key) : k ∉ keys (removeKey q k) := by
  simp only [keys, List.mem_map, not_exists, not_and]
  intro e he
  exact (mem_removeKey.mp he).2

theorem removeKey_absent {q : List Ent} {k : Key} (h : k ∉ keys q) : removeKey q k = q := by
  unfold removeKey
  rw [List.filter_eq_self]
  intro e he
  simp only [decide_eq_true_eq]
  intro hk
  exact h (by simp only [keys, List.mem_map]; exact ⟨e, he, hk⟩)

theorem keys_removeKey_nodup {q : List Ent} (k : Key) (h : (keys q).Nodup) : (keys (removeKey q k)).Nodup := by
  unfold keys at *
  exact List.Nodup.sublist ((removeKey_sublist q k).map _) h

theorem sum_removeKey {q : List Ent} {k : Key} {e : Ent} (hnd : (keys q).Nodup) (hf : findEnt q k = some e) :
    sumSizes (removeKey q k) + entSize e = sumSizes q := by
  induction q with
  | nil => simp [findEnt] at hf
  | cons x xs ih =>
    simp only [keys, List.map_cons, List.nodup_cons] at hnd
    by_cases hx : x.key = k
    · have hxe : x = e := by
        simp [findEnt, hx] at hf; exact hf
      have habs : k ∉ keys xs := by rw [← hx]; exact hnd.1
      have : removeKey (x :: xs) k = removeKey xs k := by simp [removeKey, hx]
      rw [this, removeKey_absent habs, sumSizes_cons, hxe]; omega
    · have hf' : findEnt xs k = some e := by
        simpa [findEnt, List.find?_cons, hx] using hf
      have : removeKey (x :: xs) k = x :: removeKey xs k := by simp [removeKey, hx]
      rw [this, sumSizes_cons, sumSizes_cons]
      have := ih hnd.2 hf'
      omega

theorem entSize_le_sum {q : List Ent} {e : Ent} (h : e ∈ q) : entSize e ≤ sumSizes q := by
  induction q with
  | nil => cases h
  | cons x xs ih =>
    rw [sumSizes_cons]
    rcases List.mem_cons.mp h with rfl | h
    · omega
    · have := ih h; omega

/-! ### the invariant -/

/-- `T` bounds the ghost stamps (it is `tick` between operations, `tick+1` inside one) -/
structure Inv0 (s : St) (T : Nat) : Prop where
  nodup : (keys s.q).Nodup
  used_eq : s.used = sumSizes s.q
  le_limit : s.used ≤ s.limit
  ok : s.panicked = false
  sorted : s.q.Pairwise (fun a b => a.stamp < b.stamp)
  fresh : ∀ e ∈ s.q, e.stamp < T

def CacheInv (s : St) : Prop := Inv0 s s.tick

theorem Inv0.mono {s : St} {T T' : Nat} (h : Inv0 s T) (hT : T ≤ T') : Inv0 s T' :=
  { h with fresh := fun e he => Nat.lt_of_lt_of_le (h.fresh e he) hT }

theorem inv_init (limit : Nat) (ttl : Option Nat) : CacheInv (init limit ttl) := by
  refine ⟨?_, ?_, ?_, ?_, ?_, ?_⟩ <;> simp [init, keys]

/-! ### remove -/

theorem removeSt_spec {s : St} {T : Nat} (k : Key) (h : Inv0 s T) :
    Inv0 (removeSt s k).1 T ∧ (removeSt s k).1.q = removeKey s.q k ∧
    (removeSt s k).1.limit = s.limit ∧ (removeSt s k).1.tick = s.tick ∧
    (removeSt s k).1.ttl = s.ttl ∧ (removeSt s k).1.now = s.now ∧
    (removeSt s k).2 = (findEnt s.q k).map (·.val) := by
  unfold removeSt
  cases hf : findEnt s.q k with
  | none =>
    simp only [Option.map_none]
    exact ⟨h, (removeKey_absent (findEnt_none hf)).symm, by trivial, by trivial, by trivial, by trivial, by trivial⟩
  | some e =>
    obtain ⟨hm, hk⟩ := findEnt_some hf
    have hsum := sum_removeKey h.nodup hf
    have hu := h.used_eq
    have hes : entSize e = k.size + e.val.size := by simp [entSize, hk]
    have h1 : k.size ≤ s.used := by omega
    have h2 : e.val.size ≤ s.used - k.size := by omega
    simp only [subUsed, h1, h2, if_true, Option.map_some]
    refine ⟨⟨?_, ?_, ?_, ?_, ?_, ?_⟩, by trivial, by trivial, by trivial, by trivial, by trivial, by trivial⟩
    · exact keys_removeKey_nodup k h.nodup
    · simp only; omega
    · have := h.le_limit; simp only; omega
    · exact h.ok
    · exact List.Pairwise.sublist (removeKey_sublist _ _) h.sorted
    · intro x hx; exact h.fresh x (mem_removeKey.mp hx).1

/-! ### eviction -/

theorem evictAux_spec (limit : Nat) (q : List Ent) (used : Nat) (h : used = sumSizes q) :
    ∃ n, (evictAux limit q used false).1 = q.drop n ∧
      (evictAux limit q used false).2.2.2 = (q.take n).map (·.key) ∧
      (evictAux limit q used false).2.1 = sumSizes (q.drop n) ∧
      (evictAux limit q used false).2.2.1 = false ∧
      sumSizes (q.drop n) ≤ limit ∧
      (∀ m, m < n → limit < sumSizes (q.drop m)) := by
  induction q generalizing used with
  | nil =>
    subst h
    refine ⟨0, ?_⟩
    simp [evictAux]
  | cons e rest ih =>
    rw [sumSizes_cons] at h
    by_cases hgt : used > limit
    · have h1 : e.key.size ≤ used := by simp only [entSize] at h; omega
      have h2 : e.val.size ≤ used - e.key.size := by simp only [entSize] at h; omega
      have hu : used - e.key.size - e.val.size = sumSizes rest := by simp only [entSize] at h; omega
      obtain ⟨n, a, b, c, d, f, g⟩ := ih (used - e.key.size - e.val.size) hu
      refine ⟨n + 1, ?_⟩
      simp only [evictAux, hgt, if_true, h1, h2, List.drop_succ_cons, List.take_succ_cons,
        List.map_cons]
      refine ⟨a, by rw [b], c, d, f, ?_⟩
      intro m hm
      cases m with
      | zero => simp only [List.drop_zero, sumSizes_cons]; omega
      | succ m => simp only [List.drop_succ_cons]; exact g m (by omega)
    · refine ⟨0, ?_⟩
      simp only [evictAux, hgt, if_false, List.drop_zero, List.take_zero, List.map_nil, sumSizes_cons]
      refine ⟨by trivial, by trivial, h, by trivial, by omega, ?_⟩
      intro m hm; omega

/-- what `evict_entries` does to a state whose accounting is exact: it drops a prefix of the queue
    (the least recently used entries), the shortest one that brings the sum within the limit -/
theorem evictSt_spec {s : St} {T : Nat}
    (hnd : (keys s.q).Nodup) (hu : s.used = sumSizes s.q) (hok : s.panicked = false)
    (hs : s.q.Pairwise (fun a b => a.stamp < b.stamp)) (hf : ∀ e ∈ s.q, e.stamp < T) :
    Inv0 (evictSt s) T ∧ (evictSt s).limit = s.limit ∧ (evictSt s).tick = s.tick ∧
    (evictSt s).ttl = s.ttl ∧ (evictSt s).now = s.now ∧
    ∃ n, (evictSt s).q = s.q.drop n ∧ (∀ m, m < n → s.limit < sumSizes (s.q.drop m)) := by
  obtain ⟨n, a, b, c, d, f, g⟩ := evictAux_spec s.limit s.q s.used hu
  unfold evictSt
  rw [hok]
  refine ⟨⟨?_, ?_, ?_, ?_, ?_, ?_⟩, rfl, rfl, rfl, rfl, n, a, g⟩
  · simp only [a]
    unfold keys at *
    exact List.Nodup.sublist ((List.drop_sublist n s.q).map _) hnd
  · simp only [a, c]
  · simp only [c]; exact f
  · exact d
  · simp only [a]; exact List.Pairwise.sublist (List.drop_sublist n s.q) hs
  · simp only [a]; intro e he; exact hf e (List.mem_of_mem_drop he)


/-! ### pushing an entry at the most-recently-used end -/

theorem keys_append (a b : List Ent) : keys (a ++ b) = keys a ++ keys b := by simp [keys]

theorem push_pre {s : St} (h : Inv0 s s.tick) (k : Key) (ent : Ent) (hk : ent.key = k)
    (hst : ent.stamp = s.tick) :
    (keys (removeKey s.q k ++ [ent])).Nodup ∧
    (removeKey s.q k ++ [ent]).Pairwise (fun a b => a.stamp < b.stamp) ∧
    (∀ e ∈ removeKey s.q k ++ [ent], e.stamp < s.tick + 1) := by
  refine ⟨?_, ?_, ?_⟩
  · rw [keys_append, List.nodup_append]
    refine ⟨keys_removeKey_nodup k h.nodup, by simp [keys], ?_⟩
    intro a ha b hb
    simp only [keys, List.map_cons, List.map_nil, List.mem_singleton] at hb
    subst hb
    intro hab
    subst hab
    rw [hk] at ha
    exact not_mem_keys_removeKey _ _ ha
  · rw [List.pairwise_append]
    refine ⟨List.Pairwise.sublist (removeKey_sublist _ _) h.sorted, by simp, ?_⟩
    intro a ha b hb
    simp only [List.mem_singleton] at hb
    subst hb
    rw [hst]
    exact h.fresh a (mem_removeKey.mp ha).1
  · intro e he
    rcases List.mem_append.mp he with he | he
    · have := h.fresh e (mem_removeKey.mp he).1; omega
    · simp only [List.mem_singleton] at he; subst he; omega

/-! ### put -/

/-- the state of an accepted `put` after `lru_queue.put` and before the old entry is subtracted -/
def pushed (s : St) (k : Key) (ent : Ent) : St :=
  { s with used := s.used + (k.size + ent.val.size), hits := hitsInsert s.hits k 0,
           q := removeKey s.q k ++ [ent] }

def newEnt (s : St) (k : Key) (v : Val) : Ent :=
  { key := k, val := v, expires := s.ttl.map (s.now + ·), stamp := s.tick }

theorem putSt_accept {s : St} {k : Key} {v : Val} (hz : v.size ≠ 0) (hbig : ¬ k.size + v.size > s.limit) :
    putSt s k v =
      (evictSt (match findEnt s.q k with
        | none => pushed s k (newEnt s k v)
        | some o => subUsed (subUsed (pushed s k (newEnt s k v)) k.size) o.val.size),
       (findEnt s.q k).map (·.val)) := by
  simp only [putSt, hz, hbig, if_false, pushed, newEnt]
  rfl

/-- the pre-eviction state of an accepted `put`: accounting is exact again -/
theorem put_pre_sum {s : St} (h : Inv0 s s.tick) (k : Key) (ent : Ent) (hk : ent.key = k) :
    (match findEnt s.q k with
      | none => pushed s k ent
      | some o => subUsed (subUsed (pushed s k ent) k.size) o.val.size)
    = { pushed s k ent with used := sumSizes (removeKey s.q k ++ [ent]) } := by
  have hes : entSize ent = k.size + ent.val.size := by simp [entSize, hk]
  cases hf : findEnt s.q k with
  | none =>
    simp only [pushed]
    rw [removeKey_absent (findEnt_none hf), sumSizes_append, sumSizes_cons, sumSizes_nil, ← h.used_eq, hes]
    rfl
  | some o =>
    obtain ⟨hm, hko⟩ := findEnt_some hf
    have hsum := sum_removeKey h.nodup hf
    have hu := h.used_eq
    have heo : entSize o = k.size + o.val.size := by simp [entSize, hko]
    have h1 : k.size ≤ s.used + (k.size + ent.val.size) := by omega
    have h2 : o.val.size ≤ s.used + (k.size + ent.val.size) - k.size := by omega
    simp only [subUsed, pushed, h1, h2, if_true]
    rw [sumSizes_append, sumSizes_cons, sumSizes_nil, hes]
    congr 1
    omega

theorem putSt_spec {s : St} (k : Key) (v : Val) (h : Inv0 s s.tick) :
    Inv0 (putSt s k v).1 (s.tick + 1) ∧ (putSt s k v).1.limit = s.limit ∧ (putSt s k v).1.tick = s.tick ∧
    (putSt s k v).1.ttl = s.ttl ∧ (putSt s k v).1.now = s.now := by
  by_cases hz : v.size = 0
  · simp only [putSt, hz, if_true]
    obtain ⟨a, _, b, c, d, e, _⟩ := removeSt_spec k h
    exact ⟨a.mono (by omega), b, c, d, e⟩
  · by_cases hbig : k.size + v.size > s.limit
    · simp only [putSt, hz, hbig, if_true, if_false]
      obtain ⟨a, _, b, c, d, e, _⟩ := removeSt_spec k h
      exact ⟨a.mono (by omega), b, c, d, e⟩
    · rw [putSt_accept hz hbig, put_pre_sum h k (newEnt s k v) rfl]
      obtain ⟨p1, p2, p3⟩ := push_pre h k (newEnt s k v) rfl rfl
      obtain ⟨a, b, c, d, e, _⟩ := evictSt_spec (T := s.tick + 1)
        (s := { pushed s k (newEnt s k v) with used := sumSizes (removeKey s.q k ++ [newEnt s k v]) })
        p1 rfl h.ok p2 p3
      exact ⟨a, b, c, d, e⟩

/-! ### get / contains -/

theorem getSt_spec {s : St} (k : Key) (h : Inv0 s s.tick) :
    Inv0 (getSt s k).1 (s.tick + 1) ∧ (getSt s k).1.limit = s.limit ∧ (getSt s k).1.tick = s.tick ∧
    (getSt s k).1.ttl = s.ttl ∧ (getSt s k).1.now = s.now := by
  unfold getSt
  cases hf : findEnt s.q k with
  | none => exact ⟨h.mono (by omega), by trivial, by trivial, by trivial, by trivial⟩
  | some e =>
    obtain ⟨hm, hke⟩ := findEnt_some hf
    obtain ⟨p1, p2, p3⟩ := push_pre h k { e with stamp := s.tick } hke rfl
    have hsum := sum_removeKey h.nodup hf
    have hs1 : Inv0 { s with q := removeKey s.q k ++ [{ e with stamp := s.tick }] } (s.tick + 1) := by
      refine ⟨p1, ?_, h.le_limit, h.ok, p2, p3⟩
      simp only [sumSizes_append, sumSizes_cons, sumSizes_nil]
      have : entSize { e with stamp := s.tick } = entSize e := rfl
      rw [this, h.used_eq]; omega
    simp only
    split
    · obtain ⟨a, _, b, c, d, e', _⟩ := removeSt_spec k hs1
      exact ⟨a, b, c, d, e'⟩
    · exact ⟨⟨hs1.nodup, hs1.used_eq, hs1.le_limit, hs1.ok, hs1.sorted, hs1.fresh⟩,
        by trivial, by trivial, by trivial, by trivial⟩

theorem containsSt_spec {s : St} (k : Key) (h : Inv0 s s.tick) :
    Inv0 (containsSt s k).1 (s.tick + 1) ∧ (containsSt s k).1.limit = s.limit ∧
    (containsSt s k).1.tick = s.tick ∧ (containsSt s k).1.ttl = s.ttl ∧ (containsSt s k).1.now = s.now := by
  unfold containsSt
  cases hf : findEnt s.q k with
  | none => exact ⟨h.mono (by omega), by trivial, by trivial, by trivial, by trivial⟩
  | some e =>
    simp only
    split
    · obtain ⟨a, _, b, c, d, e', _⟩ := removeSt_spec k h
      exact ⟨a.mono (by omega), b, c, d, e'⟩
    · exact ⟨h.mono (by omega), by trivial, by trivial, by trivial, by trivial⟩

/-! ### drop_table_entries -/

theorem dropKeys_spec {s : St} {T : Nat} (ks : List Key) (h : Inv0 s T) :
    Inv0 (dropKeys s ks) T ∧ (dropKeys s ks).q = s.q.filter (fun e => decide (e.key ∉ ks)) ∧
    (dropKeys s ks).limit = s.limit ∧ (dropKeys s ks).tick = s.tick ∧
    (dropKeys s ks).ttl = s.ttl ∧ (dropKeys s ks).now = s.now := by
  induction ks generalizing s with
  | nil => exact ⟨h, by simp only [dropKeys, List.not_mem_nil, not_false_eq_true, decide_true]; exact (List.filter_eq_self.mpr (fun _ _ => rfl)).symm, rfl, rfl, rfl, rfl⟩
  | cons k ks ih =>
    obtain ⟨a, b, c, d, e, f, _⟩ := removeSt_spec k h
    obtain ⟨a', b', c', d', e', f'⟩ := ih a
    simp only [dropKeys]
    refine ⟨a', ?_, by rw [c', c], by rw [d', d], by rw [e', e], by rw [f', f]⟩
    rw [b', b, removeKey, List.filter_filter]
    congr 1
    funext x
    simp only [List.mem_cons, not_or, ne_eq, decide_not, Bool.and_comm]
    by_cases h1 : x.key = k <;> by_cases h2 : x.key ∈ ks <;> simp [h1, h2]

theorem dropTable_q {s : St} (t : Nat) :
    s.q.filter (fun e => decide (e.key ∉ (keys s.q).filter (fun k => decide (k.table = some t))))
      = s.q.filter (fun e => decide (e.key.table ≠ some t)) := by
  apply List.filter_congr
  intro e he
  have : e.key ∈ keys s.q := by simp only [keys, List.mem_map]; exact ⟨e, he, rfl⟩
  simp [List.mem_filter, this]


/-! ### where the entries of the next state come from -/

/-- key, value and expiry stamp of an entry (everything but the ghost stamp) -/
def core (e : Ent) : Key × Val × Option Nat := (e.key, e.val, e.expires)

theorem pairwise_take_drop {α : Type} {R : α → α → Prop} {l : List α} (h : l.Pairwise R) (n : Nat)
    {a b : α} (ha : a ∈ l.take n) (hb : b ∈ l.drop n) : R a b := by
  have := List.take_append_drop n l
  rw [← this, List.pairwise_append] at h
  exact h.2.2 a ha b hb

theorem putSt_accept_q {s : St} {k : Key} {v : Val} (h : Inv0 s s.tick)
    (hz : v.size ≠ 0) (hbig : ¬ k.size + v.size > s.limit) :
    ∃ n, n ≤ (removeKey s.q k).length ∧
      (putSt s k v).1.q = (removeKey s.q k).drop n ++ [newEnt s k v] ∧
      (∀ m, m < n → s.limit < sumSizes ((removeKey s.q k).drop m) + (k.size + v.size)) := by
  rw [putSt_accept hz hbig, put_pre_sum h k (newEnt s k v) rfl]
  obtain ⟨p1, p2, p3⟩ := push_pre h k (newEnt s k v) rfl rfl
  obtain ⟨_, _, _, _, _, n, hq, hmin⟩ := evictSt_spec (T := s.tick + 1)
    (s := { pushed s k (newEnt s k v) with used := sumSizes (removeKey s.q k ++ [newEnt s k v]) })
    p1 rfl h.ok p2 p3
  have hes : entSize (newEnt s k v) = k.size + v.size := rfl
  have hn : n ≤ (removeKey s.q k).length := by
    apply Nat.le_of_not_lt
    intro hlt
    have := hmin (removeKey s.q k).length hlt
    simp only [pushed, List.drop_left, sumSizes_cons, sumSizes_nil, hes] at this
    omega
  refine ⟨n, hn, ?_, ?_⟩
  · simp only at hq
    rw [hq]
    simp only [pushed]
    rw [List.drop_append_of_le_length hn]
  · intro m hm
    have := hmin m hm
    simp only [pushed] at this
    rw [List.drop_append_of_le_length (by omega), sumSizes_append, sumSizes_cons, sumSizes_nil, hes] at this
    omega

theorem putSt_q_mem {s : St} {k : Key} {v : Val} (h : Inv0 s s.tick) {e' : Ent}
    (he : e' ∈ (putSt s k v).1.q) :
    (e' ∈ s.q ∧ e'.key ≠ k) ∨ (v.size ≠ 0 ∧ e' = newEnt s k v) := by
  by_cases hz : v.size = 0
  · left
    simp only [putSt, hz, if_true] at he
    rw [(removeSt_spec k h).2.1] at he
    exact mem_removeKey.mp he
  · by_cases hbig : k.size + v.size > s.limit
    · simp only [putSt, hz, hbig, if_true, if_false] at he
      rw [(removeSt_spec k h).2.1] at he
      left; exact mem_removeKey.mp he
    · obtain ⟨n, _, hq, _⟩ := putSt_accept_q h hz hbig
      rw [hq] at he
      rcases List.mem_append.mp he with he | he
      · left; exact mem_removeKey.mp (List.mem_of_mem_drop he)
      · right; exact ⟨hz, by simpa using he⟩

theorem getSt_q_mem {s : St} {k : Key} (h : Inv0 s s.tick) {e' : Ent} (he : e' ∈ (getSt s k).1.q) :
    ∃ e ∈ s.q, core e = core e' := by
  unfold getSt at he
  cases hf : findEnt s.q k with
  | none => rw [hf] at he; exact ⟨e', he, rfl⟩
  | some e =>
    rw [hf] at he
    obtain ⟨hm, hke⟩ := findEnt_some hf
    obtain ⟨p1, p2, p3⟩ := push_pre h k { e with stamp := s.tick } hke rfl
    have hsum := sum_removeKey h.nodup hf
    have hs1 : Inv0 { s with q := removeKey s.q k ++ [{ e with stamp := s.tick }] } (s.tick + 1) := by
      refine ⟨p1, ?_, h.le_limit, h.ok, p2, p3⟩
      simp only [sumSizes_append, sumSizes_cons, sumSizes_nil]
      have : entSize { e with stamp := s.tick } = entSize e := rfl
      rw [this, h.used_eq]; omega
    have hsub : ∀ x ∈ removeKey s.q k ++ [{ e with stamp := s.tick }], ∃ y ∈ s.q, core y = core x := by
      intro x hx
      rcases List.mem_append.mp hx with hx | hx
      · exact ⟨x, (mem_removeKey.mp hx).1, rfl⟩
      · simp only [List.mem_singleton] at hx; subst hx; exact ⟨e, hm, rfl⟩
    simp only at he
    split at he
    · rw [(removeSt_spec k hs1).2.1] at he
      exact hsub e' (mem_removeKey.mp he).1
    · exact hsub e' he

theorem getSt_hit {s : St} {k : Key} {v : Val} (h : (getSt s k).2 = some v) :
    ∃ e, findEnt s.q k = some e ∧ e.val = v ∧ expired s.now e.expires = false := by
  unfold getSt at h
  cases hf : findEnt s.q k with
  | none => rw [hf] at h; cases h
  | some e =>
    rw [hf] at h
    simp only at h
    split at h
    · cases h
    · rename_i hx
      refine ⟨e, rfl, ?_, by simpa using hx⟩
      simpa using h

theorem getSt_miss_of_absent {s : St} {k : Key} (h : k ∉ keys s.q) : (getSt s k).2 = none := by
  unfold getSt
  cases hf : findEnt s.q k with
  | none => rfl
  | some e =>
    obtain ⟨hm, hke⟩ := findEnt_some hf
    exact absurd (by simp only [keys, List.mem_map]; exact ⟨e, hm, hke⟩) h

theorem containsSt_q_mem {s : St} {k : Key} {T : Nat} (h : Inv0 s T) {e' : Ent}
    (he : e' ∈ (containsSt s k).1.q) : e' ∈ s.q := by
  unfold containsSt at he
  cases hf : findEnt s.q k with
  | none => rw [hf] at he; exact he
  | some e =>
    rw [hf] at he
    simp only at he
    split at he
    · rw [(removeSt_spec k h).2.1] at he; exact (mem_removeKey.mp he).1
    · exact he


theorem nodup_keys_unique {q : List Ent} (hnd : (keys q).Nodup) {x y : Ent} (hx : x ∈ q) (hy : y ∈ q)
    (hk : x.key = y.key) : x = y := by
  induction q with
  | nil => cases hx
  | cons a as ih =>
    simp only [keys, List.map_cons, List.nodup_cons, List.mem_map, not_exists, not_and] at hnd
    rcases List.mem_cons.mp hx with rfl | hx' <;> rcases List.mem_cons.mp hy with rfl | hy'
    · rfl
    · exact absurd hk.symm (hnd.1 y hy')
    · exact absurd hk (hnd.1 x hx')
    · exact ih hnd.2 hx' hy'

theorem step_get_miss (s : St) (k : Key) (h : k ∉ keys s.q) : (step s (.get k)).2 = .none := by
  simp only [step, stepCore, getSt_miss_of_absent h]

end DfModel.Proofs.C40
